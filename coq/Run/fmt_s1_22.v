From FP Require Import Lexer Parser ShowPT Digest Formatter.
From Coq Require Import String List NArith.
Import ListNotations.
Open Scope string_scope.
Set Printing Width 100000000.
Set Printing Depth 100000000.
Definition show_fres (r : fres) : string :=
  match r with
  | FOk s => "OK:" ++ sh_escaped s ""
  | FErr s => "ERR:" ++ sh_escaped s ""
  | FPanic p => "PANIC:" ++ p
  end.
Definition check (rs : list rune) : string := digest (show_fres (format_res rs)).
Definition full (rs : list rune) : string := show_fres (format_res rs).
Eval vm_compute in ("<<<M4335>>>" ++ check (runes_of_ascii "  packet
	options1 {
@calculatedFrom(
    ""\n"" )// `tick` ""quote"" 'q'
	string

int

@lengthOf(
	packetx 
        //
	// " ++ [128512]%N ++ runes_of_ascii " emoji
  	),  @tag(0

)
	@tag(0123456789 
) @tag(  10

)

match 	 //

len// @lengthOf(
    	as  
  // a // b
  // packet A { u8 x, }

  rootA

{

    [
""\" ++ [233]%N ++ runes_of_ascii """
	,
    1
,	3
]
	: charz
    ,[ ""a\""b"" 
]	// trailing space 
:

    x
    ,}  ,
	@lengthOf( i64_)match
	BodyLength  // trailing space 
    as
    //
	  roots
{ ""\n"" :u
,
}

    , repeat
	float  { options1  {

repeat  f32 len	, }
    ,  }, 
zchar[ 0123456789 ] // a // b
	chars,
@leftPad

(

'\x00' )
@calculatedFrom( ""// no comment"" )

    @calculatedFrom(""""  ) int64 rootA  // packet A { u8 x, }
    ,
}

packet
len{

    @tag(

10 // 50% %s
) 
repeat

float32
	len
	,

match
	matchKey
as 
x_y_z {  ""CRC32"" :  matchKey
,
[
	00 ,
3]	: f32a
, 
""x y"" 
  //	t
	:

    lengthOf
    10: MetaDataX
7 : // packet A { u8 x, }

MetaDataX , 
""" ++ [233]%N ++ runes_of_ascii "t" ++ [233]%N ++ runes_of_ascii """:	x_y_z

} ,

@rightPad
	(
'0'

) 
  // packet A { u8 x, }

@leftPad (  )
@tag(
    10

    ) u8x
	@lengthOf( lengthOf
)	, 
}

packet As

    {	char[]
calculatedFrom  ,  } 
options
{
calculatedFrom	=

    ""a\\""
	; 
len

=
007	;i64_=

10
;
} 
packet

Header 	 // trailing space 
		{
match o as
	matchKey
{ [3
    ,
""""
    ]
	:T , 
""{,}"": calculatedFrom	}
	,repeat
	char[  // a // b
  255

]

    u// packet A { u8 x, }
	,char[] Packet

    ,// a // b

	repeat

int64

packetx
,

@leftPad
    (  '\x00' )  @calculatedFrom(
    """" ) 
	//x
	  // @lengthOf(
  zchar{	f32 zchar `
`	,match u128

    as options1

    {
[ 
// c
  // 50% %s
  ""abc""

// a // b
,10,
65535

    ,

0

,

    ""\n""

    ,""" ++ [128512]%N ++ runes_of_ascii """

,
0123456789] :
	chars
    ,// 50% %s
00 :
	As ,

    ""a	b"":	// " ++ [128512]%N ++ runes_of_ascii " emoji

packetx,//
      10 : 
a1

,

    },
	} , 
float64 calculatedFrom 
@lengthOf( packetx
	) ,

char[
00

]

    string_
`
` ,uint8	charz
    @lengthOf(body 
) 	 // packet A { u8 x, }

  `two words` 
        // @lengthOf(
    ,
	@calculatedFrom( ""`tick`"")zchar[
00
    ]
crc
    @lengthOf( a1
)

//x
	// c
`line1
line2` 
,}
")).
Eval vm_compute in ("<<<M4242>>>" ++ check (runes_of_ascii "root packet i8i8 {
    i8 crc,
    @rightPad()
    uint64 u128 `crlf
        line`,
    uint64 _x `
        `,
    x,
    i16 As @calculatedFrom(""" ++ [128512]%N ++ runes_of_ascii """) `crlf
        line`,
    leftPad {
        u {
            zchar[4294967296] MetaDataX `crlf
                        line`,
            calculatedFrom,
            repeat u16 T `tab	here`,
            // packet A { u8 x, }
        },
        string As @calculatedFrom("""") ``,
    },
    @calculatedFrom(""" ++ [128512]%N ++ runes_of_ascii """)
    match falsey as o {
        0 : Logon,
        42 : body,
    },
    pack MetaDataX,
    u32 lengthOf @lengthOf(Packet) `line1
        line2`,
}// c

options {
    asx = false
}

packet i64_ {
    A {
        char[] f32a @lengthOf(options1) `it's`,
    },
    repeat x_y_z matchKey,
    repeat char[] x_y_z `it's`,
    @lengthOf(As)
    char[] x_y_z,
    @tag(00)
    @calculatedFrom(""" ++ [233]%N ++ runes_of_ascii "t" ++ [233]%N ++ runes_of_ascii """)
    u8 pack @calculatedFrom(""CRC32""),
}

packet roots {
    match roots as f32a {
        3 : uint8x,
        7 : u128,
        //x
        """ ++ [28040; 24687]%N ++ runes_of_ascii """ : Z9_,
        [
            7, ""a	b"", """", 7, ""packet"",
            ""packet"", ""x y""
        ] : packetx,
        ""{,}"" : u,
    },
    @lengthOf(msg_type)
    match asx as uint8x {
        [""a	b"", 0, """ ++ [28040; 24687]%N ++ runes_of_ascii """, 4294967296, 65535] : u,
        00 : options1,
        0123456789 : body,
    },
    i64_,
    @tag(65535)
    @lengthOf(lengthOf)
    Header `doc`,
    uint16 roots @calculatedFrom(""" ++ [28040; 24687]%N ++ runes_of_ascii """),
    @rightPad('0')
    match u8x as f32a {
        [""x y"", """ ++ [128512]%N ++ runes_of_ascii """, ""`tick`""] : calculatedFrom,
        ""a\""b"" : packetx,
        [0] : As,
        [""" ++ [28040; 24687]%N ++ runes_of_ascii """] : Z9_,
    },
    @lengthOf(Logon)
    match chars as len {
        [3, ""a\\""] : string_,
        [""it's"", ""a\\""] : len,
        [""\n"", 3, """ ++ [28040; 24687]%N ++ runes_of_ascii """] : rootA,
        10 : msg_type,
    },
    char[] chars @lengthOf(trueish) `{ , }`,
}")).
Eval vm_compute in ("<<<M1024>>>" ++ check (runes_of_ascii "options
    {Logon = ""{,}""
// " ++ [27880; 37322]%N ++ runes_of_ascii "
// " ++ [27880; 37322]%N ++ runes_of_ascii "
; roots =
    ""packet""  u128
    = u16 } MetaData o {
    float64 Header`it's` , Packet f32a , T leftPad
`crlf
line`
    , }
    packet _x// a // b
{ @lengthOf( Header ) match asx// `tick` ""quote"" 'q'
as
    calculatedFrom  { 3  : u 10
: MetaDataX, // c
""`tick`""
:
    As , }
    ,
    // c
    u8
calculatedFrom `u8 x,` , calculatedFrom @lengthOf(
body )  `tab	here` ,
@lengthOf(
    falsey
) char[ 00
]	msg_type
`a\`
// " ++ [27880; 37322]%N ++ runes_of_ascii "
//
, match o
    as u
// `tick` ""quote"" 'q'
//	t
{ 00 :// packet A { u8 x, }
i64_ ,  [ 007, 007, ""a\\"",
7
,
3
    // a // b
    , ""a\\"" ,
""\" ++ [233]%N ++ runes_of_ascii """ // c
,	""packet"" ] : trueish, 4294967296
:x_y_z ,
1 : options1
""CRC32""
    // `tick` ""quote"" 'q'
    :
    Header , [
// " ++ [27880; 37322]%N ++ runes_of_ascii "
/// triple
""" ++ [233]%N ++ runes_of_ascii "t" ++ [233]%N ++ runes_of_ascii """	] : msg_type },
    Z9_ crc ,
zchar[007 ] options1 @lengthOf(	MetaDataX) `say ""hi""`, }
packet charz {A
{ f32a
pack
,	} , int64// trailing space 
u
,	@leftPad (
    ' '
) string chars`{ , }` ,match charz
    as calculatedFrom {""packet"":	x ,},
    options1
stringy , @lengthOf(  i8i8
//
//x
)	zchar[
    10 ] //x
float ,	@leftPad ( )@lengthOf( T ) zchar[ // c
7 ]packetx`crlf
line`, match Packet
    // a // b
    as Pad
{ 1	: charz,
} , packetx @lengthOf(
    zchar )
,
@tag(007)@lengthOf( lengthOf
    ) match
string_// " ++ [27880; 37322]%N ++ runes_of_ascii "
as	Header { 4294967296 :u128
    }  ,
} options	{ _x // `tick` ""quote"" 'q'
= 1 ; BodyLength = 0
    f32a = // " ++ [27880; 37322]%N ++ runes_of_ascii "
u8 Pad
=""\" ++ [233]%N ++ runes_of_ascii """ ;
//
// @lengthOf(
}")).
Eval vm_compute in ("<<<M3574>>>" ++ check (runes_of_ascii "packet charz 
  // @lengthOf(
	  //
{  char[3  ]

Packet@lengthOf(	pack 
)

,
	match
	falsey
	as	Packet

    { [  ""abc"" ,0  // `tick` ""quote"" 'q'
    , ""x y""
	//x
  // " ++ [128512]%N ++ runes_of_ascii " emoji
]:crc,""a\""b""
:

    leftPad

, ""a\""b"" :

    options1 , """ ++ [28040; 24687]%N ++ runes_of_ascii """ : repeatCount, 65535

    :
x_y_z ,} ,msg_type

    {
u64 Logon	,  stringy
	@calculatedFrom( ""it's""  ) `crlf
line` ,
} ,
    //x
  //
	@lengthOf(
	rootA )
char[ 42 	 // trailing space 

	]
    rootA
`line1
line2` 
,  }

MetaData

rootA // trailing space 
	  { }
packet  MetaDataX {@lengthOf(	packetx	// @lengthOf(

)As `100% of %d`
,
	@lengthOf( matchKey
    )repeat  Logon 	 // c
	  {
	MetaDataX @lengthOf( trueish),  uint8
    asx
    @calculatedFrom( ""\" ++ [233]%N ++ runes_of_ascii """ ) ,	metadata 
        //	t
      { 
uint8x 
, //
match Logon
as

    string_ 
{// 50% %s
	[42 ,  0 ] 
: float
	,}
,
	}
    ,

uint16 falsey // " ++ [27880; 37322]%N ++ runes_of_ascii "
      @lengthOf(matchKey ) `line1
line2`,}  , 
@lengthOf(  u8x
	)char[	7 // a // b
  ]  asx @lengthOf( 	 // a // b
      Logon)

    `" ++ [233]%N ++ runes_of_ascii "`
    , 
repeat
Packet
    crc	,
    @tag( 10  )

    @leftPad
( ' '
)
    @lengthOf(
As 
)Foo
chars ,

@calculatedFrom(

    """")
i64

    u /// triple
  ,
    string f32a `it's`
,

float64
	x `" ++ [28040; 24687; 31867; 22411]%N ++ runes_of_ascii "`,
	u16 roots

    ,
/// triple
  //	t
    }  options {
int
    =	4294967296 u8x
= false ; }
")).
Eval vm_compute in ("<<<M3470>>>" ++ check (runes_of_ascii "options {
    // c1
LittleEndian // c2
= // c3
false ;
    // c5
ArrayPrefixLenType // c6
= u8 // c8a
  // c8b
;
    // c9
}
    // c10
packet // c11a
  // c11b
Reject // c12
{ int8 x // c15
, } packet Trade // c19
{ zchar[
    // c21
4 // c22a
  // c22b
] // c23a
  // c23b
msgKind // c24a
  // c24b
,
    // c25
}
    // c26
root // c27a
  // c27b
packet // c28
Leg {
    // c30
repeat
    // c31
i64 // c32a
  // c32b
Note // c33
, u8 // c35
venue // c36
, // c37a
  // c37b
@leftPad ( // c39
'0' // c40
)
    // c41
char[
    // c42
6 // c43a
  // c43b
] // c44a
  // c44b
Qty // c45a
  // c45b
,
    // c46
@rightPad ( '\x00' ) char[ // c51a
  // c51b
12
    // c52
] // c53a
  // c53b
count // c54
, repeat // c56a
  // c56b
Reject
    // c57
, repeat
    // c59
char[
    // c60
3 ] // c62a
  // c62b
Px
    // c63
, // c64a
  // c64b
u16
    // c65
lastPx
    // c66
, // c67a
  // c67b
u16 Acct
    // c69
@lengthOf( // c70a
  // c70b
Body ) // c72a
  // c72b
, // c73
match // c74
lastPx // c75a
  // c75b
as
    // c76
Body // c77
{ // c78
104
    // c79
: // c80a
  // c80b
Reject // c81
, // c82
61 : Trade
    // c85
, // c86a
  // c86b
} // c87a
  // c87b
, // c88
} ")).
Eval vm_compute in ("<<<M4275>>>" ++ check (runes_of_ascii "packet crc {
    repeat zchar[7] Foo,
    repeat u64 pack `u8 x,`,
    u8x {
        char[] charz @lengthOf(i8i8),
        repeat crc,
        metadata {
            charz,
            options1 string_ `crlf
                        line`,
        },
        char[255] trueish,
    },
    @lengthOf(As)
    @tag(65535)
    u64 i64_ `it's`,
    len {
        metadata {
            zchar[00] trueish,// c
        },
        zchar[65535] chars,
        match string_ as int {
            65535 : metadata,
            """ ++ [128512]%N ++ runes_of_ascii """ : u,
            [3, 3] : As,
            42 : int,
            1 : o,
        },
        // " ++ [128512]%N ++ runes_of_ascii " emoji
        // @lengthOf(
    },
    @calculatedFrom(""a\""b"")
    char[65535] _x `
        `,
    @calculatedFrom(""1"")
    u128 rootA,// packet A { u8 x, }
    int64 i64_ @lengthOf(charz) `crlf
        line`,
    repeat roots,
    @lengthOf(_x)
    float @calculatedFrom(""x y"") `doc`,
}

root packet packetx {
    @rightPad()
    repeat u64 uint8x,
    @calculatedFrom("""")
    @calculatedFrom(""" ++ [233]%N ++ runes_of_ascii "t" ++ [233]%N ++ runes_of_ascii """)
    i32 pack,
    repeat f64 T `say ""hi""`,
}

MetaData Logon {
    u8x Foo,
    char[65535] int,
}")).
Eval vm_compute in ("<<<M239>>>" ++ check (runes_of_ascii "root packet charz
    {
o A , } root packet charz
{char[] repeatCount  @lengthOf(  tag )	`line1
line2` , repeat pack`two words`
,	T { // packet A { u8 x, }
string rootA @calculatedFrom( ""{,}"" ) ,}, repeat
// " ++ [27880; 37322]%N ++ runes_of_ascii "
// " ++ [128512]%N ++ runes_of_ascii " emoji
As Foo ,
// packet A { u8 x, }
// c
char[
    3 ]trueish , @calculatedFrom( """"  ) @lengthOf( metadata )
@leftPad (
    '0' )  repeat u64 float`u8 x,`
, stringy{ metadata {//x
u8 f32a
// c
// " ++ [27880; 37322]%N ++ runes_of_ascii "
`" ++ [28040; 24687; 31867; 22411]%N ++ runes_of_ascii "`, repeat char[
    /// triple
    007
    ] f32a`two words`,  } , asx , float64
i8i8
    ,
//x
// packet A { u8 x, }
} , match lengthOf
as zchar {	00 // c
:
o
,
}, }options // packet A { u8 x, }
{
tag
    =65535;
/// triple
// 50% %s
float = 0}	packet T {
repeat
    // 50% %s
    x_y_z o
`it's` ,A { Pad@calculatedFrom(	""\n"" ),	zchar[00
    ]i64_
@lengthOf( Z9_ )
`u8 x,` ,
u64 u8x
@calculatedFrom(
    // trailing space 
    ""it's"" )
, }
, match
Header as f32a { [
    1
    , // " ++ [27880; 37322]%N ++ runes_of_ascii "
0123456789  ] : int } , // packet A { u8 x, }
char[]
    roots @calculatedFrom("""" )`say ""hi""` ,
    @leftPad ( ) a1 chars , }
//	t
")).
Eval vm_compute in ("<<<M941>>>" ++ check (runes_of_ascii "MetaData falsey { } root packet
trueish /// triple
{
repeat uint32 leftPad ,
    char[ 4294967296 ]len
@calculatedFrom( """ ++ [128512]%N ++ runes_of_ascii """ )`doc`  , @lengthOf(
packetx)	repeat int16 // `tick` ""quote"" 'q'
roots `u8 x,`
,@rightPad(  ' '/// triple
) repeat char[ 00 ]
MetaDataX , x
    @calculatedFrom(
""`tick`""
    ),float64
    lengthOf `{ , }` // trailing space 
,
@lengthOf(i64_ )int16 calculatedFrom // c
@lengthOf( u	), } packet stringy
{ i64_
`tab	here`
,
rootA
    Z9_ ,
string
    Pad
@calculatedFrom(// `tick` ""quote"" 'q'
""// no comment""
    )	`a\`, @rightPad ( '\x00') @calculatedFrom(""{,}"" ) @calculatedFrom( ""CRC32"" ) falsey
    `doc`,  match Logon as tag	{3: f32a, ""abc""  : o,255: A
""abc"" : leftPad , },
@calculatedFrom(
// @lengthOf(
// " ++ [128512]%N ++ runes_of_ascii " emoji
""" ++ [233]%N ++ runes_of_ascii "t" ++ [233]%N ++ runes_of_ascii """ // packet A { u8 x, }
)repeat
u32
//
// " ++ [27880; 37322]%N ++ runes_of_ascii "
_x
`100% of %d`
    , zchar[ 42 ] body `{ , }`,
    zchar[
//x
// a // b
10//x
]	u128	`u8 x,`	, int @calculatedFrom(
    /// triple
    ""abc""  ) ,repeat
    options1
    // trailing space 
    , }
")).
Eval vm_compute in ("<<<M3696>>>" ++ check (runes_of_ascii "
packet
	stringy {  @leftPad 
()  /// triple
@leftPad 	 // @lengthOf(
    ( 
'0'	) string string_ , }
options {  //x
	}
    root
packet chars//x
		{ @tag( 1 ) @tag(
00)  // " ++ [128512]%N ++ runes_of_ascii " emoji
rootA	,
@calculatedFrom(
""abc""  )x_y_z
, repeat	chars
{uint8x

@calculatedFrom( ""CRC32""
    )

`// not a comment` , match  a1
	as

lengthOf	//x

  {
""// no comment""  //	t
  :  // a // b
  packetx

    ,
},
	uint64 int
    `100% of %d` ,

zchar[

42]
Packet

    `two words`
,
    } 
        //x
, @leftPad (	'0'
	)
	    // " ++ [128512]%N ++ runes_of_ascii " emoji
  // " ++ [128512]%N ++ runes_of_ascii " emoji
  	@leftPad
	(
	)  @leftPad (
    )

    leftPad

    {
repeat i8 roots, 
i16

float
	@lengthOf(	string_	)	// " ++ [128512]%N ++ runes_of_ascii " emoji
, 
repeat
	Logon

    msg_type,
    repeat x

    { repeat zchar[

3  ] _x`two words` ,
string i8i8	`u8 x,`,  i32 float @calculatedFrom(""\" ++ [233]%N ++ runes_of_ascii """
)// c
    ,
} 	 // " ++ [27880; 37322]%N ++ runes_of_ascii "
    ,

} , 	 // c

repeat

    uint64 
i64_
	,
string options1 , 
char[ 
1]

    i8i8 , 
}// @lengthOf(
 
")).
Eval vm_compute in ("<<<M4038>>>" ++ check (runes_of_ascii "root packet msg_type {
}

packet calculatedFrom {
    // " ++ [128512]%N ++ runes_of_ascii " emoji
    // " ++ [27880; 37322]%N ++ runes_of_ascii "
    repeat int32 Pad,
    //
}

MetaData Header {
    char[65535] As,
    char[65535] A `tab	here`,
    //
    char[0] metadata,
    string Pad,
}

options {
    crc = ""a\""b"";
    options1 = ""// no comment"";
}

packet Pad {
    repeat u8 i64_,
    @tag(255)
    i64 BodyLength,
    @tag(0)
    repeat BodyLength u `doc`,
    match BodyLength as zchar {
        65535 : metadata,
        00 : MetaDataX,
        7 : roots,
        """" : As,
        007 : _x,
        [
            """ ++ [233]%N ++ runes_of_ascii "t" ++ [233]%N ++ runes_of_ascii """, ""it's"", 3, """ ++ [128512]%N ++ runes_of_ascii """, 3,
            007
        ] : stringy,
    },
    repeat tag float,// packet A { u8 x, }
    @tag(0)
    @rightPad('0')
    repeat Z9_ {
        char[] lengthOf @calculatedFrom(""\" ++ [233]%N ++ runes_of_ascii """) `100% of %d`,
        repeat zchar[255] i8i8 `u8 x,`,
        repeat i16 falsey ``,
        char[10] stringy,
    },
    u16 int,
}")).
Eval vm_compute in ("<<<M3464>>>" ++ check (runes_of_ascii "// top
options // c0a
  // c0b
{ // c1a
  // c1b
LittleEndian
    // c2
=
    // c3
true // c4a
  // c4b
; FixedStringPadChar // c6a
  // c6b
= // c7a
  // c7b
'0' // c8a
  // c8b
; // c9a
  // c9b
} // c10
packet
    // c11
Heartbeat { zchar[ // c14a
  // c14b
5 // c15a
  // c15b
] // c16
sym
    // c17
, // c18a
  // c18b
repeat // c19a
  // c19b
char[ // c20a
  // c20b
3 ] // c22a
  // c22b
OrderId , } root
    // c26
packet
    // c27
Quote { u64 lastPx // c31a
  // c31b
, repeat u8 venue
    // c35
,
    // c36
Heartbeat
    // c37
, // c38
InSym1 // c39
{ // c40a
  // c40b
char[ // c41
3
    // c42
]
    // c43
Acct // c44a
  // c44b
, // c45a
  // c45b
char[]
    // c46
lastPx ,
    // c48
Heartbeat // c49a
  // c49b
,
    // c50
repeat // c51a
  // c51b
string x // c53a
  // c53b
, // c54a
  // c54b
} // c55a
  // c55b
, }
    // c57
")).
Eval vm_compute in ("<<<M3480>>>" ++ check (runes_of_ascii "
options {  ArrayPrefixLenType
    =  u64 ;	FixedStringPadFromLeft	=
false
	;
	}packet
	Trade { }
	packet
Reject {

    InPx94 {	repeat
Trade

, string

    count
, 
InFlags14	{	u8
    pad0,}

    ,repeat 
InSide239 { 
char[ 8

    ]lastPx

,
	repeat
i64
clOrdID,
	i64 Acct,

    }
    ,
    },

repeat
	string
clOrdID

    ,

    zchar[

    5

] sym  ,}
packet
    Quote
{ repeat 
Reject  ,
}packet  Logon
{repeat
Reject
    ,
	char[]Acct,
@leftPad ( 
'0' )
char[	4	] tag7  ,} root packet
    Fill	{
	@rightPad	(
	'0' 
)
	char[
	1

]

    count 
,
u8

    f1 ,u32

    Qty	@lengthOf(
Body )

    ,  match

    f1 as

    Body

    {
[

    195, 3 ]: Reject

,110 :Quote,
	141
	:
	Logon  ,
	21 :Trade

,
}

    ,
u32
	Flags

    @calculatedFrom(""CRC32""
)
,}
")).
Eval vm_compute in ("<<<M247>>>" ++ check (runes_of_ascii "packet As
{
    MetaDataX  crc,repeat char[] BodyLength,
    repeat
i8 Pad
    //x
    `
`
    , u8// trailing space 
pack @lengthOf( Foo ) `say ""hi""` , @tag( 0123456789
) float {i32
    falsey , } ,  match // c
roots as // a // b
Packet{
""`tick`""
    :
float
,  10 :	body [ 7,00 , // " ++ [27880; 37322]%N ++ runes_of_ascii "
7 ,
// 50% %s
/// triple
3 ,  """ ++ [233]%N ++ runes_of_ascii "t" ++ [233]%N ++ runes_of_ascii """ , 65535
,
""\n"" ] : crc/// triple
, } ,uint16 metadata ,
    }
    MetaData
    // `tick` ""quote"" 'q'
    options1 {
// 50% %s
//
char[
// @lengthOf(
// packet A { u8 x, }
65535 ] roots `crlf
line`
,	i16  MetaDataX , }
    // @lengthOf(
    options
{ repeatCount = char;
charz=
    false rootA=
    255  ; packetx
//x
// packet A { u8 x, }
= '\x00' ; } options// " ++ [128512]%N ++ runes_of_ascii " emoji
{ Foo =  '\x00'; uint8x = true
; x_y_z =  7 //
; } packet Logon{ }")).
Eval vm_compute in ("<<<M145>>>" ++ check (runes_of_ascii "
root
packet
crc {u32 metadata
, As  falsey//x
`crlf
line` , repeatCount { repeat x_y_z //	t
{
repeat zchar
    crc `u8 x,`
/// triple
// @lengthOf(
,
    // trailing space 
    } ,	char[] MetaDataX @lengthOf( Foo )
    `" ++ [28040; 24687; 31867; 22411]%N ++ runes_of_ascii "`
    , } , } root packet len
    { }
packet//x
roots  { @tag(
    007 )rootA
{
    u32
Z9_ `doc` ,  } , repeat rootA, @tag( 1
) @lengthOf(
//	t
// 50% %s
rootA	)  u64 packetx // trailing space 
,
repeat f64
    u8x ,f32 string_ `two words` , char[ 4294967296// @lengthOf(
]  charz @calculatedFrom(
""CRC32""	), char[]options1 , char[ 42 //
] // a // b
Logon @calculatedFrom(
// c
// @lengthOf(
""" ++ [233]%N ++ runes_of_ascii "t" ++ [233]%N ++ runes_of_ascii """)
    `tab	here`,@rightPad
    ( // @lengthOf(
' '  )match matchKey as packetx	{ 007 // trailing space 
: len , }	,
}
")).
Eval vm_compute in ("<<<M500>>>" ++ check (runes_of_ascii "MetaData int { int zchar  , }packet
    string_	{ }
packet len { float@lengthOf( Z9_
    ),
    } root packet int {
    uint64 i64_
    , @lengthOf( Logon ) string
float ,
Header
o ,
@tag( 7 ) match Pad as  u128
    // " ++ [27880; 37322]%N ++ runes_of_ascii "
    { 0: BodyLength
,},
    int64 float
    @lengthOf(i64_
)	,	repeat
//x
// 50% %s
string// " ++ [128512]%N ++ runes_of_ascii " emoji
packetx
, @leftPad (  ' ' ) @lengthOf(
stringy ) @calculatedFrom( ""CRC32"") repeat metadata pack ,
    // c
    @lengthOf( Foo
    ) a1
    //	t
    , } packet pack {	@tag(// " ++ [128512]%N ++ runes_of_ascii " emoji
7 )
zchar[ 255 ] body @calculatedFrom( ""// no comment"" ), repeat zchar[ 255 ]
    metadata, char[ 42
] i8i8
@calculatedFrom(
    ""packet"" )`two words` , Foo@calculatedFrom( """ ++ [28040; 24687]%N ++ runes_of_ascii """) `tab	here`
, }
")).
Eval vm_compute in ("<<<M3635>>>" ++ check (runes_of_ascii "  packet chars{ char
    options1
, } 

// @lengthOf(
		packet
tag {
match 
msg_type
    as
leftPad {
42:options1 ,
	""""
:
rootA  7	:

    asx
	,[	10
    ,
	""a\\""

    , 
""a\""b""
,
007 
, 00,
    ""a	b""  ] :

Logon ,	007 
:
	calculatedFrom

, 
[255
	, 
    // `tick` ""quote"" 'q'
    10 

// " ++ [27880; 37322]%N ++ runes_of_ascii "
	  //x
    ,	//
	0
,
1
,  """ ++ [233]%N ++ runes_of_ascii "t" ++ [233]%N ++ runes_of_ascii """
	,
""" ++ [233]%N ++ runes_of_ascii "t" ++ [233]%N ++ runes_of_ascii """]  :

    repeatCount} ,string matchKey, 
@calculatedFrom(
"""" )
	repeat
	int64 repeatCount 
`line1
line2`
	,
}

    MetaData

    trueish{
char[] 
Foo
    ,
float
	matchKey  , // " ++ [128512]%N ++ runes_of_ascii " emoji
  float32  Header ,BodyLength matchKey ,
    // `tick` ""quote"" 'q'
	// trailing space 
      i64
T
	,
Pad  
  // c

	//
  	int 
`a\`
,	}
")).
Eval vm_compute in ("<<<M878>>>" ++ check (runes_of_ascii "
options {BodyLength = false ;o=string
    ; falsey = true Header =char[ 42	] ; // @lengthOf(
pack =00;
}
    root
    packet T	{ }
packet i8i8{match body as MetaDataX
/// triple
// @lengthOf(
{7 :
    lengthOf ,
} ,} root packet msg_type {
char[]len , // c
@calculatedFrom(
    // a // b
    ""abc""
    ) i64 //
tag @lengthOf(
    int) `doc` ,// @lengthOf(
@tag(
    //x
    0// " ++ [27880; 37322]%N ++ runes_of_ascii "
) match x
as leftPad	{ // " ++ [27880; 37322]%N ++ runes_of_ascii "
""{,}"" :
zchar ""abc""
//
// c
:u128// trailing space 
,	""" ++ [128512]%N ++ runes_of_ascii """ : float,
    //
    [ ""x y""  , 10 , // a // b
""`tick`"" , 3 ,	7]: Packet ""`tick`"":calculatedFrom , } ,
}MetaData // 50% %s
Pad {i8 charz ,
uint8x// trailing space 
leftPad `" ++ [233]%N ++ runes_of_ascii "` , }")).
Eval vm_compute in ("<<<M4455>>>" ++ check (runes_of_ascii "// a // b
MetaData
T
{ 
    // @lengthOf(
// trailing space 
  Foo

Logon	,

Logon lengthOf

, char[
00
]
    //

  // @lengthOf(
    pack  ,
    char[  7 	 //

  ]
    // " ++ [128512]%N ++ runes_of_ascii " emoji
	i8i8`line1
line2`	, 
}	packet
    trueish // trailing space 
      {

    @calculatedFrom( 
""abc"" )@leftPad	(
	'0'
    )@lengthOf(	trueish )uint8x, 
match

x as Packet//

  {	// a // b
  	""" ++ [128512]%N ++ runes_of_ascii """

    :repeatCount , [
007 ,  255, //x
4294967296
, 255 	 // a // b
    ,""" ++ [28040; 24687]%N ++ runes_of_ascii """

, ""\n"" 	 // a // b

, ""\" ++ [233]%N ++ runes_of_ascii """, 
""abc""

    ]
:
A ,
""abc"": packetx
,  }
, @tag(
	7 
)

    @lengthOf(

    msg_type
) @tag(  00
) int

pack
    `" ++ [28040; 24687; 31867; 22411]%N ++ runes_of_ascii "`

, 
}
// a // b
")).
Eval vm_compute in ("<<<M3742>>>" ++ check (runes_of_ascii "packet packetx {
    @calculatedFrom(""`tick`"")
    // @lengthOf(
    uint8x @calculatedFrom(""{,}"") `it's`,
}

options {
    msg_type = char[10]
    BodyLength = char[255]
    Z9_ = ""a	b""
}

options {
    x_y_z = ' ';
}

packet u {
    char[] BodyLength,
    uint32 Header @lengthOf(packetx),
    As Header,
    @calculatedFrom(""// no comment"")
    @lengthOf(uint8x)
    match u128 as matchKey {
        [3, ""\" ++ [233]%N ++ runes_of_ascii """, ""\" ++ [233]%N ++ runes_of_ascii """] : calculatedFrom,
        0123456789 : o,
        10 : rootA,
    },//
    zchar[0123456789] BodyLength @lengthOf(repeatCount),
}

packet leftPad {
    @tag(007)
    repeat string packetx,
}")).
Eval vm_compute in ("<<<M3529>>>" ++ check (runes_of_ascii "packet	x_y_z
{ 
@tag(

00  // @lengthOf(
	)i16 
packetx , 
string  stringy @lengthOf(u

    ),repeat packetx ,
@rightPad (	'\x00'
	)	@tag(

007
)	uint64
    f32a

    @lengthOf(

    asx

    ),
	msg_type @calculatedFrom( 
""a\""b"" ), string_@lengthOf(	packetx
),char[]calculatedFrom , @lengthOf(

msg_type
) @calculatedFrom(
"""" 
)
	@rightPad
(
    '0')rootA	,@leftPad (  ' '

)
	match

_x  as	string_  {00

: chars , 
} ,

u32
	Z9_ `" ++ [233]%N ++ runes_of_ascii "`  ,	} 
MetaData i64_

    //
//x
      { u8x	//	t
  Logon
    , 
char	Z9_	,char[]Packet  `u8 x,`
	, char[
	10 ] // a // b
options1
,
}
")).
Eval vm_compute in ("<<<M4223>>>" ++ check (runes_of_ascii "options {
    o = ""packet""
    body = true
    tag = char[7];
    rootA = """"
    Foo = string;
}

MetaData zchar {
    int16 falsey `// not a comment`,//	t
    char[] u128,
    f64 leftPad `
        `,
}

packet metadata {
    string repeatCount,
    o {
        match leftPad as lengthOf {
            [0123456789, ""1""] : x_y_z,
            [""" ++ [128512]%N ++ runes_of_ascii """] : i8i8,
            [""a\""b"", ""a	b""] : Foo,
            [""\" ++ [233]%N ++ runes_of_ascii """] : Pad,
            [
                ""a	b"", 42, """ ++ [233]%N ++ runes_of_ascii "t" ++ [233]%N ++ runes_of_ascii """, 3, """ ++ [28040; 24687]%N ++ runes_of_ascii """,
                00, 7
            ] : packetx,
            42 : falsey,
        },
    },
}")).
Eval vm_compute in ("<<<M1249>>>" ++ check (runes_of_ascii "packet _x
    {string lengthOf  `two words` , @rightPad  (	)uint32 calculatedFrom , @lengthOf(
float )
    len leftPad ,i32 A ,
@lengthOf( i64_
    )	options1 @lengthOf(u) `" ++ [28040; 24687; 31867; 22411]%N ++ runes_of_ascii "`
// 50% %s
// 50% %s
,@tag( 1
    )
@tag(//
7 ) @calculatedFrom( ""a	b"" )match Z9_ as
crc{ [65535
    , 255
,
    """"
    ,
    4294967296
    ,
    007 ] : u128 ,
42 :int , [ 0  ]: i8i8 """ ++ [128512]%N ++ runes_of_ascii """
    // c
    :	Foo ,
[ 4294967296
] :float , 255// packet A { u8 x, }
: Foo
, } , options1`it's`
, char[] matchKey  @calculatedFrom(	""1"" )  `
`	, uint16
    a1`it's` , }

")).
Eval vm_compute in ("<<<M118>>>" ++ check (runes_of_ascii "packet crc{
    } packet pack {repeat _x Foo // `tick` ""quote"" 'q'
,@lengthOf( string_
    )
    @rightPad ( ) @calculatedFrom( ""\n"")
charz  { char[ 42 ]
a1 , //x
repeat T // `tick` ""quote"" 'q'
{ repeat zchar[ 3
    ] T , } , match  i64_  as	trueish { ""`tick`""
:
/// triple
// packet A { u8 x, }
trueish , [""" ++ [233]%N ++ runes_of_ascii "t" ++ [233]%N ++ runes_of_ascii """, 0123456789] : Foo
,
    """"
    :
    x_y_z [ ""\" ++ [233]%N ++ runes_of_ascii """ // trailing space 
, 3
, ""a	b"" , ""\" ++ [233]%N ++ runes_of_ascii """
    ,
""x y""
    , ""1"" , ""a	b""
, ""CRC32"" ] : asx [
    255 ] : leftPad  ,
42 :
    u8x
, }
    , } ,
    o ,}
")).
Eval vm_compute in ("<<<M3239>>>" ++ check (runes_of_ascii "// top
packet
    // c0
roots // c1
{ // c2
@lengthOf( // c3
Pad
    // c4
) char[ // c6
4294967296
    // c7
]
    // c8
options1 @calculatedFrom(
    // c10
""`tick`""
    // c11
)
    // c12
,
    // c13
lengthOf // c14a
  // c14b
, // c15
@tag(
    // c16
7 ) // c18
repeat
    // c19
T
    // c20
, // c21
@calculatedFrom( // c22a
  // c22b
""a	b""
    // c23
) // c24a
  // c24b
char[] // c25a
  // c25b
Packet
    // c26
@lengthOf(
    // c27
_x ) // c29a
  // c29b
`doc` // c30
, // c31
} ")).
Eval vm_compute in ("<<<M3999>>>" ++ check (runes_of_ascii "// top
packet P1 {
    // c2
    u8 a,// c5
}

packet P2 {
    // c9
    P1,
    // c11
}// c12

packet P3 {
    P2,
    // c17
    P1,// c19
}

// c20
packet P4 {
    // c23a
    // c23b
    repeat P3,
    P2,// c28a
    // c28b
}

root packet P5 {
    // c33
    P4,// c35
    P3,
    P1,
    u8 K,// c42
    match K as Body {
        // c47a
        // c47b
        4 : P4,
        3 : P3,
        2 : P2,
        1 : P1,
        // c63
    },
    // c65
}// c66")).
Eval vm_compute in ("<<<M599>>>" ++ check (runes_of_ascii "  packet	Header{
    @tag(
    0 )	repeat string_ zchar ,
char
    Z9_ @lengthOf( charz)
    ,char[]Packet ,
    // c
    @lengthOf( stringy
)
    @tag(7  ) @calculatedFrom( ""`tick`""	)float32 string_`" ++ [233]%N ++ runes_of_ascii "`
, } MetaData charz
    {
int32 string_ ,
    }
root
    packet	int
{ @calculatedFrom(
    ""a	b""
) zchar[
    65535 ] x_y_z `crlf
line`
    , @leftPad (
) o
    `" ++ [28040; 24687; 31867; 22411]%N ++ runes_of_ascii "` , uint8
leftPad@calculatedFrom(
    """ ++ [128512]%N ++ runes_of_ascii """  ), stringy len //x
`it's` ,
}
")).
Eval vm_compute in ("<<<M3765>>>" ++ check (runes_of_ascii "packet charz

{ repeat	As{
rootA	@calculatedFrom(
""" ++ [28040; 24687]%N ++ runes_of_ascii """
	)`crlf
line` ,
zchar[ 0 ]	// trailing space 
	  u8x ,
	int@lengthOf( u8x	// " ++ [128512]%N ++ runes_of_ascii " emoji
      )  ,
	}
,
    @rightPad (
    )  uint32	a1 @calculatedFrom(
    ""x y"" )
, 
// " ++ [128512]%N ++ runes_of_ascii " emoji
// " ++ [128512]%N ++ runes_of_ascii " emoji
  }

    packet
Packet{

@rightPad ( '0'  )

    repeat matchKey `it's`

    , }

    root	packet
Packet  {
	u32

    f32a @calculatedFrom(  ""a\\"" 
)
`u8 x,`
    ,  }
")).
Eval vm_compute in ("<<<M903>>>" ++ check (runes_of_ascii "packet a1{ x@calculatedFrom( ""1""  )  `
`//x
,@lengthOf( calculatedFrom )
    @calculatedFrom(
    ""it's"") string i64_ @calculatedFrom( """ ++ [128512]%N ++ runes_of_ascii """ ) , int64
u128 ,
@lengthOf(
    As
    )	matchKey tag,
}	options{ // trailing space 
metadata = uint16
; a1 = float64 f32a = // trailing space 
char[	00
    // @lengthOf(
    ] ;
// packet A { u8 x, }
//x
u =	""" ++ [28040; 24687]%N ++ runes_of_ascii """
// packet A { u8 x, }
// trailing space 
a1
='0' ;
}
")).
Eval vm_compute in ("<<<M3671>>>" ++ check (runes_of_ascii "packet string_ {
    // c
    matchKey @calculatedFrom(""it's""),
    @tag(65535)
    char[255] stringy,
    @leftPad(' ')
    @rightPad('0')
    u64 leftPad @calculatedFrom(""abc""),
    @calculatedFrom(""" ++ [233]%N ++ runes_of_ascii "t" ++ [233]%N ++ runes_of_ascii """)
    repeat u,
    match string_ as packetx {
        ""packet"" : Pad,
        1 : metadata,
        ""`tick`"" : a1,
        // 50% %s
        """ ++ [128512]%N ++ runes_of_ascii """ : charz,
    },
    repeat zchar[10] _x,
}")).
Eval vm_compute in ("<<<M3607>>>" ++ check (runes_of_ascii "  MetaData	string_
	{x 
charz

    `say ""hi""`,
options1 options1

    `line1
line2`
	, }packet tag{@lengthOf(zchar)calculatedFrom zchar  , @calculatedFrom(	""`tick`""	) Foo
    /// triple
  //
`tab	here`// trailing space 

,match
	packetx	/// triple

	as

Pad {[
// `tick` ""quote"" 'q'
  // trailing space 
	""packet""

    , ""a	b"" , """ ++ [233]%N ++ runes_of_ascii "t" ++ [233]%N ++ runes_of_ascii """ ,""abc""
, 
255	]
:falsey } ,
    } ")).
Eval vm_compute in ("<<<M4121>>>" ++ check (runes_of_ascii "// top
options {
    // c1
}// c2

root packet u {
    // c6
    @rightPad()
    // c9
    @tag(42)
    // c12
    @calculatedFrom("""")
    // c15
    repeat u8 msg_type,// c19
    @lengthOf(stringy)
    // c22
    @leftPad('\x00')
    // c26
    @tag(4294967296)
    // c29
    A `crlf
        line`,// c32
    zchar[1] asx `" ++ [233]%N ++ runes_of_ascii "`,// c38
    charz,// c40
}// c41")).
Eval vm_compute in ("<<<M4371>>>" ++ check (runes_of_ascii "
options
	{

    LittleEndian

    =
true 
;

    StringPrefixLenType
=
u32

;

    FixedStringPadFromLeft
	= false 
;

    FixedStringPadChar
	=
'0'	;

    }
packet Party

{ 
int16 Acct  , } packet

    Quote{	}
    root packet

Order 
{ string
    Side2 
,
repeat	string OrderId

,
repeat string venue

    , Quote , }
")).
Eval vm_compute in ("<<<M3677>>>" ++ check (runes_of_ascii "root
    packet //
repeatCount {
	char[]
	crc  `{ , }` 

    // `tick` ""quote"" 'q'

, 
T
{
i64_
    // a // b
    /// triple
	asx
	,

}
	, 

    // " ++ [27880; 37322]%N ++ runes_of_ascii "
@leftPad  ( '0')

    char[  
      /// triple
		00 ]a1	@lengthOf( Logon	)
    // c
`it's`
,@tag(	00
)
@calculatedFrom(""" ++ [233]%N ++ runes_of_ascii "t" ++ [233]%N ++ runes_of_ascii """ ) int32	x ,

}root
packet	tag  {

    }")).
Eval vm_compute in ("<<<M1268>>>" ++ check (runes_of_ascii "packet Logon
{
    tag @lengthOf( Packet
    ) `a\`	, u64 u128,crc , @lengthOf( A// " ++ [27880; 37322]%N ++ runes_of_ascii "
) match
rootA  as  chars {
[
    00 , ""// no comment"",  65535
// " ++ [27880; 37322]%N ++ runes_of_ascii "
//	t
,
65535 ,
""CRC32"",""\" ++ [233]%N ++ runes_of_ascii """, 1 ] : u128 , [
""\" ++ [233]%N ++ runes_of_ascii """,
1 ,""""
] : rootA 255
    : Pad
, //	t
0123456789// trailing space 
:
x_y_z	""{,}"" : float 7:packetx ,}
,}
")).
Eval vm_compute in ("<<<M3845>>>" ++ check (runes_of_ascii "MetaData A {
    float32 u128,
    metadata x_y_z,
    zchar[3] zchar,
    u16 u8x,
}

packet Packet {
    @calculatedFrom("""")
    rootA float ``,
    int32 rootA,
    repeat float BodyLength `crlf
    line`,
    float @lengthOf(u128),
}// `tick` ""quote"" 'q'

MetaData len {
    A Foo `100% of %d`,
}")).
Eval vm_compute in ("<<<M3242>>>" ++ check (runes_of_ascii "// top
MetaData // c0
Foo // c1a
  // c1b
{
    // c2
zchar[ // c3a
  // c3b
0 // c4
] // c5
matchKey
    // c6
, // c7a
  // c7b
}
    // c8
options // c9
{ // c10
lengthOf // c11a
  // c11b
= // c12a
  // c12b
i32
    // c13
u // c14
= // c15a
  // c15b
00
    // c16
; // c17
} // c18
")).
Eval vm_compute in ("<<<M235>>>" ++ check (runes_of_ascii "packet
stringy
{ @lengthOf( string_
)matchKey
    @lengthOf( float
)
, @leftPad
(  '0' ) match i8i8 as x
    {[65535 , 10 , 4294967296] : repeatCount,""// no comment"" : // 50% %s
stringy ,
} , }MetaData repeatCount { u32 metadata, } MetaData	crc {
repeatCount f32a ``
    , }")).
Eval vm_compute in ("<<<M1662>>>" ++ check (runes_of_ascii "// 50% %s
packet	a1
    { zchar[
// a // b
// 50% %s
007]
T `it's`
    ,@rightPad
    // a // b
    (
'\x00')
    o repeatCount , }  packet Logon {  }packet	Logon //x
{ repeat // " ++ [128512]%N ++ runes_of_ascii " emoji
uint16 u128
    //
    `a\`,
falsey falsey
@calculatedFrom(""packet"" ) ,
    } 	 ")).
Eval vm_compute in ("<<<M1702>>>" ++ check (runes_of_ascii "// 50% %s
packet	a1
    { zchar[
// a // b
// 50% %s
007]
T `it's`
    ,@rightPad
    // a // b
    (
'\x00')
    o repeatCount , }  packet Logon {  }packet	Logon //x
{ repeat // " ++ [128512]%N ++ runes_of_ascii " emoji
uint16 u128
    //
    `a\`,
'1'falsey
@calculatedFrom(""packet"" ) ,
    } 	 ")).
Eval vm_compute in ("<<<M1543>>>" ++ check (runes_of_ascii "// 50% %s
packet	a1
    { zchar[
// a // b
// 50% %s
007 T
] `it's`
    ,@rightPad
    // a // b
    (
'\x00')
    o repeatCount , }  packet Logon {  }packet	Logon //x
{ repeat // " ++ [128512]%N ++ runes_of_ascii " emoji
uint16 u128
    //
    `a\`,
falsey
@calculatedFrom(""packet"" ) ,
    } 	 ")).
Eval vm_compute in ("<<<M1618>>>" ++ check (runes_of_ascii "// 50% %s
packet	a1
    { zchar[
// a // b
// 50% %s
007]
T `it's`
    ,@rightPad
    // a // b
    (
'\x00')
    o repeatCount , }  packet Logon {  packet}	Logon //x
{ repeat // " ++ [128512]%N ++ runes_of_ascii " emoji
uint16 u128
    //
    `a\`,
falsey
@calculatedFrom(""packet"" ) ,
    } 	 ")).
Eval vm_compute in ("<<<M1676>>>" ++ check (runes_of_ascii "// 50% %s
packet	a1
    { zchar[
// a // b
// 50% %s
007]
T `it's`
    ,@rightPad
    // a // b
    (
'\x00')
    o repeatCount , }  packet Logon {  }packet	Logon //x
{ repeat // " ++ [128512]%N ++ runes_of_ascii " emoji
uint16 u128
    //
    `a\`,
falsey
@calculatedFrom(""packet""  ,
    } 	 ")).
Eval vm_compute in ("<<<M3870>>>" ++ check (runes_of_ascii "MetaData charz {
    msg_type metadata `two words`,
    //
    char[7] uint8x `two words`,
    i16 leftPad,
    // " ++ [128512]%N ++ runes_of_ascii " emoji
    // c
    float64 repeatCount ``,
}

options {
    o = false;
    packetx = true;
    float = ""it's"";
    f32a = ""\n"";
    Z9_ = 0
}")).
Eval vm_compute in ("<<<M4>>>" ++ check (runes_of_ascii "packet //x
body {
    @tag(  007 ) repeat T asx `two words`
, @calculatedFrom( """ ++ [128512]%N ++ runes_of_ascii """ )// c
zchar[ 65535]  charz @lengthOf( trueish
)	,
    // a // b
    string packetx	`// not a comment` ,
@rightPad ( ' ') match u8x as	charz {""x y"" :
int ,}  , // c
}

")).
Eval vm_compute in ("<<<M1064>>>" ++ check (runes_of_ascii "MetaData uint8x
{i8	x_y_z , char[ 255  ] repeatCount `{ , }`
    , }options { u= false options1= 0123456789 BodyLength	= 255
;lengthOf=
""`tick`"" ; u
    =	' '}
MetaData Header {  zchar[0123456789] Z9_ ,int32 Header
, char[007 ] A`
`	, } //	t")).
Eval vm_compute in ("<<<M3891>>>" ++ check (runes_of_ascii "packet Sub {
    u8 a,
    @calculatedFrom(""CRC16"")
    i16 SubSum,
}

root packet Frame {
    u16 MsgType,
    u16 BodyLen @lengthOf(Body),
    Sub Body,
    string note,
    @calculatedFrom(""CRC16"")
    i16 Checksum,
    u8 tail,
}")).
Eval vm_compute in ("<<<M1077>>>" ++ check (runes_of_ascii "options	{ }
/// triple
//	t
MetaData string_
    // `tick` ""quote"" 'q'
    {	i64_ a1 ,u128
    x , A
    T `
`
    // packet A { u8 x, }
    ,options1 calculatedFrom//	t
`" ++ [28040; 24687; 31867; 22411]%N ++ runes_of_ascii "` ,
int8 roots `a\` , zchar[ 7 ]
MetaDataX
,
}")).
Eval vm_compute in ("<<<M3494>>>" ++ check (runes_of_ascii "packet Logon {
    u8 x,
    string user,
}
packet Logout {
    u16 reason,
}
packet Empty {
}
root packet Frame {
    u16 MsgType,
    @lengthOf(Body) u64 BodyLen,
    u8 flags,
    Logon Body,
    u32 trailer,
}
")).
Eval vm_compute in ("<<<M413>>>" ++ check (runes_of_ascii "MetaData Header {Logon calculatedFrom, float64 // `tick` ""quote"" 'q'
i8i8 ,
char[ 007	]packetx`doc` ,zchar[ 007	] tag `tab	here`// c
, MetaDataX A ,x
    // trailing space 
    MetaDataX `line1
line2` , }")).
Eval vm_compute in ("<<<M1402>>>" ++ check (runes_of_ascii "MetaData // c
Header {
Header
u ``
// `tick` ""quote"" 'q'
// @lengthOf(
, char[
4294967296 ]
u128 ,
    float32 falsey ,
char[10 ]
    // c
    roots`tab	here`
, int64 calculatedFrom `" ++ [233]%N ++ runes_of_ascii "`
, }")).
Eval vm_compute in ("<<<M4196>>>" ++ check (runes_of_ascii "packet u128 {
    u8 a,
}

root packet Msg {
    u8 k,
    u24 {
        u8 Hi,
        u16 Lo,
    },
    repeat i24 {
        u32 q,
    },
    u128,
    u16 float32x,
    string s,
}")).
Eval vm_compute in ("<<<M340>>>" ++ check (runes_of_ascii "root packet x
{ match x as // packet A { u8 x, }
chars {10 :
u128  ,} // trailing space 
, @calculatedFrom(
""""  ) float64 lengthOf @lengthOf( calculatedFrom ) `tab	here` , }
")).
Eval vm_compute in ("<<<M3771>>>" ++ check (runes_of_ascii "MetaData charz {
}

options {
    crc = ""a	b"";
}

packet falsey {
    // trailing space 
}

packet falsey {
    @lengthOf(uint8x)
    uint32 asx,
}

root packet crc {
}")).
Eval vm_compute in ("<<<M1058>>>" ++ check (runes_of_ascii "packet
    pack {
@leftPad
( )@lengthOf( f32a )
repeat
u64
    asx ,// a // b
} packet
    a1 { @tag(007 ) rootA  @calculatedFrom( ""a	b"") , } // trailing space ")).
Eval vm_compute in ("<<<M2161>>>" ++ check (runes_of_ascii "MetaData BodyLength
{ int8 Foo
, string
    MetaDataX , float zchar ,pack options1
,asx string_, }
packet u8x {Foo@lengthOf( @lengthOf(charz )
`" ++ [28040; 24687; 31867; 22411]%N ++ runes_of_ascii "`,  }
")).
Eval vm_compute in ("<<<M306>>>" ++ check (runes_of_ascii "
packet packetx
    // c
    {
@leftPad
( '\x00'
    )calculatedFrom
, f32 u , @lengthOf(x_y_z) repeat rootA { u u , } , f32a
    As , } // a // b")).
Eval vm_compute in ("<<<M2049>>>" ++ check (runes_of_ascii "@lengthOf( BodyLength
{ int8 Foo
, string
    MetaDataX , float zchar ,pack options1
,asx string_, }
packet u8x {Foo@lengthOf(charz )
`" ++ [28040; 24687; 31867; 22411]%N ++ runes_of_ascii "`,  }
")).
Eval vm_compute in ("<<<M2128>>>" ++ check (runes_of_ascii "MetaData BodyLength
{ int8 Foo
, string
    MetaDataX , float zchar ,pack options1
,asx MetaData, }
packet u8x {Foo@lengthOf(charz )
`" ++ [28040; 24687; 31867; 22411]%N ++ runes_of_ascii "`,  }
")).
Eval vm_compute in ("<<<M2102>>>" ++ check (runes_of_ascii "MetaData BodyLength
{ int8 Foo
, string
    MetaDataX , float zchar pack, options1
,asx string_, }
packet u8x {Foo@lengthOf(charz )
`" ++ [28040; 24687; 31867; 22411]%N ++ runes_of_ascii "`,  }
")).
Eval vm_compute in ("<<<M2100>>>" ++ check (runes_of_ascii "MetaData BodyLength
{ int8 Foo
, string
    MetaDataX , float zchar pack options1
,asx string_, }
packet u8x {Foo@lengthOf(charz )
`" ++ [28040; 24687; 31867; 22411]%N ++ runes_of_ascii "`,  }
")).
Eval vm_compute in ("<<<M301>>>" ++ check (runes_of_ascii "options { } MetaData chars
{
zchar[ 0123456789 ]	BodyLength `{ , }`
, f64 body,char[
    // a // b
    4294967296 ] Packet , u8x charz , }
")).
Eval vm_compute in ("<<<M2256>>>" ++ check (runes_of_ascii "options
    {
x_y_z// " ++ [27880; 37322]%N ++ runes_of_ascii "
= 10 ; }
packet body match
    @calculatedFrom(
// trailing space 
// " ++ [27880; 37322]%N ++ runes_of_ascii "
""1""
)	match T as Foo
    {
255 :T , }
,}")).
Eval vm_compute in ("<<<M436>>>" ++ check (runes_of_ascii "MetaData pack {
// c
//	t
i16
float`two words` , // " ++ [128512]%N ++ runes_of_ascii " emoji
string string_,u16 charz ,
    string_ // a // b
crc ,	Packet
Z9_ ,
    }
")).
Eval vm_compute in ("<<<M2321>>>" ++ check (runes_of_ascii "options
    {
x_y_z// " ++ [27880; 37322]%N ++ runes_of_ascii "
= 10 ; }
packet body {
    @calculatedFrom(
// trailing space 
// " ++ [27880; 37322]%N ++ runes_of_ascii "
""1""
)	match T as Foo
    {
255 :T , f32
,}")).
Eval vm_compute in ("<<<M1094>>>" ++ check (runes_of_ascii "options { Logon =
// c
// " ++ [128512]%N ++ runes_of_ascii " emoji
char[ 4294967296
    ] ; body= char[] chars = 10 } packet	matchKey// trailing space 
{ i16 crc ``,}

")).
Eval vm_compute in ("<<<M2226>>>" ++ check (runes_of_ascii "options
    {
x_y_z// " ++ [27880; 37322]%N ++ runes_of_ascii "
} 10 ; }
packet body {
    @calculatedFrom(
// trailing space 
// " ++ [27880; 37322]%N ++ runes_of_ascii "
""1""
)	match T as Foo
    {
255 :T , }
,}")).
Eval vm_compute in ("<<<M1956>>>" ++ check (runes_of_ascii "
packet leftPad {
@leftPad( '0'
u32
i64_ `100% of %d` ,repeat// 50% %s
i8 chars
    ,
} MetaData
    f32a
{ // packet A { u8 x, }
}")).
Eval vm_compute in ("<<<M546>>>" ++ check (runes_of_ascii "packet /// triple
matchKey { @calculatedFrom( // @lengthOf(
""// no comment"" ) repeat rootA , // a // b
body ``	,	}packet  u128 {
}")).
Eval vm_compute in ("<<<M1325>>>" ++ check (runes_of_ascii "packet i64_
    { @rightPad
( ' '// packet A { u8 x, }
)
/// triple
// " ++ [128512]%N ++ runes_of_ascii " emoji
@lengthOf( A)
string  msg_type`u8 x,` ,} // 50% %s")).
Eval vm_compute in ("<<<M905>>>" ++ check (runes_of_ascii "packet
    i8i8{
@lengthOf( leftPad// c
)@calculatedFrom(  """ ++ [233]%N ++ runes_of_ascii "t" ++ [233]%N ++ runes_of_ascii """ ) string uint8x`// not a comment`,
string
Logon , } /// triple")).
Eval vm_compute in ("<<<M353>>>" ++ check (runes_of_ascii "options // packet A { u8 x, }
{ roots= ""{,}""
    asx= ""a	b"" tag =  '0'// a // b
;
Packet = false;
    zchar =
    255
    }")).
Eval vm_compute in ("<<<M1915>>>" ++ check (runes_of_ascii "packet o {
    roots `it's`
//@leftpad trailing space 
//x
, char[ 42
    ]  A, // " ++ [27880; 37322]%N ++ runes_of_ascii "
f64
repeatCount
    `crlf
line`
,}")).
Eval vm_compute in ("<<<M1900>>>" ++ check (runes_of_ascii "packet o {
    roots `it's`
// trailing space 
//x
, char[ 42
    ]  A, // " ++ [27880; 37322]%N ++ runes_of_ascii "
f64
repeatCount
    `crlf
line`
match}")).
Eval vm_compute in ("<<<M1903>>>" ++ check (runes_of_ascii "packet o {
    roots `it's`
// trailing space 
//x
, char[ 42
    ]  A, // " ++ [27880; 37322]%N ++ runes_of_ascii "
f64
repeatCount
    `crlf
line`
,} }")).
Eval vm_compute in ("<<<M1012>>>" ++ check (runes_of_ascii "options {
    options1 =
    char[]
    // c
    lengthOf
= string Foo = 255
body = 7
    //x
    ;	chars
= true
}")).
Eval vm_compute in ("<<<M1872>>>" ++ check (runes_of_ascii "packet o {
    roots `it's`
// trailing space 
//x
, char[ 42
    ]  , // " ++ [27880; 37322]%N ++ runes_of_ascii "
f64
repeatCount
    `crlf
line`
,}")).
Eval vm_compute in ("<<<M1882>>>" ++ check (runes_of_ascii "packet o {
    roots `it's`
// trailing space 
//x
, char[ 42
    ]  A, // " ++ [27880; 37322]%N ++ runes_of_ascii "

repeatCount
    `crlf
line`
,}")).
Eval vm_compute in ("<<<M1829>>>" ++ check (runes_of_ascii " o {
    roots `it's`
// trailing space 
//x
, char[ 42
    ]  A, // " ++ [27880; 37322]%N ++ runes_of_ascii "
f64
repeatCount
    `crlf
line`
,}")).
Eval vm_compute in ("<<<M2149>>>" ++ check (runes_of_ascii "MetaData BodyLength
{ int8 Foo
, string
    MetaDataX , float zchar ,pack options1
,asx string_, }
packet")).
Eval vm_compute in ("<<<M1299>>>" ++ check (runes_of_ascii "// " ++ [27880; 37322]%N ++ runes_of_ascii "
options
    { x= // packet A { u8 x, }
""abc""
    ;	chars =  false } options{ uint8x
= 00
    }
")).
Eval vm_compute in ("<<<M1783>>>" ++ check (runes_of_ascii "options{  lengthOf =//x
i16;
    BodyLength = 0 ; pack
= false;
    @calculatedFrom( = char[ 3 ] }")).
Eval vm_compute in ("<<<M1294>>>" ++ check (runes_of_ascii "MetaData trueish
{	int f32a,}
root	packet
    // @lengthOf(
    zchar{
trueish
`line1
line2`	,	}")).
Eval vm_compute in ("<<<M463>>>" ++ check (runes_of_ascii "
packet	BodyLength
{ repeat repeatCount
    //	t
    ,
@tag( 0 /// triple
)trueish
_x , } 	 ")).
Eval vm_compute in ("<<<M4176>>>" ++ check (runes_of_ascii "  packet 	 // 50% %s
      Foo

    {

    @rightPad 
(	'\x00') repeat 
char
	stringy,

}")).
Eval vm_compute in ("<<<M945>>>" ++ check (runes_of_ascii "MetaData
    Pad {uint64 options1 , int32	roots ,
int16 A `` //
, msg_type
    trueish , }")).
Eval vm_compute in ("<<<M1449>>>" ++ check (runes_of_ascii "packet
T
{ match repeatCount as	calculatedFrom
[ {65535 ]	: As	,
} ,}
// trailing space 
")).
Eval vm_compute in ("<<<M1462>>>" ++ check (runes_of_ascii "packet
T
{ match repeatCount as	calculatedFrom
{ [65535 	: As	,
} ,}
// trailing space 
")).
Eval vm_compute in ("<<<M729>>>" ++ check (runes_of_ascii "//	t
MetaData u8x
    {
    msg_type T `a\` , As a1,metadata len
, x// c
zchar ,
    }
")).
Eval vm_compute in ("<<<M1801>>>" ++ check (runes_of_ascii "options{  lengthOf =//x
i16;
    BodyLength = 0 ; pack
= false;
    A = char[ 3 ] ] }")).
Eval vm_compute in ("<<<M3570>>>" ++ check (runes_of_ascii "
options {  a 
= char[
3 ]
    ; b
= zchar[	0]
	c
=char[]
	d
= string
e	=u8
}

")).
Eval vm_compute in ("<<<M3414>>>" ++ check (runes_of_ascii "packet order_item {
    u8 a,
}
root packet new_order {
    order_item,
    u8 x,
}
")).
Eval vm_compute in ("<<<M1570>>>" ++ check (runes_of_ascii "// 50% %s
packet	a1
    { zchar[
// a // b
// 50% %s
007]
T `it's`
    ,@rightPad")).
Eval vm_compute in ("<<<M2926>>>" ++ check (runes_of_ascii "packet A {
  match k as n {
    [1, ""bb"", 007, ""d"", 5, ""f""] : B
    2 : C
  },
}")).
Eval vm_compute in ("<<<M3251>>>" ++ check (runes_of_ascii "MetaData Foo { zchar[ // c
0 ] matchKey , } options { lengthOf = i32 u = 00 ; }")).
Eval vm_compute in ("<<<M4298>>>" ++ check (runes_of_ascii "packet A {
    match k as n {
        [1, 22, 007] : B,
        2 : C,
    },
}")).
Eval vm_compute in ("<<<M2998>>>" ++ check (runes_of_ascii "packet A { Inner { match k as n { [1,22,007,4,5,66,7,8,9,10,11] : B, }, }, }")).
Eval vm_compute in ("<<<M2901>>>" ++ check (runes_of_ascii "packet A {
  match k as n {
    [""a"", 22, ""c c"", 4] : B,
    2 : C
  },
}")).
Eval vm_compute in ("<<<M2903>>>" ++ check (runes_of_ascii "packet A {
  match k as n {
    [1, 22, ""c c"", 4] : B,
    2 : C
  },
}")).
Eval vm_compute in ("<<<M3553>>>" ++ check (runes_of_ascii "options {
    Logon = char[];
    falsey = false;
    leftPad = f32
}")).
Eval vm_compute in ("<<<M708>>>" ++ check (runes_of_ascii "  options{ rootA
=
    ""abc""/// triple
; pack =
    false  ;
    }")).
Eval vm_compute in ("<<<M1193>>>" ++ check (runes_of_ascii "packet BodyLength {
x_y_z
    @calculatedFrom( ""abc"" ) , }
// c
")).
Eval vm_compute in ("<<<M3665>>>" ++ check (runes_of_ascii "root packet  calculatedFrom
{	}

packet
	u {

u64  len
,
}
")).
Eval vm_compute in ("<<<M3307>>>" ++ check (runes_of_ascii "packet u8x { } MetaData crc { char[ 4294967296 // c
] Foo , }")).
Eval vm_compute in ("<<<M2673>>>" ++ check (runes_of_ascii "options { a = true; b = false; c = '0'; d = ""s""; e = 007; }")).
Eval vm_compute in ("<<<M2868>>>" ++ check (runes_of_ascii "packet A {
  match k as n {
    [1] : B,
    2 : C
  },
}")).
Eval vm_compute in ("<<<M712>>>" ++ check (runes_of_ascii "root	packet
stringy// c
{} MetaData msg_type
{ } // c")).
Eval vm_compute in ("<<<M1461>>>" ++ check (runes_of_ascii "packet
T
{ match repeatCount as	calculatedFrom
{ [")).
Eval vm_compute in ("<<<M526>>>" ++ check (runes_of_ascii "packet Packet  {repeat char[
00 ] stringy ``	,
}")).
Eval vm_compute in ("<<<M4330>>>" ++ check (runes_of_ascii "packet MetaDataX {
}

root packet Packet {
}//")).
Eval vm_compute in ("<<<M618>>>" ++ check (runes_of_ascii "packet
// 50% %s
//	t
int{
    } // " ++ [128512]%N ++ runes_of_ascii " emoji")).
Eval vm_compute in ("<<<M79>>>" ++ check (runes_of_ascii "// trailing space 
options{ x
=	""it's"" }")).
Eval vm_compute in ("<<<M3352>>>" ++ check (runes_of_ascii "root packet P {
    char c,
    u8 x,
}
")).
Eval vm_compute in ("<<<M3861>>>" ++ check (runes_of_ascii "
options
{  i8i8 =""" ++ [128512]%N ++ runes_of_ascii """
; A =i16
} //
")).
Eval vm_compute in ("<<<M2393>>>" ++ check (runes_of_ascii "MetaData
Foo {Header //
pack '',	} 	 ")).
Eval vm_compute in ("<<<M2835>>>" ++ check (runes_of_ascii "zchar[ i8 char[ @lengthOf( i8 i8 ' '")).
Eval vm_compute in ("<<<M3354>>>" ++ check (runes_of_ascii "
root packet	P 
{char c

,

u8	x ,}")).
Eval vm_compute in ("<<<M2620>>>" ++ check (runes_of_ascii "packet A { match k n { 1 : B }, }")).
Eval vm_compute in ("<<<M3913>>>" ++ check (runes_of_ascii "packet len {
}

MetaData crc {
}")).
Eval vm_compute in ("<<<M2383>>>" ++ check (runes_of_ascii "MetaData
Foo {Header //
pack ,")).
Eval vm_compute in ("<<<M2801>>>" ++ check (runes_of_ascii "&6,o=tz\CRx#P>@03wx*j4Y34sltC")).
Eval vm_compute in ("<<<M3345>>>" ++ check (runes_of_ascii "options { u8x
// c
= false }")).
Eval vm_compute in ("<<<M516>>>" ++ check (runes_of_ascii "
MetaData charz { }
// " ++ [27880; 37322]%N ++ runes_of_ascii "
")).
Eval vm_compute in ("<<<M3196>>>" ++ check (runes_of_ascii "options { a = 1 // a
 ; }")).
Eval vm_compute in ("<<<M2587>>>" ++ check (runes_of_ascii "packet A { char[ 3 y, }")).
Eval vm_compute in ("<<<M414>>>" ++ check (runes_of_ascii "packet float
    {  }")).
Eval vm_compute in ("<<<M2757>>>" ++ check (runes_of_ascii "n" ++ [65533; 65533; 65533; 65533; 65533]%N ++ runes_of_ascii "2" ++ [188; 65533]%N ++ runes_of_ascii "C" ++ [65533; 952]%N ++ runes_of_ascii "s~" ++ [65533; 65533]%N ++ runes_of_ascii "V" ++ [65533; 17]%N ++ runes_of_ascii "R")).
Eval vm_compute in ("<<<M4047>>>" ++ check (runes_of_ascii "packet A {
    x,
}")).
Eval vm_compute in ("<<<M3133>>>" ++ check (runes_of_ascii "// c" ++ [8233]%N ++ runes_of_ascii "
packet A {
}")).
Eval vm_compute in ("<<<M2642>>>" ++ check (runes_of_ascii "packet A { } // c")).
Eval vm_compute in ("<<<M1230>>>" ++ check (runes_of_ascii "MetaData a1{  }
")).
Eval vm_compute in ("<<<M726>>>" ++ check (runes_of_ascii "
packet u { }
")).
Eval vm_compute in ("<<<M2364>>>" ++ check (runes_of_ascii "MetaData
Foo")).
Eval vm_compute in ("<<<M2776>>>" ++ check (runes_of_ascii "int32 root")).
Eval vm_compute in ("<<<M2436>>>" ++ check (runes_of_ascii "char[]x")).
Eval vm_compute in ("<<<M2565>>>" ++ check (runes_of_ascii "// " ++ [233]%N ++ runes_of_ascii "
" ++ [21517]%N)).
Eval vm_compute in ("<<<M2802>>>" ++ check (runes_of_ascii ": i32")).
Eval vm_compute in ("<<<M2517>>>" ++ check (runes_of_ascii """a\""")).
Eval vm_compute in ("<<<M2531>>>" ++ check (runes_of_ascii "`\`")).
Eval vm_compute in ("<<<M2528>>>" ++ check (runes_of_ascii "`a")).
