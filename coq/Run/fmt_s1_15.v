From FP Require Import Lexer Parser ShowPT Digest Formatter.
From Coq Require Import String List NArith.
Import ListNotations.
Open Scope string_scope.
Set Printing Width 100000000.
Set Printing Depth 100000000.
Definition show_fres (r : fres) : string :=
  match r with
  | FOk s => "OK:" ++ sh_escaped s ""
  | FErr s => "ERR:" ++ sh_escaped s ""
  | FPanic p => "PANIC:" ++ p
  end.
Definition check (rs : list rune) : string := digest (show_fres (format_res rs)).
Definition full (rs : list rune) : string := show_fres (format_res rs).
Eval vm_compute in ("<<<M1276>>>" ++ check (runes_of_ascii "
packet f32a{ @calculatedFrom(""packet""  )@tag( 00 ) @leftPad
    // a // b
    ('0')rootA, @tag( 65535
    )string roots @lengthOf(	MetaDataX  )
    `" ++ [233]%N ++ runes_of_ascii "`,@rightPad (  )
    zchar[
    10 ]matchKey // @lengthOf(
@lengthOf( float )// packet A { u8 x, }
,
@rightPad
    ( )roots MetaDataX
, u128 , // c
match
// `tick` ""quote"" 'q'
// " ++ [128512]%N ++ runes_of_ascii " emoji
len as	BodyLength {	""" ++ [128512]%N ++ runes_of_ascii """ :
    float,[ 4294967296 ,// a // b
00,
    0123456789
, ""`tick`"" ,""it's"", ""\n"", 65535 , 7 ] ://	t
calculatedFrom ,
[ ""packet""  , 007//
, ""\" ++ [233]%N ++ runes_of_ascii """
]
: _x	[
""" ++ [128512]%N ++ runes_of_ascii """ ,""a\""b""//	t
, 0123456789 ] // c
: // @lengthOf(
_x ,65535 : As 255 : stringy	,
}	, calculatedFrom// @lengthOf(
{ char[]
    matchKey
    @calculatedFrom( """ ++ [128512]%N ++ runes_of_ascii """ // c
) , u32
    u8x @lengthOf( i8i8
    ), f32a // c
options1
    `line1
line2`
, float64	rootA // " ++ [27880; 37322]%N ++ runes_of_ascii "
,
//	t
//	t
}, @tag( 0 ) @lengthOf( Z9_
) T Foo `" ++ [233]%N ++ runes_of_ascii "` ,match T	as
Packet { 3 : u8x
    , 4294967296 //x
: matchKey,
    """ ++ [233]%N ++ runes_of_ascii "t" ++ [233]%N ++ runes_of_ascii """
: Foo// @lengthOf(
, ""a\""b"":
repeatCount
    , 7 : stringy  , }// trailing space 
, @leftPad( //
'\x00'	)repeat
    pack ,  } packet x { @lengthOf(// packet A { u8 x, }
falsey )repeat int32 a1 // " ++ [27880; 37322]%N ++ runes_of_ascii "
,
    @leftPad(
    ) repeat f32a,  match	Foo as// packet A { u8 x, }
calculatedFrom
    {""x y"" : calculatedFrom 7 : len , ""abc""
    :  charz
,
}  , uint8x
,
@lengthOf(	o ) // " ++ [27880; 37322]%N ++ runes_of_ascii "
repeat
string_  {zchar[ 7] Packet
@calculatedFrom( // trailing space 
""x y"") ,repeat
    string charz , float64 _x @calculatedFrom( ""1""
    ),}
    // `tick` ""quote"" 'q'
    , crc,char[ 65535 ] metadata @calculatedFrom( ""\n"" ) `" ++ [28040; 24687; 31867; 22411]%N ++ runes_of_ascii "` ,
repeat uint64 msg_type
//x
//x
`{ , }` ,char[
1] charz
    ,@rightPad ( '\x00')
    repeat i32 o // `tick` ""quote"" 'q'
`crlf
line`, }
MetaData i8i8
{rootA packetx `doc` ,  x As , }//
root packet u128
// @lengthOf(
// @lengthOf(
{ } packet falsey { u @lengthOf( i8i8
),@lengthOf(
u )f32
    //	t
    Header , @calculatedFrom( ""`tick`""  )
stringy
@calculatedFrom( """ ++ [233]%N ++ runes_of_ascii "t" ++ [233]%N ++ runes_of_ascii """
    ) `two words` , char[ 65535 ]string_ @lengthOf(lengthOf
    ), Pad u128 , Packet
    `
`
,// `tick` ""quote"" 'q'
@calculatedFrom( ""abc""// trailing space 
) char[
00
]
roots`line1
line2`
, @tag(// trailing space 
7 )char[]trueish @calculatedFrom( ""\n"")
    , @calculatedFrom( ""packet""
    ) @lengthOf( As ) char[ 3 ] // a // b
charz @lengthOf(options1 ) , u32 _x @calculatedFrom( ""a\\"" )`u8 x,` ,}
")).
Eval vm_compute in ("<<<M28>>>" ++ check (runes_of_ascii "packet
tag { repeat
    //
    T MetaDataX
    , @calculatedFrom(
//
/// triple
""`tick`""  ) @tag( 007 ) leftPad `tab	here` , @tag( 0123456789  )
char x , @tag(0 ) u64 tag
    ,
i8 roots
    // a // b
    ,
    @lengthOf(
float ) @tag( 10 )
// c
// `tick` ""quote"" 'q'
body { chars
{repeat int8  body , }  , repeat Header {char[]
    leftPad	, },	match  Logon as zchar  { 4294967296 :
    len , ""a\""b"":A //
00
: x_y_z,
} , repeat i16	options1
, }
    , @calculatedFrom( """ ++ [128512]%N ++ runes_of_ascii """)@rightPad ( '0'
) i16 Pad , //
int64
    As @lengthOf(
crc ) , } MetaData x_y_z {u crc
, } root packet
Z9_{ @calculatedFrom( ""{,}"" ) tag, @lengthOf( lengthOf ) zchar[  42 ] crc //x
`" ++ [233]%N ++ runes_of_ascii "`
// a // b
// @lengthOf(
, char[ 007 ] options1 ,
}packet
    // `tick` ""quote"" 'q'
    x {char	trueish
    ,	char[] packetx @calculatedFrom(""" ++ [28040; 24687]%N ++ runes_of_ascii """)
    `line1
line2` ,  zchar[
1
    ]
    Foo // " ++ [128512]%N ++ runes_of_ascii " emoji
, zchar[ 00 ]
A , match msg_type as tag { """" : leftPad , [ """ ++ [128512]%N ++ runes_of_ascii """ ,
    0 ,10
    ,  3//	t
] :
Z9_,  ""it's"":	float , 10 : calculatedFrom ""x y"" // @lengthOf(
:
    f32a
    007	: roots
    , } // `tick` ""quote"" 'q'
,} packet
    u{ // trailing space 
@calculatedFrom( ""\n"" ) @calculatedFrom( ""a\""b"" )	i64_
rootA , match // @lengthOf(
x as Logon {
    1
:
    body,
""a\\"" /// triple
: _x ""packet"" : BodyLength,
},
    //x
    @rightPad ( '\x00'//x
) @calculatedFrom( """ ++ [128512]%N ++ runes_of_ascii """ )	repeat stringy { match
//x
// packet A { u8 x, }
T as float { ""a\\"" : len
    0:
BodyLength , [ ""it's""
, ""{,}"" , 255 // a // b
, 0123456789, ""a\\"" ] :
    Logon, 3:rootA
    // " ++ [27880; 37322]%N ++ runes_of_ascii "
    ,
    }
//
// packet A { u8 x, }
,
} ,//
u16 uint8x `{ , }`,
// trailing space 
//x
@leftPad
    // a // b
    (
'0' )  string i64_@lengthOf(  stringy  ),
// `tick` ""quote"" 'q'
// @lengthOf(
u64 leftPad@calculatedFrom( // " ++ [27880; 37322]%N ++ runes_of_ascii "
""a	b"" ) , repeat // @lengthOf(
Header MetaDataX `a\`
, @lengthOf(stringy
    )	Packet
leftPad , @tag( 00 ) repeat zchar _x `tab	here` , i32	matchKey , }
")).
Eval vm_compute in ("<<<M3845>>>" ++ check (runes_of_ascii "MetaData trueish {
    f32 a1 `it's`,
    A lengthOf `tab	here`,
}

MetaData BodyLength {
    char[0123456789] stringy,
}

packet string_ {
    @rightPad('0')
    asx,
    @calculatedFrom(""abc"")
    repeat char[4294967296] packetx,
    // a // b
    // " ++ [27880; 37322]%N ++ runes_of_ascii "
    repeat o {
        // `tick` ""quote"" 'q'
        int64 u8x,
        repeat u32 leftPad `a\`,// packet A { u8 x, }
        char[] charz `doc`,
        zchar[65535] lengthOf @calculatedFrom(""a\\""),
    },
    // " ++ [27880; 37322]%N ++ runes_of_ascii "
    leftPad @calculatedFrom(""// no comment"") `// not a comment`,
    int32 int,
    pack {
        zchar,
    },
    repeat zchar[65535] x,
    @rightPad('0')
    //x
    // c
    float32 Z9_,
    @calculatedFrom(""`tick`"")
    match uint8x as Header {
        [42] : f32a,
        4294967296 : matchKey,
        """ ++ [28040; 24687]%N ++ runes_of_ascii """ : tag,
        1 : body,
    },
    @tag(007)
    @calculatedFrom(""a\\"")
    @lengthOf(metadata)
    repeat chars,
}

packet roots {
    char[007] Foo @lengthOf(zchar) `line1
    line2`,
    @tag(255)
    match crc as lengthOf {
        [""// no comment""] : Header,
        //x
        1 : crc,
        ""\n"" : options1,
        [
            1, 00, 1, 42, 65535,
            """ ++ [28040; 24687]%N ++ runes_of_ascii """
        ] : Z9_,
    },
    zchar[4294967296] As `say ""hi""`,
    @lengthOf(stringy)
    chars {
        float32 u8x,
    },
    char[255] Pad @lengthOf(u8x),
    int64 metadata,
    // c
    uint8 x_y_z @lengthOf(Header) `two words`,
    repeat zchar[42] calculatedFrom `it's`,
    @rightPad('\x00')
    repeat crc {
        // trailing space 
        repeat As {
            i64_ `line1
            line2`,
        },
    },
}")).
Eval vm_compute in ("<<<M1217>>>" ++ check (runes_of_ascii "packet //x
u8x
{ //x
@tag( 10 )
    char[7]
    // trailing space 
    MetaDataX	, match // c
Z9_ as Header{""a\\"" :
    stringy
, ""// no comment"" : u128 // trailing space 
, 0123456789
    :
matchKey,10	: BodyLength // packet A { u8 x, }
,	65535: asx
    // trailing space 
    , 00 : pack//
,	}  , @tag(
255)msg_type `it's` , @lengthOf(
A ) leftPad
@lengthOf( Header) `crlf
line`, @calculatedFrom( ""1""
//x
/// triple
) repeat
int8 o
    // " ++ [128512]%N ++ runes_of_ascii " emoji
    ,  @rightPad(
'\x00')	string
pack
    @calculatedFrom(  ""// no comment""), @lengthOf( Z9_) match	u128
//	t
//	t
as BodyLength { //
[""\n"" ,
""a\\"" ]
: Logon
,	0 : As , } ,char[] x ,} packet  Packet {
    @calculatedFrom(""// no comment"" ) x_y_z,
    @leftPad(
) zchar[ 65535 ] As
    @calculatedFrom(
""1""
    // " ++ [128512]%N ++ runes_of_ascii " emoji
    ) `tab	here`  ,  zchar[ 10 ]	f32a ,	@tag(7  ) char[0123456789 ]
    matchKey
`say ""hi""`
    ,
} root packet string_
{ // " ++ [27880; 37322]%N ++ runes_of_ascii "
@tag( // @lengthOf(
0
// c
//	t
)	asx
// trailing space 
// c
`// not a comment`
// packet A { u8 x, }
//
, zchar[ 65535
] Header,
    @tag( 10 ) repeat zchar trueish
, repeat string // packet A { u8 x, }
Packet `{ , }`, char[] len
, lengthOf len `` , packetx @lengthOf(
    // `tick` ""quote"" 'q'
    float)`a\`	, @calculatedFrom(
""" ++ [28040; 24687]%N ++ runes_of_ascii """ ) matchKey  @calculatedFrom( """ ++ [233]%N ++ runes_of_ascii "t" ++ [233]%N ++ runes_of_ascii """ ), @rightPad ( ' '
// " ++ [128512]%N ++ runes_of_ascii " emoji
// " ++ [27880; 37322]%N ++ runes_of_ascii "
)
// @lengthOf(
// c
options1 @calculatedFrom( """ ++ [28040; 24687]%N ++ runes_of_ascii """) , } MetaData Header
    {
    Logon  string_ , }
")).
Eval vm_compute in ("<<<M374>>>" ++ check (runes_of_ascii "packet BodyLength// packet A { u8 x, }
{ leftPad lengthOf ,	float rootA `it's`	, @leftPad (
    '0' ) repeat
    BodyLength ,@rightPad
(
    ) i16// a // b
falsey @lengthOf(// a // b
i64_ ) , // `tick` ""quote"" 'q'
repeat
char[ 0123456789 ]uint8x , repeat
    // " ++ [27880; 37322]%N ++ runes_of_ascii "
    f64 i64_,	a1 tag`" ++ [233]%N ++ runes_of_ascii "` ,char[ 10 ]packetx
`say ""hi""`
,
    repeat  tag metadata
`tab	here` , }
    /// triple
    options {
crc = """"
    ;
}
    packet int
{ repeat zchar[	255
    ]	i64_ `two words`//x
,
    string tag@lengthOf( // a // b
Header )
,char chars ,
@lengthOf(
    crc ) match asx as Foo{ 7  : BodyLength , ""packet"" : Z9_
,007 :
    matchKey ,} ,
uint16 metadata// a // b
,
i64_ {	repeat
u8
msg_type, stringy {char[ 0123456789 ] // c
o @calculatedFrom(
""\n"" ) `" ++ [233]%N ++ runes_of_ascii "` ,}
/// triple
// packet A { u8 x, }
, zchar[
00]
    stringy	`line1
line2`
, } ,
@leftPad//
('0') match uint8x as u128 {
[ 1 // a // b
, ""abc"" ]
    : _x  ""a	b"" :Packet
    // c
    3 : _x //	t
, ""`tick`"" :
packetx ,
""\n""
: Header ,  } ,
x
    // c
    @calculatedFrom(
    /// triple
    ""\n"" ) ,zchar[ 65535 ]
    Packet//x
,
} MetaData Logon{
    } packet packetx {
@calculatedFrom( ""a\\"" )
match roots as Foo { [""\n"", 4294967296 ] : asx ,00
:  o , ""{,}"" :Header ,255 : packetx , [255,4294967296	] :MetaDataX
    ,  } , }")).
Eval vm_compute in ("<<<M4396>>>" ++ check (runes_of_ascii "options {
    a1 = 4294967296;
    //	t
    u = """"
    BodyLength = 0123456789;
}

packet float {
    char[10] calculatedFrom `say ""hi""`,
}

packet charz {
    u {
        match string_ as crc {
            0 : zchar,
            //x
            4294967296 : u,
            255 : falsey,
        },
        len @lengthOf(asx) `tab	here`,
        o @calculatedFrom(""\n""),
    },// " ++ [128512]%N ++ runes_of_ascii " emoji
}

options {
    T = false;
}

packet calculatedFrom {
    match u8x as leftPad {
        """ ++ [233]%N ++ runes_of_ascii "t" ++ [233]%N ++ runes_of_ascii """ : packetx,
        ""\n"" : lengthOf,
        007 : pack,
        007 : BodyLength,
        ""a\\"" : charz,
    },
    @tag(7)
    body {
        repeat char[7] _x `" ++ [28040; 24687; 31867; 22411]%N ++ runes_of_ascii "`,
    },
    @tag(42)
    string tag `crlf
        line`,
    @tag(00)
    repeat char[0] calculatedFrom `tab	here`,
    u16 Z9_ @calculatedFrom(""{,}""),
    @calculatedFrom(""\" ++ [233]%N ++ runes_of_ascii """)
    match Logon as Z9_ {
        [""1"", ""1""] : options1,
    },
    T metadata,
    _x {
        // @lengthOf(
        f32 x,
        int64 a1 @lengthOf(_x) `u8 x,`,
        uint8x {
            _x @lengthOf(charz),
            int64 trueish,
            char[0] roots @calculatedFrom(""// no comment"") `crlf
                        line`,
            u,
        },
    },
}")).
Eval vm_compute in ("<<<M631>>>" ++ check (runes_of_ascii "packet pack {
    }options {	As
//
// " ++ [128512]%N ++ runes_of_ascii " emoji
= ""\" ++ [233]%N ++ runes_of_ascii """ ; }
    root packet lengthOf{
    @tag(65535 ) @calculatedFrom( """ ++ [233]%N ++ runes_of_ascii "t" ++ [233]%N ++ runes_of_ascii """ ) @calculatedFrom(""abc"" )	repeat string
msg_type
    ,
    @calculatedFrom(
    """ ++ [233]%N ++ runes_of_ascii "t" ++ [233]%N ++ runes_of_ascii """)
char[ 255
] // packet A { u8 x, }
Logon , u64 pack@calculatedFrom( ""a\\"" /// triple
), @rightPad (
    '0' ) T
{ zchar[ 3 ] u8x @calculatedFrom( ""CRC32""
)`two words` , o{_x {
    // " ++ [27880; 37322]%N ++ runes_of_ascii "
    float32 calculatedFrom
    , } ,
    repeat
int64 u128 ,float32 string_ @lengthOf(msg_type )`say ""hi""` , } ,
} ,i16 charz`a\`//
, @lengthOf( x	) leftPad {
As { int64 i8i8
,
} ,
    // packet A { u8 x, }
    } ,
    @tag( 7	) @tag( 7
    /// triple
    ) x_y_z@lengthOf( body)
    ,@tag(
007 )repeat	calculatedFrom _x ,@calculatedFrom(	""\n"" )
    repeat
    u8
trueish , i16
calculatedFrom `it's`
    , }
packet	A { match As as chars {""1"" :options1 ,} , } packet Packet { @leftPad
    // " ++ [27880; 37322]%N ++ runes_of_ascii "
    ( '\x00'
    ) float64 // c
matchKey ,
zchar[
65535	] Pad`" ++ [233]%N ++ runes_of_ascii "` ,
    repeat
uint32 options1,	@calculatedFrom(
    ""// no comment"" ) char[] metadata `// not a comment`
,Header @calculatedFrom( ""packet"" ) ``
,  }
// a // b
")).
Eval vm_compute in ("<<<M812>>>" ++ check (runes_of_ascii "
MetaData Packet //
{ stringy body ,
    //	t
    x_y_z
    matchKey , zchar[
// " ++ [27880; 37322]%N ++ runes_of_ascii "
// `tick` ""quote"" 'q'
007 ] MetaDataX , // " ++ [128512]%N ++ runes_of_ascii " emoji
u16 u128
    `u8 x,`, stringy i64_
    , char[]	Z9_  `two words` , } MetaData body { float32 Header
    , }options
    {trueish //x
= false ; x_y_z = // c
7 Packet =	false i8i8=
//x
// " ++ [128512]%N ++ runes_of_ascii " emoji
zchar[255 ] tag =
    char[] ; } packet// c
crc { repeat  char[
    0 ]
    x ,
    repeat float64 packetx , match	As as len{	[255 ]
:
Z9_
    , // " ++ [27880; 37322]%N ++ runes_of_ascii "
""{,}"" :
//
// " ++ [27880; 37322]%N ++ runes_of_ascii "
MetaDataX ,  [ 00 , ""a	b"", 255 ] :Pad , 3:
    body , }  , u128 @calculatedFrom(
    ""CRC32"")  , // `tick` ""quote"" 'q'
@tag(10) metadata {  repeat trueish x`line1
line2`// " ++ [27880; 37322]%N ++ runes_of_ascii "
,
    u @calculatedFrom(""it's"" )
, match
// packet A { u8 x, }
// " ++ [27880; 37322]%N ++ runes_of_ascii "
trueish as _x { 42 :
    /// triple
    o [
""CRC32""]
: rootA  , } /// triple
, } , tag
    {Z9_{
zchar[
    // trailing space 
    3  ]stringy`tab	here` , } , } //x
, matchKey u8x,  repeat
int64	metadata `{ , }`
, @leftPad( '\x00')
T int
    , @calculatedFrom( ""abc"" ) zchar[ 4294967296 ] charz
    ,// " ++ [128512]%N ++ runes_of_ascii " emoji
}")).
Eval vm_compute in ("<<<M3674>>>" ++ check (runes_of_ascii "MetaData f32a {
    uint8 x,
    f64 As `" ++ [233]%N ++ runes_of_ascii "`,
    i64 f32a `u8 x,`,
    uint32 string_ `crlf
        line`,
    char[10] pack `a\`,
    Packet lengthOf,
}

root packet MetaDataX {
    i32 u8x `tab	here`,
    char[] stringy @lengthOf(repeatCount) `crlf
        line`,
    @rightPad()
    @lengthOf(Foo)
    char[65535] body,
    repeat pack {
        rootA `it's`,
        match msg_type as x_y_z {
            1 : i64_,
            0123456789 : Logon,
            [""CRC32""] : A,
            1 : _x,
            // a // b
            [42] : repeatCount,
            ""a	b"" : pack,
        },
        char[4294967296] lengthOf @lengthOf(options1),
    },
    @tag(4294967296)
    @calculatedFrom(""" ++ [128512]%N ++ runes_of_ascii """)
    // " ++ [128512]%N ++ runes_of_ascii " emoji
    // " ++ [27880; 37322]%N ++ runes_of_ascii "
    repeat string u,
    @lengthOf(f32a)
    @tag(007)
    @tag(7)
    msg_type Pad,
}

MetaData roots {
    u64 MetaDataX,
}

packet roots {
    @tag(255)
    char[0123456789] Logon `" ++ [28040; 24687; 31867; 22411]%N ++ runes_of_ascii "`,
    body @lengthOf(u8x) `two words`,
    @lengthOf(Z9_)
    packetx @calculatedFrom(""" ++ [28040; 24687]%N ++ runes_of_ascii """),
}")).
Eval vm_compute in ("<<<M154>>>" ++ check (runes_of_ascii "options { } packet
    //	t
    falsey /// triple
{	i64 calculatedFrom
    @calculatedFrom(
    //
    ""a\\"" )
`it's` ,
char[ 00 ] falsey ,	@calculatedFrom(""1"" ) @calculatedFrom( ""{,}""
    )
i32	float	,@tag(3 //
)
    @calculatedFrom(  ""CRC32"" ) int64 options1 @lengthOf(roots ) `two words` , @calculatedFrom(""a\\""	) repeat trueish { repeat charz
,trueish // trailing space 
tag //x
`two words` ,
repeat u64 Logon  `" ++ [28040; 24687; 31867; 22411]%N ++ runes_of_ascii "`,},
    @leftPad(
    //x
    '0'
)// " ++ [128512]%N ++ runes_of_ascii " emoji
@rightPad (
// " ++ [128512]%N ++ runes_of_ascii " emoji
//
' ' )
//	t
//
u roots,repeat
A	{i32 int
@lengthOf( zchar
)`" ++ [233]%N ++ runes_of_ascii "`
    ,
    }//	t
, u64 A , @tag( 10 ) char[]
u8x, zchar[
10 ] pack
//
// " ++ [27880; 37322]%N ++ runes_of_ascii "
@calculatedFrom(""1"" ) `say ""hi""` ,	} packet Z9_//	t
{// " ++ [27880; 37322]%N ++ runes_of_ascii "
@leftPad( '0')  repeat
// a // b
// @lengthOf(
As charz
, body @calculatedFrom( ""it's""
    )`crlf
line` ,
    // " ++ [27880; 37322]%N ++ runes_of_ascii "
    @leftPad ('0'
) zchar[ 4294967296 ]
A @calculatedFrom(""packet""
    // trailing space 
    ) `" ++ [233]%N ++ runes_of_ascii "`  , repeat body
    Header`" ++ [233]%N ++ runes_of_ascii "`,}
")).
Eval vm_compute in ("<<<M3642>>>" ++ check (runes_of_ascii "

  options{LittleEndian=
false 
;FixedStringPadFromLeft

=false
;

    FixedStringPadChar	= ' '  ;}  packet 
Fill {

uint16
Qty,
	uint64 clOrdID  ,
    repeat  i64 Flags	,	}
packet
	Ack
	{zchar[
	7 ] clOrdID
	,
u64 lastPx

    , char[]	Note
,

repeat Fill

    ,
int32 
count	,	}packet  Quote{

    u8 venue 
, InRef40 
{ char[]

    Qty,

}
	,zchar[
5]
	Flags ,@rightPad

    (
    '\x00'
    )char[

12
	]
msgKind

    ,

    }

    packet

Logout {  InSym79{
int32
    Qty
, Fill 
,  char[
3]x
,repeat
InNote29
    {
	i16	price,
Ack , 
f64 x
,	zchar[	8 ]  count, } ,
    }	,
	}	root
	packet 
Logon
	{
	zchar[

1

    ] 
sym
,

    u32 count,

    u16	tag7
@lengthOf( Body

    )  ,

    match count

    as

    Body
{

    [122 , 152] :

Ack, 118:Logout
	,
	61
	:  Quote
	, 161:

Fill
,

    }
,
	u32

    Acct@calculatedFrom(
""CRC32""
),} ")).
Eval vm_compute in ("<<<M748>>>" ++ check (runes_of_ascii "MetaData	metadata{/// triple
packetx Packet ,
    // trailing space 
    chars body , char[]MetaDataX ,u32
    stringy ,float32
packetx `" ++ [28040; 24687; 31867; 22411]%N ++ runes_of_ascii "` , }options {
    lengthOf
    = uint16 ; pack
='0'
; charz //x
=
char[]
    ;	u // trailing space 
= f64 ;
    options1  = float32
    ; }root // packet A { u8 x, }
packet charz //x
{ repeat
uint32 float, stringy , // packet A { u8 x, }
uint8x  {chars
    { match Foo as u8x {""a\\"":
int // a // b
,
    }
    , string
Z9_  @calculatedFrom(
    // packet A { u8 x, }
    """ ++ [28040; 24687]%N ++ runes_of_ascii """ ) `// not a comment` ,
match trueish
as MetaDataX {
[ 0  ,  ""CRC32"" ,007
    // a // b
    ,007	, 0123456789 ] // packet A { u8 x, }
: Foo
    255 : falsey
    , 007 :
    _x 255 :
    Header
    007 :lengthOf""{,}""  : Header , } ,
}
, zchar[ 65535  ] leftPad `line1
line2` , char[ 007
] Z9_  @lengthOf(
u8x  ) ,
} , }
")).
Eval vm_compute in ("<<<M3815>>>" ++ check (runes_of_ascii "options {
    Foo = ""\" ++ [233]%N ++ runes_of_ascii """
    roots = ""`tick`"";
    crc = ""packet"";
    falsey = 1
    float = u32;
}

packet options1 {
    match Header as Packet {
        [""abc""] : Header,
        ""`tick`"" : i64_,
        [7, 3, """"] : Z9_,
        [1, ""// no comment"", ""x y"", """ ++ [28040; 24687]%N ++ runes_of_ascii """, ""a	b""] : x_y_z,
        ""a\""b"" : float,
    },// @lengthOf(
    i8i8 _x,
    @rightPad('\x00')
    zchar[0] string_,
}

packet u8x {
    @lengthOf(packetx)
    char[42] _x,
    f64 matchKey `it's`,
    match repeatCount as roots {
        // packet A { u8 x, }
        // " ++ [27880; 37322]%N ++ runes_of_ascii "
        [""CRC32"", """ ++ [128512]%N ++ runes_of_ascii """] : i8i8,
    },
    @lengthOf(len)
    @rightPad(' ')
    u stringy `say ""hi""`,// @lengthOf(
    repeat char[7] pack `" ++ [28040; 24687; 31867; 22411]%N ++ runes_of_ascii "`,
    @tag(42)
    string u8x `// not a comment`,
}

root packet As {
    int32 x @calculatedFrom(""\n""),
}")).
Eval vm_compute in ("<<<M1303>>>" ++ check (runes_of_ascii "  root packet // a // b
f32a{ zchar[0123456789] Foo , zchar @lengthOf(
a1 ),
    @rightPad// packet A { u8 x, }
( ) @tag( 3
    //
    ) match
int as stringy {
    [ 0]: chars,0  :
i8i8 42:	i64_
, [
// c
// packet A { u8 x, }
255
/// triple
// `tick` ""quote"" 'q'
,
7 ,""1"", ""a\\""] :
    leftPad,
""" ++ [233]%N ++ runes_of_ascii "t" ++ [233]%N ++ runes_of_ascii """
:
Header ,
    [ 7 ] : repeatCount ,
} , i32 falsey @lengthOf(
    u128 ) `two words` ,@tag( 0 )
char[]
// trailing space 
// " ++ [27880; 37322]%N ++ runes_of_ascii "
uint8x `{ , }`	, // " ++ [128512]%N ++ runes_of_ascii " emoji
repeat MetaDataX { string /// triple
len
    ,// `tick` ""quote"" 'q'
} ,
@leftPad (// a // b
'\x00'
    //x
    )
    zchar[
    0123456789	]o, f32 As
@calculatedFrom(
    ""a\\"" )
    , @lengthOf(string_ )repeat u128
    `` , pack/// triple
{
    crc stringy , repeat string asx , } , }
")).
Eval vm_compute in ("<<<M1223>>>" ++ check (runes_of_ascii "packet
charz  { // @lengthOf(
} options
{
} packet float	{ metadata Logon ,
} packet
    body {
    @tag(
    42 // packet A { u8 x, }
) repeat tag i64_, /// triple
@lengthOf( string_  )	match chars as
    Z9_
    { [65535
// " ++ [27880; 37322]%N ++ runes_of_ascii "
//x
] :
o // `tick` ""quote"" 'q'
, [//	t
""{,}"" ,0123456789
    , ""packet""
// packet A { u8 x, }
//
, ""abc"" ,255 , """ ++ [233]%N ++ runes_of_ascii "t" ++ [233]%N ++ runes_of_ascii """
    ,
// packet A { u8 x, }
//x
""x y"" , 3 ]: pack
    , ""abc""
:
matchKey
    , [ 0123456789 , 1 ] : chars
    // c
    1 :int ,  """ ++ [233]%N ++ runes_of_ascii "t" ++ [233]%N ++ runes_of_ascii """ : i64_ , }
, match Pad as trueish { ""a	b"" : pack
    , }
,	@calculatedFrom( """ ++ [28040; 24687]%N ++ runes_of_ascii """
)
repeat u128 x
    ,
    string A
,
lengthOf
{
BodyLength T  ,int16 A @lengthOf(
i8i8
)//x
, // " ++ [27880; 37322]%N ++ runes_of_ascii "
} ,options1 chars  `line1
line2` ,
}
")).
Eval vm_compute in ("<<<M3654>>>" ++ check (runes_of_ascii "// top
options // c0a
  // c0b
{
    // c1
LittleEndian = // c3
true // c4
;
    // c5
} packet // c7
Logon
    // c8
{
    // c9
u8 // c10
x // c11a
  // c11b
, // c12a
  // c12b
string // c13a
  // c13b
user , } packet Logout
    // c18
{ u16 reason
    // c21
, // c22a
  // c22b
}
    // c23
packet // c24a
  // c24b
Empty // c25a
  // c25b
{ }
    // c27
root packet // c29a
  // c29b
Frame {
    // c31
u16 MsgType // c33
, // c34a
  // c34b
u16
    // c35
BodyLen // c36
@lengthOf(
    // c37
Body ) // c39a
  // c39b
, u8 // c41a
  // c41b
flags // c42
, // c43a
  // c43b
Logon Body // c45a
  // c45b
,
    // c46
u32 // c47
trailer // c48
, // c49
} // c50a
  // c50b
")).
Eval vm_compute in ("<<<M740>>>" ++ check (runes_of_ascii "
packet msg_type{ repeat
i64 MetaDataX
`line1
line2` // trailing space 
,  repeat char[] //
u128 ,
@tag(
42
    ) // @lengthOf(
@lengthOf( u )
@lengthOf( body )repeat
zchar[ 255
    //
    ]
// `tick` ""quote"" 'q'
// trailing space 
As	,calculatedFrom
    //x
    f32a
    // trailing space 
    ,}
options
{// @lengthOf(
x
    =  3 msg_type = ""`tick`"" falsey= ""CRC32""
    ;
    // trailing space 
    body=
    char[ 00] ; uint8x  = ""x y"" } options// @lengthOf(
{//
A
    =
    uint16
}root packet BodyLength { @lengthOf( pack )
    repeat
    metadata T
`{ , }`
// packet A { u8 x, }
//	t
,}packet chars{ }
// packet A { u8 x, }
")).
Eval vm_compute in ("<<<M1255>>>" ++ check (runes_of_ascii "MetaData MetaDataX { string pack ``  , u32
    falsey	,
char[//	t
65535 ] chars, u64	int ,// c
}
options
{ i8i8= true	;
float =
' '
    ;
}	packet Foo {// a // b
@lengthOf( i64_ )
repeat
    calculatedFrom{
    match // a // b
repeatCount as stringy {
255 :
    msg_type  ,65535	: // a // b
roots ""a\""b""  : repeatCount ,[
    ""packet"" ,
""1""]
:
    o
    """ ++ [28040; 24687]%N ++ runes_of_ascii """:zchar ""CRC32"" :A ,}, int64 chars @calculatedFrom( ""a\""b"" )// packet A { u8 x, }
`say ""hi""`
, packetx @lengthOf(
x_y_z ) ,
    // `tick` ""quote"" 'q'
    }, stringy @calculatedFrom( """ ++ [28040; 24687]%N ++ runes_of_ascii """) `u8 x,`
, zchar[	007 ] chars,zchar[ 1
]f32a `" ++ [28040; 24687; 31867; 22411]%N ++ runes_of_ascii "`
    , }")).
Eval vm_compute in ("<<<M744>>>" ++ check (runes_of_ascii "// " ++ [128512]%N ++ runes_of_ascii " emoji
options // c
{
Packet	= char[]a1	=
    0 ;
    BodyLength = char[]; } MetaData
    BodyLength	{
    T string_ `" ++ [28040; 24687; 31867; 22411]%N ++ runes_of_ascii "` , x_y_z
    // trailing space 
    stringy `say ""hi""`	,
    char Packet`" ++ [28040; 24687; 31867; 22411]%N ++ runes_of_ascii "` , leftPad Packet
    ,
} packet packetx
{
    //x
    match uint8x as T	{ [ /// triple
""`tick`"" ,
    0123456789 ,
""// no comment"" ,
    255 , ""abc"", 10 // c
]
: i64_ , [ ""{,}"" , ""a\""b"" ] : int
, [0123456789 ,
    //x
    65535
    , 255 // `tick` ""quote"" 'q'
,255
    ] // @lengthOf(
: repeatCount , //x
} // " ++ [128512]%N ++ runes_of_ascii " emoji
, repeat char[ 255 ]  A ,	repeat Foo`tab	here`  ,}

")).
Eval vm_compute in ("<<<M3943>>>" ++ check (runes_of_ascii "

  root	packet  crc

    {
    @calculatedFrom(
""" ++ [128512]%N ++ runes_of_ascii """  )
BodyLength
	{  x_y_z i8i8 
	//
    //
  ,int32 
uint8x 
`two words` 
, rootA  tag
,
	zchar[7 ] matchKey

`" ++ [233]%N ++ runes_of_ascii "`	,

}
,

T 
{
	x
@calculatedFrom(
    ""a	b"" )
	`// not a comment`,
zchar[ 	 // " ++ [128512]%N ++ runes_of_ascii " emoji
    	42

    ]  /// triple
  A 
,	match
	chars 
as 
      //x
  len
    {
    ""packet"": crc

3 	 //x
:

chars  [

0123456789 ,
""packet"" ] : 
pack	[ 
""packet""

    , 
00 	 // " ++ [27880; 37322]%N ++ runes_of_ascii "
  ,
7	,
	""" ++ [28040; 24687]%N ++ runes_of_ascii """, 
3
, 
""packet"",
42 ,0123456789
]

    :repeatCount""{,}"" :chars
    ,	/// triple

},
	},	}")).
Eval vm_compute in ("<<<M157>>>" ++ check (runes_of_ascii "root
packet o { @leftPad (
    '0'  )repeat uint16 o // `tick` ""quote"" 'q'
,// `tick` ""quote"" 'q'
@tag( 1
    // `tick` ""quote"" 'q'
    )
//x
// " ++ [128512]%N ++ runes_of_ascii " emoji
@tag( 65535 ) u32 options1 ,@lengthOf( i8i8) @lengthOf(int ) @leftPad// " ++ [27880; 37322]%N ++ runes_of_ascii "
() char[  42 ] len @calculatedFrom( ""packet"" ) ,
    u32 Foo @calculatedFrom( ""a\\"") ,
    } packet a1 {@lengthOf(
    A /// triple
)	Foo MetaDataX `it's`, Z9_ metadata
    //
    `" ++ [28040; 24687; 31867; 22411]%N ++ runes_of_ascii "` ,
match MetaDataX
    as falsey { [ 42
    ]
    :body // " ++ [128512]%N ++ runes_of_ascii " emoji
[""packet""	, 4294967296]
    :  A} , Z9_ ,}")).
Eval vm_compute in ("<<<M4345>>>" ++ check (runes_of_ascii "// " ++ [128512]%N ++ runes_of_ascii " emoji
options {
    Packet = char[]
    a1 = 0;
    BodyLength = char[];
}

MetaData BodyLength {
    T string_ `" ++ [28040; 24687; 31867; 22411]%N ++ runes_of_ascii "`,
    x_y_z stringy `say ""hi""`,
    char Packet `" ++ [28040; 24687; 31867; 22411]%N ++ runes_of_ascii "`,
    leftPad Packet,
}

packet packetx {
    //x
    match uint8x as T {
        [
            0123456789, 255, 10, ""`tick`"", ""// no comment"",
            ""abc""
        ] : i64_,
        [""{,}"", ""a\""b""] : int,
        [0123456789, 65535, 255, 255] : repeatCount,
    },
    repeat char[255] A,
    repeat Foo `tab	here`,
}")).
Eval vm_compute in ("<<<M1121>>>" ++ check (runes_of_ascii "options{ Logon =
int32
; x_y_z // trailing space 
= ""1"" f32a = 007 BodyLength =
    zchar[
    // " ++ [27880; 37322]%N ++ runes_of_ascii "
    3
]
    ; MetaDataX = false //x
;
} packet // c
A { match A
    as A {
    42 : _x ,
} , }
packet int
{ //
_x
    asx
,	} packet	trueish {
float	@calculatedFrom(
// " ++ [128512]%N ++ runes_of_ascii " emoji
// @lengthOf(
"""" ) ,
zchar[
65535 ] Pad@calculatedFrom(""a	b"" ) `
` //	t
,
}options
    {
    // " ++ [128512]%N ++ runes_of_ascii " emoji
    f32a =	zchar[ 42 ] ; body = ""`tick`"" ; //
As =
    true
    tag=3 ;
packetx = true
}
")).
Eval vm_compute in ("<<<M246>>>" ++ check (runes_of_ascii "packet // c
Z9_ {
As
    x
, @rightPad ( ' ') @lengthOf( Header) @rightPad(  ' '
)match u as  string_{ ""a	b""
    : Pad
    // trailing space 
    ,1: T , [ """" , 255, ""abc""
, 7
    //	t
    ] :
BodyLength ,  },match falsey
as  metadata{ 42: float ,
    // `tick` ""quote"" 'q'
    } , match lengthOf
as As {1
:
As, [	"""" ,	""a\\"" ,
""{,}"" , ""it's"" ,
    //
    42,""a\\"" , 0 // trailing space 
, 3  ]  : f32a, } , // packet A { u8 x, }
repeat float64 roots ,	}
")).
Eval vm_compute in ("<<<M869>>>" ++ check (runes_of_ascii "packet roots {
    repeat u8x `two words` ,
repeat roots // " ++ [128512]%N ++ runes_of_ascii " emoji
{ // " ++ [27880; 37322]%N ++ runes_of_ascii "
char[ 1 ] Z9_`it's`, // " ++ [128512]%N ++ runes_of_ascii " emoji
char[ // trailing space 
42
] float`" ++ [28040; 24687; 31867; 22411]%N ++ runes_of_ascii "` ,
    } , char[]	As  `a\` ,calculatedFrom {repeat uint64
trueish , } , repeat i64
MetaDataX ,
repeat string uint8x `say ""hi""` , _x A
`
` , @lengthOf( // `tick` ""quote"" 'q'
Packet )	@tag(7 )
@leftPad ( // packet A { u8 x, }
) Header { u128 , repeat
    char[] trueish  `a\`, },
    }
")).
Eval vm_compute in ("<<<M462>>>" ++ check (runes_of_ascii "
root
packet string_ {	@tag(	65535)  u8  u8x@calculatedFrom( ""it's"" // packet A { u8 x, }
) , zchar[	10
// " ++ [27880; 37322]%N ++ runes_of_ascii "
//
] pack,  string
f32a  ,
Pad x`say ""hi""`
,@calculatedFrom(
""`tick`""	) // c
@rightPad ( ' ') @calculatedFrom(
""" ++ [128512]%N ++ runes_of_ascii """ )
    match tag as  u128 {
    [
255 ,	""packet""
,	4294967296 , ""// no comment"" , ""\n"" , // a // b
65535 ,""""
    // c
    , """ ++ [28040; 24687]%N ++ runes_of_ascii """] : falsey ""CRC32"" : uint8x , [ 007 , 3 , """ ++ [28040; 24687]%N ++ runes_of_ascii """
] : As , }	,
} 	 ")).
Eval vm_compute in ("<<<M635>>>" ++ check (runes_of_ascii "  MetaData
    f32a {
char[]
trueish ,  float64 u128
`" ++ [28040; 24687; 31867; 22411]%N ++ runes_of_ascii "` ,
    //	t
    tag // a // b
f32a ,matchKey // " ++ [128512]%N ++ runes_of_ascii " emoji
int `two words` , i8	pack `a\` , } packet asx	{ int8	Header`say ""hi""`,} MetaData roots {i32 tag `" ++ [233]%N ++ runes_of_ascii "` ,
    crc  Z9_ ,
T T
    `
` , //
int32  matchKey,
matchKey Header`line1
line2`
// " ++ [27880; 37322]%N ++ runes_of_ascii "
// trailing space 
,
// `tick` ""quote"" 'q'
//x
char[
0 ] MetaDataX
    ,
// c
// @lengthOf(
} // " ++ [27880; 37322]%N)).
Eval vm_compute in ("<<<M365>>>" ++ check (runes_of_ascii "root
packet //x
pack
{ match matchKey //	t
as
int // @lengthOf(
{ 00 : metadata
    ,
    ""a\\""
    : o ,
""// no comment"" :// `tick` ""quote"" 'q'
x ,
[
""packet""] : A
, [ ""\n"",0123456789 , 00 , ""// no comment"" ,007 ,
255,
1 ,// c
0 ]
    // a // b
    : metadata ,[ 00] : Pad ,} , } // @lengthOf(
MetaData tag
{uint64 i64_`doc` ,
    } packet BodyLength { repeat
u32
u128 , }
")).
Eval vm_compute in ("<<<M309>>>" ++ check (runes_of_ascii "options // " ++ [27880; 37322]%N ++ runes_of_ascii "
{charz
    =
/// triple
/// triple
int64 chars // trailing space 
=
65535
// " ++ [27880; 37322]%N ++ runes_of_ascii "
// a // b
zchar =
'\x00'MetaDataX// a // b
=	0123456789
roots
// trailing space 
// " ++ [27880; 37322]%N ++ runes_of_ascii "
= """" } options {crc // c
=""" ++ [28040; 24687]%N ++ runes_of_ascii """
    ;
    } MetaData	float {
    zchar[ 42
// `tick` ""quote"" 'q'
//
]
leftPad
    `line1
line2` ,
i64_ u,float32 // packet A { u8 x, }
A`" ++ [28040; 24687; 31867; 22411]%N ++ runes_of_ascii "` , }")).
Eval vm_compute in ("<<<M4105>>>" ++ check (runes_of_ascii "packet i8i8 {
    match tag as i8i8 {
        """ ++ [28040; 24687]%N ++ runes_of_ascii """ : pack,
        3 : rootA,
        [1, 3] : falsey,
    },
    // " ++ [128512]%N ++ runes_of_ascii " emoji
    // trailing space 
    zchar[10] string_,// @lengthOf(
}

packet falsey {
    string chars,
    uint8x,
    @lengthOf(packetx)
    char[] Packet,
}

MetaData a1 {
    chars roots `crlf
        line`,
    asx zchar,
}")).
Eval vm_compute in ("<<<M666>>>" ++ check (runes_of_ascii "
packet u8x { //
asx
// a // b
// @lengthOf(
`say ""hi""`
    //x
    ,}  MetaData Foo{ packetx
MetaDataX `" ++ [28040; 24687; 31867; 22411]%N ++ runes_of_ascii "` ,}
packet  a1 {@calculatedFrom(""\" ++ [233]%N ++ runes_of_ascii """// trailing space 
) len
// " ++ [27880; 37322]%N ++ runes_of_ascii "
// c
`` ,@calculatedFrom(
""a\\""// trailing space 
) @lengthOf(
calculatedFrom )//	t
string
    msg_type
// trailing space 
// c
,
}
// packet A { u8 x, }
")).
Eval vm_compute in ("<<<M1102>>>" ++ check (runes_of_ascii "packet int{ @tag(7 )
@tag(007 )zchar[ 4294967296	]	Logon @calculatedFrom(""it's"" )	`" ++ [233]%N ++ runes_of_ascii "`
    ,
    @leftPad (
)@lengthOf( falsey ) char
    x @lengthOf(
// `tick` ""quote"" 'q'
// " ++ [27880; 37322]%N ++ runes_of_ascii "
msg_type )  `it's` ,
    match
a1 as BodyLength
{ 42 : u
}
, repeat float32 packetx , asx `u8 x,` // trailing space 
, lengthOf ,
roots
, }")).
Eval vm_compute in ("<<<M2031>>>" ++ check (runes_of_ascii "MetaData
    u { }  options {
// c
// @lengthOf(
float = int8 ;rootA =false ; As =	int16 // `tick` ""quote"" 'q'
repeatCount
    // trailing space 
    =
    int16
; u8x =
    //	t
    '\x00' ; } options	{
    repeatCount
= 0
u128
    //
    = false ; i64_ i64_
// trailing space 
// `tick` ""quote"" 'q'
= '0' ; //	t
}
")).
Eval vm_compute in ("<<<M1976>>>" ++ check (runes_of_ascii "MetaData
    u { }  options {
// c
// @lengthOf(
float = int8 ;rootA =false ; As =	int16 // `tick` ""quote"" 'q'
repeatCount
    // trailing space 
    =
    int16
; u8x =
    //	t
    '\x00' ; ; } options	{
    repeatCount
= 0
u128
    //
    = false ; i64_
// trailing space 
// `tick` ""quote"" 'q'
= '0' ; //	t
}
")).
Eval vm_compute in ("<<<M752>>>" ++ check (runes_of_ascii "packet o {@leftPad () repeat pack { zchar[ 0123456789 ] o`say ""hi""`  ,
} ,  }
    packet T { match T as
pack
{65535 :
// " ++ [27880; 37322]%N ++ runes_of_ascii "
//x
roots
    // " ++ [27880; 37322]%N ++ runes_of_ascii "
    ,} , matchKey Logon	, match f32a  as
    x { 3 :
    i8i8  ,	1 : a1,
    // " ++ [128512]%N ++ runes_of_ascii " emoji
    """ ++ [128512]%N ++ runes_of_ascii """
:	o, 7 :
BodyLength // c
,	}
, repeat i32 u128 , // trailing space 
}
")).
Eval vm_compute in ("<<<M1982>>>" ++ check (runes_of_ascii "MetaData
    u { }  options {
// c
// @lengthOf(
float = int8 ;rootA =false ; As =	int16 // `tick` ""quote"" 'q'
repeatCount
    // trailing space 
    =
    int16
; u8x =
    //	t
    '\x00' ; options }	{
    repeatCount
= 0
u128
    //
    = false ; i64_
// trailing space 
// `tick` ""quote"" 'q'
= '0' ; //	t
}
")).
Eval vm_compute in ("<<<M1988>>>" ++ check (runes_of_ascii "MetaData
    u { }  options {
// c
// @lengthOf(
float = int8 ;rootA =false ; As =	int16 // `tick` ""quote"" 'q'
repeatCount
    // trailing space 
    =
    int16
; u8x =
    //	t
    '\x00' ; } zchar[	{
    repeatCount
= 0
u128
    //
    = false ; i64_
// trailing space 
// `tick` ""quote"" 'q'
= '0' ; //	t
}
")).
Eval vm_compute in ("<<<M551>>>" ++ check (runes_of_ascii "packet options1 {
    @calculatedFrom(// trailing space 
""" ++ [233]%N ++ runes_of_ascii "t" ++ [233]%N ++ runes_of_ascii """
)
@calculatedFrom(""packet"") repeat
int16
calculatedFrom
,
    @rightPad( ) Z9_
// `tick` ""quote"" 'q'
// `tick` ""quote"" 'q'
@calculatedFrom( """ ++ [128512]%N ++ runes_of_ascii """ )
`line1
line2` , int64
    rootA
,
_x@calculatedFrom( ""a	b""
// `tick` ""quote"" 'q'
//	t
)
    ,	}
")).
Eval vm_compute in ("<<<M290>>>" ++ check (runes_of_ascii "packet i8i8
{ zchar[	10 ]a1 ,	}packet x_y_z {
//
// c
} options{	matchKey
= false// " ++ [128512]%N ++ runes_of_ascii " emoji
;
Foo=
i32 ; MetaDataX  = 007 pack =
""" ++ [28040; 24687]%N ++ runes_of_ascii """
// a // b
// c
; }  packet leftPad  {} root packet// a // b
stringy{/// triple
rootA Pad ,	falsey @calculatedFrom( ""it's"") `two words` , u8x float
, int64
u8x, } //x")).
Eval vm_compute in ("<<<M672>>>" ++ check (runes_of_ascii "//
root packet  Foo{ char[]//
leftPad // trailing space 
,}options { } root
packet i64_ { @lengthOf( x_y_z ) @calculatedFrom( ""abc"" )  @lengthOf( leftPad )
repeat body	zchar `it's`  , char[]
    metadata @lengthOf( MetaDataX
//	t
/// triple
) `doc`
    , repeat
Foo Header , /// triple
}
")).
Eval vm_compute in ("<<<M3717>>>" ++ check (runes_of_ascii "
// top

MetaData
	    // c0
    body 
    // c1
  { 
    // c2
i64
    // c3
  pack 
// c4
    `it's`
    // c5
  	,

// c6
	}

// c7

packet
	// c8
stringy
        // c9
{ 

// c10
int16
	// c11
    	calculatedFrom 
        // c12
  ,
	    // c13
  }
    // c14
")).
Eval vm_compute in ("<<<M332>>>" ++ check (runes_of_ascii "// packet A { u8 x, }
options{
    T
=""packet"" ; } MetaData x_y_z
{
char roots ,
    T f32a `{ , }`, } root packet // " ++ [128512]%N ++ runes_of_ascii " emoji
uint8x
{ @calculatedFrom( ""// no comment"") repeat As
{rootA
@calculatedFrom(
""" ++ [28040; 24687]%N ++ runes_of_ascii """ ) `{ , }` , u16 zchar`{ , }` ,  char[	7
]o `" ++ [233]%N ++ runes_of_ascii "` ,
} ,}
")).
Eval vm_compute in ("<<<M1489>>>" ++ check (runes_of_ascii "packet packet
//	t
// trailing space 
_x {
// packet A { u8 x, }
// c
char[
3
    ] u8x @lengthOf(
u8x ) , @calculatedFrom(""" ++ [128512]%N ++ runes_of_ascii """ // @lengthOf(
)
i16	Foo
@lengthOf(	string_
    )`doc`	, repeat	i64 metadata , @lengthOf( string_
) i8 // c
u  `line1
line2`	,
}
")).
Eval vm_compute in ("<<<M1498>>>" ++ check (runes_of_ascii "packet
//	t
// trailing space 
_x { {
// packet A { u8 x, }
// c
char[
3
    ] u8x @lengthOf(
u8x ) , @calculatedFrom(""" ++ [128512]%N ++ runes_of_ascii """ // @lengthOf(
)
i16	Foo
@lengthOf(	string_
    )`doc`	, repeat	i64 metadata , @lengthOf( string_
) i8 // c
u  `line1
line2`	,
}
")).
Eval vm_compute in ("<<<M1665>>>" ++ check ([65279]%N ++ runes_of_ascii "packet
//	t
// trailing space 
_x {
// packet A { u8 x, }
// c
char[
3
    ] u8x @lengthOf(
u8x ) , @calculatedFrom(""" ++ [128512]%N ++ runes_of_ascii """ // @lengthOf(
)
i16	Foo
@lengthOf(	string_
    )`doc`	, repeat	i64 metadata , @lengthOf( string_
) i8 // c
u  `line1
line2`	,
}
")).
Eval vm_compute in ("<<<M1589>>>" ++ check (runes_of_ascii "packet
//	t
// trailing space 
_x {
// packet A { u8 x, }
// c
char[
3
    ] u8x @lengthOf(
u8x ) , @calculatedFrom(""" ++ [128512]%N ++ runes_of_ascii """ // @lengthOf(
)
i16	Foo
@lengthOf(	string_
    )`doc`	repeat ,	i64 metadata , @lengthOf( string_
) i8 // c
u  `line1
line2`	,
}
")).
Eval vm_compute in ("<<<M1642>>>" ++ check (runes_of_ascii "packet
//	t
// trailing space 
_x {
// packet A { u8 x, }
// c
char[
3
    ] u8x @lengthOf(
u8x ) , @calculatedFrom(""" ++ [128512]%N ++ runes_of_ascii """ // @lengthOf(
)
i16	Foo
@lengthOf(	string_
    )`doc`	, repeat	i64 metadata , @lengthOf( string_
) i8 // c
u  `line1
line2`	
}
")).
Eval vm_compute in ("<<<M1488>>>" ++ check (runes_of_ascii "
//	t
// trailing space 
_x {
// packet A { u8 x, }
// c
char[
3
    ] u8x @lengthOf(
u8x ) , @calculatedFrom(""" ++ [128512]%N ++ runes_of_ascii """ // @lengthOf(
)
i16	Foo
@lengthOf(	string_
    )`doc`	, repeat	i64 metadata , @lengthOf( string_
) i8 // c
u  `line1
line2`	,
}
")).
Eval vm_compute in ("<<<M1004>>>" ++ check (runes_of_ascii "root
packet calculatedFrom { repeat string charz,@calculatedFrom( """ ++ [233]%N ++ runes_of_ascii "t" ++ [233]%N ++ runes_of_ascii """
)
Foo @lengthOf(
    tag ) `a\`,match
_x  as
    As // c
{""{,}"" :f32a,	} ,}
    MetaData body { leftPad asx , u Pad //x
`
` , zchar[3]
leftPad ,
metadata chars ,	}
")).
Eval vm_compute in ("<<<M637>>>" ++ check (runes_of_ascii "
packet charz {
repeat
zchar[
    // @lengthOf(
    007/// triple
]/// triple
falsey
    `line1
line2` ,
}	root packet
    leftPad {
x
    metadata
, }	packet
rootA { char[65535
    // c
    ]chars , } options { body
= ' '
}")).
Eval vm_compute in ("<<<M677>>>" ++ check (runes_of_ascii "root packet
    leftPad
    { @lengthOf(
/// triple
//x
_x ) // trailing space 
stringy{
Pad //
{ stringy falsey , int32 metadata @lengthOf( x_y_z)
, }, }
, @rightPad ( )
@tag( 10 ) BodyLength
    `say ""hi""`
,
    }")).
Eval vm_compute in ("<<<M1145>>>" ++ check (runes_of_ascii "MetaData
calculatedFrom
{
    Foo uint8x,o Packet `a\`
, int8
Packet
,
As calculatedFrom
, } options  { T
// trailing space 
// c
= u64 ; stringy =/// triple
f64 ; BodyLength =
// a // b
/// triple
true ; } 	 ")).
Eval vm_compute in ("<<<M1732>>>" ++ check (runes_of_ascii "options { trueish = ""`tick`"" ; string_= """ ++ [233]%N ++ runes_of_ascii "t" ++ [233]%N ++ runes_of_ascii """
    // c
    } root
    packet body body { stringy @calculatedFrom(
""a	b"" ) `line1
line2` , }
packet Logon {
    @leftPad(
    ' ' ) //	t
u16 string_ `u8 x,` ,
}
")).
Eval vm_compute in ("<<<M1807>>>" ++ check (runes_of_ascii "options { trueish = ""`tick`"" ; string_= """ ++ [233]%N ++ runes_of_ascii "t" ++ [233]%N ++ runes_of_ascii """
    // c
    } root
    packet body { stringy @calculatedFrom(
""a	b"" ) `line1
line2` , }
packet Logon {
    @leftPad(
    ' ' ) ) //	t
u16 string_ `u8 x,` ,
}
")).
Eval vm_compute in ("<<<M1689>>>" ++ check (runes_of_ascii "options { trueish { ""`tick`"" ; string_= """ ++ [233]%N ++ runes_of_ascii "t" ++ [233]%N ++ runes_of_ascii """
    // c
    } root
    packet body { stringy @calculatedFrom(
""a	b"" ) `line1
line2` , }
packet Logon {
    @leftPad(
    ' ' ) //	t
u16 string_ `u8 x,` ,
}
")).
Eval vm_compute in ("<<<M1828>>>" ++ check (runes_of_ascii "options { trueish = ""`tick`"" ; string_= """ ++ [233]%N ++ runes_of_ascii "t" ++ [233]%N ++ runes_of_ascii """
    // c
    } root
    packet body { stringy @calculatedFrom(
""a	b"" ) `line1
line2` , }
packet Logon {
    @leftPad(
    ' ' ) //	t
u16 string_ `u8 x,` }
,
")).
Eval vm_compute in ("<<<M1714>>>" ++ check (runes_of_ascii "options { trueish = ""`tick`"" ; string_= (
    // c
    } root
    packet body { stringy @calculatedFrom(
""a	b"" ) `line1
line2` , }
packet Logon {
    @leftPad(
    ' ' ) //	t
u16 string_ `u8 x,` ,
}
")).
Eval vm_compute in ("<<<M1821>>>" ++ check (runes_of_ascii "options { trueish = ""`tick`"" ; string_= """ ++ [233]%N ++ runes_of_ascii "t" ++ [233]%N ++ runes_of_ascii """
    // c
    } root
    packet body { stringy @calculatedFrom(
""a	b"" ) `line1
line2` , }
packet Logon {
    @leftPad(
    ' ' ) //	t
u16 string_  ,
}
")).
Eval vm_compute in ("<<<M1764>>>" ++ check (runes_of_ascii "options { trueish = ""`tick`"" ; string_= """ ++ [233]%N ++ runes_of_ascii "t" ++ [233]%N ++ runes_of_ascii """
    // c
    } root
    packet body { stringy @calculatedFrom(
""a	b"" ) , , }
packet Logon {
    @leftPad(
    ' ' ) //	t
u16 string_ `u8 x,` ,
}
")).
Eval vm_compute in ("<<<M804>>>" ++ check (runes_of_ascii "//	t
MetaData
    chars { falsey pack , packetx zchar
    `
`	, } // " ++ [128512]%N ++ runes_of_ascii " emoji
packet u128
    {@lengthOf(tag ) @tag(
    // trailing space 
    1)
@rightPad
(
'\x00'
    ) i64 T
,
}")).
Eval vm_compute in ("<<<M2054>>>" ++ check (runes_of_ascii "MetaData
    u { }  options {
// c
// @lengthOf(
float = int8 ;rootA =false ; As =	int16 // `tick` ""quote"" 'q'
repeatCount
    // trailing space 
    =
    int16
; u8x =
    ")).
Eval vm_compute in ("<<<M1377>>>" ++ check (runes_of_ascii "packet trueish { Header repeatCount
,
    repeat metadata //	t
tag // packet A { u8 x, }
, //	t
@lengthOf( calculatedFrom	) MetaDataX @lengthOf( packetx ) // a // b
, }
")).
Eval vm_compute in ("<<<M1805>>>" ++ check (runes_of_ascii "options { trueish = ""`tick`"" ; string_= """ ++ [233]%N ++ runes_of_ascii "t" ++ [233]%N ++ runes_of_ascii """
    // c
    } root
    packet body { stringy @calculatedFrom(
""a	b"" ) `line1
line2` , }
packet Logon {
    @leftPad(")).
Eval vm_compute in ("<<<M2310>>>" ++ check (runes_of_ascii "// c
packet x { @lengthOf( metadata ) repeat lengthOf
,a1{
trueish	,// c
repeat//	t
MetaDataX , } , zchar[
    42	] rootA rootA // `tick` ""quote"" 'q'
,
    }
")).
Eval vm_compute in ("<<<M2145>>>" ++ check (runes_of_ascii "options{
_x
= true
} options
{ o	= /// triple
false
    ; chars
= ""\n"" ""\n"" } root packet	Pad
/// triple
// packet A { u8 x, }
{	chars
    // a // b
    ,}")).
Eval vm_compute in ("<<<M1091>>>" ++ check (runes_of_ascii "// " ++ [128512]%N ++ runes_of_ascii " emoji
packet// @lengthOf(
string_ {@calculatedFrom(
""" ++ [233]%N ++ runes_of_ascii "t" ++ [233]%N ++ runes_of_ascii """) repeat
    i64 MetaDataX  , u64 i8i8
    `a\`
,
    As
//
// " ++ [27880; 37322]%N ++ runes_of_ascii "
, // packet A { u8 x, }
}
")).
Eval vm_compute in ("<<<M2311>>>" ++ check (runes_of_ascii "// c
packet x { @lengthOf( metadata ) repeat lengthOf
,a1{
trueish	,// c
repeat//	t
MetaDataX , } , 42
    zchar[	] rootA // `tick` ""quote"" 'q'
,
    }
")).
Eval vm_compute in ("<<<M2198>>>" ++ check (runes_of_ascii "options{
_x
= true
} options
{ o	= /// triple
f" ++ [233]%N ++ runes_of_ascii "alse
    ; chars
= ""\n"" } root packet	Pad
/// triple
// packet A { u8 x, }
{	chars
    // a // b
    ,}")).
Eval vm_compute in ("<<<M2146>>>" ++ check (runes_of_ascii "options{
_x
= true
} options
{ o	= /// triple
false
    ; chars
= } ""\n"" root packet	Pad
/// triple
// packet A { u8 x, }
{	chars
    // a // b
    ,}")).
Eval vm_compute in ("<<<M3583>>>" ++ check (runes_of_ascii "packet A {
    u8 a,
}
packet B {
    u16 b,
}
root packet P {
    u8 K,
    match K as M {
        [1, 2] : A,
        3 : B,
        7 : A,
    },
}
")).
Eval vm_compute in ("<<<M2357>>>" ++ check (runes_of_ascii "// c
 x { @lengthOf( metadata ) repeat lengthOf
,a1{
trueish	,// c
repeat//	t
MetaDataX , } , zchar[
    42	] rootA // `tick` ""quote"" 'q'
,
    }
")).
Eval vm_compute in ("<<<M2057>>>" ++ check (runes_of_ascii "MetaData
    u { }  options {
// c
// @lengthOf(
float = int8 ;rootA =false ; As =	int16 // `tick` ""quote"" 'q'
repeatCount
    // trailing space")).
Eval vm_compute in ("<<<M198>>>" ++ check (runes_of_ascii "MetaData
    //x
    body
    // a // b
    { BodyLength stringy ,
    //	t
    zchar[ 42 ] o
    ,
i64_ lengthOf `{ , }` ,u8 MetaDataX  , }")).
Eval vm_compute in ("<<<M3582>>>" ++ check (runes_of_ascii "

  packet A  {	u8

    a
    ,} 
packet
    B
{ 
u16 b,}

    root packet 
P 
{ u8 
K ,
match K as M
{ 
1  :
A
	,1
:B , }
    ,
	}
")).
Eval vm_compute in ("<<<M647>>>" ++ check (runes_of_ascii "MetaData a1 { x_y_z crc `say ""hi""` , uint16 i8i8 `// not a comment`
, char[] u `{ , }`
, Pad Header
, u32
    packetx `{ , }` , }
")).
Eval vm_compute in ("<<<M1082>>>" ++ check (runes_of_ascii "packet i8i8 {
@calculatedFrom( // @lengthOf(
""it's"")@leftPad ( // " ++ [27880; 37322]%N ++ runes_of_ascii "
'0'
) @lengthOf(msg_type  )u8 Logon
    `tab	here`,
}
")).
Eval vm_compute in ("<<<M4020>>>" ++ check (runes_of_ascii "MetaData msg_type {
    Packet int,
    char[3] Foo `// not a comment`,
    zchar[7] uint8x,
    leftPad crc `
        `,
}")).
Eval vm_compute in ("<<<M3320>>>" ++ check (runes_of_ascii "root packet matchKey { zchar[ // c
3 ] pack @calculatedFrom( ""a	b"" ) `doc` , } options { } MetaData A { int8 msg_type , }")).
Eval vm_compute in ("<<<M3352>>>" ++ check (runes_of_ascii "root packet matchKey { zchar[ 3 ] pack @calculatedFrom( ""a	b"" ) `doc` , } options { } MetaData A { int8 // c
msg_type , }")).
Eval vm_compute in ("<<<M1473>>>" ++ check (runes_of_ascii "
packet
    falsey { Header@calculatedFrom(""packet""  ) , char[
    0123456789 ] packetx
    \, } // `tick` ""quote"" 'q'")).
Eval vm_compute in ("<<<M2990>>>" ++ check (runes_of_ascii "packet A {
  match k as n {
    [""a"", ""bb"", ""c c"", ""d"", ""e"", ""f"", ""g"", ""h"", ""i"", ""j"", ""k"", ""l""] : B,
    2 : C
  },
}")).
Eval vm_compute in ("<<<M3045>>>" ++ check (runes_of_ascii "packet A {
    u16 len @lengthOf(body) `tab
	x`,
    u32 crc @calculatedFrom(""CRC32"") `tab
	x`,
    string body,
}")).
Eval vm_compute in ("<<<M1455>>>" ++ check (runes_of_ascii "
packet
    falsey { Header@calculatedFrom(""packet""  ) , char[
    0123456789 ] (
    , } // `tick` ""quote"" 'q'")).
Eval vm_compute in ("<<<M466>>>" ++ check (runes_of_ascii "/// triple
MetaData	asx { roots x_y_z ,
calculatedFrom o ,
}
packet pack { roots
    // @lengthOf(
    , }
")).
Eval vm_compute in ("<<<M4253>>>" ++ check (runes_of_ascii "packet
chars {
    }packet

    MetaDataX
	{	@tag(42
	) 
i16	// c

  string_
,
	repeat
x`say ""hi""` 
,}")).
Eval vm_compute in ("<<<M1058>>>" ++ check (runes_of_ascii "options {
    } packet As {f32 int @calculatedFrom(""{,}"")
, u8 packetx ,u128 len, } packet options1 {}")).
Eval vm_compute in ("<<<M926>>>" ++ check (runes_of_ascii "packet u{ repeat tag chars
,
//	t
// a // b
u16 zchar
/// triple
//	t
,
uint8 falsey
    `doc` ,
}
")).
Eval vm_compute in ("<<<M91>>>" ++ check (runes_of_ascii "// trailing space 
MetaData u8x
{
i64_
    i64_ `doc`,i16 Z9_ `say ""hi""` , BodyLength
roots ,
}")).
Eval vm_compute in ("<<<M2327>>>" ++ check (runes_of_ascii "// c
packet x { @lengthOf( metadata ) repeat lengthOf
,a1{
trueish	,// c
repeat//	t
MetaDataX")).
Eval vm_compute in ("<<<M881>>>" ++ check (runes_of_ascii "MetaData chars
    {
pack
// " ++ [27880; 37322]%N ++ runes_of_ascii "
/// triple
calculatedFrom , }options { } // trailing space ")).
Eval vm_compute in ("<<<M3880>>>" ++ check (runes_of_ascii "packet o {
    repeat Logon uint8x,
}

options {
    asx = zchar[3]
    stringy = '\x00'
}")).
Eval vm_compute in ("<<<M3288>>>" ++ check (runes_of_ascii "MetaData float { float64 charz `
` , } root packet
// c
chars { @rightPad ( '0' ) Foo , }")).
Eval vm_compute in ("<<<M3499>>>" ++ check (runes_of_ascii "packet chars { } packet MetaDataX { @tag( // c
42 ) i16 string_ , repeat x `say ""hi""` , }")).
Eval vm_compute in ("<<<M2272>>>" ++ check (runes_of_ascii "options
{ } options { BodyLength= u16 Header= f64 ; u128 = =
    true
    ; } // a // b")).
Eval vm_compute in ("<<<M2912>>>" ++ check (runes_of_ascii "packet A {
  match k as n {
    [""a"", ""bb"", ""c c"", ""d"", ""e"", ""f""] : B,
    2 : C
  },
}")).
Eval vm_compute in ("<<<M2268>>>" ++ check (runes_of_ascii "options
{ } options { BodyLength= u16 Header= f64 ; = u128
    true
    ; } // a // b")).
Eval vm_compute in ("<<<M3238>>>" ++ check (runes_of_ascii "packet metadata { Logon { A `" ++ [28040; 24687; 31867; 22411]%N ++ runes_of_ascii "` , tag o , } ,
// c
zchar len `// not a comment` , }")).
Eval vm_compute in ("<<<M2949>>>" ++ check (runes_of_ascii "packet A {
  match k as n {
    [1, 22, 007, 4, 5, 66, 7, 8, 9] : B,
    2 : C
  },
}")).
Eval vm_compute in ("<<<M3458>>>" ++ check (runes_of_ascii "packet o { repeat Logon uint8x , } options { asx = zchar[ 3 ]
// c
stringy = '\x00' }")).
Eval vm_compute in ("<<<M2241>>>" ++ check (runes_of_ascii "options
{ } options { BodyLength=  Header= f64 ; u128 =
    true
    ; } // a // b")).
Eval vm_compute in ("<<<M3403>>>" ++ check (runes_of_ascii "MetaData body { i64 pack
// c
`it's` , } packet stringy { int16 calculatedFrom , }")).
Eval vm_compute in ("<<<M4500>>>" ++ check (runes_of_ascii "packet A {
    match k as n {
        [1, 007, ""bb""] : B,
        2 : C,
    },
}")).
Eval vm_compute in ("<<<M3950>>>" ++ check (runes_of_ascii "packet 
x
{	@rightPad
( )

repeat

    roots

    Logon 
`doc`  // c

,
}")).
Eval vm_compute in ("<<<M3940>>>" ++ check (runes_of_ascii "packet lengthOf {
    match u128 as i8i8 {
        ""a\\"" : Header,
    },
}")).
Eval vm_compute in ("<<<M2891>>>" ++ check (runes_of_ascii "packet A {
  match k as n {
    [""a"", 22, ""c c"", 4] : B
    2 : C
  },
}")).
Eval vm_compute in ("<<<M2851>>>" ++ check (runes_of_ascii "@lengthOf( int8 , MetaData repeat @lengthOf( f32 root repeat '\x00' ]")).
Eval vm_compute in ("<<<M4426>>>" ++ check (runes_of_ascii "options {
    msg_type = 42;
    metadata = """";
    matchKey = u8
}")).
Eval vm_compute in ("<<<M2922>>>" ++ check (runes_of_ascii "packet A { Inner { match k as n { [1,22,007,4,5,66] : B, }, }, }")).
Eval vm_compute in ("<<<M2290>>>" ++ check (runes_of_ascii "options
{ } options { BodyLength= u16 Header= f64 ; u128 =
  ")).
Eval vm_compute in ("<<<M3364>>>" ++ check (runes_of_ascii "
// c
packet x { @rightPad ( ) repeat roots Logon `doc` , }")).
Eval vm_compute in ("<<<M3378>>>" ++ check (runes_of_ascii "packet x { @rightPad ( ) repeat
// c
roots Logon `doc` , }")).
Eval vm_compute in ("<<<M1899>>>" ++ check (runes_of_ascii "MetaData
    u { }  options {
// c
// @lengthOf(
float =")).
Eval vm_compute in ("<<<M4591>>>" ++ check (runes_of_ascii "MetaData M {
    u8 x `a
    b`,
    T t `a
    b`,
}")).
Eval vm_compute in ("<<<M1245>>>" ++ check (runes_of_ascii "options{
i8i8 =u32
    ; msg_type  = //
true
}

")).
Eval vm_compute in ("<<<M755>>>" ++ check (runes_of_ascii "MetaData
u8x{ a1
float// trailing space 
, }
")).
Eval vm_compute in ("<<<M4361>>>" ++ check (runes_of_ascii "
packet  // packet A { u8 x, }
	rootA  {
}
")).
Eval vm_compute in ("<<<M1199>>>" ++ check (runes_of_ascii "
MetaData u8x { msg_type
    matchKey, }
")).
Eval vm_compute in ("<<<M2800>>>" ++ check (runes_of_ascii "packet int32 options i32 MetaData packet")).
Eval vm_compute in ("<<<M4593>>>" ++ check (runes_of_ascii "packet
A  { 
u8
x

`d" ++ [8233]%N ++ runes_of_ascii "`
	, // c" ++ [8233]%N ++ runes_of_ascii "

  } ")).
Eval vm_compute in ("<<<M2605>>>" ++ check (runes_of_ascii "packet A { match k as n { 1 : B }, }")).
Eval vm_compute in ("<<<M2812>>>" ++ check (runes_of_ascii "i64 @lengthOf( `// not a comment` (")).
Eval vm_compute in ("<<<M4399>>>" ++ check (runes_of_ascii "packet i8i8 {
    a1 `{ , }`,
}//x")).
Eval vm_compute in ("<<<M3036>>>" ++ check (runes_of_ascii "root packet A {
    u8 x `x
`,
}")).
Eval vm_compute in ("<<<M2732>>>" ++ check ([65533; 2]%N ++ runes_of_ascii "+" ++ [65533]%N ++ runes_of_ascii "q" ++ [30]%N ++ runes_of_ascii "~#" ++ [65533; 65533]%N ++ runes_of_ascii "?&4" ++ [65533]%N ++ runes_of_ascii "ve" ++ [65533; 65533; 65533]%N ++ runes_of_ascii "j" ++ [65533; 65533; 3; 65533; 65533; 25; 16; 65533; 65533; 29]%N)).
Eval vm_compute in ("<<<M3007>>>" ++ check (runes_of_ascii "packet A {
    u8 x `a
b`,
}")).
Eval vm_compute in ("<<<M2780>>>" ++ check (runes_of_ascii "&.0eM;;i>|Pm^?l:T]h$Bi_(l64")).
Eval vm_compute in ("<<<M1120>>>" ++ check (runes_of_ascii "packet
    Logon
{Foo , }")).
Eval vm_compute in ("<<<M2701>>>" ++ check (runes_of_ascii "zchar[ float32 ' ' { '0'")).
Eval vm_compute in ("<<<M285>>>" ++ check (runes_of_ascii "MetaData leftPad {
}
")).
Eval vm_compute in ("<<<M2856>>>" ++ check (runes_of_ascii "0" ++ [284; 7; 65533]%N ++ runes_of_ascii "o" ++ [65533]%N ++ runes_of_ascii ">a" ++ [65533; 65533]%N ++ runes_of_ascii "3" ++ [31; 65533]%N ++ runes_of_ascii " " ++ [6; 65533; 65533; 28; 65533; 65533]%N)).
Eval vm_compute in ("<<<M3126>>>" ++ check (runes_of_ascii "// c 	
packet A {
}")).
Eval vm_compute in ("<<<M3070>>>" ++ check (runes_of_ascii "packet A {
}
// c" ++ [160]%N)).
Eval vm_compute in ("<<<M3797>>>" ++ check (runes_of_ascii "root packet As {
}")).
Eval vm_compute in ("<<<M3133>>>" ++ check (runes_of_ascii "packet A {
}// c" ++ [65279]%N)).
Eval vm_compute in ("<<<M4284>>>" ++ check (runes_of_ascii "  options

{}
")).
Eval vm_compute in ("<<<M2225>>>" ++ check (runes_of_ascii "options
{ }")).
Eval vm_compute in ("<<<M2802>>>" ++ check ([65533; 65533]%N ++ runes_of_ascii "K" ++ [65533; 65533]%N ++ runes_of_ascii "	y" ++ [65533; 65533]%N ++ runes_of_ascii "7")).
Eval vm_compute in ("<<<M723>>>" ++ check (runes_of_ascii "//x
 	 ")).
Eval vm_compute in ("<<<M2513>>>" ++ check (runes_of_ascii """a\
b""")).
Eval vm_compute in ("<<<M2752>>>" ++ check (runes_of_ascii "x\SS\")).
Eval vm_compute in ("<<<M2503>>>" ++ check (runes_of_ascii "//x")).
Eval vm_compute in ("<<<M2518>>>" ++ check (runes_of_ascii """`""")).
Eval vm_compute in ("<<<M2507>>>" ++ check (runes_of_ascii """""")).
Eval vm_compute in ("<<<M2688>>>" ++ check ([0]%N)).
