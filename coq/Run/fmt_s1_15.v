From FP Require Import Lexer Parser ShowPT Digest Formatter.
From Coq Require Import String List NArith.
Import ListNotations.
Open Scope string_scope.
Set Printing Width 100000000.
Set Printing Depth 100000000.
Definition show_fres (r : fres) : string :=
  match r with
  | FOk s => "OK:" ++ sh_escaped s ""
  | FErr s => "ERR:" ++ sh_escaped s ""
  | FPanic p => "PANIC:" ++ p
  end.
Definition check (rs : list rune) : string := digest (show_fres (format_res rs)).
Definition full (rs : list rune) : string := show_fres (format_res rs).
Eval vm_compute in ("<<<M3650>>>" ++ check (runes_of_ascii "options { LittleEndian =
    // c3
false // c4
; FixedStringPadFromLeft // c6a
  // c6b
= // c7a
  // c7b
false // c8
; // c9
FixedStringPadChar // c10
= // c11
' '
    // c12
; // c13a
  // c13b
} packet Fill { uint16 // c18a
  // c18b
Qty // c19a
  // c19b
, // c20a
  // c20b
uint64 clOrdID // c22
,
    // c23
repeat // c24a
  // c24b
i64
    // c25
Flags // c26
, // c27
} // c28
packet // c29a
  // c29b
Ack
    // c30
{ zchar[ // c32
7 ] clOrdID , // c36
u64
    // c37
lastPx // c38
,
    // c39
char[] // c40a
  // c40b
Note , // c42a
  // c42b
repeat
    // c43
Fill , // c45
int32
    // c46
count , } // c49
packet
    // c50
Quote // c51a
  // c51b
{ u8 // c53
venue // c54a
  // c54b
, InRef40 // c56a
  // c56b
{ // c57a
  // c57b
char[] // c58
Qty
    // c59
, // c60
}
    // c61
,
    // c62
zchar[
    // c63
5 ] Flags
    // c66
,
    // c67
@rightPad
    // c68
( // c69
'\x00' // c70a
  // c70b
) // c71
char[ // c72
12
    // c73
] // c74a
  // c74b
msgKind // c75
, // c76a
  // c76b
} // c77
packet
    // c78
Logout
    // c79
{ // c80
InSym79 // c81
{ int32
    // c83
Qty
    // c84
, Fill // c86a
  // c86b
, // c87
char[ 3
    // c89
]
    // c90
x // c91a
  // c91b
, // c92
repeat
    // c93
InNote29 // c94a
  // c94b
{ // c95a
  // c95b
i16
    // c96
price // c97a
  // c97b
,
    // c98
Ack , // c100a
  // c100b
f64
    // c101
x // c102a
  // c102b
, zchar[ // c104a
  // c104b
8 ] // c106a
  // c106b
count
    // c107
,
    // c108
} // c109
,
    // c110
}
    // c111
, // c112
}
    // c113
root // c114
packet Logon { // c117a
  // c117b
zchar[ // c118a
  // c118b
1 // c119
] sym
    // c121
, u32 // c123
count // c124
,
    // c125
u16 tag7
    // c127
@lengthOf( Body // c129
)
    // c130
, // c131a
  // c131b
match count as // c134a
  // c134b
Body // c135a
  // c135b
{
    // c136
[
    // c137
122 // c138a
  // c138b
,
    // c139
152
    // c140
] // c141
: // c142a
  // c142b
Ack
    // c143
, 118 // c145a
  // c145b
: Logout , // c148a
  // c148b
61 // c149
: // c150
Quote // c151a
  // c151b
, // c152a
  // c152b
161 // c153a
  // c153b
: Fill
    // c155
,
    // c156
} // c157
, // c158a
  // c158b
u32 // c159
Acct @calculatedFrom( ""CRC32"" ) // c163a
  // c163b
, } ")).
Eval vm_compute in ("<<<M4284>>>" ++ check (runes_of_ascii "MetaData 
msg_type

{ trueish
i8i8  ,

    float32
    msg_type , options1 
BodyLength`two words`  ,u128

    body `u8 x,`

    ,

}  // trailing space 

packet  
  // c
    Logon {
repeat i32
    metadata  `
` ,@calculatedFrom(
	""x y""  )
    // c
	i64_, i64	int 
@lengthOf(
	pack
	) 
,
	char[]charz	, 
        // @lengthOf(

match

_x as 
    // a // b

/// triple
	pack

    {
    3
	:

    body 
,  [""// no comment"",""a\""b""  ]
:uint8x
,

    3

: lengthOf
	, }
	, matchKey , 
roots

{
	_x	@lengthOf(
Pad
)	,	repeat a1
_x
, 
},
	string 
T
	,

    @lengthOf( 
//
// a // b
  	Pad)

match  f32a

as
    u// c
    {  // a // b
	[ 10 
        // a // b
	,
    //	t
  """ ++ [233]%N ++ runes_of_ascii "t" ++ [233]%N ++ runes_of_ascii """,// a // b
		""`tick`""
    ,

255
	, 0123456789

    , ""1""
, 	 //
	""a	b"" 
,

3  ]  :options1  }, }
	MetaData 
u128 { 
char[  10

]
    tag

    , 
pack 
stringy
    ,

char  pack  ,
	} root  packet	Header 	 //
  {match
Foo 
as
    Logon
    {  [ 
""" ++ [233]%N ++ runes_of_ascii "t" ++ [233]%N ++ runes_of_ascii """

, ""CRC32""	]:falsey	[  //x
    """ ++ [233]%N ++ runes_of_ascii "t" ++ [233]%N ++ runes_of_ascii """	,
/// triple

	// a // b
    """"]
:	u128
	, [	00

    ,  ""a\""b"" 
,
	7,
""it's""

,	""" ++ [28040; 24687]%N ++ runes_of_ascii """ ,
    00 , 
      // " ++ [128512]%N ++ runes_of_ascii " emoji
    /// triple
    255 , 00]	: 
asx,
""// no comment"":  charz

    ,

    ""1""
    :Packet ,

    [""// no comment"" , 1
]
    :zchar,
}
    ,  @lengthOf(u8x  // a // b
  ) @tag(
007 // @lengthOf(
    )
    @lengthOf(
pack
	)
	u8 _x
	`doc` ,  zchar[
0123456789
	// a // b
    	]
    Packet
@lengthOf(

o
)
,

    match chars  as	msg_type
{	""\n"" :

lengthOf ,
0123456789 

    // packet A { u8 x, }
  // trailing space 
	  :
a1
, 
[4294967296 ]
    :stringy 
, [
    ""`tick`""

    , ""`tick`"" 
	// `tick` ""quote"" 'q'
    	,

0 
] // @lengthOf(

  :

    /// triple
      falsey  ,[	// `tick` ""quote"" 'q'
  	007 
, 
      // a // b

65535 ,
	65535
	,
10

    ,  ""abc"", 3

    ]

:
    body ,
}
    ,
zchar[

    10 ]
	// " ++ [27880; 37322]%N ++ runes_of_ascii "
    Logon
    , }packet
Packet 
{
    }  // " ++ [27880; 37322]%N ++ runes_of_ascii "
 
")).
Eval vm_compute in ("<<<M3895>>>" ++ check (runes_of_ascii "options {
    metadata = string;
}

packet Header {
    @leftPad(' ')
    string i8i8 `it's`,
    @lengthOf(roots)
    u @calculatedFrom(""" ++ [128512]%N ++ runes_of_ascii """),
    @tag(65535)
    match Pad as stringy {
        3 : f32a,
        ""a\\"" : i8i8,
        [""" ++ [128512]%N ++ runes_of_ascii """, 7] : rootA,
        // " ++ [128512]%N ++ runes_of_ascii " emoji
        ""a\""b"" : x_y_z,
        [0123456789, ""a	b""] : Logon,
    },
    metadata {
        char[] chars @calculatedFrom(""" ++ [128512]%N ++ runes_of_ascii """) `two words`,
        repeat asx {
            msg_type {
                int64 _x `
                `,
                repeat Z9_,
                uint16 leftPad `line1
                line2`,
                trueish x_y_z ``,
            },// trailing space 
            zchar[4294967296] chars `crlf
            line`,
            Logon `a\`,
        },
        char[] body,
    },
    repeat u {
        int {
            repeat zchar {
                f64 lengthOf @calculatedFrom(""abc"") `" ++ [233]%N ++ runes_of_ascii "`,/// triple
            },
            As @calculatedFrom(""{,}""),
            repeat char[] metadata,
            string calculatedFrom `two words`,
        },
    },
    @rightPad('0')
    // " ++ [27880; 37322]%N ++ runes_of_ascii "
    @rightPad('0')
    @lengthOf(x)
    repeat leftPad `// not a comment`,
    @rightPad(' ')
    o Z9_,
}

packet Pad {
    metadata trueish `u8 x,`,
}

options {
    len = i64
    f32a = ""x y"";
    matchKey = ""packet"";
}

packet lengthOf {
    char[7] MetaDataX @lengthOf(BodyLength),
    int8 As @lengthOf(calculatedFrom) ``,
    repeat char[] As,
    body @calculatedFrom(""abc""),
    repeat float64 MetaDataX `" ++ [28040; 24687; 31867; 22411]%N ++ runes_of_ascii "`,
    @tag(4294967296)
    match u8x as crc {
        [""\n"", 65535] : _x,
        255 : roots,
    },
}//	t")).
Eval vm_compute in ("<<<M467>>>" ++ check (runes_of_ascii "options
{ metadata = char[
4294967296
    ] ;}  packet f32a
{
    match Z9_ as repeatCount
    { 3 : crc
,""{,}"" :pack , }, char[]
calculatedFrom
    @lengthOf( // @lengthOf(
MetaDataX	)
, @calculatedFrom( ""`tick`""
    )// " ++ [128512]%N ++ runes_of_ascii " emoji
x_y_z
    // " ++ [27880; 37322]%N ++ runes_of_ascii "
    , i8 leftPad ,  i8 uint8x @calculatedFrom(
""packet"" ) // trailing space 
`// not a comment`,
@calculatedFrom(""""  ) @tag( 007)	char[ 10
    ] T
    @calculatedFrom(
"""" //
) ,u8x {zchar
    @lengthOf( // packet A { u8 x, }
u )
    `{ , }`
    // c
    , },
    float`say ""hi""`
    ,i64 packetx,@lengthOf(BodyLength ) string  calculatedFrom , } packet
MetaDataX // " ++ [27880; 37322]%N ++ runes_of_ascii "
{ @calculatedFrom( ""{,}"" )
match/// triple
metadata as //
_x
    { ""1""	: // c
uint8x  ,""{,}"" :
falsey } ,} packet // " ++ [27880; 37322]%N ++ runes_of_ascii "
Logon {  o @lengthOf( i8i8 )  , @rightPad ( '0'
)
    int64
msg_type , char calculatedFrom
, @tag( 255 )i8i8  @calculatedFrom( ""x y"" )
    ,i8i8 // @lengthOf(
@calculatedFrom( ""\" ++ [233]%N ++ runes_of_ascii """
    )	, @tag( 0123456789
    ) lengthOf ,@lengthOf( // `tick` ""quote"" 'q'
o ) @tag(
10 )
    match options1 as u{ ""1"" :
Pad  , // c
""\" ++ [233]%N ++ runes_of_ascii """:metadata , // @lengthOf(
} , @tag( // " ++ [128512]%N ++ runes_of_ascii " emoji
1) @tag(
65535 ) @lengthOf( Packet ) repeat T , @tag( 4294967296 )
match x_y_z as uint8x {
""{,}"":uint8x
    7 : metadata, 7: i64_ [""" ++ [233]%N ++ runes_of_ascii "t" ++ [233]%N ++ runes_of_ascii """ ,""CRC32"" , // trailing space 
""packet"" , 00
    ,65535 , ""x y""	, // " ++ [27880; 37322]%N ++ runes_of_ascii "
""packet"" //x
]	:metadata , // packet A { u8 x, }
""packet"" :
    uint8x ,	} , repeat
    x ,	}")).
Eval vm_compute in ("<<<M874>>>" ++ check (runes_of_ascii "// `tick` ""quote"" 'q'
packet Pad
    { pack// " ++ [27880; 37322]%N ++ runes_of_ascii "
{ char repeatCount
    @lengthOf( a1 )
    ,int16 Pad ,
    int16
    calculatedFrom ,
    } , @lengthOf( tag)
uint16 repeatCount
    ,	@tag( 10) char[ 007 ] trueish
// a // b
// @lengthOf(
, Header// packet A { u8 x, }
@calculatedFrom( ""\n"" // " ++ [128512]%N ++ runes_of_ascii " emoji
)
    `
`
,
    i8i8 a1
`" ++ [28040; 24687; 31867; 22411]%N ++ runes_of_ascii "` , u32 x @calculatedFrom( ""abc"") , @lengthOf( crc )
//x
// " ++ [27880; 37322]%N ++ runes_of_ascii "
repeat
    char[ 3
] charz`crlf
line` , }MetaData MetaDataX{x As , } //	t
root // " ++ [128512]%N ++ runes_of_ascii " emoji
packet
    chars{ }
packet	o { @lengthOf(
msg_type )
    /// triple
    repeat uint64 float , a1 , repeatCount { char[
// `tick` ""quote"" 'q'
//
00 ] u8x @lengthOf(Header ) `" ++ [28040; 24687; 31867; 22411]%N ++ runes_of_ascii "` ,len
    // trailing space 
    @lengthOf( //
options1 )
,x @lengthOf( //	t
pack
) `two words`
    , char[] leftPad  `" ++ [233]%N ++ runes_of_ascii "` ,}// " ++ [27880; 37322]%N ++ runes_of_ascii "
,
char[] stringy//	t
@lengthOf(	msg_type ) `u8 x,`// packet A { u8 x, }
, @calculatedFrom(""it's"" ) Header A
,char[
1// `tick` ""quote"" 'q'
] f32a  ,
}root
    packet packetx {// a // b
repeat
    zchar[
007 ] u8x ,	@leftPad// @lengthOf(
('0'
    )
f64 stringy @lengthOf(
lengthOf )
,	match T as o {
65535
    // @lengthOf(
    : tag ,
255: o
    """" : stringy ,
} ,@lengthOf( calculatedFrom ) @leftPad	(
'0' ) @lengthOf( u ) f64 Logon @lengthOf(
    _x) , } //	t")).
Eval vm_compute in ("<<<M50>>>" ++ check (runes_of_ascii "//x
packet Header
    {
    body
// " ++ [27880; 37322]%N ++ runes_of_ascii "
// " ++ [27880; 37322]%N ++ runes_of_ascii "
@calculatedFrom(
    ""CRC32"" )
`it's` ,repeat
int64//x
msg_type // " ++ [128512]%N ++ runes_of_ascii " emoji
,
//	t
//
@tag( 0 ) zchar[ 0 //
]
    int
//	t
// @lengthOf(
, }
    // " ++ [128512]%N ++ runes_of_ascii " emoji
    options { Packet=
true
    MetaDataX =
""" ++ [28040; 24687]%N ++ runes_of_ascii """ A
    = string} root packet	Logon {
    @leftPad // " ++ [27880; 37322]%N ++ runes_of_ascii "
('0' //x
)Header//
leftPad `doc` ,
    f32a
    {	rootA @lengthOf( calculatedFrom )	, int8
Packet `line1
line2` , } , repeat calculatedFrom
    { // `tick` ""quote"" 'q'
match
packetx as len { 1:matchKey ,
0123456789 :repeatCount ,
""\" ++ [233]%N ++ runes_of_ascii """ :
float , 255:
    MetaDataX
, },} ,
//x
// " ++ [27880; 37322]%N ++ runes_of_ascii "
leftPad {  repeat roots{ //	t
roots
@calculatedFrom(/// triple
""abc"" ),int32
BodyLength @calculatedFrom( ""packet"" )
,
}	, match repeatCount as
matchKey { ""abc"" : u128 , """ ++ [128512]%N ++ runes_of_ascii """ : a1
, ""a\\""
:rootA ,	[  3,3 ]// c
:
x_y_z	007 :Foo
    } ,
}
, // c
repeat rootA	matchKey	`it's` //	t
,	a1
    @calculatedFrom(""x y"" )  `line1
line2` ,int	,
    @tag(
// trailing space 
//x
65535) match metadata as	As
{ ""x y"": Foo	,//x
[ // `tick` ""quote"" 'q'
""x y"" ]:
    tag
//
// a // b
, 3
    : pack } ,repeat int8 charz ,char[] body , }
options {
    MetaDataX = char[ 0 ] ; } // a // b")).
Eval vm_compute in ("<<<M4084>>>" ++ check (runes_of_ascii "packet As {
    options1 {
        i16 o,
    },
    i64 roots,
    repeat char[] o `a\`,
    @calculatedFrom(""1"")
    repeatCount @lengthOf(falsey) `a\`,
    @lengthOf(stringy)
    char[] As `" ++ [233]%N ++ runes_of_ascii "`,
    asx {
        match msg_type as chars {
            //	t
            00 : metadata,
        },
        i8 pack @calculatedFrom(""x y""),//	t
        match u8x as rootA {
            ""1"" : a1,
            [4294967296] : msg_type,
        },
    },
    @calculatedFrom(""" ++ [233]%N ++ runes_of_ascii "t" ++ [233]%N ++ runes_of_ascii """)
    int16 roots,
    @tag(1)
    @leftPad('0')
    @rightPad('\x00')
    i32 asx `tab	here`,
    char Logon `u8 x,`,
}

root packet string_ {
    // @lengthOf(
}

packet Z9_ {
    int8 _x,
    repeat u8 uint8x `" ++ [233]%N ++ runes_of_ascii "`,
    float64 x_y_z @calculatedFrom(""x y""),
    @calculatedFrom(""a\""b"")
    @calculatedFrom(""a\""b"")
    int {
        zchar[255] msg_type,
        i64_ {
            stringy @lengthOf(x_y_z),
            u options1 `tab	here`,
            char[0123456789] msg_type,
            float32 Foo `{ , }`,
        },
    },
    @tag(0)
    @calculatedFrom(""CRC32"")
    charz,
    @tag(4294967296)
    i64 packetx,
}//	t")).
Eval vm_compute in ("<<<M4313>>>" ++ check (runes_of_ascii "MetaData Packet {
    stringy body,
    //	t
    x_y_z matchKey,
    zchar[007] MetaDataX,// " ++ [128512]%N ++ runes_of_ascii " emoji
    u16 u128 `u8 x,`,
    stringy i64_,
    char[] Z9_ `two words`,
}

MetaData body {
    float32 Header,
}

options {
    trueish = false;
    x_y_z = 7
    Packet = false
    i8i8 = zchar[255]
    tag = char[];
}

packet crc {
    repeat char[0] x,
    repeat float64 packetx,
    match As as len {
        [255] : Z9_,
        // " ++ [27880; 37322]%N ++ runes_of_ascii "
        ""{,}"" : MetaDataX,
        [00, ""a	b"", 255] : Pad,
        3 : body,
    },
    u128 @calculatedFrom(""CRC32""),// `tick` ""quote"" 'q'
    @tag(10)
    metadata {
        repeat trueish x `line1
        line2`,
        u @calculatedFrom(""it's""),
        match trueish as _x {
            42 : o,
            [""CRC32""] : rootA,
        },
    },
    tag {
        Z9_ {
            zchar[3] stringy `tab	here`,
        },
    },
    matchKey u8x,
    repeat int64 metadata `{ , }`,
    @leftPad('\x00')
    T int,
    @calculatedFrom(""abc"")
    zchar[4294967296] charz,// " ++ [128512]%N ++ runes_of_ascii " emoji
}")).
Eval vm_compute in ("<<<M3654>>>" ++ check (runes_of_ascii "options { // c1
FixedStringPadFromLeft = // c3a
  // c3b
true // c4
; // c5a
  // c5b
FixedStringPadChar = // c7a
  // c7b
' ' // c8
; // c9a
  // c9b
} // c10a
  // c10b
packet // c11a
  // c11b
Reject {
    // c13
}
    // c14
packet Fill // c16a
  // c16b
{ // c17a
  // c17b
repeat i16 // c19
Tail // c20a
  // c20b
, } // c22
root
    // c23
packet // c24a
  // c24b
Trade // c25a
  // c25b
{
    // c26
float64 // c27a
  // c27b
Ref
    // c28
, // c29a
  // c29b
Fill
    // c30
, u8
    // c32
Note // c33
, // c34a
  // c34b
u16
    // c35
count // c36a
  // c36b
@lengthOf( // c37
Body )
    // c39
, match // c41
Note // c42a
  // c42b
as // c43a
  // c43b
Body // c44a
  // c44b
{ [ // c46
98 // c47a
  // c47b
, 101 // c49
]
    // c50
: Fill // c52a
  // c52b
, 34 : // c55
Reject // c56
, } // c58
,
    // c59
u32 // c60a
  // c60b
x // c61a
  // c61b
@calculatedFrom( // c62
""CRC32"" // c63a
  // c63b
) // c64a
  // c64b
, } // c66a
  // c66b
")).
Eval vm_compute in ("<<<M1076>>>" ++ check (runes_of_ascii "
packet// `tick` ""quote"" 'q'
BodyLength
{ @rightPad (	)int8
// @lengthOf(
// c
BodyLength  @calculatedFrom(	""packet"" )
// c
/// triple
`
`, u8x
calculatedFrom
    ,//x
repeat
    f32a {
zchar[ 3 ] BodyLength , match i8i8 // " ++ [128512]%N ++ runes_of_ascii " emoji
as A{
    3  : packetx , ""CRC32"" //x
:
options1
}  , } , @leftPad
( ' ' )@lengthOf( Header ) repeat
len string_ ,
@tag( 4294967296 // @lengthOf(
)@calculatedFrom(""" ++ [233]%N ++ runes_of_ascii "t" ++ [233]%N ++ runes_of_ascii """ )len
repeatCount
,  u64 i64_
`{ , }`	, i16 o , @lengthOf( repeatCount	) @lengthOf(
Header ) @rightPad(  '\x00'
    //x
    ) repeat options1{ // c
roots @calculatedFrom(
    ""1""// c
)
    `tab	here` ,repeat // @lengthOf(
options1 zchar , repeat a1{
    u128 {match Z9_ as x {
    ""`tick`"" :o, ""`tick`""// packet A { u8 x, }
:  pack , [ 255 ]
    : Header ,3 : asx ,
[ 255 , //	t
""CRC32""
]  : charz }, } ,}, char[10 ] stringy ,
    } ,// " ++ [27880; 37322]%N ++ runes_of_ascii "
@leftPad( )
// packet A { u8 x, }
// a // b
char[
007] len`doc` , }")).
Eval vm_compute in ("<<<M4526>>>" ++ check (runes_of_ascii "root packet
	falsey 
{

}root 
packet

    x 
{ asx ,
	stringy  { 	 //x

  f64  roots , char[]  // packet A { u8 x, }
    chars
@lengthOf(uint8x

    )  
      // `tick` ""quote"" 'q'

	`
`
,},
@lengthOf(len )

    i8 MetaDataX	@calculatedFrom(
""packet""
)
    ,  match MetaDataX

as _x
{
	0
    : 
uint8x	, }
    ,
    // c
	//x
@leftPad ( 
'\x00'
    ) uint16// c

roots
    @calculatedFrom(
""abc""
// `tick` ""quote"" 'q'
  )
    , @rightPad	(
	' '

)
int32 leftPad@calculatedFrom(""packet""	/// triple
) `" ++ [233]%N ++ runes_of_ascii "` ,

    }
options
{ falsey 
=7
i64_

= 
int16 	 // packet A { u8 x, }
  len
=	false 

//x
    // @lengthOf(
  ; 
_x
=
'0'
	;
    asx =
""" ++ [28040; 24687]%N ++ runes_of_ascii """ ;
}

    options{

packetx
=

    uint64
    ;len =true
;
}
packet
tag 	 // `tick` ""quote"" 'q'
		{ 
@leftPad

    ()@calculatedFrom( 
""abc""
) int16
	Pad
@lengthOf(BodyLength 
) ,//x
	}
")).
Eval vm_compute in ("<<<M4235>>>" ++ check (runes_of_ascii "

  root
packet
    pack  { } MetaData
    falsey {

char[]
	A

    `// not a comment`
	, 
}
packet uint8x {
repeat  o
    {
	u64
    string_
    @calculatedFrom(	// " ++ [128512]%N ++ runes_of_ascii " emoji
""" ++ [233]%N ++ runes_of_ascii "t" ++ [233]%N ++ runes_of_ascii """

),	} ,  repeat
	string_`" ++ [28040; 24687; 31867; 22411]%N ++ runes_of_ascii "` 
    //	t
	  // @lengthOf(
	,repeat 
u 
{ 
packetx
@lengthOf(

    len ) 
`doc`, 
}

    ,	@lengthOf(

u8x

)

float32 MetaDataX @calculatedFrom(
	""" ++ [233]%N ++ runes_of_ascii "t" ++ [233]%N ++ runes_of_ascii """ 
)
	,  uint8 MetaDataX`it's` ,@rightPad
    ('\x00'
    )

repeat 
        // a // b
      crc  { x_y_z

    @lengthOf(As  )

`line1
line2`
    ,
i32

//	t
  	repeatCount

,
	// a // b
		// @lengthOf(
  repeat	Pad
    {
	repeat  string_
`" ++ [233]%N ++ runes_of_ascii "`
,
leftPad 
{char[]	float
	,}
,	}

,}

, @calculatedFrom(
""it's""
)zchar[
    42 
]  A
    @lengthOf(  matchKey

    )
    ,roots
@calculatedFrom(""CRC32""	) 	 // @lengthOf(
  `a\`

,
}

")).
Eval vm_compute in ("<<<M1134>>>" ++ check (runes_of_ascii "MetaData
int
    { u32 pack
    , char f32a , trueish MetaDataX  `tab	here` /// triple
, }options {  T=3 }
    packet // trailing space 
a1
    { @calculatedFrom( ""1"" )
uint8x
Logon
    ,
    /// triple
    @leftPad ( '0' ) char Header ,@lengthOf( packetx ) u64 zchar @calculatedFrom(""" ++ [128512]%N ++ runes_of_ascii """) `line1
line2` , @tag( 007
    ) @lengthOf( float )
@tag(
    0 ) repeat
    uint8x { int16 // " ++ [27880; 37322]%N ++ runes_of_ascii "
metadata
@lengthOf( zchar
)
    , charz @calculatedFrom( //x
""// no comment""  ), u8  int @lengthOf( crc
) `
` ,
    }, @lengthOf(	zchar
    )repeat leftPad falsey , i8i8 { string
    T ``, } ,
@rightPad ()// `tick` ""quote"" 'q'
repeat
o { uint64  metadata @lengthOf( pack
    // " ++ [27880; 37322]%N ++ runes_of_ascii "
    ) ,  },
@leftPad
(
'\x00'
    ) //
repeat u128 leftPad // trailing space 
,} options {  }
")).
Eval vm_compute in ("<<<M775>>>" ++ check (runes_of_ascii "
MetaData tag { zchar[
1] repeatCount
    , Header
rootA ,zchar[ // " ++ [128512]%N ++ runes_of_ascii " emoji
3] string_ `two words`
, int8 _x
    ,
    char[
// " ++ [27880; 37322]%N ++ runes_of_ascii "
/// triple
0123456789 ] zchar`
` ,zchar[  4294967296 ]
    // " ++ [27880; 37322]%N ++ runes_of_ascii "
    a1 `` , } root
packet // " ++ [27880; 37322]%N ++ runes_of_ascii "
Pad {@lengthOf( As)
BodyLength { char[] a1 @lengthOf(	Pad ) ,char[]	BodyLength `doc`// @lengthOf(
, }
,  match options1
as	packetx { ""\n"" : i8i8 ,[
""CRC32"",
    //	t
    10 ,//	t
""1"",
65535 ]
// @lengthOf(
// " ++ [27880; 37322]%N ++ runes_of_ascii "
: matchKey 00 :  uint8x,
    3 :repeatCount,  ""\n"" :
tag
    // packet A { u8 x, }
    , // a // b
""x y"" : //
u8x } , @lengthOf( calculatedFrom
    )	msg_type body // " ++ [128512]%N ++ runes_of_ascii " emoji
, }
    options {
// " ++ [27880; 37322]%N ++ runes_of_ascii "
// a // b
T
//x
// @lengthOf(
=
10 ;T = u16	;}packet stringy // trailing space 
{	}
")).
Eval vm_compute in ("<<<M27>>>" ++ check (runes_of_ascii "root packet Packet{ char[]
    msg_type @calculatedFrom(""a\\"" ) , repeat
    u16 a1
`say ""hi""`
,f32a
stringy
`u8 x,` ,
    uint16 int	, @calculatedFrom( ""// no comment""
) repeat
// a // b
// c
u8 T, zchar[
// packet A { u8 x, }
// " ++ [27880; 37322]%N ++ runes_of_ascii "
65535
//x
//
]  T , // `tick` ""quote"" 'q'
repeat chars	{ char[] tag //x
`" ++ [233]%N ++ runes_of_ascii "`,int64 A	@calculatedFrom(	""\n"" )`// not a comment`
, match trueish as i8i8 {[ ""a\""b""]	: MetaDataX, } , len {zchar[ 65535 ]o
    @lengthOf( body  ) `a\`//
, string options1`two words`
    , tag
    // `tick` ""quote"" 'q'
    { T `{ , }`
    , charz
    ,i8 // trailing space 
uint8x ,} ,char[]packetx// @lengthOf(
@lengthOf(// c
roots ) ,} ,
    }
,//
string  x, } // trailing space ")).
Eval vm_compute in ("<<<M3599>>>" ++ check (runes_of_ascii "// top
packet
    // c0
MDSnapshotZZ // c1a
  // c1b
{ // c2
u8 // c3a
  // c3b
a
    // c4
, // c5
} packet // c7
OrderACK
    // c8
{
    // c9
u16 // c10
b // c11
, }
    // c13
packet // c14
HTTPServerInfo // c15a
  // c15b
{ // c16a
  // c16b
string // c17a
  // c17b
s // c18
, } // c20
root packet
    // c22
FIXMsg
    // c23
{ // c24a
  // c24b
u8 // c25a
  // c25b
KType
    // c26
, // c27
MDSnapshotZZ // c28
, repeat
    // c30
OrderACK // c31a
  // c31b
, // c32a
  // c32b
match KType as Body
    // c36
{ // c37a
  // c37b
1 // c38
: // c39
HTTPServerInfo , 2 : // c43a
  // c43b
OrderACK
    // c44
, // c45
} // c46
,
    // c47
} // c48
")).
Eval vm_compute in ("<<<M276>>>" ++ check (runes_of_ascii "packet zchar { msg_type ,
//
// `tick` ""quote"" 'q'
@tag( 65535 ) repeat float32 len,
    @lengthOf(
// " ++ [27880; 37322]%N ++ runes_of_ascii "
// `tick` ""quote"" 'q'
crc )	lengthOf
    //
    {
repeat float `say ""hi""` ,}	, u32 // a // b
Packet
@lengthOf( i8i8// a // b
)  `
`
// packet A { u8 x, }
// packet A { u8 x, }
,
i8i8 // a // b
, u32 calculatedFrom  @lengthOf( BodyLength //x
)`a\` , @lengthOf( Logon// " ++ [128512]%N ++ runes_of_ascii " emoji
) match MetaDataX
as	Foo  { [
""\n"" ,
255 ] :Packet , 3: o
    ,
[007] : T, }
, match pack as A { """ ++ [28040; 24687]%N ++ runes_of_ascii """
: _x 007	:
//x
// " ++ [128512]%N ++ runes_of_ascii " emoji
metadata,
255 :
As
    ,
    7 :charz, 10 : len, } , f32 len
, @leftPad ('\x00'  )float32 trueish , }
")).
Eval vm_compute in ("<<<M402>>>" ++ check (runes_of_ascii "options { // @lengthOf(
} options{metadata = ' ' }packet
    Packet
{ @leftPad (
    ' ' ) pack @calculatedFrom( ""`tick`"" ),}
packet// " ++ [27880; 37322]%N ++ runes_of_ascii "
T
{@tag( 255
)@tag(// `tick` ""quote"" 'q'
7 )
@calculatedFrom( ""CRC32"" ) metadata	@calculatedFrom( """" )// trailing space 
, repeat string falsey `` , match crc as roots { 255
    : As ,
    42 : MetaDataX }, // @lengthOf(
@tag( 0 )@calculatedFrom(
    //	t
    ""it's"")@calculatedFrom(""" ++ [233]%N ++ runes_of_ascii "t" ++ [233]%N ++ runes_of_ascii """) match string_ as a1
{ """ ++ [233]%N ++ runes_of_ascii "t" ++ [233]%N ++ runes_of_ascii """ : body//	t
, 7
    : Packet,
    // `tick` ""quote"" 'q'
    } //
, string options1,
calculatedFrom MetaDataX
,zchar[42]	i8i8
    `` , }")).
Eval vm_compute in ("<<<M3877>>>" ++ check (runes_of_ascii "

  options
    {  packetx  =
'\x00' o 
=  
      // `tick` ""quote"" 'q'
  ""abc""
lengthOf 	 // @lengthOf(
  	= 
255
zchar

=""" ++ [128512]%N ++ runes_of_ascii """Pad // packet A { u8 x, }

	=

string;
} root

packet
    options1 //x
	{ calculatedFrom o ,
    x	@lengthOf( leftPad// " ++ [128512]%N ++ runes_of_ascii " emoji
),
    match	_x as

    stringy 
{
3	:
i8i8
	,}	,	string T
	,} root 
packet uint8x
{ 
len
    /// triple
// a // b
	``	, } packet 
matchKey{  match
	calculatedFrom
as 
// " ++ [27880; 37322]%N ++ runes_of_ascii "

	Packet { [ """ ++ [28040; 24687]%N ++ runes_of_ascii """ , ""packet""	//
]
	: 	 // packet A { u8 x, }
    rootA

,

    } ,	} 
options
{

    uint8x	= false ;
	} ")).
Eval vm_compute in ("<<<M4192>>>" ++ check (runes_of_ascii "
root
packet matchKey// trailing space 

{  // a // b
	  u8 roots  `two words`

    ,  // " ++ [27880; 37322]%N ++ runes_of_ascii "
    }	//	t
	root
	packet 
float
{ @rightPad (	'0' 
)

i8i8  ,packetx

    @calculatedFrom( ""a\\""
    )
,float32
trueish `
`  ,
@calculatedFrom( 
""x y""// c
	  )
@lengthOf( 	 //

  o
// c
/// triple
)
    @lengthOf( uint8x 
)
i16

    Logon ,@leftPad ( ' '
	) @lengthOf(  zchar)
	@lengthOf( x_y_z

    )
o

matchKey  `" ++ [233]%N ++ runes_of_ascii "`

,  match
    u8x as

    Z9_ 
{	""a\""b""
:	// " ++ [27880; 37322]%N ++ runes_of_ascii "
	  _x, }	,
crc
BodyLength

`it's` ,

    } 

//
 
")).
Eval vm_compute in ("<<<M397>>>" ++ check (runes_of_ascii "
root
packet rootA	{@calculatedFrom( """ ++ [28040; 24687]%N ++ runes_of_ascii """ ) u  `" ++ [233]%N ++ runes_of_ascii "` , body , // " ++ [27880; 37322]%N ++ runes_of_ascii "
x
    @lengthOf( options1 // @lengthOf(
)
,
// " ++ [128512]%N ++ runes_of_ascii " emoji
// c
matchKey , @calculatedFrom( ""packet"" ) char[] f32a , u8 options1	`tab	here`
    , } packet Packet//
{
    } options
    { chars = 00 ;
Foo// packet A { u8 x, }
= true ;trueish
    // " ++ [27880; 37322]%N ++ runes_of_ascii "
    = ""1""; zchar = f64; matchKey =// " ++ [27880; 37322]%N ++ runes_of_ascii "
false ; } packet metadata {
    @leftPad
    ( '\x00' ) f32 charz @calculatedFrom(  ""{,}""
)
    `// not a comment`
,@calculatedFrom(""1""
) repeat int8 crc ,	}
")).
Eval vm_compute in ("<<<M3645>>>" ++ check (runes_of_ascii "
options{	LittleEndian
=	false
	;ArrayPrefixLenType
=
	u8

;  FixedStringPadChar

    =

'0'
;  } packet Order {
	InNote94{ f32
    f1
,f64
Side2	,
    repeat
InTail47
{ char[] 
seqNo

,
    char[] Tail
    , char[] lastPx
, } , },zchar[

    7

    ]  f1  ,u8 Side2,
} 
root

    packet

Reject{
repeat

    char[	4 ]  Flags,  InPrice63{ InSeqno41

{repeat i8
	OrderId ,  repeat
    i32  clOrdID ,	char[	9
]
	tag7
	,char[]
	lastPx , }
	,
Order ,

    uint8 Side2	,
}

, } ")).
Eval vm_compute in ("<<<M4483>>>" ++ check (runes_of_ascii "packet x {
    repeat string_ {
        repeat asx Foo,
        int16 i8i8,
        char[] matchKey,
        // @lengthOf(
        // trailing space 
        match calculatedFrom as roots {
            3 : x_y_z,
        },
    },
    @lengthOf(x)
    repeat o `say ""hi""`,//	t
    char[] string_ `" ++ [28040; 24687; 31867; 22411]%N ++ runes_of_ascii "`,
    @lengthOf(f32a)
    match Pad as A {
        ""a	b"" : u128,
        [""\" ++ [233]%N ++ runes_of_ascii """, 65535, 255, ""CRC32"", 1] : i8i8,
        0123456789 : falsey,
    },
}

packet zchar {
}")).
Eval vm_compute in ("<<<M790>>>" ++ check (runes_of_ascii "
options { } options {a1
= ' ' falsey
=
    //	t
    false ; f32a =10 ;
    // packet A { u8 x, }
    } packet u8x
    { repeat BodyLength	{ calculatedFrom// " ++ [128512]%N ++ runes_of_ascii " emoji
@calculatedFrom( ""{,}"" ) `{ , }` , uint8
MetaDataX `say ""hi""` // `tick` ""quote"" 'q'
,
    },}
MetaData matchKey
    {
i8 roots
    `
` ,
i64	rootA`say ""hi""` ,/// triple
f64
chars
    //x
    `" ++ [28040; 24687; 31867; 22411]%N ++ runes_of_ascii "` , zchar[ 3
// packet A { u8 x, }
//
] asx `" ++ [233]%N ++ runes_of_ascii "` // a // b
,
string msg_type	, }
")).
Eval vm_compute in ("<<<M1333>>>" ++ check (runes_of_ascii "root	packet chars{
uint16
//x
// @lengthOf(
As
@lengthOf( len )
,
    // trailing space 
    repeat char[ 4294967296
]	Header ,@calculatedFrom( ""a	b""
    ) @tag(
1
)@lengthOf( uint8x //
) T msg_type ,
@lengthOf(
u8x )lengthOf int
    // packet A { u8 x, }
    `" ++ [28040; 24687; 31867; 22411]%N ++ runes_of_ascii "` ,
@leftPad
('0'
) @calculatedFrom( ""a	b"") char[] packetx`say ""hi""`
, uint8x	{ float32 tag , }
    , @leftPad ( )char[ 3  ]
    msg_type `" ++ [233]%N ++ runes_of_ascii "` ,
    } options{
}
")).
Eval vm_compute in ("<<<M902>>>" ++ check (runes_of_ascii "// c
options
{// " ++ [27880; 37322]%N ++ runes_of_ascii "
MetaDataX = 0} root packet Z9_{char[]  packetx `doc`,BodyLength
zchar
,float32
BodyLength , @calculatedFrom(
""\" ++ [233]%N ++ runes_of_ascii """
) match trueish  as// a // b
T { 255
: uint8x // @lengthOf(
, // packet A { u8 x, }
""" ++ [233]%N ++ runes_of_ascii "t" ++ [233]%N ++ runes_of_ascii """ :
    charz
,""a\\"" : falsey ""{,}"" : MetaDataX ,  }
,// trailing space 
}
    options {} options {msg_type = 42 pack =
true repeatCount
=4294967296 ; leftPad =
    ""it's"" // " ++ [27880; 37322]%N ++ runes_of_ascii "
;
    }")).
Eval vm_compute in ("<<<M3778>>>" ++ check (runes_of_ascii "/// triple
MetaData x {
    uint64 u `doc`,
}

root packet i8i8 {
    uint32 zchar @lengthOf(chars),
    string rootA @calculatedFrom(""\n""),
}

packet MetaDataX {
    i32 A @lengthOf(string_) ``,
    @calculatedFrom(""a\\"")
    @lengthOf(roots)
    msg_type asx `crlf
        line`,
    @lengthOf(metadata)
    @calculatedFrom(""" ++ [28040; 24687]%N ++ runes_of_ascii """)
    @leftPad()
    repeat string o `// not a comment`,
}//x")).
Eval vm_compute in ("<<<M1089>>>" ++ check (runes_of_ascii "packet	u8x /// triple
{ @calculatedFrom( ""\" ++ [233]%N ++ runes_of_ascii """ ) zchar[
255 ]
A /// triple
@calculatedFrom( ""a	b"" )
    ,string MetaDataX @lengthOf( Pad  ) , f32a @calculatedFrom(
""a\""b""
    ) ,  zchar[
4294967296 ] tag @calculatedFrom( """ ++ [28040; 24687]%N ++ runes_of_ascii """ // `tick` ""quote"" 'q'
)
,@tag( 0123456789 )
    @lengthOf(  Header)int64 A `` ,
char[]
/// triple
// packet A { u8 x, }
x_y_z ,} packet	Logon {	}
")).
Eval vm_compute in ("<<<M245>>>" ++ check (runes_of_ascii "root packet  roots
{ falsey@calculatedFrom(""a\""b"" ) ,
    @lengthOf(
A )Header @calculatedFrom( ""packet""
) `u8 x,` ,
@leftPad  (' '
) @lengthOf(
    calculatedFrom)
// `tick` ""quote"" 'q'
// packet A { u8 x, }
match rootA as x_y_z {42	:
    //	t
    len, }, } options //x
{ chars =// c
4294967296 ;
    BodyLength
    = 0123456789 roots
    = ""a\""b"";
} //")).
Eval vm_compute in ("<<<M3840>>>" ++ check (runes_of_ascii "
MetaData T
{

    }
	root packet  MetaDataX { 
// packet A { u8 x, }

  // `tick` ""quote"" 'q'
@lengthOf(	trueish

    )

    repeat 
  //
  //	t
      BodyLength`` ,
    }MetaData 
A	// `tick` ""quote"" 'q'
{float32  trueish, 
}

    packet

o 
    //x
  {
@lengthOf( Foo
	)
i8i8
stringy , 
}
MetaData trueish 
{	string
    o , } ")).
Eval vm_compute in ("<<<M347>>>" ++ check (runes_of_ascii "packet  f32a { }packet
metadata
{
@calculatedFrom(
""\" ++ [233]%N ++ runes_of_ascii """
) repeat _x { string
    // a // b
    falsey , } ,
@calculatedFrom( ""it's"" ) As leftPad `a\`
,	@calculatedFrom( ""abc""
) char[ //	t
0 ]roots	,  @tag(
    00 )match Pad as	roots
{ 10 :x_y_z , 00 :  len [ ""// no comment""	]// a // b
:  T }
    , a1 Header `" ++ [233]%N ++ runes_of_ascii "`
, // " ++ [27880; 37322]%N ++ runes_of_ascii "
}")).
Eval vm_compute in ("<<<M2048>>>" ++ check (runes_of_ascii "MetaData
    u { }  options {
// c
// @lengthOf(
float = int8 ;rootA =false ; As =	int16 // `tick` ""quote"" 'q'
repeatCount
    // trailing space 
    =
    int16
; u8x =
    //	t
    '\x00' ; } options	{
    repeatCount
= 0
u128
    //
    = false ; i64_
// trailing space 
// `tick` ""quote"" 'q'
= '0' float64 //	t
}
")).
Eval vm_compute in ("<<<M1873>>>" ++ check (runes_of_ascii "MetaData
    u { asx  options {
// c
// @lengthOf(
float = int8 ;rootA =false ; As =	int16 // `tick` ""quote"" 'q'
repeatCount
    // trailing space 
    =
    int16
; u8x =
    //	t
    '\x00' ; } options	{
    repeatCount
= 0
u128
    //
    = false ; i64_
// trailing space 
// `tick` ""quote"" 'q'
= '0' ; //	t
}
")).
Eval vm_compute in ("<<<M987>>>" ++ check (runes_of_ascii "options
{ // a // b
Header //
=
""// no comment""As
    = ""`tick`""Header
    = f32// packet A { u8 x, }
; leftPad
=
10	o =
    '\x00'
    }// " ++ [128512]%N ++ runes_of_ascii " emoji
packet metadata
//x
/// triple
{ @rightPad
    ('0') @leftPad
// c
// trailing space 
(
'\x00' )
    @rightPad ( )
    string string_`say ""hi""`,
    } options  {
}")).
Eval vm_compute in ("<<<M1937>>>" ++ check (runes_of_ascii "MetaData
    u { }  options {
// c
// @lengthOf(
float = int8 ;rootA =false ; As =	repeatCount // `tick` ""quote"" 'q'
int16
    // trailing space 
    =
    int16
; u8x =
    //	t
    '\x00' ; } options	{
    repeatCount
= 0
u128
    //
    = false ; i64_
// trailing space 
// `tick` ""quote"" 'q'
= '0' ; //	t
}
")).
Eval vm_compute in ("<<<M1865>>>" ++ check (runes_of_ascii "MetaData
    u  }  options {
// c
// @lengthOf(
float = int8 ;rootA =false ; As =	int16 // `tick` ""quote"" 'q'
repeatCount
    // trailing space 
    =
    int16
; u8x =
    //	t
    '\x00' ; } options	{
    repeatCount
= 0
u128
    //
    = false ; i64_
// trailing space 
// `tick` ""quote"" 'q'
= '0' ; //	t
}
")).
Eval vm_compute in ("<<<M2040>>>" ++ check (runes_of_ascii "MetaData
    u { }  options {
// c
// @lengthOf(
float = int8 ;rootA =false ; As =	int16 // `tick` ""quote"" 'q'
repeatCount
    // trailing space 
    =
    int16
; u8x =
    //	t
    '\x00' ; } options	{
    repeatCount
= 0
u128
    //
    = false ; i64_
// trailing space 
// `tick` ""quote"" 'q'
=  ; //	t
}
")).
Eval vm_compute in ("<<<M822>>>" ++ check (runes_of_ascii "packet
packetx {
    match i64_ as roots
// trailing space 
// c
{ 7
:
x 42 :  asx
    // @lengthOf(
    , 65535 : i64_ [ 00 // `tick` ""quote"" 'q'
, 1 ] : Z9_ [ // c
""\n"",3,
007 ]
    :float ,
} , }MetaData metadata {	char[]Header `" ++ [28040; 24687; 31867; 22411]%N ++ runes_of_ascii "` ,Foo stringy
, uint64 body , f32	a1
    , } packet
    chars{ }")).
Eval vm_compute in ("<<<M2055>>>" ++ check (runes_of_ascii "MetaData
    u { }  options {
// c
// @lengthOf(
float = int8 ;rootA =false ; As =	int16 // `tick` ""quote"" 'q'
repeatCount
    // trailing space 
    =
    int16
; u8x =
    //	t
    '\x00' ; } options	{
    repeatCount
= 0
u128
    //
    = false ; i64_
// trailing space 
// `tick` ""quote"" 'q")).
Eval vm_compute in ("<<<M160>>>" ++ check (runes_of_ascii "packet matchKey
{ // packet A { u8 x, }
zchar[ 65535
//	t
// packet A { u8 x, }
] Foo @calculatedFrom(
// " ++ [128512]%N ++ runes_of_ascii " emoji
// a // b
""\n"" ) ``, @tag(10 ) repeat
x Logon`
` , @calculatedFrom(
    ""it's"" ) @rightPad (
) zchar[ 255 ]	lengthOf
    // @lengthOf(
    , repeat uint8x`" ++ [233]%N ++ runes_of_ascii "`
,
    }
")).
Eval vm_compute in ("<<<M4388>>>" ++ check (runes_of_ascii "  packet

    options1
{

    @leftPad
(
'0'	)
	repeat
char[ 1
]	// " ++ [27880; 37322]%N ++ runes_of_ascii "
  roots  `
` ,
i32
A `
` 
,
    repeat
    char[
	3] stringy  // `tick` ""quote"" 'q'
	,
repeat

f64	Z9_

    `tab	here` ,
	}packet  T{@tag(00

    )repeat
	float`say ""hi""`	,	}	/// triple
")).
Eval vm_compute in ("<<<M1613>>>" ++ check (runes_of_ascii "packet
//	t
// trailing space 
_x {
// packet A { u8 x, }
// c
char[
3
    ] u8x @lengthOf(
u8x ) , @calculatedFrom(""" ++ [128512]%N ++ runes_of_ascii """ // @lengthOf(
)
i16	Foo
@lengthOf(	string_
    )`doc`	, repeat	i64 metadata , @lengthOf( @lengthOf( string_
) i8 // c
u  `line1
line2`	,
}
")).
Eval vm_compute in ("<<<M4539>>>" ++ check (runes_of_ascii "
MetaData As

{
	BodyLength roots 
, uint8x  uint8x  ,}  packet pack

    /// triple
	{ 
lengthOf`crlf
line`
, char  i8i8
,@tag(	4294967296
    )
	zchar[ 1

] Header `say ""hi""`,@tag(

    4294967296

    ) string

    chars  ,
}
// trailing space ")).
Eval vm_compute in ("<<<M1590>>>" ++ check (runes_of_ascii "packet
//	t
// trailing space 
_x {
// packet A { u8 x, }
// c
char[
3
    ] u8x @lengthOf(
u8x ) , @calculatedFrom(""" ++ [128512]%N ++ runes_of_ascii """ // @lengthOf(
)
i16	Foo
@lengthOf(	string_
    )`doc`	u16 repeat	i64 metadata , @lengthOf( string_
) i8 // c
u  `line1
line2`	,
}
")).
Eval vm_compute in ("<<<M1494>>>" ++ check (runes_of_ascii "packet
//	t
// trailing space 
{ _x
// packet A { u8 x, }
// c
char[
3
    ] u8x @lengthOf(
u8x ) , @calculatedFrom(""" ++ [128512]%N ++ runes_of_ascii """ // @lengthOf(
)
i16	Foo
@lengthOf(	string_
    )`doc`	, repeat	i64 metadata , @lengthOf( string_
) i8 // c
u  `line1
line2`	,
}
")).
Eval vm_compute in ("<<<M1639>>>" ++ check (runes_of_ascii "packet
//	t
// trailing space 
_x {
// packet A { u8 x, }
// c
char[
3
    ] u8x @lengthOf(
u8x ) , @calculatedFrom(""" ++ [128512]%N ++ runes_of_ascii """ // @lengthOf(
)
i16	Foo
@lengthOf(	string_
    )`doc`	, repeat	i64 metadata , @lengthOf( string_
) i8 // c
u  ,	`line1
line2`
}
")).
Eval vm_compute in ("<<<M1527>>>" ++ check (runes_of_ascii "packet
//	t
// trailing space 
_x {
// packet A { u8 x, }
// c
char[
3
    ] u8x @lengthOf(
 ) , @calculatedFrom(""" ++ [128512]%N ++ runes_of_ascii """ // @lengthOf(
)
i16	Foo
@lengthOf(	string_
    )`doc`	, repeat	i64 metadata , @lengthOf( string_
) i8 // c
u  `line1
line2`	,
}
")).
Eval vm_compute in ("<<<M1525>>>" ++ check (runes_of_ascii "packet
//	t
// trailing space 
_x {
// packet A { u8 x, }
// c
char[
3
    ] u8x 3
u8x ) , @calculatedFrom(""" ++ [128512]%N ++ runes_of_ascii """ // @lengthOf(
)
i16	Foo
@lengthOf(	string_
    )`doc`	, repeat	i64 metadata , @lengthOf( string_
) i8 // c
u  `line1
line2`	,
}
")).
Eval vm_compute in ("<<<M3777>>>" ++ check (runes_of_ascii "packet Sub {
    u8 a,
    @calculatedFrom(""CRC16"")
    u16 SubSum,
}

root packet Frame {
    u16 MsgType,
    u16 BodyLen @lengthOf(Body),
    Sub Body,
    string note,
    @calculatedFrom(""CRC16"")
    u16 Checksum,
    u8 tail,
}")).
Eval vm_compute in ("<<<M3426>>>" ++ check (runes_of_ascii "// top
packet // c0a
  // c0b
o { repeat
    // c3
Logon uint8x // c5
,
    // c6
} options // c8
{ // c9
asx
    // c10
= // c11a
  // c11b
zchar[ // c12
3
    // c13
] stringy // c15
=
    // c16
'\x00' // c17
}
    // c18
")).
Eval vm_compute in ("<<<M1762>>>" ++ check (runes_of_ascii "options { trueish = ""`tick`"" ; string_= """ ++ [233]%N ++ runes_of_ascii "t" ++ [233]%N ++ runes_of_ascii """
    // c
    } root
    packet body { stringy @calculatedFrom(
""a	b"" ) `line1
line2` `line1
line2` , }
packet Logon {
    @leftPad(
    ' ' ) //	t
u16 string_ `u8 x,` ,
}
")).
Eval vm_compute in ("<<<M488>>>" ++ check (runes_of_ascii "MetaData x	{ uint32 u8x `" ++ [28040; 24687; 31867; 22411]%N ++ runes_of_ascii "`
    ,}
// packet A { u8 x, }
// " ++ [128512]%N ++ runes_of_ascii " emoji
MetaData o {
    }
    // packet A { u8 x, }
    packet
pack	{ // packet A { u8 x, }
repeat
    zchar[
4294967296 // a // b
]
roots
    , }")).
Eval vm_compute in ("<<<M952>>>" ++ check (runes_of_ascii "
packet roots{pack, @calculatedFrom( ""it's""
)
    MetaDataX @lengthOf( u
) , @lengthOf(//x
falsey  ) metadata _x	`doc` , } options{ BodyLength =	""" ++ [28040; 24687]%N ++ runes_of_ascii """; Packet = 0123456789 ; T=
    ' ' ; T = 4294967296
;
    }
")).
Eval vm_compute in ("<<<M1807>>>" ++ check (runes_of_ascii "options { trueish = ""`tick`"" ; string_= """ ++ [233]%N ++ runes_of_ascii "t" ++ [233]%N ++ runes_of_ascii """
    // c
    } root
    packet body { stringy @calculatedFrom(
""a	b"" ) `line1
line2` , }
packet Logon {
    @leftPad(
    ' ' ) ) //	t
u16 string_ `u8 x,` ,
}
")).
Eval vm_compute in ("<<<M1689>>>" ++ check (runes_of_ascii "options { trueish { ""`tick`"" ; string_= """ ++ [233]%N ++ runes_of_ascii "t" ++ [233]%N ++ runes_of_ascii """
    // c
    } root
    packet body { stringy @calculatedFrom(
""a	b"" ) `line1
line2` , }
packet Logon {
    @leftPad(
    ' ' ) //	t
u16 string_ `u8 x,` ,
}
")).
Eval vm_compute in ("<<<M1828>>>" ++ check (runes_of_ascii "options { trueish = ""`tick`"" ; string_= """ ++ [233]%N ++ runes_of_ascii "t" ++ [233]%N ++ runes_of_ascii """
    // c
    } root
    packet body { stringy @calculatedFrom(
""a	b"" ) `line1
line2` , }
packet Logon {
    @leftPad(
    ' ' ) //	t
u16 string_ `u8 x,` }
,
")).
Eval vm_compute in ("<<<M1721>>>" ++ check (runes_of_ascii "options { trueish = ""`tick`"" ; string_= """ ++ [233]%N ++ runes_of_ascii "t" ++ [233]%N ++ runes_of_ascii """
    // c
    } 
    packet body { stringy @calculatedFrom(
""a	b"" ) `line1
line2` , }
packet Logon {
    @leftPad(
    ' ' ) //	t
u16 string_ `u8 x,` ,
}
")).
Eval vm_compute in ("<<<M657>>>" ++ check (runes_of_ascii "packet u8x{@calculatedFrom( """ ++ [128512]%N ++ runes_of_ascii """ )
rootA @lengthOf(stringy ), lengthOf ,@lengthOf(  u8x )
    i64_ @calculatedFrom( ""a\""b""//x
) ,
@lengthOf( matchKey )
@lengthOf( rootA	) float32 trueish
,  } // " ++ [27880; 37322]%N)).
Eval vm_compute in ("<<<M1761>>>" ++ check (runes_of_ascii "options { trueish = ""`tick`"" ; string_= """ ++ [233]%N ++ runes_of_ascii "t" ++ [233]%N ++ runes_of_ascii """
    // c
    } root
    packet body { stringy @calculatedFrom(
""a	b"" )  , }
packet Logon {
    @leftPad(
    ' ' ) //	t
u16 string_ `u8 x,` ,
}
")).
Eval vm_compute in ("<<<M804>>>" ++ check (runes_of_ascii "//	t
MetaData
    chars { falsey pack , packetx zchar
    `
`	, } // " ++ [128512]%N ++ runes_of_ascii " emoji
packet u128
    {@lengthOf(tag ) @tag(
    // trailing space 
    1)
@rightPad
(
'\x00'
    ) i64 T
,
}")).
Eval vm_compute in ("<<<M3888>>>" ++ check (runes_of_ascii "options { _x =
	i32

    } 
options

    {	o

= 	 /// triple
    false
; chars= ""\n""  }
root  packet Pad

/// triple
    // packet A { u8 x, }
  {
    chars 
// a // b
,}
")).
Eval vm_compute in ("<<<M4436>>>" ++ check (runes_of_ascii "  // packet A { u8 x, }
	options

{	matchKey=
    true
	;
}	MetaData int
    { uint16

packetx `tab	here`
	, }
options /// triple
  {
	msg_type=	""""
; }	// @lengthOf(
 
")).
Eval vm_compute in ("<<<M1224>>>" ++ check (runes_of_ascii "options //
{} packet	tag //	t
{ u64
u @lengthOf(u128 ) , char[]Pad
    // a // b
    @lengthOf( crc) ,
    i32 options1@lengthOf(msg_type// c
) ,} options {
    }")).
Eval vm_compute in ("<<<M4265>>>" ++ check (runes_of_ascii "
root packet
matchKey

{ zchar[3  ]
pack

    @calculatedFrom(
""a	b"" )  `doc`

    , } 
options
        // c
    { }

MetaData
    A
    { int8 msg_type,}

")).
Eval vm_compute in ("<<<M2095>>>" ++ check (runes_of_ascii "options{
_x
= true true
} options
{ o	= /// triple
false
    ; chars
= ""\n"" } root packet	Pad
/// triple
// packet A { u8 x, }
{	chars
    // a // b
    ,}")).
Eval vm_compute in ("<<<M2404>>>" ++ check (runes_of_ascii "// c
packet x { @lengthOf( metadata ) repeat lengthOf
, ,a1{
trueish	,// c
repeat//	t
MetaDataX , } , zchar[
    42	] rootA // `tick` ""quote"" 'q'
,
    }
")).
Eval vm_compute in ("<<<M2150>>>" ++ check (runes_of_ascii "options{
_x
= true
} options
{ o	= /// triple
false
    ; chars
= ""\n"" } } root packet	Pad
/// triple
// packet A { u8 x, }
{	chars
    // a // b
    ,}")).
Eval vm_compute in ("<<<M2192>>>" ++ check (runes_of_ascii "options{
_x
= true
} options
{ o	= /// triple
false
  /  ; chars
= ""\n"" } root packet	Pad
/// triple
// packet A { u8 x, }
{	chars
    // a // b
    ,}")).
Eval vm_compute in ("<<<M2121>>>" ++ check (runes_of_ascii "options{
_x
= true
} options
{ o	false /// triple
=
    ; chars
= ""\n"" } root packet	Pad
/// triple
// packet A { u8 x, }
{	chars
    // a // b
    ,}")).
Eval vm_compute in ("<<<M2119>>>" ++ check (runes_of_ascii "options{
_x
= true
} options
{ o	 /// triple
false
    ; chars
= ""\n"" } root packet	Pad
/// triple
// packet A { u8 x, }
{	chars
    // a // b
    ,}")).
Eval vm_compute in ("<<<M4346>>>" ++ check (runes_of_ascii "  root	packet
    matchKey
{  zchar[

3
	] pack @calculatedFrom( 
	// c

	""a	b""
)
    `doc` 
, }
options 
{}MetaData 
A{ 
int8 msg_type
    ,
}

")).
Eval vm_compute in ("<<<M2420>>>" ++ check (runes_of_ascii "// c
packet x { @lengthOf( metadata ) repeat 
,a1{
trueish	,// c
repeat//	t
MetaDataX , } , zchar[
    42	] rootA // `tick` ""quote"" 'q'
,
    }
")).
Eval vm_compute in ("<<<M4477>>>" ++ check (runes_of_ascii "packet A {
    Inner {
        u8 x `a
        
        b`,
        Deep {
            u8 y `a
            
            b`,
        },
    },
}")).
Eval vm_compute in ("<<<M559>>>" ++ check (runes_of_ascii "packet trueish { match
    falsey as
    leftPad { // " ++ [128512]%N ++ runes_of_ascii " emoji
""// no comment"":
// " ++ [128512]%N ++ runes_of_ascii " emoji
//
leftPad } , repeatCount
string_ `{ , }`
,}")).
Eval vm_compute in ("<<<M1464>>>" ++ check (runes_of_ascii "
packet
    falsey { Header@calculatedFrom(""packet""  ) , char[
    0123456789 ] packetx
    , @calculatedFrom( // `tick` ""quote"" 'q'")).
Eval vm_compute in ("<<<M3961>>>" ++ check (runes_of_ascii "  MetaData
    float 

// c
    {
	float64 charz  `
` 
, }	root 
packet

    chars  {@rightPad

    (
'0'

)
    Foo 
,
	}
")).
Eval vm_compute in ("<<<M4597>>>" ++ check (runes_of_ascii "options {
    MetaDataX = 3;
    matchKey = i32
    T = 1
}

packet Header {
    string i64_ @lengthOf(Packet) `say ""hi""`,
}")).
Eval vm_compute in ("<<<M3314>>>" ++ check (runes_of_ascii "root packet // c
matchKey { zchar[ 3 ] pack @calculatedFrom( ""a	b"" ) `doc` , } options { } MetaData A { int8 msg_type , }")).
Eval vm_compute in ("<<<M3346>>>" ++ check (runes_of_ascii "root packet matchKey { zchar[ 3 ] pack @calculatedFrom( ""a	b"" ) `doc` , } options { } MetaData // c
A { int8 msg_type , }")).
Eval vm_compute in ("<<<M3680>>>" ++ check (runes_of_ascii "
packet

    o
{
    repeat
	Logon uint8x  , }

    // c

	options
{
asx

=
zchar[
    3  ] stringy =
    '\x00'
} ")).
Eval vm_compute in ("<<<M1414>>>" ++ check (runes_of_ascii "
packet
    falsey { @calculatedFrom(Header""packet""  ) , char[
    0123456789 ] packetx
    , } // `tick` ""quote"" 'q'")).
Eval vm_compute in ("<<<M3768>>>" ++ check (runes_of_ascii "  packet

    T

    {@rightPad  (

) 
@tag(00 
)
char[]

a1

@calculatedFrom(
	""a\""b"" )
	`two words`  ,
    } ")).
Eval vm_compute in ("<<<M4550>>>" ++ check (runes_of_ascii "MetaData body {
    BodyLength stringy,
    //	t
    zchar[42] o,
    i64_ lengthOf `{ , }`,
    u8 MetaDataX,
}")).
Eval vm_compute in ("<<<M4617>>>" ++ check (runes_of_ascii "packet metadata {
    Logon {
        A `" ++ [28040; 24687; 31867; 22411]%N ++ runes_of_ascii "`,
        tag o,
    },
    zchar len `// not a comment`,
}// c")).
Eval vm_compute in ("<<<M3039>>>" ++ check (runes_of_ascii "packet A {
    u16 len @lengthOf(body) `
x`,
    u32 crc @calculatedFrom(""CRC32"") `
x`,
    string body,
}")).
Eval vm_compute in ("<<<M3028>>>" ++ check (runes_of_ascii "packet A {
    Inner {
        u8 x `a

b`,
        Deep {
            u8 y `a

b`,
        },
    },
}")).
Eval vm_compute in ("<<<M4529>>>" ++ check (runes_of_ascii "  packet
	A
{ 
match	k
    as
n{
    [
1	,
22
    ,  ""c c"", 4 ,	5,
    ""f"" , 7  ]  :
	B 2
:
C
},
}")).
Eval vm_compute in ("<<<M2367>>>" ++ check (runes_of_ascii "// c
packet x { @lengthOf( metadata ) repeat lengthOf
,a1{
trueish	,// c
repeat//	t
MetaDataX , }")).
Eval vm_compute in ("<<<M3752>>>" ++ check (runes_of_ascii "packet A {
    B b `tab
        	x`,
    B `tab
        	x`,
    repeat B bs `tab
        	x`,
}")).
Eval vm_compute in ("<<<M2947>>>" ++ check (runes_of_ascii "packet A {
  match k as n {
    [""a"", ""bb"", 007, ""d"", ""e"", 66, ""g"", ""h""] : B
    2 : C
  },
}")).
Eval vm_compute in ("<<<M3184>>>" ++ check (runes_of_ascii "// top
root // c0
packet // c1
u128 // c2
{ // c3
chars // c4
`it's` // c5
, // c6
} // c7
")).
Eval vm_compute in ("<<<M2288>>>" ++ check (runes_of_ascii "options
{ } options { BodyLength= u16 Header= f64 ; u128 =
    true
    ; true // a // b")).
Eval vm_compute in ("<<<M3294>>>" ++ check (runes_of_ascii "MetaData float { float64 charz `
` , } root packet chars { @rightPad
// c
( '0' ) Foo , }")).
Eval vm_compute in ("<<<M3505>>>" ++ check (runes_of_ascii "packet chars { } packet MetaDataX { @tag( 42 ) i16 // c
string_ , repeat x `say ""hi""` , }")).
Eval vm_compute in ("<<<M2304>>>" ++ check (runes_of_ascii "options
{ } options { BodyLength= u16 Header= f64 ; u128 =
    true
    ; "" } // a // b")).
Eval vm_compute in ("<<<M3248>>>" ++ check (runes_of_ascii "packet metadata { Logon { A `" ++ [28040; 24687; 31867; 22411]%N ++ runes_of_ascii "` , tag o , } , zchar len `// not a comment` , }
// c
")).
Eval vm_compute in ("<<<M3213>>>" ++ check (runes_of_ascii "packet // c
metadata { Logon { A `" ++ [28040; 24687; 31867; 22411]%N ++ runes_of_ascii "` , tag o , } , zchar len `// not a comment` , }")).
Eval vm_compute in ("<<<M3245>>>" ++ check (runes_of_ascii "packet metadata { Logon { A `" ++ [28040; 24687; 31867; 22411]%N ++ runes_of_ascii "` , tag o , } , zchar len `// not a comment` , // c
}")).
Eval vm_compute in ("<<<M3436>>>" ++ check (runes_of_ascii "packet o { repeat
// c
Logon uint8x , } options { asx = zchar[ 3 ] stringy = '\x00' }")).
Eval vm_compute in ("<<<M7>>>" ++ check (runes_of_ascii "packet pack {
repeat As {
char[ 65535 // trailing space 
] crc `crlf
line` , },
}
")).
Eval vm_compute in ("<<<M3423>>>" ++ check (runes_of_ascii "MetaData body { i64 pack `it's` , } packet stringy { int16 calculatedFrom , }
// c
")).
Eval vm_compute in ("<<<M3411>>>" ++ check (runes_of_ascii "MetaData body { i64 pack `it's` , } packet
// c
stringy { int16 calculatedFrom , }")).
Eval vm_compute in ("<<<M4339>>>" ++ check (runes_of_ascii "options {matchKey

    =0 Header
    =
    // " ++ [128512]%N ++ runes_of_ascii " emoji
	// c
    ""CRC32""
    }")).
Eval vm_compute in ("<<<M2919>>>" ++ check (runes_of_ascii "packet A {
  match k as n {
    [1, 22, ""c c"", 4, 5, ""f""] : B
    2 : C
  },
}")).
Eval vm_compute in ("<<<M2911>>>" ++ check (runes_of_ascii "packet A {
  match k as n {
    [1, 22, 007, 4, 5, 66] : B
    2 : C
  },
}")).
Eval vm_compute in ("<<<M2873>>>" ++ check (runes_of_ascii "packet A {
  match k as n {
    [""a"", ""bb"", ""c c""] : B,
    2 : C
  },
}")).
Eval vm_compute in ("<<<M4508>>>" ++ check (runes_of_ascii "packet Z9_ {
    @tag(4294967296)
    uint8x @calculatedFrom(""abc""),
}")).
Eval vm_compute in ("<<<M2750>>>" ++ check (runes_of_ascii ") u64 @calculatedFrom( '0' match } packet root float @rightPad { 42")).
Eval vm_compute in ("<<<M490>>>" ++ check (runes_of_ascii "MetaData pack{
    }
packet i64_ {
    uint16 T , // a // b
} 	 ")).
Eval vm_compute in ("<<<M1077>>>" ++ check (runes_of_ascii "options {
Logon
= true
    msg_type
= '\x00' ;
T =
int16 }
")).
Eval vm_compute in ("<<<M2280>>>" ++ check (runes_of_ascii "options
{ } options { BodyLength= u16 Header= f64 ; u128 =")).
Eval vm_compute in ("<<<M3370>>>" ++ check (runes_of_ascii "packet x {
// c
@rightPad ( ) repeat roots Logon `doc` , }")).
Eval vm_compute in ("<<<M4544>>>" ++ check (runes_of_ascii "

  root
	packet  zchar

    {  zchar[007
	]  Foo

,}
")).
Eval vm_compute in ("<<<M2870>>>" ++ check (runes_of_ascii "packet A { Inner { match k as n { [1,22] : B, }, }, }")).
Eval vm_compute in ("<<<M2589>>>" ++ check (runes_of_ascii "packet A { x @lengthOf(y) @calculatedFrom(""c""), }")).
Eval vm_compute in ("<<<M112>>>" ++ check (runes_of_ascii "MetaData crc { uint8x float
,}
// @lengthOf(
")).
Eval vm_compute in ("<<<M4600>>>" ++ check (runes_of_ascii "root packet 
lengthOf
	{
    }

options {
	}
")).
Eval vm_compute in ("<<<M2785>>>" ++ check (runes_of_ascii "= ] i64 f32 @calculatedFrom( ; match false")).
Eval vm_compute in ("<<<M3192>>>" ++ check (runes_of_ascii "root packet
// c
u128 { chars `it's` , }")).
Eval vm_compute in ("<<<M1710>>>" ++ check (runes_of_ascii "options { trueish = ""`tick`"" ; string_")).
Eval vm_compute in ("<<<M2749>>>" ++ check (runes_of_ascii "7n9Pa7n1_7](hItIzEPN(=6lB6B^*NjpYE6g")).
Eval vm_compute in ("<<<M4442>>>" ++ check (runes_of_ascii "root packet A {
    u8 x `
    `,
}")).
Eval vm_compute in ("<<<M2652>>>" ++ check (runes_of_ascii "MetaData M { u8 x @lengthOf(y), }")).
Eval vm_compute in ("<<<M4391>>>" ++ check (runes_of_ascii "packet A {
    u8 x `d" ++ [8192]%N ++ runes_of_ascii "`,// c" ++ [8192]%N ++ runes_of_ascii "
}")).
Eval vm_compute in ("<<<M3067>>>" ++ check (runes_of_ascii "packet A {
 u8 x `d" ++ [12288]%N ++ runes_of_ascii "`, // c" ++ [12288]%N ++ runes_of_ascii "
}")).
Eval vm_compute in ("<<<M4006>>>" ++ check (runes_of_ascii "options {
    pack = false;
}")).
Eval vm_compute in ("<<<M2806>>>" ++ check (runes_of_ascii "P" ++ [65533; 65533; 23; 65533; 65533]%N ++ runes_of_ascii "0f" ++ [65533; 3; 521]%N ++ runes_of_ascii "'" ++ [65533]%N ++ runes_of_ascii "bW" ++ [18; 65533; 14; 21]%N ++ runes_of_ascii "~" ++ [65533; 65533; 12; 1709; 65533; 65533; 127]%N)).
Eval vm_compute in ("<<<M1137>>>" ++ check (runes_of_ascii "packet
i8i8
    { }
// c
")).
Eval vm_compute in ("<<<M2291>>>" ++ check (runes_of_ascii "options
{ } options { B")).
Eval vm_compute in ("<<<M2743>>>" ++ check (runes_of_ascii "int64 [ ; { char[] u32")).
Eval vm_compute in ("<<<M2230>>>" ++ check (runes_of_ascii "options
{ } options")).
Eval vm_compute in ("<<<M2644>>>" ++ check (runes_of_ascii "MetaData M { u8 x }")).
Eval vm_compute in ("<<<M3065>>>" ++ check (runes_of_ascii "packet A {
}
// c" ++ [12288]%N)).
Eval vm_compute in ("<<<M3158>>>" ++ check (runes_of_ascii "MetaData M {
}// c")).
Eval vm_compute in ("<<<M3128>>>" ++ check (runes_of_ascii "packet A {
}// c" ++ [8203]%N)).
Eval vm_compute in ("<<<M3155>>>" ++ check (runes_of_ascii "packet A {
}


")).
Eval vm_compute in ("<<<M1294>>>" ++ check (runes_of_ascii "
/// triple
")).
Eval vm_compute in ("<<<M2802>>>" ++ check ([65533; 65533]%N ++ runes_of_ascii "K" ++ [65533; 65533]%N ++ runes_of_ascii "	y" ++ [65533; 65533]%N ++ runes_of_ascii "7")).
Eval vm_compute in ("<<<M2435>>>" ++ check (runes_of_ascii "zchar [")).
Eval vm_compute in ("<<<M3124>>>" ++ check (runes_of_ascii "// c 	")).
Eval vm_compute in ("<<<M3089>>>" ++ check (runes_of_ascii "// c" ++ [8202]%N)).
Eval vm_compute in ("<<<M2542>>>" ++ check (runes_of_ascii "{}{}")).
Eval vm_compute in ("<<<M2545>>>" ++ check (runes_of_ascii "ab")).
Eval vm_compute in ("<<<M2555>>>" ++ check (runes_of_ascii "a" ++ [233]%N)).
