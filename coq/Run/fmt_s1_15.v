From FP Require Import Lexer Parser ShowPT Digest Formatter.
From Coq Require Import String List NArith.
Import ListNotations.
Open Scope string_scope.
Set Printing Width 100000000.
Set Printing Depth 100000000.
Definition show_fres (r : fres) : string :=
  match r with
  | FOk s => "OK:" ++ sh_escaped s ""
  | FErr s => "ERR:" ++ sh_escaped s ""
  | FPanic p => "PANIC:" ++ p
  end.
Definition check (rs : list rune) : string := digest (show_fres (format_res rs)).
Definition full (rs : list rune) : string := show_fres (format_res rs).
Eval vm_compute in ("<<<M3500>>>" ++ check (runes_of_ascii "options {
    StringPrefixLenType = u8;
    ArrayPrefixLenType = u64;
    FixedStringPadFromLeft = true;
    JavaPackage = ""com.example.msg"";
    GoPackage = ""msg"";
    GoModule = ""example.com/msg"";
}
MetaData Meta {
    u32 SeqNum `sequence number
more`,
    char[8] Symbol `symbol
more`,
    zchar[5] ZSym `z symbol
more`,
    string Note,
    Symbol AltSymbol `alias of symbol`,
    f64 Price,
}
packet Inner {
    u8 a,
    i16 b,
    string c,
}
packet Inner2 {
    u8 a2,
    char[3] c2,
}
packet Logon {
    u8 x,
    string user,
    repeat u16 codes,
}
packet Logout {
    u16 reason,
}
packet Empty {
}
root packet Msg {
    u8 su8,
    uint8 luint8,
    u16 su16,
    uint16 luint16,
    u32 su32,
    uint32 luint32,
    u64 su64,
    uint64 luint64,
    i8 si8,
    int8 lint8,
    i16 si16,
    int16 lint16,
    i32 si32,
    int32 lint32,
    i64 si64,
    int64 lint64,
    f32 sf32,
    float32 lfloat32,
    f64 sf64,
    float64 lfloat64,
    char[6] fsplain,
    @leftPad('0') char[4] fs0,
    @rightPad('0') char[5] fs1,
    @leftPad(' ') char[6] fs2,
    @rightPad(' ') char[7] fs3,
    @leftPad('\x00') char[8] fs4,
    @rightPad('\x00') char[9] fs5,
    @leftPad() char[10] fs6,
    @rightPad() char[11] fs7,
    zchar[7] fz,
    @leftPad('0') zchar[3] fzl0,
    string s1 `doc`,
    char[] s2,
    Inner,
    Sub {
        u8 q,
        string w,
        Deep {
            u16 z,
            repeat i32 zs,
        },
    },
    repeat u8 ru8,
    repeat u16 ru16,
    repeat u32 ru32,
    repeat u64 ru64,
    repeat i8 ri8,
    repeat i16 ri16,
    repeat i32 ri32,
    repeat i64 ri64,
    repeat f32 rf32,
    repeat f64 rf64,
    repeat string rstr,
    repeat char[] rstr2,
    repeat char[3] rfs,
    repeat zchar[3] rfz,
    repeat Inner2,
    repeat Grp {
        u8 k,
        char[2] v,
    },
    SeqNum,
    SeqNum seq2,
    repeat SeqNum seqs,
    Symbol,
    AltSymbol alt,
    ZSym,
    Note,
    repeat Symbol syms,
    Price px,
    u16 MsgType,
    u32 BodyLen @lengthOf(Body),
    match MsgType as Body {
        1 : Logon,
        [2, 3] : Logout,
        7 : Logon,
        9 : Empty,
    },
    u32 Checksum @calculatedFrom(""CRC32""),
}
")).
Eval vm_compute in ("<<<M788>>>" ++ check (runes_of_ascii "
root
packet i8i8 {i8// c
crc
,@rightPad ( )uint64 u128`crlf
line` , uint64 _x
`
`, x ,	i16 As @calculatedFrom( """ ++ [128512]%N ++ runes_of_ascii """ ) `crlf
line`
, leftPad { u
    {	zchar[ 4294967296 ] MetaDataX
//x
// trailing space 
`crlf
line` , calculatedFrom,repeat u16 T `tab	here`
,
    // packet A { u8 x, }
    }	, string	As @calculatedFrom(  """") ``
,  },  @calculatedFrom(""" ++ [128512]%N ++ runes_of_ascii """ )
    match	falsey as o { 0 :
    // " ++ [27880; 37322]%N ++ runes_of_ascii "
    Logon ,	42 /// triple
:body
}  , pack MetaDataX // `tick` ""quote"" 'q'
, u32 lengthOf @lengthOf(
    Packet )`line1
line2` , } // c
options {
asx = false }packet i64_  { A
{ char[]// " ++ [128512]%N ++ runes_of_ascii " emoji
f32a
@lengthOf( options1 ) `it's`
, }
,
repeat x_y_z matchKey // " ++ [27880; 37322]%N ++ runes_of_ascii "
, repeat char[] x_y_z
    `it's` // " ++ [27880; 37322]%N ++ runes_of_ascii "
, @lengthOf(  As ) char[] x_y_z
,
@tag( 00)@calculatedFrom(  """ ++ [233]%N ++ runes_of_ascii "t" ++ [233]%N ++ runes_of_ascii """ )
    u8 pack @calculatedFrom( ""CRC32"")
,}	packet roots{ match roots as f32a { 3: uint8x, 7 : u128 , //x
""" ++ [28040; 24687]%N ++ runes_of_ascii """
    // `tick` ""quote"" 'q'
    :
Z9_,[
7  ,""a	b"" // a // b
, """"
    , 7 , ""packet"" ,
    ""packet""
, ""x y""
    // packet A { u8 x, }
    ]	:
    packetx ,
""{,}"" /// triple
: u, }
, @lengthOf(
    // `tick` ""quote"" 'q'
    msg_type ) match	asx// a // b
as	uint8x {
    [ ""a	b""
    ,0, """ ++ [28040; 24687]%N ++ runes_of_ascii """ ,	4294967296
    //x
    ,65535]:
// `tick` ""quote"" 'q'
// c
u  00// c
:	options1 0123456789 : body
    , }	,
i64_
,@tag( 65535
) @lengthOf( lengthOf )	Header `doc` , uint16 roots @calculatedFrom(	""" ++ [28040; 24687]%N ++ runes_of_ascii """) , @rightPad
( '0' //
) match
u8x as // " ++ [128512]%N ++ runes_of_ascii " emoji
f32a { [ ""x y""	,  """ ++ [128512]%N ++ runes_of_ascii """
, ""`tick`"" ]  :
// " ++ [128512]%N ++ runes_of_ascii " emoji
// c
calculatedFrom , ""a\""b"" :packetx	,[ 0]: As
    , [""" ++ [28040; 24687]%N ++ runes_of_ascii """
    ] :
Z9_ } ,@lengthOf(
Logon ) match chars // " ++ [27880; 37322]%N ++ runes_of_ascii "
as
// packet A { u8 x, }
// trailing space 
len
{ [3
    ,
""a\\""
]
    :
    string_ [ ""it's"" ,""a\\"" ] :
len,  [ ""\n"" ,  3
, """ ++ [28040; 24687]%N ++ runes_of_ascii """
]
:  rootA	, 10
    //x
    : msg_type
,}
,	char[] chars  @lengthOf(
trueish
) // `tick` ""quote"" 'q'
`{ , }`  , }
")).
Eval vm_compute in ("<<<M961>>>" ++ check (runes_of_ascii "options {
    u128
    =
/// triple
/// triple
""x y"";
    Logon = '\x00' Foo//x
= ""CRC32"" // a // b
; }options	{u= // a // b
""1""  ;
    u = float64
    ;  Logon = false
;	} root packet Header { @tag( 0) @lengthOf( metadata ) Pad {T @calculatedFrom(
""// no comment""),
    repeat char[//	t
255 ]
metadata `` ,
}
    , @lengthOf(metadata ) //
repeat string asx	`two words`,
    //
    @tag(1 ) As { /// triple
tag	@lengthOf(	u8x ) ,Z9_
    `tab	here` , zchar[1
    // packet A { u8 x, }
    ] string_// packet A { u8 x, }
@calculatedFrom(
// " ++ [27880; 37322]%N ++ runes_of_ascii "
// a // b
""packet"" ) ,  match// a // b
stringy as As { ""a\\"":
    metadata ,
    [ ""abc"" , ""x y"" ]// trailing space 
:
Header
255 :  u
    ,
7 :	msg_type  [
    // @lengthOf(
    ""x y"",""a\\"" //x
,10
// c
// " ++ [128512]%N ++ runes_of_ascii " emoji
, ""packet"" ] :chars }  ,
}	, @leftPad (
'\x00'
)	i64_ { x  `say ""hi""` ,
}
    , repeat Foo { len{ match u as
_x
    // trailing space 
    {
42 :tag
// c
// a // b
,
[
""" ++ [233]%N ++ runes_of_ascii "t" ++ [233]%N ++ runes_of_ascii """
    ] : //x
_x[
    7 , // " ++ [128512]%N ++ runes_of_ascii " emoji
4294967296]
: Packet // `tick` ""quote"" 'q'
,//	t
} , float64 o `a\` , f32a Pad`crlf
line`
,} ,
    /// triple
    } , match options1 as uint8x
{	42 :len
    // " ++ [128512]%N ++ runes_of_ascii " emoji
    ,
    255 :	o ,	255 : Logon
,
    0
//
// a // b
: Header
    // " ++ [128512]%N ++ runes_of_ascii " emoji
    , 007
: msg_type
,} // @lengthOf(
, @rightPad( '\x00'
    ) @calculatedFrom( ""a\\"" ) @calculatedFrom( ""\" ++ [233]%N ++ runes_of_ascii """ )repeat Foo // `tick` ""quote"" 'q'
{	char[
    // 50% %s
    00 ]rootA ,}, repeat charz  T `" ++ [233]%N ++ runes_of_ascii "`
,
string BodyLength
    // 50% %s
    , repeat u128// packet A { u8 x, }
, }")).
Eval vm_compute in ("<<<M4091>>>" ++ check (runes_of_ascii "options {
    BodyLength = """ ++ [28040; 24687]%N ++ runes_of_ascii """
    Header = '0';
}

root packet crc {
    asx @lengthOf(crc) `" ++ [28040; 24687; 31867; 22411]%N ++ runes_of_ascii "`,
    @calculatedFrom(""x y"")
    @lengthOf(Logon)
    repeat f32a {
        i32 calculatedFrom @lengthOf(Packet) `// not a comment`,
        charz @lengthOf(u),
        match asx as As {
            ""it's"" : _x,
            ""x y"" : calculatedFrom,
            ""packet"" : Pad,
        },
        charz chars,
    },
    @leftPad(' ')
    // `tick` ""quote"" 'q'
    i8 A `line1
        line2`,
    repeat zchar[42] x,
    As `" ++ [233]%N ++ runes_of_ascii "`,
    char[] crc,
    @calculatedFrom(""`tick`"")
    Header {
        match chars as float {
            ""abc"" : matchKey,
            007 : calculatedFrom,
            // 50% %s
            ""\n"" : i64_,
            ""packet"" : i8i8,
            [10, 0123456789] : roots,
        },
        metadata repeatCount,// " ++ [128512]%N ++ runes_of_ascii " emoji
    },
}

packet o {
    u16 chars @calculatedFrom(""abc""),
    repeat int {
        uint8 len,
        // `tick` ""quote"" 'q'
        u128 asx,
        match u128 as lengthOf {
            ""it's"" : packetx,
            0123456789 : a1,
            ["""", 0123456789] : asx,
        },
    },
    char _x @lengthOf(repeatCount),
    repeat uint64 u128,
}

root packet _x {
    repeat int {
        repeat Z9_ body,
        // 50% %s
        //x
    },
}
// trailing space ")).
Eval vm_compute in ("<<<M995>>>" ++ check (runes_of_ascii "packet options1	{@calculatedFrom( ""CRC32"" ) uint8 // 50% %s
crc , @tag(1 )metadata
// 50% %s
// 50% %s
f32a `crlf
line`
    // " ++ [27880; 37322]%N ++ runes_of_ascii "
    , int ,
repeat As {i64 rootA @lengthOf( string_ ) `a\` , char[
007
    ] string_ @lengthOf(  u8x)
//x
// 50% %s
, char[ 4294967296 ] As@lengthOf(
metadata  ), uint64 lengthOf `say ""hi""` , }, lengthOf@lengthOf(
roots )
    ,@tag( 1
) matchKey
{
repeat rootA _x
    ,} , char[ 65535  ] string_@lengthOf( repeatCount ) ,
f32a // " ++ [27880; 37322]%N ++ runes_of_ascii "
@calculatedFrom(	""""
) ,
    match
u128 as Z9_ {
""" ++ [28040; 24687]%N ++ runes_of_ascii """ /// triple
: lengthOf ""\" ++ [233]%N ++ runes_of_ascii """
    : string_,
    } , @tag(
    // c
    4294967296 )
    u64 f32a ,
} root	packet msg_type { }
    // 50% %s
    packet
    int
{
char[] T //x
@lengthOf(
A ) // c
, // c
@tag(7
    )
@lengthOf( uint8x ) T trueish ,body
{ Foo @lengthOf( trueish)
,T
    packetx `tab	here` ,zchar[ 0123456789 ] a1
@calculatedFrom( """ ++ [28040; 24687]%N ++ runes_of_ascii """)
    `say ""hi""`
,
    uint8x , },
    @tag(
10
    ) repeat f64 options1 , @rightPad
    ( ) trueish// " ++ [128512]%N ++ runes_of_ascii " emoji
@lengthOf(
    A ) ``, repeat MetaDataX `line1
line2`	, string repeatCount @calculatedFrom( """ ++ [128512]%N ++ runes_of_ascii """ )
, @calculatedFrom(""" ++ [233]%N ++ runes_of_ascii "t" ++ [233]%N ++ runes_of_ascii """
    )
uint8 a1@lengthOf( // 50% %s
leftPad ) ,@calculatedFrom( ""abc"" ) Z9_ @calculatedFrom( ""abc"" )
    , } 	 ")).
Eval vm_compute in ("<<<M4042>>>" ++ check (runes_of_ascii "
packet	x_y_z
{
@lengthOf(
crc)match
repeatCount as 
u8x 
{ 

    // 50% %s
  """"
:	string_// " ++ [128512]%N ++ runes_of_ascii " emoji
	, 
4294967296 

    /// triple
	: 	 // a // b
msg_type
	,	// 50% %s
  	}

    ,
    @tag(007 
) float  {
    char[ 
      // c
  3 ]

MetaDataX
    @lengthOf(u 
) ,  } // c
,@leftPad (  ' '
) 
repeat char[]
trueish

`two words` ,	}
//x
    	root	packet // " ++ [128512]%N ++ runes_of_ascii " emoji
  asx{
	zchar[
10	// " ++ [27880; 37322]%N ++ runes_of_ascii "
] f32a
	@calculatedFrom(
""x y"")
,	@calculatedFrom( ""abc""

    )
zchar[
10

]
u8x  ,repeat
_x { // " ++ [128512]%N ++ runes_of_ascii " emoji
      int8

charz

    `two words` 
, 
i16
    u128,
	}

,	/// triple

packetx@lengthOf(  Logon	) 
// `tick` ""quote"" 'q'
      // `tick` ""quote"" 'q'
    `" ++ [28040; 24687; 31867; 22411]%N ++ runes_of_ascii "`	, 
char[
00
	]
    pack
, @rightPad 
(  ) match

    repeatCount as packetx {
""1""
    : int,}

    ,	match	stringy as

leftPad{
	[  00
,
""a	b""

] 	 // " ++ [128512]%N ++ runes_of_ascii " emoji
  	: As  ,

    }	,

    f64

crc

    @lengthOf(
float 
)  , @leftPad

(
'\x00'
)

// a // b
	  @rightPad

(
' ') repeat roots 
packetx,@tag(65535 
//	t
		// " ++ [128512]%N ++ runes_of_ascii " emoji

  )
uint64
matchKey  ,
    } 
    // a // b
		root packet Logon
	{}

MetaData  Packet{ string 
asx

`u8 x,`

    ,} ")).
Eval vm_compute in ("<<<M256>>>" ++ check (runes_of_ascii "packet // 50% %s
o { @tag( 255 )rootA
chars , u { len @lengthOf( msg_type )`tab	here`,// " ++ [128512]%N ++ runes_of_ascii " emoji
char[] pack `a\`
,} ,@lengthOf(uint8x )match
// " ++ [27880; 37322]%N ++ runes_of_ascii "
// `tick` ""quote"" 'q'
MetaDataX as BodyLength
    {""CRC32"" :// trailing space 
A
} , @tag(
    65535)	int32 u8x @calculatedFrom( ""// no comment"" )
`two words` ,	@tag( 42 ) match zchar as stringy { [
4294967296
]
    :
    i64_ }, }root
    packet
options1
{ repeat As`// not a comment` ,
    repeat lengthOf {A chars , } , packetx  { f32 metadata ,
int64 u8x
    // " ++ [128512]%N ++ runes_of_ascii " emoji
    @calculatedFrom(""1""  ) , int16 rootA , repeat
    i16	_x
, }
// " ++ [27880; 37322]%N ++ runes_of_ascii "
// c
, repeat x_y_z {repeat
    u16 Header
    `100% of %d` ,
    // @lengthOf(
    }, match x // packet A { u8 x, }
as
charz
    { ""// no comment""	:
    // " ++ [128512]%N ++ runes_of_ascii " emoji
    As
, [ 65535
,4294967296] :i8i8 , [
""x y"" //x
,42	,4294967296 ] : i8i8 ,[007,3  ]: options1
,""a\\"" : f32a ,	} , repeat body , @calculatedFrom(// trailing space 
""" ++ [233]%N ++ runes_of_ascii "t" ++ [233]%N ++ runes_of_ascii """ ) char[ 007 ]
trueish @lengthOf( // c
_x) , }
    MetaData packetx { }options {
    lengthOf
= 7 lengthOf
    = ' ' ; string_=
0
;
}")).
Eval vm_compute in ("<<<M758>>>" ++ check (runes_of_ascii "packet trueish
{
@tag( 65535	)
    float @lengthOf( As ) `" ++ [233]%N ++ runes_of_ascii "` ,i32 lengthOf	, repeat
float64
    stringy
`" ++ [28040; 24687; 31867; 22411]%N ++ runes_of_ascii "` , @lengthOf(
    A
) //	t
@calculatedFrom(
""a\\"" // 50% %s
) // @lengthOf(
@leftPad ('\x00' ) repeat
    u32 crc , chars
    /// triple
    , repeat string
    lengthOf
`two words`
, } // @lengthOf(
packet metadata {
@leftPad  ( '0' ) A {
    // `tick` ""quote"" 'q'
    asx // trailing space 
{ metadata
`crlf
line` ,a1@lengthOf(
zchar ) ,
    // " ++ [27880; 37322]%N ++ runes_of_ascii "
    i32
    _x
, T
{	match repeatCount as
/// triple
//	t
charz
{ // c
0123456789 : metadata } ,	float64 rootA`" ++ [28040; 24687; 31867; 22411]%N ++ runes_of_ascii "` ,
/// triple
// " ++ [128512]%N ++ runes_of_ascii " emoji
} ,  } , roots@lengthOf( falsey
) `doc`  ,
//x
// a // b
} , int32 x , float32 calculatedFrom , //
@lengthOf( charz ) @calculatedFrom(
""x y"")
@lengthOf( rootA ) char[ 00]
    f32a  @calculatedFrom( ""a\\"")`crlf
line`
    , zchar[ 10
] metadata
    ,
    zchar[
007 ] leftPad,
    repeat i8i8 rootA
// @lengthOf(
//
,uint64 calculatedFrom // " ++ [128512]%N ++ runes_of_ascii " emoji
@calculatedFrom(
""x y""
    )
`tab	here` , }")).
Eval vm_compute in ("<<<M295>>>" ++ check (runes_of_ascii "// c
packet _x {	lengthOf A `crlf
line`
, i64_
    //x
    { uint64 u ,
    }
    , @tag(  1 ) zchar[ 4294967296
// 50% %s
// a // b
]
    // " ++ [27880; 37322]%N ++ runes_of_ascii "
    leftPad `" ++ [233]%N ++ runes_of_ascii "`
    /// triple
    , } root packet MetaDataX
    {
    string
    roots@lengthOf(falsey ) `two words` , roots asx , repeat Packet  , repeat uint64 falsey
// c
//
, uint8
MetaDataX  @calculatedFrom( """" ) ,
leftPad ,	@calculatedFrom(
    ""{,}"" )
float64 leftPad	@calculatedFrom(
""packet""  ),}
    root packet msg_type { T,@calculatedFrom( """ ++ [28040; 24687]%N ++ runes_of_ascii """)
char[ 255]x
, @leftPad
    (
'0'
    )char[
// `tick` ""quote"" 'q'
// " ++ [128512]%N ++ runes_of_ascii " emoji
65535 ]
    A `{ , }`,match//x
Z9_ as zchar  {[42 ,""" ++ [28040; 24687]%N ++ runes_of_ascii """,""" ++ [233]%N ++ runes_of_ascii "t" ++ [233]%N ++ runes_of_ascii """ ,10 , 1	, ""\n"" ]
    :
len ,[
    ""a	b""	]
:packetx,
    } // packet A { u8 x, }
,
    string u128,	@calculatedFrom(
""" ++ [28040; 24687]%N ++ runes_of_ascii """	) @calculatedFrom(
""CRC32""
    ) asx	calculatedFrom  ,
@tag(
7 ) repeat body {string	tag , u32 As , }
// " ++ [27880; 37322]%N ++ runes_of_ascii "
//
, @calculatedFrom(""\n"" )	int16
A
    @calculatedFrom( ""CRC32""	) `` ,
    }")).
Eval vm_compute in ("<<<M682>>>" ++ check (runes_of_ascii "
packet
body {
@calculatedFrom( ""x y"" ) charz `100% of %d`
, @tag( 007 // " ++ [128512]%N ++ runes_of_ascii " emoji
)
repeat packetx
//x
// " ++ [128512]%N ++ runes_of_ascii " emoji
,
@calculatedFrom( ""\" ++ [233]%N ++ runes_of_ascii """) int8 charz@calculatedFrom( ""`tick`"" ),
@lengthOf( trueish ) @rightPad
( ' '
    )	repeat u lengthOf`// not a comment` // 50% %s
, @rightPad
    (
    '0' )@rightPad( ' '	) @tag(  4294967296
) x trueish
, charz @lengthOf( _x )
, @calculatedFrom(
    // packet A { u8 x, }
    ""// no comment"") @rightPad
() @calculatedFrom(""\" ++ [233]%N ++ runes_of_ascii """ //	t
) match x as chars {	10
    :
    // `tick` ""quote"" 'q'
    u128
    ,
007
//x
// `tick` ""quote"" 'q'
: chars
, ""it's"": u128 , 255
: trueish
,
} ,
    match falsey
// @lengthOf(
// packet A { u8 x, }
as roots { ""// no comment""	: lengthOf ,
""" ++ [233]%N ++ runes_of_ascii "t" ++ [233]%N ++ runes_of_ascii """
    : len , ""1""
    // 50% %s
    : i8i8,
    [
0
, """ ++ [28040; 24687]%N ++ runes_of_ascii """,  255 ] :
// @lengthOf(
// packet A { u8 x, }
uint8x
// a // b
// packet A { u8 x, }
, 10 :
T
    ""x y""
:
    u128, } ,  }")).
Eval vm_compute in ("<<<M859>>>" ++ check (runes_of_ascii "root packet Header {
    @lengthOf(	x_y_z // packet A { u8 x, }
)// packet A { u8 x, }
@tag(
//x
// 50% %s
0123456789
    )	@lengthOf(
    As ) string len`two words`
,
    match Pad
as _x
{
""\" ++ [233]%N ++ runes_of_ascii """
    : Z9_, } , i8i8 @lengthOf(	repeatCount// trailing space 
)
//x
//x
`doc`	,
char[ 0 // trailing space 
]	chars	, @leftPad
( ' ' ) Logon `tab	here` , // c
@calculatedFrom( ""\" ++ [233]%N ++ runes_of_ascii """	) repeat zchar { zchar[ 4294967296 ]
    A `
` ,
repeat
a1
    {//	t
repeat
Header  , zchar[
    7 ]packetx
`{ , }`
,
char[007
]_x , } ,	match chars as
o {
    ""\" ++ [233]%N ++ runes_of_ascii """
:// " ++ [27880; 37322]%N ++ runes_of_ascii "
calculatedFrom ""\n"":u8x ,
""a	b"" : Pad //
,65535
: int
    ,	}
, char[] float// @lengthOf(
@lengthOf(lengthOf )
    ,
}
    , uint32 asx `
` , char[] uint8x  @calculatedFrom( //x
""abc"" ) ,
    //
    @tag( 255
    ) @calculatedFrom( ""a\\""
    ) zchar[
    3
] options1 ,charz `two words` ,
    // c
    }")).
Eval vm_compute in ("<<<M3554>>>" ++ check (runes_of_ascii "
packet  BodyLength{ 
@calculatedFrom(
""a\""b"" ) @leftPad 
(
	'\x00' 
) // " ++ [128512]%N ++ runes_of_ascii " emoji
  @lengthOf(
    // " ++ [27880; 37322]%N ++ runes_of_ascii "
  // @lengthOf(

	charz
    ) string_ lengthOf
,@tag( 	 // trailing space 
  4294967296  )@tag(
	3
	) @lengthOf(

body
) 
int64

T

``
,

@tag(
42

)

charz {
asx @calculatedFrom(
""\" ++ [233]%N ++ runes_of_ascii """
    ),
},
@rightPad( '\x00'
    )
	match
	BodyLength as
msg_type{ 
[1
] 
:  int
,
""{,}""

    :
int, } ,repeat
i16

    roots

`line1
line2` , repeat  // trailing space 
	o 
{  match A
    as
T 
{3

    :a1 
,

} 
,

    repeat	string
    Z9_ `" ++ [233]%N ++ runes_of_ascii "` , f32 calculatedFrom
`100% of %d`,
    }
,
repeat
	zchar[
255
	] 
x,  // " ++ [128512]%N ++ runes_of_ascii " emoji
      float32 T  `line1
line2`
,	@calculatedFrom( 
""" ++ [28040; 24687]%N ++ runes_of_ascii """)

repeat f32a

string_

    ,
@calculatedFrom(
    ""1"" ) @tag(	0 )@lengthOf(calculatedFrom
) u16 
zchar

`a\` ,  } ")).
Eval vm_compute in ("<<<M680>>>" ++ check (runes_of_ascii "
packet
    // c
    float{
@tag( 1 )
@calculatedFrom( ""1"" // trailing space 
)
    matchKey @lengthOf( crc )`` , } MetaData pack
{char[]
BodyLength , trueish
    crc ,
    char[	0123456789]	A // @lengthOf(
`
`
,
zchar leftPad
`two words`	, } packet
charz//x
{x {
    u16
x
`line1
line2`// a // b
,	repeat
a1 ,roots asx , } , matchKey rootA
,
@lengthOf( options1 )  u16
Z9_, @calculatedFrom( """ ++ [233]%N ++ runes_of_ascii "t" ++ [233]%N ++ runes_of_ascii """ ) match rootA as// @lengthOf(
matchKey
{ // " ++ [27880; 37322]%N ++ runes_of_ascii "
0123456789
:u8x ,65535 : crc// " ++ [27880; 37322]%N ++ runes_of_ascii "
,
[
    1 ,
    ""x y"" ,
1 ]
: x_y_z ,
    [ 00  , """ ++ [128512]%N ++ runes_of_ascii """]
    : MetaDataX ,
    }	, i16
    /// triple
    float
    , @calculatedFrom( ""a	b""	)// " ++ [128512]%N ++ runes_of_ascii " emoji
@lengthOf( Foo ) repeat//	t
chars // @lengthOf(
, pack , }
root packet i8i8 { @calculatedFrom(
""" ++ [128512]%N ++ runes_of_ascii """) Header { repeat
    Pad _x ,
}, }
")).
Eval vm_compute in ("<<<M1264>>>" ++ check (runes_of_ascii "// trailing space 
packet
    msg_type
{ repeat x{zchar[65535
    //
    ] i64_,
o
    @lengthOf(
lengthOf )	, string msg_type `u8 x,`  ,
    zchar[
4294967296 ] BodyLength
@lengthOf( uint8x) , }	,
Packet
    , match// " ++ [27880; 37322]%N ++ runes_of_ascii "
BodyLength as uint8x { [ 00]
    :
    msg_type , } ,
@tag(10) BodyLength , repeat int asx ,
    // " ++ [27880; 37322]%N ++ runes_of_ascii "
    repeat
    crc uint8x , repeat trueish `it's` ,}options{ // packet A { u8 x, }
A = ' '
; body =float64 ;
}	packet tag
    // c
    {float64 repeatCount	,
    @leftPad	(' ' )
    match calculatedFrom as i8i8 // `tick` ""quote"" 'q'
{ ""// no comment""
    //	t
    : trueish },
char[0123456789 ]
a1  `{ , }` ,len @lengthOf(
// @lengthOf(
// " ++ [128512]%N ++ runes_of_ascii " emoji
T
    )  `" ++ [28040; 24687; 31867; 22411]%N ++ runes_of_ascii "` ,
uint8 string_ ,	repeat len
`it's` ,//	t
u16 crc , }
")).
Eval vm_compute in ("<<<M3321>>>" ++ check (runes_of_ascii "// top
packet
    // c0
MetaDataX
    // c1
{
    // c2
}
    // c3
root
    // c4
packet
    // c5
len
    // c6
{
    // c7
zchar[
    // c8
7
    // c9
]
    // c10
matchKey
    // c11
@lengthOf(
    // c12
BodyLength
    // c13
)
    // c14
,
    // c15
BodyLength
    // c16
`// not a comment`
    // c17
,
    // c18
match
    // c19
u8x
    // c20
as
    // c21
i8i8
    // c22
{
    // c23
""a\""b""
    // c24
:
    // c25
stringy
    // c26
,
    // c27
[
    // c28
""`tick`""
    // c29
]
    // c30
:
    // c31
u8x
    // c32
0123456789
    // c33
:
    // c34
options1
    // c35
,
    // c36
[
    // c37
""`tick`""
    // c38
]
    // c39
:
    // c40
x_y_z
    // c41
}
    // c42
,
    // c43
}
    // c44
")).
Eval vm_compute in ("<<<M3633>>>" ++ check (runes_of_ascii "packet 

    // 50% %s
      // " ++ [27880; 37322]%N ++ runes_of_ascii "
  	Header
	{
	zchar[ 
0123456789]	i64_
    // @lengthOf(
, @lengthOf(
    calculatedFrom

)u8x 
calculatedFrom
	, @tag(	//
		1)repeat
	float32

    BodyLength ,
chars

    crc
,
    repeat 
string	Header `{ , }`	, 
@calculatedFrom(  // packet A { u8 x, }

  ""\n""

    )

_x	@calculatedFrom(""it's"")
,	falsey  {packetx 
      // c
  // " ++ [128512]%N ++ runes_of_ascii " emoji
  	@lengthOf(	Z9_
	) 
,  As  {	zchar[  3] i64_,}, string u8x
@calculatedFrom( ""a\""b""  )

    ,
} ,
int32  T
    @calculatedFrom(
""{,}""	),
len
{
char[]	chars  @lengthOf( zchar  )
    ,

int16 MetaDataX @lengthOf(

a1

    ) , },	// `tick` ""quote"" 'q'
		@tag(

65535
    )
	repeat f64 
u , }
")).
Eval vm_compute in ("<<<M4080>>>" ++ check (runes_of_ascii "// top
	packet// c0
	MetaDataX	// c1
      {	// c2
  }  // c3
  root 	 // c4
packet	// c5
	len  // c6
    	{// c7
  zchar[ 	 // c8

7 	 // c9
]// c10
		matchKey // c11
    @lengthOf(  // c12
	BodyLength// c13
)// c14
    ,// c15
  BodyLength // c16
  `// not a comment`  // c17
		,// c18
	match	// c19

u8x  // c20
  as  // c21
  i8i8	// c22
    { // c23
  	""a\""b"" 	 // c24
  :  // c25
	stringy 	 // c26
  , // c27
    [ // c28
""`tick`""  // c29
		]// c30
: 	 // c31
u8x// c32
	0123456789  // c33
  :  // c34
options1  // c35

, 	 // c36

	[ 	 // c37
""`tick`""  // c38
  	]	// c39

	:  // c40

	x_y_z 	 // c41
    }  // c42
	, // c43
    }// c44
 
")).
Eval vm_compute in ("<<<M805>>>" ++ check (runes_of_ascii "// a // b
MetaData // " ++ [27880; 37322]%N ++ runes_of_ascii "
len  { char[ 65535
]
    options1, } root
packet f32a { @leftPad	(
//	t
// trailing space 
)char[
255 ] u128 //	t
, zchar[ 42 ] tag
    @lengthOf( T )
`a\`
, int16 Logon
`{ , }` ,
    int16
rootA	,
@tag(	00)
char[ 00 ]	packetx @lengthOf( f32a
    )
    // trailing space 
    `{ , }`
    , u8 Logon `it's`
    ,
    // a // b
    char[]
x_y_z @lengthOf(
    len
    ) ,
    @lengthOf( Pad )
    // " ++ [128512]%N ++ runes_of_ascii " emoji
    char[] packetx,
    }
    // " ++ [128512]%N ++ runes_of_ascii " emoji
    MetaData repeatCount
    // a // b
    { zchar[ 1
    ]
stringy, Packet rootA
// packet A { u8 x, }
//	t
,
A
Z9_
// a // b
// 50% %s
,
string	u128 ,// a // b
}

")).
Eval vm_compute in ("<<<M3547>>>" ++ check (runes_of_ascii "MetaData pack {
    char[10] _x,
    calculatedFrom MetaDataX `" ++ [233]%N ++ runes_of_ascii "`,/// triple
    int32 pack,
    i16 lengthOf `doc`,
    a1 u ``,
    char[255] T,
}

/// triple
MetaData stringy {
    T falsey `say ""hi""`,
    char[7] leftPad `" ++ [233]%N ++ runes_of_ascii "`,
}

root packet packetx {
    char[42] u,
    i32 tag @calculatedFrom(""abc"") `" ++ [233]%N ++ runes_of_ascii "`,// " ++ [27880; 37322]%N ++ runes_of_ascii "
    u8 calculatedFrom `say ""hi""`,
    repeat _x ``,
    repeat leftPad falsey,
    i8i8 {
        string T `line1
        line2`,
    },
}

MetaData T {
    _x msg_type,
    char[007] trueish,
    char[] lengthOf `two words`,
    char[] zchar `line1
    line2`,
    metadata uint8x `" ++ [233]%N ++ runes_of_ascii "`,
    // " ++ [27880; 37322]%N ++ runes_of_ascii "
}")).
Eval vm_compute in ("<<<M3540>>>" ++ check (runes_of_ascii "packet A {
    // trailing space 
    // @lengthOf(
    @rightPad()
    float64 crc @lengthOf(packetx),
    @tag(4294967296)
    char[255] f32a @calculatedFrom(""" ++ [28040; 24687]%N ++ runes_of_ascii """) ``,
    packetx {
        repeat chars {
            repeat zchar[3] charz,// @lengthOf(
            char[007] falsey `u8 x,`,
        },
        metadata `{ , }`,
        T {
            char[] uint8x,
            uint8 MetaDataX `100% of %d`,
            _x @calculatedFrom(""a\\""),
        },
    },
    // " ++ [27880; 37322]%N ++ runes_of_ascii "
    repeat i16 metadata `u8 x,`,
    u8 stringy @calculatedFrom(""" ++ [233]%N ++ runes_of_ascii "t" ++ [233]%N ++ runes_of_ascii """),
    string u128 @lengthOf(x_y_z) `doc`,
}")).
Eval vm_compute in ("<<<M3776>>>" ++ check (runes_of_ascii "options {
    msg_type = ""it's""
}

// c
root packet stringy {
    @rightPad('0')
    //	t
    char[42] calculatedFrom @lengthOf(_x),
    @calculatedFrom(""a\\"")
    @lengthOf(falsey)
    int16 repeatCount @lengthOf(falsey) `it's`,// `tick` ""quote"" 'q'
    tag {
        match f32a as zchar {
            42 : string_,
            // a // b
        },
    },
    string_ @calculatedFrom(""`tick`"") ``,
    @lengthOf(leftPad)
    i32 A `u8 x,`,
    @lengthOf(falsey)
    zchar[255] rootA @lengthOf(T) `" ++ [233]%N ++ runes_of_ascii "`,
    @lengthOf(crc)
    char[] len,
}

MetaData roots {
    As Pad,
}")).
Eval vm_compute in ("<<<M3238>>>" ++ check (runes_of_ascii "// top
packet
    // c0
roots
    // c1
{
    // c2
@lengthOf(
    // c3
Pad
    // c4
)
    // c5
char[
    // c6
4294967296
    // c7
]
    // c8
options1
    // c9
@calculatedFrom(
    // c10
""`tick`""
    // c11
)
    // c12
,
    // c13
lengthOf
    // c14
,
    // c15
@tag(
    // c16
7
    // c17
)
    // c18
repeat
    // c19
T
    // c20
,
    // c21
@calculatedFrom(
    // c22
""a	b""
    // c23
)
    // c24
char[]
    // c25
Packet
    // c26
@lengthOf(
    // c27
_x
    // c28
)
    // c29
`doc`
    // c30
,
    // c31
}
    // c32
")).
Eval vm_compute in ("<<<M400>>>" ++ check (runes_of_ascii "packet Z9_ {
@lengthOf(
stringy ) @tag( 0123456789 )
    // c
    f32
    len  ,
match x as u {7:
tag }
,
match
zchar as o //
{ 4294967296	: uint8x [
""CRC32"" , ""// no comment"" ,
4294967296 // " ++ [27880; 37322]%N ++ runes_of_ascii "
,
    0123456789]	:BodyLength ,// packet A { u8 x, }
}	,
    @leftPad (
'0' )
    @lengthOf( BodyLength)
@tag( 0// packet A { u8 x, }
)
    calculatedFrom `// not a comment` ,
    // " ++ [27880; 37322]%N ++ runes_of_ascii "
    @rightPad (  ' '
) crc// " ++ [128512]%N ++ runes_of_ascii " emoji
@lengthOf(
    Foo) `two words`
, repeat As , stringy uint8x	`crlf
line`, MetaDataX
int , }
")).
Eval vm_compute in ("<<<M954>>>" ++ check (runes_of_ascii "options {	u128=
    007 f32a =// c
7}  root
packet uint8x { // c
f64
    u @lengthOf(	x )`two words`	,
    @lengthOf( packetx) repeat float Pad `u8 x,`,int x `` , i64 crc
@calculatedFrom( ""it's"") ,repeat	Logon ,	uint64
o
`it's`,@tag(
42)
    i32 _x@lengthOf(i8i8 ) `{ , }` // c
, } options { float =
    // " ++ [128512]%N ++ runes_of_ascii " emoji
    ""\" ++ [233]%N ++ runes_of_ascii """; msg_type
= false
BodyLength =  ' 'u =
' ' o = ""\n"" ;
} MetaData	u
{ x_y_z leftPad
, char[
65535 ]
asx ,  char[] u8x , // c
charz
len `// not a comment`
, } options{
}")).
Eval vm_compute in ("<<<M1047>>>" ++ check (runes_of_ascii "
packet msg_type
    { match
a1 as x_y_z{[ """ ++ [233]%N ++ runes_of_ascii "t" ++ [233]%N ++ runes_of_ascii """
    ,
// " ++ [128512]%N ++ runes_of_ascii " emoji
// " ++ [128512]%N ++ runes_of_ascii " emoji
"""" ,
    """ ++ [128512]%N ++ runes_of_ascii """ // 50% %s
, ""`tick`"" ,
""x y"" , ""abc"", ""\" ++ [233]%N ++ runes_of_ascii """, ""packet""
] :
    int, }// " ++ [128512]%N ++ runes_of_ascii " emoji
, repeat
uint16 f32a
`it's`
    , } root packet rootA{ As crc ,
@rightPad ( //	t
'\x00'
// `tick` ""quote"" 'q'
// " ++ [27880; 37322]%N ++ runes_of_ascii "
)
    @lengthOf( u)repeat	i16 matchKey
,
    @calculatedFrom(	""x y""
//
// c
) char[]	u128 @calculatedFrom( ""`tick`"" )
    , Z9_ @lengthOf( matchKey )
    ,
    //	t
    } options {
}
")).
Eval vm_compute in ("<<<M3317>>>" ++ check (runes_of_ascii "// top
root // c0
packet // c1
trueish // c2
{ // c3
} // c4
MetaData // c5
x_y_z // c6
{ // c7
zchar[ // c8
7 // c9
] // c10
body // c11
, // c12
BodyLength // c13
_x // c14
, // c15
i8i8 // c16
As // c17
, // c18
i8 // c19
Foo // c20
, // c21
} // c22
packet // c23
f32a // c24
{ // c25
@lengthOf( // c26
x // c27
) // c28
match // c29
Foo // c30
as // c31
trueish // c32
{ // c33
10 // c34
: // c35
f32a // c36
, // c37
} // c38
, // c39
} // c40
")).
Eval vm_compute in ("<<<M999>>>" ++ check (runes_of_ascii "packet int { @tag( 3 )match u128
    as
    lengthOf
    { [ ""abc"" ]	: A , ""a\""b"" : rootA//
,
    65535 :zchar
    , 255  : zchar 255:stringy, } ,}root packet string_ {
@leftPad ( '\x00' ) char[]  A@lengthOf( x)// " ++ [128512]%N ++ runes_of_ascii " emoji
,
char[ 3 // a // b
]
    int
    ,BodyLength @lengthOf(// " ++ [128512]%N ++ runes_of_ascii " emoji
msg_type ) , uint16
Pad @lengthOf( falsey )
,
}MetaData crc { string chars , // @lengthOf(
MetaDataX u8x,	char[ 007]
    T `say ""hi""` , }")).
Eval vm_compute in ("<<<M168>>>" ++ check (runes_of_ascii "// " ++ [128512]%N ++ runes_of_ascii " emoji
root
packet // packet A { u8 x, }
T
    // a // b
    {
int16  a1 ,
tag {	u16 stringy , }
    , MetaDataX crc ,i16 stringy @calculatedFrom(
""x y"" ) , match
int as
BodyLength//
{ 1 : Header
,
    [ 0 ] : tag """ ++ [28040; 24687]%N ++ runes_of_ascii """ :
    asx,
// " ++ [27880; 37322]%N ++ runes_of_ascii "
// trailing space 
},	@leftPad ( ' ' ) metadata
// a // b
// @lengthOf(
`it's`
,	len
    @lengthOf( metadata), zchar[65535
    ]
A @lengthOf( //	t
trueish
    ) , } //")).
Eval vm_compute in ("<<<M4404>>>" ++ check (runes_of_ascii "options {
    o = """ ++ [28040; 24687]%N ++ runes_of_ascii """
    float = ' '
    leftPad = ""a\\"";
}

MetaData u8x {
    u8 zchar,
    A repeatCount,
    repeatCount MetaDataX,// @lengthOf(
    char[] string_,
    packetx Foo,
    uint64 i8i8 `{ , }`,
}

packet x {
    //	t
    @leftPad('0')
    T {
        int32 i8i8 `it's`,
        char[] rootA `line1
                line2`,
        zchar[7] leftPad,
    },// packet A { u8 x, }
}")).
Eval vm_compute in ("<<<M4076>>>" ++ check (runes_of_ascii "packet float {
    repeat string_ {
        f64 trueish,
        u8 body `// not a comment`,
        // a // b
        // @lengthOf(
        int64 packetx @lengthOf(zchar),
    },
    @calculatedFrom(""`tick`"")
    repeat zchar[007] u8x `line1
    line2`,
    // " ++ [27880; 37322]%N ++ runes_of_ascii "
    // c
    repeat chars `say ""hi""`,// trailing space 
}

MetaData asx {
    //	t
    a1 chars `it's`,
    i64 int,
}")).
Eval vm_compute in ("<<<M4155>>>" ++ check (runes_of_ascii "MetaData
    x
{  _x Z9_ 
`u8 x,` 
,Z9_  matchKey,
	u128

    // packet A { u8 x, }

roots,
lengthOf 
matchKey ,
    char[

    3	// @lengthOf(

] packetx
	`100% of %d`	,
char[7
	]
	    // c
  options1
`doc`

    ,// 50% %s
  } options

    { leftPad

=
    ' '

}	packet

roots	{
    float32
T
@lengthOf( 
int  )
`" ++ [233]%N ++ runes_of_ascii "`	,
    } packet

    rootA
{
}
")).
Eval vm_compute in ("<<<M4461>>>" ++ check (runes_of_ascii "packet metadata {
    zchar[1] stringy,
    repeat float uint8x,
    @tag(255)
    // `tick` ""quote"" 'q'
    zchar @lengthOf(_x),
    tag @lengthOf(i64_),
    repeat repeatCount {
        char o,
        char[7] T,
    },
}

root packet u8x {
    @tag(0)
    repeat falsey string_,
    @calculatedFrom("""")
    lengthOf,
    u16 calculatedFrom,
}")).
Eval vm_compute in ("<<<M201>>>" ++ check (runes_of_ascii "MetaData
msg_type { options1 A, string metadata `tab	here`
    , uint32 BodyLength ,} packet
// trailing space 
// a // b
T {// packet A { u8 x, }
}
    packet
    charz { roots  @lengthOf( msg_type ) // 50% %s
`// not a comment` , int32 a1 `{ , }` ,	match leftPad as string_	{	65535 :f32a
, }
, } options
{ options1 = true ; }")).
Eval vm_compute in ("<<<M1281>>>" ++ check (runes_of_ascii "options
    { } options
{ As	=true As
=
char[
    // `tick` ""quote"" 'q'
    0123456789	]
calculatedFrom = ""\n"" ; i64_
=true ;
// c
//
} root packet repeatCount  { @rightPad
( '\x00' ) match Z9_ as zchar { ""\n"" :Pad// 50% %s
""CRC32"": options1 , ""x y"" : o , 7 :
A ,}
,
    } packet asx{ zchar u128`crlf
line` ,	} 	 ")).
Eval vm_compute in ("<<<M3792>>>" ++ check (runes_of_ascii "packet A {
    u8 a,
}

packet B {
    u16 b,
}

packet C {
    u32 c,
}

root packet M {
    u16 Kc,
    u16 Kb,
    u16 Ka,
    match Kc as X {
        9 : A,
        10 : B,
    },
    match Kb as Y {
        2 : C,
        1 : A,
    },
    match Ka as Z {
        1 : B,
    },
    A,
    B,
    C,
}")).
Eval vm_compute in ("<<<M1225>>>" ++ check (runes_of_ascii "
root packet
zchar { @leftPad
(
    '\x00'
) string
    As
`
` , // 50% %s
} packet packetx { u8 Z9_, @rightPad	(
    ) // c
int16 int
`u8 x,`, @tag(3 )	@calculatedFrom( ""`tick`"")  char[255
    // `tick` ""quote"" 'q'
    ]stringy
, zchar[	10
    ] len , @tag(
00
)
zchar MetaDataX ,
}
")).
Eval vm_compute in ("<<<M4347>>>" ++ check (runes_of_ascii "

  // top
	packet 	 // c0
    Inner// c1
	  {	// c2
  	u8
        // c3
  a	// c4a
// c4b
    , 	 // c5a
	// c5b
}root 	 // c7a
  // c7b
packet  // c8a

	// c8b
	P { 

// c10
	Inner	// c11a
// c11b

ref_obj
    , // c13a
// c13b
    	u8
    // c14
x  
      // c15

,}
")).
Eval vm_compute in ("<<<M1532>>>" ++ check (runes_of_ascii "// 50% %s
packet	a1
    { zchar[ zchar[
// a // b
// 50% %s
007]
T `it's`
    ,@rightPad
    // a // b
    (
'\x00')
    o repeatCount , }  packet Logon {  }packet	Logon //x
{ repeat // " ++ [128512]%N ++ runes_of_ascii " emoji
uint16 u128
    //
    `a\`,
falsey
@calculatedFrom(""packet"" ) ,
    } 	 ")).
Eval vm_compute in ("<<<M42>>>" ++ check (runes_of_ascii "options	{
    // 50% %s
    Foo
=
zchar[ 1
    ]
uint8x= ""// no comment""Pad =
char[]
    // 50% %s
    ; // c
A
    =
4294967296 a1
    = ""`tick`"" ; } packet BodyLength {  @calculatedFrom(
""packet""
) roots `100% of %d` ,@tag(10 ) f32 uint8x `{ , }`/// triple
,
}
")).
Eval vm_compute in ("<<<M1705>>>" ++ check (runes_of_ascii "// 50% %s
packet	a1
    { zchar[
// a // b
// 50%@x %s
007]
T `it's`
    ,@rightPad
    // a // b
    (
'\x00')
    o repeatCount , }  packet Logon {  }packet	Logon //x
{ repeat // " ++ [128512]%N ++ runes_of_ascii " emoji
uint16 u128
    //
    `a\`,
falsey
@calculatedFrom(""packet"" ) ,
    } 	 ")).
Eval vm_compute in ("<<<M1583>>>" ++ check (runes_of_ascii "// 50% %s
packet	a1
    { zchar[
// a // b
// 50% %s
007]
T `it's`
    ,@rightPad
    // a // b
    (
'\x00')
    repeatCount o , }  packet Logon {  }packet	Logon //x
{ repeat // " ++ [128512]%N ++ runes_of_ascii " emoji
uint16 u128
    //
    `a\`,
falsey
@calculatedFrom(""packet"" ) ,
    } 	 ")).
Eval vm_compute in ("<<<M1581>>>" ++ check (runes_of_ascii "// 50% %s
packet	a1
    { zchar[
// a // b
// 50% %s
007]
T `it's`
    ,@rightPad
    // a // b
    (
'\x00')
     repeatCount , }  packet Logon {  }packet	Logon //x
{ repeat // " ++ [128512]%N ++ runes_of_ascii " emoji
uint16 u128
    //
    `a\`,
falsey
@calculatedFrom(""packet"" ) ,
    } 	 ")).
Eval vm_compute in ("<<<M3432>>>" ++ check (runes_of_ascii "packet P1 {
    u8 a,
}
packet P2 {
    P1,
}
packet P3 {
    P2,
    P1,
}
packet P4 {
    repeat P3,
    P2,
}
root packet P5 {
    P4,
    P3,
    P1,
    u8 K,
    match K as Body {
        4 : P4,
        3 : P3,
        2 : P2,
        1 : P1,
    },
}
")).
Eval vm_compute in ("<<<M1120>>>" ++ check (runes_of_ascii "options /// triple
{ }	packet	len
{ int16 trueish // c
`` ,}
    packet //
uint8x { @rightPad (
    '\x00' )
@calculatedFrom(
""x y"")
// " ++ [27880; 37322]%N ++ runes_of_ascii "
//
repeat
    //x
    f32 u , @leftPad( '0'
)	float64 Z9_ @lengthOf(// packet A { u8 x, }
tag
)`it's`
//x
//
, }
")).
Eval vm_compute in ("<<<M739>>>" ++ check (runes_of_ascii "packet rootA {@rightPad (	) f32a	`crlf
line` ,@tag( // c
42 )
len{match _x
    as	packetx {
    007 :BodyLength
    , [ ""\" ++ [233]%N ++ runes_of_ascii """ , ""\n"" ] : Pad, }// c
, MetaDataX `{ , }`
    , int64 Pad`` ,uint32	charz
@calculatedFrom(
    ""1"") ,
    } , } // " ++ [27880; 37322]%N)).
Eval vm_compute in ("<<<M3418>>>" ++ check (runes_of_ascii "packet orderItem // c1
{ // c2
u8 // c3a
  // c3b
a , // c5a
  // c5b
} root
    // c7
packet
    // c8
newOrder // c9a
  // c9b
{ // c10a
  // c10b
orderItem // c11a
  // c11b
,
    // c12
u8
    // c13
x , // c15a
  // c15b
} // c16
")).
Eval vm_compute in ("<<<M4012>>>" ++ check (runes_of_ascii "packet Pad {
    @lengthOf(msg_type)
    match u8x as u {
        10 : msg_type,
        // @lengthOf(
        // c
        255 : roots,
        ""CRC32"" : BodyLength,
        [1, ""a\""b""] : trueish,
    },
    //	t
    //	t
}")).
Eval vm_compute in ("<<<M715>>>" ++ check (runes_of_ascii "packet  calculatedFrom
{ @calculatedFrom(""" ++ [128512]%N ++ runes_of_ascii """ )// @lengthOf(
repeat // 50% %s
zchar[007 ] i8i8, @calculatedFrom( ""// no comment"" // " ++ [128512]%N ++ runes_of_ascii " emoji
) char[] //x
x_y_z ,	} root packet u128
    { i64 int@lengthOf(f32a ) ,  }")).
Eval vm_compute in ("<<<M727>>>" ++ check (runes_of_ascii "packet repeatCount // a // b
{} MetaData packetx
// trailing space 
//	t
{  uint8x
Pad `{ , }` ,x_y_z	tag`{ , }` , uint16 msg_type	, char[] pack , zchar[	255 ]// trailing space 
f32a  `// not a comment`	, }")).
Eval vm_compute in ("<<<M197>>>" ++ check (runes_of_ascii "packet x
    {
    string msg_type ,match roots  as // @lengthOf(
pack { ""\" ++ [233]%N ++ runes_of_ascii """: leftPad ,
    //	t
    0  : u8x 255 : options1
,""x y""
: i8i8// " ++ [27880; 37322]%N ++ runes_of_ascii "
, ""x y"" : len ""`tick`"": metadata ,
    }
    ,}
")).
Eval vm_compute in ("<<<M4202>>>" ++ check (runes_of_ascii "// 50% %s
packet a1 {
    zchar[007] T `it's`,
    @rightPad()
    o repeatCount,
}

packet Logon {
}

packet Logon {
    repeat uint16 u128 `a\`,
    falsey @calculatedFrom(""packet""),
}")).
Eval vm_compute in ("<<<M3532>>>" ++ check (runes_of_ascii "root
    packet	MetaDataX 
{
    } //x
	  MetaData 
        //
    //
    _x  { 

    // `tick` ""quote"" 'q'

  //x
char[]  x

    //x
	  // c
  ,MetaDataX

zchar

    ,
}")).
Eval vm_compute in ("<<<M3895>>>" ++ check (runes_of_ascii "MetaData trueish {
    len packetx `" ++ [28040; 24687; 31867; 22411]%N ++ runes_of_ascii "`,
    lengthOf len,
    zchar[7] T `{ , }`,
    string_ f32a,
    len Z9_ ``,
    f64 options1,
}

options {
    u8x = string;
}")).
Eval vm_compute in ("<<<M951>>>" ++ check (runes_of_ascii "MetaData body {
    // c
    zchar[ 0123456789
] MetaDataX,uint8 As  ,	u8x
Logon
`doc`
    , char[
// c
// " ++ [27880; 37322]%N ++ runes_of_ascii "
0123456789 ] msg_type , zchar[1
    ] x_y_z
    , }")).
Eval vm_compute in ("<<<M4259>>>" ++ check (runes_of_ascii "

  options 	 // packet A { u8 x, }
{	roots

    = 
""{,}""

    asx 
=
    ""a	b""  tag	= '0'  // a // b
  ;
    Packet =
false ;
    zchar

    = 255	} ")).
Eval vm_compute in ("<<<M3411>>>" ++ check (runes_of_ascii "packet A {
    u8 a,
}
packet B {
    u16 b,
}
root packet P {
    u8 K,
    match K as M {
        [1, 2] : A,
        3 : B,
        7 : A,
    },
}
")).
Eval vm_compute in ("<<<M1332>>>" ++ check (runes_of_ascii "// " ++ [27880; 37322]%N ++ runes_of_ascii "
root	packet
packetx {@rightPad (
'0' )
float @calculatedFrom(//
""CRC32"" ) `" ++ [28040; 24687; 31867; 22411]%N ++ runes_of_ascii "` , @calculatedFrom( """" ) repeat	f32 calculatedFrom, } //	t")).
Eval vm_compute in ("<<<M1934>>>" ++ check (runes_of_ascii "
packet @calculatedFrom( {
@leftPad( '0')
u32
i64_ `100% of %d` ,repeat// 50% %s
i8 chars
    ,
} MetaData
    f32a
{ // packet A { u8 x, }
}")).
Eval vm_compute in ("<<<M2067>>>" ++ check (runes_of_ascii "MetaData BodyLength
{ int8 ,
Foo string
    MetaDataX , float zchar ,pack options1
,asx string_, }
packet u8x {Foo@lengthOf(charz )
`" ++ [28040; 24687; 31867; 22411]%N ++ runes_of_ascii "`,  }
")).
Eval vm_compute in ("<<<M1928>>>" ++ check (runes_of_ascii "
packet packet leftPad {
@leftPad( '0')
u32
i64_ `100% of %d` ,repeat// 50% %s
i8 chars
    ,
} MetaData
    f32a
{ // packet A { u8 x, }
}")).
Eval vm_compute in ("<<<M2335>>>" ++ check (runes_of_ascii "options
    {
x_y_z// " ++ [27880; 37322]%N ++ runes_of_ascii "
= 10 ; }
packet body {
    @calculatedFrom(
// trailing space 
// " ++ [27880; 37322]%N ++ runes_of_ascii "
""1""
)	match T as Foo
    '\x01'{
255 :T , }
,}")).
Eval vm_compute in ("<<<M1999>>>" ++ check (runes_of_ascii "
packet leftPad {
@leftPad( '0')
u32
i64_ `100% of %d` ,repeat// 50% %s
i8 chars
    int16
} MetaData
    f32a
{ // packet A { u8 x, }
}")).
Eval vm_compute in ("<<<M2229>>>" ++ check (runes_of_ascii "options
    {
x_y_z// " ++ [27880; 37322]%N ++ runes_of_ascii "
= 10 10 ; }
packet body {
    @calculatedFrom(
// trailing space 
// " ++ [27880; 37322]%N ++ runes_of_ascii "
""1""
)	match T as Foo
    {
255 :T , }
,}")).
Eval vm_compute in ("<<<M2286>>>" ++ check (runes_of_ascii "options
    {
x_y_z// " ++ [27880; 37322]%N ++ runes_of_ascii "
= 10 ; }
packet body {
    @calculatedFrom(
// trailing space 
// " ++ [27880; 37322]%N ++ runes_of_ascii "
""1""
)	match T true Foo
    {
255 :T , }
,}")).
Eval vm_compute in ("<<<M2341>>>" ++ check (runes_of_ascii "options
    {
x_y_z// " ++ [27880; 37322]%N ++ runes_of_ascii "
= 10 ; }
packet body {
    @calculatedFrom(
// trailing space 
// " ++ [27880; 37322]%N ++ runes_of_ascii "
""1""
)	match T as Foo
    {
255 :T <, }
,}")).
Eval vm_compute in ("<<<M2043>>>" ++ check (runes_of_ascii "
packet leftPad {
@leftPad( '0')
u32
" ++ [252]%N ++ runes_of_ascii "ber `100% of %d` ,repeat// 50% %s
i8 chars
    ,
} MetaData
    f32a
{ // packet A { u8 x, }
}")).
Eval vm_compute in ("<<<M3877>>>" ++ check (runes_of_ascii "
packet A{Inner
    { match

k 
as

n{[  1
,
    22 ,
007

    ,

4
, 
5
    , 66 ,
    7 
,	8

    ,	9

]
: 
B, }
	,	} ,

}
")).
Eval vm_compute in ("<<<M2350>>>" ++ check (runes_of_ascii "options
    {
" ++ [252]%N ++ runes_of_ascii "ber// " ++ [27880; 37322]%N ++ runes_of_ascii "
= 10 ; }
packet body {
    @calculatedFrom(
// trailing space 
// " ++ [27880; 37322]%N ++ runes_of_ascii "
""1""
)	match T as Foo
    {
255 :T , }
,}")).
Eval vm_compute in ("<<<M2179>>>" ++ check (runes_of_ascii "MetaData BodyLength
{ int8 Foo
, string
    MetaDataX , float zchar ,pack options1
,asx string_, }
packet u8x {Foo@lengthOf(charz )")).
Eval vm_compute in ("<<<M2174>>>" ++ check (runes_of_ascii "MetaData BodyLength
{ int8 Foo
, string
    MetaDataX , float zchar ,pack options1
,asx string_, }
packet u8x {Foo@lengthOf(charz")).
Eval vm_compute in ("<<<M3372>>>" ++ check (runes_of_ascii "
packet
B{

u8 a

,
	}
root

packet	P { u8	K
, 
u8
L@lengthOf(
	Body
)

,match K 
as
Body
	{
    1 : B ,
    },

    }
")).
Eval vm_compute in ("<<<M2430>>>" ++ check (runes_of_ascii "MetaData
    calculatedFrom
{ zchar[  10 ]
    As`tab	here`,
    }// trailing space 
options  { roots ='\x00' ; } packet A")).
Eval vm_compute in ("<<<M3653>>>" ++ check (runes_of_ascii "packet A {
    Inner {
        u8 x `x
        `,
        Deep {
            u8 y `x
            `,
        },
    },
}")).
Eval vm_compute in ("<<<M1853>>>" ++ check (runes_of_ascii "packet o {
    roots `it's`
// trailing space 
//x
, , char[ 42
    ]  A, // " ++ [27880; 37322]%N ++ runes_of_ascii "
f64
repeatCount
    `crlf
line`
,}")).
Eval vm_compute in ("<<<M3080>>>" ++ check (runes_of_ascii "packet A {
    match k as n {
        ""x\
y"" : B,
        [""x\
y"", 1] : C,
        [1,2,3,4,5,""x\
y""] : D,
    },
}")).
Eval vm_compute in ("<<<M686>>>" ++ check (runes_of_ascii "MetaData trueish {string //
f32a `` ,  char MetaDataX , stringy string_`100% of %d`,zchar[
7 ]
A , } // " ++ [128512]%N ++ runes_of_ascii " emoji")).
Eval vm_compute in ("<<<M4122>>>" ++ check (runes_of_ascii "packet a1

{

@tag(
1 )rootA  @calculatedFrom(

""a	b"" 
)	, // " ++ [128512]%N ++ runes_of_ascii " emoji

  }options

    {

lengthOf =
    i8 }")).
Eval vm_compute in ("<<<M2020>>>" ++ check (runes_of_ascii "
packet leftPad {
@leftPad( '0')
u32
i64_ `100% of %d` ,repeat// 50% %s
i8 chars
    ,
} MetaData
    f32a")).
Eval vm_compute in ("<<<M3390>>>" ++ check (runes_of_ascii "options {
LittleEndian

= true ;}
root

packet	P { u16
a

,u32
Sum 
@calculatedFrom( ""CRC32""
)
,
	}
")).
Eval vm_compute in ("<<<M3007>>>" ++ check (runes_of_ascii "packet A {
  match k as n {
    [1, 22, ""c c"", 4, 5, ""f"", 7, 8, ""i"", 10, 11, ""l""] : B,
    2 : C
  },
}")).
Eval vm_compute in ("<<<M3909>>>" ++ check (runes_of_ascii "MetaData leftPad {
    int8 falsey `line1
    line2`,
}/// triple

options {
    BodyLength = '0';
}")).
Eval vm_compute in ("<<<M2999>>>" ++ check (runes_of_ascii "packet A {
  match k as n {
    [1, 22, 007, 4, 5, 66, 7, 8, 9, 10, 11, 12] : B,
    2 : C
  },
}")).
Eval vm_compute in ("<<<M3416>>>" ++ check (runes_of_ascii "
packet
order_item {
    u8 a,

}root  packet new_order
    { order_item	, u8 x

    ,

}
")).
Eval vm_compute in ("<<<M2982>>>" ++ check (runes_of_ascii "packet A {
  match k as n {
    [1, 22, ""c c"", 4, 5, ""f"", 7, 8, ""i"", 10] : B
    2 : C
  },
}")).
Eval vm_compute in ("<<<M2964>>>" ++ check (runes_of_ascii "packet A {
  match k as n {
    [1, ""bb"", 007, ""d"", 5, ""f"", 7, ""h"", 9] : B,
    2 : C
  },
}")).
Eval vm_compute in ("<<<M1415>>>" ++ check (runes_of_ascii "T
packet
{ match repeatCount as	calculatedFrom
{ [65535 ]	: As	,
} ,}
// trailing space 
")).
Eval vm_compute in ("<<<M658>>>" ++ check (runes_of_ascii "options { Foo
=zchar[ 42 ]	;
uint8x= i32 ;
_x= '\x00' // a // b
metadata=u32 ;// " ++ [27880; 37322]%N ++ runes_of_ascii "
}
")).
Eval vm_compute in ("<<<M2952>>>" ++ check (runes_of_ascii "packet A {
  match k as n {
    [1, ""bb"", 007, ""d"", 5, ""f"", 7, ""h""] : B
    2 : C
  },
}")).
Eval vm_compute in ("<<<M1751>>>" ++ check (runes_of_ascii "options{  lengthOf =//x
i16;
    BodyLength = 0 0 ; pack
= false;
    A = char[ 3 ] }")).
Eval vm_compute in ("<<<M1820>>>" ++ check (runes_of_ascii "options{  lengthOf =//x
i16;
    BodyLength = 0 ; p" ++ [233]%N ++ runes_of_ascii "ack
= false;
    A = char[ 3 ] }")).
Eval vm_compute in ("<<<M1802>>>" ++ check (runes_of_ascii "options{  lengthOf =//x
i16;
    BodyLength = 0 ; pack
= false;
    A = char[ 3 } ]")).
Eval vm_compute in ("<<<M3986>>>" ++ check (runes_of_ascii "packet  u8x 
{
	}MetaData crc
	    // c
      {char[ 4294967296

    ] Foo , }
")).
Eval vm_compute in ("<<<M845>>>" ++ check (runes_of_ascii "// c
packet u
{ @tag(0 ) repeat zchar[3 ]
    /// triple
    MetaDataX
    , }
")).
Eval vm_compute in ("<<<M3243>>>" ++ check (runes_of_ascii "// c
MetaData Foo { zchar[ 0 ] matchKey , } options { lengthOf = i32 u = 00 ; }")).
Eval vm_compute in ("<<<M3276>>>" ++ check (runes_of_ascii "MetaData Foo { zchar[ 0 ] matchKey , } options { lengthOf = i32 u =
// c
00 ; }")).
Eval vm_compute in ("<<<M1720>>>" ++ check (runes_of_ascii "options{   =//x
i16;
    BodyLength = 0 ; pack
= false;
    A = char[ 3 ] }")).
Eval vm_compute in ("<<<M405>>>" ++ check (runes_of_ascii "MetaData packetx{ zchar T ,u128 x
,	} options // `tick` ""quote"" 'q'
{ }")).
Eval vm_compute in ("<<<M1002>>>" ++ check (runes_of_ascii "root // trailing space 
packet leftPad { u64 Z9_ `doc`  ,// 50% %s
}

")).
Eval vm_compute in ("<<<M2850>>>" ++ check (runes_of_ascii "MetaData packet true string `doc` = `" ++ [28040; 24687; 31867; 22411]%N ++ runes_of_ascii "` 0123456789 uint16 char 255")).
Eval vm_compute in ("<<<M2891>>>" ++ check (runes_of_ascii "packet A {
  match k as n {
    [1, 22, ""c c""] : B
    2 : C
  },
}")).
Eval vm_compute in ("<<<M3921>>>" ++ check (runes_of_ascii "// a
MetaData
    M
{  }// b
	// c

  MetaData
N{ }	// d
// e")).
Eval vm_compute in ("<<<M2880>>>" ++ check (runes_of_ascii "packet A {
  match k as n {
    [""a"", 22] : B
    2 : C
  },
}")).
Eval vm_compute in ("<<<M3300>>>" ++ check (runes_of_ascii "packet u8x { } MetaData
// c
crc { char[ 4294967296 ] Foo , }")).
Eval vm_compute in ("<<<M372>>>" ++ check (runes_of_ascii "
root packet
u128 { @tag(
    7
)
    matchKey pack
, }
")).
Eval vm_compute in ("<<<M3708>>>" ++ check (runes_of_ascii "root packet P {
    hdr {
        u8 a,
    },
    u8 x,
}")).
Eval vm_compute in ("<<<M2822>>>" ++ check (runes_of_ascii "@calculatedFrom( ) char[] , [ u64 char , ] u32 [ uint8x")).
Eval vm_compute in ("<<<M2865>>>" ++ check (runes_of_ascii "f32 float32 f32 ] packet true uint64 } uint32 uint16")).
Eval vm_compute in ("<<<M2799>>>" ++ check (runes_of_ascii "float64 char[ char char[ f64 true f32 int32 [ ' '")).
Eval vm_compute in ("<<<M2751>>>" ++ check (runes_of_ascii ": @rightPad = uint32 ""`tick`"" MetaData Logon =")).
Eval vm_compute in ("<<<M2607>>>" ++ check (runes_of_ascii "packet A { repeat B { C { u8 x, }, D d, }, }")).
Eval vm_compute in ("<<<M2744>>>" ++ check (runes_of_ascii "0123456789 00 `it's` i8 false ; 0123456789")).
Eval vm_compute in ("<<<M2427>>>" ++ check (runes_of_ascii "MetaData
    calculatedFrom
{ zchar[  10")).
Eval vm_compute in ("<<<M3230>>>" ++ check (runes_of_ascii "root packet u128 { chars
// c
`doc` , }")).
Eval vm_compute in ("<<<M2361>>>" ++ check (runes_of_ascii "MetaData
Foo { {Header //
pack ,	} 	 ")).
Eval vm_compute in ("<<<M2399>>>" ++ check (runes_of_ascii "Me'taData
Foo {Header //
pack ,	} 	 ")).
Eval vm_compute in ("<<<M2715>>>" ++ check (runes_of_ascii "al'V5L1R/rHm#`x.;N]%kDP7'x;V2o;Dj\f")).
Eval vm_compute in ("<<<M3844>>>" ++ check (runes_of_ascii "options
    {Z9_= ""1""

;

    } ")).
Eval vm_compute in ("<<<M2793>>>" ++ check ([65533]%N ++ runes_of_ascii "8O{" ++ [65533; 65533]%N ++ runes_of_ascii "!" ++ [65533; 19]%N ++ runes_of_ascii "K" ++ [65533; 24]%N ++ runes_of_ascii "0WJ8" ++ [65533; 65533; 65533]%N ++ runes_of_ascii "''" ++ [65533; 65533]%N ++ runes_of_ascii "z2mS[" ++ [453; 65533; 29]%N ++ runes_of_ascii "w")).
Eval vm_compute in ("<<<M3071>>>" ++ check (runes_of_ascii "root packet A {
    u8 x `%`,
}")).
Eval vm_compute in ("<<<M470>>>" ++ check (runes_of_ascii "packet
zchar { i32 x_y_z , }
")).
Eval vm_compute in ("<<<M3012>>>" ++ check (runes_of_ascii "packet A {
    u8 x `a
b`,
}")).
Eval vm_compute in ("<<<M3048>>>" ++ check (runes_of_ascii "packet A {
    u8 x `
x`,
}")).
Eval vm_compute in ("<<<M1535>>>" ++ check (runes_of_ascii "// 50% %s
packet	a1
    {")).
Eval vm_compute in ("<<<M4418>>>" ++ check (runes_of_ascii "  // c" ++ [12288]%N ++ runes_of_ascii "
    packet  A {}")).
Eval vm_compute in ("<<<M4459>>>" ++ check (runes_of_ascii "MetaData
	Z9_
    {
}")).
Eval vm_compute in ("<<<M1734>>>" ++ check (runes_of_ascii "options{  lengthOf =")).
Eval vm_compute in ("<<<M2836>>>" ++ check (runes_of_ascii "6" ++ [65533]%N ++ runes_of_ascii "(" ++ [65533]%N ++ runes_of_ascii "q" ++ [65533]%N ++ runes_of_ascii "E9" ++ [65533; 6; 65533; 65533; 65533]%N ++ runes_of_ascii "%
" ++ [65533]%N ++ runes_of_ascii "<i" ++ [1640]%N)).
Eval vm_compute in ("<<<M3117>>>" ++ check (runes_of_ascii "packet A {
}
// c" ++ [8192]%N)).
Eval vm_compute in ("<<<M1022>>>" ++ check (runes_of_ascii "  packet int { }
")).
Eval vm_compute in ("<<<M3625>>>" ++ check (runes_of_ascii "  packet  A{  }
")).
Eval vm_compute in ("<<<M2792>>>" ++ check (runes_of_ascii "`doc` @rightPad")).
Eval vm_compute in ("<<<M419>>>" ++ check (runes_of_ascii "

// 50% %s
")).
Eval vm_compute in ("<<<M2548>>>" ++ check (runes_of_ascii ":,;=()[]{}")).
Eval vm_compute in ("<<<M2487>>>" ++ check (runes_of_ascii "@leftPad")).
Eval vm_compute in ("<<<M2463>>>" ++ check (runes_of_ascii "option")).
Eval vm_compute in ("<<<M2518>>>" ++ check (runes_of_ascii """a\""""")).
Eval vm_compute in ("<<<M2455>>>" ++ check (runes_of_ascii "true")).
Eval vm_compute in ("<<<M2479>>>" ++ check (runes_of_ascii "' '")).
Eval vm_compute in ("<<<M2483>>>" ++ check (runes_of_ascii "''")).
Eval vm_compute in ("<<<M2686>>>" ++ check (runes_of_ascii "1")).
