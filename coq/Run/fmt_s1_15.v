From FP Require Import Lexer Parser ShowPT Digest Formatter.
From Coq Require Import String List NArith.
Import ListNotations.
Open Scope string_scope.
Set Printing Width 100000000.
Set Printing Depth 100000000.
Definition show_fres (r : fres) : string :=
  match r with
  | FOk s => "OK:" ++ sh_escaped s ""
  | FErr s => "ERR:" ++ sh_escaped s ""
  | FPanic p => "PANIC:" ++ p
  end.
Definition check (rs : list rune) : string := digest (show_fres (format_res rs)).
Definition full (rs : list rune) : string := show_fres (format_res rs).
Eval vm_compute in ("<<<M265>>>" ++ check (runes_of_ascii "MetaData MetaDataX
{
    Foo BodyLength // packet A { u8 x, }
, As T , }options { calculatedFrom = true  ;// " ++ [27880; 37322]%N ++ runes_of_ascii "
Header
= true}
// trailing space 
// c
packet tag {	@leftPad (
    '\x00') @lengthOf( Foo)// a // b
@tag(
    42)string body
    ,
@calculatedFrom(""abc"")
char[ 00
]	len,@calculatedFrom( """ ++ [128512]%N ++ runes_of_ascii """
)	repeat tag ,match msg_type as // @lengthOf(
Header {	65535
//
// @lengthOf(
: roots , ""abc"" //
: string_ , [ 007 , 0
    // `tick` ""quote"" 'q'
    ,	007 ]:
// " ++ [128512]%N ++ runes_of_ascii " emoji
// a // b
zchar 255
    //
    : Packet [ ""packet"" , 0 ,
    ""\" ++ [233]%N ++ runes_of_ascii """ , ""x y"" , 65535 , """ ++ [233]%N ++ runes_of_ascii "t" ++ [233]%N ++ runes_of_ascii """ , 0123456789
,
7]
: //
matchKey} ,repeat
int64
metadata`
`
,
i64_
`` //
, char[42 ] MetaDataX
// `tick` ""quote"" 'q'
// c
@calculatedFrom( ""CRC32"" ) , zchar[ 255 ]
    //
    roots	@lengthOf(
    options1
    ) `two words` , msg_type @calculatedFrom(
    //x
    ""\n""  ) ,
    u len , } packet x {
} packet falsey
{  @calculatedFrom(
""a	b""
)
    int64 falsey
    `{ , }`,
    repeat f64 crc// trailing space 
,
    @tag(	255) uint32 // a // b
chars `" ++ [28040; 24687; 31867; 22411]%N ++ runes_of_ascii "` , @leftPad ( '\x00'	)@lengthOf( falsey )
@calculatedFrom(	""a	b"" )  stringy { zchar[ // " ++ [27880; 37322]%N ++ runes_of_ascii "
7	] Pad `line1
line2` , string
    pack,
    // @lengthOf(
    float64 string_ ,	},	repeat rootA{	match Logon as
    /// triple
    o // " ++ [27880; 37322]%N ++ runes_of_ascii "
{ 007 //x
:leftPad
    , 0	: T , ""CRC32"" :
T
[ ""a	b"" ]: Logon , } ,
    match // @lengthOf(
x_y_z as
_x
{ 10
:
metadata , """ ++ [233]%N ++ runes_of_ascii "t" ++ [233]%N ++ runes_of_ascii """
    : string_,  } ,} ,
// c
/// triple
o{ options1
    @calculatedFrom("""" ) ,	repeat i32
body, } , @tag(1 /// triple
) match packetx// " ++ [27880; 37322]%N ++ runes_of_ascii "
as rootA
{
""" ++ [128512]%N ++ runes_of_ascii """:
// `tick` ""quote"" 'q'
//x
zchar  ,
    7 :
    zchar  ,
[ 0 , 42,
""a\\"" , 0123456789	, ""it's""
,3 //	t
,
""abc""	, 0123456789	]: lengthOf,
// " ++ [27880; 37322]%N ++ runes_of_ascii "
//x
0
// trailing space 
// " ++ [27880; 37322]%N ++ runes_of_ascii "
: _x, ""1"":
    Header , }
    , @rightPad
    // c
    ( ) repeat pack {
match MetaDataX
    as o { ""a\""b"" : Pad
[ ""a\""b"" ]:A , 1
: rootA  , }
    , match	calculatedFrom as T/// triple
{ 65535  : stringy , // " ++ [27880; 37322]%N ++ runes_of_ascii "
65535 :  Packet ,
    [
007 , ""CRC32""
    , 00 , 3 ,
    65535
,	""x y"" ,65535 ]: matchKey/// triple
, 007
: rootA
,// @lengthOf(
}, },char[] u128
,// a // b
}")).
Eval vm_compute in ("<<<M159>>>" ++ check (runes_of_ascii "MetaData MetaDataX
    { i8i8 roots
,	zchar[	65535
    ]rootA
`// not a comment`, // a // b
x_y_z  leftPad
    //x
    `u8 x,`, char[] stringy
// c
//x
`it's` ,
} // packet A { u8 x, }
packet
    Foo {
string	lengthOf , i32 packetx@lengthOf( asx ) `{ , }`
    ,
repeat falsey`two words`, char[] roots@calculatedFrom(""" ++ [28040; 24687]%N ++ runes_of_ascii """ // " ++ [128512]%N ++ runes_of_ascii " emoji
), //
leftPad// @lengthOf(
@calculatedFrom( """ ++ [28040; 24687]%N ++ runes_of_ascii """ )`" ++ [233]%N ++ runes_of_ascii "` ,
    @tag( 42
)
zchar[
65535 ]
    As @lengthOf( a1
)
`doc`
, } root packet charz{
    @tag(
    4294967296
) string options1
    `tab	here`
    // @lengthOf(
    , }packet leftPad	{ } packet metadata { //	t
i32	BodyLength
    @calculatedFrom(
    ""it's"" ) `say ""hi""`,
@rightPad //
(	)
    // " ++ [128512]%N ++ runes_of_ascii " emoji
    chars//x
{
repeat
    falsey	{ uint64 tag @lengthOf(
len )
, char[ 42]packetx @calculatedFrom(
//x
// a // b
""abc"" )
, } , Header { zchar[ 00 //x
] charz
@calculatedFrom( ""x y"" ) // trailing space 
, uint8 calculatedFrom @calculatedFrom( ""\n"" // c
) , trueish `" ++ [28040; 24687; 31867; 22411]%N ++ runes_of_ascii "` , string_ // @lengthOf(
@calculatedFrom( ""// no comment"" ) // c
`it's` ,} , string crc ,
}  , // " ++ [128512]%N ++ runes_of_ascii " emoji
@calculatedFrom( ""1"" )
    @calculatedFrom(	""" ++ [28040; 24687]%N ++ runes_of_ascii """
    // " ++ [27880; 37322]%N ++ runes_of_ascii "
    ) @tag(7
// trailing space 
//
) i8
Foo
// @lengthOf(
// a // b
, i8 a1
//
//x
@calculatedFrom( ""{,}"" ) ``
, repeat falsey	{
o // c
@calculatedFrom( ""abc"" ) `
`  , zchar[42 ] matchKey , }	, i64 As ,
//	t
// `tick` ""quote"" 'q'
repeat As  , repeat
    int64 string_
, }
//	t
")).
Eval vm_compute in ("<<<M133>>>" ++ check (runes_of_ascii "root packet x_y_z { match Z9_ as  u{ 255:pack , 255 : u128
, 007 : float ""\n"" :options1 , [	""" ++ [28040; 24687]%N ++ runes_of_ascii """ , 1 ]
: Z9_""" ++ [28040; 24687]%N ++ runes_of_ascii """:	chars
, }, u8 _x @calculatedFrom(
    // a // b
    """ ++ [28040; 24687]%N ++ runes_of_ascii """ )`say ""hi""` ,@tag( 3 ) match a1 as msg_type { [ ""\n"" // a // b
, 255//x
, 0 ] :crc	,} , }
root packet o
{  match tag as _x
    { 007 :
    x ,	10 :charz,
""{,}""
:body	,""" ++ [233]%N ++ runes_of_ascii "t" ++ [233]%N ++ runes_of_ascii """ : len
""" ++ [128512]%N ++ runes_of_ascii """
    :
    u , }
    ,
    u64 u @calculatedFrom( ""x y""
// c
// " ++ [27880; 37322]%N ++ runes_of_ascii "
)
`it's`, @lengthOf( trueish ) repeat // packet A { u8 x, }
uint8 u8x
`" ++ [28040; 24687; 31867; 22411]%N ++ runes_of_ascii "` // a // b
, @calculatedFrom(	""\n"" )
    @rightPad() @leftPad (
    '\x00')
    repeat uint32 float, @lengthOf(	A )
    @tag(//	t
0123456789 ) @rightPad ( ' '
    ) zchar[ 10	]
    // " ++ [128512]%N ++ runes_of_ascii " emoji
    o// packet A { u8 x, }
,
    uint8x
    @calculatedFrom( ""a\\"" // " ++ [27880; 37322]%N ++ runes_of_ascii "
) `
`
,body
, repeat //	t
char[10 ]
    string_ `tab	here`
    , } root packet
    roots {  } packet u {@calculatedFrom(	""" ++ [128512]%N ++ runes_of_ascii """ )	f64 Logon// `tick` ""quote"" 'q'
@calculatedFrom( ""1""
)
    `a\` ,  int16 trueish `line1
line2`
,//
zchar[  0123456789 ]
    // a // b
    BodyLength `two words`, float32 i8i8 @lengthOf( metadata ) `// not a comment`
, i32 leftPad,	}

")).
Eval vm_compute in ("<<<M1532>>>" ++ check (runes_of_ascii "  options
{ LittleEndian
= true ;
    StringPrefixLenType

    =
u16	;
    ArrayPrefixLenType=

    u8 ;
    FixedStringPadChar
    =  '0'; }

packet Logout
	{repeat i16 f1

    ,
string
	Ref , @rightPad (	'\x00' 
)
    char[ 9	] 
Tail 
,  repeat
char[	6 
] Flags ,
repeat
    char[  3 ] Acct

    ,
} packet
Party {
char[ 2  ]

f1
    ,
u8 Side2 ,
    @leftPad 
( 
' '

) char[

    1 
]venue ,
} packet Order
{
    repeat
    i64

Ref
    , 
InPx62 { i32 
OrderId

, }

    ,	InNote53
    { InClordid80	{
char[] 
Acct  ,
	u32
	Px
,

    repeat  Party , }	,

InPrice12{
u8
pad0
, 
}, repeat
Logout	,  InFlags23 {

repeat
	string  seqNo

, string sym
,
    int8 
Flags,

zchar[
5
    ]lastPx,
	zchar[ 6

    ]

Px
,
}  , 
char[10
    ] 
Acct,	InPx18 
{ zchar[2

]

    count
    ,	Party
	,  }

    ,}  , char[5
]

Side2  ,char[
	1

]Acct

,}
root

    packet

Ack{

u32 Tail  ,repeat

char[ 4
]
    msgKind
, repeat	Logout ,	}

")).
Eval vm_compute in ("<<<M1933>>>" ++ check (runes_of_ascii "options{  LittleEndian= 
false	; StringPrefixLenType=

    u8 ;  ArrayPrefixLenType =	u8  ;FixedStringPadFromLeft= true;

    FixedStringPadChar
    =	' '  ; }

packet

    Trade 
{
	zchar[ 2 ] Side2,

    i8 seqNo

    ,	}

    packet	Party 
{ uint32

price

,
	}

packet
Ack
	{
@rightPad
    ( '\x00'

) char[6 
]
x 
,  repeat
char[

4  ]

    Flags
,zchar[
9 ]
f1

    , }
    packet Cancel
	{
Ack
	,
}packet  Heartbeat 
{
    string
    Px
    ,

    string  Acct ,
f64

Side2

,

InQty24
	{  i16 
seqNo  ,
repeat  i32 Flags
	, } ,  }  root
    packet Logon
	{
Trade  , 
i64 venue  ,  u32
    x 
,
	u8 
seqNo	,match seqNo

as

    Body{
    [ 1
    ,
164

]
	:	Ack

, 
31
	:
Cancel , 23	:

    Heartbeat 
,

    64 :
    Party	, }

    ,	} ")).
Eval vm_compute in ("<<<M88>>>" ++ check (runes_of_ascii "// trailing space 
packet tag {
    @rightPad
    // @lengthOf(
    ( '0' )
    u128 ,
@lengthOf(MetaDataX
    )
    // c
    leftPad, // packet A { u8 x, }
@tag( 1
    )calculatedFrom
    @lengthOf( Logon )  , }
packet string_	{ } packet u128 {char[	0 // packet A { u8 x, }
]
chars `say ""hi""`
,
int , @leftPad ( '0'
// @lengthOf(
//x
)T { repeat zchar[ 255]
int
,zchar  stringy	, }
    ,repeat zchar{ match leftPad as packetx
{ [
""`tick`""
    ] :
    lengthOf //x
,  [  7,""" ++ [128512]%N ++ runes_of_ascii """
    ,
00 , ""x y"" , ""packet"" ] :
    stringy // @lengthOf(
, [
42 ,""\n""
, ""it's"" ,// " ++ [128512]%N ++ runes_of_ascii " emoji
65535, 1	]
: msg_type ""packet"" :	a1 ,} , u16 int
,
repeat x_y_z float,
repeat//x
u64 A `a\` ,
} , }
")).
Eval vm_compute in ("<<<M1894>>>" ++ check (runes_of_ascii "

  root

    packet pack
{@calculatedFrom( ""`tick`""
)@calculatedFrom( 
// " ++ [128512]%N ++ runes_of_ascii " emoji
	""\n""

) @tag( 0123456789
)  match
zchar as
    string_  {[

""packet""

    ]//

  :

i8i8
    , [	0123456789	,7 
]	:

string_, 
    //x
    // `tick` ""quote"" 'q'
0

:
	options1 , 
""\" ++ [233]%N ++ runes_of_ascii """	:	// `tick` ""quote"" 'q'
  Foo
,

}

,@lengthOf(
    calculatedFrom
	)  Foo	@lengthOf(

    x
)  `crlf
line`, lengthOf
@lengthOf(
int 
),T

    ,
	@lengthOf(

    rootA)
    zchar[
007
	]
    // " ++ [128512]%N ++ runes_of_ascii " emoji
// packet A { u8 x, }
	x `crlf
line`

    , @calculatedFrom( ""\n""
)repeat
f64
chars  ,matchKey
_x
    , } ")).
Eval vm_compute in ("<<<M1562>>>" ++ check (runes_of_ascii "options	{LittleEndian  =

    false;

ArrayPrefixLenType

=u64	;FixedStringPadChar =
    '0'

;

    }packet
	Quote

    {repeat 
InFlags37 
{
char[]
	lastPx, 
}, i16
    tag7, char[] 
f1
,
zchar[	6
	]Note	,} packet
Order	{
u8
Ref,
repeat

    Quote , repeat
string 
Acct,	}	root
	packet Heartbeat {  repeat

Quote ,
    @leftPad (
'0'

    )
char[  11 ]
OrderId ,

zchar[	8
]Ref
, u32 Flags,u32 Tail
	@lengthOf( Body
	)	,

match Flags
as  Body
	{
156
: Order, 
7

    :
Quote  ,	}

    ,}
")).
Eval vm_compute in ("<<<M2042>>>" ++ check (runes_of_ascii "packet T {
    @lengthOf(MetaDataX)
    match Packet as a1 {
        [""1""] : zchar,
        ""{,}"" : _x,
    },// @lengthOf(
    char[007] u128 @lengthOf(zchar),
    string_,
    @leftPad(' ')
    match MetaDataX as u128 {
        [""it's"", 7, 65535, 65535] : chars,
        """ ++ [28040; 24687]%N ++ runes_of_ascii """ : u,
        42 : zchar,
    },
}

options {
    matchKey = ""a\""b""
}

MetaData options1 {
    i16 len,
    char[7] crc,
    u16 asx `say ""hi""`,
    i64 zchar,
}// " ++ [27880; 37322]%N)).
Eval vm_compute in ("<<<M1687>>>" ++ check (runes_of_ascii "options {
    o = ' ';
    lengthOf = ""it's""
    string_ = """ ++ [28040; 24687]%N ++ runes_of_ascii """;
    i8i8 = uint32
}

packet Logon {
    Pad @lengthOf(stringy),
    @rightPad('\x00')
    Header stringy `a\`,
    T {
        match a1 as Logon {
            42 : chars,
        },
    },
    stringy {
        zchar[7] x_y_z,
    },
    uint8x BodyLength,
    repeat zchar,
    @tag(7)
    repeat u64 u128 `" ++ [28040; 24687; 31867; 22411]%N ++ runes_of_ascii "`,
}")).
Eval vm_compute in ("<<<M199>>>" ++ check (runes_of_ascii "
root packet
    tag { f64
len ,
char[
    4294967296 ] A@calculatedFrom( """"  )`it's`, @tag( 65535
    )
match charz// a // b
as tag	{
    [ ""// no comment"" , """ ++ [128512]%N ++ runes_of_ascii """ ]:
zchar	,
    ""\n"":falsey  , },} packet float {f32a { repeat  packetx{
    //x
    char[ 255 ] int `it's`  ,} , uint32 x_y_z @lengthOf( pack ) // " ++ [27880; 37322]%N ++ runes_of_ascii "
,}, } // `tick` ""quote"" 'q'")).
Eval vm_compute in ("<<<M4>>>" ++ check (runes_of_ascii "root packet pack  { match Pad as// a // b
f32a
    {	[
/// triple
//	t
"""" ]: leftPad
, [""" ++ [233]%N ++ runes_of_ascii "t" ++ [233]%N ++ runes_of_ascii """,007 ] : //	t
f32a //x
, 65535 :  body
    ,
    // @lengthOf(
    10:u128,42	: // trailing space 
pack, } ,}options{// " ++ [27880; 37322]%N ++ runes_of_ascii "
o=
    // c
    f64 ; x_y_z //
= /// triple
u32 len =
    42;
falsey
    = true	;}")).
Eval vm_compute in ("<<<M219>>>" ++ check (runes_of_ascii "MetaData _x
{As	f32a `doc` // " ++ [128512]%N ++ runes_of_ascii " emoji
, }
packet// @lengthOf(
x {	zchar[  255
    ]	calculatedFrom  ,string_@calculatedFrom( ""a	b"" ) , @calculatedFrom(""" ++ [128512]%N ++ runes_of_ascii """)@tag(
4294967296 )@calculatedFrom(""a	b""
) char[ 0 ]i64_
`" ++ [28040; 24687; 31867; 22411]%N ++ runes_of_ascii "` ,
    @leftPad(' '  ) repeat
// c
// c
MetaDataX
    ,}")).
Eval vm_compute in ("<<<M650>>>" ++ check (runes_of_ascii "root packet tag { }  packet MetaDataX{char[007	]
// c
/// triple
asx  @calculatedFrom( ""a\""b""
) `say ""hi""`// " ++ [27880; 37322]%N ++ runes_of_ascii "
,  @tag(4294967296 )
    char[1//x
] packetx @calculatedFrom(""a\""b""
    ) ,
// " ++ [128512]%N ++ runes_of_ascii " emoji
// a // b
@calculatedFrom(""" ++ [233]%N ++ runes_of_ascii "t" ++ [233]%N ++ runes_of_ascii """  ) repeat pack // " ++ [27880; 37322]%N ++ runes_of_ascii "
,
    uint8 // c")).
Eval vm_compute in ("<<<M510>>>" ++ check (runes_of_ascii "root packet tag { }  packet {MetaDataX char[007	]
// c
/// triple
asx  @calculatedFrom( ""a\""b""
) `say ""hi""`// " ++ [27880; 37322]%N ++ runes_of_ascii "
,  @tag(4294967296 )
    char[1//x
] packetx @calculatedFrom(""a\""b""
    ) ,
// " ++ [128512]%N ++ runes_of_ascii " emoji
// a // b
@calculatedFrom(""" ++ [233]%N ++ runes_of_ascii "t" ++ [233]%N ++ runes_of_ascii """  ) repeat pack // " ++ [27880; 37322]%N ++ runes_of_ascii "
,
    } // c")).
Eval vm_compute in ("<<<M550>>>" ++ check (runes_of_ascii "root packet tag { }  packet MetaDataX{char[007	]
// c
/// triple
asx  @calculatedFrom( ""a\""b""
`say ""hi""` )// " ++ [27880; 37322]%N ++ runes_of_ascii "
,  @tag(4294967296 )
    char[1//x
] packetx @calculatedFrom(""a\""b""
    ) ,
// " ++ [128512]%N ++ runes_of_ascii " emoji
// a // b
@calculatedFrom(""" ++ [233]%N ++ runes_of_ascii "t" ++ [233]%N ++ runes_of_ascii """  ) repeat pack // " ++ [27880; 37322]%N ++ runes_of_ascii "
,
    } // c")).
Eval vm_compute in ("<<<M628>>>" ++ check (runes_of_ascii "root packet tag { }  packet MetaDataX{char[007	]
// c
/// triple
asx  @calculatedFrom( ""a\""b""
) `say ""hi""`// " ++ [27880; 37322]%N ++ runes_of_ascii "
,  @tag(4294967296 )
    char[1//x
] packetx @calculatedFrom(""a\""b""
    ) ,
// " ++ [128512]%N ++ runes_of_ascii " emoji
// a // b
@calculatedFrom(""" ++ [233]%N ++ runes_of_ascii "t" ++ [233]%N ++ runes_of_ascii """   repeat pack // " ++ [27880; 37322]%N ++ runes_of_ascii "
,
    } // c")).
Eval vm_compute in ("<<<M483>>>" ++ check (runes_of_ascii "root  tag { }  packet MetaDataX{char[007	]
// c
/// triple
asx  @calculatedFrom( ""a\""b""
) `say ""hi""`// " ++ [27880; 37322]%N ++ runes_of_ascii "
,  @tag(4294967296 )
    char[1//x
] packetx @calculatedFrom(""a\""b""
    ) ,
// " ++ [128512]%N ++ runes_of_ascii " emoji
// a // b
@calculatedFrom(""" ++ [233]%N ++ runes_of_ascii "t" ++ [233]%N ++ runes_of_ascii """  ) repeat pack // " ++ [27880; 37322]%N ++ runes_of_ascii "
,
    } // c")).
Eval vm_compute in ("<<<M1301>>>" ++ check (runes_of_ascii "// top
MetaData
    // c0
body
    // c1
{
    // c2
i64
    // c3
pack
    // c4
`it's`
    // c5
,
    // c6
}
    // c7
packet
    // c8
stringy
    // c9
{
    // c10
int16
    // c11
calculatedFrom
    // c12
,
    // c13
}
    // c14
")).
Eval vm_compute in ("<<<M1736>>>" ++ check (runes_of_ascii "  options

    {MetaDataX
	=
    ""\n"" 
/// triple
  stringy

=
4294967296
;
    Packet
	=
    false
;
	As
= ""a\\""/// triple

	;stringy= ' '

    ; }
	options {
	}MetaData

roots

{
    stringy
MetaDataX

,
} ")).
Eval vm_compute in ("<<<M1451>>>" ++ check (runes_of_ascii "// top
root // c0
packet
    // c1
P // c2a
  // c2b
{ // c3a
  // c3b
hdr { // c5a
  // c5b
u8 // c6a
  // c6b
a ,
    // c8
} // c9a
  // c9b
, u8 // c11a
  // c11b
x
    // c12
,
    // c13
} ")).
Eval vm_compute in ("<<<M612>>>" ++ check (runes_of_ascii "root packet tag { }  packet MetaDataX{char[007	]
// c
/// triple
asx  @calculatedFrom( ""a\""b""
) `say ""hi""`// " ++ [27880; 37322]%N ++ runes_of_ascii "
,  @tag(4294967296 )
    char[1//x
] packetx @calculatedFrom(""a\""b""")).
Eval vm_compute in ("<<<M189>>>" ++ check (runes_of_ascii "MetaData  msg_type	{ Packet
// @lengthOf(
// trailing space 
int , char[3 ] Foo`// not a comment`
    // `tick` ""quote"" 'q'
    ,
zchar[ 7
    ]
uint8x,
leftPad crc `
`, }")).
Eval vm_compute in ("<<<M475>>>" ++ check (runes_of_ascii "packet
    $// `tick` ""quote"" 'q'
    crc
// packet A { u8 x, }
//	t
{
u32 a1 ,
    // trailing space 
    roots
charz //
`two words`,	}
    MetaData int {
} /// triple")).
Eval vm_compute in ("<<<M699>>>" ++ check (runes_of_ascii "root packet len // trailing space 
{
// " ++ [27880; 37322]%N ++ runes_of_ascii "
//	t
char[10
] metadata	@lengthOf( o ) `crlf
line`,
    @rightPad
( ' '
) string
    @calculatedFrom( Header ""a\\""
    ), }
")).
Eval vm_compute in ("<<<M399>>>" ++ check (runes_of_ascii "packet
    // `tick` ""quote"" 'q'
    crc
// packet A { u8 x, }
//	t
{
 a1 ,
    // trailing space 
    roots
charz //
`two words`,	}
    MetaData int {
} /// triple")).
Eval vm_compute in ("<<<M719>>>" ++ check (runes_of_ascii "root packet len // trailing space 
{
// " ++ [27880; 37322]%N ++ runes_of_ascii "
//	t
char[10
] metadata	@lengthOf( o ) `crlf
line`,
    
( ' '
) string
    Header @calculatedFrom( ""a\\""
    ), }
")).
Eval vm_compute in ("<<<M1971>>>" ++ check (runes_of_ascii "packet A {
    match k as n {
        [
            ""a"", ""bb"", ""c c"", ""d"", ""e"",
            ""f"", ""g"", ""h"", ""i""
        ] : B,
        2 : C,
    },
}")).
Eval vm_compute in ("<<<M1774>>>" ++ check (runes_of_ascii "packet A {
    match k as n {
        [
            ""a"", ""bb"", ""c c"", ""d"", ""e"",
            ""f"", ""g""
        ] : B,
        2 : C,
    },
}")).
Eval vm_compute in ("<<<M577>>>" ++ check (runes_of_ascii "root packet tag { }  packet MetaDataX{char[007	]
// c
/// triple
asx  @calculatedFrom( ""a\""b""
) `say ""hi""`// " ++ [27880; 37322]%N ++ runes_of_ascii "
,  @tag(4294967296")).
Eval vm_compute in ("<<<M1270>>>" ++ check (runes_of_ascii "root packet matchKey { zchar[ 3 ] pack @calculatedFrom( ""a	b"" ) `doc` , } options { } MetaData A { int8 msg_type , }
// c
")).
Eval vm_compute in ("<<<M1249>>>" ++ check (runes_of_ascii "root packet matchKey { zchar[ 3 ] pack @calculatedFrom( ""a	b"" ) `doc` , } // c
options { } MetaData A { int8 msg_type , }")).
Eval vm_compute in ("<<<M1464>>>" ++ check (runes_of_ascii "

  packet B

{

u8
    a
    , string
s	,
}

root  packet P

{
	u16 
L
@lengthOf(B ) ,	B,

    u8
    t
    ,
}
")).
Eval vm_compute in ("<<<M1851>>>" ++ check (runes_of_ascii "packet A {
    u16 len @lengthOf(body) `
    `,
    u32 crc @calculatedFrom(""CRC32"") `
    `,
    string body,
}")).
Eval vm_compute in ("<<<M1830>>>" ++ check (runes_of_ascii "  packet metadata  
      // c
  	{ 
Logon
{A `" ++ [28040; 24687; 31867; 22411]%N ++ runes_of_ascii "` ,  tag o ,
    } 
, zchar  len`// not a comment` ,  }

")).
Eval vm_compute in ("<<<M926>>>" ++ check (runes_of_ascii "packet A {
    u16 len @lengthOf(body) `
`,
    u32 crc @calculatedFrom(""CRC32"") `
`,
    string body,
}")).
Eval vm_compute in ("<<<M1760>>>" ++ check (runes_of_ascii "
packet metadata	{ 
Logon // c
	{ A 
`" ++ [28040; 24687; 31867; 22411]%N ++ runes_of_ascii "`, tag  o, } ,zchar len
`// not a comment`
,

    }
")).
Eval vm_compute in ("<<<M102>>>" ++ check (runes_of_ascii "
options {
a1/// triple
=""1""
;
trueish	=  i64 ; stringy=""" ++ [128512]%N ++ runes_of_ascii """
; u8x
= 255 ;
u128
=
""`tick`""; }

")).
Eval vm_compute in ("<<<M1594>>>" ++ check (runes_of_ascii "packet chars {
}

packet MetaDataX {
    @tag(42)
    i16 string_,
    repeat x `say ""hi""`,
}")).
Eval vm_compute in ("<<<M854>>>" ++ check (runes_of_ascii "packet A {
  match k as n {
    [""a"", 22, ""c c"", 4, ""e"", 66, ""g"", 8] : B
    2 : C
  },
}")).
Eval vm_compute in ("<<<M1208>>>" ++ check (runes_of_ascii "MetaData float { float64 charz `
` , } root packet chars { @rightPad ( '0' // c
) Foo , }")).
Eval vm_compute in ("<<<M1419>>>" ++ check (runes_of_ascii "packet chars { } packet MetaDataX { @tag( 42 ) i16 string_
// c
, repeat x `say ""hi""` , }")).
Eval vm_compute in ("<<<M2018>>>" ++ check (runes_of_ascii "packet Foo {
    //x
    uint8x,
    match len as options1 {
        3 : i64_,
    },
}")).
Eval vm_compute in ("<<<M1149>>>" ++ check (runes_of_ascii "packet metadata { Logon { A `" ++ [28040; 24687; 31867; 22411]%N ++ runes_of_ascii "` , tag o , } ,
// c
zchar len `// not a comment` , }")).
Eval vm_compute in ("<<<M1354>>>" ++ check (runes_of_ascii "packet o { repeat Logon uint8x , } // c
options { asx = zchar[ 3 ] stringy = '\x00' }")).
Eval vm_compute in ("<<<M1600>>>" ++ check (runes_of_ascii "MetaData body {
    i64 pack `it's`,
}

packet stringy {
    int16 calculatedFrom,
}")).
Eval vm_compute in ("<<<M1315>>>" ++ check (runes_of_ascii "MetaData body { i64 pack `it's` // c
, } packet stringy { int16 calculatedFrom , }")).
Eval vm_compute in ("<<<M1891>>>" ++ check (runes_of_ascii "

  packet	A	{Inner { 
u8
    x
`a
b`  ,	Deep
	{u8 
y
`a
b` , } ,

    } ,
} ")).
Eval vm_compute in ("<<<M898>>>" ++ check (runes_of_ascii "packet A { Inner { match k as n { [1,22,007,4,5,66,7,8,9,10,11] : B, }, }, }")).
Eval vm_compute in ("<<<M1611>>>" ++ check (runes_of_ascii "
packet 
A

{
match
k as 
n {[
1 
,
""bb""]	:

B

2	:	C} ,

    }

")).
Eval vm_compute in ("<<<M1715>>>" ++ check (runes_of_ascii "

  packet
	A 
{B
	b
    `a
b`, B

`a
b`,

repeat

B
	bs`a
b` ,
}
")).
Eval vm_compute in ("<<<M778>>>" ++ check (runes_of_ascii "packet A {
  match k as n {
    [1, ""bb""] : B
    2 : C
  },
}")).
Eval vm_compute in ("<<<M1274>>>" ++ check (runes_of_ascii "// c
packet x { @rightPad ( ) repeat roots Logon `doc` , }")).
Eval vm_compute in ("<<<M1775>>>" ++ check (runes_of_ascii "
MetaData
trueish{
u64 	 // trailing space 
  	i8i8 ,}

")).
Eval vm_compute in ("<<<M288>>>" ++ check (runes_of_ascii "options { leftPad //	t
= //	t
""" ++ [28040; 24687]%N ++ runes_of_ascii """ } // " ++ [128512]%N ++ runes_of_ascii " emoji")).
Eval vm_compute in ("<<<M1779>>>" ++ check (runes_of_ascii "MetaData
M{	} // c
    MetaData N {
	}  // d")).
Eval vm_compute in ("<<<M1103>>>" ++ check (runes_of_ascii "root packet
// c
u128 { chars `it's` , }")).
Eval vm_compute in ("<<<M2035>>>" ++ check (runes_of_ascii "
//	t
  packet
Packet{
u64 tag, 
}
")).
Eval vm_compute in ("<<<M1058>>>" ++ check (runes_of_ascii "packet A {
 u8 x `d x`, // c x
}")).
Eval vm_compute in ("<<<M1053>>>" ++ check (runes_of_ascii "packet A {
 u8 x `d" ++ [6158]%N ++ runes_of_ascii "`, // c" ++ [6158]%N ++ runes_of_ascii "
}")).
Eval vm_compute in ("<<<M1174>>>" ++ check (runes_of_ascii "root packet pack { }
// c
")).
Eval vm_compute in ("<<<M1652>>>" ++ check (runes_of_ascii "packet BodyLength {
}")).
Eval vm_compute in ("<<<M982>>>" ++ check (runes_of_ascii "// c" ++ [160]%N ++ runes_of_ascii "
packet A {
}")).
Eval vm_compute in ("<<<M194>>>" ++ check (runes_of_ascii "root
packet u{}
")).
Eval vm_compute in ("<<<M756>>>" ++ check ([65533]%N ++ runes_of_ascii "d" ++ [65533]%N ++ runes_of_ascii "L" ++ [65533; 22; 65533; 65533; 65533; 65533; 4]%N ++ runes_of_ascii "5" ++ [65533; 65533]%N)).
Eval vm_compute in ("<<<M733>>>" ++ check (runes_of_ascii "znmfa")).
Eval vm_compute in ("<<<M458>>>" ++ check (runes_of_ascii "p")).
