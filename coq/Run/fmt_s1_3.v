From FP Require Import Lexer Parser ShowPT Digest Formatter.
From Coq Require Import String List NArith.
Import ListNotations.
Open Scope string_scope.
Set Printing Width 100000000.
Set Printing Depth 100000000.
Definition show_fres (r : fres) : string :=
  match r with
  | FOk s => "OK:" ++ sh_escaped s ""
  | FErr s => "ERR:" ++ sh_escaped s ""
  | FPanic p => "PANIC:" ++ p
  end.
Definition check (rs : list rune) : string := digest (show_fres (format_res rs)).
Definition full (rs : list rune) : string := show_fres (format_res rs).
Eval vm_compute in ("<<<M273>>>" ++ check (runes_of_ascii "packet len
{  @calculatedFrom( ""`tick`"" )	repeat zchar[ 00
    ]chars //	t
`a\`
    ,
u8x
// trailing space 
// a // b
MetaDataX `line1
line2`
    // c
    ,@calculatedFrom( ""a\""b"" ) match
    matchKey as asx {
    [ ""CRC32"" , ""a\""b""
]// " ++ [27880; 37322]%N ++ runes_of_ascii "
:
msg_type
    ,
    }
, i8 string_ @calculatedFrom( ""{,}"" )
    ,@lengthOf(
lengthOf
    //
    ) zchar[42 ]
    _x
// packet A { u8 x, }
/// triple
`line1
line2` ,
    @lengthOf( asx) repeat// `tick` ""quote"" 'q'
int8 Header , repeat crc {
int8 i64_//x
@calculatedFrom( ""{,}"" ) , } ,repeat _x i8i8 `line1
line2` , float64// trailing space 
stringy , MetaDataX { charz
    { int16 matchKey, repeat
    i64_,
    char[ 00] Z9_ `
` ,
    match As
    //x
    as Packet { 3 : crc , [
//	t
// @lengthOf(
1 ,
00
]: Header // " ++ [27880; 37322]%N ++ runes_of_ascii "
,	255 :_x , 42 : body
,	[0	] : chars
    [ 4294967296
, 65535 ] :chars , }
/// triple
// @lengthOf(
,  }
// trailing space 
// @lengthOf(
, } , } MetaData falsey {
char[
255
] u128 , u8 Header`tab	here`
,
string float ,} root packet int { Logon i64_  ,
    @calculatedFrom(
""1""
) zchar { u {
    zchar[
255 ] Pad , } , stringy {
    Pad metadata `u8 x,` ,
}	, repeat	string i8i8, char[]
    As@calculatedFrom(
""\n"" ) ,}
    // " ++ [27880; 37322]%N ++ runes_of_ascii "
    , @lengthOf( packetx // a // b
) @lengthOf(
    i64_ ) body `line1
line2`,@lengthOf(roots)match
// `tick` ""quote"" 'q'
// trailing space 
MetaDataX as uint8x { // `tick` ""quote"" 'q'
[	007
/// triple
// " ++ [27880; 37322]%N ++ runes_of_ascii "
, //x
255
    ,
00]
    :	body// c
, [ 65535 , ""1"",// `tick` ""quote"" 'q'
1  ,
""\n""//	t
, 1	,
    ""CRC32""
    ,
    //	t
    0
    ] :trueish
,
} , uint64 Foo
, zchar {metadata
@lengthOf(Pad)//	t
`crlf
line` ,
    match u as charz { 65535 :
    //x
    int
[ ""1""]
:
// c
//
a1 , [4294967296 , 00,""" ++ [233]%N ++ runes_of_ascii "t" ++ [233]%N ++ runes_of_ascii """ , """ ++ [28040; 24687]%N ++ runes_of_ascii """ ,
    00 ]: matchKey , [ ""a\\"" ] : Logon ,
    },
repeat rootA { int16
Foo @lengthOf( rootA // " ++ [27880; 37322]%N ++ runes_of_ascii "
),options1 `u8 x,` // trailing space 
, }	,  },  match chars as u
// " ++ [128512]%N ++ runes_of_ascii " emoji
// " ++ [128512]%N ++ runes_of_ascii " emoji
{ [//
""it's"" , 007	, """ ++ [233]%N ++ runes_of_ascii "t" ++ [233]%N ++ runes_of_ascii """, ""abc"" ,""\n"" ,
// " ++ [128512]%N ++ runes_of_ascii " emoji
// " ++ [27880; 37322]%N ++ runes_of_ascii "
"""" // c
] :	repeatCount,
65535
    // " ++ [128512]%N ++ runes_of_ascii " emoji
    :Z9_
, [ 007  , ""abc"",""// no comment""
, """ ++ [28040; 24687]%N ++ runes_of_ascii """ ] :  falsey ,
00
:
    string_}
,  char repeatCount , } packet Foo {char[]
a1 @calculatedFrom( """")`line1
line2`
, uint16 // a // b
MetaDataX
    // packet A { u8 x, }
    `say ""hi""`,char[] A ,
// trailing space 
// " ++ [128512]%N ++ runes_of_ascii " emoji
f64 int @lengthOf(Pad  ) , u32
    BodyLength
, float64
trueish @lengthOf(lengthOf )
// `tick` ""quote"" 'q'
// trailing space 
`crlf
line` , @tag(255 ) match Z9_ as tag { [ ""a\""b"",4294967296  ,  ""{,}"" ,""{,}""/// triple
] :	Pad	, 1 : lengthOf ,	0123456789 : msg_type  , ""// no comment"":
    BodyLength, [ ""1"" ] : string_ [3 , 0,1 , 1
, ""\" ++ [233]%N ++ runes_of_ascii """ // " ++ [27880; 37322]%N ++ runes_of_ascii "
,
    """"
    , 00
    // c
    ] // c
: asx} , body `say ""hi""`// `tick` ""quote"" 'q'
,	}options { x	='0'
; u8x // " ++ [128512]%N ++ runes_of_ascii " emoji
= u64;
// c
//	t
string_ = ""a\""b"" }
")).
Eval vm_compute in ("<<<M1817>>>" ++ check (runes_of_ascii "root packet Logon {
    zchar[65535] uint8x,
    @leftPad()
    repeat f32 Packet,
    @leftPad(' ')
    match i8i8 as body {
        65535 : MetaDataX,
        007 : Packet,
    },
    @calculatedFrom(""packet"")
    uint8x,
    Foo @lengthOf(asx),
    i64 int,//
    @leftPad(' ')
    repeat rootA {
        int32 zchar,
        match stringy as MetaDataX {
            [
                """ ++ [28040; 24687]%N ++ runes_of_ascii """, 10, 42, ""a\""b"", 42,
                7
            ] : msg_type,
            [42] : stringy,
            ""a\\"" : Header,
            255 : calculatedFrom,
            // a // b
            /// triple
            [007] : MetaDataX,
            ""a\""b"" : stringy,
        },
        char[007] int @lengthOf(o) `" ++ [233]%N ++ runes_of_ascii "`,
        // trailing space 
        //x
    },
    @leftPad()
    @lengthOf(metadata)
    match asx as leftPad {
        ""x y"" : matchKey,
        // packet A { u8 x, }
    },
    repeat leftPad `say ""hi""`,
    char[65535] Packet,
}

root packet x_y_z {
    match uint8x as As {
        [0123456789] : T,
        65535 : x_y_z,
        ""\n"" : u,
        4294967296 : Packet,
        [65535] : T,
        255 : uint8x,
    },
    int32 Packet `tab	here`,
    @calculatedFrom("""")
    @calculatedFrom(""a\\"")
    u64 repeatCount @calculatedFrom(""""),
    Header zchar `doc`,
    match _x as metadata {
        [255, ""1""] : Logon,
        [
            """ ++ [233]%N ++ runes_of_ascii "t" ++ [233]%N ++ runes_of_ascii """, 00, 65535, 7, 42,
            00
        ] : packetx,
        4294967296 : stringy,
    },
    char[00] tag `doc`,
    @lengthOf(int)
    string u,
    @tag(007)
    int16 stringy,
    float64 crc,
    @calculatedFrom(""x y"")
    repeat u16 f32a,
}

options {
    u128 = ""CRC32""
    options1 = false
    u8x = ""`tick`"";
}")).
Eval vm_compute in ("<<<M1750>>>" ++ check (runes_of_ascii "  MetaData roots

    { zchar[
7] body
    ,}
	packet trueish {

    repeat 
zchar[
	0123456789  ]
	i8i8

    `line1
line2` 
        //x
	/// triple
	  , } 
packet

u8x {  x_y_z

chars

,

@calculatedFrom(
    """ ++ [28040; 24687]%N ++ runes_of_ascii """ ) @calculatedFrom(
	""" ++ [28040; 24687]%N ++ runes_of_ascii """	) @tag( 007

    ) int64

Foo// trailing space 
	,
int8 _x  `it's`
,
	match

x
	as
    Foo
{ [	// c
		65535
    ,""" ++ [233]%N ++ runes_of_ascii "t" ++ [233]%N ++ runes_of_ascii """ ,""abc"" ,""\" ++ [233]%N ++ runes_of_ascii """	// @lengthOf(

	,	10

    ]
    : 	 // packet A { u8 x, }
	  Pad , }	,

body
{
    match

msg_type as
	uint8x

{  ""a\""b"":falsey 
0	: Packet  ""it's"" :  lengthOf  //	t
    """ ++ [28040; 24687]%N ++ runes_of_ascii """  : charz

, }  ,
// a // b
    }
, @tag( 42 )

    @calculatedFrom(
    ""\" ++ [233]%N ++ runes_of_ascii """)// c
  @lengthOf(u )
	repeat  char
    calculatedFrom , @tag(
// @lengthOf(
	// " ++ [128512]%N ++ runes_of_ascii " emoji
	1
    )@rightPad( '\x00'
	)
    @lengthOf(

    f32a	) 
int16	pack `" ++ [233]%N ++ runes_of_ascii "`,  @lengthOf(
    // c
  A  //x

	)	repeat
char[]  options1 , 
}
packet _x {

    @lengthOf( options1)  string	u8x@lengthOf(	_x	// a // b
) 
, 
repeat 
  // " ++ [128512]%N ++ runes_of_ascii " emoji
// packet A { u8 x, }

Pad {	As
	{
	matchKey
    chars	,
}
, // trailing space 
    } , repeat 
string
    crc 
        //
    `line1
line2` ,  
  //
}	packet crc {
    @calculatedFrom( ""{,}"" 
) a1 u128

    , }	//	t")).
Eval vm_compute in ("<<<M294>>>" ++ check (runes_of_ascii "MetaData roots { zchar[ 7 ] body , } packet trueish { repeat zchar[ 0123456789
] i8i8 `line1
line2`
//x
/// triple
, } packet u8x { x_y_z chars
, @calculatedFrom( """ ++ [28040; 24687]%N ++ runes_of_ascii """) @calculatedFrom(
    """ ++ [28040; 24687]%N ++ runes_of_ascii """ )
    @tag( 007) int64
Foo// trailing space 
,int8 _x`it's`
, match x as Foo {
[// c
65535,	""" ++ [233]%N ++ runes_of_ascii "t" ++ [233]%N ++ runes_of_ascii """	,""abc"" ,
""\" ++ [233]%N ++ runes_of_ascii """// @lengthOf(
,	10 ]: // packet A { u8 x, }
Pad
, } ,
body
{ match msg_type as uint8x {
""a\""b"" :	falsey 0 :  Packet""it's""
:lengthOf //	t
""" ++ [28040; 24687]%N ++ runes_of_ascii """:
charz ,} ,
    // a // b
    }	,	@tag( 42 )@calculatedFrom(
""\" ++ [233]%N ++ runes_of_ascii """
    )// c
@lengthOf(
u )
    repeat char
calculatedFrom	, @tag(
// @lengthOf(
// " ++ [128512]%N ++ runes_of_ascii " emoji
1  )
@rightPad ( '\x00'
) @lengthOf( f32a )
int16 pack
`" ++ [233]%N ++ runes_of_ascii "` , @lengthOf(
    // c
    A //x
) repeat
char[]
    options1 , } packet _x { @lengthOf(
    options1)  string
    u8x @lengthOf(
_x// a // b
), repeat
// " ++ [128512]%N ++ runes_of_ascii " emoji
// packet A { u8 x, }
Pad
{ As	{ matchKey chars ,
} ,// trailing space 
} ,repeat string crc
    //
    `line1
line2` ,
    //
    } packet crc{@calculatedFrom( ""{,}"" )  a1 u128 , } //	t")).
Eval vm_compute in ("<<<M1563>>>" ++ check (runes_of_ascii "options {
    LittleEndian = false;
    FixedStringPadFromLeft = false;
    FixedStringPadChar = ' ';
}
packet Fill {
    uint16 Qty,
    uint64 clOrdID,
    repeat i64 Flags,
}
packet Ack {
    zchar[7] clOrdID,
    u64 lastPx,
    char[] Note,
    repeat Fill,
    int32 count,
}
packet Quote {
    u8 venue,
    InRef40 {
        char[] Qty,
    },
    zchar[5] Flags,
    @rightPad('\x00') char[12] msgKind,
}
packet Logout {
    InSym79 {
        int32 Qty,
        Fill,
        char[3] x,
        repeat InNote29 {
            i16 price,
            Ack,
            f64 x,
            zchar[8] count,
        },
    },
}
root packet Logon {
    zchar[1] sym,
    u32 count,
    u16 tag7 @lengthOf(Body),
    match count as Body {
        [122, 152] : Ack,
        118 : Logout,
        61 : Quote,
        161 : Fill,
    },
    u32 Acct @calculatedFrom(""CRC32""),
}
")).
Eval vm_compute in ("<<<M1538>>>" ++ check (runes_of_ascii "// top
options // c0
{
    // c1
LittleEndian = true ;
    // c5
StringPrefixLenType // c6a
  // c6b
= // c7a
  // c7b
u8 // c8a
  // c8b
;
    // c9
ArrayPrefixLenType
    // c10
= // c11a
  // c11b
u8 // c12
; } // c14a
  // c14b
packet
    // c15
Ack // c16a
  // c16b
{ // c17a
  // c17b
} // c18a
  // c18b
root // c19a
  // c19b
packet
    // c20
Quote // c21a
  // c21b
{ // c22
Ack
    // c23
,
    // c24
InSym94
    // c25
{ // c26
repeat // c27
Ack , // c29
} ,
    // c31
u16 msgKind // c33
, u16 OrderId // c36a
  // c36b
@lengthOf(
    // c37
Body
    // c38
)
    // c39
,
    // c40
match msgKind as
    // c43
Body
    // c44
{ [ 110 // c47
,
    // c48
48 // c49
] // c50
: Ack , } , } // c56a
  // c56b
")).
Eval vm_compute in ("<<<M375>>>" ++ check (runes_of_ascii "packet zchar
{BodyLength x // `tick` ""quote"" 'q'
, // trailing space 
@rightPad ('0' )
match _x as x { [
    """ ++ [128512]%N ++ runes_of_ascii """ ] : falsey  , 65535
:  chars 0 : falsey , [ ""packet""
    ] :// c
metadata	0 : repeatCount,00//
:  packetx ,
} , } packet crc  { match body
//x
//x
as len {
7:
    leftPad
,007 : x_y_z , 00
:
    x_y_z, [ 0, 10 ,
10 , //	t
10	] :	calculatedFrom // packet A { u8 x, }
, ""packet"" : calculatedFrom } , @leftPad ( '0' ) @tag(
4294967296
    ) match u128 // c
as trueish
{	3
: i64_
    ,
    }, char[255
]o @lengthOf(leftPad
    )
`u8 x,` , } MetaData o {float
roots ,
    x_y_z MetaDataX , packetx zchar
    , }")).
Eval vm_compute in ("<<<M310>>>" ++ check (runes_of_ascii "packet  T{ i8 MetaDataX	,
    repeat x
    {
int32 lengthOf ,
char[ 007 ]repeatCount
`" ++ [233]%N ++ runes_of_ascii "`
, string // " ++ [27880; 37322]%N ++ runes_of_ascii "
Header @lengthOf(
    len ),	}
,	@rightPad (
' '
    ) @tag(	3  )
@tag(
00 ) char[ 00 ]rootA	, f64 string_ , @calculatedFrom( ""it's""
// " ++ [27880; 37322]%N ++ runes_of_ascii "
//
) char[]falsey ``	,
repeat
    a1 {	i64_ u128 ,
    zchar[
4294967296 ]
i8i8 ,
Logon @lengthOf( packetx
    // trailing space 
    ) ,} , lengthOf float
, @calculatedFrom( ""{,}""
    ) u@lengthOf( rootA
) `say ""hi""`
//
//x
,	zchar[
    //	t
    10
    ] metadata `` ,}
options { } //	t")).
Eval vm_compute in ("<<<M337>>>" ++ check (runes_of_ascii "options { }packet BodyLength {i8i8 @lengthOf(trueish ) , repeat body ,// " ++ [27880; 37322]%N ++ runes_of_ascii "
@calculatedFrom( ""1"" )repeat int64 i64_ ,@tag(0 )
    MetaDataX msg_type `" ++ [28040; 24687; 31867; 22411]%N ++ runes_of_ascii "`  , Pad { Header @calculatedFrom( """"), }, @tag(  42
    ) u8 asx `u8 x,` , @tag( 3
) repeat string_ {
metadata
{// @lengthOf(
char[ 0123456789  ] crc, Packet
    `" ++ [28040; 24687; 31867; 22411]%N ++ runes_of_ascii "` , //x
options1
    // " ++ [128512]%N ++ runes_of_ascii " emoji
    `tab	here` // packet A { u8 x, }
,
}, repeat Packet , } , }
    //x
    options { x
    =  char[ 10	] ; }")).
Eval vm_compute in ("<<<M1524>>>" ++ check (runes_of_ascii "packet Frame {
    u8 HK,
    u8 BK,
    u8 TK,
    match HK as Hdr {
        1 : HdrA,
        2 : HdrB,
    },
    match BK as Body {
        1 : BodyA,
        2 : BodyB,
    },
    match TK as Trl {
        1 : TrlA,
    },
}
packet HdrA {
    u8 a,
}
packet HdrB {
    u16 b,
}
packet BodyA {
    u32 c,
}
packet BodyB {
    u64 d,
}
packet TrlA {
    u8 e,
}
root packet Msg {
    Frame,
    u8 x,
}
")).
Eval vm_compute in ("<<<M2092>>>" ++ check (runes_of_ascii "
packet // " ++ [128512]%N ++ runes_of_ascii " emoji
  	charz

    {repeat

options1
	{ char
x_y_z  
      /// triple
//x

,
	T {

string_ @calculatedFrom( ""1""	), 
}

    ,	f64 
crc
    ,u64 
A 
    // trailing space 
/// triple
	@calculatedFrom(""CRC32""
) , }	,
} MetaData
    MetaDataX	//	t
	{ 
}
root 
packet

    u128{	string_ {repeat
pack

{  As
matchKey ,
}
    ,
} ,  }

")).
Eval vm_compute in ("<<<M338>>>" ++ check (runes_of_ascii "root packet // `tick` ""quote"" 'q'
roots{@rightPad (// trailing space 
'0'
)char[255 ] T`line1
line2`
,}packet msg_type {	Logon { f64 x_y_z`` ,
    },	i8 pack @lengthOf( stringy )
, @tag(
    4294967296)char[] msg_type ,
stringy // a // b
{ match x as
    roots { 1 :
options1 ,
    ""it's"" : BodyLength , }, } , }
")).
Eval vm_compute in ("<<<M599>>>" ++ check (runes_of_ascii "root packet tag { }  packet MetaDataX{char[007	]
// c
/// triple
asx  @calculatedFrom( ""a\""b""
) `say ""hi""`// " ++ [27880; 37322]%N ++ runes_of_ascii "
,  @tag(4294967296 )
    char[1//x
] packetx @calculatedFrom( @calculatedFrom(""a\""b""
    ) ,
// " ++ [128512]%N ++ runes_of_ascii " emoji
// a // b
@calculatedFrom(""" ++ [233]%N ++ runes_of_ascii "t" ++ [233]%N ++ runes_of_ascii """  ) repeat pack // " ++ [27880; 37322]%N ++ runes_of_ascii "
,
    } // c")).
Eval vm_compute in ("<<<M217>>>" ++ check (runes_of_ascii "options{ // " ++ [128512]%N ++ runes_of_ascii " emoji
x =i8 BodyLength	=	'\x00'	;
options1 // a // b
=// c
zchar[
    42] ; msg_type = ""a	b""  x_y_z =// a // b
int64
; } //x
options
{ pack =
""a\\""matchKey  =
    true Packet =""abc"" //	t
falsey =
'\x00'
; }  root packet charz { body
    `doc` , } // c")).
Eval vm_compute in ("<<<M629>>>" ++ check (runes_of_ascii "root packet tag { }  packet MetaDataX{char[007	]
// c
/// triple
asx  @calculatedFrom( ""a\""b""
) `say ""hi""`// " ++ [27880; 37322]%N ++ runes_of_ascii "
,  @tag(4294967296 )
    char[1//x
] packetx @calculatedFrom(""a\""b""
    ) ,
// " ++ [128512]%N ++ runes_of_ascii " emoji
// a // b
@calculatedFrom(""" ++ [233]%N ++ runes_of_ascii "t" ++ [233]%N ++ runes_of_ascii """  ) ) repeat pack // " ++ [27880; 37322]%N ++ runes_of_ascii "
,
    } // c")).
Eval vm_compute in ("<<<M485>>>" ++ check (runes_of_ascii "root tag packet { }  packet MetaDataX{char[007	]
// c
/// triple
asx  @calculatedFrom( ""a\""b""
) `say ""hi""`// " ++ [27880; 37322]%N ++ runes_of_ascii "
,  @tag(4294967296 )
    char[1//x
] packetx @calculatedFrom(""a\""b""
    ) ,
// " ++ [128512]%N ++ runes_of_ascii " emoji
// a // b
@calculatedFrom(""" ++ [233]%N ++ runes_of_ascii "t" ++ [233]%N ++ runes_of_ascii """  ) repeat pack // " ++ [27880; 37322]%N ++ runes_of_ascii "
,
    } // c")).
Eval vm_compute in ("<<<M672>>>" ++ check (runes_of_ascii "root packet a" ++ [769]%N ++ runes_of_ascii "b { }  packet MetaDataX{char[007	]
// c
/// triple
asx  @calculatedFrom( ""a\""b""
) `say ""hi""`// " ++ [27880; 37322]%N ++ runes_of_ascii "
,  @tag(4294967296 )
    char[1//x
] packetx @calculatedFrom(""a\""b""
    ) ,
// " ++ [128512]%N ++ runes_of_ascii " emoji
// a // b
@calculatedFrom(""" ++ [233]%N ++ runes_of_ascii "t" ++ [233]%N ++ runes_of_ascii """  ) repeat pack // " ++ [27880; 37322]%N ++ runes_of_ascii "
,
    } // c")).
Eval vm_compute in ("<<<M566>>>" ++ check (runes_of_ascii "root packet tag { }  packet MetaDataX{char[007	]
// c
/// triple
asx  @calculatedFrom( ""a\""b""
) `say ""hi""`// " ++ [27880; 37322]%N ++ runes_of_ascii "
,  ,4294967296 )
    char[1//x
] packetx @calculatedFrom(""a\""b""
    ) ,
// " ++ [128512]%N ++ runes_of_ascii " emoji
// a // b
@calculatedFrom(""" ++ [233]%N ++ runes_of_ascii "t" ++ [233]%N ++ runes_of_ascii """  ) repeat pack // " ++ [27880; 37322]%N ++ runes_of_ascii "
,
    } // c")).
Eval vm_compute in ("<<<M1576>>>" ++ check (runes_of_ascii "options {
    LittleEndian = true;
}
packet Logon {
    u8 x,
    string user,
}
packet Logout {
    u16 reason,
}
packet Empty {
}
root packet Frame {
    u16 MsgType,
    u16 BodyLen @lengthOf(Body),
    u8 flags,
    Logon Body,
    u32 trailer,
}
")).
Eval vm_compute in ("<<<M1590>>>" ++ check (runes_of_ascii "packet Foo {
    match i64_ as x_y_z {
        65535 : BodyLength,
        [3, ""CRC32""] : u,
        255 : T,
        [""x y""] : leftPad,
        0123456789 : As,
    },
    zchar[1] int,
}

packet float {
    uint16 Packet,
}")).
Eval vm_compute in ("<<<M124>>>" ++ check (runes_of_ascii "
root packet crc{ u16	Z9_ `tab	here`,
repeat rootA,
    // trailing space 
    }
packet leftPad	{ @rightPad( )
    @tag(  0 // a // b
)repeat	i16 As `doc` , } MetaData  body // a // b
{x f32a,  }
// c
")).
Eval vm_compute in ("<<<M1518>>>" ++ check (runes_of_ascii "root packet Frame {
    u8 K,
    Logon first,
    match K as Body {
        1 : Logon,
        2 : Logout,
    },
}
packet Logon {
    string user,
}
packet Logout {
    u16 reason,
}
")).
Eval vm_compute in ("<<<M1886>>>" ++ check (runes_of_ascii "
packet A {
	match  k 
as

n	{  [	""a"",

    ""bb""

    ,
""c c""

    ,

    ""d""
,  ""e"" 
, ""f"" , 
""g"" ,
""h""
,""i""

    , ""j"" 
,
""k""

    ] :
	B
, 
2
:
	C} ,
}
")).
Eval vm_compute in ("<<<M468>>>" ++ check (runes_of_ascii "packet
    // `tick` ""quote"" 'q'
    crc
// packet A { u8 x, }
//	t
$ {
u32 a1 ,
    // trailing space 
    roots
charz //
`two words`,	}
    MetaData int {
} /// triple")).
Eval vm_compute in ("<<<M431>>>" ++ check (runes_of_ascii "packet
    // `tick` ""quote"" 'q'
    crc
// packet A { u8 x, }
//	t
{
u32 a1 ,
    // trailing space 
    roots
charz //
`two words`}	,
    MetaData int {
} /// triple")).
Eval vm_compute in ("<<<M710>>>" ++ check (runes_of_ascii "root packet len // trailing space 
{
// " ++ [27880; 37322]%N ++ runes_of_ascii "
//	t
char[10
] metadata	@lengthOf( o ) `crlf
line`,
    @rightPad
( ' '
) string
    Header @calculatedFrom( ""a\\""
    ), }")).
Eval vm_compute in ("<<<M1467>>>" ++ check (runes_of_ascii "
options {
	LittleEndian

    =true ;}  packet
    B
	{u8
	a
,string

    s  , }
root

    packet

    P
	{ u16
L@lengthOf(
B )

    , B , u8 t  , 
}")).
Eval vm_compute in ("<<<M2014>>>" ++ check (runes_of_ascii "root packet len {
    // " ++ [27880; 37322]%N ++ runes_of_ascii "
    //	t
    char[10] metadata @lengthOf(o) `crlf
    " ++ [8232]%N ++ runes_of_ascii "line`,
    @rightPad(' ')
    string Header @calculatedFrom(""a\\""),
}")).
Eval vm_compute in ("<<<M1907>>>" ++ check (runes_of_ascii "root

    packet 
matchKey 
{
	zchar[  3 ]pack
	@calculatedFrom(// c

	""a	b"")  `doc` ,
	}

    options{ }MetaData
A
{
int8
	msg_type , }
")).
Eval vm_compute in ("<<<M695>>>" ++ check (runes_of_ascii "root packet len // trailing space 
{
// " ++ [27880; 37322]%N ++ runes_of_ascii "
//	t
char[10
] metadata	@lengthOf( o ) `crlf
line`,
    @rightPad
( ' '
) string
    Head")).
Eval vm_compute in ("<<<M1920>>>" ++ check (runes_of_ascii "packet rootA {
}

// `tick` ""quote"" 'q'
/// triple
options {
    stringy = 0123456789;
    T = 42;
    string_ = ""a\""b"";
}
//")).
Eval vm_compute in ("<<<M1237>>>" ++ check (runes_of_ascii "root packet matchKey { zchar[ 3 ] pack // c
@calculatedFrom( ""a	b"" ) `doc` , } options { } MetaData A { int8 msg_type , }")).
Eval vm_compute in ("<<<M1453>>>" ++ check (runes_of_ascii "packet B {
    u8 a,
}
root packet P {
    u8 K,
    u8 L @lengthOf(Body),
    match K as Body {
        1 : B,
    },
}
")).
Eval vm_compute in ("<<<M956>>>" ++ check (runes_of_ascii "packet A {
    u16 len @lengthOf(body) `tab
	x`,
    u32 crc @calculatedFrom(""CRC32"") `tab
	x`,
    string body,
}")).
Eval vm_compute in ("<<<M1860>>>" ++ check (runes_of_ascii "options {
    LittleEndian = true;
}

root packet P {
    u16 a,
    u32 Sum @calculatedFrom(""CR\
    C32""),
}")).
Eval vm_compute in ("<<<M950>>>" ++ check (runes_of_ascii "packet A {
    u16 len @lengthOf(body) `
x`,
    u32 crc @calculatedFrom(""CRC32"") `
x`,
    string body,
}")).
Eval vm_compute in ("<<<M908>>>" ++ check (runes_of_ascii "packet A {
  match k as n {
    [1, 22, ""c c"", 4, 5, ""f"", 7, 8, ""i"", 10, 11, ""l""] : B
    2 : C
  },
}")).
Eval vm_compute in ("<<<M1748>>>" ++ check (runes_of_ascii "
MetaData body
{ i64 
pack
`it's`

, 
} 
	// c
    	packet stringy

{ int16

calculatedFrom 
,	}")).
Eval vm_compute in ("<<<M867>>>" ++ check (runes_of_ascii "packet A {
  match k as n {
    [""a"", 22, ""c c"", 4, ""e"", 66, ""g"", 8, ""i""] : B
    2 : C
  },
}")).
Eval vm_compute in ("<<<M1217>>>" ++ check (runes_of_ascii "MetaData float { float64 charz `
` , } root packet chars { @rightPad ( '0' ) Foo , }
// c
")).
Eval vm_compute in ("<<<M1196>>>" ++ check (runes_of_ascii "MetaData float { float64 charz `
` , } root // c
packet chars { @rightPad ( '0' ) Foo , }")).
Eval vm_compute in ("<<<M1407>>>" ++ check (runes_of_ascii "packet chars { } packet MetaDataX
// c
{ @tag( 42 ) i16 string_ , repeat x `say ""hi""` , }")).
Eval vm_compute in ("<<<M1880>>>" ++ check (runes_of_ascii "packet A {
    match k as n {
        [""a"", ""bb"", 007, ""d""] : B,
        2 : C,
    },
}")).
Eval vm_compute in ("<<<M1137>>>" ++ check (runes_of_ascii "packet metadata { Logon { A `" ++ [28040; 24687; 31867; 22411]%N ++ runes_of_ascii "`
// c
, tag o , } , zchar len `// not a comment` , }")).
Eval vm_compute in ("<<<M1342>>>" ++ check (runes_of_ascii "packet o // c
{ repeat Logon uint8x , } options { asx = zchar[ 3 ] stringy = '\x00' }")).
Eval vm_compute in ("<<<M1374>>>" ++ check (runes_of_ascii "packet o { repeat Logon uint8x , } options { asx = zchar[ 3 ] stringy = '\x00' // c
}")).
Eval vm_compute in ("<<<M847>>>" ++ check (runes_of_ascii "packet A {
  match k as n {
    [1, 22, 007, 4, 5, 66, 7, 8] : B,
    2 : C
  },
}")).
Eval vm_compute in ("<<<M1623>>>" ++ check (runes_of_ascii "
packet  A
{ match k	as

n

    { 
[	1,  22
,007 , 4]	:
    B
,

2
	:
C  },}
")).
Eval vm_compute in ("<<<M830>>>" ++ check (runes_of_ascii "packet A {
  match k as n {
    [1, 22, ""c c"", 4, 5, ""f""] : B
    2 : C
  },
}")).
Eval vm_compute in ("<<<M755>>>" ++ check (runes_of_ascii "; i8 ) @leftPad [ ' ' false { @lengthOf( zchar[ i64 ""\n"" string MetaData")).
Eval vm_compute in ("<<<M786>>>" ++ check (runes_of_ascii "packet A {
  match k as n {
    [1, ""bb"", 007] : B,
    2 : C
  },
}")).
Eval vm_compute in ("<<<M777>>>" ++ check (runes_of_ascii "packet A {
  match k as n {
    [1, ""bb""] : B,
    2 : C
  },
}")).
Eval vm_compute in ("<<<M1275>>>" ++ check (runes_of_ascii "
// c
packet x { @rightPad ( ) repeat roots Logon `doc` , }")).
Eval vm_compute in ("<<<M1295>>>" ++ check (runes_of_ascii "packet x { @rightPad ( ) repeat roots Logon `doc`
// c
, }")).
Eval vm_compute in ("<<<M45>>>" ++ check (runes_of_ascii "
MetaData int	{ string f32a//	t
`two words`
, } //")).
Eval vm_compute in ("<<<M1676>>>" ++ check (runes_of_ascii "
MetaData 
M{
u8 x`a

b`
, T

t
`a

b`
,
}
")).
Eval vm_compute in ("<<<M1061>>>" ++ check (runes_of_ascii "packet A {
    u8 x,    // c    u8 y,
}")).
Eval vm_compute in ("<<<M1919>>>" ++ check (runes_of_ascii "

  options

{ a

    =
	1 // a
; } ")).
Eval vm_compute in ("<<<M1754>>>" ++ check (runes_of_ascii "packet Header {
    char[] body,
}")).
Eval vm_compute in ("<<<M988>>>" ++ check (runes_of_ascii "packet A {
 u8 x `d" ++ [133]%N ++ runes_of_ascii "`, // c" ++ [133]%N ++ runes_of_ascii "
}")).
Eval vm_compute in ("<<<M512>>>" ++ check (runes_of_ascii "root packet tag { }  packet")).
Eval vm_compute in ("<<<M1739>>>" ++ check (runes_of_ascii "  packet

A
	{}
// c" ++ [12288]%N ++ runes_of_ascii "
")).
Eval vm_compute in ("<<<M1387>>>" ++ check (runes_of_ascii "MetaData o { // c
}")).
Eval vm_compute in ("<<<M1032>>>" ++ check (runes_of_ascii "// c" ++ [12]%N ++ runes_of_ascii "
packet A {
}")).
Eval vm_compute in ("<<<M1718>>>" ++ check (runes_of_ascii "root packet u {
}")).
Eval vm_compute in ("<<<M363>>>" ++ check (runes_of_ascii "// c


")).
Eval vm_compute in ("<<<M722>>>" ++ check (runes_of_ascii "
	 ")).
