From FP Require Import Lexer Parser ShowPT Digest Formatter.
From Coq Require Import String List NArith.
Import ListNotations.
Open Scope string_scope.
Set Printing Width 100000000.
Set Printing Depth 100000000.
Definition show_fres (r : fres) : string :=
  match r with
  | FOk s => "OK:" ++ sh_escaped s ""
  | FErr s => "ERR:" ++ sh_escaped s ""
  | FPanic p => "PANIC:" ++ p
  end.
Definition check (rs : list rune) : string := digest (show_fres (format_res rs)).
Definition full (rs : list rune) : string := show_fres (format_res rs).
Eval vm_compute in ("<<<M3978>>>" ++ check (runes_of_ascii "  options

{ 
StringPrefixLenType

=
u8 ;ArrayPrefixLenType =u64
    ;FixedStringPadFromLeft	=
    true;	JavaPackage

    = ""co\
m.example.msg"" ; GoPackage 
=
""ms\
g""
    ;

GoModule
	= ""example.com/msg""	;
    }
	MetaData Meta {
u32
SeqNum  `sequence number`
    , char[
8 ] Symbol `symbol`
,
	zchar[ 5	]ZSym`z symbol`

    ,
	string
Note

,  Symbol
AltSymbol `alias of symbol`

    , f64
    Price ,

    }
packet	Inner
	{ u8 a
    ,

    i16
	b

, string
c
,
}
	packet
    Inner2

{ u8 a2
    , char[3]c2 ,}
packet
    Logon
{ u8	x ,string  user ,
	repeat
	u16	codes	,
	} packet

Logout	{
u16 reason

    ,

}
	packet Empty  { 
}root packet  Msg { u8	su8,  uint8	luint8 ,
	u16  su16

,
uint16 luint16

    ,
	u32
	su32 ,

    uint32
	luint32

    , u64
	su64
    , 
uint64

    luint64,i8	si8

,int8
	lint8,
i16	si16
    ,	int16 lint16 ,
    i32
si32,  int32 lint32 , 
i64
si64 
,

int64 lint64
    ,

f32

    sf32,

    float32	lfloat32 ,
	f64 sf64
    ,

float64 lfloat64	, 
char[6 ]

fsplain
,

    @leftPad
	('0'

    ) char[

    4	] fs0

    ,  @rightPad
( 
'0' ) char[ 5]  fs1
	,@leftPad
	( ' '  ) char[ 6 ] fs2
,@rightPad	(' '
    )
char[
	7]
fs3

,
	@leftPad

( '\x00'
	) char[	8]fs4,@rightPad (

'\x00'

    )
char[
9 ]
    fs5

,
    @leftPad

    (
    )
    char[10 ]

    fs6 ,  @rightPad (
    )
	char[
11] 
fs7

    ,	zchar[ 
7
	]

    fz

,
    @leftPad  (

'0')

zchar[	3

    ]
    fzl0

    ,string 
s1 `doc`
    , char[]
	s2
	,
Inner,

    Sub
{ u8  q 
, string  w
    ,Deep
{

    u16  z
	, repeat i32
	zs

    , }
,	}	,

    repeat
u8

    ru8  ,
repeat u16 ru16 ,
	repeat
    u32

    ru32
,	repeat u64

ru64 ,repeat

i8  ri8, 
repeat i16 ri16,	repeat  i32
	ri32,

    repeat

i64 
ri64 
,	repeat

f32
	rf32 ,  repeat f64 rf64

    ,

    repeat

    string	rstr

, repeat char[] rstr2, repeat char[
3
	]rfs

, repeat
zchar[
	3  ]
rfz	, 
repeat
Inner2 ,
repeat Grp {  u8 k ,
char[
    2	]

v

,
} ,
SeqNum
,	SeqNum seq2 ,repeat

    SeqNum
	seqs
	, Symbol 
, AltSymbol

alt
    , ZSym  ,Note
,
	repeat Symbol
	syms
, 
Price
	px ,
	u16 MsgType

    ,
u32 
BodyLen
@lengthOf(
Body )
    ,	match
    MsgType

as Body {

    1
:
Logon,
[  2  ,  3	]

:
    Logout ,
7
    :
Logon,

9
: Empty, 
} 
,
    u32	Checksum
@calculatedFrom(  ""CRC32"" ) , }")).
Eval vm_compute in ("<<<M799>>>" ++ check (runes_of_ascii "options{ msg_type
    = ""packet""//x
;leftPad// trailing space 
=  ' ' ;
x_y_z = ' ' ;
}
root packet  A//
{
    //x
    zchar[
42]
    options1 `u8 x,` ,
float64 uint8x `a\` ,
packetx @lengthOf(BodyLength) `tab	here`
    ,
    chars	u8x	`100% of %d`
, @leftPad ( ) repeat
i64_ charz
`u8 x,`
, repeat crc { msg_type asx ,
}, repeat f32a  , char[ 00 ] o `" ++ [233]%N ++ runes_of_ascii "`
    ,
@lengthOf( float )
leftPad @calculatedFrom(
//	t
// packet A { u8 x, }
""a	b"" ) ,} packet
    Packet
{
    i16	asx`a\` //	t
, @calculatedFrom(
""" ++ [128512]%N ++ runes_of_ascii """) @lengthOf(
/// triple
/// triple
f32a) @lengthOf( Pad)repeat
    // a // b
    pack
    i64_ `// not a comment`, char[] len  `u8 x,`, repeat char[]  asx  ,match repeatCount
as uint8x {
00: trueish 00 : Z9_ , 7 : u,
    [  00 ,7 , ""abc"" , ""1""	] :charz [ 1 ,""abc"" , ""a\\"" ,
65535 , 007 ]: Packet, } ,	@calculatedFrom( ""{,}""
) repeatCount body `it's` , @leftPad (
    // c
    '\x00' )repeat
    len // a // b
`line1
line2` ,
@tag(  007 )  match metadata as string_ {
[  ""x y""] : falsey
    // packet A { u8 x, }
    } // @lengthOf(
,
@leftPad ( '\x00' ) packetx	, // c
} root
packet T{@rightPad( ' ') repeat
    //x
    lengthOf f32a
`line1
line2`, @tag(00 )
char[ 1 ]
    body, repeat calculatedFrom , // a // b
repeat
    Z9_
//	t
//	t
,
repeat
u8x	{ metadata
{ match  repeatCount as falsey	{ 007// trailing space 
:
len , ""packet"" : T//x
,65535 :	T , }	,
} ,  u16 string_ `u8 x,`	, match float as MetaDataX { ""\" ++ [233]%N ++ runes_of_ascii """ : int
, [ 10 , 1
,0 ,
3, ""// no comment"" ,
    """ ++ [28040; 24687]%N ++ runes_of_ascii """	, 00 ,  4294967296 // " ++ [128512]%N ++ runes_of_ascii " emoji
]
    // packet A { u8 x, }
    :Header
, [""{,}"" ,
42
    // `tick` ""quote"" 'q'
    ] :
matchKey,
    [ 255, 10/// triple
, 1 ,
    """ ++ [128512]%N ++ runes_of_ascii """	] : chars 7 // " ++ [27880; 37322]%N ++ runes_of_ascii "
:roots
,} // " ++ [27880; 37322]%N ++ runes_of_ascii "
,
    string leftPad, } , @lengthOf( i8i8 )//	t
@leftPad( '\x00'
)repeat
Packet
`line1
line2` ,
    uint8  len	,@rightPad ( '\x00'
    // a // b
    ) char[ 4294967296 ] Logon  `doc`
,
    } MetaData msg_type { i16
repeatCount
    `doc`, u8x msg_type
    , }
")).
Eval vm_compute in ("<<<M3655>>>" ++ check (runes_of_ascii "packet Foo {
    @lengthOf(u128)
    char[007] u128 `// not a comment`,
    @calculatedFrom(""" ++ [233]%N ++ runes_of_ascii "t" ++ [233]%N ++ runes_of_ascii """)
    char[4294967296] i8i8 @calculatedFrom(""" ++ [28040; 24687]%N ++ runes_of_ascii """),
    zchar[1] repeatCount,
}

packet body {
    u32 A,
    @lengthOf(trueish)
    @lengthOf(u8x)
    @rightPad('0')
    Foo @calculatedFrom(""a	b""),
    char[007] charz `" ++ [28040; 24687; 31867; 22411]%N ++ runes_of_ascii "`,
    @lengthOf(int)
    packetx @lengthOf(rootA) `u8 x,`,
    @rightPad('\x00')
    char[255] repeatCount `line1
        line2`,
    f32 trueish,
    @leftPad(' ')
    // `tick` ""quote"" 'q'
    @lengthOf(MetaDataX)
    @lengthOf(leftPad)
    /// triple
    Pad {
        match Logon as i64_ {
            [255, ""it's"", """ ++ [28040; 24687]%N ++ runes_of_ascii """, ""x y""] : pack,
            [
                10, ""a\""b"", ""x y"", ""\" ++ [233]%N ++ runes_of_ascii """, 0,
                10, 0, 255
            ] : charz,
            0 : string_,
            [""x y"", 1] : asx,
            ""a	b"" : asx,
            ""a	b"" : Header,
        },
    },
}

packet A {
}

options {
    len = true;
    f32a = '0'
    o = char[7];
    body = ' '
    o = 3
}

packet As {
    @tag(007)
    @rightPad('\x00')
    @rightPad(' ')
    match roots as _x {
        0123456789 : string_,
        [
            """ ++ [28040; 24687]%N ++ runes_of_ascii """, ""1"", ""a	b"", 3, ""x y"",
            00, 10, ""\" ++ [233]%N ++ runes_of_ascii """
        ] : Pad,
        65535 : x,
        7 : x_y_z,
        3 : charz,
    },
    @rightPad(' ')
    repeat f64 u128,
    i8 calculatedFrom @calculatedFrom(""it's""),
    @tag(0)
    repeat zchar[65535] lengthOf `" ++ [233]%N ++ runes_of_ascii "`,
    asx {
        msg_type f32a `a\`,
    },
    @lengthOf(A)
    @rightPad()
    @calculatedFrom(""packet"")
    char Logon @calculatedFrom(""" ++ [128512]%N ++ runes_of_ascii """),
    @lengthOf(f32a)
    zchar[1] i8i8 `it's`,//	t
    u16 As @calculatedFrom(""packet"") `
        `,
}")).
Eval vm_compute in ("<<<M1080>>>" ++ check (runes_of_ascii "root packet charz { @calculatedFrom( """ ++ [233]%N ++ runes_of_ascii "t" ++ [233]%N ++ runes_of_ascii """ )Foo
    x `u8 x,` ,
    rootA @lengthOf(leftPad) , zchar[
0123456789 ]	MetaDataX
    `" ++ [28040; 24687; 31867; 22411]%N ++ runes_of_ascii "`,
@tag(7 )packetx
    // trailing space 
    @calculatedFrom( ""CRC32""
) `it's`
,	@lengthOf(falsey ) repeat zchar[ 4294967296
]
    string_ ,@lengthOf( options1  ) int
{ int64
//x
// 50% %s
u
@calculatedFrom( ""1""
) `line1
line2`
    ,	repeat zchar[  00 /// triple
]falsey , char[]	stringy @calculatedFrom( ""it's"" )// @lengthOf(
`crlf
line`	, // a // b
i16 A , } ,@calculatedFrom(
""`tick`"" )f64 BodyLength @lengthOf( /// triple
len	)  `crlf
line`
    , } MetaData msg_type{uint64
// trailing space 
// a // b
roots `100% of %d`
, } options { packetx= true
    }MetaData uint8x{}root packet
// trailing space 
//
crc { // trailing space 
char[
// `tick` ""quote"" 'q'
// " ++ [27880; 37322]%N ++ runes_of_ascii "
4294967296
    ]i64_ , @leftPad ( '0'
) @lengthOf(
    msg_type) repeat Foo`line1
line2` ,
asx i64_ //	t
`two words` ,@tag( 7
    ) Packet , repeat // c
i64 u8x`say ""hi""`
    ,zchar[ 7 ] x_y_z ,// `tick` ""quote"" 'q'
match Foo as
    Pad { // c
[""abc"" ,
""""
    ]:options1 ,
""a	b"":	crc , 42:rootA
, // " ++ [128512]%N ++ runes_of_ascii " emoji
}// " ++ [128512]%N ++ runes_of_ascii " emoji
,	@lengthOf( // trailing space 
Header)body int// 50% %s
, @tag(
1 )@calculatedFrom(""" ++ [233]%N ++ runes_of_ascii "t" ++ [233]%N ++ runes_of_ascii """ ) char[
255 ]
    // 50% %s
    charz	@lengthOf( A ) , /// triple
uint64
// @lengthOf(
/// triple
Packet
@calculatedFrom( ""1"")`100% of %d`
,}")).
Eval vm_compute in ("<<<M634>>>" ++ check (runes_of_ascii "root
    // " ++ [27880; 37322]%N ++ runes_of_ascii "
    packet string_
    { repeat uint16
    Logon
`
` , @calculatedFrom(""" ++ [233]%N ++ runes_of_ascii "t" ++ [233]%N ++ runes_of_ascii """ ) char[255 ]Logon , u64 pack
@calculatedFrom( ""a\\"") ,@rightPad// 50% %s
( // `tick` ""quote"" 'q'
'0' )T
{ zchar[
    3
    ]
u8x@calculatedFrom( ""CRC32"" )
    `crlf
line`
    ,o
    { _x
{	float32
    calculatedFrom/// triple
, } ,  repeat int64 u128 ,	float32  string_
    @lengthOf(	msg_type )
`" ++ [233]%N ++ runes_of_ascii "`,	}
, }
, i16 charz `line1
line2`
,  repeat int64 a1  ,@lengthOf( // 50% %s
lengthOf)
    // " ++ [27880; 37322]%N ++ runes_of_ascii "
    @tag(
00 ) Header body	`" ++ [28040; 24687; 31867; 22411]%N ++ runes_of_ascii "`,@tag( // a // b
65535 )  match pack as
_x{ ""abc""  : charz
    , 255 // c
: T
,
[	""1"" ,007 ]
    :
rootA ,00	:
    i64_ } , char[] a1
`" ++ [233]%N ++ runes_of_ascii "`, matchKey { zchar[ 3
]  Pad //
`// not a comment`  ,
    }, }
options{packetx =' 'A =
0123456789;
string_
    = '\x00'
    ; float=""a\""b""  ; tag =
65535
    } root packet matchKey	{  @calculatedFrom( ""\n"" /// triple
) zchar crc
`100% of %d`
, repeat	x{char[] options1`two words` ,repeat
    // packet A { u8 x, }
    metadata {  options1 @calculatedFrom( ""CRC32"" ) , }, uint64 matchKey `" ++ [28040; 24687; 31867; 22411]%N ++ runes_of_ascii "` , leftPad,} , repeat i64  _x
`{ , }` ,@tag( 1 ) char[ 255] len  ,
}  root
packet charz	{ float64 body@lengthOf( falsey ) , zchar
    repeatCount , } root packet asx  {
//x
// 50% %s
}")).
Eval vm_compute in ("<<<M3448>>>" ++ check (runes_of_ascii "// top
packet // c0a
  // c0b
NewOrder { u32
    // c3
qty // c4a
  // c4b
, // c5a
  // c5b
} // c6
packet Cancel { // c9a
  // c9b
u64 // c10
id // c11a
  // c11b
,
    // c12
}
    // c13
packet
    // c14
Business // c15
{ // c16
u8 // c17
Kind // c18a
  // c18b
,
    // c19
match // c20a
  // c20b
Kind // c21a
  // c21b
as Detail // c23
{ 1 // c25
: // c26a
  // c26b
NewOrder , // c28
2 // c29a
  // c29b
: Cancel
    // c31
, // c32a
  // c32b
} // c33a
  // c33b
,
    // c34
} // c35a
  // c35b
packet TcpFrame // c37a
  // c37b
{ // c38
u8
    // c39
T ,
    // c41
match
    // c42
T // c43
as // c44a
  // c44b
Body // c45a
  // c45b
{ 1 // c47a
  // c47b
:
    // c48
Business // c49
, // c50
} // c51
, // c52
} packet // c54a
  // c54b
UdpFrame // c55
{
    // c56
u8
    // c57
U , match // c60a
  // c60b
U as // c62a
  // c62b
Body {
    // c64
1 // c65
:
    // c66
Business , } // c69a
  // c69b
, // c70a
  // c70b
Business // c71
extra // c72a
  // c72b
, // c73a
  // c73b
}
    // c74
root
    // c75
packet
    // c76
Wire
    // c77
{ // c78a
  // c78b
TcpFrame // c79a
  // c79b
, UdpFrame // c81
,
    // c82
} // c83a
  // c83b
")).
Eval vm_compute in ("<<<M528>>>" ++ check (runes_of_ascii "
packet
    //x
    BodyLength
    {@lengthOf(
As
    )  @rightPad ()@lengthOf( len )uint8 leftPad , u	{	match
body as Header { // c
[	4294967296 // c
,
7 ,""abc"" , 1 ]
:
    // a // b
    stringy , }
    , char[ 0 ] /// triple
leftPad @lengthOf( i8i8 )	,  u64 // 50% %s
charz
    , repeat uint16
    a1  ,
    // @lengthOf(
    } // packet A { u8 x, }
,
zchar[ //x
0123456789
    ]BodyLength @calculatedFrom( ""{,}""
    ) //
,
BodyLength`{ , }` ,
}packet u8x
    { repeat len
    //x
    {
    u32
    //
    f32a `" ++ [28040; 24687; 31867; 22411]%N ++ runes_of_ascii "` ,	A ,i64 matchKey , }  , }
MetaData	_x{ } packet _x {
f32a
    {
f32 body // a // b
, uint16 u128, matchKey @lengthOf(Packet ) , }	, repeat zchar[ 0123456789
    ]
float
`" ++ [233]%N ++ runes_of_ascii "` ,
f32 i8i8 `doc` ,
    repeat string_ , A
    // packet A { u8 x, }
    `
`
// a // b
/// triple
, match u128 as i8i8 // @lengthOf(
{
0123456789 :float ,  10  : roots // " ++ [128512]%N ++ runes_of_ascii " emoji
,
    ""it's"" : _x
    , 10 :
// packet A { u8 x, }
//	t
Z9_ [
    /// triple
    ""a\""b"",
""x y"" ]
    : matchKey, [""\" ++ [233]%N ++ runes_of_ascii """, 10 ,""" ++ [28040; 24687]%N ++ runes_of_ascii """ , 255
, 0123456789
,
// a // b
// `tick` ""quote"" 'q'
7  , 007 ] :
    Pad } , }

")).
Eval vm_compute in ("<<<M1>>>" ++ check (runes_of_ascii "// `tick` ""quote"" 'q'
packet a1 // " ++ [27880; 37322]%N ++ runes_of_ascii "
{ @calculatedFrom( ""abc"" )chars `" ++ [28040; 24687; 31867; 22411]%N ++ runes_of_ascii "` ,	match
    crc as
    metadata{ 65535 :
trueish ""\" ++ [233]%N ++ runes_of_ascii """
: charz
    // " ++ [27880; 37322]%N ++ runes_of_ascii "
    ,""abc""
: MetaDataX [ ""packet"" ,
    ""// no comment""
    // `tick` ""quote"" 'q'
    , 0 , 00
    // a // b
    , ""// no comment"" ,""{,}""
    // " ++ [128512]%N ++ runes_of_ascii " emoji
    , 00 ] : i64_ , """ ++ [233]%N ++ runes_of_ascii "t" ++ [233]%N ++ runes_of_ascii """	: f32a
    , [""" ++ [128512]%N ++ runes_of_ascii """ , ""it's"" // `tick` ""quote"" 'q'
] :
    Foo}// `tick` ""quote"" 'q'
, @rightPad(	' ' ) repeat	char[ 1 ]
body
    `" ++ [28040; 24687; 31867; 22411]%N ++ runes_of_ascii "` , @calculatedFrom(
    """ ++ [233]%N ++ runes_of_ascii "t" ++ [233]%N ++ runes_of_ascii """ ) repeat
options1 i64_
    , match roots
as T { [
0 ,
""x y""	]: uint8x ,""" ++ [128512]%N ++ runes_of_ascii """
    :
    packetx	""packet"":
uint8x,// packet A { u8 x, }
""a	b"" :lengthOf ,
4294967296 :
    repeatCount
, } , string options1@calculatedFrom( ""x y""	) ,int
    ,
    // c
    o @calculatedFrom( ""packet"" ) `say ""hi""` ,	int a1 ,string_ { char[]Logon`say ""hi""`
, repeat
float32
    trueish ,} , } options{  BodyLength
// @lengthOf(
//	t
= '0' ;body
= true
    ;  i8i8 =
""packet""
} packet
zchar
    {u16
Logon  `a\`
    /// triple
    , } packet u128{
    }
")).
Eval vm_compute in ("<<<M3781>>>" ++ check (runes_of_ascii "root packet string_

{
	@lengthOf(
falsey

    )
@tag(  // @lengthOf(
  	42
) match

repeatCount
as
Z9_
    {

    ""{,}"" :

    roots // 50% %s
  , 
255:As
,[	65535
    ,

    0 ] : 
    // a // b
    T }
    , 
    /// triple
  repeat
    i8 repeatCount `" ++ [28040; 24687; 31867; 22411]%N ++ runes_of_ascii "`,

    } options {

As
	=	zchar[ 255
] ;}
    // trailing space 
  packet 	 // trailing space 
	  leftPad
{
    @lengthOf( 
lengthOf
	)

Foo	{ x msg_type
,msg_type /// triple
	`it's`

    , u16	crc
    @lengthOf( 
f32a	)
    `
` ,  } // trailing space 
	,
	u

stringy	,

    packetx`u8 x,`,

@leftPad
    (
	)
    @calculatedFrom(
    ""abc""
	)@tag(
65535  ) BodyLength{ 
zchar[
    1 ]
    Logon
    ,

    },match As  as matchKey

{ 42 : // `tick` ""quote"" 'q'
	  Z9_
    , //	t
  [
""it's""

]
// trailing space 
  :  calculatedFrom 255
	: roots ,

    ""abc"" :

u8x ,
	"""":

    i8i8

4294967296 : packetx ,

    } ,

    }

    root packet  A  {
char[
    10  ]
x_y_z
    , 
}")).
Eval vm_compute in ("<<<M391>>>" ++ check (runes_of_ascii "packet tag {
// a // b
// " ++ [27880; 37322]%N ++ runes_of_ascii "
u64	body @calculatedFrom(""x y"" ) `crlf
line` ,}
    root  packet As  {
    @tag(
4294967296 )  i8 int ,  f64  u128
@lengthOf(
packetx ), @calculatedFrom(
""" ++ [233]%N ++ runes_of_ascii "t" ++ [233]%N ++ runes_of_ascii """ )@tag( 0
    )
@lengthOf( falsey)
    lengthOf { uint32 f32a// 50% %s
,repeat roots //
{ char MetaDataX  ,
    i32 pack ,string metadata
    // 50% %s
    , } , }  , int8 T
,
/// triple
// c
@tag(
007
) @lengthOf( metadata ) repeat uint8x { char[]
As`" ++ [28040; 24687; 31867; 22411]%N ++ runes_of_ascii "` //
,match Logon as calculatedFrom
{
    [4294967296
    ] : metadata
""1"" : len
    0 : Logon ,
    ""x y""
:
    // trailing space 
    stringy
    ,
    ""it's""  : falsey // trailing space 
, ""1"" : string_
    , } ,//
Foo
    MetaDataX`crlf
line`,	} ,
    @rightPad ( ) float32 tag // c
@lengthOf( charz) ,
char[ 255// packet A { u8 x, }
]
    x_y_z
    , @calculatedFrom( // a // b
""it's""// @lengthOf(
)
    // " ++ [27880; 37322]%N ++ runes_of_ascii "
    x_y_z, } options{msg_type
    // " ++ [128512]%N ++ runes_of_ascii " emoji
    =
'0' ;
}
")).
Eval vm_compute in ("<<<M138>>>" ++ check (runes_of_ascii "packet
//
// " ++ [128512]%N ++ runes_of_ascii " emoji
asx{ @leftPad ('\x00' )@calculatedFrom( ""{,}"" ) //
pack
// " ++ [128512]%N ++ runes_of_ascii " emoji
// " ++ [128512]%N ++ runes_of_ascii " emoji
x_y_z , Pad f32a//x
,  repeat	zchar[/// triple
42 /// triple
]
// packet A { u8 x, }
// " ++ [128512]%N ++ runes_of_ascii " emoji
chars `{ , }`
, string packetx `
`	,
@tag( 10
) metadata@calculatedFrom( ""x y"" )
, uint8x //	t
,repeat int16
    // `tick` ""quote"" 'q'
    pack `a\`
    , float64 rootA// c
,
    /// triple
    } packet
// trailing space 
// a // b
asx//	t
{ string_,	}root
packet Header {
float64 x_y_z
    // packet A { u8 x, }
    @calculatedFrom( ""x y""
),
//
//x
@calculatedFrom(
""a\""b""
) @calculatedFrom( // a // b
""a\""b"" )
int { zchar[ 255 ]
    msg_type, i64_	{ stringy @lengthOf( x_y_z ) // " ++ [27880; 37322]%N ++ runes_of_ascii "
, u
options1`" ++ [233]%N ++ runes_of_ascii "`, repeat	f32 msg_type , float32 // trailing space 
Foo  `two words`
,	} , }// 50% %s
,	uint8 asx `line1
line2` , } MetaData
lengthOf { char[] o `line1
line2`
,
}
")).
Eval vm_compute in ("<<<M1084>>>" ++ check (runes_of_ascii "
packet msg_type {
    //
    i8 _x	`{ , }` ,i8 Foo , @calculatedFrom( ""// no comment"")Z9_`it's` //
,@lengthOf(BodyLength )repeat trueish, @lengthOf( Logon )
zchar[
00 ]
float `{ , }`,}
    options { pack =true } packet falsey
    { @lengthOf(	asx ) A chars ,
    body
    // @lengthOf(
    , repeat
    // " ++ [128512]%N ++ runes_of_ascii " emoji
    string_ { repeat  len { char[ 1  ] packetx //
@lengthOf( // @lengthOf(
i8i8 ) , }
    ,	repeat string_ packetx, }	, u16
Logon
    @calculatedFrom(""a	b"" ) ,  repeat  i16 Logon ,
// packet A { u8 x, }
/// triple
match Packet // c
as matchKey {
65535 : u
, // c
65535
    : MetaDataX
, } , @calculatedFrom( // @lengthOf(
""a\\""
    )
repeat zchar[ 255 ]
    stringy ,} packet
matchKey{ @lengthOf(	charz) repeat string leftPad , } options  { Packet = '\x00'
// `tick` ""quote"" 'q'
// `tick` ""quote"" 'q'
}
// c
")).
Eval vm_compute in ("<<<M1174>>>" ++ check (runes_of_ascii "// a // b
options { falsey
    =
true;
    } MetaData body{ string msg_type	`crlf
line`, string int	, As
    u8x ,metadata o , }packet Z9_ // " ++ [128512]%N ++ runes_of_ascii " emoji
{ @lengthOf(
Logon // `tick` ""quote"" 'q'
)
@rightPad
( '\x00')
// a // b
// trailing space 
@calculatedFrom( """ ++ [233]%N ++ runes_of_ascii "t" ++ [233]%N ++ runes_of_ascii """)  zchar[ 3 // a // b
] rootA,//
}// " ++ [27880; 37322]%N ++ runes_of_ascii "
packet zchar { repeat uint8 u128 `it's` ,} packet i8i8{ repeat leftPad
{  T{// " ++ [128512]%N ++ runes_of_ascii " emoji
int32 pack@calculatedFrom(""// no comment""	) , }
    /// triple
    , //x
} , match x  as i8i8{ ""\" ++ [233]%N ++ runes_of_ascii """ : i64_ ,
    // 50% %s
    } ,
    //
    int8 matchKey
    @lengthOf( charz ) , @lengthOf(	rootA
) uint32
lengthOf
    // " ++ [128512]%N ++ runes_of_ascii " emoji
    ,@tag(10 ) lengthOf @calculatedFrom( ""1""  )  ,
    match len as Z9_ { [
    ""1"" ]
    // " ++ [128512]%N ++ runes_of_ascii " emoji
    :stringy
, 42// @lengthOf(
: A ,} ,
} // trailing space ")).
Eval vm_compute in ("<<<M3967>>>" ++ check (runes_of_ascii "packet msg_type {
    match x_y_z as i8i8 {
        0 : As,
        ""packet"" : T,
        [
            65535, ""1"", 00, """ ++ [128512]%N ++ runes_of_ascii """, 4294967296,
            4294967296
        ] : Logon,
        [
            ""\n"", ""packet"", ""// no comment"", 1, 1,
            ""`tick`""
        ] : rootA,
        0123456789 : falsey,
    },
    As o,
    char[0] float `// not a comment`,
    @calculatedFrom(""abc"")
    @tag(4294967296)
    repeat float32 BodyLength `crlf
    line`,
    msg_type @calculatedFrom(""" ++ [128512]%N ++ runes_of_ascii """) `a\`,
    repeat int64 body,
    int16 a1 @calculatedFrom(""it's""),
    i16 float `u8 x,`,
    @leftPad('\x00')
    // c
    uint32 roots,
}

packet Header {
    @calculatedFrom(""`tick`"")
    char[00] packetx,
    @lengthOf(matchKey)
    repeatCount x_y_z `{ , }`,
}")).
Eval vm_compute in ("<<<M4006>>>" ++ check (runes_of_ascii "root packet tag {
    T {
        //	t
        //
        zchar[4294967296] calculatedFrom,
        repeat charz {
            repeat i64_ stringy,
            falsey,
        },
    },
    @tag(65535)
    @lengthOf(options1)
    repeat string packetx `say ""hi""`,
    match Header as charz {
        65535 : pack,
    },
    i32 trueish @calculatedFrom(""it's"") `u8 x,`,
    // c
    @calculatedFrom(""x y"")
    string len @lengthOf(metadata),
    zchar[255] i64_ @lengthOf(A),
    @lengthOf(float)
    pack @calculatedFrom(""""),
    rootA {
        repeat i64 As,
        u8 Foo,
        char[00] trueish ``,
        match string_ as calculatedFrom {
            255 : T,
        },
    },
    repeat len `doc`,
    char[3] pack `a\`,
}")).
Eval vm_compute in ("<<<M538>>>" ++ check (runes_of_ascii "root packet Packet { u128 x_y_z,	zchar[007]
    i64_	@lengthOf( Pad
) `a\` , // 50% %s
uint8 charz	,@lengthOf(
i8i8 )zchar
,@rightPad() //x
zchar[ 65535] i64_@lengthOf(  metadata )
    ,
@calculatedFrom( """" //	t
) char[ 4294967296 ]lengthOf @calculatedFrom(
    ""// no comment""  ) // " ++ [128512]%N ++ runes_of_ascii " emoji
, // c
@leftPad
    (
    ' '
    )zchar[007 ] options1
    , i64_  { f64 msg_type
    , u8x {
    repeat// " ++ [128512]%N ++ runes_of_ascii " emoji
f32a
    //	t
    { roots@calculatedFrom( ""{,}"" )`tab	here` // " ++ [128512]%N ++ runes_of_ascii " emoji
, }
//x
//x
,/// triple
} // a // b
, u64 // " ++ [128512]%N ++ runes_of_ascii " emoji
Logon
, }// c
, // trailing space 
@lengthOf( i64_) char[ 3	] u8x  @lengthOf( // packet A { u8 x, }
stringy
) `two words`,
// " ++ [128512]%N ++ runes_of_ascii " emoji
//
} MetaData f32a {}")).
Eval vm_compute in ("<<<M3737>>>" ++ check (runes_of_ascii "

  packet 	 // " ++ [27880; 37322]%N ++ runes_of_ascii "

MetaDataX /// triple
    {char[  1 ] T ,
char[] 
Foo@calculatedFrom( ""{,}""
	)
,
a1 
// " ++ [27880; 37322]%N ++ runes_of_ascii "
  ,
@lengthOf( 
roots 
)
falsey
int`u8 x,` 
,

    char[ 0123456789] a1  `
`
,
string
	Z9_ @calculatedFrom(""`tick`""

),
zchar[
00] 
Logon

@lengthOf(

    u128// " ++ [128512]%N ++ runes_of_ascii " emoji
  	)
	`tab	here`,
@calculatedFrom( 
""a	b""	) Z9_{ repeat

stringy { int16

string_
    ,
    string  //x
	tag
    @lengthOf( 	 // `tick` ""quote"" 'q'
  a1
    ) 	 // 50% %s
  , } ,
	} ,
repeat
	charz{ lengthOf
	f32a
	,

    }
, char[ 65535
] crc
`" ++ [28040; 24687; 31867; 22411]%N ++ runes_of_ascii "`

    ,}	packet
len {	rootA 	 // c
  	{ repeat

    string string_,  string pack ,
    char[]

roots,
},

    }//
")).
Eval vm_compute in ("<<<M1153>>>" ++ check (runes_of_ascii "MetaData
pack
    { char[ 10
    ] _x , calculatedFrom MetaDataX `" ++ [233]%N ++ runes_of_ascii "`  , /// triple
int32 pack, i16  lengthOf`doc`, a1
    u // trailing space 
``
    , char[ 255 ]
T
,
    }
    /// triple
    MetaData stringy { T falsey `say ""hi""` ,char[ 7 ] leftPad `" ++ [233]%N ++ runes_of_ascii "` ,}root packet packetx { char[
    42 ] u ,
i32
    tag @calculatedFrom( ""abc""
    ) `" ++ [233]%N ++ runes_of_ascii "` , // " ++ [27880; 37322]%N ++ runes_of_ascii "
u8
calculatedFrom `say ""hi""`
,
    repeat _x `` //x
,  repeat leftPad falsey  , i8i8 {
string T `line1
line2`
    ,} ,	}
    MetaData T {_x msg_type , char[ 007
    ] trueish, char[] lengthOf
`two words` ,char[]// `tick` ""quote"" 'q'
zchar
`line1
line2` , metadata  uint8x `" ++ [233]%N ++ runes_of_ascii "` ,
    // " ++ [27880; 37322]%N ++ runes_of_ascii "
    }

")).
Eval vm_compute in ("<<<M984>>>" ++ check (runes_of_ascii "
packet Pad  {
    }packet packetx{ //x
repeatCount	, // packet A { u8 x, }
@leftPad
(
'\x00' ) tag	@lengthOf( u128 ) ,MetaDataX	@calculatedFrom( // a // b
""\" ++ [233]%N ++ runes_of_ascii """
    ) `tab	here`, // a // b
uint16 body
@calculatedFrom( ""abc"") `say ""hi""` , // trailing space 
}
    packet // packet A { u8 x, }
x{ u16 a1  `crlf
line` , }root packet Z9_ {
    @calculatedFrom(""CRC32"" ) repeat
string pack
`say ""hi""` ,
repeat
zchar[ 3] charz , //	t
i16 f32a @calculatedFrom(""{,}""
    )
, } packet
len {@lengthOf(//
crc ) zchar[ 00
//x
// packet A { u8 x, }
] f32a @calculatedFrom( ""it's"" // packet A { u8 x, }
)
, // " ++ [128512]%N ++ runes_of_ascii " emoji
} 	 ")).
Eval vm_compute in ("<<<M602>>>" ++ check (runes_of_ascii "packet
// 50% %s
// " ++ [27880; 37322]%N ++ runes_of_ascii "
Header {
zchar[
0123456789 ]i64_
    // @lengthOf(
    , @lengthOf(calculatedFrom ) u8x
calculatedFrom , @tag( //
1
) repeat float32
BodyLength ,chars crc	, repeat string	Header `{ , }` , @calculatedFrom( // packet A { u8 x, }
""\n""	)
    _x
@calculatedFrom(""it's"" ) , falsey{
    packetx
// c
// " ++ [128512]%N ++ runes_of_ascii " emoji
@lengthOf( Z9_ ) ,	As{
    zchar[
3 ]i64_ , } , string	u8x @calculatedFrom( ""a\""b""
) , }
, int32 T @calculatedFrom(
    ""{,}"" ) , len  { char[]chars@lengthOf( zchar ) , int16
    MetaDataX @lengthOf( a1
) , } , // `tick` ""quote"" 'q'
@tag(
    65535 )repeat f64 u , }
")).
Eval vm_compute in ("<<<M3334>>>" ++ check (runes_of_ascii "// top
options // c0a
  // c0b
{ // c1
msg_type // c2
= 255 o = '\x00' // c7a
  // c7b
; // c8
x_y_z =
    // c10
""abc"" // c11
; int // c13
= // c14a
  // c14b
00 // c15
; // c16
body = // c18
""\" ++ [233]%N ++ runes_of_ascii """ // c19
;
    // c20
}
    // c21
MetaData // c22
BodyLength // c23
{ // c24
repeatCount
    // c25
metadata // c26
`a\` // c27
, // c28a
  // c28b
f64 // c29a
  // c29b
float // c30a
  // c30b
`tab	here` ,
    // c32
zchar[ // c33
4294967296 ]
    // c35
metadata
    // c36
`" ++ [233]%N ++ runes_of_ascii "` // c37
, // c38a
  // c38b
zchar[
    // c39
255 ] float // c42a
  // c42b
,
    // c43
}
    // c44
")).
Eval vm_compute in ("<<<M898>>>" ++ check (runes_of_ascii "packet // packet A { u8 x, }
zchar { }
options {
//x
// a // b
pack = """ ++ [128512]%N ++ runes_of_ascii """
} MetaData float {int16
Pad
    //
    ,asx u , char[]
// 50% %s
// " ++ [27880; 37322]%N ++ runes_of_ascii "
uint8x
    ,
} packet
    uint8x {  @lengthOf( Pad  ) /// triple
Logon stringy,
    @lengthOf(float	) zchar[
    00]
    float ,
@leftPad( '\x00'
)char[ 0 ]  zchar@lengthOf(Header ) `say ""hi""`
    ,
    zchar[
007
    ] Packet  `u8 x,`, repeat
    float32 BodyLength,	char[]stringy@calculatedFrom(
""// no comment""  ) , char[00 // a // b
]charz , @calculatedFrom(	""\" ++ [233]%N ++ runes_of_ascii """ )i32 i64_ @calculatedFrom(
""it's"" ), }
")).
Eval vm_compute in ("<<<M3929>>>" ++ check (runes_of_ascii "root  packet
	options1

{
stringy @calculatedFrom(
    // " ++ [27880; 37322]%N ++ runes_of_ascii "
  	""packet"")

    ,// @lengthOf(
	match 
a1

    as Pad{ ""x y""
:	f32a

[ """ ++ [233]%N ++ runes_of_ascii "t" ++ [233]%N ++ runes_of_ascii """

, 1
        // " ++ [27880; 37322]%N ++ runes_of_ascii "
//
    , 
""it's"" ,

""a\""b""

,

    10

, 42

,
""" ++ [233]%N ++ runes_of_ascii "t" ++ [233]%N ++ runes_of_ascii """	,
    """ ++ [233]%N ++ runes_of_ascii "t" ++ [233]%N ++ runes_of_ascii """]
	:

    Packet  //
} 
      // `tick` ""quote"" 'q'

	// " ++ [128512]%N ++ runes_of_ascii " emoji
  ,repeat

float32 float `" ++ [28040; 24687; 31867; 22411]%N ++ runes_of_ascii "` ,
    u8 u8x
`crlf
line` ,
	@calculatedFrom(""" ++ [28040; 24687]%N ++ runes_of_ascii """ 
) @calculatedFrom(	""a\""b"")	char[	42 	 // " ++ [128512]%N ++ runes_of_ascii " emoji
		]	int
,float32 _x 	 // c
  @calculatedFrom( ""// no comment""  // c
  	)

    ,charz
pack, }
")).
Eval vm_compute in ("<<<M3484>>>" ++ check (runes_of_ascii "options{
LittleEndian 
=true	;	FixedStringPadFromLeft=true ;  FixedStringPadChar

= '0'
    ; }
packet

    Reject
{  @rightPad (
'0' )

char[	1
]Tail
, string msgKind,InQty95{
	u8 pad0
	,	}

, }
packet  Order
	{
uint32
Ref ,repeat 
i16

    seqNo
,  @rightPad	(

    '\x00')
char[ 5

    ] Tail
    ,
    Reject,

    f64

clOrdID

, }packet

    Heartbeat

{ 
repeat 
Order
, zchar[	8

] Tail ,
}	root	packet

Fill
{
repeat
    Order ,

    repeat
	string

    lastPx, 
}
")).
Eval vm_compute in ("<<<M217>>>" ++ check (runes_of_ascii "packet	crc { //
match	uint8x as x { 0: charz [0123456789, 00, 65535 ,
    //x
    ""abc""
//
// c
,
// " ++ [128512]%N ++ runes_of_ascii " emoji
//	t
10	, 42
,
""`tick`"" ,00
    ] //
:
// packet A { u8 x, }
// c
crc
    ,[ ""{,}"" ] :
    tag,	""abc""
    :
len , ""`tick`"" /// triple
: int }
    , }
packet u {
    string
// a // b
// " ++ [27880; 37322]%N ++ runes_of_ascii "
Header, @calculatedFrom( """ ++ [233]%N ++ runes_of_ascii "t" ++ [233]%N ++ runes_of_ascii """ )
repeat int Z9_ ,@calculatedFrom(
    ""// no comment""
) float32 // trailing space 
uint8x`u8 x,` , Foo
@calculatedFrom( // " ++ [128512]%N ++ runes_of_ascii " emoji
""a\\"" )`
` , }")).
Eval vm_compute in ("<<<M423>>>" ++ check (runes_of_ascii "options	{ u8x = ""x y"";
}
options { crc= false; }
    root
    packet a1 {
    repeat zchar[ 0 ] metadata , } packet Pad {
pack  { char[ 4294967296 ] tag ,i64 asx//x
@lengthOf( Z9_ )
`" ++ [233]%N ++ runes_of_ascii "` ,
    }, @lengthOf( // @lengthOf(
asx // packet A { u8 x, }
)zchar[
3// packet A { u8 x, }
]	pack
    @calculatedFrom( ""x y""
    // trailing space 
    ) ,
@calculatedFrom(
""packet"" )repeat falsey	`// not a comment`	, } options
{ metadata  =false zchar=
    '\x00'}
")).
Eval vm_compute in ("<<<M4345>>>" ++ check (runes_of_ascii "packet

    string_{
match
packetx	as  
      // c
	  u128{  10

:
calculatedFrom,  42
	:
	i8i8  ,
7
	:  rootA

    [

    ""a\\"" 	 // trailing space 
  , 007 	 //	t
		,

10
	,
""1""

    ,
""" ++ [28040; 24687]%N ++ runes_of_ascii """ ,
        // a // b
      // `tick` ""quote"" 'q'
    ""// no comment""	, ""a\""b""  ]  :T
	42
	:  crc
, }
    , len	@lengthOf(
	o
	) 
      //x
//x
  ``

    , 	 // a // b
@rightPad

    (	'\x00'  )

    repeat
    char[]
int

,  }")).
Eval vm_compute in ("<<<M610>>>" ++ check (runes_of_ascii "root
    // @lengthOf(
    packet trueish { string Packet
`say ""hi""` // " ++ [128512]%N ++ runes_of_ascii " emoji
,	Logon { f64
repeatCount  ,} , } options
{// a // b
Header =true; uint8x = '\x00' ; Z9_ =  int16	} packet tag {  repeat tag {	int8 uint8x	@calculatedFrom( ""it's"" )
    ,  repeat float32 // packet A { u8 x, }
crc , }  ,
} options { roots
= 255
; } root // c
packet
    Foo
    {
@tag(
7
)  packetx@calculatedFrom(
    ""`tick`"" )
, }
")).
Eval vm_compute in ("<<<M3931>>>" ++ check (runes_of_ascii "// " ++ [128512]%N ++ runes_of_ascii " emoji
MetaData len {
    chars len,
    u128 trueish `
    `,
    // packet A { u8 x, }
    int8 pack,
    zchar[00] repeatCount `it's`,
    zchar[42] calculatedFrom,
    lengthOf Pad,
}

MetaData lengthOf {
    //	t
    // @lengthOf(
    x_y_z asx,
}

packet x_y_z {
    repeat uint16 x_y_z,
    @tag(1)
    match u128 as rootA {
        3 : tag,
        ""\n"" : pack,
        [""" ++ [233]%N ++ runes_of_ascii "t" ++ [233]%N ++ runes_of_ascii """, 7] : T,
    },
}")).
Eval vm_compute in ("<<<M337>>>" ++ check (runes_of_ascii "packet Pad
{ @calculatedFrom( ""{,}""  ) match charz  as asx // " ++ [128512]%N ++ runes_of_ascii " emoji
{ 1
:  repeatCount// trailing space 
, ""{,}"" : falsey
,
10
// " ++ [27880; 37322]%N ++ runes_of_ascii "
// " ++ [27880; 37322]%N ++ runes_of_ascii "
: rootA
, 0
    : crc
    ,
00
    :
    roots, } ,
    /// triple
    zchar[3 ] A  ,msg_type `
`
    , MetaDataX As ,	@lengthOf(Z9_)
repeat f32 _x ,@lengthOf(	Pad
    )uint32
Logon,  @tag( 4294967296 ) // packet A { u8 x, }
T
    //
    ``,
}
")).
Eval vm_compute in ("<<<M330>>>" ++ check (runes_of_ascii "
packet uint8x {
    @lengthOf(
// a // b
//x
falsey ) // " ++ [128512]%N ++ runes_of_ascii " emoji
uint32 int , @lengthOf( BodyLength // c
)
    // trailing space 
    @calculatedFrom(
    ""a\""b""
) repeat
matchKey u/// triple
,
    asx MetaDataX `line1
line2` ,
@leftPad ( '\x00'
) repeat i64_ len,
    u, @calculatedFrom(
""abc""	) char[// 50% %s
65535 ]
    MetaDataX
// c
// @lengthOf(
`" ++ [28040; 24687; 31867; 22411]%N ++ runes_of_ascii "`, } 	 ")).
Eval vm_compute in ("<<<M1252>>>" ++ check (runes_of_ascii "MetaData// `tick` ""quote"" 'q'
Packet{ calculatedFrom BodyLength
    `{ , }` ,
int64 i8i8 `{ , }` , // `tick` ""quote"" 'q'
} packet  chars
{
//
// `tick` ""quote"" 'q'
} // a // b
root packet tag { @rightPad
(// trailing space 
) char[ 7 ]	roots
    // 50% %s
    @calculatedFrom( ""it's"" )
// c
// @lengthOf(
`it's`
    ,
// @lengthOf(
// trailing space 
}")).
Eval vm_compute in ("<<<M982>>>" ++ check (runes_of_ascii "MetaData u128 {
int64
a1`// not a comment` ,
}root	packet
string_{	@tag( 42 ) match zchar as
msg_type { 10 : int
} , @calculatedFrom( """ ++ [233]%N ++ runes_of_ascii "t" ++ [233]%N ++ runes_of_ascii """)
char[]  string_  , repeat char[7] string_/// triple
, @lengthOf( float) //
repeat
int x_y_z , }
packet
//	t
// @lengthOf(
As {
    //	t
    lengthOf @calculatedFrom(  ""CRC32"" )`two words`  , }
")).
Eval vm_compute in ("<<<M655>>>" ++ check (runes_of_ascii "packet
    f32a
{
@lengthOf(stringy
    ) // trailing space 
char[42 ] // c
body , trueish o ,char[] rootA @calculatedFrom(
""// no comment""
)
``
    , calculatedFrom `crlf
line` ,}  MetaData	o {i8i8 i8i8 `100% of %d`, msg_type	Z9_ , // " ++ [27880; 37322]%N ++ runes_of_ascii "
uint32 matchKey
, // a // b
} options  { crc
    = char[]
    ; } // @lengthOf(")).
Eval vm_compute in ("<<<M1308>>>" ++ check (runes_of_ascii "MetaData
Foo  { string msg_type `" ++ [28040; 24687; 31867; 22411]%N ++ runes_of_ascii "`, }
MetaData u8x {}  packet  Foo
//	t
//
{@lengthOf(
    tag)
u128 msg_type
,
    @calculatedFrom( ""// no comment"" )crc @calculatedFrom(""{,}""
) `doc`
,char[ 007 ]  roots
    , } options {
    calculatedFrom //	t
=float32
pack ='\x00' ; Packet	= ""// no comment""
    }")).
Eval vm_compute in ("<<<M933>>>" ++ check (runes_of_ascii "MetaData x
{	string Pad,
float32 zchar , char[]repeatCount ,stringy
f32a ,
repeatCount
tag , } MetaData
    A{ zchar[ 3 ]
string_ ,
    }
MetaData u128 {
u64 len ,	Packet // " ++ [128512]%N ++ runes_of_ascii " emoji
a1 , char[ 4294967296	]	chars
`two words`
, zchar[ 7 ] u128 `doc` , }
    //x
    options {x= // " ++ [27880; 37322]%N ++ runes_of_ascii "
false ; }")).
Eval vm_compute in ("<<<M4053>>>" ++ check (runes_of_ascii "  options  //

{
	repeatCount

    =

0;
msg_type
=float64
    ; options1= ""`tick`"" 
	    // `tick` ""quote"" 'q'
  ; 	 // packet A { u8 x, }
  tag = // c
""\" ++ [233]%N ++ runes_of_ascii """}
options {
// @lengthOf(
  // 50% %s

calculatedFrom  =

true
    ;

    Foo =  7 
crc 
= ""it's""
u	=false

    ;	}")).
Eval vm_compute in ("<<<M3838>>>" ++ check (runes_of_ascii "options {
    calculatedFrom = ""\n"";
}

root packet lengthOf {
    /// triple
    @calculatedFrom(""\" ++ [233]%N ++ runes_of_ascii """)
    repeatCount @calculatedFrom(""\" ++ [233]%N ++ runes_of_ascii """) `
    `,
    Logon,
    u @calculatedFrom(""it's""),
    metadata rootA,
    char[42] u @calculatedFrom(""a	b""),
}

packet Header {
}")).
Eval vm_compute in ("<<<M1594>>>" ++ check (runes_of_ascii "// 50% %s
packet	a1
    { zchar[
// a // b
// 50% %s
007]
T `it's`
    ,@rightPad
    // a // b
    (
'\x00')
    o repeatCount repeat }  packet Logon {  }packet	Logon //x
{ repeat // " ++ [128512]%N ++ runes_of_ascii " emoji
uint16 u128
    //
    `a\`,
falsey
@calculatedFrom(""packet"" ) ,
    } 	 ")).
Eval vm_compute in ("<<<M1582>>>" ++ check (runes_of_ascii "// 50% %s
packet	a1
    { zchar[
// a // b
// 50% %s
007]
T `it's`
    ,@rightPad
    // a // b
    (
'\x00')
    o o repeatCount , }  packet Logon {  }packet	Logon //x
{ repeat // " ++ [128512]%N ++ runes_of_ascii " emoji
uint16 u128
    //
    `a\`,
falsey
@calculatedFrom(""packet"" ) ,
    } 	 ")).
Eval vm_compute in ("<<<M1523>>>" ++ check (runes_of_ascii "// 50% %s
packet	{
    a1 zchar[
// a // b
// 50% %s
007]
T `it's`
    ,@rightPad
    // a // b
    (
'\x00')
    o repeatCount , }  packet Logon {  }packet	Logon //x
{ repeat // " ++ [128512]%N ++ runes_of_ascii " emoji
uint16 u128
    //
    `a\`,
falsey
@calculatedFrom(""packet"" ) ,
    } 	 ")).
Eval vm_compute in ("<<<M1683>>>" ++ check (runes_of_ascii "// 50% %s
packet	a1
    { zchar[
// a // b
// 50% %s
007]
T `it's`
    ,@rightPad
    // a // b
    (
'\x00')
    o repeatCount , }  packet Logon {  }packet	Logon //x
{ repeat // " ++ [128512]%N ++ runes_of_ascii " emoji
uint16 u128
    //
    `a\`,
falsey
@calculatedFrom(""packet"" ) }
    , 	 ")).
Eval vm_compute in ("<<<M1649>>>" ++ check (runes_of_ascii "// 50% %s
packet	a1
    { zchar[
// a // b
// 50% %s
007]
T `it's`
    ,@rightPad
    // a // b
    (
'\x00')
    o repeatCount , }  packet Logon {  }packet	Logon //x
{ repeat // " ++ [128512]%N ++ runes_of_ascii " emoji
uint16 {
    //
    `a\`,
falsey
@calculatedFrom(""packet"" ) ,
    } 	 ")).
Eval vm_compute in ("<<<M4290>>>" ++ check (runes_of_ascii "// a // b
packet
As { As	{_x@calculatedFrom(
""\" ++ [233]%N ++ runes_of_ascii """

    )  ,  i8 
metadata @lengthOf( repeatCount ) // `tick` ""quote"" 'q'
, 
float64

    lengthOf	`` 
      // packet A { u8 x, }
,
	o
`a\`	, }
,
	@lengthOf( f32a  ) repeat
tag
u128
	,
	}// @lengthOf(
")).
Eval vm_compute in ("<<<M1161>>>" ++ check (runes_of_ascii "options	{ Foo= true	;  }packet u128 {
    //x
    @calculatedFrom(
    // a // b
    ""x y""
    )
lengthOf @lengthOf(
    msg_type ) `line1
line2`, @tag( 4294967296) match
uint8x as
x{ 00 : // " ++ [27880; 37322]%N ++ runes_of_ascii "
T
,""`tick`"" : i64_ ,} ,
repeat // a // b
body , }
")).
Eval vm_compute in ("<<<M397>>>" ++ check (runes_of_ascii "// a // b
packet
As{As
{
_x @calculatedFrom(
""\" ++ [233]%N ++ runes_of_ascii """)
    , i8 metadata @lengthOf(	repeatCount)// `tick` ""quote"" 'q'
, float64 lengthOf ``
    // packet A { u8 x, }
    , o
    `a\` , } ,
@lengthOf( f32a )
repeat tag u128 , } // @lengthOf(")).
Eval vm_compute in ("<<<M4179>>>" ++ check (runes_of_ascii "root packet repeatCount {
    char[] crc `{ , }`,
    T {
        i64_ asx,
    },
    // " ++ [27880; 37322]%N ++ runes_of_ascii "
    @leftPad('0')
    char[00] a1 @lengthOf(Logon) `it's`,
    @tag(00)
    @calculatedFrom(""" ++ [233]%N ++ runes_of_ascii "t" ++ [233]%N ++ runes_of_ascii """)
    int32 x,
}

root packet tag {
}")).
Eval vm_compute in ("<<<M3592>>>" ++ check (runes_of_ascii "MetaData chars {
    zchar[255] uint8x,
    u8 body,// " ++ [27880; 37322]%N ++ runes_of_ascii "
    char[1] A,
    float32 As ``,
    BodyLength roots `// not a comment`,
}

options {
    Pad = 42;
    pack = true
    pack = false;// 50% %s
    len = ' ';
}")).
Eval vm_compute in ("<<<M345>>>" ++ check (runes_of_ascii "MetaData
    // `tick` ""quote"" 'q'
    x_y_z
// c
//	t
{ zchar[
    42 ]
    leftPad
`{ , }` ,	crc
    /// triple
    pack , f64 string_ `` , x_y_z i64_,float64 u8x
    `doc`  ,
    // 50% %s
    uint64 u , }
")).
Eval vm_compute in ("<<<M3437>>>" ++ check (runes_of_ascii "
root
packet

Frame 
{ u8 
K , 
Logon first

    ,  match
K

as	Body {1 :
Logon	, 2

:
	Logout
, }

    , }

    packet  Logon {

string user	,
	}
packet
    Logout{
    u16  reason

    ,	}")).
Eval vm_compute in ("<<<M4362>>>" ++ check (runes_of_ascii "packet As {
    zchar[3] o @lengthOf(Header) `doc`,
    repeat char[] string_,
    @tag(1)
    match BodyLength as msg_type {
        """ ++ [28040; 24687]%N ++ runes_of_ascii """ : u8x,
    },
    @tag(255)
    repeat char[] crc,
}")).
Eval vm_compute in ("<<<M1140>>>" ++ check (runes_of_ascii "MetaData
pack
{ u8 _x
    //x
    ,
    //	t
    zchar
    uint8x`two words`  ,  chars  i8i8 // trailing space 
,	}
MetaData
chars{
    //
    i64 pack	`` ,
} packet _x
{
    }

")).
Eval vm_compute in ("<<<M1640>>>" ++ check (runes_of_ascii "// 50% %s
packet	a1
    { zchar[
// a // b
// 50% %s
007]
T `it's`
    ,@rightPad
    // a // b
    (
'\x00')
    o repeatCount , }  packet Logon {  }packet	Logon //x
{")).
Eval vm_compute in ("<<<M4045>>>" ++ check (runes_of_ascii "  packet 	 /// triple
  matchKey	{@calculatedFrom(	// @lengthOf(
""// no comment""  ) 
repeat
    rootA, 	 // a // b
  body
    ``	,} 
packet
    u128
    {

    }
")).
Eval vm_compute in ("<<<M1053>>>" ++ check (runes_of_ascii "
options {
    // " ++ [128512]%N ++ runes_of_ascii " emoji
    Header
    /// triple
    = true ;
// `tick` ""quote"" 'q'
// a // b
float	=uint8
;	trueish
    = ""\" ++ [233]%N ++ runes_of_ascii """ ;Header=
    0 } /// triple")).
Eval vm_compute in ("<<<M2088>>>" ++ check (runes_of_ascii "MetaData BodyLength
{ int8 Foo
, string
    MetaDataX @lengthOf( float zchar ,pack options1
,asx string_, }
packet u8x {Foo@lengthOf(charz )
`" ++ [28040; 24687; 31867; 22411]%N ++ runes_of_ascii "`,  }
")).
Eval vm_compute in ("<<<M554>>>" ++ check (runes_of_ascii "packet f32a {
    } packet falsey {char[]calculatedFrom, }
root packet asx {
    @calculatedFrom( """ ++ [128512]%N ++ runes_of_ascii """ //
)
    uint8 trueish @lengthOf(packetx ) ,}")).
Eval vm_compute in ("<<<M2168>>>" ++ check (runes_of_ascii "MetaData BodyLength
{ int8 Foo
, string
    MetaDataX , float zchar ,pack options1
,asx string_, }
packet u8x {Foo@lengthOf(options )
`" ++ [28040; 24687; 31867; 22411]%N ++ runes_of_ascii "`,  }
")).
Eval vm_compute in ("<<<M3375>>>" ++ check (runes_of_ascii "
packet B{ 
u8
    a

    ,	}

root

packet
P {	u8
	K,

u64
    L

@lengthOf(

Body)
	,match
    K as

    Body

    {	1
	: B
, }
	,

}

")).
Eval vm_compute in ("<<<M2172>>>" ++ check (runes_of_ascii "MetaData BodyLength
{ int8 Foo
, string
    MetaDataX , float zchar ,pack options1
,asx string_, }
packet u8x {Foo@lengthOf(charz `" ++ [28040; 24687; 31867; 22411]%N ++ runes_of_ascii "`
),  }
")).
Eval vm_compute in ("<<<M182>>>" ++ check (runes_of_ascii "MetaData  len {	trueish int ,  i64 charz
    // " ++ [128512]%N ++ runes_of_ascii " emoji
    ,	int32 chars , u16
    Logon `100% of %d`
, zchar[00
] zchar
    ,/// triple
}")).
Eval vm_compute in ("<<<M2217>>>" ++ check (runes_of_ascii "options
    repeat
x_y_z// " ++ [27880; 37322]%N ++ runes_of_ascii "
= 10 ; }
packet body {
    @calculatedFrom(
// trailing space 
// " ++ [27880; 37322]%N ++ runes_of_ascii "
""1""
)	match T as Foo
    {
255 :T , }
,}")).
Eval vm_compute in ("<<<M50>>>" ++ check (runes_of_ascii "MetaData leftPad
    { uint64 tag	`{ , }`
, i64
    chars
`
`
    , }packet MetaDataX
    /// triple
    { char[ 0 ]
x `100% of %d` ,
}
")).
Eval vm_compute in ("<<<M2075>>>" ++ check (runes_of_ascii "MetaData BodyLength
{ int8 Foo
, 
    MetaDataX , float zchar ,pack options1
,asx string_, }
packet u8x {Foo@lengthOf(charz )
`" ++ [28040; 24687; 31867; 22411]%N ++ runes_of_ascii "`,  }
")).
Eval vm_compute in ("<<<M2036>>>" ++ check (runes_of_ascii "
pac@ket leftPad {
@leftPad( '0')
u32
i64_ `100% of %d` ,repeat// 50% %s
i8 chars
    ,
} MetaData
    f32a
{ // packet A { u8 x, }
}")).
Eval vm_compute in ("<<<M1968>>>" ++ check (runes_of_ascii "
packet leftPad {
@leftPad( '0')
u32
`100% of %d` i64_ ,repeat// 50% %s
i8 chars
    ,
} MetaData
    f32a
{ // packet A { u8 x, }
}")).
Eval vm_compute in ("<<<M2285>>>" ++ check (runes_of_ascii "options
    {
x_y_z// " ++ [27880; 37322]%N ++ runes_of_ascii "
= 10 ; }
packet body {
    @calculatedFrom(
// trailing space 
// " ++ [27880; 37322]%N ++ runes_of_ascii "
""1""
)	match T Foo as
    {
255 :T , }
,}")).
Eval vm_compute in ("<<<M2238>>>" ++ check (runes_of_ascii "options
    {
x_y_z// " ++ [27880; 37322]%N ++ runes_of_ascii "
= 10 ; 
packet body {
    @calculatedFrom(
// trailing space 
// " ++ [27880; 37322]%N ++ runes_of_ascii "
""1""
)	match T as Foo
    {
255 :T , }
,}")).
Eval vm_compute in ("<<<M1961>>>" ++ check (runes_of_ascii "
packet leftPad {
@leftPad( '0')

i64_ `100% of %d` ,repeat// 50% %s
i8 chars
    ,
} MetaData
    f32a
{ // packet A { u8 x, }
}")).
Eval vm_compute in ("<<<M3627>>>" ++ check (runes_of_ascii "packet
A
	{	match

k
    as 
n

    { [

1

, ""bb"" ,
    007, ""d""
,

5,""f"", 7 , ""h"" ,9

    ,  ""j""
,
11

]: B ,
2
: C }
,
}")).
Eval vm_compute in ("<<<M2312>>>" ++ check (runes_of_ascii "options
    {
x_y_z// " ++ [27880; 37322]%N ++ runes_of_ascii "
= 10 ; }
packet body {
    @calculatedFrom(
// trailing space 
// " ++ [27880; 37322]%N ++ runes_of_ascii "
""1""
)	match T as Foo
    {
255 :")).
Eval vm_compute in ("<<<M1974>>>" ++ check (runes_of_ascii "
packet leftPad {
@leftPad( '0')
u32
i64_ = ,repeat// 50% %s
i8 chars
    ,
} MetaData
    f32a
{ // packet A { u8 x, }
}")).
Eval vm_compute in ("<<<M4266>>>" ++ check (runes_of_ascii "packet
T

{
    match  repeatCount

as
    calculatedFrom{[ 65535
]

    :
    As 
}
	,}
        // trailing space 
 
")).
Eval vm_compute in ("<<<M1919>>>" ++ check (runes_of_ascii "packet o {
    roots `it's`
// trailing space 
//x
, char[ 4'1'2
    ]  A, // " ++ [27880; 37322]%N ++ runes_of_ascii "
f64
repeatCount
    `crlf
line`
,}")).
Eval vm_compute in ("<<<M347>>>" ++ check (runes_of_ascii "/// triple
root packet	x
// " ++ [128512]%N ++ runes_of_ascii " emoji
// c
{ @lengthOf(
calculatedFrom ) string_ @lengthOf(i8i8
) ,
} // @lengthOf(")).
Eval vm_compute in ("<<<M1874>>>" ++ check (runes_of_ascii "packet o {
    roots `it's`
// trailing space 
//x
, char[ 42
    ]  ,A // " ++ [27880; 37322]%N ++ runes_of_ascii "
f64
repeatCount
    `crlf
line`
,}")).
Eval vm_compute in ("<<<M4405>>>" ++ check (runes_of_ascii "packet
A {

match k as
	n {

[""a"" ,
""bb"" ,007 
,
	""d""	,""e""
	,
	66 ,

    ""g"" ,
""h""	, 9

,

""j""]: B 2:

C
},}
")).
Eval vm_compute in ("<<<M1845>>>" ++ check (runes_of_ascii "packet o {
    { `it's`
// trailing space 
//x
, char[ 42
    ]  A, // " ++ [27880; 37322]%N ++ runes_of_ascii "
f64
repeatCount
    `crlf
line`
,}")).
Eval vm_compute in ("<<<M3006>>>" ++ check (runes_of_ascii "packet A {
  match k as n {
    [""a"", 22, ""c c"", 4, ""e"", 66, ""g"", 8, ""i"", 10, ""k"", 12] : B
    2 : C
  },
}")).
Eval vm_compute in ("<<<M3026>>>" ++ check (runes_of_ascii "packet A {
    u16 len @lengthOf(body) `
`,
    u32 crc @calculatedFrom(""CRC32"") `
`,
    string body,
}")).
Eval vm_compute in ("<<<M2409>>>" ++ check (runes_of_ascii "MetaData
    calculatedFrom
{ zchar[  10 ]
    As`tab	here`,
    }// trailing space 
options  { roots")).
Eval vm_compute in ("<<<M3984>>>" ++ check (runes_of_ascii "

  options 
{
LittleEndian =
true
;	}
    root 
packet  P
	{ repeat	char cs ,u8
x

    ,	}

")).
Eval vm_compute in ("<<<M37>>>" ++ check (runes_of_ascii "MetaData metadata {
    int8
MetaDataX
    ,char
Header /// triple
`say ""hi""` , A msg_type ,}
")).
Eval vm_compute in ("<<<M1348>>>" ++ check (runes_of_ascii "packet
T
// packet A { u8 x, }
// c
{ repeat string float `a\` ,}
options {
uint8x =
f64 }
")).
Eval vm_compute in ("<<<M1478>>>" ++ check (runes_of_ascii "packet
T
{ match repeatCount as	calculatedFrom
{ [65535 ]	: As	, ,
} ,}
// trailing space 
")).
Eval vm_compute in ("<<<M2010>>>" ++ check (runes_of_ascii "
packet leftPad {
@leftPad( '0')
u32
i64_ `100% of %d` ,repeat// 50% %s
i8 chars
    ,
}")).
Eval vm_compute in ("<<<M1758>>>" ++ check (runes_of_ascii "options{  lengthOf =//x
i16;
    BodyLength = 0 options pack
= false;
    A = char[ 3 ] }")).
Eval vm_compute in ("<<<M2973>>>" ++ check (runes_of_ascii "packet A {
  match k as n {
    [1, 22, 007, 4, 5, 66, 7, 8, 9, 10] : B,
    2 : C
  },
}")).
Eval vm_compute in ("<<<M3031>>>" ++ check (runes_of_ascii "packet A {
    B b `a
    b
  c`,
    B `a
    b
  c`,
    repeat B bs `a
    b
  c`,
}")).
Eval vm_compute in ("<<<M3950>>>" ++ check (runes_of_ascii "packet
A
{ u32	crc @calculatedFrom(	""x\
y"" )

,
	@calculatedFrom(""x\
y"" )  u8  y
	,} ")).
Eval vm_compute in ("<<<M1733>>>" ++ check (runes_of_ascii "options{  lengthOf =//x
u32;
    BodyLength = 0 ; pack
= false;
    A = char[ 3 ] }")).
Eval vm_compute in ("<<<M1765>>>" ++ check (runes_of_ascii "options{  lengthOf =//x
i16;
    BodyLength = 0 ; pack
 false;
    A = char[ 3 ] }")).
Eval vm_compute in ("<<<M1763>>>" ++ check (runes_of_ascii "options{  lengthOf =//x
i16;
    BodyLength = 0 ; =
= false;
    A = char[ 3 ] }")).
Eval vm_compute in ("<<<M1318>>>" ++ check (runes_of_ascii "options { rootA
= """ ++ [233]%N ++ runes_of_ascii "t" ++ [233]%N ++ runes_of_ascii """ tag =
true body
=	'0' }
    root packet
    leftPad{}")).
Eval vm_compute in ("<<<M3264>>>" ++ check (runes_of_ascii "MetaData Foo { zchar[ 0 ] matchKey , } options
// c
{ lengthOf = i32 u = 00 ; }")).
Eval vm_compute in ("<<<M1711>>>" ++ check (runes_of_ascii "{  lengthOf =//x
i16;
    BodyLength = 0 ; pack
= false;
    A = char[ 3 ] }")).
Eval vm_compute in ("<<<M662>>>" ++ check (runes_of_ascii "options{ charz =// " ++ [128512]%N ++ runes_of_ascii " emoji
false ; body =
//	t
//x
'\x00' ; int = '0' } 	 ")).
Eval vm_compute in ("<<<M3055>>>" ++ check (runes_of_ascii "packet A {
    B b `tab
	x`,
    B `tab
	x`,
    repeat B bs `tab
	x`,
}")).
Eval vm_compute in ("<<<M2904>>>" ++ check (runes_of_ascii "packet A {
  match k as n {
    [1, 22, ""c c"", 4] : B
    2 : C
  },
}")).
Eval vm_compute in ("<<<M411>>>" ++ check (runes_of_ascii "options{ x_y_z =
false Logon =  ""packet""; // packet A { u8 x, }
}
")).
Eval vm_compute in ("<<<M4093>>>" ++ check (runes_of_ascii "MetaData roots {
    uint8x trueish,//
    u32 len,
}// @lengthOf(")).
Eval vm_compute in ("<<<M1909>>>" ++ check (runes_of_ascii "packet o {
    roots `it's`
// trailing space 
//x
, char[ 42
 ")).
Eval vm_compute in ("<<<M2920>>>" ++ check (runes_of_ascii "packet A { Inner { match k as n { [1,22,007,4,5] : B, }, }, }")).
Eval vm_compute in ("<<<M950>>>" ++ check (runes_of_ascii "
packet
    Pad {
int64
repeatCount
    `" ++ [233]%N ++ runes_of_ascii "` , }options {}
")).
Eval vm_compute in ("<<<M4454>>>" ++ check (runes_of_ascii "packet pack {
    zchar[255] f32a @calculatedFrom(""a\\""),
}")).
Eval vm_compute in ("<<<M2869>>>" ++ check (runes_of_ascii "packet A {
  match k as n {
    [1] : B
    2 : C
  },
}")).
Eval vm_compute in ("<<<M2089>>>" ++ check (runes_of_ascii "MetaData BodyLength
{ int8 Foo
, string
    MetaDataX")).
Eval vm_compute in ("<<<M4195>>>" ++ check (runes_of_ascii "root packet A {
    u8 x `a
        
        b`,
}")).
Eval vm_compute in ("<<<M2262>>>" ++ check (runes_of_ascii "options
    {
x_y_z// " ++ [27880; 37322]%N ++ runes_of_ascii "
= 10 ; }
packet body {")).
Eval vm_compute in ("<<<M3824>>>" ++ check (runes_of_ascii "root
packet uint8x
	{ }
	root packet
	Pad{ } ")).
Eval vm_compute in ("<<<M3211>>>" ++ check (runes_of_ascii "packet A { char[ // a
 3 // b
 ] // c
 x, }")).
Eval vm_compute in ("<<<M3648>>>" ++ check (runes_of_ascii "root packet A {
    u8 x `a
        b`,
}")).
Eval vm_compute in ("<<<M2782>>>" ++ check (runes_of_ascii "RLW#Cr\HnJuEcp4;]td&0WrJO&OqSsKnu (!ccg")).
Eval vm_compute in ("<<<M2626>>>" ++ check (runes_of_ascii "packet A { match k as n { '0' : B }, }")).
Eval vm_compute in ("<<<M914>>>" ++ check (runes_of_ascii "options	{ i8i8	= """ ++ [128512]%N ++ runes_of_ascii """;A=
    i16 } //")).
Eval vm_compute in ("<<<M797>>>" ++ check (runes_of_ascii "packet
Packet { char[]
    len ,}
")).
Eval vm_compute in ("<<<M2621>>>" ++ check (runes_of_ascii "packet A { match k as { 1 : B }, }")).
Eval vm_compute in ("<<<M1540>>>" ++ check (runes_of_ascii "// 50% %s
packet	a1
    { zchar[")).
Eval vm_compute in ("<<<M2727>>>" ++ check (runes_of_ascii "S$SH3 2s,W$*uNi`du.E1%RB1PJJ""Y;")).
Eval vm_compute in ("<<<M3129>>>" ++ check (runes_of_ascii "packet A {
 u8 x `d" ++ [8232]%N ++ runes_of_ascii "`, // c" ++ [8232]%N ++ runes_of_ascii "
}")).
Eval vm_compute in ("<<<M425>>>" ++ check (runes_of_ascii "packet
calculatedFrom
{ } //")).
Eval vm_compute in ("<<<M1950>>>" ++ check (runes_of_ascii "
packet leftPad {
@leftPad")).
Eval vm_compute in ("<<<M3024>>>" ++ check (runes_of_ascii "packet A {
    u8 x `
`,
}")).
Eval vm_compute in ("<<<M2676>>>" ++ check (runes_of_ascii "options { options = 1; }")).
Eval vm_compute in ("<<<M588>>>" ++ check (runes_of_ascii "
packet
options1 {
}
")).
Eval vm_compute in ("<<<M3608>>>" ++ check (runes_of_ascii "MetaData metadata {
}")).
Eval vm_compute in ("<<<M2547>>>" ++ check (runes_of_ascii ": , ; = ( ) [ ] { }")).
Eval vm_compute in ("<<<M2763>>>" ++ check (runes_of_ascii "zchar[ false match")).
Eval vm_compute in ("<<<M3168>>>" ++ check (runes_of_ascii "// c" ++ [65279]%N ++ runes_of_ascii "
packet A {
}")).
Eval vm_compute in ("<<<M3120>>>" ++ check (runes_of_ascii "packet A {
}// c" ++ [8202]%N)).
Eval vm_compute in ("<<<M4286>>>" ++ check (runes_of_ascii "packet zchar {
}")).
Eval vm_compute in ("<<<M142>>>" ++ check (runes_of_ascii "  options{ }
")).
Eval vm_compute in ("<<<M2495>>>" ++ check (runes_of_ascii "@lengthOf (")).
Eval vm_compute in ("<<<M2838>>>" ++ check (runes_of_ascii "char[] as")).
Eval vm_compute in ("<<<M2825>>>" ++ check (runes_of_ascii "VXXc)1g")).
Eval vm_compute in ("<<<M2438>>>" ++ check (runes_of_ascii "char_")).
Eval vm_compute in ("<<<M3136>>>" ++ check (runes_of_ascii "// c" ++ [8239]%N)).
Eval vm_compute in ("<<<M2841>>>" ++ check (runes_of_ascii "D-{a")).
Eval vm_compute in ("<<<M2559>>>" ++ check (runes_of_ascii "a" ++ [8232]%N ++ runes_of_ascii "b")).
Eval vm_compute in ("<<<M2462>>>" ++ check (runes_of_ascii "a")).
