From FP Require Import Lexer Parser ShowPT Digest Formatter.
From Coq Require Import String List NArith.
Import ListNotations.
Open Scope string_scope.
Set Printing Width 100000000.
Set Printing Depth 100000000.
Definition show_fres (r : fres) : string :=
  match r with
  | FOk s => "OK:" ++ sh_escaped s ""
  | FErr s => "ERR:" ++ sh_escaped s ""
  | FPanic p => "PANIC:" ++ p
  end.
Definition check (rs : list rune) : string := digest (show_fres (format_res rs)).
Definition full (rs : list rune) : string := show_fres (format_res rs).
Eval vm_compute in ("<<<M930>>>" ++ check (runes_of_ascii "  root packet
    i64_ { u64  Z9_@lengthOf( // packet A { u8 x, }
uint8x )	`
`
    , repeat zchar x ,
    match Packet as
    a1
    { [ ""a	b""] : packetx [ 255 , ""x y"" , """ ++ [28040; 24687]%N ++ runes_of_ascii """	, 10, ""it's"" , 4294967296, """" ]: falsey	, } , rootA {repeat
charz { // " ++ [128512]%N ++ runes_of_ascii " emoji
match	x as	a1
{ 10
: metadata //
,[
""{,}""
,	00 , ""a	b"" ,007
    , ""abc"" ,""// no comment""	]
: int	,	3:	tag , 255 : x ,
""{,}""  :
Z9_, } ,
} ,
    //
    body // @lengthOf(
{
    repeat roots {
f32
    i8i8/// triple
@calculatedFrom(
""a\\""	)
    `line1
line2` , }	,i8 leftPad `doc`	, }
,o@calculatedFrom(
    """ ++ [28040; 24687]%N ++ runes_of_ascii """ )	`" ++ [28040; 24687; 31867; 22411]%N ++ runes_of_ascii "` ,
} , match calculatedFrom as chars {
    // " ++ [27880; 37322]%N ++ runes_of_ascii "
    10 :  i64_ , } , @lengthOf( i8i8
    ) @tag(3
)
match Logon as o { [ """"
    // a // b
    , //
42,""it's"" ,
    """ ++ [28040; 24687]%N ++ runes_of_ascii """ ,"""" ,	""" ++ [28040; 24687]%N ++ runes_of_ascii """ ] : tag , }// " ++ [27880; 37322]%N ++ runes_of_ascii "
, // `tick` ""quote"" 'q'
zchar[0123456789] rootA @calculatedFrom(
    ""abc"" ) ,zchar[ 4294967296	] Z9_ ,
zchar[
65535
// " ++ [128512]%N ++ runes_of_ascii " emoji
// " ++ [128512]%N ++ runes_of_ascii " emoji
]Header @lengthOf(
trueish
    ) ,@tag(
// `tick` ""quote"" 'q'
//x
0123456789 // " ++ [27880; 37322]%N ++ runes_of_ascii "
) repeat trueish { float{repeat char[ 10
] metadata, f32 float ,
As
    @calculatedFrom(
""" ++ [233]%N ++ runes_of_ascii "t" ++ [233]%N ++ runes_of_ascii """
    )  , tag@calculatedFrom( ""CRC32"" // trailing space 
) `line1
line2`
    , } ,} , } packet packetx { char[]
    options1 ,
//
//x
@calculatedFrom( """ ++ [28040; 24687]%N ++ runes_of_ascii """  )@tag(	1
/// triple
//
)
    match
    lengthOf as calculatedFrom
    {""packet""
    :
    //
    uint8x /// triple
[ """ ++ [128512]%N ++ runes_of_ascii """	]: trueish
    ,
[ ""CRC32"" ,  3
    ] : uint8x , [ ""\n"" ,
""{,}"" ] //
: metadata ,
} ,@tag( 00 )match Foo
as
falsey { 0 : pack
    , } , @calculatedFrom(  ""{,}"")	repeat Logon
    `" ++ [233]%N ++ runes_of_ascii "`
,
    @lengthOf(stringy) A @lengthOf( pack ) ,
@tag(	00 // packet A { u8 x, }
) match u8x as Packet {65535 : _x
    ,
}	,
    // a // b
    @rightPad ( )	leftPad
    @calculatedFrom( // packet A { u8 x, }
"""" )`
` /// triple
, @calculatedFrom(
""""  ) @tag(// trailing space 
4294967296 )
@tag( 7 ) zchar[// `tick` ""quote"" 'q'
10 ]
asx `tab	here`
, @lengthOf(options1)
    //
    f32 packetx ,
    // trailing space 
    calculatedFrom {
    zchar[0
]Packet
, } , // @lengthOf(
} MetaData
    u128
{ }packet  o{ @lengthOf( lengthOf ) tag	body  `line1
line2`
    ,packetx , repeat uint32 chars ,
match pack as u128  { ""it's"" : a1, [ ""x y""
, ""it's"" ] : packetx
/// triple
// @lengthOf(
, }, @leftPad (/// triple
)	@calculatedFrom( ""packet""
)
    //
    @calculatedFrom(
""1"")
    match i8i8 as Pad { [ 1
, 4294967296 ,
// `tick` ""quote"" 'q'
//x
""\n"" ] :
    T, }
, tag
    Foo	, A{ repeat
// a // b
// " ++ [128512]%N ++ runes_of_ascii " emoji
pack
, // `tick` ""quote"" 'q'
repeat T {
string asx@calculatedFrom( ""// no comment"" )`
`//	t
,
    char[] x
@lengthOf( trueish	) // a // b
,	zchar[
007] body @lengthOf(  A
    )	`two words` , }
, repeat uint8x{ match
leftPad as  A {
[ ""\" ++ [233]%N ++ runes_of_ascii """ ] : metadata , }// @lengthOf(
,	repeat MetaDataX//
int `u8 x,` , match rootA as  Foo { ""x y"": Logon,	},
match MetaDataX as
    // c
    metadata
{ 4294967296 // @lengthOf(
: _x , [""{,}"" , """" // `tick` ""quote"" 'q'
, ""1"" ,// " ++ [128512]%N ++ runes_of_ascii " emoji
4294967296 , ""\" ++ [233]%N ++ runes_of_ascii """
    , ""abc""
    // packet A { u8 x, }
    ] : roots , [""{,}"" // trailing space 
,
    """ ++ [128512]%N ++ runes_of_ascii """] : Z9_  ,
""a	b""	:
trueish  , ""\" ++ [233]%N ++ runes_of_ascii """ :int
[
    0 , 1  ]:
i64_, },
    } // @lengthOf(
, }	, repeat chars u8x,	Logon
int `u8 x,` ,
repeat packetx
    `a\`
,  }
")).
Eval vm_compute in ("<<<M265>>>" ++ check (runes_of_ascii "MetaData MetaDataX
{
    Foo BodyLength // packet A { u8 x, }
, As T , }options { calculatedFrom = true  ;// " ++ [27880; 37322]%N ++ runes_of_ascii "
Header
= true}
// trailing space 
// c
packet tag {	@leftPad (
    '\x00') @lengthOf( Foo)// a // b
@tag(
    42)string body
    ,
@calculatedFrom(""abc"")
char[ 00
]	len,@calculatedFrom( """ ++ [128512]%N ++ runes_of_ascii """
)	repeat tag ,match msg_type as // @lengthOf(
Header {	65535
//
// @lengthOf(
: roots , ""abc"" //
: string_ , [ 007 , 0
    // `tick` ""quote"" 'q'
    ,	007 ]:
// " ++ [128512]%N ++ runes_of_ascii " emoji
// a // b
zchar 255
    //
    : Packet [ ""packet"" , 0 ,
    ""\" ++ [233]%N ++ runes_of_ascii """ , ""x y"" , 65535 , """ ++ [233]%N ++ runes_of_ascii "t" ++ [233]%N ++ runes_of_ascii """ , 0123456789
,
7]
: //
matchKey} ,repeat
int64
metadata`
`
,
i64_
`` //
, char[42 ] MetaDataX
// `tick` ""quote"" 'q'
// c
@calculatedFrom( ""CRC32"" ) , zchar[ 255 ]
    //
    roots	@lengthOf(
    options1
    ) `two words` , msg_type @calculatedFrom(
    //x
    ""\n""  ) ,
    u len , } packet x {
} packet falsey
{  @calculatedFrom(
""a	b""
)
    int64 falsey
    `{ , }`,
    repeat f64 crc// trailing space 
,
    @tag(	255) uint32 // a // b
chars `" ++ [28040; 24687; 31867; 22411]%N ++ runes_of_ascii "` , @leftPad ( '\x00'	)@lengthOf( falsey )
@calculatedFrom(	""a	b"" )  stringy { zchar[ // " ++ [27880; 37322]%N ++ runes_of_ascii "
7	] Pad `line1
line2` , string
    pack,
    // @lengthOf(
    float64 string_ ,	},	repeat rootA{	match Logon as
    /// triple
    o // " ++ [27880; 37322]%N ++ runes_of_ascii "
{ 007 //x
:leftPad
    , 0	: T , ""CRC32"" :
T
[ ""a	b"" ]: Logon , } ,
    match // @lengthOf(
x_y_z as
_x
{ 10
:
metadata , """ ++ [233]%N ++ runes_of_ascii "t" ++ [233]%N ++ runes_of_ascii """
    : string_,  } ,} ,
// c
/// triple
o{ options1
    @calculatedFrom("""" ) ,	repeat i32
body, } , @tag(1 /// triple
) match packetx// " ++ [27880; 37322]%N ++ runes_of_ascii "
as rootA
{
""" ++ [128512]%N ++ runes_of_ascii """:
// `tick` ""quote"" 'q'
//x
zchar  ,
    7 :
    zchar  ,
[ 0 , 42,
""a\\"" , 0123456789	, ""it's""
,3 //	t
,
""abc""	, 0123456789	]: lengthOf,
// " ++ [27880; 37322]%N ++ runes_of_ascii "
//x
0
// trailing space 
// " ++ [27880; 37322]%N ++ runes_of_ascii "
: _x, ""1"":
    Header , }
    , @rightPad
    // c
    ( ) repeat pack {
match MetaDataX
    as o { ""a\""b"" : Pad
[ ""a\""b"" ]:A , 1
: rootA  , }
    , match	calculatedFrom as T/// triple
{ 65535  : stringy , // " ++ [27880; 37322]%N ++ runes_of_ascii "
65535 :  Packet ,
    [
007 , ""CRC32""
    , 00 , 3 ,
    65535
,	""x y"" ,65535 ]: matchKey/// triple
, 007
: rootA
,// @lengthOf(
}, },char[] u128
,// a // b
}")).
Eval vm_compute in ("<<<M3679>>>" ++ check (runes_of_ascii "root

packet
	a1
	{uint64
charz
, BodyLength
    _x	`
` ,
	u64 roots
	`tab	here`, match

calculatedFrom
as calculatedFrom	{ 
10 
:
leftPad
} 
, 
i64_ @calculatedFrom(
""// no comment""
)
,
match 
    // a // b
  /// triple
  len

as	BodyLength { [""CRC32""//x
  ,""\" ++ [233]%N ++ runes_of_ascii """
	] :  MetaDataX  ,

    } , 
uint64
trueish `u8 x,` // trailing space 

, repeat
	i32
options1  , // @lengthOf(

}	packet
    pack//	t
	  {float32
asx  `a\`
,int64
charz
//	t
	@lengthOf(
    repeatCount
)
    `" ++ [28040; 24687; 31867; 22411]%N ++ runes_of_ascii "`, 
@lengthOf( u8x
) BodyLength
    @calculatedFrom( 
""a\\""
    ) ,
@lengthOf( Packet

) repeat
u32
    Pad
,  /// triple
  	}
packet
	options1  {
	@rightPad

(
	'0' )
	i8i8 @lengthOf(  stringy)
    ,	int64
	As

, 
f64

    crc@lengthOf( u128)
    ,
rootA  @calculatedFrom(  ""1""
)
    `a\`

    ,} packet	_x

{

    repeat
T
x_y_z

// trailing space 
  // @lengthOf(
    `line1
line2`
, } root

    packet  //x

  Foo
    {  @lengthOf(
    Logon) @calculatedFrom(
    ""{,}""

    )

@calculatedFrom(

    ""`tick`"" 
) match 
roots  // packet A { u8 x, }
  	as
    charz 
{	7
:string_ 
        //
    // `tick` ""quote"" 'q'

}
,
    u64// trailing space 
    u 
@calculatedFrom(	""\" ++ [233]%N ++ runes_of_ascii """
)
// trailing space 
	// a // b
,

    @tag(	007)
	    // packet A { u8 x, }
	  @lengthOf(
    zchar	)	match
    body
    as
trueish {
[
10 ,
""packet""  , 3

,
	0 
,
	00, """" ]  :repeatCount 
    // a // b
  ,// " ++ [128512]%N ++ runes_of_ascii " emoji
  [ 	 // `tick` ""quote"" 'q'
	4294967296
] :	Logon[
    ""CRC32""
    ,

""it's""
	]: x_y_z
, }
, T
x
    ,  Pad
,u8x
    T
`{ , }`, 
@lengthOf(
As ) match  o
as

repeatCount // a // b
    {
	[
255	]  :
uint8x 	 // a // b
  	,}

    ,
u128 Foo,
} ")).
Eval vm_compute in ("<<<M4443>>>" ++ check (runes_of_ascii "MetaData Logon {
    string_ MetaDataX `
        `,
}

root packet Pad {
    asx @lengthOf(BodyLength),
}

packet Pad {
    @calculatedFrom(""a	b"")
    zchar[7] x `a\`,
    @lengthOf(msg_type)
    int32 Logon @lengthOf(u128) `two words`,
    @lengthOf(asx)
    match o as asx {
        1 : crc,
        00 : f32a,
    },
    char[1] leftPad @lengthOf(string_) `
        `,
    f32 trueish @calculatedFrom("""") ``,
    As,
    x_y_z {
        match Packet as int {
            007 : x,
            // packet A { u8 x, }
            """ ++ [28040; 24687]%N ++ runes_of_ascii """ : options1,
            ""packet"" : repeatCount,
            ""\n"" : x,
        },
        char[] i8i8 @lengthOf(x_y_z) `two words`,
        match crc as x_y_z {
            ""CRC32"" : Z9_,
        },
        packetx,
    },
    repeat char[0] asx,
    @calculatedFrom(""1"")
    char[00] float,
    repeat i32 msg_type,
}

packet x_y_z {
    @calculatedFrom(""a\\"")
    @calculatedFrom(""packet"")
    uint8x @calculatedFrom(""""),
    @lengthOf(x)
    u8x x,
    @calculatedFrom(""a	b"")
    int16 pack,
    match Pad as T {
        [00] : leftPad,
        ""CRC32"" : body,
        //x
        3 : zchar,
        1 : u8x,
        7 : options1,
        4294967296 : falsey,
    },
}

packet T {
    zchar[65535] roots,
    int x `crlf
        line`,
    @lengthOf(int)
    charz {
        i64_ `" ++ [28040; 24687; 31867; 22411]%N ++ runes_of_ascii "`,
        zchar[42] len @calculatedFrom(""" ++ [233]%N ++ runes_of_ascii "t" ++ [233]%N ++ runes_of_ascii """),
        repeat i8 o,// " ++ [27880; 37322]%N ++ runes_of_ascii "
        char[0] options1 `doc`,
    },
    @lengthOf(roots)
    string Header,
}")).
Eval vm_compute in ("<<<M4362>>>" ++ check (runes_of_ascii "// top
options {
    // c1
    LittleEndian = false;// c5
    FixedStringPadFromLeft = false;// c9
    FixedStringPadChar = ' ';
}// c14

packet Fill {
    // c17a
    // c17b
    uint16 Qty,
    uint64 clOrdID,
    repeat i64 Flags,
}

packet Ack {
    // c31
    zchar[7] clOrdID,// c36
    u64 lastPx,// c39
    char[] Note,// c42
    repeat Fill,// c45a
    // c45b
    int32 count,// c48
}

// c49
packet Quote {
    u8 venue,// c55a
    // c55b
    InRef40 {
        // c57
        char[] Qty,// c60a
    },
    zchar[5] Flags,// c67a
    @rightPad('\x00')
    // c71
    char[12] msgKind,
}// c77a

// c77b
packet Logout {
    // c80
    InSym79 {
        // c82
        int32 Qty,// c85a
        // c85b
        Fill,
        char[3] x,
        // c92
        repeat InNote29 {
            // c95a
            // c95b
            i16 price,// c98a
            // c98b
            Ack,// c100a
            // c100b
            f64 x,// c103
            zchar[8] count,// c108a
        },// c110
    },
}

root packet Logon {
    zchar[1] sym,
    u32 count,
    u16 tag7 @lengthOf(Body),
    match count as Body {
        // c136
        [122, 152] : Ack,
        118 : Logout,
        // c148
        61 : Quote,
        161 : Fill,
        // c156
    },// c158a
    // c158b
    u32 Acct @calculatedFrom(""CRC32""),
}// c165a")).
Eval vm_compute in ("<<<M568>>>" ++ check (runes_of_ascii "
options {a1= 4294967296 ;
    //	t
    u =	"""" BodyLength =0123456789 ;
}
    packet float{
    char[ 10// trailing space 
]
    calculatedFrom `say ""hi""`
,}	packet  charz
    { u
{
    match string_
    as crc {
0 : zchar//x
4294967296:// packet A { u8 x, }
u 255 : falsey }
    ,len@lengthOf(
// a // b
// c
asx )`tab	here`
    ,o @calculatedFrom( ""\n"" ), },// " ++ [128512]%N ++ runes_of_ascii " emoji
} options
{  T = false ;}  packet
calculatedFrom {
    match u8x
as leftPad { """ ++ [233]%N ++ runes_of_ascii "t" ++ [233]%N ++ runes_of_ascii """ //x
:packetx , ""\n"" :lengthOf ,
007 :
    pack 007 :
BodyLength
,
    ""a\\""  :
charz}
, @tag(
    7 // trailing space 
)body { repeat char[
7 ]// packet A { u8 x, }
_x`" ++ [28040; 24687; 31867; 22411]%N ++ runes_of_ascii "` , } ,	@tag(// " ++ [128512]%N ++ runes_of_ascii " emoji
42 )string  tag `crlf
line`	,  @tag( // " ++ [27880; 37322]%N ++ runes_of_ascii "
00 )repeat char[	0  ] calculatedFrom `tab	here`, u16 Z9_ @calculatedFrom( ""{,}"" ) ,
//x
//x
@calculatedFrom(
    ""\" ++ [233]%N ++ runes_of_ascii """ )
    match	Logon
    // @lengthOf(
    as Z9_ {
[
""1""
    //	t
    , // c
""1""	] :
    options1 } ,
T
    metadata ,_x {
    // @lengthOf(
    f32 x
    , int64
a1
//x
// " ++ [27880; 37322]%N ++ runes_of_ascii "
@lengthOf(_x
    )`u8 x,` , uint8x { _x	@lengthOf(
charz ) // `tick` ""quote"" 'q'
, int64// @lengthOf(
trueish
    ,  char[0	]
// `tick` ""quote"" 'q'
// c
roots @calculatedFrom( ""// no comment"")
    `crlf
line` , u ,}
    , } , }
")).
Eval vm_compute in ("<<<M3994>>>" ++ check (runes_of_ascii "options{  } packet 
Foo 
{  string
	Header`doc`
,

    char[
7 
]

    leftPad

,

match i64_	as
    o
{  10  //x
  :	// `tick` ""quote"" 'q'
x
    ,
[ ""x y""
]

:	repeatCount  // c
,
	0123456789//	t
      :
    // @lengthOf(

  // `tick` ""quote"" 'q'
roots
, [ 
0

    ,	7  ,
00
,
""" ++ [233]%N ++ runes_of_ascii "t" ++ [233]%N ++ runes_of_ascii """
    ,
00

    ,  /// triple
  10 
,

    ""packet"" ] :
stringy
,
	    /// triple
	[

0123456789  ,""{,}""
    ,
"""",	""a	b""	, ""a\\""
    ,
""\n""	,
	4294967296	,1	]
:BodyLength , /// triple
4294967296 : float 
, }
	, packetx
`
`
	, zchar[
7 ] Foo

, 
Logon
,match o

as

    calculatedFrom
    {

3
	:uint8x 
  //
    }

,rootA

repeatCount,
}

    root	packet
f32a

{	@lengthOf( float
)

    crc `u8 x,`//

	,

@calculatedFrom(""{,}""
    ) repeat zchar[
	3
]
Header``
	,  match
len  as	pack  {
[""{,}""	,
	""a\\""

]	:
uint8x
	,
[ ""packet""

,42

,

    ""\n"" 
, 
4294967296 // c
	,

""CRC32""
	,

// `tick` ""quote"" 'q'
	007 
]
:

    Foo
	,""" ++ [233]%N ++ runes_of_ascii "t" ++ [233]%N ++ runes_of_ascii """
	// packet A { u8 x, }
  :
BodyLength

    ,
0123456789  :
crc

,
	} , x As  `u8 x,` ,

    float64	Pad
    @lengthOf( repeatCount
)
,
    char[ 
00 ]	Logon
	@lengthOf(  tag

    )

    ,
    }
")).
Eval vm_compute in ("<<<M3937>>>" ++ check (runes_of_ascii "root packet u128 {
    @lengthOf(T)
    repeat Header,
    @tag(255)
    @tag(255)
    //x
    u64 crc,
    @tag(65535)
    @lengthOf(u128)
    uint32 chars,
}

packet i64_ {
    i8 string_ @calculatedFrom(""it's""),
    @leftPad(' ')
    repeat Pad {
        repeat MetaDataX {
            o packetx,
            roots Header,
            match falsey as roots {
                007 : msg_type,
                [10] : T,
                """" : Packet,
                42 : msg_type,
            },
            string string_ `tab	here`,
        },
        repeat float64 repeatCount `doc`,// @lengthOf(
    },
    match falsey as u8x {
        ""\" ++ [233]%N ++ runes_of_ascii """ : metadata,
        0 : repeatCount,
        0123456789 : repeatCount,
        ""packet"" : Foo,
        0123456789 : tag,
    },
    @lengthOf(As)
    match A as repeatCount {
        42 : a1,
        65535 : Packet,
        7 : len,
        """" : rootA,
        """ ++ [233]%N ++ runes_of_ascii "t" ++ [233]%N ++ runes_of_ascii """ : rootA,
    },
    @calculatedFrom(""CRC32"")
    repeatCount @calculatedFrom(""`tick`""),
    f32 crc `doc`,
    crc,
    // c
    // packet A { u8 x, }
    char[] Header,
}")).
Eval vm_compute in ("<<<M4276>>>" ++ check (runes_of_ascii "options {
}

MetaData zchar {
    A i64_ `crlf
        line`,
    char[] string_ `
        `,
    Packet stringy `a\`,
    char[1] i8i8,
    float32 options1 `{ , }`,
}

packet a1 {
    @lengthOf(o)
    //x
    o {
        calculatedFrom @calculatedFrom(""a\\""),
    },
    @lengthOf(a1)
    repeat i8i8 stringy,
    int8 pack,
    @lengthOf(u8x)
    string packetx @calculatedFrom(""`tick`"") ``,
    @lengthOf(Header)
    @tag(0123456789)
    @calculatedFrom(""CRC32"")
    repeat BodyLength `two words`,
    @lengthOf(T)
    zchar[1] repeatCount @lengthOf(o),
    match As as options1 {
        ""1"" : o,
        ""a\\"" : crc,
        [
            0123456789, 65535, 00, ""a	b"", """ ++ [128512]%N ++ runes_of_ascii """,
            """ ++ [128512]%N ++ runes_of_ascii """, ""1""
        ] : x,
        [
            4294967296, 10, 0123456789, 42, 3,
            ""abc"", ""\n"", """ ++ [128512]%N ++ runes_of_ascii """
        ] : msg_type,
    },
    match u8x as lengthOf {
        [""x y"", ""{,}""] : asx,
        // `tick` ""quote"" 'q'
        4294967296 : chars,
        ""CRC32"" : a1,
        ""a	b"" : metadata,
        7 : zchar,
    },
}")).
Eval vm_compute in ("<<<M529>>>" ++ check (runes_of_ascii "packet rootA { metadata { int32
    body  `doc` ,repeat calculatedFrom u8x
,u32 float , },
@lengthOf(
// @lengthOf(
// trailing space 
T )u8x Header,	repeat u16 Z9_ ,
@leftPad (
    '0'	)
repeat Z9_ { stringy msg_type
    `
` ,As
{match i8i8
    as	chars {
10 :len
    ,
    [ ""abc"", 42
//	t
// c
, 7 ] :  leftPad ,42 : lengthOf , 00 : zchar ,
    //x
    } , i32
    i64_ // @lengthOf(
, repeat
lengthOf msg_type`` //x
,
    }	,
    int16 Packet @calculatedFrom( ""packet"") ,} , len @lengthOf( float
    //
    ) `two words`,
@calculatedFrom( //	t
""a\""b"" ) repeat
pack
,
    @tag( 0 ) float32 tag `tab	here` ,rootA @calculatedFrom(""// no comment""
) ,
@lengthOf(x_y_z	)
msg_type { match crc
    as
string_ { 0:	u8x , 10
    : // " ++ [27880; 37322]%N ++ runes_of_ascii "
crc	, ""x y"" : Pad
    , 3: a1	,007
    : x , [ """" ] : A },
} , @calculatedFrom(
    ""CRC32"" ) @rightPad (' ')
    @tag( 10	) match zchar
    as body {
65535 // trailing space 
:
    // packet A { u8 x, }
    tag
    } ,
}
")).
Eval vm_compute in ("<<<M208>>>" ++ check (runes_of_ascii "packet zchar{
    uint8x { MetaDataX , match stringy as calculatedFrom { """" : options1,""// no comment""
: //x
u
""\" ++ [233]%N ++ runes_of_ascii """
:  body
, [
""abc""
    , ""it's"" , // c
007 ] : packetx
//	t
// @lengthOf(
,65535:
roots
, } ,  zchar[	10 ]
lengthOf`two words`  ,	} // trailing space 
,
//
// packet A { u8 x, }
} root
packet Header{repeat f32a o `two words`,
    @lengthOf(
    f32a ) char[	42
]
    uint8x ,	@tag( 42
)
    float@lengthOf(
MetaDataX  ) , string T	, match _x as leftPad
    { 0123456789 :
    stringy, } ,  @leftPad // @lengthOf(
( )repeat uint8x// c
{
string_ { char[ 255] a1 @calculatedFrom( ""abc""
), metadata @lengthOf(	asx ),
    } , repeat falsey /// triple
,
    Logon { As ,
repeat char[]// trailing space 
u
    , } , },
    @leftPad
    (	' '
    )
char[ 10
] charz
@lengthOf(  float ), @calculatedFrom(
    """ ++ [233]%N ++ runes_of_ascii "t" ++ [233]%N ++ runes_of_ascii """
) i64 trueish
    `two words`
, } options{ options1	=7
; u
    // " ++ [27880; 37322]%N ++ runes_of_ascii "
    = """" ; } 	 ")).
Eval vm_compute in ("<<<M747>>>" ++ check (runes_of_ascii "packet u8x {@tag( 0)
match Header as	packetx
// " ++ [128512]%N ++ runes_of_ascii " emoji
//x
{""\n"":	o , 0 :
    Foo ,4294967296: rootA
,
    255 /// triple
:i8i8 }
,// `tick` ""quote"" 'q'
repeat //	t
uint8 stringy , chars ,
uint64 options1 `say ""hi""`
,@lengthOf( float )
    string leftPad ,  x body // packet A { u8 x, }
`line1
line2`
, @calculatedFrom(  ""// no comment"" ) uint16// a // b
chars @calculatedFrom(
""`tick`"" ) , }packet
    Header {@calculatedFrom(
    ""\" ++ [233]%N ++ runes_of_ascii """
)
zchar[ 007 ] As @lengthOf(
    // @lengthOf(
    Header )
, Header
// a // b
//x
@lengthOf( leftPad ) `doc` ,
    repeat zchar	calculatedFrom ,	@lengthOf( float// `tick` ""quote"" 'q'
) zchar[ 0123456789
    ] trueish`` /// triple
,
    match x as
string_ {
[
255] : A ,
""abc"" : Packet , [//x
""`tick`""
    ,10
    ]
: Pad,
    }
,}  packet len {// " ++ [128512]%N ++ runes_of_ascii " emoji
i8i8 body , } MetaData x
    {float32 Header , uint8 A ,i8i8
o , }

")).
Eval vm_compute in ("<<<M884>>>" ++ check (runes_of_ascii "packet Packet
{asx
    //	t
    @lengthOf(metadata)  `line1
line2`
// " ++ [128512]%N ++ runes_of_ascii " emoji
// packet A { u8 x, }
,
@tag( 0123456789) repeat char tag,
BodyLength @calculatedFrom( ""`tick`""
)
, @calculatedFrom(
""\" ++ [233]%N ++ runes_of_ascii """ )
tag @calculatedFrom(// @lengthOf(
""" ++ [233]%N ++ runes_of_ascii "t" ++ [233]%N ++ runes_of_ascii """
    )	,@leftPad
( ) match o as T
    {	""CRC32"":metadata [ 7, // trailing space 
""CRC32"", ""CRC32""
, ""a\\"" , 0123456789
]
:
i8i8 4294967296
:
    o, [65535 ] : leftPad, 00:
charz
    , } , string_ @calculatedFrom( ""\n"" ) `u8 x,` , }
root packet Foo // `tick` ""quote"" 'q'
{ @rightPad(
    '0'
    ) repeat msg_type string_ , } root packet Z9_{ @calculatedFrom(
    // c
    ""1"")string
    A //x
, repeat x zchar,  @tag( 1
    ) @tag( 0 ) i64_
    float
`tab	here` , repeat //
u8 _x
    `` , lengthOf
@calculatedFrom(
    ""`tick`"")
//x
// trailing space 
,
    }
")).
Eval vm_compute in ("<<<M4505>>>" ++ check (runes_of_ascii "// a // b
packet rootA {
    @lengthOf(Packet)
    Logon {
        char[7] T `
        `,
    },
    @lengthOf(rootA)
    repeat zchar[00] Header,
    // c
    // packet A { u8 x, }
    repeat i8i8 {
        match Foo as i8i8 {
            [
                4294967296, 1, 7, 42, 255,
                007, ""\" ++ [233]%N ++ runes_of_ascii """, ""\n""
            ] : options1,
            4294967296 : pack,
            """" : u8x,
            [65535, ""\n""] : pack,
            ""`tick`"" : Z9_,
        },
        float64 stringy,
    },
    @calculatedFrom(""`tick`"")
    x {
        A @lengthOf(crc),
        char[00] roots,
    },
    @lengthOf(int)
    @lengthOf(u8x)
    @lengthOf(a1)
    uint16 trueish @calculatedFrom(""a\\""),
    Header @lengthOf(MetaDataX) `say ""hi""`,
    roots @lengthOf(a1),
}")).
Eval vm_compute in ("<<<M264>>>" ++ check (runes_of_ascii "
root packet u128 { @calculatedFrom( ""// no comment"" ) @tag(	10//	t
) @calculatedFrom( ""packet"" ) BodyLength ``
    , char BodyLength `two words`	, repeat uint32 f32a // trailing space 
, crc {	repeat
repeatCount Packet , MetaDataX@lengthOf(
    chars
),
options1 _x ,
repeat float64 T//x
,} ,@tag( 3 )
    @leftPad
( '\x00') @rightPad
(
// @lengthOf(
/// triple
)
    match string_ as MetaDataX { ""packet"" : float ,[
    ""abc"" // @lengthOf(
, """"
    // packet A { u8 x, }
    ,	3
,
    //x
    65535 ,
    ""a	b""
,//	t
42
    ,
    1 ,
    ""packet"" ]:
i64_
// `tick` ""quote"" 'q'
/// triple
,
// " ++ [27880; 37322]%N ++ runes_of_ascii "
// trailing space 
7 :lengthOf 0:
len
// trailing space 
// packet A { u8 x, }
,
10 :  len , [ //	t
0
] : A
    //	t
    , }, }")).
Eval vm_compute in ("<<<M892>>>" ++ check (runes_of_ascii "
MetaData // " ++ [128512]%N ++ runes_of_ascii " emoji
tag {
char[] float,
lengthOf
    string_
,
    i32
// c
// a // b
Foo , i64
Logon
    `// not a comment` , char[
7]
i8i8
,
// `tick` ""quote"" 'q'
// c
u16 pack, } options
{ Packet=""x y"" u128
    =
7 u= u32 ; } // " ++ [128512]%N ++ runes_of_ascii " emoji
packet
    chars {
    @tag( 0123456789) @calculatedFrom( ""x y"" )
@rightPad (
'0' ) f32 Pad @lengthOf( crc
    // c
    ) ,@tag( // trailing space 
7
) i8
    o @calculatedFrom(
""1""
)
,
    @rightPad ( ' ' ) calculatedFrom {
stringy float, // c
repeat Packet roots
`doc` ,repeat matchKey asx , repeat rootA roots  , } ,
    @tag( 42 )@leftPad
( '\x00' ) /// triple
@calculatedFrom(""a	b"" )
string
    o @lengthOf( roots )	, // " ++ [128512]%N ++ runes_of_ascii " emoji
}
")).
Eval vm_compute in ("<<<M1160>>>" ++ check (runes_of_ascii "
root
    packet
i8i8  {
@tag( 3)  @tag( 3
) match u128 as
f32a
    // packet A { u8 x, }
    {//	t
[
0123456789
    , ""a\""b"" ,
0123456789 ,
42 , ""// no comment"" ]
    :
    Foo }	, } packet Z9_ {@leftPad
(
'0' // packet A { u8 x, }
)	char[] Pad @lengthOf(Z9_ ) `` , u8x u	`doc`
,  @calculatedFrom(
/// triple
// @lengthOf(
""{,}""
    )falsey { u8x f32a , }
,repeat	i8 metadata ,
repeat i64
i8i8, zchar[ 1]u
,  string	crc `crlf
line` ,// " ++ [128512]%N ++ runes_of_ascii " emoji
match i8i8 as
    matchKey { [ 0
,	0123456789  ] : uint8x
    ,
},
    metadata @calculatedFrom( ""CRC32"") `
` ,	@lengthOf(_x ) @tag(	7 )
    @tag( 00) repeat Packet matchKey`it's` , // " ++ [128512]%N ++ runes_of_ascii " emoji
}
")).
Eval vm_compute in ("<<<M1268>>>" ++ check (runes_of_ascii "  packet	Packet{ } root
packet pack { @calculatedFrom( ""CRC32"")string
pack`two words`
    // " ++ [128512]%N ++ runes_of_ascii " emoji
    , @lengthOf(Pad
    )
@lengthOf(
rootA ) i16 A`doc`, } options {asx =00;
string_= 7 ;
x_y_z= 0123456789; } packet uint8x { int32
trueish @lengthOf( roots ) `say ""hi""` ,
    @tag( 1 ) @lengthOf(	a1 )
match
f32a as
MetaDataX {
/// triple
// trailing space 
7 :	pack 65535 :
//
// `tick` ""quote"" 'q'
calculatedFrom
// a // b
// " ++ [27880; 37322]%N ++ runes_of_ascii "
, [
    3,""// no comment""
    ,  1 ,
/// triple
/// triple
0123456789 ]:
    // c
    Z9_ ,4294967296
: a1 ,007:int """ ++ [128512]%N ++ runes_of_ascii """ : o
,
}
    ,	repeat calculatedFrom a1 `crlf
line`
, }
")).
Eval vm_compute in ("<<<M402>>>" ++ check (runes_of_ascii "options { // @lengthOf(
} options{metadata = ' ' }packet
    Packet
{ @leftPad (
    ' ' ) pack @calculatedFrom( ""`tick`"" ),}
packet// " ++ [27880; 37322]%N ++ runes_of_ascii "
T
{@tag( 255
)@tag(// `tick` ""quote"" 'q'
7 )
@calculatedFrom( ""CRC32"" ) metadata	@calculatedFrom( """" )// trailing space 
, repeat string falsey `` , match crc as roots { 255
    : As ,
    42 : MetaDataX }, // @lengthOf(
@tag( 0 )@calculatedFrom(
    //	t
    ""it's"")@calculatedFrom(""" ++ [233]%N ++ runes_of_ascii "t" ++ [233]%N ++ runes_of_ascii """) match string_ as a1
{ """ ++ [233]%N ++ runes_of_ascii "t" ++ [233]%N ++ runes_of_ascii """ : body//	t
, 7
    : Packet,
    // `tick` ""quote"" 'q'
    } //
, string options1,
calculatedFrom MetaDataX
,zchar[42]	i8i8
    `` , }")).
Eval vm_compute in ("<<<M3851>>>" ++ check (runes_of_ascii "options {
    o = 007;
}

root packet options1 {
    @rightPad()
    zchar[65535] x,
    @lengthOf(lengthOf)
    x metadata,// `tick` ""quote"" 'q'
    @tag(007)
    int64 uint8x @lengthOf(i64_) `a\`,
    @calculatedFrom(""1"")
    @tag(007)
    repeat u32 metadata,// a // b
    match As as rootA {
        ""a\""b"" : As,
    },
    @calculatedFrom(""CRC32"")
    uint16 As @calculatedFrom(""a	b"") `" ++ [28040; 24687; 31867; 22411]%N ++ runes_of_ascii "`,
    @lengthOf(A)
    u int `" ++ [233]%N ++ runes_of_ascii "`,
    i64_ MetaDataX,
    leftPad,
    @lengthOf(_x)
    body `two words`,
}

MetaData repeatCount {
    charz packetx,
    float32 f32a,
}")).
Eval vm_compute in ("<<<M310>>>" ++ check (runes_of_ascii "packet  T{ i8 MetaDataX	,
    repeat x
    {
int32 lengthOf ,
char[ 007 ]repeatCount
`" ++ [233]%N ++ runes_of_ascii "`
, string // " ++ [27880; 37322]%N ++ runes_of_ascii "
Header @lengthOf(
    len ),	}
,	@rightPad (
' '
    ) @tag(	3  )
@tag(
00 ) char[ 00 ]rootA	, f64 string_ , @calculatedFrom( ""it's""
// " ++ [27880; 37322]%N ++ runes_of_ascii "
//
) char[]falsey ``	,
repeat
    a1 {	i64_ u128 ,
    zchar[
4294967296 ]
i8i8 ,
Logon @lengthOf( packetx
    // trailing space 
    ) ,} , lengthOf float
, @calculatedFrom( ""{,}""
    ) u@lengthOf( rootA
) `say ""hi""`
//
//x
,	zchar[
    //	t
    10
    ] metadata `` ,}
options { } //	t")).
Eval vm_compute in ("<<<M1032>>>" ++ check (runes_of_ascii "MetaData  lengthOf
{
}	root packet //x
falsey
// " ++ [128512]%N ++ runes_of_ascii " emoji
//x
{ Pad // a // b
{
zchar[ 1
] Z9_ , msg_type
    x_y_z , match u8x as trueish {
    """ ++ [28040; 24687]%N ++ runes_of_ascii """
:	asx,} , }	, // `tick` ""quote"" 'q'
@lengthOf( rootA ) match zchar as int{
""`tick`"" :
    len , ""{,}"" : MetaDataX ,}	,
i64 rootA
    //x
    `" ++ [28040; 24687; 31867; 22411]%N ++ runes_of_ascii "` ,
@calculatedFrom( ""it's"" )repeat
    /// triple
    metadata
    ,
    T @lengthOf( u128 ) , uint64 Pad , // " ++ [27880; 37322]%N ++ runes_of_ascii "
falsey x ,	int16	leftPad
    , //	t
falsey  @lengthOf( matchKey), zchar[ 255 ] u128`u8 x,` ,
}")).
Eval vm_compute in ("<<<M1043>>>" ++ check (runes_of_ascii "options {
    } root
    packet u8x { options1 { Header @lengthOf( x_y_z
) , u16  f32a ,} , zchar[ 4294967296 ]leftPad
    , repeat char[
    007 ]//	t
trueish, int
@calculatedFrom( """ ++ [28040; 24687]%N ++ runes_of_ascii """ )
    // c
    ,
    match
    i64_  as chars{""" ++ [128512]%N ++ runes_of_ascii """	:// a // b
Logon, 42 : matchKey
    65535 :	u , [ 4294967296
,
65535
] :As ,} ,
@rightPad // a // b
( '\x00')
    @tag(
42 )
    // packet A { u8 x, }
    i32 Pad// " ++ [128512]%N ++ runes_of_ascii " emoji
`two words`
, // c
@tag(
    // c
    00 )
    f32a`tab	here` ,
    }
")).
Eval vm_compute in ("<<<M4143>>>" ++ check (runes_of_ascii "root packet o {
    @leftPad('0')
    repeat uint16 o,// `tick` ""quote"" 'q'
    @tag(1)
    @tag(65535)
    u32 options1,
    @lengthOf(i8i8)
    @lengthOf(int)
    @leftPad()
    char[42] len @calculatedFrom(""packet""),
    u32 Foo @calculatedFrom(""a\\""),
}

packet a1 {
    @lengthOf(A)
    Foo MetaDataX `it's`,
    Z9_ metadata `" ++ [28040; 24687; 31867; 22411]%N ++ runes_of_ascii "`,
    match MetaDataX as falsey {
        [42] : body,
        // " ++ [128512]%N ++ runes_of_ascii " emoji
        [4294967296, ""packet""] : A,
    },
    Z9_,
}")).
Eval vm_compute in ("<<<M520>>>" ++ check (runes_of_ascii "
packet o {repeat	MetaDataX ,uint64 f32a /// triple
`" ++ [233]%N ++ runes_of_ascii "`
,f32 packetx `doc`	, leftPad { repeat len x ,
    zchar[ 0123456789
    // packet A { u8 x, }
    ] tag @lengthOf(MetaDataX )
    , chars{ zchar[
// " ++ [27880; 37322]%N ++ runes_of_ascii "
// `tick` ""quote"" 'q'
65535]
u8x `" ++ [28040; 24687; 31867; 22411]%N ++ runes_of_ascii "`, u16 BodyLength
@calculatedFrom( ""`tick`""
) `line1
line2`
, char[]
stringy , repeat i64_ charz `crlf
line` , // trailing space 
}
    // packet A { u8 x, }
    ,	f32
msg_type , } ,x`` ,
    }
")).
Eval vm_compute in ("<<<M851>>>" ++ check (runes_of_ascii "options {
_x
    =	""`tick`"";
    body = 65535 packetx=int8
; metadata =0123456789
    ; }
packet matchKey {
@tag(
//	t
// c
4294967296 ) match leftPad
as T  { ""a\""b"" //
:metadata // " ++ [128512]%N ++ runes_of_ascii " emoji
, [ 42 , 007 , 0 ,
00  ,
// trailing space 
// @lengthOf(
7 ,	""a\\""
,
// c
//	t
""1"" ]
    :metadata
,
[	"""" , ""a	b"" ,
""CRC32""
, 255 ,
    ""a	b"" ]
    : // c
asx
3 :
_x , 65535 // @lengthOf(
: _x , ""\n"" :
Logon ,} ,
    } options { }")).
Eval vm_compute in ("<<<M3680>>>" ++ check (runes_of_ascii "
packet

    lengthOf { @lengthOf(

zchar	//x

) char[]	// trailing space 

metadata,
@tag( 
10
) string  leftPad

    ,
@lengthOf( i8i8
)	//

@leftPad  
      //x
	('\x00')

repeat
	Packet
`a\`

    , options1
    { float @calculatedFrom(
""it's""

)
	, repeat

    calculatedFrom
	i64_ ,

    }, uint8
	A  @lengthOf(
leftPad)

`two words`
    ,	}MetaData
repeatCount { } MetaData	u8x	{
	}

")).
Eval vm_compute in ("<<<M1347>>>" ++ check (runes_of_ascii "options {	x=
    ""// no comment"" }	packet trueish { @lengthOf(
_x )Header // " ++ [128512]%N ++ runes_of_ascii " emoji
{
char[]
    Pad @calculatedFrom( """ ++ [28040; 24687]%N ++ runes_of_ascii """ )  ,  float64 msg_type , }	,repeat string
    packetx `u8 x,`, match Header
    as  charz
    {
    65535: pack
    ,} // " ++ [128512]%N ++ runes_of_ascii " emoji
, } packet float { } root packet A { @calculatedFrom(	""x y"" )// @lengthOf(
string
// " ++ [128512]%N ++ runes_of_ascii " emoji
// " ++ [128512]%N ++ runes_of_ascii " emoji
len @lengthOf( metadata
)
, }")).
Eval vm_compute in ("<<<M3523>>>" ++ check (runes_of_ascii "// top
packet
    // c0
float // c1a
  // c1b
{ // c2a
  // c2b
repeat // c3
i8i8 MetaDataX // c5
`it's` // c6
, rootA // c8
, // c9a
  // c9b
repeat // c10
int8 // c11
int // c12
, match // c14
repeatCount // c15
as // c16a
  // c16b
x_y_z {
    // c18
""{,}"" // c19a
  // c19b
: // c20
Logon // c21
, // c22a
  // c22b
} // c23
, // c24a
  // c24b
} // c25a
  // c25b
")).
Eval vm_compute in ("<<<M1311>>>" ++ check (runes_of_ascii "root packet Header {
    @lengthOf( stringy ) calculatedFrom @lengthOf(  chars  ) , char[ 255
    ]
    // `tick` ""quote"" 'q'
    metadata``	, u8 MetaDataX `crlf
line`
,} options
{ } options
{uint8x = 42 ; T
    = i32;
    calculatedFrom // `tick` ""quote"" 'q'
=
""// no comment""	;
    u8x =
0
    }
    root packet roots {repeat i64 falsey //x
,
}")).
Eval vm_compute in ("<<<M357>>>" ++ check (runes_of_ascii "options
{
// @lengthOf(
// " ++ [128512]%N ++ runes_of_ascii " emoji
x = 10//
; x_y_z//
=
    true	;
Logon =
    i32 T =
    0 }
MetaData
f32a	{ zchar len,
    }
    options {string_
// c
//
= zchar[
007 ] ;
x_y_z = '0'
    ;
}MetaData msg_type // " ++ [27880; 37322]%N ++ runes_of_ascii "
{ lengthOf msg_type `two words`
    ,	i64 crc , packetx  zchar
`// not a comment`
, string// c
falsey `tab	here` , }
")).
Eval vm_compute in ("<<<M517>>>" ++ check (runes_of_ascii "root
packet Header {@calculatedFrom(
""a\""b"" ) o MetaDataX
`{ , }`	, float  , repeat u8
    string_ , repeat a1 {
    repeat
zchar[ 3 /// triple
] a1 , repeat  Foo// " ++ [27880; 37322]%N ++ runes_of_ascii "
u ,} ,
} MetaData uint8x { } MetaData
    int
    {
    zchar[ 4294967296 ]roots
,
}
MetaData i64_ { zchar[/// triple
1
]
    falsey `// not a comment` , }
")).
Eval vm_compute in ("<<<M2021>>>" ++ check (runes_of_ascii "MetaData
    u { }  options {
// c
// @lengthOf(
float = int8 ;rootA =false ; As =	int16 // `tick` ""quote"" 'q'
repeatCount
    // trailing space 
    =
    int16
; u8x =
    //	t
    '\x00' ; } options	{
    repeatCount
= 0
u128
    //
    = false false ; i64_
// trailing space 
// `tick` ""quote"" 'q'
= '0' ; //	t
}
")).
Eval vm_compute in ("<<<M1871>>>" ++ check (runes_of_ascii "MetaData
    u { } }  options {
// c
// @lengthOf(
float = int8 ;rootA =false ; As =	int16 // `tick` ""quote"" 'q'
repeatCount
    // trailing space 
    =
    int16
; u8x =
    //	t
    '\x00' ; } options	{
    repeatCount
= 0
u128
    //
    = false ; i64_
// trailing space 
// `tick` ""quote"" 'q'
= '0' ; //	t
}
")).
Eval vm_compute in ("<<<M987>>>" ++ check (runes_of_ascii "options
{ // a // b
Header //
=
""// no comment""As
    = ""`tick`""Header
    = f32// packet A { u8 x, }
; leftPad
=
10	o =
    '\x00'
    }// " ++ [128512]%N ++ runes_of_ascii " emoji
packet metadata
//x
/// triple
{ @rightPad
    ('0') @leftPad
// c
// trailing space 
(
'\x00' )
    @rightPad ( )
    string string_`say ""hi""`,
    } options  {
}")).
Eval vm_compute in ("<<<M1937>>>" ++ check (runes_of_ascii "MetaData
    u { }  options {
// c
// @lengthOf(
float = int8 ;rootA =false ; As =	repeatCount // `tick` ""quote"" 'q'
int16
    // trailing space 
    =
    int16
; u8x =
    //	t
    '\x00' ; } options	{
    repeatCount
= 0
u128
    //
    = false ; i64_
// trailing space 
// `tick` ""quote"" 'q'
= '0' ; //	t
}
")).
Eval vm_compute in ("<<<M1880>>>" ++ check (runes_of_ascii "MetaData
    u { }  options 
// c
// @lengthOf(
float = int8 ;rootA =false ; As =	int16 // `tick` ""quote"" 'q'
repeatCount
    // trailing space 
    =
    int16
; u8x =
    //	t
    '\x00' ; } options	{
    repeatCount
= 0
u128
    //
    = false ; i64_
// trailing space 
// `tick` ""quote"" 'q'
= '0' ; //	t
}
")).
Eval vm_compute in ("<<<M1229>>>" ++ check (runes_of_ascii "packet leftPad { repeat string x	,float matchKey  `u8 x,` ,	repeat zchar[1 ]  u8x `doc` , @leftPad
( ' ' ) i8i8 @lengthOf(
rootA )// c
,
//	t
// trailing space 
int8 //
x `doc` ,
// c
// @lengthOf(
@tag( 1) @leftPad (
'\x00' ) @lengthOf( // packet A { u8 x, }
_x
)
char[] x @calculatedFrom(""""
    )
    ,	}
")).
Eval vm_compute in ("<<<M3787>>>" ++ check (runes_of_ascii "packet i64_ {
    Z9_ @lengthOf(charz) `doc`,
    Pad {
        body @lengthOf(string_) `say ""hi""`,
        uint64 metadata @lengthOf(Logon) `say ""hi""`,
        zchar[3] f32a `{ , }`,
        repeat uint8 leftPad,
    },
    char[] _x @lengthOf(As) `
    `,
    char[65535] matchKey `// not a comment`,
}")).
Eval vm_compute in ("<<<M4403>>>" ++ check (runes_of_ascii "options {
    LittleEndian = true;
    StringPrefixLenType = u8;
    ArrayPrefixLenType = u8;
}

packet Ack {
}

root packet Quote {
    Ack,
    InSym94 {
        repeat Ack,
    },
    u16 msgKind,
    u16 OrderId @lengthOf(Body),
    match msgKind as Body {
        [110, 48] : Ack,
    },
}")).
Eval vm_compute in ("<<<M1020>>>" ++ check (runes_of_ascii "root
packet BodyLength { match tag as
float  {10 ://x
a1, }
,char[255 ] Z9_	`" ++ [28040; 24687; 31867; 22411]%N ++ runes_of_ascii "`
    , // @lengthOf(
@calculatedFrom( ""packet""	) int64 packetx @calculatedFrom( ""{,}"" // @lengthOf(
)
`doc`	, }packet
    x
{	} packet
    roots
// " ++ [27880; 37322]%N ++ runes_of_ascii "
//	t
{
    @tag( 0)repeat
    chars `doc` , }
")).
Eval vm_compute in ("<<<M1040>>>" ++ check (runes_of_ascii "packet
string_ {zchar[// " ++ [128512]%N ++ runes_of_ascii " emoji
255]chars
@lengthOf( leftPad)
, } options
    { repeatCount= true ;msg_type // c
=  ' '
    ;
rootA = true
;}
root packet len//	t
{ zchar[  7 ]
BodyLength@calculatedFrom( """ ++ [128512]%N ++ runes_of_ascii """ ) ,
    }MetaData
    charz{ string Packet, /// triple
}
")).
Eval vm_compute in ("<<<M651>>>" ++ check (runes_of_ascii "packet trueish {repeat As,	repeat uint8 repeatCount
, @tag( 255) match a1 as x_y_z{  3
    : i8i8 ,
    ""abc""
    : Z9_, 007
/// triple
//
: leftPad 65535
    : x_y_z ""a\""b"" :matchKey, } , @rightPad(' '
) // `tick` ""quote"" 'q'
string packetx , // " ++ [128512]%N ++ runes_of_ascii " emoji
}
")).
Eval vm_compute in ("<<<M1558>>>" ++ check (runes_of_ascii "packet
//	t
// trailing space 
_x {
// packet A { u8 x, }
// c
char[
3
    ] u8x @lengthOf(
u8x ) , @calculatedFrom(""" ++ [128512]%N ++ runes_of_ascii """ // @lengthOf(
)
i16 i16	Foo
@lengthOf(	string_
    )`doc`	, repeat	i64 metadata , @lengthOf( string_
) i8 // c
u  `line1
line2`	,
}
")).
Eval vm_compute in ("<<<M1663>>>" ++ check (runes_of_ascii "packet
//	t
// trailing space 
_x {
// packet A { u8 x, }
// c
char[
3
    ] u8x @lengthOf(
u8x ) , @calculatedFrom(""" ++ [128512]%N ++ runes_of_ascii """ // @lengthOf(
)
i16	Foo
@lengthOf(	string_
    )`doc`	, repeat	i64 metadata , @lengthOf( string_
) i8 // c
u  `line1
line2`	,
}
" ++ [65279]%N ++ runes_of_ascii " ")).
Eval vm_compute in ("<<<M1534>>>" ++ check (runes_of_ascii "packet
//	t
// trailing space 
_x {
// packet A { u8 x, }
// c
char[
3
    ] u8x @lengthOf(
u8x , ) @calculatedFrom(""" ++ [128512]%N ++ runes_of_ascii """ // @lengthOf(
)
i16	Foo
@lengthOf(	string_
    )`doc`	, repeat	i64 metadata , @lengthOf( string_
) i8 // c
u  `line1
line2`	,
}
")).
Eval vm_compute in ("<<<M1507>>>" ++ check (runes_of_ascii "packet
//	t
// trailing space 
_x {
// packet A { u8 x, }
// c
char[

    ] u8x @lengthOf(
u8x ) , @calculatedFrom(""" ++ [128512]%N ++ runes_of_ascii """ // @lengthOf(
)
i16	Foo
@lengthOf(	string_
    )`doc`	, repeat	i64 metadata , @lengthOf( string_
) i8 // c
u  `line1
line2`	,
}
")).
Eval vm_compute in ("<<<M1650>>>" ++ check (runes_of_ascii "packet
//	t
// trailing space 
_x {
// packet A { u8 x, }
// c
char[
3
    ] u8x @lengthOf(
u8x ) , @calculatedFrom(""" ++ [128512]%N ++ runes_of_ascii """ // @lengthOf(
)
i16	Foo
@lengthOf(	string_
    )`doc`	, repeat	i64 metadata , @lengthOf( string_
) i8 // c
u  `line1
line2`	,")).
Eval vm_compute in ("<<<M3658>>>" ++ check (runes_of_ascii "
packet	Sub
{	u8 a,@calculatedFrom(
	""CRC16"")
u16
	SubSum,
    }

root
packet
Frame

{ u16 
MsgType, u16

BodyLen
@lengthOf(

    Body), Sub  Body, string

    note 
,
    @calculatedFrom(""CRC16""

)u16
Checksum 
,	u8
	tail
    , 
}
")).
Eval vm_compute in ("<<<M1132>>>" ++ check (runes_of_ascii "packet //
x
    { } packet lengthOf{  repeat a1 { lengthOf @lengthOf( x_y_z ) ,// `tick` ""quote"" 'q'
zchar[ 0123456789
    ]Packet , leftPad
    u,
    zchar[1 ] Foo
    // @lengthOf(
    @calculatedFrom(""`tick`""// " ++ [27880; 37322]%N ++ runes_of_ascii "
) , }
,  } 	 ")).
Eval vm_compute in ("<<<M4581>>>" ++ check (runes_of_ascii "options {
    StringPrefixLenType = u16;
    FixedStringPadChar = ' ';
}

packet Party {
}

packet Quote {
    repeat Party,
    repeat char[2] f1,
}

packet Logon {
}

root packet Cancel {
    uint16 x,
    zchar[6] f1,
}")).
Eval vm_compute in ("<<<M3766>>>" ++ check (runes_of_ascii "

  packet
crc{
    matchKey`tab	here`
, repeat
f32a	{// trailing space 
    zchar{
string uint8x ,repeat 
char[4294967296	// trailing space 

  ] msg_type ,

} ,roots	{ zchar[ 7]u
, 
} , uint64
	chars
	, 
} , } ")).
Eval vm_compute in ("<<<M1369>>>" ++ check (runes_of_ascii "
packet len
{ Logon ,@tag( 42 ) Logon { o @calculatedFrom( ""CRC32""
)`crlf
line` ,
char[]
    /// triple
    Logon
    @calculatedFrom(	""x y""	) ,}
    ,
    @leftPad ( '0' )body
, }
packet uint8x {} // a // b")).
Eval vm_compute in ("<<<M1687>>>" ++ check (runes_of_ascii "options { trueish = = ""`tick`"" ; string_= """ ++ [233]%N ++ runes_of_ascii "t" ++ [233]%N ++ runes_of_ascii """
    // c
    } root
    packet body { stringy @calculatedFrom(
""a	b"" ) `line1
line2` , }
packet Logon {
    @leftPad(
    ' ' ) //	t
u16 string_ `u8 x,` ,
}
")).
Eval vm_compute in ("<<<M1854>>>" ++ check (runes_of_ascii "options { trueish = ""`tick`"" ; string_= """ ++ [233]%N ++ runes_of_ascii "t" ++ [233]%N ++ runes_of_ascii """
    // c
    } root
    packet na" ++ [239]%N ++ runes_of_ascii "ve { stringy @calculatedFrom(
""a	b"" ) `line1
line2` , }
packet Logon {
    @leftPad(
    ' ' ) //	t
u16 string_ `u8 x,` ,
}
")).
Eval vm_compute in ("<<<M1783>>>" ++ check (runes_of_ascii "options { trueish = ""`tick`"" ; string_= """ ++ [233]%N ++ runes_of_ascii "t" ++ [233]%N ++ runes_of_ascii """
    // c
    } root
    packet body { stringy @calculatedFrom(
""a	b"" ) `line1
line2` , }
packet { Logon
    @leftPad(
    ' ' ) //	t
u16 string_ `u8 x,` ,
}
")).
Eval vm_compute in ("<<<M1994>>>" ++ check (runes_of_ascii "MetaData
    u { }  options {
// c
// @lengthOf(
float = int8 ;rootA =false ; As =	int16 // `tick` ""quote"" 'q'
repeatCount
    // trailing space 
    =
    int16
; u8x =
    //	t
    '\x00' ; } options")).
Eval vm_compute in ("<<<M4373>>>" ++ check (runes_of_ascii "options {
    roots = int64
}

// @lengthOf(
// @lengthOf(
packet int {
    char zchar,
    repeat len {
        f32a `" ++ [28040; 24687; 31867; 22411]%N ++ runes_of_ascii "`,
    },
    zchar[007] As `it's`,
    zchar[007] uint8x @lengthOf(Foo),
}")).
Eval vm_compute in ("<<<M543>>>" ++ check (runes_of_ascii "// `tick` ""quote"" 'q'
MetaData body{  zchar[ 0 ] asx // trailing space 
`a\` , float crc
,f32 trueish `crlf
line`	,// " ++ [128512]%N ++ runes_of_ascii " emoji
uint64 float ,body//	t
u
    `
`
    ,
    int16 stringy //	t
,}
")).
Eval vm_compute in ("<<<M1122>>>" ++ check (runes_of_ascii "root packet a1 {u8x{ char[ // trailing space 
10] tag
`` , } // " ++ [128512]%N ++ runes_of_ascii " emoji
, } packet packetx { string crc	@calculatedFrom(""abc""	), @lengthOf( Packet ) repeat u32
rootA , // @lengthOf(
}
")).
Eval vm_compute in ("<<<M3579>>>" ++ check (runes_of_ascii "
packet A{	u8	a ,

    }
packet

B  {u16	b,

}root

packet P{ u8	K1
    ,u8 K2 
, 
match
    K1 as M1  {
    1
    :	A
,

    }	, match

    K2
as
	M2

    {1: B,	} , 
} ")).
Eval vm_compute in ("<<<M4198>>>" ++ check (runes_of_ascii "  options{
	_x=
    true
}
	options
    {

    o

=  /// triple
    false

;	chars =""\n"" }packet 
Pad
/// triple
		// packet A { u8 x, }
	{
chars
    // a // b
  ,	} ")).
Eval vm_compute in ("<<<M69>>>" ++ check (runes_of_ascii "options { o =""x y""
//x
// trailing space 
; float
    = ""\n"" metadata
// " ++ [128512]%N ++ runes_of_ascii " emoji
// `tick` ""quote"" 'q'
=
    """ ++ [128512]%N ++ runes_of_ascii """;Logon
//
//	t
=
true
; i8i8  = string// @lengthOf(
}")).
Eval vm_compute in ("<<<M2356>>>" ++ check (runes_of_ascii "// c
packet x { @lengthOf( metadata ) repeat lengthOf
,a1{
trueish	,// c
repeat//	t
MetaDataX , } , zchar[ zchar[
    42	] rootA // `tick` ""quote"" 'q'
,
    }
")).
Eval vm_compute in ("<<<M2381>>>" ++ check (runes_of_ascii "// c
packet x { @lengthOf( metadata ) repeat lengthOf
,caf" ++ [233]%N ++ runes_of_ascii "_1{
trueish	,// c
repeat//	t
MetaDataX , } , zchar[
    42	] rootA // `tick` ""quote"" 'q'
,
    }
")).
Eval vm_compute in ("<<<M2326>>>" ++ check (runes_of_ascii "// c
packet x { @lengthOf( metadata ) repeat lengthOf
,a1{
trueish	,// c
repeat//	t
MetaDataX , } , zchar[
    42	] rootA // `tick` ""quote"" 'q'
, ,
    }
")).
Eval vm_compute in ("<<<M2110>>>" ++ check (runes_of_ascii "options{
_x
= true
} options
{ { o	= /// triple
false
    ; chars
= ""\n"" } root packet	Pad
/// triple
// packet A { u8 x, }
{	chars
    // a // b
    ,}")).
Eval vm_compute in ("<<<M4404>>>" ++ check (runes_of_ascii "// " ++ [27880; 37322]%N ++ runes_of_ascii "
root packet chars {
    @rightPad()
    u8x @calculatedFrom(""a	b"") `line1
    line2`,
    repeat tag {
        repeat options1 f32a `" ++ [28040; 24687; 31867; 22411]%N ++ runes_of_ascii "`,
    },
}")).
Eval vm_compute in ("<<<M2096>>>" ++ check (runes_of_ascii "options{
_x
= }
true options
{ o	= /// triple
false
    ; chars
= ""\n"" } root packet	Pad
/// triple
// packet A { u8 x, }
{	chars
    // a // b
    ,}")).
Eval vm_compute in ("<<<M2109>>>" ++ check (runes_of_ascii "options{
_x
= true
} options
 o	= /// triple
false
    ; chars
= ""\n"" } root packet	Pad
/// triple
// packet A { u8 x, }
{	chars
    // a // b
    ,}")).
Eval vm_compute in ("<<<M2386>>>" ++ check (runes_of_ascii "// c
packet x { @lengthOf( i32 ) repeat lengthOf
,a1{
trueish	,// c
repeat//	t
MetaDataX , } , zchar[
    42	] rootA // `tick` ""quote"" 'q'
,
    }
")).
Eval vm_compute in ("<<<M4423>>>" ++ check (runes_of_ascii "packet	A{ match k
    as  n
	{	[
""a"" 
,
    22	, ""c c""  ,
4
, 
""e"",

    66 ,
""g""  ,
8 ,
""i"", 
10	, 
""k"" 
,
	12	]  :
	B

    ,
	2:
	C
	}
, }
")).
Eval vm_compute in ("<<<M1314>>>" ++ check (runes_of_ascii "MetaData uint8x {
    } packet i8i8{ // a // b
repeat uint64 roots , string
    falsey
,// trailing space 
} options  {
repeatCount = 007 ; }
")).
Eval vm_compute in ("<<<M324>>>" ++ check (runes_of_ascii "MetaData metadata {
//x
// " ++ [128512]%N ++ runes_of_ascii " emoji
}
    root packet chars {
    @lengthOf(Packet
    // @lengthOf(
    ) // c
repeat int16 roots `
` ,	}")).
Eval vm_compute in ("<<<M3761>>>" ++ check (runes_of_ascii "

  packet A

    {match k as
    n {
	[
1
,22 
, ""c c"",
    4	,5 , ""f"" , 7

    ,
8
,  ""i"",
	10
	] : B
2	:C
}

    , }
")).
Eval vm_compute in ("<<<M4012>>>" ++ check (runes_of_ascii "root packet leftPad {
    int64 BodyLength `// not a comment`,
    @tag(0)
    @leftPad()
    @tag(255)
    repeat Header,
}// c")).
Eval vm_compute in ("<<<M4252>>>" ++ check (runes_of_ascii "root packet matchKey {
    zchar[3] pack @calculatedFrom(""a	b"") `doc`,// c
}

options {
}

MetaData A {
    int8 msg_type,
}")).
Eval vm_compute in ("<<<M540>>>" ++ check (runes_of_ascii "MetaData T {
i64 body `
`// c
, string packetx, int
Pad , // @lengthOf(
char[]  A `" ++ [233]%N ++ runes_of_ascii "`, i8i8 float ,repeatCount
    o , }
")).
Eval vm_compute in ("<<<M3340>>>" ++ check (runes_of_ascii "root packet matchKey { zchar[ 3 ] pack @calculatedFrom( ""a	b"" ) `doc` , } options // c
{ } MetaData A { int8 msg_type , }")).
Eval vm_compute in ("<<<M1460>>>" ++ check (runes_of_ascii "
packet
    falsey { Header@calculatedFrom(""packet""  ) , char[
    0123456789 ] packetx
    u64 } // `tick` ""quote"" 'q'")).
Eval vm_compute in ("<<<M1414>>>" ++ check (runes_of_ascii "
packet
    falsey { @calculatedFrom(Header""packet""  ) , char[
    0123456789 ] packetx
    , } // `tick` ""quote"" 'q'")).
Eval vm_compute in ("<<<M2991>>>" ++ check (runes_of_ascii "packet A {
  match k as n {
    [""a"", ""bb"", ""c c"", ""d"", ""e"", ""f"", ""g"", ""h"", ""i"", ""j"", ""k"", ""l""] : B
    2 : C
  },
}")).
Eval vm_compute in ("<<<M3907>>>" ++ check (runes_of_ascii "/// triple
MetaData T {
    string_ falsey `u8 x,`,
    matchKey chars `u8 x,`,
    calculatedFrom f32a `doc`,
}")).
Eval vm_compute in ("<<<M3852>>>" ++ check (runes_of_ascii "options {
    packetx = 255;
}

packet float {
    repeat f64 metadata `
        `,
}

MetaData leftPad {
}//x")).
Eval vm_compute in ("<<<M53>>>" ++ check (runes_of_ascii "MetaData
trueish {int
falsey , char[
10
    ] u  , zchar[ 007 ] leftPad , string
x `two words`
    ,  }
")).
Eval vm_compute in ("<<<M4327>>>" ++ check (runes_of_ascii "options {
    f32a = zchar[3]
}

packet falsey {
    Z9_,
    body @calculatedFrom(""\n""),
}

options {
}")).
Eval vm_compute in ("<<<M758>>>" ++ check (runes_of_ascii "
options {
    rootA
    =	i64 i64_ = true matchKey
='\x00'  charz // packet A { u8 x, }
=false ; }")).
Eval vm_compute in ("<<<M1541>>>" ++ check (runes_of_ascii "packet
//	t
// trailing space 
_x {
// packet A { u8 x, }
// c
char[
3
    ] u8x @lengthOf(
u8x )")).
Eval vm_compute in ("<<<M3982>>>" ++ check (runes_of_ascii "packet A {
    match k as n {
        [""a"", ""bb"", ""c c"", ""d"", ""e""] : B,
        2 : C,
    },
}")).
Eval vm_compute in ("<<<M4117>>>" ++ check (runes_of_ascii "packet A {
    match k as n {
        [007, ""a"", ""bb"", ""d"", ""e""] : B,
        2 : C,
    },
}")).
Eval vm_compute in ("<<<M2242>>>" ++ check (runes_of_ascii "options
{ } options { BodyLength= u16 u16 Header= f64 ; u128 =
    true
    ; } // a // b")).
Eval vm_compute in ("<<<M3276>>>" ++ check (runes_of_ascii "MetaData float { float64
// c
charz `
` , } root packet chars { @rightPad ( '0' ) Foo , }")).
Eval vm_compute in ("<<<M3487>>>" ++ check (runes_of_ascii "packet chars // c
{ } packet MetaDataX { @tag( 42 ) i16 string_ , repeat x `say ""hi""` , }")).
Eval vm_compute in ("<<<M3972>>>" ++ check (runes_of_ascii "packet falsey {
    Header @calculatedFrom(""packet""),
    char[0123456789] packetx,
}// `")).
Eval vm_compute in ("<<<M2253>>>" ++ check (runes_of_ascii "options
{ } options { BodyLength= u16 Header f64 = ; u128 =
    true
    ; } // a // b")).
Eval vm_compute in ("<<<M2168>>>" ++ check (runes_of_ascii "options{
_x
= true
} options
{ o	= /// triple
false
    ; chars
= ""\n"" } root packet")).
Eval vm_compute in ("<<<M3226>>>" ++ check (runes_of_ascii "packet metadata { Logon { A `" ++ [28040; 24687; 31867; 22411]%N ++ runes_of_ascii "`
// c
, tag o , } , zchar len `// not a comment` , }")).
Eval vm_compute in ("<<<M2212>>>" ++ check (runes_of_ascii "options
 } options { BodyLength= u16 Header= f64 ; u128 =
    true
    ; } // a // b")).
Eval vm_compute in ("<<<M3446>>>" ++ check (runes_of_ascii "packet o { repeat Logon uint8x , } options
// c
{ asx = zchar[ 3 ] stringy = '\x00' }")).
Eval vm_compute in ("<<<M3812>>>" ++ check (runes_of_ascii "
MetaData

    T	{
crc  /// triple
    u8x`say ""hi""`
,

}  // `tick` ""quote"" 'q'
")).
Eval vm_compute in ("<<<M2931>>>" ++ check (runes_of_ascii "packet A {
  match k as n {
    [1, 22, ""c c"", 4, 5, ""f"", 7] : B,
    2 : C
  },
}")).
Eval vm_compute in ("<<<M3591>>>" ++ check (runes_of_ascii "packet orderItem  {u8
    a ,}  root packet 
newOrder
	{ orderItem , u8	x
    ,}
")).
Eval vm_compute in ("<<<M2208>>>" ++ check (runes_of_ascii "
{ } options { BodyLength= u16 Header= f64 ; u128 =
    true
    ; } // a // b")).
Eval vm_compute in ("<<<M2887>>>" ++ check (runes_of_ascii "packet A {
  match k as n {
    [""a"", ""bb"", ""c c"", ""d""] : B
    2 : C
  },
}")).
Eval vm_compute in ("<<<M2974>>>" ++ check (runes_of_ascii "packet A { Inner { match k as n { [1,22,007,4,5,66,7,8,9,10] : B, }, }, }")).
Eval vm_compute in ("<<<M2961>>>" ++ check (runes_of_ascii "packet A { Inner { match k as n { [1,22,007,4,5,66,7,8,9] : B, }, }, }")).
Eval vm_compute in ("<<<M4126>>>" ++ check (runes_of_ascii "
packet
	x
	{ @rightPad( 
)
repeat  roots	Logon `doc` 
,}
    // c")).
Eval vm_compute in ("<<<M2864>>>" ++ check (runes_of_ascii "packet A {
  match k as n {
    [""a"", ""bb""] : B,
    2 : C
  },
}")).
Eval vm_compute in ("<<<M3541>>>" ++ check (runes_of_ascii "

  root
    packet P  { hdr

    {
u8

a
	,
}  ,  u8	x, 
}")).
Eval vm_compute in ("<<<M3032>>>" ++ check (runes_of_ascii "packet A {
    B b `x
`,
    B `x
`,
    repeat B bs `x
`,
}")).
Eval vm_compute in ("<<<M3366>>>" ++ check (runes_of_ascii "packet
// c
x { @rightPad ( ) repeat roots Logon `doc` , }")).
Eval vm_compute in ("<<<M2857>>>" ++ check (runes_of_ascii "packet A {
  match k as n {
    [1] : B,
    2 : C
  },
}")).
Eval vm_compute in ("<<<M4366>>>" ++ check (runes_of_ascii "
MetaData  msg_type
	{ zchar[
    65535 ]
pack 
,}

")).
Eval vm_compute in ("<<<M537>>>" ++ check (runes_of_ascii "
MetaData u
{} packet Header
{ i64 Logon ``	, }
")).
Eval vm_compute in ("<<<M1156>>>" ++ check (runes_of_ascii "
options {
    u8x// @lengthOf(
=
    false }

")).
Eval vm_compute in ("<<<M1654>>>" ++ check (runes_of_ascii "packet
//	t
// trailing space 
_x {
// packet")).
Eval vm_compute in ("<<<M2713>>>" ++ check (runes_of_ascii "i32 @leftPad '0' f64 as root ; } root int64")).
Eval vm_compute in ("<<<M3203>>>" ++ check (runes_of_ascii "root packet u128 { chars `it's` , } // c
")).
Eval vm_compute in ("<<<M4371>>>" ++ check (runes_of_ascii "options {
    a = 1;// a
    b = 2// b
}")).
Eval vm_compute in ("<<<M2615>>>" ++ check (runes_of_ascii "packet A { match as as n { 1 : B }, }")).
Eval vm_compute in ("<<<M799>>>" ++ check (runes_of_ascii "//
options {
    Z9_  =	65535; } 	 ")).
Eval vm_compute in ("<<<M2621>>>" ++ check (runes_of_ascii "packet A { @tag(1) @tag(2) u8 x, }")).
Eval vm_compute in ("<<<M979>>>" ++ check (runes_of_ascii "root packet calculatedFrom{ } 	 ")).
Eval vm_compute in ("<<<M3954>>>" ++ check (runes_of_ascii "options {
    lengthOf = '0';
}")).
Eval vm_compute in ("<<<M3142>>>" ++ check (runes_of_ascii "packet A {
 u8 x `d" ++ [6158]%N ++ runes_of_ascii "`, // c" ++ [6158]%N ++ runes_of_ascii "
}")).
Eval vm_compute in ("<<<M1168>>>" ++ check (runes_of_ascii "MetaData Foo// " ++ [128512]%N ++ runes_of_ascii " emoji
{  }")).
Eval vm_compute in ("<<<M2628>>>" ++ check (runes_of_ascii "packet A { u8 x, @tag(1) }")).
Eval vm_compute in ("<<<M634>>>" ++ check (runes_of_ascii "options {
As = true ; }")).
Eval vm_compute in ("<<<M51>>>" ++ check (runes_of_ascii "packet BodyLength {}
")).
Eval vm_compute in ("<<<M1031>>>" ++ check (runes_of_ascii "root packet u128 { }")).
Eval vm_compute in ("<<<M2574>>>" ++ check (runes_of_ascii "packet A { x `d`, }")).
Eval vm_compute in ("<<<M1267>>>" ++ check (runes_of_ascii "root packet a1 { }")).
Eval vm_compute in ("<<<M3120>>>" ++ check (runes_of_ascii "packet A {
}
// c" ++ [12]%N)).
Eval vm_compute in ("<<<M3068>>>" ++ check (runes_of_ascii "packet A {
}// c" ++ [160]%N)).
Eval vm_compute in ("<<<M2827>>>" ++ check (runes_of_ascii "options packet :")).
Eval vm_compute in ("<<<M2671>>>" ++ check (runes_of_ascii "options A { }")).
Eval vm_compute in ("<<<M2854>>>" ++ check (runes_of_ascii "( match , {")).
Eval vm_compute in ("<<<M2484>>>" ++ check (runes_of_ascii "@leftpad")).
Eval vm_compute in ("<<<M991>>>" ++ check (runes_of_ascii " // " ++ [27880; 37322]%N)).
Eval vm_compute in ("<<<M2450>>>" ++ check (runes_of_ascii "true1")).
Eval vm_compute in ("<<<M470>>>" ++ check (runes_of_ascii "//

")).
Eval vm_compute in ("<<<M333>>>" ++ check (runes_of_ascii "

")).
Eval vm_compute in ("<<<M2813>>>" ++ check (runes_of_ascii "t^h")).
Eval vm_compute in ("<<<M2506>>>" ++ check (runes_of_ascii """")).
