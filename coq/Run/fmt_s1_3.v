From FP Require Import Lexer Parser ShowPT Digest Formatter.
From Coq Require Import String List NArith.
Import ListNotations.
Open Scope string_scope.
Set Printing Width 100000000.
Set Printing Depth 100000000.
Definition show_fres (r : fres) : string :=
  match r with
  | FOk s => "OK:" ++ sh_escaped s ""
  | FErr s => "ERR:" ++ sh_escaped s ""
  | FPanic p => "PANIC:" ++ p
  end.
Definition check (rs : list rune) : string := digest (show_fres (format_res rs)).
Definition full (rs : list rune) : string := show_fres (format_res rs).
Eval vm_compute in ("<<<M930>>>" ++ check (runes_of_ascii "  root packet
    i64_ { u64  Z9_@lengthOf( // packet A { u8 x, }
uint8x )	`
`
    , repeat zchar x ,
    match Packet as
    a1
    { [ ""a	b""] : packetx [ 255 , ""x y"" , """ ++ [28040; 24687]%N ++ runes_of_ascii """	, 10, ""it's"" , 4294967296, """" ]: falsey	, } , rootA {repeat
charz { // " ++ [128512]%N ++ runes_of_ascii " emoji
match	x as	a1
{ 10
: metadata //
,[
""{,}""
,	00 , ""a	b"" ,007
    , ""abc"" ,""// no comment""	]
: int	,	3:	tag , 255 : x ,
""{,}""  :
Z9_, } ,
} ,
    //
    body // @lengthOf(
{
    repeat roots {
f32
    i8i8/// triple
@calculatedFrom(
""a\\""	)
    `line1
line2` , }	,i8 leftPad `doc`	, }
,o@calculatedFrom(
    """ ++ [28040; 24687]%N ++ runes_of_ascii """ )	`" ++ [28040; 24687; 31867; 22411]%N ++ runes_of_ascii "` ,
} , match calculatedFrom as chars {
    // " ++ [27880; 37322]%N ++ runes_of_ascii "
    10 :  i64_ , } , @lengthOf( i8i8
    ) @tag(3
)
match Logon as o { [ """"
    // a // b
    , //
42,""it's"" ,
    """ ++ [28040; 24687]%N ++ runes_of_ascii """ ,"""" ,	""" ++ [28040; 24687]%N ++ runes_of_ascii """ ] : tag , }// " ++ [27880; 37322]%N ++ runes_of_ascii "
, // `tick` ""quote"" 'q'
zchar[0123456789] rootA @calculatedFrom(
    ""abc"" ) ,zchar[ 4294967296	] Z9_ ,
zchar[
65535
// " ++ [128512]%N ++ runes_of_ascii " emoji
// " ++ [128512]%N ++ runes_of_ascii " emoji
]Header @lengthOf(
trueish
    ) ,@tag(
// `tick` ""quote"" 'q'
//x
0123456789 // " ++ [27880; 37322]%N ++ runes_of_ascii "
) repeat trueish { float{repeat char[ 10
] metadata, f32 float ,
As
    @calculatedFrom(
""" ++ [233]%N ++ runes_of_ascii "t" ++ [233]%N ++ runes_of_ascii """
    )  , tag@calculatedFrom( ""CRC32"" // trailing space 
) `line1
line2`
    , } ,} , } packet packetx { char[]
    options1 ,
//
//x
@calculatedFrom( """ ++ [28040; 24687]%N ++ runes_of_ascii """  )@tag(	1
/// triple
//
)
    match
    lengthOf as calculatedFrom
    {""packet""
    :
    //
    uint8x /// triple
[ """ ++ [128512]%N ++ runes_of_ascii """	]: trueish
    ,
[ ""CRC32"" ,  3
    ] : uint8x , [ ""\n"" ,
""{,}"" ] //
: metadata ,
} ,@tag( 00 )match Foo
as
falsey { 0 : pack
    , } , @calculatedFrom(  ""{,}"")	repeat Logon
    `" ++ [233]%N ++ runes_of_ascii "`
,
    @lengthOf(stringy) A @lengthOf( pack ) ,
@tag(	00 // packet A { u8 x, }
) match u8x as Packet {65535 : _x
    ,
}	,
    // a // b
    @rightPad ( )	leftPad
    @calculatedFrom( // packet A { u8 x, }
"""" )`
` /// triple
, @calculatedFrom(
""""  ) @tag(// trailing space 
4294967296 )
@tag( 7 ) zchar[// `tick` ""quote"" 'q'
10 ]
asx `tab	here`
, @lengthOf(options1)
    //
    f32 packetx ,
    // trailing space 
    calculatedFrom {
    zchar[0
]Packet
, } , // @lengthOf(
} MetaData
    u128
{ }packet  o{ @lengthOf( lengthOf ) tag	body  `line1
line2`
    ,packetx , repeat uint32 chars ,
match pack as u128  { ""it's"" : a1, [ ""x y""
, ""it's"" ] : packetx
/// triple
// @lengthOf(
, }, @leftPad (/// triple
)	@calculatedFrom( ""packet""
)
    //
    @calculatedFrom(
""1"")
    match i8i8 as Pad { [ 1
, 4294967296 ,
// `tick` ""quote"" 'q'
//x
""\n"" ] :
    T, }
, tag
    Foo	, A{ repeat
// a // b
// " ++ [128512]%N ++ runes_of_ascii " emoji
pack
, // `tick` ""quote"" 'q'
repeat T {
string asx@calculatedFrom( ""// no comment"" )`
`//	t
,
    char[] x
@lengthOf( trueish	) // a // b
,	zchar[
007] body @lengthOf(  A
    )	`two words` , }
, repeat uint8x{ match
leftPad as  A {
[ ""\" ++ [233]%N ++ runes_of_ascii """ ] : metadata , }// @lengthOf(
,	repeat MetaDataX//
int `u8 x,` , match rootA as  Foo { ""x y"": Logon,	},
match MetaDataX as
    // c
    metadata
{ 4294967296 // @lengthOf(
: _x , [""{,}"" , """" // `tick` ""quote"" 'q'
, ""1"" ,// " ++ [128512]%N ++ runes_of_ascii " emoji
4294967296 , ""\" ++ [233]%N ++ runes_of_ascii """
    , ""abc""
    // packet A { u8 x, }
    ] : roots , [""{,}"" // trailing space 
,
    """ ++ [128512]%N ++ runes_of_ascii """] : Z9_  ,
""a	b""	:
trueish  , ""\" ++ [233]%N ++ runes_of_ascii """ :int
[
    0 , 1  ]:
i64_, },
    } // @lengthOf(
, }	, repeat chars u8x,	Logon
int `u8 x,` ,
repeat packetx
    `a\`
,  }
")).
Eval vm_compute in ("<<<M1355>>>" ++ check (runes_of_ascii "packet float {  @lengthOf(
matchKey )	int64	options1 @calculatedFrom( ""{,}"" )`it's`, repeat
i32 msg_type `a\` ,  options1  @calculatedFrom(""it's""
)  `// not a comment`, @lengthOf( roots) u8 repeatCount
`say ""hi""` ,
    int16 len, char[]
chars @lengthOf(
    repeatCount ) ,
    /// triple
    @calculatedFrom(""{,}"" ) match body as i64_{ ""x y""
    :	pack  ,
//
// @lengthOf(
}	,
    A
{ i8i8 @calculatedFrom(""a	b"" ),} // c
, @leftPad( '\x00' ) /// triple
metadata { repeat Foo	{	Z9_
//x
// `tick` ""quote"" 'q'
trueish , } , }
, @calculatedFrom(
// " ++ [27880; 37322]%N ++ runes_of_ascii "
/// triple
""" ++ [233]%N ++ runes_of_ascii "t" ++ [233]%N ++ runes_of_ascii """ // " ++ [128512]%N ++ runes_of_ascii " emoji
)
@lengthOf( lengthOf	)
    // packet A { u8 x, }
    @rightPad  (
    '\x00' // " ++ [128512]%N ++ runes_of_ascii " emoji
)
repeat
    char[ 255] // c
string_`a\` ,
    }
MetaData
    trueish {o
T	,	char[ 1 ] BodyLength`{ , }` , } packet Logon
{ @calculatedFrom(""a\\"") // `tick` ""quote"" 'q'
match roots  as
As { 255:stringy , [ // packet A { u8 x, }
10 , """" , """ ++ [233]%N ++ runes_of_ascii "t" ++ [233]%N ++ runes_of_ascii """
, ""a\""b"" ,
    ""\" ++ [233]%N ++ runes_of_ascii """ ]
:  _x  , }
, }	packet
    i64_	{ // a // b
@tag( 007
)float32	metadata`two words`
// @lengthOf(
// `tick` ""quote"" 'q'
,	match Header as matchKey{	""`tick`"" : Pad ,[""a\""b"" ,""a	b""
    , 65535
// packet A { u8 x, }
// packet A { u8 x, }
,
10  ,""1""
,  ""a\""b"" , ""abc"",
""`tick`""] : rootA	,[255 , ""a\""b"" ]:// trailing space 
body ,
    // `tick` ""quote"" 'q'
    ""\n""	: stringy
    ,
    [ 0  , ""\" ++ [233]%N ++ runes_of_ascii """ ,	""\" ++ [233]%N ++ runes_of_ascii """ , 65535 , 3
    ,0 ,""1"" ,
//x
// trailing space 
42 ]
:Z9_,
// a // b
// @lengthOf(
""a\""b"" //
: string_ , } ,len
MetaDataX ,u @lengthOf(calculatedFrom  ) `a\` , Foo {
    match crc
// @lengthOf(
// `tick` ""quote"" 'q'
as
    // trailing space 
    asx // " ++ [27880; 37322]%N ++ runes_of_ascii "
{
""1"":leftPad
    ,
""" ++ [128512]%N ++ runes_of_ascii """
: leftPad
[ ""{,}""  ] : string_
, ""CRC32"":
crc, 42 :u
    }
    ,
    match asx as u {
    [4294967296 ,1	]:	zchar ,//x
} ,	string body ,
    // " ++ [128512]%N ++ runes_of_ascii " emoji
    lengthOf asx
    `two words`
    // trailing space 
    , } ,charz @calculatedFrom( ""abc"" ) // trailing space 
`{ , }` ,char[
// a // b
//x
0123456789]
    // a // b
    o @lengthOf( packetx )
    // " ++ [128512]%N ++ runes_of_ascii " emoji
    , }")).
Eval vm_compute in ("<<<M3741>>>" ++ check (runes_of_ascii "packet uint8x {
}

MetaData trueish {
}

root packet tag {
    @calculatedFrom(""x y"")
    @tag(255)
    @calculatedFrom(""a	b"")
    string_ Packet,
    repeat u8 roots `" ++ [28040; 24687; 31867; 22411]%N ++ runes_of_ascii "`,
    roots @calculatedFrom(""it's""),
    rootA {
        Foo @calculatedFrom(""x y"") `{ , }`,
    },//
    match MetaDataX as x_y_z {
        3 : trueish,
        // a // b
        0 : zchar,
        /// triple
        """ ++ [233]%N ++ runes_of_ascii "t" ++ [233]%N ++ runes_of_ascii """ : crc,
    },
    roots {
        repeat zchar[10] A,
    },
    @leftPad('\x00')
    repeat string lengthOf,
    @tag(0)
    u128,
}

packet body {
    len `crlf
        line`,
    @lengthOf(Pad)
    @calculatedFrom(""\" ++ [233]%N ++ runes_of_ascii """)
    @leftPad(' ')
    repeat float {
        zchar[1] options1,
        int32 metadata @lengthOf(f32a),
    },
    match Packet as _x {
        255 : Header,
        007 : packetx,
        [42, 255] : msg_type,
        // " ++ [128512]%N ++ runes_of_ascii " emoji
        00 : lengthOf,
        [3, 65535] : string_,
        ""abc"" : uint8x,
    },
    repeat x_y_z {
        Foo {
            repeat A calculatedFrom,
            Z9_ @calculatedFrom(""it's"") `{ , }`,
            repeat u repeatCount,
            repeat u16 u8x `// not a comment`,
        },
        u32 lengthOf `
                `,
        int8 rootA,
        repeat a1 {
            match options1 as repeatCount {
                [255, 007] : packetx,
            },
            As {
                repeatCount u,
                zchar[255] BodyLength `{ , }`,
            },
        },
    },
    char[4294967296] A `" ++ [233]%N ++ runes_of_ascii "`,
    u8 int,
    repeat Packet {
        x calculatedFrom `" ++ [233]%N ++ runes_of_ascii "`,
    },
    A,
    Foo @lengthOf(matchKey) `" ++ [233]%N ++ runes_of_ascii "`,
    // `tick` ""quote"" 'q'
    // a // b
    uint32 options1,
}

packet calculatedFrom {
}")).
Eval vm_compute in ("<<<M4203>>>" ++ check (runes_of_ascii "options {
    o = ""it's"";
}

/// triple
/// triple
packet calculatedFrom {
    int32 Header @calculatedFrom(""x y"") `" ++ [28040; 24687; 31867; 22411]%N ++ runes_of_ascii "`,
    @tag(0)
    @lengthOf(f32a)
    match i64_ as T {
        255 : Foo,
        1 : T,
        ""a	b"" : Header,
        1 : x,
    },
}

root packet options1 {
    @leftPad(' ')
    match uint8x as lengthOf {
        ""`tick`"" : x_y_z,
    },
    @calculatedFrom(""a\""b"")
    repeat body `
    `,
    char[10] float,
    match stringy as repeatCount {
        [42, ""`tick`""] : float,
        //	t
        ""abc"" : matchKey,
        // a // b
        7 : As,
        255 : pack,
        ""{,}"" : len,
        3 : metadata,
    },
    char[3] trueish @calculatedFrom(""CRC32""),
    repeat charz {
        match Pad as Z9_ {
            ""packet"" : f32a,
            ""{,}"" : f32a,
            7 : _x,
            00 : repeatCount,
            4294967296 : asx,
            ""CRC32"" : u128,
            //x
        },
        char[42] crc `two words`,
        // @lengthOf(
        //	t
        repeat Foo `doc`,
    },
}

options {
    falsey = false;// trailing space 
    Header = true;// `tick` ""quote"" 'q'
    packetx = u64;
    calculatedFrom = ""\n"";
}

packet body {
    @tag(42)
    repeat i16 u128 `// not a comment`,
    @tag(0)
    @tag(0123456789)
    @calculatedFrom(""\n"")
    zchar[255] x_y_z @lengthOf(stringy),
    f32a @lengthOf(Logon),
    repeat zchar[10] _x,
    float64 charz ``,
    Pad @lengthOf(u),
    body ``,
}")).
Eval vm_compute in ("<<<M878>>>" ++ check (runes_of_ascii "root packet a1
{ uint64 body , @lengthOf(
rootA )
char[ 1
    ] zchar //
, BodyLength // @lengthOf(
,
string_
, char[] float
@lengthOf(lengthOf  ) , //
uint32 asx`" ++ [28040; 24687; 31867; 22411]%N ++ runes_of_ascii "` , char[]	uint8x @calculatedFrom( ""abc""
    )
, @tag( 255 )@calculatedFrom( ""a\\"" )zchar[
// a // b
// @lengthOf(
3 ]
    options1 ,
    } packet charz { @rightPad	( ' ' ) matchKey @lengthOf(u) `u8 x,` // @lengthOf(
,@lengthOf(len) @lengthOf(falsey)
    u @calculatedFrom( ""a\\"" ), match i8i8 as
    Packet {
    [""a	b"" ]
: roots // `tick` ""quote"" 'q'
,
    ""abc"":
    // trailing space 
    trueish	, [""a\\"",
    65535 ] // packet A { u8 x, }
:
    asx
0123456789:// " ++ [27880; 37322]%N ++ runes_of_ascii "
a1	, 1
// packet A { u8 x, }
//
:
    i64_ } ,  match len as Header {	[
    0
    , 0123456789 , 7 ,0 , ""\n""
    ,""a\\""
// a // b
//
]:
o
    , ""x y""
    // `tick` ""quote"" 'q'
    :
    crc [ 3 ,""\" ++ [233]%N ++ runes_of_ascii """  ]
    : lengthOf//
,  [10,""x y"" ] :
    u8x
1
:Packet /// triple
, 007 :
    Z9_ ,
} , @calculatedFrom(
""packet""
    ) @tag(65535) repeat Pad rootA , @tag(
4294967296  )@lengthOf(stringy ) crc //
@lengthOf( uint8x ) `" ++ [28040; 24687; 31867; 22411]%N ++ runes_of_ascii "` , }
    // @lengthOf(
    MetaData u8x { len
calculatedFrom	, // packet A { u8 x, }
u16 asx , } MetaData Logon
{ u16 chars  `` ,
A matchKey `a\`,char[007 ]Header , len uint8x,
    A Packet `line1
line2`
//	t
//x
,
string trueish
    `u8 x,` ,	}
")).
Eval vm_compute in ("<<<M900>>>" ++ check (runes_of_ascii "options{ x_y_z
=	""" ++ [128512]%N ++ runes_of_ascii """ ;
BodyLength
= 0 a1=""a\\"" ;trueish =
    ""{,}"" ;	} packet	crc { @calculatedFrom( ""CRC32""  ) char[]
    u8x @lengthOf( lengthOf )// " ++ [27880; 37322]%N ++ runes_of_ascii "
`line1
line2` ,
Z9_ int, repeat
    float
    // a // b
    {char[ 00	]
i64_  `` , // c
}
, body
@lengthOf( stringy) // packet A { u8 x, }
`// not a comment`
    ,	} MetaData
u128 { char// " ++ [128512]%N ++ runes_of_ascii " emoji
charz , float64
msg_type	`tab	here`
    ,Logon
stringy `// not a comment` ,	u64 lengthOf ,chars
u8x ,
    string_ crc , } root packet
zchar { @calculatedFrom(""" ++ [28040; 24687]%N ++ runes_of_ascii """ ) @tag(
10
)float32 len
    , } packet calculatedFrom{	repeat
    // " ++ [128512]%N ++ runes_of_ascii " emoji
    int8 zchar, @lengthOf(
    asx ) lengthOf
    @lengthOf(
u ) ,	Header
@lengthOf( rootA )
`it's`  ,@tag( 65535 )  match u8x as
Header { """ ++ [233]%N ++ runes_of_ascii "t" ++ [233]%N ++ runes_of_ascii """
    :matchKey """ ++ [28040; 24687]%N ++ runes_of_ascii """ :x_y_z ,
    0 : trueish, [ """" /// triple
, """ ++ [128512]%N ++ runes_of_ascii """ ,  """ ++ [28040; 24687]%N ++ runes_of_ascii """ , 3 ,
    7// " ++ [128512]%N ++ runes_of_ascii " emoji
, ""`tick`"" ,""""
]
: _x },
    //x
    @leftPad(
' ' ) string_ falsey	`say ""hi""` // " ++ [27880; 37322]%N ++ runes_of_ascii "
, @leftPad (
' ') @rightPad  (
'0' )
    @leftPad( )
match	roots as
a1{ ""packet"" : T }
, @calculatedFrom(
    ""`tick`""
    // " ++ [27880; 37322]%N ++ runes_of_ascii "
    ) @calculatedFrom( ""`tick`"" )
@calculatedFrom(// a // b
""\" ++ [233]%N ++ runes_of_ascii """)
    // a // b
    zchar[0]
    A ,
// " ++ [27880; 37322]%N ++ runes_of_ascii "
//
zchar[ //x
0123456789 ]x ,
    }
")).
Eval vm_compute in ("<<<M631>>>" ++ check (runes_of_ascii "packet pack {
    }options {	As
//
// " ++ [128512]%N ++ runes_of_ascii " emoji
= ""\" ++ [233]%N ++ runes_of_ascii """ ; }
    root packet lengthOf{
    @tag(65535 ) @calculatedFrom( """ ++ [233]%N ++ runes_of_ascii "t" ++ [233]%N ++ runes_of_ascii """ ) @calculatedFrom(""abc"" )	repeat string
msg_type
    ,
    @calculatedFrom(
    """ ++ [233]%N ++ runes_of_ascii "t" ++ [233]%N ++ runes_of_ascii """)
char[ 255
] // packet A { u8 x, }
Logon , u64 pack@calculatedFrom( ""a\\"" /// triple
), @rightPad (
    '0' ) T
{ zchar[ 3 ] u8x @calculatedFrom( ""CRC32""
)`two words` , o{_x {
    // " ++ [27880; 37322]%N ++ runes_of_ascii "
    float32 calculatedFrom
    , } ,
    repeat
int64 u128 ,float32 string_ @lengthOf(msg_type )`say ""hi""` , } ,
} ,i16 charz`a\`//
, @lengthOf( x	) leftPad {
As { int64 i8i8
,
} ,
    // packet A { u8 x, }
    } ,
    @tag( 7	) @tag( 7
    /// triple
    ) x_y_z@lengthOf( body)
    ,@tag(
007 )repeat	calculatedFrom _x ,@calculatedFrom(	""\n"" )
    repeat
    u8
trueish , i16
calculatedFrom `it's`
    , }
packet	A { match As as chars {""1"" :options1 ,} , } packet Packet { @leftPad
    // " ++ [27880; 37322]%N ++ runes_of_ascii "
    ( '\x00'
    ) float64 // c
matchKey ,
zchar[
65535	] Pad`" ++ [233]%N ++ runes_of_ascii "` ,
    repeat
uint32 options1,	@calculatedFrom(
    ""// no comment"" ) char[] metadata `// not a comment`
,Header @calculatedFrom( ""packet"" ) ``
,  }
// a // b
")).
Eval vm_compute in ("<<<M909>>>" ++ check (runes_of_ascii "options { f32a
=
007
    ;body =""" ++ [128512]%N ++ runes_of_ascii """	i64_ // " ++ [27880; 37322]%N ++ runes_of_ascii "
=zchar[ 0123456789
]
}
options {
    i8i8
= // c
""abc"" ; body = true T
=
float32} root packet MetaDataX
    //	t
    {	@rightPad
    ( '\x00' )char[] // " ++ [128512]%N ++ runes_of_ascii " emoji
matchKey ,
    @calculatedFrom(""CRC32""
) // c
match
int as
options1 { """ ++ [233]%N ++ runes_of_ascii "t" ++ [233]%N ++ runes_of_ascii """ : calculatedFrom , } ,@tag(  7) char[
    65535 ] packetx `" ++ [233]%N ++ runes_of_ascii "` , @calculatedFrom(
    """ ++ [28040; 24687]%N ++ runes_of_ascii """) string
    A  ,  repeat T{
repeat tag
`// not a comment`
, } ,
    // `tick` ""quote"" 'q'
    @rightPad	( '0' ) @calculatedFrom( ""{,}"") Header
    {
int8 A
    `u8 x,`
    , chars  { zchar
{ metadata//	t
metadata ,} ,zchar[ 00
] Foo // " ++ [27880; 37322]%N ++ runes_of_ascii "
, repeat lengthOf
{ x	`line1
line2` ,
    repeat
    // trailing space 
    zchar[ 1
    //x
    ]
trueish ,},
match uint8x as As { 1 :u128
, ""a\""b""	:i64_ 0 : string_,} ,
} , }//
,//	t
repeat char float `say ""hi""`  ,
// a // b
//
repeat
    char[]x `say ""hi""`
    , repeat char[]
    //	t
    A `{ , }` , Header @lengthOf( lengthOf ) , } root packet
float { string_/// triple
repeatCount ,
repeat //x
rootA x  ,  }
// " ++ [128512]%N ++ runes_of_ascii " emoji
")).
Eval vm_compute in ("<<<M894>>>" ++ check (runes_of_ascii "packet leftPad{	char[]
matchKey@lengthOf( MetaDataX ) , }
options
{
}
    packet
    f32a {
@lengthOf(
int
) @leftPad
('\x00' )
@calculatedFrom(
""\" ++ [233]%N ++ runes_of_ascii """
    // a // b
    )  repeat
    T BodyLength ,@leftPad
('\x00' )uint16 body @calculatedFrom(  ""{,}"" ) `" ++ [233]%N ++ runes_of_ascii "` , @leftPad	(  ' '
    // trailing space 
    )
    match Z9_ as Foo // a // b
{ 7
: MetaDataX
,
    4294967296 :// c
options1 , ""x y"" :
A} ,	repeat zchar[
    10 //x
] f32a
    `it's`//
, // trailing space 
} packet x_y_z{ uint32 _x
    , MetaDataX { trueish metadata  ,char[
    // " ++ [128512]%N ++ runes_of_ascii " emoji
    42 ]
// " ++ [27880; 37322]%N ++ runes_of_ascii "
//	t
falsey, } //x
, char[] packetx//
`it's`  , falsey , repeat metadata `it's` ,//x
@tag(
42)
x
@calculatedFrom(	""x y"" ) , @lengthOf( float // a // b
)
    // packet A { u8 x, }
    repeat Foo{ asx
// a // b
// " ++ [128512]%N ++ runes_of_ascii " emoji
{ repeat char[]crc	`a\`, repeat A ,
} , u  Packet `say ""hi""`, roots @calculatedFrom(/// triple
""{,}"" // trailing space 
) , zchar[ 65535
]
f32a @lengthOf( o) ,  }
    ,
// @lengthOf(
// @lengthOf(
}")).
Eval vm_compute in ("<<<M4343>>>" ++ check (runes_of_ascii "options {
    lengthOf = """ ++ [128512]%N ++ runes_of_ascii """
    Pad = ""it's""
    Packet = ' ';
}

packet stringy {
    @calculatedFrom(""a\\"")
    stringy asx `doc`,
    f32a,
    options1 {
        f64 BodyLength @lengthOf(i64_),
        matchKey roots,
        repeat i8 chars,
        /// triple
    },
    charz string_,
    i8 repeatCount `crlf
        line`,
}

packet uint8x {
    @tag(00)
    uint64 MetaDataX,
    @tag(00)
    char uint8x @lengthOf(uint8x),
    roots @lengthOf(stringy) `
        `,
    @rightPad()
    zchar[0123456789] T `" ++ [233]%N ++ runes_of_ascii "`,
    @tag(42)
    repeat i64 repeatCount,
    falsey `doc`,
    char[65535] falsey `say ""hi""`,
    x_y_z int,
    @lengthOf(MetaDataX)
    match Logon as leftPad {
        ""abc"" : zchar,
        255 : A,
    },
}

MetaData falsey {
}

packet BodyLength {
    Pad asx,
    @calculatedFrom(""a	b"")
    string packetx `it's`,
    float64 uint8x `two words`,
    zchar[007] uint8x @calculatedFrom(""a\\"") `" ++ [28040; 24687; 31867; 22411]%N ++ runes_of_ascii "`,
}")).
Eval vm_compute in ("<<<M1214>>>" ++ check (runes_of_ascii "packet float
{ @calculatedFrom(
""a\\""
    ) char[
00 ]zchar `line1
line2` ,
//	t
// `tick` ""quote"" 'q'
@lengthOf(
calculatedFrom )
    match chars as repeatCount // a // b
{ // packet A { u8 x, }
""CRC32"" : // packet A { u8 x, }
f32a
, }
    , // packet A { u8 x, }
} root
    packet BodyLength {@rightPad ( '\x00' )u32 Header@lengthOf( A
) , @leftPad
( '0' // c
)char[ 1 ] metadata@calculatedFrom(
    ""x y""	) , repeat f32a {char[] _x @lengthOf( body ) `line1
line2`, calculatedFrom
{
string msg_type,char[
    0123456789	] int@lengthOf(
    int )
    ``	, } , } , trueish ,
//x
// `tick` ""quote"" 'q'
char[] f32a ,
    o Pad  , crc @lengthOf(
    chars	)`" ++ [28040; 24687; 31867; 22411]%N ++ runes_of_ascii "` //
,	@calculatedFrom(
""\n""
) // packet A { u8 x, }
@lengthOf( leftPad ) BodyLength { repeat Logon
    {
lengthOf
@lengthOf( trueish  ) `// not a comment`,} ,
    }, }MetaData matchKey{
uint64
BodyLength , }
")).
Eval vm_compute in ("<<<M3822>>>" ++ check (runes_of_ascii "packet Header {
    trueish @calculatedFrom(""a	b""),
    Header @calculatedFrom(""a\\""),//	t
    @calculatedFrom(""a\\"")
    /// triple
    i16 body @lengthOf(f32a),// packet A { u8 x, }
    match stringy as _x {
        ""`tick`"" : string_,
        42 : u8x,
        ""\n"" : repeatCount,
        ""a\\"" : options1,
        [
            4294967296, ""{,}"", 4294967296, """ ++ [28040; 24687]%N ++ runes_of_ascii """, 3,
            ""abc""
        ] : u8x,
    },
    zchar[0123456789] MetaDataX,
    @calculatedFrom(""x y"")
    @lengthOf(A)
    zchar[00] a1,
    match options1 as calculatedFrom {
        [
            ""// no comment"", ""abc"", 65535, ""CRC32"", 0,
            ""CRC32""
        ] : uint8x,
        ""// no comment"" : chars,
        [""" ++ [233]%N ++ runes_of_ascii "t" ++ [233]%N ++ runes_of_ascii """, ""a	b""] : pack,
        10 : tag,
    },
    @tag(42)
    repeat len,
    @lengthOf(u)
    char[] f32a,// packet A { u8 x, }
}")).
Eval vm_compute in ("<<<M4608>>>" ++ check (runes_of_ascii "packet x {
    u16 msg_type @lengthOf(BodyLength),// trailing space 
    @calculatedFrom(""" ++ [28040; 24687]%N ++ runes_of_ascii """)
    repeat Header {
        char[0123456789] repeatCount,
        zchar[7] i64_ @calculatedFrom(""" ++ [28040; 24687]%N ++ runes_of_ascii """),
        repeat T zchar `tab	here`,
    },
    uint8 body `doc`,
    repeat char[] i8i8,
    uint32 f32a @calculatedFrom(""`tick`""),
    @rightPad(' ')
    match rootA as matchKey {
        42 : lengthOf,
        // `tick` ""quote"" 'q'
        ""// no comment"" : Z9_,
        [""a\\"", 1] : len,
        10 : trueish,
    },
    f64 Logon @lengthOf(T) `crlf
        line`,
    match float as i8i8 {
        ""\n"" : i64_,
    },
    @lengthOf(u8x)
    // trailing space 
    @leftPad('\x00')
    char[007] body `it's`,
    @leftPad('0')
    string crc @calculatedFrom(""a\\"") `" ++ [28040; 24687; 31867; 22411]%N ++ runes_of_ascii "`,
}")).
Eval vm_compute in ("<<<M343>>>" ++ check (runes_of_ascii "packet
Pad{
    } options { _x
= false
/// triple
// trailing space 
;} MetaData	repeatCount{char[ 10 ]  As `it's`
, T metadata `say ""hi""` , u16
matchKey ,  }packet u128{f32
    As@calculatedFrom( ""packet"") `a\` , repeat
// packet A { u8 x, }
// " ++ [128512]%N ++ runes_of_ascii " emoji
char[ 7 ]
// packet A { u8 x, }
// `tick` ""quote"" 'q'
T `say ""hi""`,
    @lengthOf(
    // c
    rootA )u64 //
trueish `{ , }` , repeat char[
3 ] MetaDataX ,
    repeat float64  i64_ ,i16
    charz
    ,u8 trueish @lengthOf(
    int
    )`u8 x,`
    ,
    @leftPad ( '0' ) match
Header
as
f32a { [  007
]
:
i8i8
, ""a	b""	://x
As ,
[ ""\n"" ]  :	zchar ,
    007:
a1 ,	0123456789 : falsey
, } , repeat float64 stringy	`a\`, } packet
    MetaDataX
{ roots
    // @lengthOf(
    leftPad `a\`, }")).
Eval vm_compute in ("<<<M3772>>>" ++ check (runes_of_ascii "root packet calculatedFrom {
    /// triple
    @calculatedFrom(""{,}"")
    match asx as i8i8 {
        ""CRC32"" : f32a,
        ""// no comment"" : Packet,
        // trailing space 
    },
    repeat zchar[7] len,//
    match options1 as string_ {
        """ ++ [128512]%N ++ runes_of_ascii """ : metadata,
        [""\n"", ""CRC32"", ""a\""b""] : x_y_z,
        42 : string_,
    },
    @lengthOf(msg_type)
    string Pad `tab	here`,
    f32a,
    match Logon as stringy {
        007 : metadata,
        [255, 10] : matchKey,
        [10, ""1"", ""`tick`"", 0] : roots,
        255 : o,
        [1] : msg_type,
        0123456789 : falsey,
    },
}

root packet crc {
}

options {
    falsey = false;
    len = ""\" ++ [233]%N ++ runes_of_ascii """;
    A = ""a	b""
    lengthOf = ""1""
}")).
Eval vm_compute in ("<<<M4520>>>" ++ check (runes_of_ascii "packet As {
    //	t
    char[4294967296] o @calculatedFrom(""// no comment""),
    @calculatedFrom(""\" ++ [233]%N ++ runes_of_ascii """)
    Foo {
        pack @lengthOf(uint8x),
    },
    @calculatedFrom(""it's"")
    @lengthOf(Pad)
    //
    @calculatedFrom(""" ++ [128512]%N ++ runes_of_ascii """)
    repeat zchar[42] BodyLength,
    match body as T {
        255 : msg_type,
        4294967296 : metadata,
        [""{,}"", 4294967296] : f32a,
        7 : options1,
        10 : float,
        [""abc"", ""abc"", 0] : u,
    },
    repeat int64 o `
        `,
    i8i8 `// not a comment`,
}

packet x {
}

packet falsey {
    repeat char Logon,
}

packet _x {
    @calculatedFrom(""a\""b"")
    @tag(7)
    @calculatedFrom(""a\\"")
    metadata,
}")).
Eval vm_compute in ("<<<M675>>>" ++ check (runes_of_ascii "packet uint8x {@lengthOf( Z9_) match A as As { 3
    : float,""x y"" :
    pack
, 255  :
    roots
    ,
    [  ""\n""]	: int
    , // " ++ [27880; 37322]%N ++ runes_of_ascii "
[ // @lengthOf(
""CRC32"" , ""1""] :
    len , } ,char[] options1`{ , }` ,	@tag(
    255  )	f32a @calculatedFrom( """ ++ [28040; 24687]%N ++ runes_of_ascii """)`// not a comment` ,match
    x as pack{ ""// no comment"" : roots //
,
    """ ++ [233]%N ++ runes_of_ascii "t" ++ [233]%N ++ runes_of_ascii """ :	asx, [ ""1"",
""abc"" , 4294967296
    , """ ++ [128512]%N ++ runes_of_ascii """  ]
    // `tick` ""quote"" 'q'
    :crc , ""{,}"" :
    // a // b
    As
00 //
: string_
    ,
}
, Logon ,
    } packet tag { // " ++ [27880; 37322]%N ++ runes_of_ascii "
@tag(00
)a1 { u8
zchar
`` , }, @rightPad ( ' '
    )o i8i8 , f64 Logon @lengthOf(options1)
    , }
    packet pack{ }
// a // b
")).
Eval vm_compute in ("<<<M4234>>>" ++ check (runes_of_ascii "packet crc {
    // packet A { u8 x, }
    // trailing space 
    Logon,
}

options {
    msg_type = '\x00';
}

packet falsey {
    char[0123456789] calculatedFrom @calculatedFrom(""packet"") `say ""hi""`,
    match As as o {
        65535 : A,
        """" : _x,
        ""`tick`"" : zchar,
        0123456789 : calculatedFrom,
    },
    @tag(00)
    As {
        char[] calculatedFrom,
    },
    float32 zchar,
    char[255] lengthOf,
    @lengthOf(chars)
    @lengthOf(a1)
    body @calculatedFrom(""// no comment"") `crlf
        line`,
}

root packet _x {
    @calculatedFrom(""a\\"")
    repeat i32 o,
}")).
Eval vm_compute in ("<<<M450>>>" ++ check (runes_of_ascii "  packet
    body {
    @tag( 00 ) zchar[
255 ]
//	t
// `tick` ""quote"" 'q'
zchar @calculatedFrom( ""it's"" ) , int8 i8i8	,
    x_y_z @lengthOf(options1 )
    ,
    // packet A { u8 x, }
    zchar[00
] T,
repeat float64
chars , f64 repeatCount `doc` ,
    repeat i64_
repeatCount, repeat Header int
    , uint16 len `line1
line2`
    ,
@lengthOf(	Header)
@tag( 0123456789
) float64 u8x @lengthOf(options1 ) `u8 x,`
    , }options { x = ""\" ++ [233]%N ++ runes_of_ascii """ ; }
    // " ++ [128512]%N ++ runes_of_ascii " emoji
    MetaData	trueish	{ options1 float ``  , // a // b
zchar[ 3]
    lengthOf , }options{ rootA
    =""1""  T = """ ++ [128512]%N ++ runes_of_ascii """ }
")).
Eval vm_compute in ("<<<M888>>>" ++ check (runes_of_ascii "
packet packetx //	t
{
lengthOf
    @lengthOf( T )
    // trailing space 
    `// not a comment`
, char[ 42] Header `two words` ,} packet
    Logon { repeat
string i64_ `u8 x,`
, @rightPad ( )match calculatedFrom //
as
stringy /// triple
{ [ 0123456789 , // trailing space 
7  ,
""1""
, 1
, ""`tick`""	]
:
    zchar
, 3 //	t
:
packetx
    [
    10,""CRC32"" ]:	x
[7 ]  :
    // `tick` ""quote"" 'q'
    Foo
,[ ""CRC32""
,
10 ,
// " ++ [27880; 37322]%N ++ runes_of_ascii "
// packet A { u8 x, }
65535 ,
// " ++ [27880; 37322]%N ++ runes_of_ascii "
// a // b
7 ,""{,}"" ] : A // @lengthOf(
, 00 :rootA
    , }
, } options{
}
")).
Eval vm_compute in ("<<<M482>>>" ++ check (runes_of_ascii "options
{	roots
=
true
; MetaDataX =
    3 ; trueish =10
    } packet
o
    { @tag(
    4294967296 // " ++ [128512]%N ++ runes_of_ascii " emoji
) u8 u`
` ,
    Foo	, }
    //	t
    MetaData matchKey {  } packet
zchar { float@lengthOf(Pad ) , @calculatedFrom(
""" ++ [28040; 24687]%N ++ runes_of_ascii """ )
@tag(007 )
    repeat u16	string_ `" ++ [233]%N ++ runes_of_ascii "` ,@leftPad //	t
(
'\x00'
    ) chars calculatedFrom	, @tag( 0	)	u128 @lengthOf(calculatedFrom ) `two words` , zchar[ 42 ] //	t
i64_
    @lengthOf(//
u128) ``
// trailing space 
// c
,Packet { repeat char[]
    len
, leftPad `line1
line2` ,	}
, }")).
Eval vm_compute in ("<<<M937>>>" ++ check (runes_of_ascii "options
{ u8x =  0123456789
    ;
    } packet rootA {
    i8i8 repeatCount
    ,}
// " ++ [27880; 37322]%N ++ runes_of_ascii "
// a // b
root packet MetaDataX { // @lengthOf(
Logon // " ++ [27880; 37322]%N ++ runes_of_ascii "
{int64 i8i8 @lengthOf(  Header ) ,
    //x
    } ,}	root packet // @lengthOf(
Pad {	roots { i16 Logon
    @calculatedFrom( """ ++ [233]%N ++ runes_of_ascii "t" ++ [233]%N ++ runes_of_ascii """) , match As	as float
{ [ ""packet"" //
, ""// no comment""
    ] : a1
, 65535	: f32a, [
    ""a\""b""
    ,
""// no comment"" , ""a	b"",
    //
    ""a	b"",
""a\\""]
:
x , ""{,}""
:	rootA
,
10
:	msg_type
, } ,
}
    ,
} options {}
")).
Eval vm_compute in ("<<<M4089>>>" ++ check (runes_of_ascii "  root
packet
    _x

{ } 
/// triple
		root packet  // `tick` ""quote"" 'q'

rootA

{

@lengthOf( msg_type )

@calculatedFrom( ""a	b"" )
Z9_ {	repeat

char[]
	msg_type`two words` ,}
	,}
options 
{
    Logon
=7 ;
u8x

= '0' 
len =

    '\x00'

    Foo
= 
10 ;}	MetaData leftPad 
{	// @lengthOf(
  Packet
i8i8  `a\`
    ,

    msg_type  int // " ++ [27880; 37322]%N ++ runes_of_ascii "
	`line1
line2`
    // @lengthOf(
  /// triple
  ,
    uint8x i8i8 `it's` ,BodyLength
repeatCount ,// packet A { u8 x, }
	}
")).
Eval vm_compute in ("<<<M1375>>>" ++ check (runes_of_ascii "
root
    packet _x
    { }
    /// triple
    root packet // `tick` ""quote"" 'q'
rootA
{
    @lengthOf( msg_type
)
    @calculatedFrom( ""a	b""
    ) Z9_ { repeat char[]msg_type `two words` , }, }
options {Logon = 7 ; u8x = '0' len =
'\x00' Foo	=
    10 ; } MetaData leftPad
    {// @lengthOf(
Packet
i8i8 `a\`
,
msg_type
    int// " ++ [27880; 37322]%N ++ runes_of_ascii "
`line1
line2`
// @lengthOf(
/// triple
,
uint8x
i8i8
    `it's`
    ,BodyLength repeatCount ,// packet A { u8 x, }
}
")).
Eval vm_compute in ("<<<M464>>>" ++ check (runes_of_ascii "options {zchar
    =
""packet"";o = ""CRC32"" ; len
= """" ;
}packet roots {// @lengthOf(
char
// `tick` ""quote"" 'q'
//x
f32a , } root packet
    x { char[ 7 ]
pack // " ++ [27880; 37322]%N ++ runes_of_ascii "
,	}  packet x { zchar[
// `tick` ""quote"" 'q'
// @lengthOf(
1
    ] A
@calculatedFrom( ""a\""b""
/// triple
// trailing space 
) , repeat metadata
Foo , u8x
lengthOf ,A Header, @calculatedFrom( ""CRC32"" )
@calculatedFrom(/// triple
""""  )
@leftPad ( '\x00' ) pack x_y_z,
}
")).
Eval vm_compute in ("<<<M462>>>" ++ check (runes_of_ascii "
root
packet string_ {	@tag(	65535)  u8  u8x@calculatedFrom( ""it's"" // packet A { u8 x, }
) , zchar[	10
// " ++ [27880; 37322]%N ++ runes_of_ascii "
//
] pack,  string
f32a  ,
Pad x`say ""hi""`
,@calculatedFrom(
""`tick`""	) // c
@rightPad ( ' ') @calculatedFrom(
""" ++ [128512]%N ++ runes_of_ascii """ )
    match tag as  u128 {
    [
255 ,	""packet""
,	4294967296 , ""// no comment"" , ""\n"" , // a // b
65535 ,""""
    // c
    , """ ++ [28040; 24687]%N ++ runes_of_ascii """] : falsey ""CRC32"" : uint8x , [ 007 , 3 , """ ++ [28040; 24687]%N ++ runes_of_ascii """
] : As , }	,
} 	 ")).
Eval vm_compute in ("<<<M419>>>" ++ check (runes_of_ascii "/// triple
MetaData
x {uint64 u `doc`	, }
root
packet
i8i8
    {uint32
    zchar @lengthOf( chars ) , string rootA@calculatedFrom(
    ""\n""
) , } packet	MetaDataX
//	t
/// triple
{ i32 A
    @lengthOf( string_ )
`` , @calculatedFrom( ""a\\"" ) @lengthOf( roots ) msg_type asx  `crlf
line` ,@lengthOf(//
metadata ) @calculatedFrom( """ ++ [28040; 24687]%N ++ runes_of_ascii """) @leftPad
(
) repeat string o `// not a comment`
    , } //x")).
Eval vm_compute in ("<<<M1251>>>" ++ check (runes_of_ascii "
packet
T {
uint64
rootA
    `it's`
    ,
// a // b
// packet A { u8 x, }
@tag( 255
    )
f32a
{
string
MetaDataX
`" ++ [28040; 24687; 31867; 22411]%N ++ runes_of_ascii "`
, } ,uint8x
    //x
    @lengthOf( u8x ),
match
x
    // a // b
    as As	{4294967296	: trueish , ""{,}"": Packet , 1  :float
,  007 : repeatCount , //	t
}, @leftPad (  '0' ) @lengthOf( crc ) int16 // trailing space 
u128 , calculatedFrom
asx
`u8 x,` ,
}
")).
Eval vm_compute in ("<<<M74>>>" ++ check (runes_of_ascii "root packet x	{ @calculatedFrom(""a\\"" ) zchar[42 ]float @calculatedFrom(""a\""b""  ) `
` ,
    } MetaData o
    {
int8
BodyLength,string len ,
    string len , float falsey ,T float
    , }	MetaData pack { /// triple
charz o
`// not a comment`	,	float64 f32a `tab	here`  , int32  u8x  `// not a comment` ,char[10 ]
a1
, float32 options1  ,
} // `tick` ""quote"" 'q'")).
Eval vm_compute in ("<<<M4248>>>" ++ check (runes_of_ascii "// c
root packet o {
    @tag(42)
    a1,
}

options {
    asx = char[0];
    int = '\x00';
    _x = ""it's""
    packetx = ""// no comment""
    u8x = """ ++ [233]%N ++ runes_of_ascii "t" ++ [233]%N ++ runes_of_ascii """
}

root packet T {
    @lengthOf(float)
    match falsey as matchKey {
        ""a\\"" : x_y_z,
        //x
    },
}

options {
    zchar = 0// trailing space 
    repeatCount = uint64;// a // b
}")).
Eval vm_compute in ("<<<M666>>>" ++ check (runes_of_ascii "
packet u8x { //
asx
// a // b
// @lengthOf(
`say ""hi""`
    //x
    ,}  MetaData Foo{ packetx
MetaDataX `" ++ [28040; 24687; 31867; 22411]%N ++ runes_of_ascii "` ,}
packet  a1 {@calculatedFrom(""\" ++ [233]%N ++ runes_of_ascii """// trailing space 
) len
// " ++ [27880; 37322]%N ++ runes_of_ascii "
// c
`` ,@calculatedFrom(
""a\\""// trailing space 
) @lengthOf(
calculatedFrom )//	t
string
    msg_type
// trailing space 
// c
,
}
// packet A { u8 x, }
")).
Eval vm_compute in ("<<<M1986>>>" ++ check (runes_of_ascii "MetaData
    u { }  options {
// c
// @lengthOf(
float = int8 ;rootA =false ; As =	int16 // `tick` ""quote"" 'q'
repeatCount
    // trailing space 
    =
    int16
; u8x =
    //	t
    '\x00' ; } options options	{
    repeatCount
= 0
u128
    //
    = false ; i64_
// trailing space 
// `tick` ""quote"" 'q'
= '0' ; //	t
}
")).
Eval vm_compute in ("<<<M1186>>>" ++ check (runes_of_ascii "root
packet u128 {match zchar
as
    msg_type // `tick` ""quote"" 'q'
{ 7
    //	t
    :	lengthOf ,0123456789:MetaDataX
""{,}""  :  o
    ,  255
// trailing space 
//
://
metadata ,
[ 1 ] :	A , [
007 , ""a\\"" , 0123456789
,	255 ,
""\" ++ [233]%N ++ runes_of_ascii """,  007 ] :
// `tick` ""quote"" 'q'
// packet A { u8 x, }
falsey,
}
    , } // a // b")).
Eval vm_compute in ("<<<M2043>>>" ++ check (runes_of_ascii "MetaData
    u { }  options {
// c
// @lengthOf(
float = int8 ;rootA =false ; As =	int16 // `tick` ""quote"" 'q'
repeatCount
    // trailing space 
    =
    int16
; u8x =
    //	t
    '\x00' ; } options	{
    repeatCount
= 0
u128
    //
    = false ; i64_
// trailing space 
// `tick` ""quote"" 'q'
= match ; //	t
}
")).
Eval vm_compute in ("<<<M1872>>>" ++ check (runes_of_ascii "MetaData
    u { options  } {
// c
// @lengthOf(
float = int8 ;rootA =false ; As =	int16 // `tick` ""quote"" 'q'
repeatCount
    // trailing space 
    =
    int16
; u8x =
    //	t
    '\x00' ; } options	{
    repeatCount
= 0
u128
    //
    = false ; i64_
// trailing space 
// `tick` ""quote"" 'q'
= '0' ; //	t
}
")).
Eval vm_compute in ("<<<M2022>>>" ++ check (runes_of_ascii "MetaData
    u { }  options {
// c
// @lengthOf(
float = int8 ;rootA =false ; As =	int16 // `tick` ""quote"" 'q'
repeatCount
    // trailing space 
    =
    int16
; u8x =
    //	t
    '\x00' ; } options	{
    repeatCount
= 0
u128
    //
    = ; false i64_
// trailing space 
// `tick` ""quote"" 'q'
= '0' ; //	t
}
")).
Eval vm_compute in ("<<<M2033>>>" ++ check (runes_of_ascii "MetaData
    u { }  options {
// c
// @lengthOf(
float = int8 ;rootA =false ; As =	int16 // `tick` ""quote"" 'q'
repeatCount
    // trailing space 
    =
    int16
; u8x =
    //	t
    '\x00' ; } options	{
    repeatCount
= 0
u128
    //
    = false ; `
`
// trailing space 
// `tick` ""quote"" 'q'
= '0' ; //	t
}
")).
Eval vm_compute in ("<<<M1998>>>" ++ check (runes_of_ascii "MetaData
    u { }  options {
// c
// @lengthOf(
float = int8 ;rootA =false ; As =	int16 // `tick` ""quote"" 'q'
repeatCount
    // trailing space 
    =
    int16
; u8x =
    //	t
    '\x00' ; } options	{
    match
= 0
u128
    //
    = false ; i64_
// trailing space 
// `tick` ""quote"" 'q'
= '0' ; //	t
}
")).
Eval vm_compute in ("<<<M433>>>" ++ check (runes_of_ascii "packet
rootA {@lengthOf(	A ) @leftPad (
    '0' )@lengthOf( _x ) char[ 0
]
// `tick` ""quote"" 'q'
// a // b
len , } root packet
    _x
{ @lengthOf( MetaDataX
) u16 x
`say ""hi""` , match
    string_ as Foo{ 42  :
string_
    ,
00: T , },char[]
trueish ,repeat calculatedFrom // c
x_y_z , // a // b
}")).
Eval vm_compute in ("<<<M672>>>" ++ check (runes_of_ascii "//
root packet  Foo{ char[]//
leftPad // trailing space 
,}options { } root
packet i64_ { @lengthOf( x_y_z ) @calculatedFrom( ""abc"" )  @lengthOf( leftPad )
repeat body	zchar `it's`  , char[]
    metadata @lengthOf( MetaDataX
//	t
/// triple
) `doc`
    , repeat
Foo Header , /// triple
}
")).
Eval vm_compute in ("<<<M116>>>" ++ check (runes_of_ascii "packet string_ { trueish
{options1 @lengthOf( Z9_ ) `// not a comment` , // c
_x
    //	t
    @lengthOf( u128), /// triple
match packetx as charz{[
1 , 3 ,
""a\\"" //x
,10 ] : lengthOf ,
""" ++ [28040; 24687]%N ++ runes_of_ascii """
:float	""CRC32"" : // a // b
calculatedFrom
, """ ++ [128512]%N ++ runes_of_ascii """ : tag , 00
:
rootA, }
    ,} ,}")).
Eval vm_compute in ("<<<M749>>>" ++ check (runes_of_ascii "
MetaData o{ char[]BodyLength
,
}
    options
    { Foo=uint32 i8i8  = char[ 10
    ];
    Logon =  true i64_= string ;
    }root
//
// @lengthOf(
packet a1
{ i8i8
`tab	here` , @calculatedFrom( ""a	b""
    ) string calculatedFrom
    @calculatedFrom( ""abc"" )	``
, }
")).
Eval vm_compute in ("<<<M1593>>>" ++ check (runes_of_ascii "packet
//	t
// trailing space 
_x {
// packet A { u8 x, }
// c
char[
3
    ] u8x @lengthOf(
u8x ) , @calculatedFrom(""" ++ [128512]%N ++ runes_of_ascii """ // @lengthOf(
)
i16	Foo
@lengthOf(	string_
    )`doc`	, repeat repeat	i64 metadata , @lengthOf( string_
) i8 // c
u  `line1
line2`	,
}
")).
Eval vm_compute in ("<<<M4098>>>" ++ check (runes_of_ascii "options {
    LittleEndian = true;
}

packet Logon {
    u8 x,
    string user,
}

packet Logout {
    u16 reason,
}

packet Empty {
}

root packet Frame {
    u16 MsgType,
    u16 BodyLen @lengthOf(Body),
    u8 flags,
    Logon Body,
    u32 trailer,
}")).
Eval vm_compute in ("<<<M1662>>>" ++ check (runes_of_ascii "packet
//	t
// trailing space 
_x {
// packet A { u8 x, }
// c
char[
3
    ] u8x @lengthOf(
u8x ) , @calculatedFrom(""" ++ [128512]%N ++ runes_of_ascii """ " ++ [127]%N ++ runes_of_ascii "// @lengthOf(
)
i16	Foo
@lengthOf(	string_
    )`doc`	, repeat	i64 metadata , @lengthOf( string_
) i8 // c
u  `line1
line2`	,
}
")).
Eval vm_compute in ("<<<M1585>>>" ++ check (runes_of_ascii "packet
//	t
// trailing space 
_x {
// packet A { u8 x, }
// c
char[
3
    ] u8x @lengthOf(
u8x ) , @calculatedFrom(""" ++ [128512]%N ++ runes_of_ascii """ // @lengthOf(
)
i16	Foo
@lengthOf(	string_
    )int16	, repeat	i64 metadata , @lengthOf( string_
) i8 // c
u  `line1
line2`	,
}
")).
Eval vm_compute in ("<<<M1632>>>" ++ check (runes_of_ascii "packet
//	t
// trailing space 
_x {
// packet A { u8 x, }
// c
char[
3
    ] u8x @lengthOf(
u8x ) , @calculatedFrom(""" ++ [128512]%N ++ runes_of_ascii """ // @lengthOf(
)
i16	Foo
@lengthOf(	string_
    )`doc`	, repeat	i64 metadata , @lengthOf( string_
) i8 // c
  `line1
line2`	,
}
")).
Eval vm_compute in ("<<<M3737>>>" ++ check (runes_of_ascii "options {
    charz = ""x y""
    calculatedFrom = '0'
}

packet msg_type {
    msg_type asx,
    string packetx,
    MetaDataX,
    Header {
        i64 packetx `tab	here`,
    },
}

options {
    // @lengthOf(
    uint8x = 0
    x_y_z = ""x y"";
}")).
Eval vm_compute in ("<<<M1637>>>" ++ check (runes_of_ascii "packet
//	t
// trailing space 
_x {
// packet A { u8 x, }
// c
char[
3
    ] u8x @lengthOf(
u8x ) , @calculatedFrom(""" ++ [128512]%N ++ runes_of_ascii """ // @lengthOf(
)
i16	Foo
@lengthOf(	string_
    )`doc`	, repeat	i64 metadata , @lengthOf( string_
) i8 // c
u  	,
}
")).
Eval vm_compute in ("<<<M468>>>" ++ check (runes_of_ascii "options { i64_	= ""\n""; BodyLength
    = float64 i64_ =
    false ; }MetaData  Packet  {	uint16 A `u8 x,` ,
    zchar[ 007 ]i64_ , char[ 007	]
chars ,
    float64
x_y_z,MetaDataX stringy`// not a comment`, }
MetaData
msg_type { }")).
Eval vm_compute in ("<<<M1243>>>" ++ check (runes_of_ascii "packet Header { char
i8i8 @calculatedFrom( // c
""a	b""
    ) , //x
u16
    Z9_ ,	} MetaData As	{
// a // b
//x
zchar[ 10
]crc , } MetaData stringy{
body metadata `
` , char[] trueish	`doc`
, char[] Logon `" ++ [28040; 24687; 31867; 22411]%N ++ runes_of_ascii "` ,
    }
")).
Eval vm_compute in ("<<<M4155>>>" ++ check (runes_of_ascii "options {
    trueish = ""`tick`"";
    string_ = """ ++ [233]%N ++ runes_of_ascii "t" ++ [233]%N ++ runes_of_ascii """
    // c
}

root packet body {
    stringy @calculatedFrom(""a	b"") `line1
        line2`,
}

packet Logon {
    @leftPad(' ')
    //	t
    i64 string_ `u8 x,`,
}")).
Eval vm_compute in ("<<<M693>>>" ++ check (runes_of_ascii "packet _x {  repeat roots
matchKey `" ++ [233]%N ++ runes_of_ascii "`
, @rightPad ('\x00')@calculatedFrom( ""it's"" ) @lengthOf(
tag )
    match//	t
zchar
as zchar
{
0123456789  : trueish [""{,}""
] : metadata , 7 : u, ""`tick`"" : asx
    ,} ,}")).
Eval vm_compute in ("<<<M1687>>>" ++ check (runes_of_ascii "options { trueish = = ""`tick`"" ; string_= """ ++ [233]%N ++ runes_of_ascii "t" ++ [233]%N ++ runes_of_ascii """
    // c
    } root
    packet body { stringy @calculatedFrom(
""a	b"" ) `line1
line2` , }
packet Logon {
    @leftPad(
    ' ' ) //	t
u16 string_ `u8 x,` ,
}
")).
Eval vm_compute in ("<<<M1854>>>" ++ check (runes_of_ascii "options { trueish = ""`tick`"" ; string_= """ ++ [233]%N ++ runes_of_ascii "t" ++ [233]%N ++ runes_of_ascii """
    // c
    } root
    packet na" ++ [239]%N ++ runes_of_ascii "ve { stringy @calculatedFrom(
""a	b"" ) `line1
line2` , }
packet Logon {
    @leftPad(
    ' ' ) //	t
u16 string_ `u8 x,` ,
}
")).
Eval vm_compute in ("<<<M1783>>>" ++ check (runes_of_ascii "options { trueish = ""`tick`"" ; string_= """ ++ [233]%N ++ runes_of_ascii "t" ++ [233]%N ++ runes_of_ascii """
    // c
    } root
    packet body { stringy @calculatedFrom(
""a	b"" ) `line1
line2` , }
packet { Logon
    @leftPad(
    ' ' ) //	t
u16 string_ `u8 x,` ,
}
")).
Eval vm_compute in ("<<<M1831>>>" ++ check (runes_of_ascii "options { trueish = ""`tick`"" ; string_= """ ++ [233]%N ++ runes_of_ascii "t" ++ [233]%N ++ runes_of_ascii """
    // c
    } root
    packet body { stringy @calculatedFrom(
""a	b"" ) `line1
line2` , }
packet Logon {
    @leftPad(
    ' ' ) //	t
u16 string_ `u8 x,` ,

")).
Eval vm_compute in ("<<<M1824>>>" ++ check (runes_of_ascii "options { trueish = ""`tick`"" ; string_= """ ++ [233]%N ++ runes_of_ascii "t" ++ [233]%N ++ runes_of_ascii """
    // c
    } root
    packet body { stringy @calculatedFrom(
""a	b"" ) `line1
line2` , }
packet Logon {
    @leftPad(
    ' ' ) //	t
u16 string_ = ,
}
")).
Eval vm_compute in ("<<<M714>>>" ++ check (runes_of_ascii "  root packet u128 { string
// trailing space 
//	t
Pad  `" ++ [28040; 24687; 31867; 22411]%N ++ runes_of_ascii "`
, @calculatedFrom( ""a\\"")	msg_type, @calculatedFrom( """ ++ [233]%N ++ runes_of_ascii "t" ++ [233]%N ++ runes_of_ascii """ )	match Pad as f32a {	3 :// trailing space 
repeatCount  ,	} , } // c")).
Eval vm_compute in ("<<<M978>>>" ++ check (runes_of_ascii "MetaData
As
{
    u128 packetx
`" ++ [233]%N ++ runes_of_ascii "` //	t
, tag	o,zchar[ // c
255 ] rootA `two words`  , rootA msg_type	`it's`
, u64 packetx , } MetaData T{
char[
3
    ]
    _x , }
// trailing space 
")).
Eval vm_compute in ("<<<M530>>>" ++ check (runes_of_ascii "// c
packet BodyLength { u { char[ 007] i8i8`a\` , pack{ match charz as // packet A { u8 x, }
Header
    { ""\n""
    : leftPad } , } , string u8x @calculatedFrom( """ ++ [233]%N ++ runes_of_ascii "t" ++ [233]%N ++ runes_of_ascii """	)	, } ,
}
")).
Eval vm_compute in ("<<<M4060>>>" ++ check (runes_of_ascii "packet Pad {
}

root packet f32a {
    // c
    @calculatedFrom(""it's"")
    @tag(255)
    match roots as trueish {
        7 : tag,
    },
    repeat zchar[0] repeatCount,
}")).
Eval vm_compute in ("<<<M857>>>" ++ check (runes_of_ascii "packet  MetaDataX
{
char
    falsey,
    zchar[ 1
]a1 @calculatedFrom( ""a\\""
), }packet
calculatedFrom{ zchar[42 ]
_x `tab	here` , string roots@lengthOf( chars) , }")).
Eval vm_compute in ("<<<M1959>>>" ++ check (runes_of_ascii "MetaData
    u { }  options {
// c
// @lengthOf(
float = int8 ;rootA =false ; As =	int16 // `tick` ""quote"" 'q'
repeatCount
    // trailing space 
    =
    int16")).
Eval vm_compute in ("<<<M2107>>>" ++ check (runes_of_ascii "options{
_x
= true
} `line1
line2`
{ o	= /// triple
false
    ; chars
= ""\n"" } root packet	Pad
/// triple
// packet A { u8 x, }
{	chars
    // a // b
    ,}")).
Eval vm_compute in ("<<<M2320>>>" ++ check (runes_of_ascii "// c
packet x { @lengthOf( metadata ) repeat lengthOf
,a1{
trueish	, ,// c
repeat//	t
MetaDataX , } , zchar[
    42	] rootA // `tick` ""quote"" 'q'
,
    }
")).
Eval vm_compute in ("<<<M4328>>>" ++ check (runes_of_ascii "packet

    A

    {

match
k

as
n	{
    [ 
1
	, 22,""c c"" ,
4

,
5 
,

""f"" ,
7 ,

8
,

""i"" 
,10
	, 11,
	""l""
	]
    :
	B

    2 :

    C}
, }

")).
Eval vm_compute in ("<<<M2400>>>" ++ check (runes_of_ascii "// c
packet x { @lengthOf( metadata , repeat lengthOf
,a1{
trueish	,// c
repeat//	t
MetaDataX , } , zchar[
    42	] rootA // `tick` ""quote"" 'q'
,
    }
")).
Eval vm_compute in ("<<<M1228>>>" ++ check (runes_of_ascii "// packet A { u8 x, }
options { matchKey =	true ; } MetaData int {uint16
    packetx`tab	here` ,	}
options/// triple
{ msg_type = """"  ; } // @lengthOf(")).
Eval vm_compute in ("<<<M3929>>>" ++ check (runes_of_ascii "packet A {
    match k as n {
        [
            1, 22, 007, 4, 5,
            66, 7, 8, 9, 10,
            11
        ] : B,
        2 : C,
    },
}")).
Eval vm_compute in ("<<<M1795>>>" ++ check (runes_of_ascii "options { trueish = ""`tick`"" ; string_= """ ++ [233]%N ++ runes_of_ascii "t" ++ [233]%N ++ runes_of_ascii """
    // c
    } root
    packet body { stringy @calculatedFrom(
""a	b"" ) `line1
line2` , }
packet Logon {")).
Eval vm_compute in ("<<<M982>>>" ++ check (runes_of_ascii "packet	u128 { @leftPad ( ' ' )int32 _x `line1
line2`  ,
    @leftPad (
    ) u64 stringy
    // @lengthOf(
    @lengthOf( matchKey
    ) `it's` ,}
")).
Eval vm_compute in ("<<<M1271>>>" ++ check (runes_of_ascii "packet options1 {
@leftPad
( '0' )
asx //
{ MetaDataX ,u16  u8x `
`
, trueish `a\` ,float32 rootA @calculatedFrom( ""a	b"" ) ,}// a // b
,
    }")).
Eval vm_compute in ("<<<M1165>>>" ++ check (runes_of_ascii "
MetaData calculatedFrom	{	crc	Logon `` , x
u8x //x
`line1
line2`
//	t
// packet A { u8 x, }
, i64
u128  ,char[ 0123456789] packetx //x
, }
")).
Eval vm_compute in ("<<<M3782>>>" ++ check (runes_of_ascii "MetaData T {
    i64 body `
    `,
    string packetx,
    int Pad,// @lengthOf(
    char[] A `" ++ [233]%N ++ runes_of_ascii "`,
    i8i8 float,
    repeatCount o,
}")).
Eval vm_compute in ("<<<M3786>>>" ++ check (runes_of_ascii "root packet matchKey {
    // c
    zchar[3] pack @calculatedFrom(""a	b"") `doc`,
}

options {
}

MetaData A {
    int8 msg_type,
}")).
Eval vm_compute in ("<<<M632>>>" ++ check (runes_of_ascii "packet	roots { zchar @lengthOf(calculatedFrom )  `" ++ [233]%N ++ runes_of_ascii "` , zchar[ 1] Foo `
`, }
options {
    i64_ = ""a\\"" Logon= 1
i64_= i64	}
")).
Eval vm_compute in ("<<<M3548>>>" ++ check (runes_of_ascii "packet B {
    u8 a,
}
root packet P {
    u8 K,
    match K as Body {
        1 : B,
    },
    u16 L @lengthOf(Body),
}
")).
Eval vm_compute in ("<<<M3334>>>" ++ check (runes_of_ascii "root packet matchKey { zchar[ 3 ] pack @calculatedFrom( ""a	b"" ) `doc` // c
, } options { } MetaData A { int8 msg_type , }")).
Eval vm_compute in ("<<<M351>>>" ++ check (runes_of_ascii "packet lengthOf
    { @tag(007 )trueish
    // c
    {
    repeat string asx,
} , } options
    {roots=
    ""x y""	; }
")).
Eval vm_compute in ("<<<M4175>>>" ++ check (runes_of_ascii "packet  A	{
match  k as
	n

    { [ 1

,
	22
,
	007 ,

4 , 5 
,  66	, 7,
8,

    9

, 10	]
    : B  2 : C

}  ,  }")).
Eval vm_compute in ("<<<M1427>>>" ++ check (runes_of_ascii "
packet
    falsey { Header@calculatedFrom(""packet""   , char[
    0123456789 ] packetx
    , } // `tick` ""quote"" 'q'")).
Eval vm_compute in ("<<<M3696>>>" ++ check (runes_of_ascii "packet lengthOf {
    @tag(007)
    trueish {
        repeat string asx,
    },
}

options {
    roots = ""x y"";
}")).
Eval vm_compute in ("<<<M1468>>>" ++ check (runes_of_ascii "
packet
    falsey { Header@calculatedFrom(""packet""  ) , char[
    0123456789 ] packetx
    , } // `tick` ""quo")).
Eval vm_compute in ("<<<M4338>>>" ++ check (runes_of_ascii "

  packet
	falsey { 
Header @calculatedFrom( ""packet"") , char[
0123456789 ]
	packetx
	,}	// `tick` ""quo
 
")).
Eval vm_compute in ("<<<M4438>>>" ++ check (runes_of_ascii "
packet	A	{
	match
k as
    n
{	[

    ""a""
	,
	22 ,

""c c""
]:

    B

,2  :

    C

    } ,
}

")).
Eval vm_compute in ("<<<M838>>>" ++ check (runes_of_ascii "options{ x_y_z = ""CRC32"" ;
} MetaData
matchKey { char[] u `u8 x,` , // trailing space 
}options {}
")).
Eval vm_compute in ("<<<M18>>>" ++ check (runes_of_ascii "// packet A { u8 x, }
options{lengthOf= 255 // " ++ [27880; 37322]%N ++ runes_of_ascii "
; /// triple
}packet MetaDataX {int32  body
, }")).
Eval vm_compute in ("<<<M4254>>>" ++ check (runes_of_ascii "options
{
	options1  = char[	00 ]; len =

""" ++ [128512]%N ++ runes_of_ascii """
	; a1 =  42 Header
    =
	' ' 
} packet	Foo
{ 
}

")).
Eval vm_compute in ("<<<M3727>>>" ++ check (runes_of_ascii "packet o {
    repeat Logon uint8x,
}

options {
    asx = zchar[3]
    stringy = '\x00'// c
}")).
Eval vm_compute in ("<<<M461>>>" ++ check (runes_of_ascii "packet x_y_z {msg_type {  char[]Z9_ @lengthOf( Packet
    ) `` , }, } // packet A { u8 x, }")).
Eval vm_compute in ("<<<M3306>>>" ++ check (runes_of_ascii "MetaData float { float64 charz `
` , } root packet chars { @rightPad ( '0' ) Foo , }
// c
")).
Eval vm_compute in ("<<<M3282>>>" ++ check (runes_of_ascii "MetaData float { float64 charz `
` ,
// c
} root packet chars { @rightPad ( '0' ) Foo , }")).
Eval vm_compute in ("<<<M3493>>>" ++ check (runes_of_ascii "packet chars { } packet // c
MetaDataX { @tag( 42 ) i16 string_ , repeat x `say ""hi""` , }")).
Eval vm_compute in ("<<<M1944>>>" ++ check (runes_of_ascii "MetaData
    u { }  options {
// c
// @lengthOf(
float = int8 ;rootA =false ; As =	int16")).
Eval vm_compute in ("<<<M2300>>>" ++ check (runes_of_ascii "options
{ } options { BodyLength= u16 Header|= f64 ; u128 =
    true
    ; } // a // b")).
Eval vm_compute in ("<<<M2233>>>" ++ check (runes_of_ascii "options
{ } options { =BodyLength u16 Header= f64 ; u128 =
    true
    ; } // a // b")).
Eval vm_compute in ("<<<M3233>>>" ++ check (runes_of_ascii "packet metadata { Logon { A `" ++ [28040; 24687; 31867; 22411]%N ++ runes_of_ascii "` , tag o , // c
} , zchar len `// not a comment` , }")).
Eval vm_compute in ("<<<M2292>>>" ++ check (runes_of_ascii "options
{ } options { BodyLength= u16 Header= f64 ; u128 =
    true
    ; } // a // ")).
Eval vm_compute in ("<<<M3456>>>" ++ check (runes_of_ascii "packet o { repeat Logon uint8x , } options { asx = zchar[ 3
// c
] stringy = '\x00' }")).
Eval vm_compute in ("<<<M1105>>>" ++ check (runes_of_ascii "  packet
    //	t
    lengthOf
{ @tag( 3
)	@lengthOf( lengthOf )u64  options1 , }")).
Eval vm_compute in ("<<<M3399>>>" ++ check (runes_of_ascii "MetaData body {
// c
i64 pack `it's` , } packet stringy { int16 calculatedFrom , }")).
Eval vm_compute in ("<<<M1740>>>" ++ check (runes_of_ascii "options { trueish = ""`tick`"" ; string_= """ ++ [233]%N ++ runes_of_ascii "t" ++ [233]%N ++ runes_of_ascii """
    // c
    } root
    packet body")).
Eval vm_compute in ("<<<M2832>>>" ++ check (runes_of_ascii ") char[] u64 , int16 float32 = } match @lengthOf( match @lengthOf( MetaData i32")).
Eval vm_compute in ("<<<M2887>>>" ++ check (runes_of_ascii "packet A {
  match k as n {
    [""a"", ""bb"", ""c c"", ""d""] : B
    2 : C
  },
}")).
Eval vm_compute in ("<<<M2906>>>" ++ check (runes_of_ascii "packet A {
  match k as n {
    [1, 22, ""c c"", 4, 5] : B
    2 : C
  },
}")).
Eval vm_compute in ("<<<M2898>>>" ++ check (runes_of_ascii "packet A {
  match k as n {
    [1, 22, 007, 4, 5] : B
    2 : C
  },
}")).
Eval vm_compute in ("<<<M2875>>>" ++ check (runes_of_ascii "packet A {
  match k as n {
    [1, ""bb"", 007] : B,
    2 : C
  },
}")).
Eval vm_compute in ("<<<M1383>>>" ++ check (runes_of_ascii "root packet
//	t
/// triple
calculatedFrom { char[0 ]
Packet, }
")).
Eval vm_compute in ("<<<M2868>>>" ++ check (runes_of_ascii "packet A {
  match k as n {
    [""a"", 22] : B,
    2 : C
  },
}")).
Eval vm_compute in ("<<<M144>>>" ++ check (runes_of_ascii "MetaData Pad{	x_y_z
    // packet A { u8 x, }
    T ,
    }
")).
Eval vm_compute in ("<<<M2720>>>" ++ check (runes_of_ascii "i8 root root 10 [ [ u32 } u8 zchar[ char packet char[] u64")).
Eval vm_compute in ("<<<M1259>>>" ++ check (runes_of_ascii "packet float //	t
{ //
}
MetaData i8i8 {uint8x i8i8,
}")).
Eval vm_compute in ("<<<M1436>>>" ++ check (runes_of_ascii "
packet
    falsey { Header@calculatedFrom(""packet""  )")).
Eval vm_compute in ("<<<M399>>>" ++ check (runes_of_ascii "
packet
    msg_type {repeat //	t
lengthOf _x ,
}")).
Eval vm_compute in ("<<<M1101>>>" ++ check (runes_of_ascii "packet
len{
int16 trueish
`
` // " ++ [128512]%N ++ runes_of_ascii " emoji
, }
")).
Eval vm_compute in ("<<<M1216>>>" ++ check (runes_of_ascii "
MetaData
    A
    //x
    { char[] asx ,}
")).
Eval vm_compute in ("<<<M2770>>>" ++ check (runes_of_ascii "as match zchar[ packet @leftPad = as zchar[")).
Eval vm_compute in ("<<<M4476>>>" ++ check (runes_of_ascii "root packet
A { u8

    x
`a
b`
, }

")).
Eval vm_compute in ("<<<M729>>>" ++ check (runes_of_ascii "
packet // packet A { u8 x, }
rootA { }")).
Eval vm_compute in ("<<<M2773>>>" ++ check (runes_of_ascii "@tag( i16 MetaData @calculatedFrom( ;")).
Eval vm_compute in ("<<<M1208>>>" ++ check (runes_of_ascii "options{
Logon
    //x
    = ' '; }")).
Eval vm_compute in ("<<<M3030>>>" ++ check (runes_of_ascii "root packet A {
    u8 x `a

b`,
}")).
Eval vm_compute in ("<<<M2740>>>" ++ check ([65533]%N ++ runes_of_ascii "O" ++ [65533; 65533]%N ++ runes_of_ascii "w" ++ [19; 65533; 65533]%N ++ runes_of_ascii "o" ++ [65533; 18]%N ++ runes_of_ascii "/" ++ [65533]%N ++ runes_of_ascii "\i" ++ [65533; 65533; 21; 65533; 65533; 26; 65533; 65533]%N ++ runes_of_ascii "zs" ++ [127; 65533; 29]%N ++ runes_of_ascii "?=%A")).
Eval vm_compute in ("<<<M1469>>>" ++ check (runes_of_ascii "
packet
    falsey { Header@ca")).
Eval vm_compute in ("<<<M1002>>>" ++ check (runes_of_ascii "//x
options {
o =//x
' '
; }
")).
Eval vm_compute in ("<<<M1421>>>" ++ check (runes_of_ascii "
packet
    falsey { Header")).
Eval vm_compute in ("<<<M2718>>>" ++ check (runes_of_ascii "P@" ++ [65533; 65533; 65533; 65533]%N ++ runes_of_ascii "hB" ++ [65533]%N ++ runes_of_ascii "B" ++ [65533; 65533; 65533; 65533; 65533]%N ++ runes_of_ascii "F}" ++ [0; 65533; 65533; 65533]%N ++ runes_of_ascii "a
" ++ [65533]%N ++ runes_of_ascii "O" ++ [65533]%N)).
Eval vm_compute in ("<<<M4213>>>" ++ check (runes_of_ascii "packet Logon {
    Foo,
}")).
Eval vm_compute in ("<<<M2782>>>" ++ check (runes_of_ascii ", char[] ) MetaData u32")).
Eval vm_compute in ("<<<M3153>>>" ++ check (runes_of_ascii "// a// bpacket A {}")).
Eval vm_compute in ("<<<M803>>>" ++ check (runes_of_ascii "MetaData
zchar{ }
")).
Eval vm_compute in ("<<<M215>>>" ++ check (runes_of_ascii "
packet uint8x	{	}")).
Eval vm_compute in ("<<<M3115>>>" ++ check (runes_of_ascii "packet A {
}
// c" ++ [11]%N)).
Eval vm_compute in ("<<<M3063>>>" ++ check (runes_of_ascii "packet A {
}// c" ++ [12288]%N)).
Eval vm_compute in ("<<<M2827>>>" ++ check (runes_of_ascii "options packet :")).
Eval vm_compute in ("<<<M2098>>>" ++ check (runes_of_ascii "options{
_x
=")).
Eval vm_compute in ("<<<M2841>>>" ++ check (runes_of_ascii "f63].b{\{1C")).
Eval vm_compute in ("<<<M2638>>>" ++ check (runes_of_ascii "packet A")).
Eval vm_compute in ("<<<M2458>>>" ++ check (runes_of_ascii "string")).
Eval vm_compute in ("<<<M2512>>>" ++ check (runes_of_ascii """a
b""")).
Eval vm_compute in ("<<<M2470>>>" ++ check (runes_of_ascii "ROOT")).
Eval vm_compute in ("<<<M2502>>>" ++ check (runes_of_ascii "//")).
Eval vm_compute in ("<<<M2478>>>" ++ check (runes_of_ascii "'0")).
Eval vm_compute in ("<<<M2681>>>" ++ check (runes_of_ascii " ")).
