From FP Require Import Lexer Parser ShowPT Digest Formatter.
From Coq Require Import String List NArith.
Import ListNotations.
Open Scope string_scope.
Set Printing Width 100000000.
Set Printing Depth 100000000.
Definition show_fres (r : fres) : string :=
  match r with
  | FOk s => "OK:" ++ sh_escaped s ""
  | FErr s => "ERR:" ++ sh_escaped s ""
  | FPanic p => "PANIC:" ++ p
  end.
Definition check (rs : list rune) : string := digest (show_fres (format_res rs)).
Definition full (rs : list rune) : string := show_fres (format_res rs).
Eval vm_compute in ("<<<M1357>>>" ++ check (runes_of_ascii "options { // c1a
  // c1b
LittleEndian // c2
= false ;
    // c5
StringPrefixLenType // c6
= // c7a
  // c7b
u16 // c8a
  // c8b
; // c9a
  // c9b
ArrayPrefixLenType
    // c10
= u8 ;
    // c13
FixedStringPadChar // c14
= // c15
'0'
    // c16
; // c17a
  // c17b
} // c18
packet // c19
Leg // c20a
  // c20b
{
    // c21
zchar[
    // c22
1 // c23a
  // c23b
] // c24a
  // c24b
Ref
    // c25
, // c26a
  // c26b
repeat // c27
string
    // c28
count // c29
,
    // c30
repeat InMsgkind21 { repeat char[ // c35
2
    // c36
] // c37a
  // c37b
price // c38a
  // c38b
, // c39a
  // c39b
uint64 // c40
sym
    // c41
, // c42
zchar[ // c43
9 // c44a
  // c44b
] msgKind // c46a
  // c46b
, } // c48
, zchar[ // c50a
  // c50b
5 ]
    // c52
Note // c53a
  // c53b
,
    // c54
}
    // c55
packet // c56a
  // c56b
Ack // c57
{
    // c58
u16
    // c59
seqNo // c60
,
    // c61
repeat // c62a
  // c62b
char[ 1 // c64
] // c65
Acct // c66
, // c67
@leftPad // c68
( // c69
' ' // c70
) // c71a
  // c71b
char[
    // c72
4
    // c73
] msgKind // c75
, // c76
repeat InTag747
    // c78
{ // c79a
  // c79b
Leg // c80
, } , // c83
repeat // c84a
  // c84b
string // c85
Tail // c86a
  // c86b
, // c87a
  // c87b
Leg // c88
, }
    // c90
packet Trade // c92a
  // c92b
{ // c93a
  // c93b
u64 clOrdID // c95
, // c96
repeat // c97a
  // c97b
InLastpx24 { // c99
char[ 10 // c101a
  // c101b
] Note // c103
, // c104a
  // c104b
char[ 3 ] // c107
Qty // c108
, repeat // c110a
  // c110b
char[
    // c111
2 // c112
] // c113
Side2 , // c115
Ack
    // c116
,
    // c117
repeat // c118
InX47 // c119a
  // c119b
{ Ack // c121a
  // c121b
, // c122a
  // c122b
} , } , // c126a
  // c126b
}
    // c127
root
    // c128
packet
    // c129
Heartbeat // c130
{ repeat // c132
u64 // c133a
  // c133b
Acct , string lastPx // c137a
  // c137b
, u8 // c139a
  // c139b
Side2 // c140a
  // c140b
, // c141
match
    // c142
Side2 as // c144a
  // c144b
Body {
    // c146
2 // c147
:
    // c148
Trade // c149a
  // c149b
, // c150
157 // c151
: Ack // c153a
  // c153b
,
    // c154
46 // c155
: // c156
Leg // c157a
  // c157b
,
    // c158
} // c159
, // c160
u32 // c161a
  // c161b
sym
    // c162
@calculatedFrom( // c163a
  // c163b
""CRC32"" // c164
)
    // c165
, // c166a
  // c166b
} // c167a
  // c167b
")).
Eval vm_compute in ("<<<M136>>>" ++ check (runes_of_ascii "//	t
packet MetaDataX  {
@leftPad ( ) repeat
float64 asx, }MetaData
Foo { // a // b
char[65535 ]
    Pad ,} packet
    body// 50% %s
{
match
asx as charz
{// `tick` ""quote"" 'q'
10 : u8x ,	""it's"" : leftPad ,3 :
metadata
// trailing space 
//x
,
    ""it's""
:
x,
    [ 65535,""" ++ [233]%N ++ runes_of_ascii "t" ++ [233]%N ++ runes_of_ascii """ ] :u128
    ,
10:// @lengthOf(
len } ,
repeat f32 rootA `` , // 50% %s
@leftPad (
    //
    ' ' ) repeat i64
    BodyLength // c
,repeatCount {i16 crc @lengthOf( u128 ) ,} , u16// " ++ [27880; 37322]%N ++ runes_of_ascii "
u @lengthOf(f32a)`// not a comment` ,// trailing space 
len
    { match Logon as // @lengthOf(
Foo { """ ++ [233]%N ++ runes_of_ascii "t" ++ [233]%N ++ runes_of_ascii """
:stringy,10
: msg_type ,//	t
[""\n""
    , ""`tick`""
, ""abc""	,
""""
    ,	007	,  1
    , ""a\""b""  ] :
i64_ // packet A { u8 x, }
, 255
    //x
    : T ,""{,}"": f32a }  , string
    tag
@lengthOf( Z9_ ) ,
    // a // b
    u32 charz `crlf
line`
, u8x
@lengthOf(/// triple
rootA  )  ,
} , float	, int8  repeatCount @lengthOf(f32a )
    `crlf
line` , zchar[
    // packet A { u8 x, }
    7 // a // b
] BodyLength
    @lengthOf( string_// a // b
)
    ,} packet u128 {	x`// not a comment`  , }//
packet
x { A  `doc`
, Packet@calculatedFrom(// `tick` ""quote"" 'q'
""\" ++ [233]%N ++ runes_of_ascii """)	`say ""hi""` ,
repeat string asx
,
@lengthOf(	MetaDataX ) repeat char[ 4294967296 //
]
    string_`u8 x,` ,
    @lengthOf( charz
) char[ 0123456789	] f32a  `say ""hi""`
,
}
")).
Eval vm_compute in ("<<<M1526>>>" ++ check (runes_of_ascii "root packet u8x {
    body @lengthOf(i64_) ``,
    @lengthOf(Foo)
    //x
    // `tick` ""quote"" 'q'
    string_ @lengthOf(int),
    @lengthOf(rootA)
    @tag(255)
    match Logon as roots {
        1 : x_y_z,
    },
}

packet len {
    @tag(0123456789)
    @leftPad( '\x00' )
    i8i8 {
        //x
        // @lengthOf(
        len `u8 x,`,
    },
    @tag(0123456789)
    u8x A,
    char[007] int,
    @leftPad(
    '\x00')
    float64 len `100% of %d`,
}

packet crc {
    // `tick` ""quote"" 'q'
    // `tick` ""quote"" 'q'
    match calculatedFrom as leftPad {
        [""" ++ [233]%N ++ runes_of_ascii "t" ++ [233]%N ++ runes_of_ascii """] : Foo,
        ""1"" : Packet,
        1 : stringy,
        [4294967296, ""a	b""] : leftPad,
        [
            """ ++ [233]%N ++ runes_of_ascii "t" ++ [233]%N ++ runes_of_ascii """, """", 4294967296, 0123456789, 4294967296,
            ""CRC32"", 0123456789, """"
        ] : rootA,
    },
    @rightPad(
        )
    roots {
        As,
        repeat zchar[1] falsey,
        repeat char[] repeatCount,
    },
    roots `a\`,
    match charz as i8i8 {
        [""\" ++ [233]%N ++ runes_of_ascii """, """ ++ [233]%N ++ runes_of_ascii "t" ++ [233]%N ++ runes_of_ascii """] : o,
        42 : matchKey,
        00 : body,
        ""a\\"" : rootA,
    },
}")).
Eval vm_compute in ("<<<M1352>>>" ++ check (runes_of_ascii "options {
    LittleEndian = true;
    StringPrefixLenType = u8;
    ArrayPrefixLenType = u8;
    FixedStringPadFromLeft = true;
    FixedStringPadChar = '0';
}
packet Logon {
    repeat i8 Ref,
    @rightPad('0') char[8] msgKind,
    repeat InOrderid72 {
        u8 Side2,
        uint32 Qty,
        repeat InPrice27 {
            repeat char[4] Acct,
            u64 sym,
        },
        zchar[4] clOrdID,
        int16 lastPx,
        InAcct22 {
            repeat char[3] OrderId,
        },
    },
    int64 Px,
}
packet Fill {
    uint16 Qty,
    repeat char[1] Flags,
    i8 Ref,
}
packet Logout {
    @leftPad('0') char[3] x,
    int8 f1,
    Logon,
    uint16 venue,
    zchar[2] Px,
}
packet Reject {
}
root packet Leg {
    Fill,
    u16 msgKind,
    match msgKind as Body {
        [182, 83] : Fill,
        199 : Reject,
        137 : Logout,
        35 : Logon,
    },
    u32 lastPx @calculatedFrom(""CRC32""),
}
")).
Eval vm_compute in ("<<<M1395>>>" ++ check (runes_of_ascii "// top
options // c0
{
    // c1
LittleEndian // c2a
  // c2b
= true // c4a
  // c4b
; // c5a
  // c5b
} packet Sub { u8
    // c10
a
    // c11
, @calculatedFrom( ""CRC16"" // c14a
  // c14b
)
    // c15
uint64
    // c16
SubSum , // c18
} root // c20
packet
    // c21
Frame
    // c22
{ // c23
u16 MsgType // c25
, // c26a
  // c26b
u16 // c27a
  // c27b
BodyLen
    // c28
@lengthOf(
    // c29
Body // c30a
  // c30b
)
    // c31
,
    // c32
Sub // c33
Body // c34a
  // c34b
, // c35a
  // c35b
string // c36a
  // c36b
note // c37a
  // c37b
, // c38a
  // c38b
@calculatedFrom( // c39a
  // c39b
""CRC16"" // c40a
  // c40b
) // c41
uint64 // c42a
  // c42b
Checksum // c43a
  // c43b
,
    // c44
u8 // c45a
  // c45b
tail // c46a
  // c46b
, // c47a
  // c47b
}
    // c48
")).
Eval vm_compute in ("<<<M1388>>>" ++ check (runes_of_ascii "options {
    LittleEndian = true;
    StringPrefixLenType = u32;
    ArrayPrefixLenType = u8;
}
packet Heartbeat {
    string msgKind,
}
packet Logon {
    repeat Heartbeat,
    repeat string Px,
    uint8 Tail,
    char[] f1,
}
packet Cancel {
    zchar[4] OrderId,
    Logon,
    repeat InMsgkind98 {
        repeat u8 tag7,
        repeat InFlags69 {
            char[] Note,
            char[] lastPx,
            char[11] Ref,
            Logon,
        },
        repeat Heartbeat,
    },
    zchar[7] Px,
    u32 seqNo,
}
root packet Reject {
    i16 tag7,
    char[3] Qty,
    InRef42 {
        u8 pad0,
    },
    uint32 f1,
    zchar[7] OrderId,
    zchar[8] x,
}
")).
Eval vm_compute in ("<<<M1579>>>" ++ check (runes_of_ascii "packet Logon {
    @lengthOf(leftPad)
    repeat calculatedFrom {
        match x_y_z as Z9_ {
            7 : MetaDataX,
            [""a\""b"", 42] : uint8x,
            00 : stringy,
            // packet A { u8 x, }
            0 : leftPad,
            65535 : tag,
            [
                4294967296, ""packet"", 1, 0123456789, 1,
                ""{,}"", 42, ""abc""
            ] : uint8x,
        },
        string rootA `two words`,
        uint32 A,
        char[0] T,
    },
    @tag(007)
    repeat zchar[7] f32a `
        `,
    @lengthOf(T)
    float32 stringy `two words`,
}")).
Eval vm_compute in ("<<<M61>>>" ++ check (runes_of_ascii "MetaData trueish // " ++ [128512]%N ++ runes_of_ascii " emoji
{
uint64
Z9_	`u8 x,` // packet A { u8 x, }
, zchar[ 3 ]	tag , } root packet tag// " ++ [128512]%N ++ runes_of_ascii " emoji
{Packet	chars ,  }	packet trueish
    { @lengthOf(
    roots )string repeatCount , @calculatedFrom( ""1""
) @leftPad// 50% %s
(	'\x00' ) @tag(3
)
    int16 stringy ,
    // `tick` ""quote"" 'q'
    @rightPad
( '0'
    ) @rightPad('\x00')
//
// c
@lengthOf(
    x ) repeat	trueish pack
    `a\`, len // " ++ [128512]%N ++ runes_of_ascii " emoji
, @tag( 3 ) char packetx , } // `tick` ""quote"" 'q'
packet u
    {
u64 options1 //	t
, }	options { }
")).
Eval vm_compute in ("<<<M1755>>>" ++ check (runes_of_ascii "packet x_y_z {
    repeat asx {
        falsey @lengthOf(u) `100% of %d`,
        repeat matchKey {
            x_y_z @calculatedFrom(""a\\""),
            i64 calculatedFrom @calculatedFrom(""// no comment"") `{ , }`,
        },
        // c
        //	t
        char[007] Foo @calculatedFrom(""abc""),
    },
    repeat uint32 Pad,
    repeat Logon {
        Logon {
            char[] packetx @calculatedFrom(""it's"") `
            `,
        },
        i8 len,
        asx,
    },
}")).
Eval vm_compute in ("<<<M1414>>>" ++ check (runes_of_ascii "options {
    ArrayPrefixLenType = u64;
    FixedStringPadFromLeft = true;
    FixedStringPadChar = '0';
}

packet Order {
}

root packet Leg {
    char[] Ref,
    repeat Order,
    f32 Acct,
    @leftPad('0')
    char[10] venue,
    @rightPad('0')
    char[3] seqNo,
    repeat u64 Px,
    u8 Flags,
    u32 lastPx @lengthOf(Body),
    match Flags as Body {
        185 : Order,
    },
    u16 sym @calculatedFrom(""CR\
    C32""),
}")).
Eval vm_compute in ("<<<M1840>>>" ++ check (runes_of_ascii "root packet leftPad {
    T @lengthOf(A) `" ++ [28040; 24687; 31867; 22411]%N ++ runes_of_ascii "`,
    Header @lengthOf(As),
    string calculatedFrom `" ++ [233]%N ++ runes_of_ascii "`,
    @calculatedFrom(""a	b"")
    repeat x_y_z {
        char[] T,
        uint8x {
            char[007] Packet @calculatedFrom(""`tick`"") `100% of %d`,
        },
    },
    char[] T @lengthOf(f32a),
    //x
    options1 Z9_,
    char[007] body `it's`,
    repeat zchar[42] Packet `{ , }`,
}// a // b")).
Eval vm_compute in ("<<<M141>>>" ++ check (runes_of_ascii "packet
string_ { @tag( 4294967296 ) repeat u	`crlf
line`
    , repeat zchar[ 0
    ]BodyLength
    , @tag( 255	) int  `say ""hi""` ,uint8x`u8 x,` ,@leftPad(' ' ) string
MetaDataX @lengthOf(
options1)
, zchar[00 // packet A { u8 x, }
]  charz  `" ++ [28040; 24687; 31867; 22411]%N ++ runes_of_ascii "` ,@calculatedFrom(
""" ++ [128512]%N ++ runes_of_ascii """
) _x calculatedFrom ,uint8 //
packetx
    `it's` ,@leftPad ( ) zchar[ 0 ] Foo
`a\` ,
}
")).
Eval vm_compute in ("<<<M1375>>>" ++ check (runes_of_ascii "  options {StringPrefixLenType = u16

;

ArrayPrefixLenType=u64

    ;}packet Order {
    float64 Ref

,

repeat
    i32 lastPx

, } packet Fill

{  zchar[
    9]Ref,

zchar[
4] Px

    ,	Order
	, int8 
count

,
    } packet Cancel  { 
i16 
Side2
,
    Order	, }
root packet Party{ float64 Px
    ,	zchar[  1 ] clOrdID
    ,	}
")).
Eval vm_compute in ("<<<M1453>>>" ++ check (runes_of_ascii "options {
    roots = 0123456789;//x
}

options {
}

packet crc {
    crc @lengthOf(Pad) `{ , }`,
    @lengthOf(Logon)
    char[] BodyLength,
    @leftPad(
        '0'
        )
    @leftPad(  )
    @rightPad(	'\x00'
    )
    char f32a @lengthOf(body),
    @tag(255)
    string body ``,
}")).
Eval vm_compute in ("<<<M1325>>>" ++ check (runes_of_ascii "packet MDSnapshotZZ {
    u8 a,
}
packet OrderACK {
    u16 b,
}
packet HTTPServerInfo {
    string s,
}
root packet FIXMsg {
    u8 KType,
    MDSnapshotZZ,
    repeat OrderACK,
    match KType as Body {
        1 : HTTPServerInfo,
        2 : OrderACK,
    },
}
")).
Eval vm_compute in ("<<<M388>>>" ++ check (runes_of_ascii "packet packet
    asx { @calculatedFrom(
""""  ) @tag( 255 )repeat
// packet A { u8 x, }
// trailing space 
int16 u8x
,
@tag(
    //
    007 )
    @tag( 0
    /// triple
    ) @tag( 1) u
    @lengthOf( T ),
// `tick` ""quote"" 'q'
//x
} // " ++ [128512]%N ++ runes_of_ascii " emoji")).
Eval vm_compute in ("<<<M427>>>" ++ check (runes_of_ascii "packet
    asx { @calculatedFrom(
""""  ) @tag( 255 ) )repeat
// packet A { u8 x, }
// trailing space 
int16 u8x
,
@tag(
    //
    007 )
    @tag( 0
    /// triple
    ) @tag( 1) u
    @lengthOf( T ),
// `tick` ""quote"" 'q'
//x
} // " ++ [128512]%N ++ runes_of_ascii " emoji")).
Eval vm_compute in ("<<<M393>>>" ++ check (runes_of_ascii "packet
    { asx @calculatedFrom(
""""  ) @tag( 255 )repeat
// packet A { u8 x, }
// trailing space 
int16 u8x
,
@tag(
    //
    007 )
    @tag( 0
    /// triple
    ) @tag( 1) u
    @lengthOf( T ),
// `tick` ""quote"" 'q'
//x
} // " ++ [128512]%N ++ runes_of_ascii " emoji")).
Eval vm_compute in ("<<<M519>>>" ++ check (runes_of_ascii "packet
    asx { @calculatedFrom(
""""  ) @tag( 255 )repeat
// packet A { u8 x, }
// trailing space 
int16 u8x
,
@tag(
    //
    007 )
    @tag( 0
    /// triple
    ) @tag( 1) u
    @lengthOf( T );
// `tick` ""quote"" 'q'
//x
} // " ++ [128512]%N ++ runes_of_ascii " emoji")).
Eval vm_compute in ("<<<M481>>>" ++ check (runes_of_ascii "packet
    asx { @calculatedFrom(
""""  ) @tag( 255 )repeat
// packet A { u8 x, }
// trailing space 
int16 u8x
,
@tag(
    //
    007 )
    @tag( 0
    /// triple
    )  1) u
    @lengthOf( T ),
// `tick` ""quote"" 'q'
//x
} // " ++ [128512]%N ++ runes_of_ascii " emoji")).
Eval vm_compute in ("<<<M221>>>" ++ check (runes_of_ascii "packet msg_type { }  packet
Z9_ {
roots i8i8,	@lengthOf( string_	)
char[
255
]i64_ , repeat u16 packetx `it's`
, char[ 255  ]
u8x	,
@rightPad(
'0') @tag(  0123456789
) zchar[ 7 ]tag
    `tab	here` ,u32
charz ``, }
")).
Eval vm_compute in ("<<<M338>>>" ++ check (runes_of_ascii "root packet trueish// packet A { u8 x, }
{ @tag( 00
    // 50% %s
    ) rootA @lengthOf( float) ,
@rightPad (
'0' ) pack string_ ,
    }  packet i8i8
    {
string o
    @calculatedFrom( """ ++ [128512]%N ++ runes_of_ascii """	)
, }
")).
Eval vm_compute in ("<<<M1306>>>" ++ check (runes_of_ascii "  packet
A
{u8
	a ,
    }
    packet
B
    {	u16
	b

,
}
root	packet P
	{ u8
K1,
u8
	K2 ,
    match K1

as

M1 {
1
:
    A
,
	}  ,	match

    K2

as 
M2{1
:

B
    , }

,  }
")).
Eval vm_compute in ("<<<M629>>>" ++ check (runes_of_ascii "MetaData u
    { } MetaData o
{ float uint8x
`100% of %d` ,repeatCount u8x, string_ leftPad
float32 i32
    Foo , int64 x `two words` , calculatedFrom
stringy `a\` ,
}
")).
Eval vm_compute in ("<<<M577>>>" ++ check (runes_of_ascii "MetaData u
    { } MetaData o
{ { float uint8x
`100% of %d` ,repeatCount u8x, string_ leftPad
, i32
    Foo , int64 x `two words` , calculatedFrom
stringy `a\` ,
}
")).
Eval vm_compute in ("<<<M550>>>" ++ check (runes_of_ascii "@leftPad u
    { } MetaData o
{ float uint8x
`100% of %d` ,repeatCount u8x, string_ leftPad
, i32
    Foo , int64 x `two words` , calculatedFrom
stringy `a\` ,
}
")).
Eval vm_compute in ("<<<M717>>>" ++ check (runes_of_ascii "packet
crc
{repeat  Foo A  `u8 x,` ,	@lengthOf( uint8x ) string
matchKey @lengthOf( " ++ [252]%N ++ runes_of_ascii "ber ) `a\`
,
    // c
    }
MetaData chars{
leftPad
    //	t
    crc
`" ++ [233]%N ++ runes_of_ascii "`
,}")).
Eval vm_compute in ("<<<M584>>>" ++ check (runes_of_ascii "MetaData u
    { } MetaData o
{ : uint8x
`100% of %d` ,repeatCount u8x, string_ leftPad
, i32
    Foo , int64 x `two words` , calculatedFrom
stringy `a\` ,
}
")).
Eval vm_compute in ("<<<M1855>>>" ++ check (runes_of_ascii "MetaData len {
    x_y_z options1 `// not a comment`,
    f32 msg_type `
    `,
    char[] string_,
}// c

MetaData packetx {
    string u128 `say ""hi""`,
}")).
Eval vm_compute in ("<<<M1693>>>" ++ check (runes_of_ascii "  options {
}
options  { 
MetaDataX = char ; }
MetaData

    Pad
{
i8 metadata
, string

    stringy 
    // c
	  ,  int8 As
	`{ , }`	,
}
")).
Eval vm_compute in ("<<<M1784>>>" ++ check (runes_of_ascii "packet A {
    match k as n {
        [
            1, ""bb"", 007, ""d"", 5,
            ""f"", 7, ""h""
        ] : B,
        2 : C,
    },
}")).
Eval vm_compute in ("<<<M1968>>>" ++ check (runes_of_ascii "packet A {
    match k as n {
        [
            1, 22, ""c c"", 4, 5,
            ""f"", 7
        ] : B,
        2 : C,
    },
}")).
Eval vm_compute in ("<<<M199>>>" ++ check (runes_of_ascii "MetaData matchKey { u8
T	, rootA _x	, falsey options1
`100% of %d` , zchar[ 7 ] msg_type
, zchar /// triple
charz ,
}")).
Eval vm_compute in ("<<<M50>>>" ++ check (runes_of_ascii "
root
    packet //
u {float32 BodyLength ,
} packet u {  char[ 1]  a1
@calculatedFrom(
""a\""b""	) ,
} /// triple")).
Eval vm_compute in ("<<<M1233>>>" ++ check (runes_of_ascii "options { } options { MetaDataX = char ; } MetaData Pad { i8 metadata , // c
string stringy , int8 As `{ , }` , }")).
Eval vm_compute in ("<<<M989>>>" ++ check (runes_of_ascii "packet A {
    match k as n {
        ""\
"" : B,
        [""\
"", 1] : C,
        [1,2,3,4,5,""\
""] : D,
    },
}")).
Eval vm_compute in ("<<<M1607>>>" ++ check (runes_of_ascii "

  packet A  { 
match  k
    as n
    {
[	""a""
    ,  ""bb"",""c c"" 
]
:
	B

    2:
C

    }
    ,
}
")).
Eval vm_compute in ("<<<M954>>>" ++ check (runes_of_ascii "packet A {
    Inner {
        u8 x `
x`,
        Deep {
            u8 y `
x`,
        },
    },
}")).
Eval vm_compute in ("<<<M1921>>>" ++ check (runes_of_ascii "MetaData
    f32a// @lengthOf(
{ // `tick` ""quote"" 'q'

	charz
    msg_type ,

    } 	 // " ++ [27880; 37322]%N ++ runes_of_ascii "
")).
Eval vm_compute in ("<<<M1259>>>" ++ check (runes_of_ascii "
options	{LittleEndian  =	true
;

    }root packet
	P {repeat 
char  cs

, u8
x 
,

}
")).
Eval vm_compute in ("<<<M1870>>>" ++ check (runes_of_ascii "packet A {
    B b `a
        b`,
    B `a
        b`,
    repeat B bs `a
        b`,
}")).
Eval vm_compute in ("<<<M982>>>" ++ check (runes_of_ascii "packet A {
    u32 crc @calculatedFrom(""x\
y""),
    @calculatedFrom(""x\
y"") u8 y,
}")).
Eval vm_compute in ("<<<M837>>>" ++ check (runes_of_ascii "packet A {
  match k as n {
    [1, 22, 007, 4, 5, 66, 7] : B,
    2 : C
  },
}")).
Eval vm_compute in ("<<<M143>>>" ++ check (runes_of_ascii "options {
    // `tick` ""quote"" 'q'
    x_y_z = // " ++ [128512]%N ++ runes_of_ascii " emoji
zchar[ 10 ]
}
")).
Eval vm_compute in ("<<<M738>>>" ++ check (runes_of_ascii "i64 len u8 true : uint16 ' ' int32 : options @lengthOf( char[] MetaData")).
Eval vm_compute in ("<<<M790>>>" ++ check (runes_of_ascii "packet A {
  match k as n {
    [1, ""bb"", 007] : B
    2 : C
  },
}")).
Eval vm_compute in ("<<<M36>>>" ++ check (runes_of_ascii "packet  chars { char[ 007 ]float @calculatedFrom( ""x y"" ),	}

")).
Eval vm_compute in ("<<<M774>>>" ++ check (runes_of_ascii "packet A {
  match k as n {
    [""a""] : B
    2 : C
  },
}")).
Eval vm_compute in ("<<<M435>>>" ++ check (runes_of_ascii "packet
    asx { @calculatedFrom(
""""  ) @tag( 255 )")).
Eval vm_compute in ("<<<M1610>>>" ++ check (runes_of_ascii "root packet A{

    u8
    x  `%%d%!` 
, 
}
")).
Eval vm_compute in ("<<<M938>>>" ++ check (runes_of_ascii "root packet A {
    u8 x `a
    b
  c`,
}")).
Eval vm_compute in ("<<<M1182>>>" ++ check (runes_of_ascii "
// c
options { A = ""// no comment"" }")).
Eval vm_compute in ("<<<M980>>>" ++ check (runes_of_ascii "root packet A {
    u8 x `%%d%!`,
}")).
Eval vm_compute in ("<<<M585>>>" ++ check (runes_of_ascii "MetaData u
    { } MetaData o
{")).
Eval vm_compute in ("<<<M1096>>>" ++ check (runes_of_ascii "MetaData M {
}// c
options {}")).
Eval vm_compute in ("<<<M1494>>>" ++ check (runes_of_ascii "packet

    A{ 
} // c" ++ [8232]%N)).
Eval vm_compute in ("<<<M335>>>" ++ check (runes_of_ascii "//	t
packet x {
    }
")).
Eval vm_compute in ("<<<M1081>>>" ++ check (runes_of_ascii "// c x
packet A {
}")).
Eval vm_compute in ("<<<M1070>>>" ++ check (runes_of_ascii "packet A {
}
// c" ++ [65279]%N)).
Eval vm_compute in ("<<<M1168>>>" ++ check (runes_of_ascii "packet
// c
x { }")).
Eval vm_compute in ("<<<M1945>>>" ++ check (runes_of_ascii "packet x {
}")).
Eval vm_compute in ("<<<M310>>>" ++ check (runes_of_ascii "
//
")).
