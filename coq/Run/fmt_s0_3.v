From FP Require Import Lexer Parser ShowPT Digest Formatter.
From Coq Require Import String List NArith.
Import ListNotations.
Open Scope string_scope.
Set Printing Width 100000000.
Set Printing Depth 100000000.
Definition show_fres (r : fres) : string :=
  match r with
  | FOk s => "OK:" ++ sh_escaped s ""
  | FErr s => "ERR:" ++ sh_escaped s ""
  | FPanic p => "PANIC:" ++ p
  end.
Definition check (rs : list rune) : string := digest (show_fres (format_res rs)).
Definition full (rs : list rune) : string := show_fres (format_res rs).
Eval vm_compute in ("<<<M1713>>>" ++ check (runes_of_ascii "packet a1 {
    @rightPad(' ')
    @tag(255)
    @lengthOf(zchar)
    string MetaDataX @calculatedFrom(""CRC32"") `crlf
    line`,
    u8 A @lengthOf(charz),
    body,
    @rightPad('0')
    @lengthOf(charz)
    match repeatCount as Z9_ {
        0123456789 : metadata,
        """ ++ [233]%N ++ runes_of_ascii "t" ++ [233]%N ++ runes_of_ascii """ : float,
        // packet A { u8 x, }
        ""1"" : Logon,
        // " ++ [27880; 37322]%N ++ runes_of_ascii "
    },
    x_y_z `" ++ [233]%N ++ runes_of_ascii "`,
    @calculatedFrom(""1"")
    match Header as body {
        4294967296 : MetaDataX,
        ""abc"" : packetx,
    },
    x_y_z @calculatedFrom(""\" ++ [233]%N ++ runes_of_ascii """),
    i64_ @calculatedFrom(""abc"") `
    `,
    @rightPad()
    //	t
    char float @lengthOf(trueish),
    @tag(42)
    @leftPad('\x00')
    @calculatedFrom(""\n"")
    repeat string tag,//x
}

packet tag {
    repeat T u `
    `,
    string u128 @calculatedFrom(""packet"") `u8 x,`,
    // trailing space 
    //x
    repeat f64 stringy `" ++ [233]%N ++ runes_of_ascii "`,
    u32 leftPad @lengthOf(float),
    uint32 i8i8 @lengthOf(f32a),
    int @calculatedFrom(""" ++ [233]%N ++ runes_of_ascii "t" ++ [233]%N ++ runes_of_ascii """),
    @calculatedFrom(""\n"")
    @leftPad('\x00')
    @rightPad()
    repeat pack `// not a comment`,
    @calculatedFrom(""1"")
    char[] string_,
    f64 calculatedFrom @lengthOf(pack) `tab	here`,
    @tag(00)
    int8 tag,
}

options {
    f32a = ""a	b""
    _x = false;
    _x = '0'
    o = false/// triple
}

packet falsey {
    @tag(007)
    string falsey,
    i64_ @lengthOf(crc),
    repeat u128 body,
    char[00] roots,/// triple
    metadata @lengthOf(packetx) `
    `,// trailing space 
    string_ BodyLength,
    @calculatedFrom(""it's"")
    repeat matchKey,
    metadata @calculatedFrom(""abc""),
    @tag(255)
    repeat Pad {
        char[] packetx,
        repeat o {
            int16 charz,
            packetx {
                i8 zchar,
            },
            char[10] x,
            repeat zchar[0123456789] pack,// c
        },
        int,
        i8 asx,
    },
}

packet leftPad {
    @tag(255)
    repeat uint16 msg_type,
    // c
    f32 trueish @calculatedFrom("""") `two words`,
    @leftPad('\x00')
    @lengthOf(leftPad)
    @lengthOf(asx)
    //	t
    zchar[1] roots @calculatedFrom(""abc""),
    pack @lengthOf(Z9_),
    @tag(65535)
    @lengthOf(Header)
    // c
    f64 tag,
    @tag(1)
    repeat u8x,
    match stringy as x {
        ""it's"" : Z9_,
        7 : u128,
        ""// no comment"" : trueish,
        00 : f32a,
        [3, 1, 00] : pack,
        """ ++ [28040; 24687]%N ++ runes_of_ascii """ : options1,
    },
    repeat u128 {
        repeat crc {
            int16 int,
        },
    },
    @leftPad(' ')
    // trailing space 
    repeat zchar[255] int `crlf
    line`,
    @tag(1)
    Logon roots `// not a comment`,
}")).
Eval vm_compute in ("<<<M1525>>>" ++ check (runes_of_ascii "packet	asx{leftPad
	@calculatedFrom(
    """ ++ [233]%N ++ runes_of_ascii "t" ++ [233]%N ++ runes_of_ascii """
	)
	,	@leftPad	( '0'

    ) 
	// trailing space 
  u8x 
As`crlf
line`	, char[ 
3 ]
asx @calculatedFrom( ""{,}"" ) , 
// @lengthOf(
	// trailing space 

repeat
	u128

{

int
{ packetx	@calculatedFrom(
""packet""

)
    ,
match

    T
	as	T

{
    ""a	b"" :
o

    , }
,
zchar[00	] lengthOf
	`{ , }`

,
    /// triple

// trailing space 
    char[]

crc@calculatedFrom( ""abc""  )  , }
,

Header
    @calculatedFrom( 
""" ++ [233]%N ++ runes_of_ascii "t" ++ [233]%N ++ runes_of_ascii """ )
`two words`,
    repeat
	uint8 
uint8x
,
	repeat
    //
	char[
0123456789 ]
	float `u8 x,` ,}  ,packetx
    x 
`say ""hi""` ,
@rightPad (
)

    i8i8
@calculatedFrom(

""x y""  ) , 
@leftPad() 
BodyLength
	{ 
repeat int32 _x
	``, i8

    msg_type
    `doc`//
,}
    ,
}
// `tick` ""quote"" 'q'
  // packet A { u8 x, }
    packet  body
    { }
	packet

repeatCount {	zchar[
    3
] Packet,
@lengthOf( 	 // @lengthOf(
	Header
)i64

// c
// c
Packet

    `two words`
	,  zchar[

    65535
	] calculatedFrom
`tab	here`	//	t

	,
match	x

as	leftPad
	{ ""// no comment""

: rootA	,
""`tick`""
: 
o
    ,
} ,  // " ++ [128512]%N ++ runes_of_ascii " emoji
    	zchar[//	t

3]
    // packet A { u8 x, }
	// " ++ [27880; 37322]%N ++ runes_of_ascii "
u128 @calculatedFrom(  ""{,}"" ) 
`{ , }` ,} 
	    //	t
options

{u	=

    char[
42

    ] // " ++ [27880; 37322]%N ++ runes_of_ascii "
  metadata =""a\\""

;
Logon
= string
	; Z9_
=  u16

;  } ")).
Eval vm_compute in ("<<<M359>>>" ++ check (runes_of_ascii "root	packet // @lengthOf(
repeatCount {
    @lengthOf(u8x
) @calculatedFrom(""1"" ) @tag( 007 ) repeat zchar[
42 ] Header
    `" ++ [28040; 24687; 31867; 22411]%N ++ runes_of_ascii "` , match options1 as asx
{ 255
    // `tick` ""quote"" 'q'
    :
    roots , }, // a // b
Header
    @lengthOf(
    // a // b
    options1	) `` , Header //	t
@lengthOf(
    len )`{ , }`
, o matchKey `u8 x,` ,} packet packetx {zchar[
255
]
crc
    , }
    packet
    Logon {
    body { float { repeat Logon  trueish ,  } , } ,	@calculatedFrom(
    // `tick` ""quote"" 'q'
    ""`tick`"" ) repeat char[
    0] f32a
,match body
    as
    float {[65535
, """ ++ [28040; 24687]%N ++ runes_of_ascii """
    ] :
calculatedFrom ,}
, u32 float@calculatedFrom(
    """ ++ [233]%N ++ runes_of_ascii "t" ++ [233]%N ++ runes_of_ascii """ // @lengthOf(
)
, string body @lengthOf( len
    )`
` //
, u8x
@calculatedFrom( ""a\""b"")
    //	t
    , //	t
float64 options1@calculatedFrom(""" ++ [128512]%N ++ runes_of_ascii """ )`it's`
    ,
//x
// trailing space 
match crc as chars
    {
3
: options1 // @lengthOf(
, [ 10 ] :_x  [ ""{,}""
] :options1
,[ ""CRC32"", ""a\\""  ,
""a\\"" , ""packet"", 7
    // `tick` ""quote"" 'q'
    ]
:
As
    } , i16 msg_type , }")).
Eval vm_compute in ("<<<M1368>>>" ++ check (runes_of_ascii "// top
options
    // c0
{ // c1
LittleEndian =
    // c3
true
    // c4
; // c5a
  // c5b
} // c6
packet // c7a
  // c7b
Logon // c8a
  // c8b
{ u8
    // c10
x // c11a
  // c11b
, // c12
} // c13a
  // c13b
packet // c14a
  // c14b
Logout // c15
{
    // c16
u16
    // c17
reason
    // c18
, // c19a
  // c19b
}
    // c20
root packet Frame { // c24
u16 // c25a
  // c25b
Kind // c26
, // c27a
  // c27b
u16
    // c28
Kind2 // c29a
  // c29b
, match Kind
    // c32
as // c33
Body // c34
{
    // c35
1 : // c37
Logon // c38a
  // c38b
,
    // c39
[ // c40
2 , // c42
3
    // c43
, // c44
4 ] :
    // c47
Logout
    // c48
, // c49
100
    // c50
:
    // c51
Logon // c52a
  // c52b
,
    // c53
} , match Kind2 // c57a
  // c57b
as
    // c58
Trailer // c59
{ // c60
0 // c61a
  // c61b
: // c62
Logout // c63a
  // c63b
,
    // c64
} // c65a
  // c65b
,
    // c66
} // c67
")).
Eval vm_compute in ("<<<M1840>>>" ++ check (runes_of_ascii "
packet

float
{
char[]
	u8x  @lengthOf( roots
	)

    ,
	}	MetaData	leftPad {	string
	// `tick` ""quote"" 'q'
    a1
    ,}	root
packet// " ++ [27880; 37322]%N ++ runes_of_ascii "
pack 
{	falsey	, 
/// triple
	match
Logon as  // " ++ [128512]%N ++ runes_of_ascii " emoji
    trueish{ ""packet""
    :

    Foo , 
""""
: 
len ,

0123456789
	:

    i64_  ,
    ""it's"" :
	packetx

,
    255 :  len 
,

}
,
repeat

As 
As `" ++ [233]%N ++ runes_of_ascii "`
,@tag(  3)uint32 a1,
repeat
    zchar[

    4294967296
	]
	pack
	, 
@leftPad(

    ' '	)
	zchar
	@lengthOf( string_ )
`// not a comment`

,

    repeat
int ,repeat 
i8i8  // " ++ [27880; 37322]%N ++ runes_of_ascii "
{ u64

// a // b
	tag
`say ""hi""`
,
    u8x ,
    char	trueish ,
repeat  // packet A { u8 x, }
  float32 stringy	`line1
line2`

    , },	match
o
as
	o	{	007
    :
    float	}
	, 
        // packet A { u8 x, }
	// c
  	repeat

Pad
,
	    // " ++ [27880; 37322]%N ++ runes_of_ascii "

  // trailing space 
	}")).
Eval vm_compute in ("<<<M354>>>" ++ check (runes_of_ascii "options {
} packet u8x{ string uint8x@calculatedFrom(""{,}"" )	`crlf
line`	,} MetaData falsey{
    Logon packetx `tab	here` , } root packet o
{ falsey@calculatedFrom(
//x
// " ++ [27880; 37322]%N ++ runes_of_ascii "
""" ++ [28040; 24687]%N ++ runes_of_ascii """ ) ,	@tag(0123456789) // `tick` ""quote"" 'q'
char[
    // `tick` ""quote"" 'q'
    0123456789
]	u128@calculatedFrom(
""{,}"" ) ,
    @tag(
    00)
@lengthOf( stringy
) @tag( 4294967296
)  rootA Header,  @lengthOf(As
    )
    repeat leftPad `// not a comment`// c
, i8 leftPad @calculatedFrom( """" ) , @tag( 10
) zchar[ 007
] packetx
@lengthOf( // packet A { u8 x, }
u8x )	`" ++ [28040; 24687; 31867; 22411]%N ++ runes_of_ascii "` ,
}packet	options1 {
//	t
// trailing space 
falsey// packet A { u8 x, }
{ //	t
zchar[ 3
    ]// " ++ [128512]%N ++ runes_of_ascii " emoji
roots
//
// a // b
,
    u32 Header // c
,
} ,// a // b
}")).
Eval vm_compute in ("<<<M1808>>>" ++ check (runes_of_ascii "packet tag {
    @calculatedFrom(""x y"")
    lengthOf {
        options1 `
        `,
    },
    @tag(7)
    int {
        //x
        // " ++ [27880; 37322]%N ++ runes_of_ascii "
        char[007] calculatedFrom @lengthOf(metadata),
        tag @lengthOf(falsey),
        f32 calculatedFrom `{ , }`,
        i8i8 {
            string i64_ @lengthOf(asx) `it's`,
            u @calculatedFrom(""\n""),
        },
    },
    @calculatedFrom(""abc"")
    @leftPad(' ')
    uint64 calculatedFrom,// " ++ [27880; 37322]%N ++ runes_of_ascii "
}

packet o {
    Header,
    @lengthOf(i8i8)
    float32 Pad,
    char[42] leftPad @calculatedFrom(""""),
    @tag(255)
    body u,
}

packet lengthOf {
    @tag(255)
    char[0123456789] o `
    `,
}")).
Eval vm_compute in ("<<<M1312>>>" ++ check (runes_of_ascii "// top
options // c0a
  // c0b
{ // c1a
  // c1b
FixedStringPadChar = // c3
'0' ; } packet
    // c7
Q // c8
{ // c9a
  // c9b
zchar[ // c10a
  // c10b
4 // c11
] // c12
z , // c14
@rightPad ( // c16
'\x00' ) // c18a
  // c18b
char[ 3 // c20a
  // c20b
]
    // c21
n ,
    // c23
char[
    // c24
5
    // c25
] // c26
d // c27
, } // c29a
  // c29b
root
    // c30
packet R
    // c32
{ // c33
Q , // c35a
  // c35b
zchar[ 8 // c37
] // c38
top , // c40a
  // c40b
repeat
    // c41
zchar[
    // c42
2
    // c43
] // c44a
  // c44b
zs
    // c45
, // c46a
  // c46b
} // c47
")).
Eval vm_compute in ("<<<M1115>>>" ++ check (runes_of_ascii "packet float
    // c1
{ // c2
@rightPad // c3a
  // c3b
( // c4a
  // c4b
) // c5a
  // c5b
rootA // c6
@lengthOf( // c7a
  // c7b
trueish // c8
)
    // c9
,
    // c10
stringy // c11a
  // c11b
@lengthOf( // c12a
  // c12b
matchKey )
    // c14
, // c15a
  // c15b
char[ 4294967296 ]
    // c18
pack @lengthOf(
    // c20
uint8x
    // c21
) // c22a
  // c22b
,
    // c23
} // c24
root // c25
packet trueish {
    // c28
repeat uint64
    // c30
u128
    // c31
`line1
line2` // c32
,
    // c33
}
    // c34
")).
Eval vm_compute in ("<<<M133>>>" ++ check (runes_of_ascii "MetaData  falsey
{ } root packet // `tick` ""quote"" 'q'
o {@tag(3// " ++ [128512]%N ++ runes_of_ascii " emoji
) @calculatedFrom( """") @lengthOf(
    pack)char[ 65535
    ]falsey
    @lengthOf(falsey ) , }  root packet roots
    {@lengthOf(
chars )match Logon as chars{ ""`tick`"" :charz
    // packet A { u8 x, }
    ""a\\"" :Z9_ 007 : trueish ""CRC32"" :	msg_type , [
3
    ,3 // `tick` ""quote"" 'q'
,
00 ,4294967296 ,
0
,7 , //
""x y"",""\" ++ [233]%N ++ runes_of_ascii """
    //	t
    ] : metadata ,""a	b""
//x
// " ++ [27880; 37322]%N ++ runes_of_ascii "
:	crc } , }
")).
Eval vm_compute in ("<<<M1193>>>" ++ check (runes_of_ascii "// top
MetaData
    // c0
uint8x // c1
{ char[]
    // c3
f32a // c4a
  // c4b
`// not a comment`
    // c5
, // c6a
  // c6b
float32 // c7
roots
    // c8
, // c9
char[ // c10a
  // c10b
7 // c11
] // c12
u8x // c13
, // c14a
  // c14b
zchar[
    // c15
10
    // c16
] // c17
f32a // c18
, // c19a
  // c19b
u64
    // c20
pack // c21a
  // c21b
, u16
    // c23
pack // c24a
  // c24b
,
    // c25
}
    // c26
")).
Eval vm_compute in ("<<<M292>>>" ++ check (runes_of_ascii "packet/// triple
matchKey { float32 float,@calculatedFrom(""a\\""// " ++ [27880; 37322]%N ++ runes_of_ascii "
) @rightPad
( '\x00' )i16 tag  @calculatedFrom(""abc"" ) ,
repeat zchar[255
] pack
    , @lengthOf( Z9_ ) tag , } // trailing space 
root
packet rootA { repeat metadata { Logon , }, @tag( 10)
@lengthOf( A )
@tag( 007)
u32
    options1, match float as u {0123456789 : u8x ,} ,	}// " ++ [27880; 37322]%N ++ runes_of_ascii "
root packet lengthOf { }
")).
Eval vm_compute in ("<<<M1590>>>" ++ check (runes_of_ascii "options {
    T = zchar[42]
    options1 = uint8;
    lengthOf = char[4294967296];
}

packet Z9_ {
    repeat MetaDataX `crlf
    line`,
    repeat string x_y_z,
    u32 x,// `tick` ""quote"" 'q'
    @tag(00)
    repeat i64 Logon,
    u8x f32a,
    repeat lengthOf ``,
    repeat stringy Pad `
    `,
    repeat string_ chars `// not a comment`,
}")).
Eval vm_compute in ("<<<M368>>>" ++ check (runes_of_ascii "MetaData T
    {
uint8
float ,
repeatCount x ,	char[ 10  ] asx /// triple
, char[ 00]
metadata
    `" ++ [233]%N ++ runes_of_ascii "` ,u8x asx//	t
, } MetaData
    trueish {	charz	string_ `crlf
line`,  zchar[ 42 ]	_x
//
// `tick` ""quote"" 'q'
, }packet o { char[]u8x
    @calculatedFrom(""abc""  ) , } options{ x
=
    255 ; u // " ++ [27880; 37322]%N ++ runes_of_ascii "
= '0'	}
")).
Eval vm_compute in ("<<<M89>>>" ++ check (runes_of_ascii "packet Foo // " ++ [128512]%N ++ runes_of_ascii " emoji
{@lengthOf( f32a )
char[
0123456789 //	t
] float `u8 x,` ,}
    packet // a // b
i64_ {@lengthOf(stringy // packet A { u8 x, }
)
    char[] int @calculatedFrom(""{,}"" ) ,@tag(
007 ) //
int64
stringy`" ++ [233]%N ++ runes_of_ascii "` ,  char[]A @calculatedFrom(
""\" ++ [233]%N ++ runes_of_ascii """
    )	`doc` ,// " ++ [27880; 37322]%N ++ runes_of_ascii "
}
")).
Eval vm_compute in ("<<<M202>>>" ++ check (runes_of_ascii "packet Z9_
    { @calculatedFrom( ""packet"") char //
BodyLength , match chars as falsey {[65535,
    // c
    """ ++ [128512]%N ++ runes_of_ascii """ ,""" ++ [28040; 24687]%N ++ runes_of_ascii """ , ""`tick`""  , 10,
    ""a\\"" ,""a\""b"" // @lengthOf(
]: repeatCount , ""x y"" :chars , // " ++ [128512]%N ++ runes_of_ascii " emoji
65535
://x
calculatedFrom , } , }
")).
Eval vm_compute in ("<<<M364>>>" ++ check (runes_of_ascii "packet  _x
{ repeat char[] matchKey// " ++ [128512]%N ++ runes_of_ascii " emoji
, @leftPad( ) x_y_z/// triple
T , Pad
{ zchar[ 1] rootA `tab	here`
,},Foo
    @calculatedFrom(
    """"
    // trailing space 
    ),
}	packet MetaDataX {
float64 body, }
")).
Eval vm_compute in ("<<<M169>>>" ++ check (runes_of_ascii "root packet
    // `tick` ""quote"" 'q'
    string_ { repeat
char[00]  rootA
    ,
// " ++ [128512]%N ++ runes_of_ascii " emoji
// " ++ [27880; 37322]%N ++ runes_of_ascii "
}
    MetaData u {i32 options1,
}MetaData
rootA
{
u16  chars	,
/// triple
//x
}
")).
Eval vm_compute in ("<<<M336>>>" ++ check (runes_of_ascii "
packet msg_type
{
    zchar[ 65535
    /// triple
    ]stringy // `tick` ""quote"" 'q'
@calculatedFrom( """ ++ [233]%N ++ runes_of_ascii "t" ++ [233]%N ++ runes_of_ascii """ )
,@tag( 0
) repeat i64_,
}
// packet A { u8 x, }
")).
Eval vm_compute in ("<<<M195>>>" ++ check (runes_of_ascii "MetaData msg_type {} root packet
A{ repeat i32 leftPad
`it's`
,
    //x
    }  root
    packet a1
    {char[
    // c
    255 ]
    falsey // @lengthOf(
, }")).
Eval vm_compute in ("<<<M1675>>>" ++ check (runes_of_ascii "
packet A
    { match

    k
    as  n	{ [

""a""

,  ""bb""	,007,
	""d""

, ""e""

, 66  , 
""g"" 
, ""h""

    , 
9

,
""j""  ,""k""
    ] :
    B 2

:	C  }
, }
")).
Eval vm_compute in ("<<<M482>>>" ++ check (runes_of_ascii "packet uint8x
{ match pack
    as msg_type	{
    0123456789 :	float
}
,
} packet //	t
a1
    { } { options packetx
    = '\x00'	; u128= ""a	b""  ; }
")).
Eval vm_compute in ("<<<M477>>>" ++ check (runes_of_ascii "packet uint8x
{ match pack
    as msg_type	{
    0123456789 :	float
}
,
} packet //	t
a1
    { options } {packetx
    = '\x00'	; u128= ""a	b""  ; }
")).
Eval vm_compute in ("<<<M702>>>" ++ check (runes_of_ascii "// @lengthOf(
packet i8i8 { u128 o , }
options { MetaDataX = true;
    BodyLength =""packet"" x_y_z= 007
crc //x
= ""abc"" ""abc"" ;
    msg_type =
i16 }")).
Eval vm_compute in ("<<<M405>>>" ++ check (runes_of_ascii "packet uint8x
{  pack
    as msg_type	{
    0123456789 :	float
}
,
} packet //	t
a1
    { } options {packetx
    = '\x00'	; u128= ""a	b""  ; }
")).
Eval vm_compute in ("<<<M423>>>" ++ check (runes_of_ascii "packet uint8x
{ match pack
    as ,	{
    0123456789 :	float
}
,
} packet //	t
a1
    { } options {packetx
    = '\x00'	; u128= ""a	b""  ; }
")).
Eval vm_compute in ("<<<M1574>>>" ++ check (runes_of_ascii "

  MetaData 
leftPad {chars
MetaDataX , 
}

packet repeatCount
	{ char[

    255]	uint8x `" ++ [233]%N ++ runes_of_ascii "`
    ,}
MetaData  // c
  pack

{  As
Foo
,} ")).
Eval vm_compute in ("<<<M519>>>" ++ check (runes_of_ascii "packet uint8x
{ match pack
    as msg_type	{
    0123456789 :	float
}
,
} packet //	t
a1
    { } options {packetx
    = '\x00'	; u128")).
Eval vm_compute in ("<<<M1864>>>" ++ check (runes_of_ascii "
packet 
A {
    match
k as n
{
[
    ""a""	, ""bb""	,
	007	,
""d"" ,
    ""e""  ,	66, ""g""
,
    ""h"" 
,

9 ]
:B  ,
2

: C
    } 
,

}
")).
Eval vm_compute in ("<<<M1757>>>" ++ check (runes_of_ascii "packet

A

{match

k  as n
    {	[ 1,
22
	,  ""c c""
,
4  ,
    5 ,
	""f"",

    7	, 
8
, ""i""]  :  B
2	:
    C  }

, 
}
")).
Eval vm_compute in ("<<<M1166>>>" ++ check (runes_of_ascii "MetaData leftPad { chars MetaDataX , } packet repeatCount { char[ 255
// c
] uint8x `" ++ [233]%N ++ runes_of_ascii "` , } MetaData pack { As Foo , }")).
Eval vm_compute in ("<<<M907>>>" ++ check (runes_of_ascii "packet A {
  match k as n {
    [""a"", ""bb"", ""c c"", ""d"", ""e"", ""f"", ""g"", ""h"", ""i"", ""j"", ""k"", ""l""] : B
    2 : C
  },
}")).
Eval vm_compute in ("<<<M880>>>" ++ check (runes_of_ascii "packet A {
  match k as n {
    [""a"", ""bb"", ""c c"", ""d"", ""e"", ""f"", ""g"", ""h"", ""i"", ""j""] : B,
    2 : C
  },
}")).
Eval vm_compute in ("<<<M1460>>>" ++ check (runes_of_ascii "MetaData chars {
    x_y_z x `line1
        line2`,
    _x A `// not a comment`,
}// `tick` ""quote"" 'q'")).
Eval vm_compute in ("<<<M479>>>" ++ check (runes_of_ascii "packet uint8x
{ match pack
    as msg_type	{
    0123456789 :	float
}
,
} packet //	t
a1
    {")).
Eval vm_compute in ("<<<M872>>>" ++ check (runes_of_ascii "packet A {
  match k as n {
    [""a"", 22, ""c c"", 4, ""e"", 66, ""g"", 8, ""i""] : B
    2 : C
  },
}")).
Eval vm_compute in ("<<<M618>>>" ++ check (runes_of_ascii "
packet
    asx {match u128 as lengthOf
{
//	t
// `tick` ""quote"" 'q'
255 : x ,
    } , ,	}")).
Eval vm_compute in ("<<<M584>>>" ++ check (runes_of_ascii "
packet
    asx {match u128 as {
lengthOf
//	t
// `tick` ""quote"" 'q'
255 : x ,
    } ,	}")).
Eval vm_compute in ("<<<M845>>>" ++ check (runes_of_ascii "packet A {
  match k as n {
    [""a"", 22, ""c c"", 4, ""e"", 66, ""g""] : B,
    2 : C
  },
}")).
Eval vm_compute in ("<<<M843>>>" ++ check (runes_of_ascii "packet A {
  match k as n {
    [1, ""bb"", 007, ""d"", 5, ""f"", 7] : B,
    2 : C
  },
}")).
Eval vm_compute in ("<<<M1094>>>" ++ check (runes_of_ascii "packet A { u16 // a
 len // b
 @lengthOf( // c
 body // d
 ) // e
 `d` // f
 , }")).
Eval vm_compute in ("<<<M903>>>" ++ check (runes_of_ascii "packet A { Inner { match k as n { [1,22,007,4,5,66,7,8,9,10,11] : B, }, }, }")).
Eval vm_compute in ("<<<M91>>>" ++ check (runes_of_ascii "packet
roots{ }	MetaData
    metadata{
asx matchKey ,
uint64
rootA , }")).
Eval vm_compute in ("<<<M1087>>>" ++ check (runes_of_ascii "packet A { match k as n { [ // a
 1 // b
 , // c
 2 ] // d
 : B }, }")).
Eval vm_compute in ("<<<M1667>>>" ++ check (runes_of_ascii "

  packet	body	{ i32
f32a`{ , }`
    , // c

} options
    {
} ")).
Eval vm_compute in ("<<<M954>>>" ++ check (runes_of_ascii "packet A {
    B b `
x`,
    B `
x`,
    repeat B bs `
x`,
}")).
Eval vm_compute in ("<<<M764>>>" ++ check (runes_of_ascii "float32 true uint8 f32 i64 i32 @leftPad ) char[ } uint8")).
Eval vm_compute in ("<<<M1208>>>" ++ check (runes_of_ascii "packet body { i32 f32a
// c
`{ , }` , } options { }")).
Eval vm_compute in ("<<<M347>>>" ++ check (runes_of_ascii "packet As{
/// triple
// packet A { u8 x, }
}

")).
Eval vm_compute in ("<<<M596>>>" ++ check (runes_of_ascii "
packet
    asx {match u128 as lengthOf
{")).
Eval vm_compute in ("<<<M708>>>" ++ check (runes_of_ascii "// @lengthOf(
packet i8i8 { u128 o ,")).
Eval vm_compute in ("<<<M1620>>>" ++ check (runes_of_ascii "

  // c

  MetaData
tag 
{ }
")).
Eval vm_compute in ("<<<M1053>>>" ++ check (runes_of_ascii "packet A {
 u8 x `d" ++ [65279]%N ++ runes_of_ascii "`, // c" ++ [65279]%N ++ runes_of_ascii "
}")).
Eval vm_compute in ("<<<M1472>>>" ++ check (runes_of_ascii "
packet

A {
} 
  // c" ++ [8239]%N ++ runes_of_ascii "
 
")).
Eval vm_compute in ("<<<M1507>>>" ++ check (runes_of_ascii "
packet A 
{ }// c" ++ [8239]%N ++ runes_of_ascii "
")).
Eval vm_compute in ("<<<M22>>>" ++ check (runes_of_ascii "packet leftPad {
}")).
Eval vm_compute in ("<<<M1006>>>" ++ check (runes_of_ascii "packet A {
}
// c" ++ [8202]%N)).
Eval vm_compute in ("<<<M571>>>" ++ check (runes_of_ascii "
packet
    asx {")).
Eval vm_compute in ("<<<M1379>>>" ++ check (runes_of_ascii "MetaData tag {
}")).
Eval vm_compute in ("<<<M741>>>" ++ check ([65533; 65533]%N ++ runes_of_ascii "1" ++ [65533]%N ++ runes_of_ascii "dcV")).
Eval vm_compute in ("<<<M746>>>" ++ check (runes_of_ascii "UXk")).
