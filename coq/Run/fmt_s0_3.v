From FP Require Import Lexer Parser ShowPT Digest Formatter.
From Coq Require Import String List NArith.
Import ListNotations.
Open Scope string_scope.
Set Printing Width 100000000.
Set Printing Depth 100000000.
Definition show_fres (r : fres) : string :=
  match r with
  | FOk s => "OK:" ++ sh_escaped s ""
  | FErr s => "ERR:" ++ sh_escaped s ""
  | FPanic p => "PANIC:" ++ p
  end.
Definition check (rs : list rune) : string := digest (show_fres (format_res rs)).
Definition full (rs : list rune) : string := show_fres (format_res rs).
Eval vm_compute in ("<<<M1351>>>" ++ check (runes_of_ascii "options { StringPrefixLenType
    // c2
= // c3
u64 // c4a
  // c4b
; // c5a
  // c5b
ArrayPrefixLenType // c6a
  // c6b
=
    // c7
u32 ; FixedStringPadFromLeft
    // c10
= // c11
false // c12
;
    // c13
} // c14a
  // c14b
packet // c15
Party // c16
{ // c17a
  // c17b
zchar[
    // c18
7
    // c19
] // c20a
  // c20b
OrderId // c21a
  // c21b
,
    // c22
InTail6 // c23a
  // c23b
{ // c24
repeat
    // c25
char[ // c26
1
    // c27
] msgKind , char[ 3 // c32
]
    // c33
Tail // c34a
  // c34b
, // c35a
  // c35b
char[ // c36a
  // c36b
3 // c37
]
    // c38
Flags // c39
, // c40
i16 // c41a
  // c41b
tag7 , // c43a
  // c43b
} , // c45
@rightPad ( // c47a
  // c47b
'0' )
    // c49
char[ // c50a
  // c50b
12
    // c51
]
    // c52
clOrdID // c53a
  // c53b
, // c54
}
    // c55
packet
    // c56
Quote // c57
{
    // c58
@leftPad // c59a
  // c59b
( '0' // c61
) // c62
char[ // c63
11 // c64
] // c65
price // c66
, // c67
repeat // c68a
  // c68b
InCount7
    // c69
{
    // c70
i32 x // c72
, // c73
Party ,
    // c75
u8 // c76a
  // c76b
Ref // c77
, u8 tag7 // c80
, // c81a
  // c81b
} // c82
, // c83a
  // c83b
char[] // c84a
  // c84b
seqNo // c85
, Party
    // c87
, } // c89a
  // c89b
packet // c90a
  // c90b
Logon { // c92
@rightPad // c93
( // c94a
  // c94b
'\x00' ) // c96
char[ 5 // c98a
  // c98b
] Note // c100
, // c101a
  // c101b
i16 sym , // c104
InPrice72 // c105
{ char[ // c107a
  // c107b
9
    // c108
] // c109
Ref // c110
, zchar[ // c112
1
    // c113
]
    // c114
venue // c115
, // c116a
  // c116b
} , // c118a
  // c118b
char[] // c119a
  // c119b
clOrdID , } root // c123a
  // c123b
packet
    // c124
Reject
    // c125
{
    // c126
repeat // c127
Logon , // c129
@leftPad // c130a
  // c130b
( ' ' ) char[ // c134a
  // c134b
4 ] // c136a
  // c136b
seqNo // c137a
  // c137b
, // c138
zchar[
    // c139
5 ] // c141a
  // c141b
Acct ,
    // c143
u32 // c144
x
    // c145
, // c146a
  // c146b
u16 // c147
f1 // c148
@lengthOf( Body // c150a
  // c150b
)
    // c151
, // c152
match // c153
x // c154a
  // c154b
as
    // c155
Body // c156
{ // c157
[ // c158a
  // c158b
169
    // c159
, // c160a
  // c160b
74 // c161
]
    // c162
: // c163a
  // c163b
Quote // c164a
  // c164b
, // c165a
  // c165b
45 // c166
: Party
    // c168
, 7 // c170
:
    // c171
Logon
    // c172
, } // c174
,
    // c175
} ")).
Eval vm_compute in ("<<<M213>>>" ++ check (runes_of_ascii "
packet body
{@tag(
    3 ) i16 options1 ,  repeat string
body ,
@calculatedFrom( // trailing space 
""a\""b""
) x_y_z @calculatedFrom(
""a\\"") `it's` , match o as BodyLength
{ 00
:
pack,
1 : u	,
[255,255,""// no comment"" ]
    : Packet	[ 65535 ] :  i64_ , }
// @lengthOf(
//
,// a // b
@calculatedFrom( // c
""" ++ [233]%N ++ runes_of_ascii "t" ++ [233]%N ++ runes_of_ascii """ ) string// `tick` ""quote"" 'q'
len `tab	here`,
    @tag( 0123456789
) repeat
    //	t
    matchKey A `a\`,
    i8i8 Packet , stringy @calculatedFrom( ""x y"" ) ,f32a As
`crlf
line` ,u128{ repeat
    int  {
    repeat
    zchar[255 ] a1`{ , }`
,
// a // b
// a // b
match calculatedFrom as body//	t
{
    0 // " ++ [27880; 37322]%N ++ runes_of_ascii "
:body	42
    // c
    :tag // @lengthOf(
, ""1""	:packetx , ""it's"":  roots,}, i32 u @calculatedFrom(// " ++ [128512]%N ++ runes_of_ascii " emoji
""a\\"" ) ,
}	,
string_`crlf
line`, _x  , repeat lengthOf crc ,	}, // " ++ [27880; 37322]%N ++ runes_of_ascii "
}
MetaData rootA {
uint8	tag , string	Z9_ `u8 x,` ,
    f64 float ,
    Logon
falsey`a\`
, } packet len{  char[] u	`// not a comment`, char[] Header
`// not a comment`	, string charz
// a // b
/// triple
`tab	here` ,
    //
    @leftPad
    // packet A { u8 x, }
    ( )@lengthOf(
a1)
// " ++ [128512]%N ++ runes_of_ascii " emoji
//x
len
crc, @leftPad ( ' ' )Packet @calculatedFrom(""" ++ [128512]%N ++ runes_of_ascii """ ) , repeat uint8 a1
, match
    T as As { ""packet"": Logon , [	""" ++ [128512]%N ++ runes_of_ascii """
    , 0 ]
: i64_ , [ ""packet"" , 7
    ]
    : string_ ,
} , repeat//
zchar[
007 ] zchar `{ , }` ,
    }
")).
Eval vm_compute in ("<<<M1937>>>" ++ check (runes_of_ascii "// top
options	// c0

{	LittleEndian 
      // c2
      =	// c3a
    // c3b
	false // c4

	;	// c5a
// c5b
	StringPrefixLenType // c6
= 	 // c7a
	// c7b
  u8 
;
    ArrayPrefixLenType
    =
// c11
	u64 	 // c12

; 
        // c13
  FixedStringPadFromLeft 
        // c14
  =false

    ; 	 // c17a
  // c17b
    FixedStringPadChar

=// c19a
    // c19b
	' ';
// c21

}  // c22
  packet Reject 	 // c24a
  // c24b
{
repeat  // c26
	char[ // c27a
// c27b
	  4  // c28
    ] 
    // c29
seqNo,// c31
	string // c32a
  // c32b
	Px	// c33a
  // c33b
		, 	 // c34
    }

    root
    // c36
  packet// c37
Trade 
    // c38
	{	// c39a

// c39b
	@rightPad // c40
(

    // c41
	'0'
	)// c43a
// c43b
      char[ // c44
	  2// c45
  ]

    msgKind
    ,// c48
    	repeat 
      // c49
  f64  // c50a
// c50b
  price 

    // c51
	, 	 // c52
	InAcct79  // c53
  {
    // c54
	repeat 
    // c55
	Reject
, 	 // c57a
	  // c57b
zchar[ // c58
	  7 // c59a

// c59b
	]  // c60a
	// c60b
  OrderId// c61
, 
	    // c62
  }	// c63a
  // c63b
    ,
    Reject

    , } // c67a
    // c67b")).
Eval vm_compute in ("<<<M316>>>" ++ check (runes_of_ascii "// `tick` ""quote"" 'q'
packet crc { @tag(0 ) //x
chars , i8i8
@lengthOf( packetx ), repeat
f32a
    {
match packetx as a1{
    ""x y""
:
//
// `tick` ""quote"" 'q'
Packet, } ,}
, @leftPad(
'\x00' )
uint8 int ,
match float as a1 {
    // `tick` ""quote"" 'q'
    [4294967296
    ]
:// " ++ [27880; 37322]%N ++ runes_of_ascii "
Packet
    , } //
, repeat zchar[ 007 ] zchar`tab	here`
    , repeat
// " ++ [27880; 37322]%N ++ runes_of_ascii "
// a // b
x
    , }	packet
string_
    // c
    { char[
0123456789] a1
, @calculatedFrom( ""a\\"" ) @tag( 42)
@leftPad
('\x00' ) options1
    @calculatedFrom( """ ++ [28040; 24687]%N ++ runes_of_ascii """
)`it's`	, repeat
rootA// packet A { u8 x, }
{
    //
    match Logon as Packet { [10 ,	255 , 0,
007 ,
""CRC32""
, ""abc"" ] : len , """ ++ [28040; 24687]%N ++ runes_of_ascii """:	a1	, } , match leftPad as Header { 007:  As
, 255: repeatCount , /// triple
"""" // packet A { u8 x, }
: matchKey //
, [ 255 ,
    3,	""abc"" , """", ""\n"" , 1
, """"// " ++ [27880; 37322]%N ++ runes_of_ascii "
,
42//x
] : pack ,
}
, }
// @lengthOf(
// `tick` ""quote"" 'q'
, int
{int64 chars , }// @lengthOf(
, } 	 ")).
Eval vm_compute in ("<<<M237>>>" ++ check (runes_of_ascii "root
    packet
    asx { // `tick` ""quote"" 'q'
f32a	,
@calculatedFrom(
""abc"") zchar[ 65535 ]	metadata `
` , @calculatedFrom(// " ++ [128512]%N ++ runes_of_ascii " emoji
""CRC32"" // `tick` ""quote"" 'q'
) Header `doc`
    // @lengthOf(
    , match
f32a as
msg_type
// @lengthOf(
//x
{ [ ""\n"" ] /// triple
:
charz// @lengthOf(
0123456789 :
pack
    // `tick` ""quote"" 'q'
    ,//x
[ ""packet"" , """",
    // @lengthOf(
    ""`tick`"" ,
    ""CRC32"" , ""\n"" ,
// `tick` ""quote"" 'q'
// trailing space 
""it's""//	t
,
""it's"", //
4294967296 ]
:
charz
42
    : leftPad , [
255 ,	7 , ""packet"" , // trailing space 
""{,}""
    , ""\" ++ [233]%N ++ runes_of_ascii """ ,""1""
    ,	""1""  ] : msg_type
,
    [ """ ++ [128512]%N ++ runes_of_ascii """
    ]:  i64_ } ,  }packet body { } root packet i64_
    { uint16  Header @calculatedFrom(
""" ++ [233]%N ++ runes_of_ascii "t" ++ [233]%N ++ runes_of_ascii """ )
    ``
    ,float64 string_@calculatedFrom( // a // b
""`tick`"") , repeat zchar[ // @lengthOf(
1] packetx`it's` ,
} //	t")).
Eval vm_compute in ("<<<M1356>>>" ++ check (runes_of_ascii "options {
    StringPrefixLenType = u16;
    ArrayPrefixLenType = u32;
    FixedStringPadFromLeft = true;
    FixedStringPadChar = '0';
}
packet Cancel {
}
packet Party {
}
packet Logon {
}
packet Ack {
}
packet Logout {
    repeat InSym87 {
        InClordid94 {
            string clOrdID,
        },
        string Px,
        i16 Qty,
        repeat InCount71 {
            repeat Cancel,
            uint16 Tail,
            char[2] x,
            repeat string Ref,
        },
        Cancel,
    },
}
root packet Order {
    repeat string tag7,
    @leftPad(' ') char[3] Px,
    u8 Qty,
    match Qty as Body {
        [28, 62] : Logon,
        148 : Ack,
        88 : Party,
        184 : Cancel,
    },
    u16 Note @calculatedFrom(""CR\
C32""),
}
")).
Eval vm_compute in ("<<<M1315>>>" ++ check (runes_of_ascii "// top
packet // c0
MDSnapshotZZ // c1a
  // c1b
{ // c2
u8 a // c4
, // c5a
  // c5b
} // c6
packet OrderACK // c8
{ // c9a
  // c9b
u16 b // c11
,
    // c12
} // c13a
  // c13b
packet
    // c14
HTTPServerInfo
    // c15
{ // c16
string s
    // c18
,
    // c19
}
    // c20
root // c21a
  // c21b
packet // c22
FIXMsg // c23
{ u8 // c25a
  // c25b
KType // c26a
  // c26b
, // c27a
  // c27b
MDSnapshotZZ
    // c28
, // c29a
  // c29b
repeat
    // c30
OrderACK , // c32a
  // c32b
match // c33
KType as // c35a
  // c35b
Body // c36
{
    // c37
1 :
    // c39
HTTPServerInfo , 2 // c42
:
    // c43
OrderACK
    // c44
, } // c46a
  // c46b
,
    // c47
} // c48a
  // c48b
")).
Eval vm_compute in ("<<<M366>>>" ++ check (runes_of_ascii "packet
// @lengthOf(
//	t
f32a { char[] Header`" ++ [233]%N ++ runes_of_ascii "` ,  @tag( 00
) zchar[ 255  ] int
    , @lengthOf(	trueish)
x @calculatedFrom( """ ++ [128512]%N ++ runes_of_ascii """
    )`say ""hi""` , @leftPad
    (	'\x00'
) @lengthOf( //	t
u128 )//	t
repeat BodyLength ,
falsey @lengthOf( uint8x ), //
@lengthOf( rootA) repeat uint8 T  `a\` , repeat  string
lengthOf
`it's` , @leftPad(
    '\x00' )
zchar[ 42
// packet A { u8 x, }
// a // b
] u`say ""hi""` ,// a // b
repeat packetx
// a // b
// packet A { u8 x, }
{
Pad  f32a
,// trailing space 
i8i8 msg_type `say ""hi""` , i64_ repeatCount , char[]chars , } ,}MetaData _x
{  x matchKey `" ++ [28040; 24687; 31867; 22411]%N ++ runes_of_ascii "`, }")).
Eval vm_compute in ("<<<M1121>>>" ++ check (runes_of_ascii "// top
root // c0
packet // c1
_x
    // c2
{ match
    // c4
Foo // c5
as // c6a
  // c6b
Z9_ {
    // c8
""a	b"" // c9a
  // c9b
: // c10
Pad // c11
,
    // c12
} , // c14
repeat // c15a
  // c15b
x `line1
line2`
    // c17
, // c18
@rightPad // c19a
  // c19b
(
    // c20
' ' // c21
) // c22
@calculatedFrom( ""a\\""
    // c24
) // c25a
  // c25b
metadata MetaDataX
    // c27
, @tag(
    // c29
0 ) // c31
Logon int
    // c33
``
    // c34
,
    // c35
} // c36
options // c37
{
    // c38
T // c39
= // c40a
  // c40b
'\x00' } // c42a
  // c42b
")).
Eval vm_compute in ("<<<M1346>>>" ++ check (runes_of_ascii "options {
    ArrayPrefixLenType = u64;
    FixedStringPadFromLeft = true;
    FixedStringPadChar = '0';
}
packet Quote {
}
packet Ack {
    repeat InNote66 {
        u8 pad0,
    },
}
packet Reject {
}
root packet Order {
    Quote,
    repeat Reject,
    string venue,
    string seqNo,
    uint32 Ref,
    u16 lastPx,
    u32 clOrdID @lengthOf(Body),
    match lastPx as Body {
        190 : Reject,
        186 : Quote,
        22 : Ack,
    },
    u16 Flags @calculatedFrom(""CRC32""),
}
")).
Eval vm_compute in ("<<<M1827>>>" ++ check (runes_of_ascii "// packet A { u8 x, }
MetaData

roots  { char[ 00

    ] lengthOf
`` ,As 
stringy
	,x  calculatedFrom	,	}
packet i8i8 {
	crc
`crlf
line`
    ,

@rightPad	// a // b
	( )

zchar[
    42
    ]falsey // trailing space 
  , 
  /// triple
    @tag(
    42
)  u32

    leftPad
    , @tag( 42)a1@lengthOf( Z9_
    )
    ,
match leftPad

    as 
crc{  [

""a\""b""
,
1
,	255

]
	:
trueish
,
    3

    : 
float

    ,
0:

lengthOf 
, } , }
")).
Eval vm_compute in ("<<<M1443>>>" ++ check (runes_of_ascii "  packet metadata{//	t
		float64
body 
@lengthOf(

    calculatedFrom)
	,  // a // b
@tag(
42
) rootA , x_y_z
	u8x 
`// not a comment` ,
    @lengthOf( 
Pad
    ) match	// " ++ [27880; 37322]%N ++ runes_of_ascii "
  packetx
as	leftPad{ 

    //
  65535
:
tag
	,
""" ++ [128512]%N ++ runes_of_ascii """
:	_x
	},
x_y_z

metadata  ,

@tag( 7
    ) int64
zchar

    @lengthOf(
    repeatCount
	) `" ++ [233]%N ++ runes_of_ascii "`
	,
	@tag(0123456789

) repeat
	float 
chars

, 
f32
	MetaDataX,} ")).
Eval vm_compute in ("<<<M118>>>" ++ check (runes_of_ascii "packet As{@leftPad ( )
    char[ 0	]
Logon, char[	0
]
Z9_@calculatedFrom(	""abc""
    // c
    ) ,  @tag( 4294967296 )
    i64 matchKey @calculatedFrom(
    ""// no comment""//
)`two words` ,i16 A
, }// " ++ [27880; 37322]%N ++ runes_of_ascii "
packet T { zchar[
3 ] tag// packet A { u8 x, }
@lengthOf(
    chars) , } packet// " ++ [128512]%N ++ runes_of_ascii " emoji
BodyLength  {calculatedFrom @lengthOf( body )
`
`	, } // a // b")).
Eval vm_compute in ("<<<M12>>>" ++ check (runes_of_ascii "options {falsey =int64; u8x = uint32	uint8x =// " ++ [128512]%N ++ runes_of_ascii " emoji
zchar[ 1
]
// @lengthOf(
/// triple
; leftPad =
    ""a	b"";
    calculatedFrom
=
    false ;	}
MetaData Packet
{  zchar[
7]  As ,} root packet	pack {
@leftPad ( )	@tag(// trailing space 
7 ) zchar[ 3 ] u	@lengthOf(
// @lengthOf(
// trailing space 
x ),
}
")).
Eval vm_compute in ("<<<M130>>>" ++ check (runes_of_ascii "packet zchar { @lengthOf( a1
// " ++ [128512]%N ++ runes_of_ascii " emoji
//	t
) i64_ @lengthOf( Header )
`" ++ [28040; 24687; 31867; 22411]%N ++ runes_of_ascii "`, charz`" ++ [233]%N ++ runes_of_ascii "` , char[007] i64_ , tag  { u16  matchKey // " ++ [27880; 37322]%N ++ runes_of_ascii "
,match Pad as lengthOf { [""CRC32"" ,	""abc""
] : Packet
,	}
, }
    , } MetaData body {char[
    10 ]u128
    `doc`
    ,
/// triple
//x
} //x")).
Eval vm_compute in ("<<<M1625>>>" ++ check (runes_of_ascii "root packet i8i8 {
    @tag(4294967296)
    // packet A { u8 x, }
    Header calculatedFrom `
        `,
    @tag(4294967296)
    @rightPad(' ')
    @lengthOf(float)
    options1 zchar `" ++ [233]%N ++ runes_of_ascii "`,
}

root packet x {
    repeat zchar[10] x `u8 x,`,
}")).
Eval vm_compute in ("<<<M21>>>" ++ check (runes_of_ascii "packet  Logon //	t
{pack	_x
    ,
Z9_ i8i8  `" ++ [28040; 24687; 31867; 22411]%N ++ runes_of_ascii "`	, } options
    { tag	= 4294967296 ; As = string
    ; rootA = true ; }root packet f32a { //x
@leftPad
// " ++ [27880; 37322]%N ++ runes_of_ascii "
// c
(' ') repeat _x`" ++ [233]%N ++ runes_of_ascii "`	, @rightPad ( )i8i8 len,}

")).
Eval vm_compute in ("<<<M265>>>" ++ check (runes_of_ascii "MetaData
    zchar
{
uint8 _x
// `tick` ""quote"" 'q'
//
`doc` ,
    float64 metadata`doc` // " ++ [128512]%N ++ runes_of_ascii " emoji
, zchar[ 42
    ]
// packet A { u8 x, }
// c
x_y_z , zchar[ 3 ]Logon `{ , }`
, }

")).
Eval vm_compute in ("<<<M1415>>>" ++ check (runes_of_ascii "packet A

    {
match

    k
as

n

    {

    [1
	,
	22
,
    ""c c""
    , 4  , 
5
,

    ""f""
    ,
7

    ,  8

,

""i""
,10  ]  :

B
, 2	:
C } ,
	}")).
Eval vm_compute in ("<<<M195>>>" ++ check (runes_of_ascii "MetaData msg_type {} root packet
A{ repeat i32 leftPad
`it's`
,
    //x
    }  root
    packet a1
    {char[
    // c
    255 ]
    falsey // @lengthOf(
, }")).
Eval vm_compute in ("<<<M150>>>" ++ check (runes_of_ascii "packet
    //	t
    Logon {
metadata
@calculatedFrom( ""a\\"" ) , @tag( 42 ) // " ++ [128512]%N ++ runes_of_ascii " emoji
@tag(	65535 )
repeat u16 o `line1
line2` ,
} packet float { }

")).
Eval vm_compute in ("<<<M547>>>" ++ check (runes_of_ascii "%packet uint8x
{ match pack
    as msg_type	{
    0123456789 :	float
}
,
} packet //	t
a1
    { } options {packetx
    = '\x00'	; u128= ""a	b""  ; }
")).
Eval vm_compute in ("<<<M502>>>" ++ check (runes_of_ascii "packet uint8x
{ match pack
    as msg_type	{
    0123456789 :	float
}
,
} packet //	t
a1
    { } options {packetx
    = ;	'\x00' u128= ""a	b""  ; }
")).
Eval vm_compute in ("<<<M433>>>" ++ check (runes_of_ascii "packet uint8x
{ match pack
    as msg_type	{
    ""`tick`"" :	float
}
,
} packet //	t
a1
    { } options {packetx
    = '\x00'	; u128= ""a	b""  ; }
")).
Eval vm_compute in ("<<<M678>>>" ++ check (runes_of_ascii "// @lengthOf(
packet i8i8 { u128 o , }
options { MetaDataX = true;
    BodyLength =""packet"" x_y_z= 007
crc //x
= ""abc"" ;
    < msg_type =
i16 }")).
Eval vm_compute in ("<<<M681>>>" ++ check (runes_of_ascii "// @lengthOf(
packet i8i8 { u128 o , }
options { MetaDataX = true;
    BodyLength =""packet"" x_y_z= 007
crc //x
= ""abc"" ;
    msg_type i16
= }")).
Eval vm_compute in ("<<<M706>>>" ++ check (runes_of_ascii "// @lengthOf(
packet i8i8 { u128 o , }
options { MetaDataX = ;
    BodyLength =""packet"" x_y_z= 007
crc //x
= ""abc"" ;
    msg_type =
i16 }")).
Eval vm_compute in ("<<<M37>>>" ++ check (runes_of_ascii "//
root /// triple
packet // trailing space 
pack {
@leftPad(
    ' ' )
    repeat trueish zchar ,	} root
    packet // " ++ [27880; 37322]%N ++ runes_of_ascii "
Header { }")).
Eval vm_compute in ("<<<M1781>>>" ++ check (runes_of_ascii "packet A {
    u16 len @lengthOf(body) `a
    
    b`,
    u32 crc @calculatedFrom(""CRC32"") `a
    
    b`,
    string body,
}")).
Eval vm_compute in ("<<<M1190>>>" ++ check (runes_of_ascii "MetaData leftPad { chars MetaDataX , } packet repeatCount { char[ 255 ] uint8x `" ++ [233]%N ++ runes_of_ascii "` , } MetaData pack { As Foo , }
// c
")).
Eval vm_compute in ("<<<M1170>>>" ++ check (runes_of_ascii "MetaData leftPad { chars MetaDataX , } packet repeatCount { char[ 255 ] uint8x
// c
`" ++ [233]%N ++ runes_of_ascii "` , } MetaData pack { As Foo , }")).
Eval vm_compute in ("<<<M907>>>" ++ check (runes_of_ascii "packet A {
  match k as n {
    [""a"", ""bb"", ""c c"", ""d"", ""e"", ""f"", ""g"", ""h"", ""i"", ""j"", ""k"", ""l""] : B
    2 : C
  },
}")).
Eval vm_compute in ("<<<M1442>>>" ++ check (runes_of_ascii "packet 
A {Inner
	{ 
match

k  as
n  {	[ 1

    , 22
	,
    007]	:

    B

    ,

    },

}  ,  }

")).
Eval vm_compute in ("<<<M944>>>" ++ check (runes_of_ascii "packet A {
    Inner {
        u8 x `a

b`,
        Deep {
            u8 y `a

b`,
        },
    },
}")).
Eval vm_compute in ("<<<M1304>>>" ++ check (runes_of_ascii "
packet order_item

{  u8
a

    , } root
packet

    new_order{ order_item
	,  u8
x ,

}

")).
Eval vm_compute in ("<<<M610>>>" ++ check (runes_of_ascii "
packet
    asx {match u128 as lengthOf
{
//	t
// `tick` ""quote"" 'q'
255 : x repeat
    } ,	}")).
Eval vm_compute in ("<<<M598>>>" ++ check (runes_of_ascii "
packet
    asx {match u128 as lengthOf
{
//	t
// `tick` ""quote"" 'q'
255 : : x ,
    } ,	}")).
Eval vm_compute in ("<<<M569>>>" ++ check (runes_of_ascii "
packet
    asx {u128 match as lengthOf
{
//	t
// `tick` ""quote"" 'q'
255 : x ,
    } ,	}")).
Eval vm_compute in ("<<<M625>>>" ++ check (runes_of_ascii "
packet
    asx {match u128 as lengthOf
{
//	t
// `tick` ""quote"" 'q'
255 : x ,
    } ,")).
Eval vm_compute in ("<<<M861>>>" ++ check (runes_of_ascii "packet A {
  match k as n {
    [1, 22, ""c c"", 4, 5, ""f"", 7, 8] : B
    2 : C
  },
}")).
Eval vm_compute in ("<<<M1926>>>" ++ check (runes_of_ascii "packet A {
    match k as n {
        [1, 22, ""c c""] : B,
        2 : C,
    },
}")).
Eval vm_compute in ("<<<M1282>>>" ++ check (runes_of_ascii "root 
packet

    P  { u16	a ,

u32

Sum	@calculatedFrom( ""CRC32""
	) ,

} ")).
Eval vm_compute in ("<<<M1453>>>" ++ check (runes_of_ascii "packet A {
    match k as n {
        [""a""] : B,
        2 : C,
    },
}")).
Eval vm_compute in ("<<<M864>>>" ++ check (runes_of_ascii "packet A { Inner { match k as n { [1,22,007,4,5,66,7,8] : B, }, }, }")).
Eval vm_compute in ("<<<M918>>>" ++ check (runes_of_ascii "packet A {
    B b `a
b`,
    B `a
b`,
    repeat B bs `a
b`,
}")).
Eval vm_compute in ("<<<M1619>>>" ++ check (runes_of_ascii "MetaData M {
    u8 x `
        x`,
    T t `
        x`,
}")).
Eval vm_compute in ("<<<M1824>>>" ++ check (runes_of_ascii "

  MetaData
    M  { 
u8	x	`a
b`
,
    T 
t	`a
b`

,}")).
Eval vm_compute in ("<<<M1215>>>" ++ check (runes_of_ascii "packet body { i32 f32a `{ , }` , } options // c
{ }")).
Eval vm_compute in ("<<<M1393>>>" ++ check (runes_of_ascii "  root packet 
P

{char

    c 
,
	u8 x
,

}
")).
Eval vm_compute in ("<<<M596>>>" ++ check (runes_of_ascii "
packet
    asx {match u128 as lengthOf
{")).
Eval vm_compute in ("<<<M1812>>>" ++ check (runes_of_ascii "packet A {
    u8 x `a
    
    b`,
}")).
Eval vm_compute in ("<<<M179>>>" ++ check (runes_of_ascii "// `tick` ""quote"" 'q'
options {}")).
Eval vm_compute in ("<<<M1003>>>" ++ check (runes_of_ascii "packet A {
 u8 x `d" ++ [8192]%N ++ runes_of_ascii "`, // c" ++ [8192]%N ++ runes_of_ascii "
}")).
Eval vm_compute in ("<<<M419>>>" ++ check (runes_of_ascii "packet uint8x
{ match pack")).
Eval vm_compute in ("<<<M576>>>" ++ check (runes_of_ascii "
packet
    asx {match")).
Eval vm_compute in ("<<<M115>>>" ++ check (runes_of_ascii "MetaData roots{ } 	 ")).
Eval vm_compute in ("<<<M981>>>" ++ check (runes_of_ascii "packet A {
}
// c" ++ [12288]%N)).
Eval vm_compute in ("<<<M1074>>>" ++ check (runes_of_ascii "MetaData M {
}// c")).
Eval vm_compute in ("<<<M1229>>>" ++ check (runes_of_ascii "packet x
// c
{ }")).
Eval vm_compute in ("<<<M404>>>" ++ check (runes_of_ascii "packet uint8x")).
Eval vm_compute in ("<<<M995>>>" ++ check (runes_of_ascii "// c" ++ [5760]%N)).
Eval vm_compute in ("<<<M727>>>" ++ check (runes_of_ascii "")).
