From FP Require Import Lexer Parser ShowPT Digest Formatter.
From Coq Require Import String List NArith.
Import ListNotations.
Open Scope string_scope.
Set Printing Width 100000000.
Set Printing Depth 100000000.
Definition show_fres (r : fres) : string :=
  match r with
  | FOk s => "OK:" ++ sh_escaped s ""
  | FErr s => "ERR:" ++ sh_escaped s ""
  | FPanic p => "PANIC:" ++ p
  end.
Definition check (rs : list rune) : string := digest (show_fres (format_res rs)).
Definition full (rs : list rune) : string := show_fres (format_res rs).
Eval vm_compute in ("<<<M1351>>>" ++ check (runes_of_ascii "options { StringPrefixLenType
    // c2
= // c3
u64 // c4a
  // c4b
; // c5a
  // c5b
ArrayPrefixLenType // c6a
  // c6b
=
    // c7
u32 ; FixedStringPadFromLeft
    // c10
= // c11
false // c12
;
    // c13
} // c14a
  // c14b
packet // c15
Party // c16
{ // c17a
  // c17b
zchar[
    // c18
7
    // c19
] // c20a
  // c20b
OrderId // c21a
  // c21b
,
    // c22
InTail6 // c23a
  // c23b
{ // c24
repeat
    // c25
char[ // c26
1
    // c27
] msgKind , char[ 3 // c32
]
    // c33
Tail // c34a
  // c34b
, // c35a
  // c35b
char[ // c36a
  // c36b
3 // c37
]
    // c38
Flags // c39
, // c40
i16 // c41a
  // c41b
tag7 , // c43a
  // c43b
} , // c45
@rightPad ( // c47a
  // c47b
'0' )
    // c49
char[ // c50a
  // c50b
12
    // c51
]
    // c52
clOrdID // c53a
  // c53b
, // c54
}
    // c55
packet
    // c56
Quote // c57
{
    // c58
@leftPad // c59a
  // c59b
( '0' // c61
) // c62
char[ // c63
11 // c64
] // c65
price // c66
, // c67
repeat // c68a
  // c68b
InCount7
    // c69
{
    // c70
i32 x // c72
, // c73
Party ,
    // c75
u8 // c76a
  // c76b
Ref // c77
, u8 tag7 // c80
, // c81a
  // c81b
} // c82
, // c83a
  // c83b
char[] // c84a
  // c84b
seqNo // c85
, Party
    // c87
, } // c89a
  // c89b
packet // c90a
  // c90b
Logon { // c92
@rightPad // c93
( // c94a
  // c94b
'\x00' ) // c96
char[ 5 // c98a
  // c98b
] Note // c100
, // c101a
  // c101b
i16 sym , // c104
InPrice72 // c105
{ char[ // c107a
  // c107b
9
    // c108
] // c109
Ref // c110
, zchar[ // c112
1
    // c113
]
    // c114
venue // c115
, // c116a
  // c116b
} , // c118a
  // c118b
char[] // c119a
  // c119b
clOrdID , } root // c123a
  // c123b
packet
    // c124
Reject
    // c125
{
    // c126
repeat // c127
Logon , // c129
@leftPad // c130a
  // c130b
( ' ' ) char[ // c134a
  // c134b
4 ] // c136a
  // c136b
seqNo // c137a
  // c137b
, // c138
zchar[
    // c139
5 ] // c141a
  // c141b
Acct ,
    // c143
u32 // c144
x
    // c145
, // c146a
  // c146b
u16 // c147
f1 // c148
@lengthOf( Body // c150a
  // c150b
)
    // c151
, // c152
match // c153
x // c154a
  // c154b
as
    // c155
Body // c156
{ // c157
[ // c158a
  // c158b
169
    // c159
, // c160a
  // c160b
74 // c161
]
    // c162
: // c163a
  // c163b
Quote // c164a
  // c164b
, // c165a
  // c165b
45 // c166
: Party
    // c168
, 7 // c170
:
    // c171
Logon
    // c172
, } // c174
,
    // c175
} ")).
Eval vm_compute in ("<<<M271>>>" ++ check (runes_of_ascii "// packet A { u8 x, }
packet string_ {
@tag( 4294967296)
@calculatedFrom( """ ++ [128512]%N ++ runes_of_ascii """ )@calculatedFrom( ""1"" )  leftPad @lengthOf( //	t
int )  ``
// `tick` ""quote"" 'q'
//
, repeat Packet{ zchar[
0
    // packet A { u8 x, }
    ]options1 `line1
line2` , },
    @calculatedFrom( """"	) float32
    u8x
    ,
float , i64_
{ packetx {  i16	falsey, f32 repeatCount
    `{ , }`,} ,
    repeat char[
0  ] i8i8, string	o @lengthOf( options1 ) , } , i64_
@calculatedFrom(""a\""b"" )
/// triple
//x
`a\`  , @rightPad ( )@lengthOf( packetx
    )
match matchKey as stringy{ ""a	b"":
body,}
    ,
    // " ++ [27880; 37322]%N ++ runes_of_ascii "
    @lengthOf(
u128
) @calculatedFrom(
    ""`tick`"" ) @rightPad
    () // @lengthOf(
repeat falsey
string_ `" ++ [28040; 24687; 31867; 22411]%N ++ runes_of_ascii "`
    ,string As`it's`
    ,
@calculatedFrom( """ ++ [28040; 24687]%N ++ runes_of_ascii """ ) repeat rootA { float64
body	,
} , } options {zchar
=
    // " ++ [128512]%N ++ runes_of_ascii " emoji
    true  ;  i8i8= 3; } packet	leftPad{	@calculatedFrom(
    // c
    """" ) //x
@leftPad( ' ' )
@calculatedFrom(
""abc"" ) repeat MetaDataX{  char[] Pad , body
@lengthOf( Foo )
/// triple
/// triple
,uint64 i8i8 ,char[ 42 ]options1
@calculatedFrom( ""x y""
),}
,
} packet stringy
    /// triple
    {	@calculatedFrom( """ ++ [28040; 24687]%N ++ runes_of_ascii """ )BodyLength	len
    ,@lengthOf(
u
    ) i8i8
metadata
, @calculatedFrom(
""a\\""
) //x
packetx
    ,
    f64 i8i8	@lengthOf( Header
    )
    , metadata
`
`,@lengthOf( int ) repeat falsey	,
repeat char[]
trueish
,
    }
")).
Eval vm_compute in ("<<<M1682>>>" ++ check (runes_of_ascii "options {
    BodyLength = char[7];
}

// c
// @lengthOf(
packet asx {
    int16 x_y_z,
    @calculatedFrom("""")
    @lengthOf(chars)
    //
    repeat repeatCount charz,
    @leftPad()
    i64_ @calculatedFrom(""\" ++ [233]%N ++ runes_of_ascii """) `// not a comment`,
    tag Z9_ `two words`,
    @lengthOf(asx)
    @calculatedFrom(""`tick`"")
    match uint8x as matchKey {
        0123456789 : u8x,
        1 : zchar,
    },
    u128 @lengthOf(u128),
}

MetaData msg_type {
    string BodyLength `two words`,
    options1 i64_,
}// " ++ [128512]%N ++ runes_of_ascii " emoji

packet roots {
    u ``,
    @calculatedFrom(""a	b"")
    match len as msg_type {
        // c
        """ ++ [28040; 24687]%N ++ runes_of_ascii """ : charz,
    },
    crc @calculatedFrom(""it's"") `a\`,
    @leftPad('0')
    @tag(007)
    zchar[3] falsey,
    @calculatedFrom(""\n"")
    @calculatedFrom(""CRC32"")
    // trailing space 
    match Packet as stringy {
        1 : Pad,
        ""it's"" : f32a,
    },
    @leftPad(' ')
    match int as a1 {
        [0123456789, 255] : options1,
        //x
        //x
    },
    BodyLength @calculatedFrom(""" ++ [28040; 24687]%N ++ runes_of_ascii """),
    float32 zchar @calculatedFrom(""// no comment""),
    @tag(10)
    zchar[1] rootA,
}")).
Eval vm_compute in ("<<<M316>>>" ++ check (runes_of_ascii "// `tick` ""quote"" 'q'
packet crc { @tag(0 ) //x
chars , i8i8
@lengthOf( packetx ), repeat
f32a
    {
match packetx as a1{
    ""x y""
:
//
// `tick` ""quote"" 'q'
Packet, } ,}
, @leftPad(
'\x00' )
uint8 int ,
match float as a1 {
    // `tick` ""quote"" 'q'
    [4294967296
    ]
:// " ++ [27880; 37322]%N ++ runes_of_ascii "
Packet
    , } //
, repeat zchar[ 007 ] zchar`tab	here`
    , repeat
// " ++ [27880; 37322]%N ++ runes_of_ascii "
// a // b
x
    , }	packet
string_
    // c
    { char[
0123456789] a1
, @calculatedFrom( ""a\\"" ) @tag( 42)
@leftPad
('\x00' ) options1
    @calculatedFrom( """ ++ [28040; 24687]%N ++ runes_of_ascii """
)`it's`	, repeat
rootA// packet A { u8 x, }
{
    //
    match Logon as Packet { [10 ,	255 , 0,
007 ,
""CRC32""
, ""abc"" ] : len , """ ++ [28040; 24687]%N ++ runes_of_ascii """:	a1	, } , match leftPad as Header { 007:  As
, 255: repeatCount , /// triple
"""" // packet A { u8 x, }
: matchKey //
, [ 255 ,
    3,	""abc"" , """", ""\n"" , 1
, """"// " ++ [27880; 37322]%N ++ runes_of_ascii "
,
42//x
] : pack ,
}
, }
// @lengthOf(
// `tick` ""quote"" 'q'
, int
{int64 chars , }// @lengthOf(
, } 	 ")).
Eval vm_compute in ("<<<M1653>>>" ++ check (runes_of_ascii "packet u128 {
    @rightPad(' ')
    i64_ {
        Logon,
        char[4294967296] MetaDataX @calculatedFrom(""" ++ [28040; 24687]%N ++ runes_of_ascii """),
    },
    rootA {
        zchar[1] rootA,
        asx {
            rootA @calculatedFrom(""abc""),
            repeat uint16 x_y_z,
            // packet A { u8 x, }
            zchar[42] stringy,
            body,
        },
    },
    @leftPad('\x00')
    char[3] Z9_ @lengthOf(roots) `" ++ [233]%N ++ runes_of_ascii "`,
    @lengthOf(charz)
    @leftPad('0')
    @calculatedFrom(""a\""b"")
    zchar[7] a1 @calculatedFrom(""\" ++ [233]%N ++ runes_of_ascii """) `// not a comment`,
    @lengthOf(lengthOf)
    repeat i16 chars,
    int {
        //	t
        zchar[1] calculatedFrom `line1
                line2`,
        Packet `" ++ [28040; 24687; 31867; 22411]%N ++ runes_of_ascii "`,
    },// " ++ [128512]%N ++ runes_of_ascii " emoji
    @rightPad('\x00')
    zchar[255] repeatCount @calculatedFrom(""\" ++ [233]%N ++ runes_of_ascii """),
    repeat char[] Pad `a\`,
    @lengthOf(pack)
    i8 int,
}")).
Eval vm_compute in ("<<<M1356>>>" ++ check (runes_of_ascii "options {
    StringPrefixLenType = u16;
    ArrayPrefixLenType = u32;
    FixedStringPadFromLeft = true;
    FixedStringPadChar = '0';
}
packet Cancel {
}
packet Party {
}
packet Logon {
}
packet Ack {
}
packet Logout {
    repeat InSym87 {
        InClordid94 {
            string clOrdID,
        },
        string Px,
        i16 Qty,
        repeat InCount71 {
            repeat Cancel,
            uint16 Tail,
            char[2] x,
            repeat string Ref,
        },
        Cancel,
    },
}
root packet Order {
    repeat string tag7,
    @leftPad(' ') char[3] Px,
    u8 Qty,
    match Qty as Body {
        [28, 62] : Logon,
        148 : Ack,
        88 : Party,
        184 : Cancel,
    },
    u16 Note @calculatedFrom(""CR\
C32""),
}
")).
Eval vm_compute in ("<<<M1363>>>" ++ check (runes_of_ascii "options {
    StringPrefixLenType = u8;
    ArrayPrefixLenType = u32;
    FixedStringPadFromLeft = true;
    FixedStringPadChar = ' ';
}
packet Leg {
}
packet Heartbeat {
    zchar[6] msgKind,
    @rightPad('0') char[3] Qty,
    zchar[9] Side2,
    i8 Acct,
}
packet Logout {
    int8 x,
}
packet Order {
    char[] Acct,
    zchar[8] count,
    u32 OrderId,
    uint8 lastPx,
    u16 clOrdID,
    zchar[7] Note,
}
root packet Reject {
    @leftPad(' ') char[8] Side2,
    i8 clOrdID,
    repeat f32 x,
    u32 lastPx,
    match lastPx as Body {
        [30, 147] : Heartbeat,
        134 : Leg,
        183 : Logout,
        40 : Order,
    },
    u16 Ref @calculatedFrom(""CR\
C32""),
}
")).
Eval vm_compute in ("<<<M1767>>>" ++ check (runes_of_ascii "MetaData//	t
    body
    { 
T
	calculatedFrom

    , 
string f32a	`line1
line2`
    ,  leftPad BodyLength
`tab	here`
,

    }options {
}  MetaData

options1

    {

    char[
3 
]
    MetaDataX 
	// " ++ [128512]%N ++ runes_of_ascii " emoji
	/// triple
  	`" ++ [28040; 24687; 31867; 22411]%N ++ runes_of_ascii "`
    ,
    BodyLength
x `
`
	,

u16
    tag `say ""hi""`

    , u8 float ,  float32 As `
`
	,i8i8 
Z9_
`
`	,  }packet u {@tag( 42 )	options1 // c
    o
	`crlf
line`
,
    @calculatedFrom(

""`tick`""

// packet A { u8 x, }
// a // b

  )

repeat
char[]	a1 
	    //x
	,
}

options
	{	uint8x
	=	true
A
	= // `tick` ""quote"" 'q'

7	;	// packet A { u8 x, }

	len
= """ ++ [128512]%N ++ runes_of_ascii """
} ")).
Eval vm_compute in ("<<<M1476>>>" ++ check (runes_of_ascii "packet int {
    // @lengthOf(
    repeat string BodyLength `a\`,
}

packet repeatCount {
    @lengthOf(x_y_z)
    crc,
    match Packet as Z9_ {
        ""// no comment"" : MetaDataX,
        //	t
        // a // b
        [00, 7] : chars,
        ""CRC32"" : zchar,
        42 : stringy,
        [""a\""b"", ""1""] : u,
    },
    @rightPad(' ')
    @lengthOf(i64_)
    repeat f64 x `two words`,
    @calculatedFrom(""`tick`"")
    int64 falsey @lengthOf(u128),
    charz {
        //x
        char[] T `a\`,
    },
    @lengthOf(u8x)
    string_,
    repeat x,
}")).
Eval vm_compute in ("<<<M1761>>>" ++ check (runes_of_ascii "options  {
    ArrayPrefixLenType=  u64	; FixedStringPadFromLeft
	=true ;FixedStringPadChar 
=	'0';

    }
    packet Quote
{ }	packet Ack
	{repeat	InNote66 {
u8  pad0

,	}  ,

    } packet Reject  {}root
    packet
Order  {	Quote  ,
    repeat Reject
, 
string
venue,  string
seqNo

,uint32
Ref  ,u16
    lastPx
    ,

    u32  clOrdID @lengthOf(
    Body)
,
	match
	lastPx
	as
    Body  { 
190
:	Reject
	,	186	: Quote,22:
Ack	, } ,u16  Flags @calculatedFrom(""CR\
C32""

)
    ,}
")).
Eval vm_compute in ("<<<M140>>>" ++ check (runes_of_ascii "
root packet int{	repeat
    float tag , char[] roots
, @lengthOf( repeatCount ) @lengthOf( // packet A { u8 x, }
rootA)
uint16 o
    `tab	here` ,
    //	t
    i16 Pad `line1
line2` , Pad{match Pad as
    _x
{ [00]
:
    Z9_
, } ,} , repeat zchar calculatedFrom`a\` ,	f64 // @lengthOf(
charz
    //x
    ,Pad
    Foo,@calculatedFrom(
    """ ++ [28040; 24687]%N ++ runes_of_ascii """ )
    charz
    @lengthOf( charz ), @lengthOf(
    rootA ) match o
as body {00 :
x_y_z// " ++ [128512]%N ++ runes_of_ascii " emoji
} ,}
")).
Eval vm_compute in ("<<<M1331>>>" ++ check (runes_of_ascii "packet	Frame

{  u8 HK 
,  u8

BK, u8
    TK
,match 
HK as

Hdr
{	1

    :
    HdrA 
,

2 : HdrB
, },	match	BK
as

Body{  1	:

    BodyA ,  2
:

    BodyB 
,}
	, 
match

    TK as Trl {
	1 : TrlA

,} , } packet HdrA { u8 a  ,
}packet
    HdrB 
{ 
u16
    b
	,  }packet BodyA{ u32 c ,
}packet
    BodyB
	{

    u64
d , }
    packet
TrlA  {  u8
e,} root
	packet
Msg

{ Frame
,
    u8

x,} ")).
Eval vm_compute in ("<<<M106>>>" ++ check (runes_of_ascii "MetaData Pad
    {
    i16 repeatCount , // c
f32 pack `a\`,} packet//
f32a {@lengthOf( metadata // a // b
)match msg_type as matchKey
    {
00: rootA ,  }, @rightPad ( ) match repeatCount as len {
    [/// triple
""x y""
// c
//
,
10] : As , 42: i64_""" ++ [128512]%N ++ runes_of_ascii """	: BodyLength
, 7
: f32a  ,
    }
    ,	@lengthOf( BodyLength )	repeat Foo `line1
line2` , } // @lengthOf(")).
Eval vm_compute in ("<<<M1626>>>" ++ check (runes_of_ascii "packet float {
    // c2
    @rightPad()
    // c5a
    // c5b
    rootA @lengthOf(trueish),
    // c10
    stringy @lengthOf(matchKey),// c15a
    // c15b
    char[4294967296] pack @lengthOf(uint8x),
    // c23
}// c24

root packet trueish {
    // c28
    repeat uint64 u128 `line1
        line2`,
    // c33
}
// c34")).
Eval vm_compute in ("<<<M182>>>" ++ check (runes_of_ascii "root packet int {match MetaDataX	as charz
{ 255 :uint8x , 65535 : // @lengthOf(
u128 ""\" ++ [233]%N ++ runes_of_ascii """
:o,0123456789 : _x ""{,}"" :
    matchKey
// `tick` ""quote"" 'q'
// `tick` ""quote"" 'q'
[4294967296 ,"""" ,	10
    ]: charz , }	, @lengthOf( roots
) x @calculatedFrom( ""\n"" )
    , i32
    tag , }")).
Eval vm_compute in ("<<<M1513>>>" ++ check (runes_of_ascii "MetaData BodyLength {
    uint16 leftPad `" ++ [233]%N ++ runes_of_ascii "`,
    uint8x asx,
    len lengthOf `// not a comment`,
    string uint8x `doc`,
}

options {
    i8i8 = 0
    lengthOf = 0123456789;
}

packet uint8x {
    @lengthOf(pack)
    float64 u8x @lengthOf(asx),
}")).
Eval vm_compute in ("<<<M124>>>" ++ check (runes_of_ascii "MetaData Z9_
{zchar[4294967296 ]
    leftPad `u8 x,`,
}
MetaData body { trueish
    len `// not a comment` , }root
packet // @lengthOf(
u8x{ char[ 10 ] x
    @calculatedFrom(
// a // b
// packet A { u8 x, }
""\" ++ [233]%N ++ runes_of_ascii """ ) , }
")).
Eval vm_compute in ("<<<M1508>>>" ++ check (runes_of_ascii "packet A {
    Inner {
        match k as n {
            [
                1, 22, 007, 4, 5,
                66, 7, 8, 9, 10,
                11, 12
            ] : B,
        },
    },
}")).
Eval vm_compute in ("<<<M1760>>>" ++ check (runes_of_ascii "
packet
A 
{
	u8 a
, }	packet
	B

    {
    u16
    b
,	} root 
packet  P{ 
u8
K

, match
    K
as

    M
	{
	[
1	,2 ] 
:
	A  ,3 :
	B
,  7
    : 
A
    ,
}
	,	}")).
Eval vm_compute in ("<<<M187>>>" ++ check (runes_of_ascii "
options// " ++ [27880; 37322]%N ++ runes_of_ascii "
{
f32a= ""a\""b""//x
; Z9_ = // " ++ [27880; 37322]%N ++ runes_of_ascii "
""`tick`""	Logon
    // " ++ [27880; 37322]%N ++ runes_of_ascii "
    =""CRC32""u128= f64 ;rootA	=
false ;} //	t
packet lengthOf {
} MetaData len { }
")).
Eval vm_compute in ("<<<M1698>>>" ++ check (runes_of_ascii "MetaData chars {
}

options {
    As = true;
    As = false;
    stringy = true
}

packet repeatCount {
    string float @lengthOf(matchKey) `say ""hi""`,
}")).
Eval vm_compute in ("<<<M548>>>" ++ check (runes_of_ascii "packet uint8x
{ match pack
    as msg_type	{
    0123456789 :	float
}
,
} packet //	t
a1
    { } options {packetx
    ''= '\x00'	; u128= ""a	b""  ; }
")).
Eval vm_compute in ("<<<M452>>>" ++ check (runes_of_ascii "packet uint8x
{ match pack
    as msg_type	{
    0123456789 :	float
}
}
, packet //	t
a1
    { } options {packetx
    = '\x00'	; u128= ""a	b""  ; }
")).
Eval vm_compute in ("<<<M483>>>" ++ check (runes_of_ascii "packet uint8x
{ match pack
    as msg_type	{
    0123456789 :	float
}
,
} packet //	t
a1
    { } '\x00' {packetx
    = '\x00'	; u128= ""a	b""  ; }
")).
Eval vm_compute in ("<<<M1534>>>" ++ check (runes_of_ascii "
packet 

    // " ++ [27880; 37322]%N ++ runes_of_ascii "
Logon

{
	repeatCount@lengthOf(roots  ) ,
	@tag(0

    ) repeat	zchar[

007] crc
, rootA
    a1	`{ , }`
	,	string_ 
`" ++ [233]%N ++ runes_of_ascii "`
,}")).
Eval vm_compute in ("<<<M120>>>" ++ check (runes_of_ascii "packet float {@calculatedFrom(
// " ++ [128512]%N ++ runes_of_ascii " emoji
// packet A { u8 x, }
""CRC32"" )Foo `" ++ [28040; 24687; 31867; 22411]%N ++ runes_of_ascii "`	,@calculatedFrom( ""a\\"" )
    zchar[ 0 ]	msg_type `doc` , }")).
Eval vm_compute in ("<<<M1641>>>" ++ check (runes_of_ascii "

  packet A
	{
	match

    k
    as 
n  { [""a""
,
    22
,	""c c"" , 4
	, 
""e""
,66  ,
    ""g""
,	8

,

    ""i""
	,10, ""k""
]:B	2 : C	}

,	}")).
Eval vm_compute in ("<<<M649>>>" ++ check (runes_of_ascii "// @lengthOf(
packet i8i8 { u128 o , }
options {  = true;
    BodyLength =""packet"" x_y_z= 007
crc //x
= ""abc"" ;
    msg_type =
i16 }")).
Eval vm_compute in ("<<<M509>>>" ++ check (runes_of_ascii "packet uint8x
{ match pack
    as msg_type	{
    0123456789 :	float
}
,
} packet //	t
a1
    { } options {packetx
    = '\x00'")).
Eval vm_compute in ("<<<M1589>>>" ++ check (runes_of_ascii "packet B {
    u8 a,
}

root packet P {
    u8 K,
    u8 L @lengthOf(Body),
    match K as Body {
        1 : B,
    },
}")).
Eval vm_compute in ("<<<M1164>>>" ++ check (runes_of_ascii "MetaData leftPad { chars MetaDataX , } packet repeatCount { char[
// c
255 ] uint8x `" ++ [233]%N ++ runes_of_ascii "` , } MetaData pack { As Foo , }")).
Eval vm_compute in ("<<<M906>>>" ++ check (runes_of_ascii "packet A {
  match k as n {
    [""a"", ""bb"", ""c c"", ""d"", ""e"", ""f"", ""g"", ""h"", ""i"", ""j"", ""k"", ""l""] : B,
    2 : C
  },
}")).
Eval vm_compute in ("<<<M1244>>>" ++ check (runes_of_ascii "// top
root // c0
packet // c1
P { // c3
repeat // c4
char cs
    // c6
, u8 x // c9a
  // c9b
, }
    // c11
")).
Eval vm_compute in ("<<<M897>>>" ++ check (runes_of_ascii "packet A {
  match k as n {
    [""a"", 22, ""c c"", 4, ""e"", 66, ""g"", 8, ""i"", 10, ""k""] : B,
    2 : C
  },
}")).
Eval vm_compute in ("<<<M950>>>" ++ check (runes_of_ascii "packet A {
    Inner {
        u8 x `x
`,
        Deep {
            u8 y `x
`,
        },
    },
}")).
Eval vm_compute in ("<<<M1>>>" ++ check (runes_of_ascii "MetaData  crc {  Pad T
, zchar[
    0123456789
    ] a1 ,int8 trueish// c
, } packet float{ }
")).
Eval vm_compute in ("<<<M892>>>" ++ check (runes_of_ascii "packet A {
  match k as n {
    [1, 22, 007, 4, 5, 66, 7, 8, 9, 10, 11] : B
    2 : C
  },
}")).
Eval vm_compute in ("<<<M873>>>" ++ check (runes_of_ascii "packet A {
  match k as n {
    [1, 22, ""c c"", 4, 5, ""f"", 7, 8, ""i""] : B,
    2 : C
  },
}")).
Eval vm_compute in ("<<<M617>>>" ++ check (runes_of_ascii "
packet
    asx {match u128 as lengthOf
{
//	t
// `tick` ""quote"" 'q'
255 : x ,
    } 	}")).
Eval vm_compute in ("<<<M1275>>>" ++ check (runes_of_ascii "

  options{ FixedStringPadFromLeft
= 
true 
; }root 
packet  P {char[
    4 ]
z,
	}")).
Eval vm_compute in ("<<<M833>>>" ++ check (runes_of_ascii "packet A {
  match k as n {
    [""a"", 22, ""c c"", 4, ""e"", 66] : B
    2 : C
  },
}")).
Eval vm_compute in ("<<<M820>>>" ++ check (runes_of_ascii "packet A {
  match k as n {
    [""a"", 22, ""c c"", 4, ""e""] : B
    2 : C
  },
}")).
Eval vm_compute in ("<<<M890>>>" ++ check (runes_of_ascii "packet A { Inner { match k as n { [1,22,007,4,5,66,7,8,9,10] : B, }, }, }")).
Eval vm_compute in ("<<<M791>>>" ++ check (runes_of_ascii "packet A {
  match k as n {
    [1, ""bb"", 007] : B,
    2 : C
  },
}")).
Eval vm_compute in ("<<<M1127>>>" ++ check (runes_of_ascii "// top
MetaData
    // c0
u
    // c1
{ // c2a
  // c2b
} // c3
")).
Eval vm_compute in ("<<<M812>>>" ++ check (runes_of_ascii "packet A { Inner { match k as n { [1,22,007,4] : B, }, }, }")).
Eval vm_compute in ("<<<M1953>>>" ++ check (runes_of_ascii "MetaData

M
	{ u8

    x `tab
	x`	,

T  t`tab
	x` , }")).
Eval vm_compute in ("<<<M1211>>>" ++ check (runes_of_ascii "packet body { i32 f32a `{ , }` , // c
} options { }")).
Eval vm_compute in ("<<<M347>>>" ++ check (runes_of_ascii "packet As{
/// triple
// packet A { u8 x, }
}

")).
Eval vm_compute in ("<<<M363>>>" ++ check (runes_of_ascii "MetaData
    // @lengthOf(
    tag {
    }")).
Eval vm_compute in ("<<<M1811>>>" ++ check (runes_of_ascii "packet A {
    u8 x `a
    
    b`,
}")).
Eval vm_compute in ("<<<M105>>>" ++ check (runes_of_ascii "// " ++ [128512]%N ++ runes_of_ascii " emoji
MetaData crc
    {  }")).
Eval vm_compute in ("<<<M988>>>" ++ check (runes_of_ascii "packet A {
 u8 x `d" ++ [160]%N ++ runes_of_ascii "`, // c" ++ [160]%N ++ runes_of_ascii "
}")).
Eval vm_compute in ("<<<M581>>>" ++ check (runes_of_ascii "
packet
    asx {match u128")).
Eval vm_compute in ("<<<M414>>>" ++ check (runes_of_ascii "packet uint8x
{ match")).
Eval vm_compute in ("<<<M20>>>" ++ check (runes_of_ascii "packet MetaDataX { }")).
Eval vm_compute in ("<<<M112>>>" ++ check (runes_of_ascii "packet falsey { }
")).
Eval vm_compute in ("<<<M1051>>>" ++ check (runes_of_ascii "packet A {
}
// c" ++ [65279]%N)).
Eval vm_compute in ("<<<M1224>>>" ++ check (runes_of_ascii "// c
packet x { }")).
Eval vm_compute in ("<<<M404>>>" ++ check (runes_of_ascii "packet uint8x")).
Eval vm_compute in ("<<<M1000>>>" ++ check (runes_of_ascii "// c" ++ [8192]%N)).
Eval vm_compute in ("<<<M731>>>" ++ check (runes_of_ascii "/")).
