From FP Require Import Lexer Parser ShowPT Digest Formatter.
From Coq Require Import String List NArith.
Import ListNotations.
Open Scope string_scope.
Set Printing Width 100000000.
Set Printing Depth 100000000.
Definition show_fres (r : fres) : string :=
  match r with
  | FOk s => "OK:" ++ sh_escaped s ""
  | FErr s => "ERR:" ++ sh_escaped s ""
  | FPanic p => "PANIC:" ++ p
  end.
Definition check (rs : list rune) : string := digest (show_fres (format_res rs)).
Definition full (rs : list rune) : string := show_fres (format_res rs).
Eval vm_compute in ("<<<M1372>>>" ++ check (runes_of_ascii "// top
options // c0a
  // c0b
{ // c1
FixedStringPadFromLeft // c2a
  // c2b
= // c3
true ; // c5a
  // c5b
FixedStringPadChar // c6a
  // c6b
= // c7
'0' // c8
; // c9a
  // c9b
} // c10a
  // c10b
packet // c11
Leg { // c13
repeat InSym93 // c15a
  // c15b
{ // c16a
  // c16b
zchar[ // c17
3 // c18
] // c19a
  // c19b
Acct // c20
, // c21
string Side2 , // c24a
  // c24b
i32 // c25
Flags ,
    // c27
f32 Note // c29a
  // c29b
,
    // c30
i32 // c31
msgKind
    // c32
,
    // c33
} // c34a
  // c34b
, // c35
f64
    // c36
Note // c37
, // c38
uint16
    // c39
Px // c40a
  // c40b
,
    // c41
} // c42
packet Quote
    // c44
{
    // c45
zchar[ // c46a
  // c46b
2 // c47
] // c48a
  // c48b
OrderId // c49a
  // c49b
, }
    // c51
packet // c52a
  // c52b
Ack // c53
{ // c54a
  // c54b
repeat // c55a
  // c55b
string // c56
lastPx
    // c57
,
    // c58
zchar[
    // c59
4 // c60a
  // c60b
]
    // c61
price , uint32 OrderId // c65
, // c66a
  // c66b
Quote // c67
, // c68a
  // c68b
int8
    // c69
Acct // c70a
  // c70b
, } packet
    // c73
Fill // c74
{ // c75
repeat
    // c76
Leg , // c78
@rightPad // c79a
  // c79b
(
    // c80
'0' // c81
) char[ // c83
11
    // c84
] // c85
Note , f64
    // c88
Px
    // c89
, // c90
@rightPad
    // c91
(
    // c92
'\x00' // c93a
  // c93b
)
    // c94
char[ 5 ] Flags // c98a
  // c98b
,
    // c99
zchar[ // c100
9 // c101
] // c102a
  // c102b
x // c103
, // c104a
  // c104b
string
    // c105
msgKind // c106a
  // c106b
,
    // c107
} // c108
root packet // c110
Order // c111
{ Leg
    // c113
,
    // c114
repeat Ack // c116a
  // c116b
, @rightPad
    // c118
( // c119a
  // c119b
'\x00' ) char[
    // c122
3 ] // c124
Side2
    // c125
, // c126
repeat // c127a
  // c127b
char[ // c128a
  // c128b
1 // c129a
  // c129b
] seqNo // c131a
  // c131b
, // c132
u16 // c133
clOrdID // c134
,
    // c135
match // c136a
  // c136b
clOrdID // c137
as // c138a
  // c138b
Body // c139a
  // c139b
{ 198 // c141a
  // c141b
:
    // c142
Leg // c143a
  // c143b
, 23
    // c145
: // c146
Quote
    // c147
, // c148a
  // c148b
13 // c149
:
    // c150
Ack // c151
, // c152a
  // c152b
159 // c153
: // c154
Fill // c155a
  // c155b
, // c156a
  // c156b
} , // c158a
  // c158b
u32 // c159
venue // c160a
  // c160b
@calculatedFrom( ""CRC32"" // c162
) // c163a
  // c163b
, } // c165a
  // c165b
")).
Eval vm_compute in ("<<<M156>>>" ++ check (runes_of_ascii "packet
A { @rightPad ( '0' ) repeat	i8i8
    { zchar[ 007 ]
    packetx,
    metadata `" ++ [28040; 24687; 31867; 22411]%N ++ runes_of_ascii "` ,	repeat float64  T ,}, @tag(0)Z9_ { int
@lengthOf( tag
)`line1
line2`
, repeat i8i8 // packet A { u8 x, }
{  zchar[  00 ]stringy
,
repeat f32a{ match i64_ //
as
    string_ {[ 255 , ""{,}"" , 0123456789 ]
: x_y_z
, """ ++ [233]%N ++ runes_of_ascii "t" ++ [233]%N ++ runes_of_ascii """ : A
, ""`tick`"" : len ,} , } ,
    //
    repeat u8x {u16 Z9_
@calculatedFrom(""" ++ [128512]%N ++ runes_of_ascii """ ) `line1
line2` ,f32 matchKey
    ,} ,// " ++ [27880; 37322]%N ++ runes_of_ascii "
float64 u8x `
`,
    },//
} , // `tick` ""quote"" 'q'
a1	{ repeat
    // trailing space 
    zchar[ 007
] Foo `two words`
,f32a	@calculatedFrom( """ ++ [28040; 24687]%N ++ runes_of_ascii """// trailing space 
) ,int64 i64_  @calculatedFrom( // trailing space 
""`tick`"" ) , } ,
    @lengthOf(
    // c
    Header )	f32
stringy @calculatedFrom(
""x y"" )`say ""hi""` , Foo , float64
BodyLength@calculatedFrom( // " ++ [27880; 37322]%N ++ runes_of_ascii "
""packet"") ,
    uint32
// packet A { u8 x, }
//
int
//
//x
, } packet string_{ @tag( 4294967296
) repeat u
`two words` , repeat zchar[ 0 ]
BodyLength
, @tag( 255 )/// triple
int `line1
line2` ,	uint8x`it's`,@tag(
65535 )
int8
    metadata
`" ++ [233]%N ++ runes_of_ascii "` ,/// triple
match
options1
//x
// " ++ [128512]%N ++ runes_of_ascii " emoji
as
    float// packet A { u8 x, }
{ 3: f32a , """ ++ [28040; 24687]%N ++ runes_of_ascii """
    : charz
,}
,match uint8x	as
string_ { ""CRC32"" //x
:
x
, } , uint8	packetx`crlf
line` ,
@leftPad (
)
    zchar[
0
] Foo `say ""hi""`, }
")).
Eval vm_compute in ("<<<M359>>>" ++ check (runes_of_ascii "root	packet // @lengthOf(
repeatCount {
    @lengthOf(u8x
) @calculatedFrom(""1"" ) @tag( 007 ) repeat zchar[
42 ] Header
    `" ++ [28040; 24687; 31867; 22411]%N ++ runes_of_ascii "` , match options1 as asx
{ 255
    // `tick` ""quote"" 'q'
    :
    roots , }, // a // b
Header
    @lengthOf(
    // a // b
    options1	) `` , Header //	t
@lengthOf(
    len )`{ , }`
, o matchKey `u8 x,` ,} packet packetx {zchar[
255
]
crc
    , }
    packet
    Logon {
    body { float { repeat Logon  trueish ,  } , } ,	@calculatedFrom(
    // `tick` ""quote"" 'q'
    ""`tick`"" ) repeat char[
    0] f32a
,match body
    as
    float {[65535
, """ ++ [28040; 24687]%N ++ runes_of_ascii """
    ] :
calculatedFrom ,}
, u32 float@calculatedFrom(
    """ ++ [233]%N ++ runes_of_ascii "t" ++ [233]%N ++ runes_of_ascii """ // @lengthOf(
)
, string body @lengthOf( len
    )`
` //
, u8x
@calculatedFrom( ""a\""b"")
    //	t
    , //	t
float64 options1@calculatedFrom(""" ++ [128512]%N ++ runes_of_ascii """ )`it's`
    ,
//x
// trailing space 
match crc as chars
    {
3
: options1 // @lengthOf(
, [ 10 ] :_x  [ ""{,}""
] :options1
,[ ""CRC32"", ""a\\""  ,
""a\\"" , ""packet"", 7
    // `tick` ""quote"" 'q'
    ]
:
As
    } , i16 msg_type , }")).
Eval vm_compute in ("<<<M1873>>>" ++ check (runes_of_ascii "options {
    matchKey = ""x y"";
    MetaDataX = '0';
}

packet msg_type {
    @rightPad(' ')
    repeat u128 body,
    match body as pack {
        [""\" ++ [233]%N ++ runes_of_ascii """, ""1""] : BodyLength,
        [
            255, ""a	b"", ""a\\"", ""{,}"", 007,
            007, 0123456789
        ] : options1,
    },
    @leftPad()
    @lengthOf(charz)
    @tag(42)
    o {
        i32 msg_type @lengthOf(A) `doc`,
        zchar[1] charz,// c
        i8 packetx `{ , }`,
        msg_type `crlf
        line`,
    },
    @calculatedFrom(""\" ++ [233]%N ++ runes_of_ascii """)
    Z9_ @calculatedFrom(""" ++ [128512]%N ++ runes_of_ascii """) `tab	here`,
    repeat char[] Foo,
    repeat zchar[0123456789] u128,
}

packet f32a {
    f32a @lengthOf(matchKey),
    @rightPad(' ')
    @lengthOf(chars)
    _x Foo ``,
    match body as body {
        [4294967296, ""packet"", 3, """ ++ [128512]%N ++ runes_of_ascii """, 0123456789] : T,
        [""a\\""] : T,
        ""\n"" : u8x,
    },
}//x

root packet lengthOf {
}")).
Eval vm_compute in ("<<<M362>>>" ++ check (runes_of_ascii "MetaData len
{i8 _x
    //	t
    `` , zchar[ 00 ] tag , roots
u
    // `tick` ""quote"" 'q'
    ,uint16 repeatCount , msg_type tag , } packet x_y_z
    {
metadata { i8i8 chars
,i64
chars , }
, repeat u16 asx
// a // b
// a // b
,
}	packet u8x  { @lengthOf( BodyLength	)	@leftPad(
// a // b
//
)float
    /// triple
    `
` ,
@calculatedFrom( ""// no comment"" ) float32 // " ++ [128512]%N ++ runes_of_ascii " emoji
chars`// not a comment` , uint32
u128 , @tag( 0 )
int16	tag , leftPad
    msg_type , // trailing space 
pack
    `tab	here` ,
@lengthOf(
repeatCount
// c
// c
)zchar[ 4294967296 ] len, i32 packetx`tab	here` , calculatedFrom ,metadata @calculatedFrom(
""// no comment"" ) , } options { // trailing space 
options1 = 42 ; i64_
    // a // b
    = char[] falsey=
// packet A { u8 x, }
//	t
42 // a // b
Packet =
true
;}
")).
Eval vm_compute in ("<<<M1949>>>" ++ check (runes_of_ascii "packet charz {
    //	t
    repeat i64_,
    trueish {
        repeat _x,
        repeatCount,
        repeat u16 matchKey `
                `,
        // " ++ [128512]%N ++ runes_of_ascii " emoji
        // a // b
        matchKey @calculatedFrom(""a\""b"") `it's`,
    },
    @tag(007)
    @calculatedFrom(""a\\"")
    @tag(3)
    f32 f32a @lengthOf(asx) `crlf
        line`,
    repeat i8 string_,
    @lengthOf(Logon)
    @lengthOf(x_y_z)
    @lengthOf(zchar)
    repeat char[65535] Foo `" ++ [233]%N ++ runes_of_ascii "`,
    @calculatedFrom(""abc"")
    trueish @lengthOf(A),
    char[0] float,
    Packet @calculatedFrom(""a	b""),
}

MetaData Pad {
    char[00] leftPad,
    u8 rootA `
        `,
    //
    // " ++ [128512]%N ++ runes_of_ascii " emoji
    int32 a1 `say ""hi""`,
    Z9_ float,//x
    i32 Pad,
}")).
Eval vm_compute in ("<<<M1238>>>" ++ check (runes_of_ascii "// top
options
    // c0
{
    // c1
zchar
    // c2
=
    // c3
true
    // c4
;
    // c5
Pad
    // c6
=
    // c7
char[
    // c8
00
    // c9
]
    // c10
a1
    // c11
=
    // c12
uint32
    // c13
BodyLength
    // c14
=
    // c15
true
    // c16
;
    // c17
}
    // c18
root
    // c19
packet
    // c20
T
    // c21
{
    // c22
@lengthOf(
    // c23
repeatCount
    // c24
)
    // c25
@tag(
    // c26
1
    // c27
)
    // c28
@calculatedFrom(
    // c29
""a	b""
    // c30
)
    // c31
string
    // c32
stringy
    // c33
@calculatedFrom(
    // c34
""\n""
    // c35
)
    // c36
`u8 x,`
    // c37
,
    // c38
}
    // c39
")).
Eval vm_compute in ("<<<M1312>>>" ++ check (runes_of_ascii "// top
options // c0a
  // c0b
{ // c1a
  // c1b
FixedStringPadChar = // c3
'0' ; } packet
    // c7
Q // c8
{ // c9a
  // c9b
zchar[ // c10a
  // c10b
4 // c11
] // c12
z , // c14
@rightPad ( // c16
'\x00' ) // c18a
  // c18b
char[ 3 // c20a
  // c20b
]
    // c21
n ,
    // c23
char[
    // c24
5
    // c25
] // c26
d // c27
, } // c29a
  // c29b
root
    // c30
packet R
    // c32
{ // c33
Q , // c35a
  // c35b
zchar[ 8 // c37
] // c38
top , // c40a
  // c40b
repeat
    // c41
zchar[
    // c42
2
    // c43
] // c44a
  // c44b
zs
    // c45
, // c46a
  // c46b
} // c47
")).
Eval vm_compute in ("<<<M1324>>>" ++ check (runes_of_ascii "// top
root
    // c0
packet Frame
    // c2
{ u8
    // c4
K
    // c5
,
    // c6
Logon
    // c7
first
    // c8
, // c9
match // c10
K // c11a
  // c11b
as
    // c12
Body // c13a
  // c13b
{
    // c14
1 : Logon
    // c17
, // c18a
  // c18b
2
    // c19
: // c20a
  // c20b
Logout ,
    // c22
}
    // c23
, // c24a
  // c24b
} // c25a
  // c25b
packet Logon { string // c29a
  // c29b
user // c30
, // c31
} // c32
packet
    // c33
Logout
    // c34
{ u16 reason , // c38a
  // c38b
} // c39a
  // c39b
")).
Eval vm_compute in ("<<<M301>>>" ++ check (runes_of_ascii "root packet A { repeat uint64 matchKey
    , char[]
    Packet , char[
    007 ] calculatedFrom , }
options{ Header =
007 ;
float =
    true} packet chars { repeat
chars ,@rightPad
    ( '0' ) chars f32a
    `line1
line2`
, int16
u8x , @tag( 4294967296 ) @rightPad
( )
u64 packetx@calculatedFrom(""it's"" )
,
@calculatedFrom( ""\n"" ) o@calculatedFrom(""a\""b"" ), Logon	@lengthOf( BodyLength
    /// triple
    )
// a // b
// packet A { u8 x, }
,}options {
    }
")).
Eval vm_compute in ("<<<M1193>>>" ++ check (runes_of_ascii "// top
MetaData
    // c0
uint8x // c1
{ char[]
    // c3
f32a // c4a
  // c4b
`// not a comment`
    // c5
, // c6a
  // c6b
float32 // c7
roots
    // c8
, // c9
char[ // c10a
  // c10b
7 // c11
] // c12
u8x // c13
, // c14a
  // c14b
zchar[
    // c15
10
    // c16
] // c17
f32a // c18
, // c19a
  // c19b
u64
    // c20
pack // c21a
  // c21b
, u16
    // c23
pack // c24a
  // c24b
,
    // c25
}
    // c26
")).
Eval vm_compute in ("<<<M1139>>>" ++ check (runes_of_ascii "// top
MetaData
    // c0
leftPad
    // c1
{
    // c2
chars
    // c3
MetaDataX
    // c4
,
    // c5
}
    // c6
packet
    // c7
repeatCount
    // c8
{
    // c9
char[
    // c10
255
    // c11
]
    // c12
uint8x
    // c13
`" ++ [233]%N ++ runes_of_ascii "`
    // c14
,
    // c15
}
    // c16
MetaData
    // c17
pack
    // c18
{
    // c19
As
    // c20
Foo
    // c21
,
    // c22
}
    // c23
")).
Eval vm_compute in ("<<<M248>>>" ++ check (runes_of_ascii "packet a1
    { char[]	charz @calculatedFrom(
    //x
    """ ++ [28040; 24687]%N ++ runes_of_ascii """)
,
    uint8x`crlf
line`
    , uint64 T  `line1
line2` ,
    @leftPad (
'0')
// a // b
/// triple
@calculatedFrom( ""abc"" )
@tag( 3 ) match
int // a // b
as len
{ 0	:  chars, [ 10, ""a\\"",
1 ,0 ,10 , 0
    ] : body, 007 :
    // a // b
    rootA // a // b
, } , falsey options1 , }
")).
Eval vm_compute in ("<<<M1661>>>" ++ check (runes_of_ascii "packet float {
    // c2
    @rightPad()
    // c5a
    // c5b
    rootA @lengthOf(trueish),
    // c10
    stringy @lengthOf(matchKey),// c15a
    // c15b
    char[4294967296] pack @lengthOf(uint8x),
    // c23
}// c24

root packet trueish {
    // c28
    repeat uint64 u128 `line1
    line2`,
    // c33
}
// c34")).
Eval vm_compute in ("<<<M215>>>" ++ check (runes_of_ascii "root	packet
    i8i8 { @tag( // c
4294967296 )
    // packet A { u8 x, }
    Header  calculatedFrom `
`
, @tag(4294967296 )
@rightPad ( ' '
    )
@lengthOf( float )
    options1 zchar `" ++ [233]%N ++ runes_of_ascii "`
//x
/// triple
,}	root packet
    // " ++ [128512]%N ++ runes_of_ascii " emoji
    x {repeat
zchar[  10 ]	x`u8 x,`,
    }")).
Eval vm_compute in ("<<<M1698>>>" ++ check (runes_of_ascii "
root packet string_
    { @leftPad  (
    ' '

    )
    chars
{repeat  zchar[ 0 ]
tag
    ,
	string
falsey
    ,	// " ++ [128512]%N ++ runes_of_ascii " emoji
  repeat

char[
007
]  body `two words`
    , } ,
	@calculatedFrom(
""// no comment""  ) Foo
    T ,	// " ++ [128512]%N ++ runes_of_ascii " emoji
    }")).
Eval vm_compute in ("<<<M1795>>>" ++ check (runes_of_ascii "packet trueish {
    @leftPad('0')
    @tag(3)
    @tag(7)
    repeat matchKey {
        u32 u,
    },
    @lengthOf(chars)
    @calculatedFrom(""a	b"")
    @tag(0123456789)
    zchar[255] Pad,
}

root packet u {
}")).
Eval vm_compute in ("<<<M1323>>>" ++ check (runes_of_ascii "root packet Frame {
    u8 K,
    Logon first,
    match K as Body {
        1 : Logon,
        2 : Logout,
    },
}
packet Logon {
    string user,
}
packet Logout {
    u16 reason,
}
")).
Eval vm_compute in ("<<<M1818>>>" ++ check (runes_of_ascii "root packet _x {
    uint32 trueish @calculatedFrom(""1"") `crlf
        line`,
}

//
packet Header {
    repeat u64 stringy `// not a comment`,
    float32 msg_type,
}")).
Eval vm_compute in ("<<<M250>>>" ++ check (runes_of_ascii "MetaData // a // b
o {string Foo
    , }
MetaData  msg_type { Header len `" ++ [28040; 24687; 31867; 22411]%N ++ runes_of_ascii "`
,
    }
options
{ tag
= '0' ;
    o=
""CRC32"" ; Logon = ""`tick`"" ;// a // b
}")).
Eval vm_compute in ("<<<M543>>>" ++ check (runes_of_ascii "packet uint8x
{ mat'1'ch pack
    as msg_type	{
    0123456789 :	float
}
,
} packet //	t
a1
    { } options {packetx
    = '\x00'	; u128= ""a	b""  ; }
")).
Eval vm_compute in ("<<<M538>>>" ++ check (runes_of_ascii "packet uint8x
{ match pack
    as msg_type	{
    0123456789 :	float
}
,
} packet //	t
a1
    { } options {packetx
    = '\x00'	%; u128= ""a	b""  ; }
")).
Eval vm_compute in ("<<<M487>>>" ++ check (runes_of_ascii "packet uint8x
{ match pack
    as msg_type	{
    0123456789 :	float
}
,
} packet //	t
a1
    { } options packetx{
    = '\x00'	; u128= ""a	b""  ; }
")).
Eval vm_compute in ("<<<M1748>>>" ++ check (runes_of_ascii "packet A {
    match k as n {
        [
            ""a"", ""bb"", ""c c"", ""d"", ""e"",
            ""f"", ""g"", ""h"", ""i""
        ] : B,
        2 : C,
    },
}")).
Eval vm_compute in ("<<<M665>>>" ++ check (runes_of_ascii "// @lengthOf(
packet i8i8 { u128 o , }
options { MetaDataX = true;
    BodyLength =""packet"" x_y_z= 007
crc //x
= ""abc"" ; ;
    msg_type =
i16 }")).
Eval vm_compute in ("<<<M675>>>" ++ check (runes_of_ascii "// @lengthOf(
packet i8i8 { u128 o , }
options { MetaDataX true =;
    BodyLength =""packet"" x_y_z= 007
crc //x
= ""abc"" ;
    msg_type =
i16 }")).
Eval vm_compute in ("<<<M98>>>" ++ check (runes_of_ascii "
packet stringy {
}
MetaData u8x	{ zchar[ 65535
    // a // b
    ] Pad ,stringy string_
`u8 x,` ,	u8 lengthOf`
` , char[ 255
] pack , } 	 ")).
Eval vm_compute in ("<<<M1899>>>" ++ check (runes_of_ascii "
packet
A
{match
	k

    as
	n	{[ ""a""
,
	""bb""  ,""c c""	, ""d""
, ""e""  , ""f""
    ,	""g""
    , ""h"" , ""i""	,
""j"" ] 
:B, 
2 :
	C
	} ,}
")).
Eval vm_compute in ("<<<M1900>>>" ++ check (runes_of_ascii "
packet
A

    {  match k
as

n  {

[""a""

    ,

    ""bb"",

    ""c c""
	,""d""

    ,  ""e""
    ]: 
B, 
2
	:
	C	} 
, }

")).
Eval vm_compute in ("<<<M1948>>>" ++ check (runes_of_ascii "packet A {
    u16 len @lengthOf(body) `
        `,
    u32 crc @calculatedFrom(""CRC32"") `
        `,
    string body,
}")).
Eval vm_compute in ("<<<M1165>>>" ++ check (runes_of_ascii "MetaData leftPad { chars MetaDataX , } packet repeatCount { char[ 255 // c
] uint8x `" ++ [233]%N ++ runes_of_ascii "` , } MetaData pack { As Foo , }")).
Eval vm_compute in ("<<<M499>>>" ++ check (runes_of_ascii "packet uint8x
{ match pack
    as msg_type	{
    0123456789 :	float
}
,
} packet //	t
a1
    { } options {packetx")).
Eval vm_compute in ("<<<M25>>>" ++ check (runes_of_ascii "packet stringy	{
    } // packet A { u8 x, }
packet
    u128
    { u16 len@lengthOf( u128)	,
    //x
    }
")).
Eval vm_compute in ("<<<M898>>>" ++ check (runes_of_ascii "packet A {
  match k as n {
    [""a"", 22, ""c c"", 4, ""e"", 66, ""g"", 8, ""i"", 10, ""k""] : B
    2 : C
  },
}")).
Eval vm_compute in ("<<<M583>>>" ++ check (runes_of_ascii "
packet
    asx {match u128 as lengthOf lengthOf
{
//	t
// `tick` ""quote"" 'q'
255 : x ,
    } ,	}")).
Eval vm_compute in ("<<<M1756>>>" ++ check (runes_of_ascii "
packet
    order_item

    {u8  a  ,  }
    root

packet	new_order {

order_item  ,u8
x, }
")).
Eval vm_compute in ("<<<M226>>>" ++ check (runes_of_ascii "// a // b
packet Pad {
    char[] // packet A { u8 x, }
Z9_ @lengthOf( Pad
) `{ , }` , } 	 ")).
Eval vm_compute in ("<<<M644>>>" ++ check (runes_of_ascii "
packet
    asx {match u128 as lengthOf
{
//	t
// `tick` ""quote"" 'q'
255 : x" ++ [178]%N ++ runes_of_ascii " ,
    } ,	}")).
Eval vm_compute in ("<<<M602>>>" ++ check (runes_of_ascii "
packet
    asx {match u128 as lengthOf
{
//	t
// `tick` ""quote"" 'q'
255 :  ,
    } ,	}")).
Eval vm_compute in ("<<<M865>>>" ++ check (runes_of_ascii "packet A {
  match k as n {
    [1, 22, 007, 4, 5, 66, 7, 8, 9] : B,
    2 : C
  },
}")).
Eval vm_compute in ("<<<M690>>>" ++ check (runes_of_ascii "// @lengthOf(
packet i8i8 { u128 o , }
options { MetaDataX = true;
    BodyLength")).
Eval vm_compute in ("<<<M819>>>" ++ check (runes_of_ascii "packet A {
  match k as n {
    [""a"", 22, ""c c"", 4, ""e""] : B,
    2 : C
  },
}")).
Eval vm_compute in ("<<<M1954>>>" ++ check (runes_of_ascii "options {
    lengthOf = 3
    trueish = true;
    calculatedFrom = 007;
}")).
Eval vm_compute in ("<<<M798>>>" ++ check (runes_of_ascii "packet A {
  match k as n {
    [""a"", ""bb"", 007] : B
    2 : C
  },
}")).
Eval vm_compute in ("<<<M781>>>" ++ check (runes_of_ascii "packet A {
  match k as n {
    [""a"", ""bb""] : B
    2 : C
  },
}")).
Eval vm_compute in ("<<<M439>>>" ++ check (runes_of_ascii "packet uint8x
{ match pack
    as msg_type	{
    0123456789")).
Eval vm_compute in ("<<<M27>>>" ++ check (runes_of_ascii "options{Logon = """ ++ [28040; 24687]%N ++ runes_of_ascii """
    ; BodyLength =
    false
; }
")).
Eval vm_compute in ("<<<M1205>>>" ++ check (runes_of_ascii "packet body { i32 // c
f32a `{ , }` , } options { }")).
Eval vm_compute in ("<<<M1257>>>" ++ check (runes_of_ascii "
root	packet

P	{
	hdr {u8  a,
}  ,u8 
x , 
}
")).
Eval vm_compute in ("<<<M724>>>" ++ check (runes_of_ascii "// @lengthOf(
packet i8i8 { u128 o , }
opt")).
Eval vm_compute in ("<<<M1729>>>" ++ check (runes_of_ascii "// top
MetaData u {
    // c2
}
// c3")).
Eval vm_compute in ("<<<M1620>>>" ++ check (runes_of_ascii "// top
packet x {
    // c2
}// c3")).
Eval vm_compute in ("<<<M1849>>>" ++ check (runes_of_ascii "packet A {
    u8 x `x
    `,
}")).
Eval vm_compute in ("<<<M83>>>" ++ check (runes_of_ascii "
options{ options1 =	7 ;
}
")).
Eval vm_compute in ("<<<M1478>>>" ++ check (runes_of_ascii "packet 
A {

}  // c" ++ [5760]%N ++ runes_of_ascii "
 
")).
Eval vm_compute in ("<<<M1069>>>" ++ check (runes_of_ascii "// a// bpacket A {}")).
Eval vm_compute in ("<<<M1438>>>" ++ check (runes_of_ascii "// c
MetaData u {
}")).
Eval vm_compute in ("<<<M1036>>>" ++ check (runes_of_ascii "packet A {
}
// c" ++ [12]%N)).
Eval vm_compute in ("<<<M1029>>>" ++ check (runes_of_ascii "packet A {
}// c" ++ [11]%N)).
Eval vm_compute in ("<<<M712>>>" ++ check (runes_of_ascii "// @lengthOf(
")).
Eval vm_compute in ("<<<M975>>>" ++ check (runes_of_ascii "// c ")).
Eval vm_compute in ("<<<M737>>>" ++ check ([1875; 65533]%N)).
