From FP Require Import Lexer Parser ShowPT Digest Formatter.
From Coq Require Import String List NArith.
Import ListNotations.
Open Scope string_scope.
Set Printing Width 100000000.
Set Printing Depth 100000000.
Definition show_fres (r : fres) : string :=
  match r with
  | FOk s => "OK:" ++ sh_escaped s ""
  | FErr s => "ERR:" ++ sh_escaped s ""
  | FPanic p => "PANIC:" ++ p
  end.
Definition check (rs : list rune) : string := digest (show_fres (format_res rs)).
Definition full (rs : list rune) : string := show_fres (format_res rs).
Eval vm_compute in ("<<<M1909>>>" ++ check (runes_of_ascii "

  options
{ MetaDataX  =
        // packet A { u8 x, }
    // `tick` ""quote"" 'q'
true
}  root 
  // `tick` ""quote"" 'q'
	  /// triple

  packet
	u8x{
repeat  uint16 u8x
`" ++ [28040; 24687; 31867; 22411]%N ++ runes_of_ascii "`

,
@tag( 	 //

	42 
    // " ++ [128512]%N ++ runes_of_ascii " emoji
	  /// triple
  	)
	char[  /// triple
	7]
	trueish 
@lengthOf( 
	// " ++ [27880; 37322]%N ++ runes_of_ascii "
    Pad )  ,

tag	@lengthOf( 
A
)

`say ""hi""` , float
	rootA , 	 // " ++ [27880; 37322]%N ++ runes_of_ascii "
    	Foo ,
	repeat uint32

    calculatedFrom,
    }root
    packet
u128{ 
repeat

    Packet 
metadata
    , repeat

    zchar[
0123456789
]
    len `u8 x,`
, f32
BodyLength 
@lengthOf(Z9_
)

    `it's`
    , match 
crc 
as  Packet {	0 

//x
  //x
  	:	i64_,	[ 
255]

    :  rootA ,[ ""a	b"" ,	""\" ++ [233]%N ++ runes_of_ascii """
    ,""\" ++ [233]%N ++ runes_of_ascii """
,  // `tick` ""quote"" 'q'
    0	/// triple
    	,

4294967296 ]  :	i8i8 
,
	} 
,
	@tag(1
) @calculatedFrom( ""\" ++ [233]%N ++ runes_of_ascii """ )

    string f32a
    @calculatedFrom( 
""abc"" 
)  ,repeat  As {matchKey

{crc

    /// triple
  @calculatedFrom(
""// no comment""	//x

	),
    } 
,
lengthOf//

	`crlf
line`
	    // packet A { u8 x, }
, 

    // a // b
// a // b
    T	//
  	Pad  `a\`
	,
    repeat i8i8

    charz  ,// a // b
    	}
,

    } 
packet

    packetx

    {

@lengthOf(  Packet)
repeat
uint8x
	    //

  // " ++ [128512]%N ++ runes_of_ascii " emoji
  `line1
line2`
    ,  @tag(	0123456789
	)
	string	BodyLength
	@calculatedFrom(
""" ++ [28040; 24687]%N ++ runes_of_ascii """)
    ,	// trailing space 

zchar[
    42
    ]
MetaDataX 
      //
  ,  char  A
    @lengthOf(
/// triple

	tag	) `two words`
	,
@tag(10) @calculatedFrom(

""" ++ [28040; 24687]%N ++ runes_of_ascii """ 
    // `tick` ""quote"" 'q'
//x
)  @calculatedFrom(
""x y"") char[ 
7	]
	repeatCount@calculatedFrom(
""// no comment""

) , @calculatedFrom(	""it's""
    ) char[
65535
	]
packetx 
`// not a comment`

    , @leftPad 	 //	t
(

' '

)match 
tag
as  packetx

    {  00

    : 
int ,  }
, @tag( 7 
    //
// " ++ [128512]%N ++ runes_of_ascii " emoji
    )
@lengthOf(
// @lengthOf(
  	float

)
    @tag(

0123456789 )

    Z9_
	, 
@tag(// c
	00  ) 
tag
	{ uint16 
MetaDataX ,  u tag

`tab	here`	,float64
	Packet
	@calculatedFrom(""{,}""
    )

, 
x_y_z

u128

,
}  ,char[]

msg_type

    @lengthOf( calculatedFrom ) `line1
line2`,

    }
MetaData // " ++ [27880; 37322]%N ++ runes_of_ascii "

  float{ uint32 
crc
, charz msg_type
,  u128
crc	,string 
stringy

    `" ++ [233]%N ++ runes_of_ascii "` ,
}
")).
Eval vm_compute in ("<<<M386>>>" ++ check (runes_of_ascii "options {
    StringPrefixLenType = u16;
    ArrayPrefixLenType = u16;
}

packet SampleBinary {
    uint16 MsgType `" ++ [28040; 24687; 31867; 22411]%N ++ runes_of_ascii "`,
    u16 BodyLenght @lengthOf(Body) `" ++ [28040; 24687; 20307; 38271; 24230]%N ++ runes_of_ascii "`,
    match MsgType as Body {
        1 : Logon,
        2 : Logout,
        3 : Heartbeat,
        4 : RiskControlRequest,
        5 : RiskControlResponse,
    },
    @calculatedFrom(""CRC32"")
    u32 Ckecksum `" ++ [26657; 39564; 21644]%N ++ runes_of_ascii "`,
}

packet Logon {
    @leftPad('0')
    char[10] UserName `" ++ [29992; 25143; 21517]%N ++ runes_of_ascii "`,
    string Password `" ++ [23494; 30721]%N ++ runes_of_ascii "`,
    uint64 ClientId `" ++ [23458; 25143; 31471]%N ++ runes_of_ascii "ID`,
    u16 HeartbeatInterval `" ++ [24515; 36339; 38388; 38548]%N ++ runes_of_ascii "`,
}

packet Logout {
    @rightPad('0')
    char[10] UserName `" ++ [29992; 25143; 21517]%N ++ runes_of_ascii "`,
    uint64 ClientId `" ++ [23458; 25143; 31471]%N ++ runes_of_ascii "ID`,
}

packet Heartbeat {
}

packet RiskControlRequest {
    string UniqueOrderId `" ++ [21807; 19968; 35746; 21333; 21495]%N ++ runes_of_ascii "`,
    char[16] ClOrdID `" ++ [23458; 25143; 35746; 21333; 21495]%N ++ runes_of_ascii "`,
    char[3] MarketID `" ++ [24066; 22330]%N ++ runes_of_ascii "id`,
    char[12] SecurityID `" ++ [35777; 21048; 20195; 30721]%N ++ runes_of_ascii "`,
    char Side `" ++ [20080; 21334; 26041; 21521]%N ++ runes_of_ascii "`,
    char OrderType `" ++ [35746; 21333; 31867; 22411]%N ++ runes_of_ascii "`,
    u64 Price `" ++ [20215; 26684]%N ++ runes_of_ascii "`,
    u32 Qty `" ++ [25968; 37327]%N ++ runes_of_ascii "`,
    repeat string ExtraInfo `" ++ [38468; 21152; 20449; 24687]%N ++ runes_of_ascii "`,
    repeat SubOrder {
        char[16] ClOrdID `" ++ [23376; 35746; 21333; 21495]%N ++ runes_of_ascii "`,
        u64 Price `" ++ [23376; 35746; 21333; 20215; 26684]%N ++ runes_of_ascii "`,
        u32 Qty `" ++ [23376; 35746; 21333; 25968; 37327]%N ++ runes_of_ascii "`,
    },
}

packet RiskControlResponse {
    string UniqueOrderId `" ++ [21807; 19968; 35746; 21333; 21495]%N ++ runes_of_ascii "`,
    i32 Status `" ++ [29366; 24577]%N ++ runes_of_ascii "`,
    string Msg `" ++ [32467; 26524; 20449; 24687]%N ++ runes_of_ascii "`,
    repeat Detail,
}

packet Detail {
    string RuleName `" ++ [35268; 21017; 21517; 31216]%N ++ runes_of_ascii "`,
    u16 Code `" ++ [21407; 22240; 20195; 30721]%N ++ runes_of_ascii "`,
}")).
Eval vm_compute in ("<<<M331>>>" ++ check (runes_of_ascii "packet o
// trailing space 
//x
{	repeat pack stringy `two words`	,
    char[	1 ]
leftPad , }
/// triple
// @lengthOf(
MetaData msg_type{ zchar[  1] Pad`" ++ [28040; 24687; 31867; 22411]%N ++ runes_of_ascii "` , uint32 //x
charz//
`a\`
,  A u8x `// not a comment` ,
    // `tick` ""quote"" 'q'
    } packet
options1
    {@calculatedFrom( """ ++ [233]%N ++ runes_of_ascii "t" ++ [233]%N ++ runes_of_ascii """
) @rightPad( )
Pad
@lengthOf(// packet A { u8 x, }
pack ) `` ,
match
    A
as
    a1 { 255  :
msg_type  ,
}
,
// " ++ [27880; 37322]%N ++ runes_of_ascii "
//
@lengthOf( tag )  @tag( 00 )@rightPad(' '
) match Header	as f32a { """" : float , } // @lengthOf(
, char[] T@calculatedFrom(
    // packet A { u8 x, }
    ""packet""	) , repeat asx /// triple
msg_type`crlf
line` , @calculatedFrom( ""\" ++ [233]%N ++ runes_of_ascii """ ) @tag( // trailing space 
7
)
int64 o
`line1
line2`,
    // trailing space 
    } // " ++ [128512]%N ++ runes_of_ascii " emoji
root
packet// packet A { u8 x, }
crc  { int8
body
@lengthOf( matchKey ) `two words` ,
    //	t
    @lengthOf( u8x )
zchar[
0123456789
    ] i8i8,
} MetaData  a1 { falsey _x
`
` ,
char[] body`" ++ [28040; 24687; 31867; 22411]%N ++ runes_of_ascii "` ,
// packet A { u8 x, }
//
zchar[ 42] trueish `
` , float trueish,  metadata //x
o `{ , }`, }")).
Eval vm_compute in ("<<<M1343>>>" ++ check (runes_of_ascii "  options { 
StringPrefixLenType
= u64

; ArrayPrefixLenType=	u32
    ;  FixedStringPadFromLeft =
    false
;
    } packet
Party{ 
zchar[
7]OrderId
, InTail6{

    repeat
char[
1  ] 
msgKind	,char[

    3]
Tail ,char[ 
3 ]

    Flags	,
i16
tag7	, 
}

,@rightPad

    ('0'
)

    char[

12 ]clOrdID
	,}
	packet	Quote
    {@leftPad
('0' 
)
    char[
	11]
price ,repeat  InCount7  { i32
    x
,Party,u8  Ref

    , u8 tag7
, 
} ,
	char[]	seqNo
	,

    Party, } packet  Logon
{@rightPad(

    '\x00'
	)
char[
    5

]
	Note,

i16
    sym

    ,InPrice72{char[	9 ]  Ref
, zchar[ 1 ]
    venue , } ,
    char[]

    clOrdID 
,	}
	root
packet
Reject {
    repeat Logon

,
@leftPad	( ' '
	)
    char[
4
] seqNo,
zchar[ 5]
    Acct

    ,
	u32

    x,
    u16
	f1	@lengthOf(

Body )	, match

x

as
Body
{
[169,	74
	] 
:
Quote
, 
45 :
Party,7

:

    Logon 
, }

    , }
")).
Eval vm_compute in ("<<<M1362>>>" ++ check (runes_of_ascii "options {
    FixedStringPadFromLeft = true;
    FixedStringPadChar = '0';
}
packet Leg {
    repeat InSym93 {
        zchar[3] Acct,
        string Side2,
        i32 Flags,
        f32 Note,
        i32 msgKind,
    },
    f64 Note,
    uint16 Px,
}
packet Quote {
    zchar[2] OrderId,
}
packet Ack {
    repeat string lastPx,
    zchar[4] price,
    uint32 OrderId,
    Quote,
    int8 Acct,
}
packet Fill {
    repeat Leg,
    @rightPad('0') char[11] Note,
    f64 Px,
    @rightPad('\x00') char[5] Flags,
    zchar[9] x,
    string msgKind,
}
root packet Order {
    Leg,
    repeat Ack,
    @rightPad('\x00') char[3] Side2,
    repeat char[1] seqNo,
    u16 clOrdID,
    match clOrdID as Body {
        198 : Leg,
        23 : Quote,
        13 : Ack,
        159 : Fill,
    },
    u32 venue @calculatedFrom(""CR\
C32""),
}
")).
Eval vm_compute in ("<<<M1924>>>" ++ check (runes_of_ascii "
// packet A { u8 x, }
    MetaData

_x{ //
    char[]

    len ,

    }

options 
    // @lengthOf(
  //
	  {
repeatCount	= """";  } // c

root packet
chars{char[
    255
] u8x
	, repeat 

    /// triple

	// c
	string repeatCount
	`" ++ [28040; 24687; 31867; 22411]%N ++ runes_of_ascii "`
	, repeat zchar[	10 ]
	string_
    , @tag(	// trailing space 
      255 )
    i8i8	{// packet A { u8 x, }
options1
	calculatedFrom	`u8 x,` ,i64 
len,	roots// c

	{  // @lengthOf(
	  repeat

// a // b
	i64_ zchar 	 //
    , }
,}

    , 
match 
chars as 
Packet{""a\""b"" :Pad  , [
    ""{,}""]

    : 
calculatedFrom  // a // b
	  , """ ++ [233]%N ++ runes_of_ascii "t" ++ [233]%N ++ runes_of_ascii """ 
      //x
// `tick` ""quote"" 'q'
    :
uint8x
,
[ // packet A { u8 x, }
	""`tick`""

,

    0,	42
	]	:_x
	[0123456789,""\" ++ [233]%N ++ runes_of_ascii """

    ]

    : i8i8
,
	}
,

} ")).
Eval vm_compute in ("<<<M1315>>>" ++ check (runes_of_ascii "// top
packet // c0
MDSnapshotZZ // c1a
  // c1b
{ // c2
u8 a // c4
, // c5a
  // c5b
} // c6
packet OrderACK // c8
{ // c9a
  // c9b
u16 b // c11
,
    // c12
} // c13a
  // c13b
packet
    // c14
HTTPServerInfo
    // c15
{ // c16
string s
    // c18
,
    // c19
}
    // c20
root // c21a
  // c21b
packet // c22
FIXMsg // c23
{ u8 // c25a
  // c25b
KType // c26a
  // c26b
, // c27a
  // c27b
MDSnapshotZZ
    // c28
, // c29a
  // c29b
repeat
    // c30
OrderACK , // c32a
  // c32b
match // c33
KType as // c35a
  // c35b
Body // c36
{
    // c37
1 :
    // c39
HTTPServerInfo , 2 // c42
:
    // c43
OrderACK
    // c44
, } // c46a
  // c46b
,
    // c47
} // c48a
  // c48b
")).
Eval vm_compute in ("<<<M1409>>>" ++ check (runes_of_ascii "root packet asx {
    @rightPad(' ')
    @lengthOf(int)
    @tag(0)
    u64 uint8x @calculatedFrom(""packet""),
    uint32 i64_,
    // c
    repeat options1 o,
    match f32a as falsey {
        42 : stringy,
        10 : As,
        """" : Packet,
    },
    @calculatedFrom(""it's"")
    // " ++ [128512]%N ++ runes_of_ascii " emoji
    f64 a1,
    @lengthOf(tag)
    match roots as MetaDataX {
        """ ++ [128512]%N ++ runes_of_ascii """ : f32a,
        ""\n"" : As,
        [255] : A,
    },
    a1 @calculatedFrom(""abc"") ``,
    @rightPad()
    @rightPad('\x00')
    @calculatedFrom(""CRC32"")
    body As,
}

root packet packetx {
    //x
    //
    repeat lengthOf Logon `" ++ [28040; 24687; 31867; 22411]%N ++ runes_of_ascii "`,//	t
}")).
Eval vm_compute in ("<<<M1339>>>" ++ check (runes_of_ascii "  options

{ ArrayPrefixLenType

    =  u64
;FixedStringPadFromLeft
	=true

;
    FixedStringPadChar  = '0'

;

}

packet
Quote{	} 
packet  Ack

    { repeat 
InNote66
    {
    u8 
pad0  ,
    }
    ,
    }	packet 
Reject 
{
}root
    packet
    Order{Quote

    ,repeat
	Reject 
, string
    venue

    ,

    string

seqNo , 
uint32

    Ref , 
u16 lastPx  ,
u32 
clOrdID 
@lengthOf(  Body  ) 
,
match
lastPx as	Body{
    190 
:Reject

    ,
186:Quote
    ,
	22
:	Ack
,
}
,
    u16  Flags @calculatedFrom(

""CRC32""
	)

    , }")).
Eval vm_compute in ("<<<M210>>>" ++ check (runes_of_ascii "MetaData tag {
//
//
char[// a // b
3 ] // a // b
msg_type
    // c
    , char[7 ] options1
,
    // trailing space 
    float crc
,calculatedFrom pack ,int64 u  `a\`,}
packet leftPad{char[
    1
]
    /// triple
    zchar
,
    //
    } packet crc { // c
@lengthOf( packetx	) @lengthOf( asx)
@lengthOf( packetx ) calculatedFrom {	f32 packetx	``
// packet A { u8 x, }
//x
, },
} options { Z9_
= ""\" ++ [233]%N ++ runes_of_ascii """
    // a // b
    float = ' ' ; packetx = ""x y""
    calculatedFrom  = int16
    ;
}")).
Eval vm_compute in ("<<<M161>>>" ++ check (runes_of_ascii "packet rootA{ options1 _x , u64
    Header , } packet lengthOf {
    @rightPad ( ' '	)
@lengthOf( u128 // trailing space 
)	@calculatedFrom(	""a\""b"" )  A {string i64_	`it's`,
//	t
// trailing space 
uint8
body
, match pack as u {
// @lengthOf(
// trailing space 
00 : charz , 00: int ,3
: falsey 255 :body
    ,
[0123456789 ] :x_y_z ,
// a // b
//
}
,
} ,
} MetaData chars{ u128
    zchar , char[ 42  ]
// a // b
// a // b
metadata
    , }
")).
Eval vm_compute in ("<<<M1858>>>" ++ check (runes_of_ascii "packet metadata {
    //	t
    float64 body @lengthOf(calculatedFrom),// a // b
    @tag(42)
    rootA,
    x_y_z u8x `// not a comment`,
    @lengthOf(Pad)
    match packetx as leftPad {
        //
        65535 : tag,
        """ ++ [128512]%N ++ runes_of_ascii """ : _x,
    },
    x_y_z metadata,
    @tag(7)
    int64 zchar @lengthOf(repeatCount) `" ++ [233]%N ++ runes_of_ascii "`,
    @tag(0123456789)
    repeat float chars,
    f32 MetaDataX,
}")).
Eval vm_compute in ("<<<M1674>>>" ++ check (runes_of_ascii "
// top

MetaData // c0
  	leftPad // c1
  { // c2
chars	// c3
	MetaDataX  // c4
	,  // c5
  }	// c6
      packet	// c7
	repeatCount  // c8
	{  // c9
char[ 	 // c10
	255 	 // c11
	] // c12
      uint8x  // c13
    `" ++ [233]%N ++ runes_of_ascii "` // c14
	, // c15

} // c16
    	MetaData// c17
	  pack	// c18
  { 	 // c19
    As	// c20
  Foo // c21

,	// c22
    }// c23")).
Eval vm_compute in ("<<<M1919>>>" ++ check (runes_of_ascii "  packet
    A
{ u8 a	,  }

packet

    B
{
    u16
	b  ,

}
packet

    C {
u32
    c

    ,
}root 
packet

M
	{ u16 
Kc

    ,
u16
    Kb

, u16 Ka,
match 
Kc

as
X 
{ 9 : A  ,
10 :B
	,
}
	, match Kb  as Y 
{ 
2:
	C

,
	1 
:A
,
} ,
match
    Ka	as

    Z{
1
:	B

,  } , 
A

, 
B ,

    C , }

")).
Eval vm_compute in ("<<<M89>>>" ++ check (runes_of_ascii "packet Foo // " ++ [128512]%N ++ runes_of_ascii " emoji
{@lengthOf( f32a )
char[
0123456789 //	t
] float `u8 x,` ,}
    packet // a // b
i64_ {@lengthOf(stringy // packet A { u8 x, }
)
    char[] int @calculatedFrom(""{,}"" ) ,@tag(
007 ) //
int64
stringy`" ++ [233]%N ++ runes_of_ascii "` ,  char[]A @calculatedFrom(
""\" ++ [233]%N ++ runes_of_ascii """
    )	`doc` ,// " ++ [27880; 37322]%N ++ runes_of_ascii "
}
")).
Eval vm_compute in ("<<<M1253>>>" ++ check (runes_of_ascii "// top
packet // c0
Inner // c1
{ // c2
u8 // c3a
  // c3b
a // c4
,
    // c5
} // c6
root // c7
packet // c8a
  // c8b
P // c9
{ // c10a
  // c10b
repeat // c11a
  // c11b
Inner items // c13
, // c14
u8
    // c15
x , // c17a
  // c17b
} // c18
")).
Eval vm_compute in ("<<<M1569>>>" ++ check (runes_of_ascii "
// top
	  root  // c0
	packet 
P 	 // c2
  {  // c3
	  hdr
// c4
{ 
    // c5
		u8	// c6
  a  // c7a
// c7b
    ,  
      // c8
}
    , 	 // c10
  u8// c11
    	x // c12a
		// c12b

,

} 
        // c14")).
Eval vm_compute in ("<<<M121>>>" ++ check (runes_of_ascii "packet u128 { @calculatedFrom(  ""a	b"" ) // packet A { u8 x, }
@leftPad( ' '
) //	t
@lengthOf(
Header // packet A { u8 x, }
) char[10
    ] crc@lengthOf(
len ) , } MetaData i8i8 { }
")).
Eval vm_compute in ("<<<M1416>>>" ++ check (runes_of_ascii "// top
MetaData leftPad {
    chars MetaDataX,
}

// c6
packet repeatCount {
    // c9
    char[255] uint8x `" ++ [233]%N ++ runes_of_ascii "`,// c15
}// c16

MetaData pack {
    As Foo,
}// c23")).
Eval vm_compute in ("<<<M195>>>" ++ check (runes_of_ascii "MetaData msg_type {} root packet
A{ repeat i32 leftPad
`it's`
,
    //x
    }  root
    packet a1
    {char[
    // c
    255 ]
    falsey // @lengthOf(
, }")).
Eval vm_compute in ("<<<M150>>>" ++ check (runes_of_ascii "packet
    //	t
    Logon {
metadata
@calculatedFrom( ""a\\"" ) , @tag( 42 ) // " ++ [128512]%N ++ runes_of_ascii " emoji
@tag(	65535 )
repeat u16 o `line1
line2` ,
} packet float { }

")).
Eval vm_compute in ("<<<M547>>>" ++ check (runes_of_ascii "%packet uint8x
{ match pack
    as msg_type	{
    0123456789 :	float
}
,
} packet //	t
a1
    { } options {packetx
    = '\x00'	; u128= ""a	b""  ; }
")).
Eval vm_compute in ("<<<M498>>>" ++ check (runes_of_ascii "packet uint8x
{ match pack
    as msg_type	{
    0123456789 :	float
}
,
} packet //	t
a1
    { } options {packetx
    ; '\x00'	; u128= ""a	b""  ; }
")).
Eval vm_compute in ("<<<M272>>>" ++ check (runes_of_ascii "packet _x	{ } packet BodyLength { int64
Packet
@lengthOf( float ),
options1 /// triple
{rootA x	, u8
Packet @calculatedFrom( """ ++ [28040; 24687]%N ++ runes_of_ascii """) `it's`  ,
} , }")).
Eval vm_compute in ("<<<M674>>>" ++ check (runes_of_ascii "// @lengthOf(
packet i8i8 { { u128 o , }
options { MetaDataX = true;
    BodyLength =""packet"" x_y_z= 007
crc //x
= ""abc"" ;
    msg_type =
i16 }")).
Eval vm_compute in ("<<<M675>>>" ++ check (runes_of_ascii "// @lengthOf(
packet i8i8 { u128 o , }
options { MetaDataX true =;
    BodyLength =""packet"" x_y_z= 007
crc //x
= ""abc"" ;
    msg_type =
i16 }")).
Eval vm_compute in ("<<<M1500>>>" ++ check (runes_of_ascii "packet A {
    Inner {
        u8 x `x
                `,
        Deep {
            u8 y `x
                        `,
        },
    },
}")).
Eval vm_compute in ("<<<M1837>>>" ++ check (runes_of_ascii "packet u128 {
    @calculatedFrom(""a	b"")
    @leftPad(' ')
    @lengthOf(Header)
    char[10] crc @lengthOf(len),
}

MetaData i8i8 {
}")).
Eval vm_compute in ("<<<M1844>>>" ++ check (runes_of_ascii "packet B

{u8
a
,	}root packet

    P

    {
	u8 K ,u8  L@lengthOf( Body
) ,match K as  Body {1
	:

B,
}

    ,	}

")).
Eval vm_compute in ("<<<M1150>>>" ++ check (runes_of_ascii "MetaData leftPad { chars
// c
MetaDataX , } packet repeatCount { char[ 255 ] uint8x `" ++ [233]%N ++ runes_of_ascii "` , } MetaData pack { As Foo , }")).
Eval vm_compute in ("<<<M1182>>>" ++ check (runes_of_ascii "MetaData leftPad { chars MetaDataX , } packet repeatCount { char[ 255 ] uint8x `" ++ [233]%N ++ runes_of_ascii "` , } MetaData pack {
// c
As Foo , }")).
Eval vm_compute in ("<<<M1463>>>" ++ check (runes_of_ascii "  root

packet
    Z9_ {

repeat
lengthOf
pack
,
    repeat

    A

{

    repeatCount 
`doc` ,
    } 
,} ")).
Eval vm_compute in ("<<<M955>>>" ++ check (runes_of_ascii "packet A {
    u16 len @lengthOf(body) `
x`,
    u32 crc @calculatedFrom(""CRC32"") `
x`,
    string body,
}")).
Eval vm_compute in ("<<<M1675>>>" ++ check (runes_of_ascii "  packet 
A{	match

k
	as n { [

1
,

    ""bb"",007
    ,
	""d""
]
    :	B
,
2 :

    C	}
    , }
")).
Eval vm_compute in ("<<<M854>>>" ++ check (runes_of_ascii "packet A {
  match k as n {
    [""a"", ""bb"", ""c c"", ""d"", ""e"", ""f"", ""g"", ""h""] : B,
    2 : C
  },
}")).
Eval vm_compute in ("<<<M593>>>" ++ check (runes_of_ascii "
packet
    asx {match u128 as lengthOf
{
//	t
// `tick` ""quote"" 'q'
255 255 : x ,
    } ,	}")).
Eval vm_compute in ("<<<M639>>>" ++ check (runes_of_ascii "
packet
    asx {match u128 as lengthOf
{
//	t
// `tick` ""quote"" 'q'
255 : x ,
    } ,	"" }")).
Eval vm_compute in ("<<<M614>>>" ++ check (runes_of_ascii "
packet
    asx {match u128 as lengthOf
{
//	t
// `tick` ""quote"" 'q'
255 : x ,
    , }	}")).
Eval vm_compute in ("<<<M1307>>>" ++ check (runes_of_ascii "  packet
orderItem 
{
	u8
    a
    , 
}root
packet
newOrder{ orderItem	, 
u8
x
	,
}")).
Eval vm_compute in ("<<<M1556>>>" ++ check (runes_of_ascii "packet A {
    B b `tab
    	x`,
    B `tab
    	x`,
    repeat B bs `tab
    	x`,
}")).
Eval vm_compute in ("<<<M1656>>>" ++ check (runes_of_ascii "  options  {
    calculatedFrom=

""abc""

    ; float= i16} // trailing space 
")).
Eval vm_compute in ("<<<M1566>>>" ++ check (runes_of_ascii "packet A {
    match k as n {
        [22, ""a""] : B,
        2 : C,
    },
}")).
Eval vm_compute in ("<<<M805>>>" ++ check (runes_of_ascii "packet A {
  match k as n {
    [1, ""bb"", 007, ""d""] : B
    2 : C
  },
}")).
Eval vm_compute in ("<<<M864>>>" ++ check (runes_of_ascii "packet A { Inner { match k as n { [1,22,007,4,5,66,7,8] : B, }, }, }")).
Eval vm_compute in ("<<<M246>>>" ++ check (runes_of_ascii "MetaData x {x Packet
,i32 lengthOf
, // `tick` ""quote"" 'q'
}
")).
Eval vm_compute in ("<<<M1864>>>" ++ check (runes_of_ascii "
packet
	body	// c
	{
i32

f32a
`{ , }`,
	} options  { }
")).
Eval vm_compute in ("<<<M627>>>" ++ check (runes_of_ascii "
packet
    asx {match u128 as lengthOf
{
//	t
// `t")).
Eval vm_compute in ("<<<M1216>>>" ++ check (runes_of_ascii "packet body { i32 f32a `{ , }` , } options
// c
{ }")).
Eval vm_compute in ("<<<M434>>>" ++ check (runes_of_ascii "packet uint8x
{ match pack
    as msg_type	{")).
Eval vm_compute in ("<<<M1452>>>" ++ check (runes_of_ascii "  root  packet  P {
char	c ,u8 x
	, 
}

")).
Eval vm_compute in ("<<<M50>>>" ++ check (runes_of_ascii "options {
    Packet =  char[]  }
")).
Eval vm_compute in ("<<<M1768>>>" ++ check (runes_of_ascii "packet A {
    u8 x `d `,// c 
}")).
Eval vm_compute in ("<<<M923>>>" ++ check (runes_of_ascii "packet A {
    u8 x `a
b`,
}")).
Eval vm_compute in ("<<<M1923>>>" ++ check (runes_of_ascii "

  packet MetaDataX 
{	}")).
Eval vm_compute in ("<<<M295>>>" ++ check (runes_of_ascii "root  packet
u128 { }")).
Eval vm_compute in ("<<<M1130>>>" ++ check (runes_of_ascii "MetaData // c
u { }")).
Eval vm_compute in ("<<<M1022>>>" ++ check (runes_of_ascii "// c" ++ [8239]%N ++ runes_of_ascii "
packet A {
}")).
Eval vm_compute in ("<<<M999>>>" ++ check (runes_of_ascii "packet A {
}// c" ++ [8192]%N)).
Eval vm_compute in ("<<<M1071>>>" ++ check (runes_of_ascii "packet A {
}


")).
Eval vm_compute in ("<<<M84>>>" ++ check (runes_of_ascii " // " ++ [27880; 37322]%N)).
Eval vm_compute in ("<<<M111>>>" ++ check (runes_of_ascii "

")).
