From FP Require Import Lexer Parser ShowPT Digest Formatter.
From Coq Require Import String List NArith.
Import ListNotations.
Open Scope string_scope.
Set Printing Width 100000000.
Set Printing Depth 100000000.
Definition show_fres (r : fres) : string :=
  match r with
  | FOk s => "OK:" ++ sh_escaped s ""
  | FErr s => "ERR:" ++ sh_escaped s ""
  | FPanic p => "PANIC:" ++ p
  end.
Definition check (rs : list rune) : string := digest (show_fres (format_res rs)).
Definition full (rs : list rune) : string := show_fres (format_res rs).
Eval vm_compute in ("<<<M1357>>>" ++ check (runes_of_ascii "options { // c1a
  // c1b
LittleEndian // c2
= false ;
    // c5
StringPrefixLenType // c6
= // c7a
  // c7b
u16 // c8a
  // c8b
; // c9a
  // c9b
ArrayPrefixLenType
    // c10
= u8 ;
    // c13
FixedStringPadChar // c14
= // c15
'0'
    // c16
; // c17a
  // c17b
} // c18
packet // c19
Leg // c20a
  // c20b
{
    // c21
zchar[
    // c22
1 // c23a
  // c23b
] // c24a
  // c24b
Ref
    // c25
, // c26a
  // c26b
repeat // c27
string
    // c28
count // c29
,
    // c30
repeat InMsgkind21 { repeat char[ // c35
2
    // c36
] // c37a
  // c37b
price // c38a
  // c38b
, // c39a
  // c39b
uint64 // c40
sym
    // c41
, // c42
zchar[ // c43
9 // c44a
  // c44b
] msgKind // c46a
  // c46b
, } // c48
, zchar[ // c50a
  // c50b
5 ]
    // c52
Note // c53a
  // c53b
,
    // c54
}
    // c55
packet // c56a
  // c56b
Ack // c57
{
    // c58
u16
    // c59
seqNo // c60
,
    // c61
repeat // c62a
  // c62b
char[ 1 // c64
] // c65
Acct // c66
, // c67
@leftPad // c68
( // c69
' ' // c70
) // c71a
  // c71b
char[
    // c72
4
    // c73
] msgKind // c75
, // c76
repeat InTag747
    // c78
{ // c79a
  // c79b
Leg // c80
, } , // c83
repeat // c84a
  // c84b
string // c85
Tail // c86a
  // c86b
, // c87a
  // c87b
Leg // c88
, }
    // c90
packet Trade // c92a
  // c92b
{ // c93a
  // c93b
u64 clOrdID // c95
, // c96
repeat // c97a
  // c97b
InLastpx24 { // c99
char[ 10 // c101a
  // c101b
] Note // c103
, // c104a
  // c104b
char[ 3 ] // c107
Qty // c108
, repeat // c110a
  // c110b
char[
    // c111
2 // c112
] // c113
Side2 , // c115
Ack
    // c116
,
    // c117
repeat // c118
InX47 // c119a
  // c119b
{ Ack // c121a
  // c121b
, // c122a
  // c122b
} , } , // c126a
  // c126b
}
    // c127
root
    // c128
packet
    // c129
Heartbeat // c130
{ repeat // c132
u64 // c133a
  // c133b
Acct , string lastPx // c137a
  // c137b
, u8 // c139a
  // c139b
Side2 // c140a
  // c140b
, // c141
match
    // c142
Side2 as // c144a
  // c144b
Body {
    // c146
2 // c147
:
    // c148
Trade // c149a
  // c149b
, // c150
157 // c151
: Ack // c153a
  // c153b
,
    // c154
46 // c155
: // c156
Leg // c157a
  // c157b
,
    // c158
} // c159
, // c160
u32 // c161a
  // c161b
sym
    // c162
@calculatedFrom( // c163a
  // c163b
""CRC32"" // c164
)
    // c165
, // c166a
  // c166b
} // c167a
  // c167b
")).
Eval vm_compute in ("<<<M121>>>" ++ check (runes_of_ascii "options {
    tag
=
int32 ; } root
    packet T { repeat a1 { match x_y_z as charz { [	00,
// trailing space 
// c
4294967296,""it's"" ,
    // " ++ [128512]%N ++ runes_of_ascii " emoji
    """ ++ [28040; 24687]%N ++ runes_of_ascii """ ]:	zchar
, [ ""packet"" ,
/// triple
/// triple
""x y"" , ""it's"" ,""abc""
,""it's""
    ]	: string_, 0  :Z9_ } , }
// `tick` ""quote"" 'q'
// " ++ [128512]%N ++ runes_of_ascii " emoji
, match u8x as pack { [
0123456789
    //
    , ""x y"" /// triple
] :trueish, } , @calculatedFrom( ""a\""b"" ) repeat string_`two words` ,repeat //	t
calculatedFrom
`crlf
line` , chars  {i16 chars , }  ,
    } MetaData x_y_z{  }
    options
    {  } packet charz { u16 i64_@lengthOf( Packet ) `say ""hi""`
    ,	match len as Packet {
    [ """ ++ [28040; 24687]%N ++ runes_of_ascii """
    // trailing space 
    ] : chars ,4294967296
:a1 ,
    1 : int
,
// c
// a // b
42: Logon[ 255 ]
    //
    :
    Packet , }, // `tick` ""quote"" 'q'
@lengthOf(
a1
    ) body  { repeat	u32
    Z9_ `doc` , }, @leftPad (
    '\x00'
)int16
options1 @calculatedFrom(
    """ ++ [233]%N ++ runes_of_ascii "t" ++ [233]%N ++ runes_of_ascii """	) ,@tag( 65535 ) repeat leftPad
    `100% of %d`
, //	t
@calculatedFrom( ""x y"" ) @lengthOf(	Header ) @tag( 1
) match // `tick` ""quote"" 'q'
Foo
    as	T
{ 0123456789 :T// @lengthOf(
,
10	: charz , """ ++ [28040; 24687]%N ++ runes_of_ascii """ : Packet[0123456789 //x
,	""// no comment"",
7
    ,  00 //
, 10
    ,3 ,
00 ,
""\" ++ [233]%N ++ runes_of_ascii """] : Foo }
,
@calculatedFrom( ""packet"" ) @rightPad	( ' ' ) @tag( 0)i64 chars , @lengthOf(
    MetaDataX
    ) int8 A
@lengthOf( repeatCount ) `a\` ,char[1  ] roots
@calculatedFrom(  """ ++ [128512]%N ++ runes_of_ascii """
) ,
}
")).
Eval vm_compute in ("<<<M1377>>>" ++ check (runes_of_ascii "// top
options
    // c0
{ ArrayPrefixLenType // c2a
  // c2b
=
    // c3
u64 // c4
;
    // c5
FixedStringPadFromLeft
    // c6
= // c7a
  // c7b
true // c8
;
    // c9
FixedStringPadChar // c10
= // c11
'0'
    // c12
; // c13a
  // c13b
}
    // c14
packet // c15
Order {
    // c17
}
    // c18
root // c19a
  // c19b
packet // c20
Leg // c21a
  // c21b
{ // c22a
  // c22b
char[] Ref
    // c24
, // c25a
  // c25b
repeat // c26
Order // c27a
  // c27b
, // c28a
  // c28b
f32 // c29
Acct
    // c30
,
    // c31
@leftPad
    // c32
( // c33a
  // c33b
'0'
    // c34
) char[ 10 ] // c38
venue // c39a
  // c39b
, // c40
@rightPad // c41a
  // c41b
(
    // c42
'0' // c43a
  // c43b
) char[ 3
    // c46
] // c47
seqNo // c48
,
    // c49
repeat u64 // c51
Px // c52a
  // c52b
,
    // c53
u8 // c54
Flags , // c56
u32
    // c57
lastPx // c58
@lengthOf( Body )
    // c61
,
    // c62
match // c63
Flags
    // c64
as
    // c65
Body // c66a
  // c66b
{
    // c67
185 : Order , // c71a
  // c71b
}
    // c72
, // c73
u16 // c74
sym // c75a
  // c75b
@calculatedFrom( // c76
""CRC32"" // c77a
  // c77b
)
    // c78
, // c79a
  // c79b
}
    // c80
")).
Eval vm_compute in ("<<<M1636>>>" ++ check (runes_of_ascii "options {
    packetx = 42;
}

root packet falsey {
    @tag(1)
    crc {
        repeat char[007] charz `it's`,
        repeat u8 len `
        `,
        crc trueish,
    },
    match float as string_ {
        ""x y"" : zchar,
        """ ++ [128512]%N ++ runes_of_ascii """ : string_,
        ""CRC32"" : options1,
        [""1""] : crc,
        ""packet"" : options1,
        [
            42, ""a	b"", """ ++ [233]%N ++ runes_of_ascii "t" ++ [233]%N ++ runes_of_ascii """, ""abc"", 0123456789,
            ""{,}"", 00, """ ++ [233]%N ++ runes_of_ascii "t" ++ [233]%N ++ runes_of_ascii """
        ] : asx,
    },
    repeat f64 charz,
    @tag(10)
    repeat charz Logon,
    @lengthOf(u8x)
    @calculatedFrom(""a\""b"")
    @rightPad(' ')
    u8 a1 `u8 x,`,
}

packet falsey {
    repeat char[] zchar,
    @tag(255)
    @calculatedFrom(""`tick`"")
    char[] asx `say ""hi""`,
    u8 As `u8 x,`,// 50% %s
    zchar[00] uint8x @lengthOf(zchar),
    char[255] uint8x,
    Pad @lengthOf(_x) `" ++ [233]%N ++ runes_of_ascii "`,
    _x,
    @rightPad(' ')
    uint16 BodyLength,
    @lengthOf(int)
    metadata tag,
    int64 string_ `
    `,
}

root packet o {
}

options {
}")).
Eval vm_compute in ("<<<M353>>>" ++ check (runes_of_ascii "root packet rootA {} packet // 50% %s
Z9_ { repeat char[ 007] f32a , @rightPad ( )
u32 Header `a\`,repeat Z9_, repeat i8i8
    // 50% %s
    int `u8 x,` // a // b
, // `tick` ""quote"" 'q'
uint8x , f64
// @lengthOf(
// `tick` ""quote"" 'q'
i8i8  `" ++ [28040; 24687; 31867; 22411]%N ++ runes_of_ascii "` , @tag(
//x
// 50% %s
3 ) // `tick` ""quote"" 'q'
@tag(  3 ) @tag( 10
) repeat int{ MetaDataX ,	} , @tag( 10 ) int8
    // " ++ [128512]%N ++ runes_of_ascii " emoji
    pack@lengthOf(	x ) ,
    } packet metadata {
    @calculatedFrom(""" ++ [233]%N ++ runes_of_ascii "t" ++ [233]%N ++ runes_of_ascii """ ) repeat
    rootA uint8x, @calculatedFrom( ""\n"" ) @lengthOf(len ) BodyLength{ matchKey f32a `a\`
,} ,
char[]leftPad
`tab	here`
    ,
    // " ++ [27880; 37322]%N ++ runes_of_ascii "
    u32  a1,} packet
trueish { @tag( 007 ) f64 f32a  @calculatedFrom( """")`say ""hi""`/// triple
, @calculatedFrom( ""packet""
    ) @calculatedFrom(
    """ ++ [28040; 24687]%N ++ runes_of_ascii """// trailing space 
)repeat char[	3 ]zchar`
` , } MetaData tag
{
}
")).
Eval vm_compute in ("<<<M1382>>>" ++ check (runes_of_ascii "

  options 
{ ArrayPrefixLenType=  u32  ;

FixedStringPadFromLeft =false ;

    FixedStringPadChar 
='0';}packet
	Trade
    {
	repeat

InVenue78 {u16
	tag7 
,repeat InLastpx9	{ 
u8  pad0

,
	} , 
int64
Tail
    ,

repeat
    InQty37 {
char[ 
2	]
OrderId	,	zchar[
    6] 
lastPx 
,
	int64	Qty
,
	}
	,

uint8	Side2 ,

}	,  }
	packet Logon 
{

repeat string
	venue  , @rightPad (

'\x00'
	) char[

3]

sym,zchar[ 9
] count
    ,zchar[
7
]

f1
	,Trade  ,
    }
	packet

Logout{
	} root packet
	Reject	{int32	sym ,u8 Px,
u32 Tail
@lengthOf(	Body

    )
,

match 
Px
    as Body
{	184	: 
Trade
	,
    173 :
    Logon
,

12  :	Logout,
    } , u32 
tag7 @calculatedFrom(""CRC32""

    )
,
}")).
Eval vm_compute in ("<<<M1536>>>" ++ check (runes_of_ascii "options {
    u128 = ""// no comment""
}

root packet Z9_ {
    repeat char[] i8i8,
    float64 MetaDataX,
    repeat rootA {
        msg_type @calculatedFrom(""\" ++ [233]%N ++ runes_of_ascii """),
        match float as _x {
            ""a\""b"" : u,
            [
                ""a	b"", ""CRC32"", 10, 007, 255,
                ""x y"", 42, 3
            ] : msg_type,
            [
                ""1"", ""\n"", 4294967296, ""abc"", ""// no comment"",
                ""\n"", 1
            ] : int,
            [10] : As,
            [0] : zchar,
            7 : A,
        },
    },
    char[] zchar @lengthOf(tag),
}

options {
    body = ""1""
    trueish = ' ';
}")).
Eval vm_compute in ("<<<M189>>>" ++ check (runes_of_ascii "packet body	{ @leftPad (
    '\x00'
    ) @tag(42
    ) @tag( 65535  ) repeat
    tag u `a\` // `tick` ""quote"" 'q'
,Z9_ , //	t
@tag(	10 )
//	t
// @lengthOf(
f32 msg_type `// not a comment` , int16 matchKey
    @calculatedFrom( ""a	b""
    // a // b
    )
    `it's`  , }
    packet T/// triple
{	zchar[7
    ]matchKey, falsey @lengthOf( stringy	) //x
`crlf
line`
, } root packet options1
    { @calculatedFrom( ""{,}""
)
matchKey @calculatedFrom(  ""`tick`""), zchar[0
    ] stringy @lengthOf(int ) ,  } packet// packet A { u8 x, }
msg_type
{ } 	 ")).
Eval vm_compute in ("<<<M1674>>>" ++ check (runes_of_ascii "  packet
uint8x {
	@calculatedFrom(  """ ++ [233]%N ++ runes_of_ascii "t" ++ [233]%N ++ runes_of_ascii """)	int16 x_y_z
    // trailing space 
  //x
,

repeatCount
,

Logon	{
repeat // c
  	i8

    Packet //
    	`// not a comment` , }

,@rightPad 
(  '0'	// trailing space 
      )string msg_type	,

@calculatedFrom( ""`tick`"" )
	repeat	Z9_// " ++ [128512]%N ++ runes_of_ascii " emoji
	repeatCount 
//
		// trailing space 
  	,

    o
	`doc` ,
    i64_	Pad,match repeatCount

as
    roots	{ [ 
      // packet A { u8 x, }
    // " ++ [27880; 37322]%N ++ runes_of_ascii "
	  42
,
007 
] :
	    // packet A { u8 x, }
i8i8  ,	},
	} ")).
Eval vm_compute in ("<<<M1176>>>" ++ check (runes_of_ascii "// top
options
    // c0
{
    // c1
f32a
    // c2
=
    // c3
0
    // c4
}
    // c5
packet
    // c6
trueish
    // c7
{
    // c8
}
    // c9
MetaData
    // c10
_x
    // c11
{
    // c12
char[
    // c13
0123456789
    // c14
]
    // c15
zchar
    // c16
,
    // c17
string
    // c18
crc
    // c19
,
    // c20
char[
    // c21
1
    // c22
]
    // c23
options1
    // c24
,
    // c25
uint8
    // c26
repeatCount
    // c27
,
    // c28
}
    // c29
")).
Eval vm_compute in ("<<<M133>>>" ++ check (runes_of_ascii "MetaData x_y_z {zchar[ 00 ] MetaDataX// a // b
, }
root
packet u { @lengthOf(
// @lengthOf(
// a // b
calculatedFrom
    )	repeat Header{
charz  @lengthOf( matchKey)
    ,	repeat u8// trailing space 
charz , char[]
float
    @calculatedFrom( ""CRC32"" )
`{ , }`
, }	,	}
root packet lengthOf {
@tag(7 ) @lengthOf( o )
@tag(
0 ) BodyLength  @calculatedFrom(
// " ++ [128512]%N ++ runes_of_ascii " emoji
//
""a\\"" )	, } options {
    f32a=
    ""// no comment"" ; }")).
Eval vm_compute in ("<<<M1346>>>" ++ check (runes_of_ascii "packet NewOrder {
    u32 qty,
}
packet Cancel {
    u64 id,
}
packet Business {
    u8 Kind,
    match Kind as Detail {
        1 : NewOrder,
        2 : Cancel,
    },
}
packet TcpFrame {
    u8 T,
    match T as Body {
        1 : Business,
    },
}
packet UdpFrame {
    u8 U,
    match U as Body {
        1 : Business,
    },
    Business extra,
}
root packet Wire {
    TcpFrame,
    UdpFrame,
}
")).
Eval vm_compute in ("<<<M1915>>>" ++ check (runes_of_ascii "  packet
a1	{

    zchar[ 
0 
]
    x 
`say ""hi""`
	,

    }	packet 	 // trailing space 
    BodyLength
    {
    match
Pad as

    A
{  ""\n"" 
:

len}
    , }
MetaData

repeatCount 
{	string tag ,	}  MetaData
    trueish
    {  u128

string_ 
, char[
	00	// trailing space 
	] o,
string  tag ,}
	packet calculatedFrom 
{

    BodyLength
`tab	here`
,}
")).
Eval vm_compute in ("<<<M1375>>>" ++ check (runes_of_ascii "  options {StringPrefixLenType = u16

;

ArrayPrefixLenType=u64

    ;}packet Order {
    float64 Ref

,

repeat
    i32 lastPx

, } packet Fill

{  zchar[
    9]Ref,

zchar[
4] Px

    ,	Order
	, int8 
count

,
    } packet Cancel  { 
i16 
Side2
,
    Order	, }
root packet Party{ float64 Px
    ,	zchar[  1 ] clOrdID
    ,	}
")).
Eval vm_compute in ("<<<M1432>>>" ++ check (runes_of_ascii "
// packet A { u8 x, }
root packet

zchar {

@leftPad
    ( 
'\x00')
	repeat
Logon  BodyLength	,
@rightPad  (
	)
	@calculatedFrom(
    ""a\""b"" ) @tag( 42

)
repeat
	_x MetaDataX
    // 50% %s
      ,
    @leftPad//x
		(

    '0'
	)	string

calculatedFrom 
@calculatedFrom(
""it's"" ) ,
	}")).
Eval vm_compute in ("<<<M361>>>" ++ check (runes_of_ascii "// packet A { u8 x, }
root packet  zchar { @leftPad
    ( '\x00' )repeat Logon BodyLength
, @rightPad (  ) @calculatedFrom(
""a\""b""
    )@tag( 42
)
repeat _x MetaDataX
    // 50% %s
    ,@leftPad //x
( '0'
    )string calculatedFrom @calculatedFrom( ""it's"" )
    ,}")).
Eval vm_compute in ("<<<M399>>>" ++ check (runes_of_ascii "packet
    asx options @calculatedFrom(
""""  ) @tag( 255 )repeat
// packet A { u8 x, }
// trailing space 
int16 u8x
,
@tag(
    //
    007 )
    @tag( 0
    /// triple
    ) @tag( 1) u
    @lengthOf( T ),
// `tick` ""quote"" 'q'
//x
} // " ++ [128512]%N ++ runes_of_ascii " emoji")).
Eval vm_compute in ("<<<M477>>>" ++ check (runes_of_ascii "packet
    asx { @calculatedFrom(
""""  ) @tag( 255 )repeat
// packet A { u8 x, }
// trailing space 
int16 u8x
,
@tag(
    //
    007 )
    @tag( 0
    /// triple
    ) ) @tag( 1) u
    @lengthOf( T ),
// `tick` ""quote"" 'q'
//x
} // " ++ [128512]%N ++ runes_of_ascii " emoji")).
Eval vm_compute in ("<<<M429>>>" ++ check (runes_of_ascii "packet
    asx { @calculatedFrom(
""""  ) @tag( 255 ;repeat
// packet A { u8 x, }
// trailing space 
int16 u8x
,
@tag(
    //
    007 )
    @tag( 0
    /// triple
    ) @tag( 1) u
    @lengthOf( T ),
// `tick` ""quote"" 'q'
//x
} // " ++ [128512]%N ++ runes_of_ascii " emoji")).
Eval vm_compute in ("<<<M411>>>" ++ check (runes_of_ascii "packet
    asx { @calculatedFrom(
""""   @tag( 255 )repeat
// packet A { u8 x, }
// trailing space 
int16 u8x
,
@tag(
    //
    007 )
    @tag( 0
    /// triple
    ) @tag( 1) u
    @lengthOf( T ),
// `tick` ""quote"" 'q'
//x
} // " ++ [128512]%N ++ runes_of_ascii " emoji")).
Eval vm_compute in ("<<<M336>>>" ++ check (runes_of_ascii "// c
options {As
='0'// 50% %s
;
float =
    //
    char[]	u =
    ""a\""b"" ; msg_type = u32 ;	falsey = 7 ;/// triple
}
    // a // b
    packet x_y_z { T// " ++ [27880; 37322]%N ++ runes_of_ascii "
``, } packet
    pack{ @leftPad ( ) rootA float , } // packet A { u8 x, }")).
Eval vm_compute in ("<<<M1500>>>" ++ check (runes_of_ascii "MetaData i64_ {
    int16 u128,
}

MetaData packetx {
    char[] T,
    uint16 a1 `a\`,
    zchar[007] uint8x,
}

root packet A {
    @leftPad(' ')
    @tag(255)
    @leftPad('\x00')
    repeat leftPad i64_,
}")).
Eval vm_compute in ("<<<M38>>>" ++ check (runes_of_ascii "packet Logon {	@calculatedFrom(""{,}"") repeat	int64 Packet	, @tag( 42 )char[] MetaDataX`doc`, } MetaData Packet	{string msg_type , Logon calculatedFrom,f32a
    matchKey ,zchar[	0	] _x ,  }")).
Eval vm_compute in ("<<<M1766>>>" ++ check (runes_of_ascii "MetaData u128 {
    // @lengthOf(
    len x `it's`,
    BodyLength Foo `doc`,
    string_ a1 `{ , }`,
    calculatedFrom u8x `u8 x,`,
    MetaDataX matchKey,
}

packet u128 {
}")).
Eval vm_compute in ("<<<M607>>>" ++ check (runes_of_ascii "MetaData u
    { } MetaData o
{ float uint8x
`100% of %d` ,repeatCount u8x u8x, string_ leftPad
, i32
    Foo , int64 x `two words` , calculatedFrom
stringy `a\` ,
}
")).
Eval vm_compute in ("<<<M696>>>" ++ check (runes_of_ascii "MetaData u
    { } MetaData o
{ float uint8x
`100% of %d` ,repeatCount u8x, string_ leftPad
'', i32
    Foo , int64 x `two words` , calculatedFrom
stringy `a\` ,
}
")).
Eval vm_compute in ("<<<M608>>>" ++ check (runes_of_ascii "MetaData u
    { } MetaData o
{ float uint8x
`100% of %d` ,repeatCount ,u8x string_ leftPad
, i32
    Foo , int64 x `two words` , calculatedFrom
stringy `a\` ,
}
")).
Eval vm_compute in ("<<<M661>>>" ++ check (runes_of_ascii "MetaData u
    { } MetaData o
{ float uint8x
`100% of %d` ,repeatCount u8x, string_ leftPad
, i32
    Foo , int64 x `two words`  calculatedFrom
stringy `a\` ,
}
")).
Eval vm_compute in ("<<<M619>>>" ++ check (runes_of_ascii "MetaData u
    { } MetaData o
{ float uint8x
`100% of %d` ,repeatCount u8x, : leftPad
, i32
    Foo , int64 x `two words` , calculatedFrom
stringy `a\` ,
}
")).
Eval vm_compute in ("<<<M1781>>>" ++ check (runes_of_ascii "

  packet

    A
{Inner

    { match
    k 
as

    n

{ [1

,
22

,
007	,
	4 
,

    5
    , 66
, 7

    ]:  B ,} ,

    }
,

    }
")).
Eval vm_compute in ("<<<M166>>>" ++ check (runes_of_ascii "  options {Packet =true msg_type
=false // 50% %s
Logon// @lengthOf(
=
true
    packetx
//
// `tick` ""quote"" 'q'
=
""abc"" ;
    pack= ' '}

")).
Eval vm_compute in ("<<<M42>>>" ++ check (runes_of_ascii "
root packet  x  {
@rightPad
( '\x00' ) repeat
    uint32 crc , } options{
Packet
    // @lengthOf(
    =char[] }	MetaData o
    {}
")).
Eval vm_compute in ("<<<M1688>>>" ++ check (runes_of_ascii "  options
{ }	options{

MetaDataX =char ; }MetaData Pad{
	i8 metadata ,	string  stringy 
, int8	As
	`{ , }`  ,  
  // c
	}")).
Eval vm_compute in ("<<<M1697>>>" ++ check (runes_of_ascii "
packet A 
{ match k as 
n	{
[
1 ,
22
	, 007
, 4
    , 5

,

66
,
7,
    8
	,

9
]
:  B

,
	2: C
    }
,
}

")).
Eval vm_compute in ("<<<M1224>>>" ++ check (runes_of_ascii "options { } options { MetaDataX = char ; } MetaData
// c
Pad { i8 metadata , string stringy , int8 As `{ , }` , }")).
Eval vm_compute in ("<<<M1772>>>" ++ check (runes_of_ascii "
packet
A {
match
	k
as n  // a
    {	// b
  1 // c
    : // d
    B 	 // e
	  ,// f
}// g
    , // h
		}
")).
Eval vm_compute in ("<<<M907>>>" ++ check (runes_of_ascii "packet A {
  match k as n {
    [1, ""bb"", 007, ""d"", 5, ""f"", 7, ""h"", 9, ""j"", 11, ""l""] : B
    2 : C
  },
}")).
Eval vm_compute in ("<<<M1422>>>" ++ check (runes_of_ascii "packet
	A
    {

    match
	k
as 
n  {
[ ""a""

,
	""bb"" ,007
,""d"", ""e"" ] :
B
    2
	: C  }
    , }")).
Eval vm_compute in ("<<<M874>>>" ++ check (runes_of_ascii "packet A {
  match k as n {
    [""a"", ""bb"", 007, ""d"", ""e"", 66, ""g"", ""h"", 9] : B
    2 : C
  },
}")).
Eval vm_compute in ("<<<M890>>>" ++ check (runes_of_ascii "packet A {
  match k as n {
    [1, 22, 007, 4, 5, 66, 7, 8, 9, 10, 11] : B
    2 : C
  },
}")).
Eval vm_compute in ("<<<M843>>>" ++ check (runes_of_ascii "packet A {
  match k as n {
    [""a"", 22, ""c c"", 4, ""e"", 66, ""g""] : B,
    2 : C
  },
}")).
Eval vm_compute in ("<<<M1944>>>" ++ check (runes_of_ascii "MetaData charz {
    pack MetaDataX,
    falsey crc,
    u32 u `// not a comment`,
}")).
Eval vm_compute in ("<<<M1628>>>" ++ check (runes_of_ascii "options {
    T = 42
    packetx = true;
    x_y_z = char[];
    trueish = u16
}")).
Eval vm_compute in ("<<<M816>>>" ++ check (runes_of_ascii "packet A {
  match k as n {
    [1, ""bb"", 007, ""d"", 5] : B
    2 : C
  },
}")).
Eval vm_compute in ("<<<M343>>>" ++ check (runes_of_ascii "//x
packet
rootA {f32
uint8x `{ , }` ,	string msg_type`{ , }`	,
    }")).
Eval vm_compute in ("<<<M790>>>" ++ check (runes_of_ascii "packet A {
  match k as n {
    [1, ""bb"", 007] : B
    2 : C
  },
}")).
Eval vm_compute in ("<<<M781>>>" ++ check (runes_of_ascii "packet A {
  match k as n {
    [1, ""bb""] : B
    2 : C
  },
}")).
Eval vm_compute in ("<<<M1433>>>" ++ check (runes_of_ascii "MetaData 	 // " ++ [128512]%N ++ runes_of_ascii " emoji
	Logon  { char[42
] Packet,  //x
}")).
Eval vm_compute in ("<<<M435>>>" ++ check (runes_of_ascii "packet
    asx { @calculatedFrom(
""""  ) @tag( 255 )")).
Eval vm_compute in ("<<<M3>>>" ++ check (runes_of_ascii "packet // " ++ [27880; 37322]%N ++ runes_of_ascii "
MetaDataX {int64  leftPad , }
")).
Eval vm_compute in ("<<<M1487>>>" ++ check (runes_of_ascii "options {
    a = 1;// a
    b = 2// b
}")).
Eval vm_compute in ("<<<M172>>>" ++ check (runes_of_ascii "MetaData
//x
// @lengthOf(
i8i8 { }
")).
Eval vm_compute in ("<<<M1750>>>" ++ check (runes_of_ascii "packet A {
    u8 x `x
        `,
}")).
Eval vm_compute in ("<<<M1592>>>" ++ check (runes_of_ascii "
root 
packet 	 // c

	a1 { }
")).
Eval vm_compute in ("<<<M1077>>>" ++ check (runes_of_ascii "packet A {
 u8 x `d" ++ [6158]%N ++ runes_of_ascii "`, // c" ++ [6158]%N ++ runes_of_ascii "
}")).
Eval vm_compute in ("<<<M1485>>>" ++ check (runes_of_ascii "
// c" ++ [12288]%N ++ runes_of_ascii "

	packet A
	{  }

")).
Eval vm_compute in ("<<<M1469>>>" ++ check (runes_of_ascii "packet 
A{
	} 
	// c" ++ [12288]%N ++ runes_of_ascii "
")).
Eval vm_compute in ("<<<M1080>>>" ++ check (runes_of_ascii "packet A {
}
// c x")).
Eval vm_compute in ("<<<M1066>>>" ++ check (runes_of_ascii "// c" ++ [8203]%N ++ runes_of_ascii "
packet A {
}")).
Eval vm_compute in ("<<<M1165>>>" ++ check (runes_of_ascii "// c
packet x { }")).
Eval vm_compute in ("<<<M1512>>>" ++ check (runes_of_ascii "
options{
}")).
Eval vm_compute in ("<<<M1054>>>" ++ check (runes_of_ascii "// c" ++ [12]%N)).
