From FP Require Import Lexer Parser ShowPT Digest Formatter.
From Coq Require Import String List NArith.
Import ListNotations.
Open Scope string_scope.
Set Printing Width 100000000.
Set Printing Depth 100000000.
Definition show_fres (r : fres) : string :=
  match r with
  | FOk s => "OK:" ++ sh_escaped s ""
  | FErr s => "ERR:" ++ sh_escaped s ""
  | FPanic p => "PANIC:" ++ p
  end.
Definition check (rs : list rune) : string := digest (show_fres (format_res rs)).
Definition full (rs : list rune) : string := show_fres (format_res rs).
Eval vm_compute in ("<<<M1841>>>" ++ check (runes_of_ascii "// @lengthOf(
MetaData zchar {
    string o `crlf
    line`,
    char[] pack `crlf
    line`,
    char[] Foo,
}

options {
    stringy = ""`tick`""
}

packet leftPad {
    packetx @lengthOf(roots),
    @lengthOf(int)
    @calculatedFrom(""a\""b"")
    @calculatedFrom(""" ++ [28040; 24687]%N ++ runes_of_ascii """)
    int32 MetaDataX `" ++ [233]%N ++ runes_of_ascii "`,
    u8 int,
    @lengthOf(options1)
    repeat u8 BodyLength,
    @tag(1)
    Logon,
    repeat int32 u8x `say ""hi""`,
    match int as charz {
        ""abc"" : roots,
    },
    string_ {
        zchar @lengthOf(calculatedFrom) ``,
    },
}

root packet lengthOf {
    @tag(4294967296)
    A @lengthOf(i64_) `doc`,
    body @lengthOf(lengthOf) `it's`,
    zchar[10] i8i8,
    @calculatedFrom(""" ++ [233]%N ++ runes_of_ascii "t" ++ [233]%N ++ runes_of_ascii """)
    i64 int `u8 x,`,
    repeat trueish {
        string options1,
        zchar[0123456789] _x `tab	here`,
        Pad {
            repeat string repeatCount,
            repeat string _x,
            Packet @lengthOf(roots) `
            `,
            string crc @calculatedFrom(""abc""),
        },
        match i8i8 as string_ {
            // c
            [""it's""] : options1,
            //
            // @lengthOf(
            ""a	b"" : string_,
            [""a	b"", 00] : metadata,
            0 : o,
            ""\" ++ [233]%N ++ runes_of_ascii """ : Pad,
        },
    },
    char[7] i8i8 `tab	here`,
    roots {
        repeat uint8 _x `tab	here`,
    },
    repeat int64 f32a,
    match asx as calculatedFrom {
        65535 : asx,
        [1] : uint8x,
        42 : x,
        [
            ""x y"", ""1"", ""`tick`"", ""1"", ""1"",
            ""a	b""
        ] : MetaDataX,
    },
}

MetaData chars {
}")).
Eval vm_compute in ("<<<M281>>>" ++ check (runes_of_ascii "// @lengthOf(
root packet  leftPad{ match Logon as	msg_type { ""it's"" :
    int , """ ++ [128512]%N ++ runes_of_ascii """
    :charz ""a\\""
: options1 , } , @rightPad(
    ' ') asx `doc`
, @leftPad( '0' ) uint32 charz, @tag(
255 ) zchar[ 10 ]Pad ``
, string  asx	`it's` , }
packet
// packet A { u8 x, }
// trailing space 
Pad {@lengthOf(lengthOf )
@lengthOf( crc  )u8x
    `a\` ,
float64 f32a  @calculatedFrom(
""a\""b""
    ) `it's`  ,@lengthOf(	options1 ) @tag( 42 )@calculatedFrom(
// a // b
//x
""1""	) zchar[ 7 ] repeatCount	`say ""hi""` , @calculatedFrom( ""// no comment"" )
    //x
    zchar[ 3] i8i8 @calculatedFrom(
""// no comment"" ) `" ++ [233]%N ++ runes_of_ascii "`,@tag( //
65535 )
    match o
    as float
    { [ // @lengthOf(
10 ]
    :len } ,@tag(3//x
)
match repeatCount as Pad {
    [ ""// no comment"",
42 , ""\n""
,
    007 , 3
    , ""// no comment""
    // c
    ]
:
    calculatedFrom}
    , u8x
{ repeat
    string x `it's` ,	x @calculatedFrom( """ ++ [128512]%N ++ runes_of_ascii """
)//
, falsey
    { match	f32a as// c
u128 { [ ""it's""
    //x
    ,
    0123456789
    , 0, """ ++ [233]%N ++ runes_of_ascii "t" ++ [233]%N ++ runes_of_ascii """ ,42 , 65535 // c
,
1 , 255 ] :
    uint8x ,
0 :asx ,} , repeat packetx u `{ , }` , string Foo	, x @calculatedFrom(
""a	b"")//	t
,
} , o
    pack
    , }  , // a // b
} packet i64_ { repeat
char[ 3 ]
a1
,} options
    // a // b
    {	}")).
Eval vm_compute in ("<<<M365>>>" ++ check (runes_of_ascii "
packet
    trueish
    // @lengthOf(
    {
    char[ 7
]chars @calculatedFrom( """ ++ [128512]%N ++ runes_of_ascii """) , char[] uint8x@calculatedFrom( ""`tick`"" )// c
`
` ,  int16 // a // b
metadata @calculatedFrom( """ ++ [128512]%N ++ runes_of_ascii """// @lengthOf(
) `doc`, pack @lengthOf( stringy	) , u8
float @lengthOf( leftPad ) , @lengthOf(
chars ) f32a
    trueish, repeat
    zchar[ //	t
4294967296 ]
u  , @leftPad(
    //
    ' ' // trailing space 
)@lengthOf( leftPad ) @tag(
    7 ) repeat string	u128
,
    }
    packet Header { u64 leftPad
,	@lengthOf( u128	) repeat uint32
T
,@tag( 4294967296
)repeat uint32
    x_y_z ``
    , T	,
@tag( 1 ) zchar[7]	Packet@lengthOf( f32a  )
// @lengthOf(
//x
, // trailing space 
float32
    lengthOf
, // packet A { u8 x, }
i32 // " ++ [128512]%N ++ runes_of_ascii " emoji
calculatedFrom `crlf
line` ,@tag(0123456789	)
@tag( 1// trailing space 
)
//
// `tick` ""quote"" 'q'
@calculatedFrom( """ ++ [128512]%N ++ runes_of_ascii """ ) float32
lengthOf@calculatedFrom( ""\n"" )
    `" ++ [233]%N ++ runes_of_ascii "`
, zchar[ 007 ] zchar @calculatedFrom(
// a // b
// packet A { u8 x, }
""abc""	) `" ++ [28040; 24687; 31867; 22411]%N ++ runes_of_ascii "` /// triple
,
int32
    roots
,
}
")).
Eval vm_compute in ("<<<M1788>>>" ++ check (runes_of_ascii "options {
    LittleEndian = true;
    StringPrefixLenType = u32;
    FixedStringPadChar = '0';
}

packet Logout {
    repeat InMsgkind49 {
        u8 pad0,
    },
    repeat char[5] seqNo,
    repeat u8 price,
}

packet Party {
    zchar[7] Qty,
}

packet Logon {
    repeat InRef10 {
        string price,
        char[] sym,
        repeat Logout,
    },
    repeat char[3] count,
    repeat Party,
    char[] tag7,
    @rightPad('0')
    char[2] clOrdID,
}

packet Order {
    InTail13 {
        Party,
    },
    repeat char[4] count,
}

root packet Cancel {
    Logout,
    @leftPad('0')
    char[9] msgKind,
    string lastPx,
    string tag7,
    zchar[1] OrderId,
    repeat Party,
    u16 sym,
    u16 Acct @lengthOf(Body),
    match sym as Body {
        [24, 44] : Logout,
        160 : Order,
        91 : Logon,
        43 : Party,
    },
    u16 Tail @calculatedFrom(""CR\
    C32""),
}")).
Eval vm_compute in ("<<<M1445>>>" ++ check (runes_of_ascii "options {
    LittleEndian = true;
    StringPrefixLenType = u64;
    ArrayPrefixLenType = u8;
    FixedStringPadChar = '0';
}
packet Reject {
    i32 Ref,
    repeat f64 OrderId,
    repeat InNote12 {
        u8 pad0,
    },
    @leftPad(' ') char[6] count,
}
packet Logout {
    zchar[6] Tail,
    repeat string venue,
}
packet Cancel {
    u64 count,
    repeat char[5] lastPx,
    i64 Tail,
    repeat InF140 {
        repeat Logout,
        repeat Reject,
    },
}
root packet Trade {
    repeat InMsgkind39 {
        repeat Reject,
        char[4] Px,
    },
    string Acct,
    uint16 price,
    f32 OrderId,
    u16 x,
    u16 clOrdID @lengthOf(Body),
    match x as Body {
        178 : Logout,
        13 : Cancel,
        174 : Reject,
    },
    u16 Flags @calculatedFrom(""CR\
C32""),
}
")).
Eval vm_compute in ("<<<M1594>>>" ++ check (runes_of_ascii "packet body {
    @tag(0123456789)
    repeatCount {
        // @lengthOf(
        i32 roots @calculatedFrom(""it's""),
        char[] repeatCount @calculatedFrom(""packet"") `two words`,
        repeat u16 roots,
        match lengthOf as As {
            [""packet"", """ ++ [28040; 24687]%N ++ runes_of_ascii """, 255, 42, ""\" ++ [233]%N ++ runes_of_ascii """] : x_y_z,
        },
    },
    trueish,
    @tag(65535)
    @tag(255)
    /// triple
    @tag(00)
    chars @calculatedFrom(""it's""),
    match o as roots {
        // " ++ [27880; 37322]%N ++ runes_of_ascii "
        // c
        ""{,}"" : options1,
        """ ++ [28040; 24687]%N ++ runes_of_ascii """ : lengthOf,
        00 : pack,
        [""a\""b""] : msg_type,
        1 : i8i8,
        [10, 3, """"] : falsey,
    },
}

root packet Z9_ {
    repeat char[] Packet,
    string chars @calculatedFrom(""a\""b"") `// not a comment`,
}")).
Eval vm_compute in ("<<<M42>>>" ++ check (runes_of_ascii "packet Header { @lengthOf( BodyLength)string body	@lengthOf(	zchar	)  `two words` , @lengthOf( rootA )i32 metadata `it's` ,
    @tag( 00 ) // trailing space 
msg_type@lengthOf( // " ++ [27880; 37322]%N ++ runes_of_ascii "
As )  ,
int { repeat string
//
//	t
u128 `" ++ [233]%N ++ runes_of_ascii "`,
    match MetaDataX as packetx {[ 1	,0] : MetaDataX
    , ""{,}"" :calculatedFrom ,} ,
    // trailing space 
    match asx as Logon  {
7 :uint8x  , 00 : x_y_z
,
    ""\" ++ [233]%N ++ runes_of_ascii """
    : o ,""" ++ [233]%N ++ runes_of_ascii "t" ++ [233]%N ++ runes_of_ascii """
:chars /// triple
, } , body
// `tick` ""quote"" 'q'
// a // b
i64_ `crlf
line` , },	a1
    `line1
line2`  ,
// `tick` ""quote"" 'q'
// a // b
chars `// not a comment`	,@tag( 7
    )
leftPad charz	, int64 a1 @calculatedFrom(
""\n""
)  ,
}")).
Eval vm_compute in ("<<<M1472>>>" ++ check (runes_of_ascii "packet Sub
    // c1
{ // c2
u8 a // c4a
  // c4b
, // c5
@calculatedFrom( // c6
""CRC16"" ) // c8
i16
    // c9
SubSum
    // c10
, } // c12a
  // c12b
root
    // c13
packet // c14
Frame { u16 // c17a
  // c17b
MsgType // c18a
  // c18b
, // c19
u16 BodyLen @lengthOf( // c22
Body
    // c23
) // c24a
  // c24b
, // c25a
  // c25b
Sub // c26a
  // c26b
Body // c27
, // c28
string
    // c29
note // c30
, // c31
@calculatedFrom( // c32
""CRC16"" // c33a
  // c33b
) // c34
i16 // c35a
  // c35b
Checksum ,
    // c37
u8
    // c38
tail , // c40
} ")).
Eval vm_compute in ("<<<M350>>>" ++ check (runes_of_ascii "packet uint8x{ string_	{ repeat zchar
    {
// `tick` ""quote"" 'q'
//x
match u128
as A{42 : pack
    , }, // " ++ [27880; 37322]%N ++ runes_of_ascii "
int64  u128	, repeatCount `it's` // trailing space 
, string asx
//	t
//	t
@calculatedFrom( ""a\""b"" ) , }
    ,
matchKey
@calculatedFrom( ""1"" ) , } ,
match o as
Z9_
{
    // a // b
    [ 7	] : uint8x ,
[ 00 // `tick` ""quote"" 'q'
,// " ++ [128512]%N ++ runes_of_ascii " emoji
""" ++ [233]%N ++ runes_of_ascii "t" ++ [233]%N ++ runes_of_ascii """  , ""\" ++ [233]%N ++ runes_of_ascii """// trailing space 
]  : Packet ,// a // b
} ,f32
A, }root
    packet Foo{	repeat	float32	msg_type , }
")).
Eval vm_compute in ("<<<M253>>>" ++ check (runes_of_ascii "packet pack
{ @rightPad (' ' ) A// c
@calculatedFrom( ""a\\"" )
// " ++ [128512]%N ++ runes_of_ascii " emoji
// " ++ [128512]%N ++ runes_of_ascii " emoji
`
` , u8
    f32a, zchar[007 ] rootA
    `u8 x,`, repeat
/// triple
// a // b
string u128 //
`u8 x,`, @leftPad( ' ' ) char[ 1 ] repeatCount@calculatedFrom( //x
""\n"" ) `doc`,
    o
,
falsey
    leftPad,@calculatedFrom(""a\""b"") @leftPad
    ('0' )
//
// " ++ [27880; 37322]%N ++ runes_of_ascii "
roots	{
u8
zchar @lengthOf(	Logon ) // trailing space 
,
// c
//	t
} , }")).
Eval vm_compute in ("<<<M203>>>" ++ check (runes_of_ascii "/// triple
packet Logon
{ char[
1
    ] T // packet A { u8 x, }
,repeat f32a{ repeat
    options1 , //x
zchar[ 007
    ]Z9_
    ,  u64 packetx, // @lengthOf(
charz  ,
} ,crc  Packet ,
@lengthOf( charz //x
) @leftPad (
    ' ' ) float64 i8i8`{ , }`
//	t
//x
, }
MetaData // a // b
a1  {
    u8 len  `say ""hi""` ,
len Logon //x
`` ,char[] pack
,
    char
    body, }
")).
Eval vm_compute in ("<<<M1589>>>" ++ check (runes_of_ascii "  options

    {LittleEndian 
=
true ;	} packet
	Logon { u8
	x, 
}
packet Logout{u16 reason	,

    }
	root

packet

    Frame
    {i32
	Kind
,
i32

    Kind2
,
match

    Kind	as

    Body
{
1

:

    Logon

, [ 2
,	3
	, 
4

]	:Logout
, 100: Logon 
, },	match Kind2  as Trailer  { 0 
: Logout ,
	}
    , 
}

")).
Eval vm_compute in ("<<<M1250>>>" ++ check (runes_of_ascii "packet calculatedFrom // c1
{ @tag( // c3a
  // c3b
4294967296 // c4
) // c5
u // c6a
  // c6b
msg_type
    // c7
,
    // c8
char[ // c9
3
    // c10
]
    // c11
crc
    // c12
@lengthOf( // c13a
  // c13b
len // c14a
  // c14b
) // c15a
  // c15b
`u8 x,`
    // c16
, // c17
}
    // c18
")).
Eval vm_compute in ("<<<M1366>>>" ++ check (runes_of_ascii "// top
options // c0a
  // c0b
{ LittleEndian = // c3a
  // c3b
true ; // c5a
  // c5b
} // c6
root
    // c7
packet P
    // c9
{ u16
    // c11
a , u32 // c14a
  // c14b
Sum @calculatedFrom( // c16a
  // c16b
""CRC32"" // c17
) , // c19
} // c20a
  // c20b
")).
Eval vm_compute in ("<<<M499>>>" ++ check (runes_of_ascii "options
{
matchKey = 42/// triple
x='0' ;
// packet A { u8 x, }
//
charz
=
// packet A { u8 x, }
// trailing space 
true  ; } MetaData BodyLength
{
uint8
pack,zchar[ 1@calculatedFrom(float ,  float32 x_y_z `` ,u32
_x,i16 body  , }
")).
Eval vm_compute in ("<<<M257>>>" ++ check (runes_of_ascii "packet
float { f64 float `u8 x,` ,
// " ++ [27880; 37322]%N ++ runes_of_ascii "
//	t
@tag(
1 )len tag `crlf
line`
, } root packet u	{ o x `it's` , @rightPad
    ( ) repeat zchar[
00]	Foo ,
    // trailing space 
    }root
packet// `tick` ""quote"" 'q'
string_{}

")).
Eval vm_compute in ("<<<M447>>>" ++ check (runes_of_ascii "options
{
matchKey = 42/// triple
x='0' ;
// packet A { u8 x, }
//
charz
=
// packet A { u8 x, }
// trailing space 
true  ; ; } MetaData BodyLength
{
uint8
pack,zchar[ 1]float ,  float32 x_y_z `` ,u32
_x,i16 body  , }
")).
Eval vm_compute in ("<<<M576>>>" ++ check (runes_of_ascii "options
{
matchKey = 42/// triple
x='0' ;
// packet A { u8 x, }
//
charz
=
// packet A { u8 x, }
// trailing space 
true  ; } MetaData BodyLength
{
uint8
pack,zchar[ 1]float ,  float32 x_y_z @`` ,u32
_x,i16 body  , }
")).
Eval vm_compute in ("<<<M519>>>" ++ check (runes_of_ascii "options
{
matchKey = 42/// triple
x='0' ;
// packet A { u8 x, }
//
charz
=
// packet A { u8 x, }
// trailing space 
true  ; } MetaData BodyLength
{
uint8
pack,zchar[ 1]float ,  float32 match `` ,u32
_x,i16 body  , }
")).
Eval vm_compute in ("<<<M444>>>" ++ check (runes_of_ascii "options
{
matchKey = 42/// triple
x='0' ;
// packet A { u8 x, }
//
charz
=
// packet A { u8 x, }
// trailing space 
}  ; } MetaData BodyLength
{
uint8
pack,zchar[ 1]float ,  float32 x_y_z `` ,u32
_x,i16 body  , }
")).
Eval vm_compute in ("<<<M27>>>" ++ check (runes_of_ascii "packet
    MetaDataX {
    match Header as // a // b
zchar { 0
: pack	[ 42
// packet A { u8 x, }
// c
,	65535 ]
:
crc } , // @lengthOf(
@tag(
    1 )@rightPad (' ' // " ++ [27880; 37322]%N ++ runes_of_ascii "
)
int64  Foo, } // packet A { u8 x, }")).
Eval vm_compute in ("<<<M1345>>>" ++ check (runes_of_ascii "// top
root // c0
packet // c1
P
    // c2
{ hdr
    // c4
{ // c5
u8 // c6
a
    // c7
, // c8a
  // c8b
} // c9a
  // c9b
, // c10
u8 // c11a
  // c11b
x // c12a
  // c12b
, // c13
} // c14
")).
Eval vm_compute in ("<<<M1423>>>" ++ check (runes_of_ascii "

  packet

u128 { u8	a 
,}
root
packet Msg 
{	u8
	k
, u24 {

    u8 Hi	,  u16
Lo
    , 
} ,
repeat i24
{

    u32
q
    ,}
	,
    u128

    , u16
	float32x
	,string
s

, }

")).
Eval vm_compute in ("<<<M707>>>" ++ check (runes_of_ascii "// c
packet i64_ {	char[] calculatedFrom  } packet
trueish  {@calculatedFrom(
""a\\"" ) o { i32 falsey@lengthOf( uint8x ),
} , } // `tick` ""quote"" 'q'
options {// c
Z9_ = ' '//
}
")).
Eval vm_compute in ("<<<M295>>>" ++ check (runes_of_ascii "options{zchar
=7 ;
// c
// packet A { u8 x, }
msg_type =	uint8 falsey =	1 ;
}
    MetaData  Pad// @lengthOf(
{ f64	u `tab	here`
,// a // b
}	options {
    }
// " ++ [128512]%N ++ runes_of_ascii " emoji
")).
Eval vm_compute in ("<<<M1793>>>" ++ check (runes_of_ascii "packet A {
    Inner {
        u8 x `a
            b
          c`,
        Deep {
            u8 y `a
                b
              c`,
        },
    },
}")).
Eval vm_compute in ("<<<M10>>>" ++ check (runes_of_ascii "MetaData
    chars{
char[]Header `say ""hi""`
,
    char[] matchKey
,char[ 1
    ]  u8x , zchar A ,x falsey
,
zchar[ 42
    ] calculatedFrom , }
")).
Eval vm_compute in ("<<<M143>>>" ++ check (runes_of_ascii "options { msg_type = 00 string_ =
// `tick` ""quote"" 'q'
// c
0 x
=
zchar[
255 ] ;leftPad =false ;f32a // @lengthOf(
=
007 ; // " ++ [27880; 37322]%N ++ runes_of_ascii "
}
")).
Eval vm_compute in ("<<<M460>>>" ++ check (runes_of_ascii "options
{
matchKey = 42/// triple
x='0' ;
// packet A { u8 x, }
//
charz
=
// packet A { u8 x, }
// trailing space 
true  ; }")).
Eval vm_compute in ("<<<M602>>>" ++ check (runes_of_ascii "MetaData
    // trailing space 
    matchKey
{ u64 u64 chars // a // b
,char[] lengthOf `// not a comment`
    , //	t
}")).
Eval vm_compute in ("<<<M609>>>" ++ check (runes_of_ascii "MetaData
    // trailing space 
    matchKey
{ u64 repeat // a // b
,char[] lengthOf `// not a comment`
    , //	t
}")).
Eval vm_compute in ("<<<M937>>>" ++ check (runes_of_ascii "packet A {
    Inner {
        u8 x `a
    b
  c`,
        Deep {
            u8 y `a
    b
  c`,
        },
    },
}")).
Eval vm_compute in ("<<<M619>>>" ++ check (runes_of_ascii "MetaData
    // trailing space 
    matchKey
{ u64 chars // a // b
,i16 lengthOf `// not a comment`
    , //	t
}")).
Eval vm_compute in ("<<<M591>>>" ++ check (runes_of_ascii "MetaData
    // trailing space 
    
{ u64 chars // a // b
,char[] lengthOf `// not a comment`
    , //	t
}")).
Eval vm_compute in ("<<<M908>>>" ++ check (runes_of_ascii "packet A {
  match k as n {
    [1, ""bb"", 007, ""d"", 5, ""f"", 7, ""h"", 9, ""j"", 11, ""l""] : B
    2 : C
  },
}")).
Eval vm_compute in ("<<<M1268>>>" ++ check (runes_of_ascii "packet calculatedFrom { @tag( 4294967296 ) u msg_type
// c
, char[ 3 ] crc @lengthOf( len ) `u8 x,` , }")).
Eval vm_compute in ("<<<M867>>>" ++ check (runes_of_ascii "packet A {
  match k as n {
    [""a"", ""bb"", ""c c"", ""d"", ""e"", ""f"", ""g"", ""h"", ""i""] : B
    2 : C
  },
}")).
Eval vm_compute in ("<<<M1636>>>" ++ check (runes_of_ascii "// c
      packet o
    {

@tag( 
42 )	repeat x
	{char[

0123456789]
	i64_	, 
} 
, }options	{
	}
")).
Eval vm_compute in ("<<<M1146>>>" ++ check (runes_of_ascii "packet Logon { @tag( 42 ) @rightPad ( ' ' // c
) @leftPad ( ) repeat trueish { string T , } , }")).
Eval vm_compute in ("<<<M861>>>" ++ check (runes_of_ascii "packet A {
  match k as n {
    [""a"", ""bb"", 007, ""d"", ""e"", 66, ""g"", ""h""] : B,
    2 : C
  },
}")).
Eval vm_compute in ("<<<M1986>>>" ++ check (runes_of_ascii "packet A {
    B b `a
    
    b`,
    B `a
    
    b`,
    repeat B bs `a
    
    b`,
}")).
Eval vm_compute in ("<<<M1779>>>" ++ check (runes_of_ascii "packet A {
    Inner {
        match k as n {
            [1] : B,
        },
    },
}")).
Eval vm_compute in ("<<<M1246>>>" ++ check (runes_of_ascii "packet o { @tag( 42 ) repeat x { char[ 0123456789 ] i64_ , } , } options { } // c
")).
Eval vm_compute in ("<<<M1229>>>" ++ check (runes_of_ascii "packet o { @tag( 42 ) repeat x { char[ 0123456789
// c
] i64_ , } , } options { }")).
Eval vm_compute in ("<<<M1824>>>" ++ check (runes_of_ascii "MetaData matchKey {
    u64 chars,
    char[] lengthOf `// not a comment`,//	t
}")).
Eval vm_compute in ("<<<M201>>>" ++ check (runes_of_ascii "packet A { Logon {
    repeat  char[ 42 ]falsey `a\`  ,repeat int32 T , } ,}")).
Eval vm_compute in ("<<<M804>>>" ++ check (runes_of_ascii "packet A {
  match k as n {
    [1, ""bb"", 007, ""d""] : B
    2 : C
  },
}")).
Eval vm_compute in ("<<<M1311>>>" ++ check (runes_of_ascii "MetaData _x // c
{ zchar[ 4294967296 ] lengthOf `// not a comment` , }")).
Eval vm_compute in ("<<<M791>>>" ++ check (runes_of_ascii "packet A {
  match k as n {
    [1, ""bb"", 007] : B
    2 : C
  },
}")).
Eval vm_compute in ("<<<M16>>>" ++ check (runes_of_ascii "MetaData
    stringy
{ char[ 0] chars// @lengthOf(
`{ , }` , }")).
Eval vm_compute in ("<<<M1682>>>" ++ check (runes_of_ascii "packet
A { 
match k as  n {1 :
B
	, 

    // c
  } ,  }

")).
Eval vm_compute in ("<<<M1291>>>" ++ check (runes_of_ascii "// top
packet // c0
lengthOf // c1
{ // c2
} // c3
")).
Eval vm_compute in ("<<<M1691>>>" ++ check (runes_of_ascii "root packet A {
    u8 x `a
        b`,
}")).
Eval vm_compute in ("<<<M1375>>>" ++ check (runes_of_ascii "

  root 
packet	P{
	string	s,

    } ")).
Eval vm_compute in ("<<<M1498>>>" ++ check (runes_of_ascii "packet
A 
{ u8
x

`d" ++ [12288]%N ++ runes_of_ascii "`, // c" ++ [12288]%N ++ runes_of_ascii "
}
")).
Eval vm_compute in ("<<<M289>>>" ++ check (runes_of_ascii "options
    // " ++ [128512]%N ++ runes_of_ascii " emoji
    { }
")).
Eval vm_compute in ("<<<M922>>>" ++ check (runes_of_ascii "packet A {
    u8 x `a
b`,
}")).
Eval vm_compute in ("<<<M1295>>>" ++ check (runes_of_ascii "
// c
packet lengthOf { }")).
Eval vm_compute in ("<<<M227>>>" ++ check (runes_of_ascii " // packet A { u8 x, }")).
Eval vm_compute in ("<<<M752>>>" ++ check ([65533]%N ++ runes_of_ascii "&" ++ [65533]%N ++ runes_of_ascii "	a" ++ [65533; 6]%N ++ runes_of_ascii "A" ++ [65533]%N ++ runes_of_ascii "N" ++ [65533; 65533]%N ++ runes_of_ascii "$" ++ [12; 65533]%N ++ runes_of_ascii "W" ++ [65533]%N ++ runes_of_ascii "?")).
Eval vm_compute in ("<<<M1055>>>" ++ check (runes_of_ascii "packet A {
}
// c" ++ [6158]%N)).
Eval vm_compute in ("<<<M640>>>" ++ check (runes_of_ascii "MetaData
    // ")).
Eval vm_compute in ("<<<M765>>>" ++ check (runes_of_ascii "Y,v&WC")).
Eval vm_compute in ("<<<M724>>>" ++ check (runes_of_ascii " ")).
