From FP Require Import Lexer Parser ShowPT Digest Formatter.
From Coq Require Import String List NArith.
Import ListNotations.
Open Scope string_scope.
Set Printing Width 100000000.
Set Printing Depth 100000000.
Definition show_fres (r : fres) : string :=
  match r with
  | FOk s => "OK:" ++ sh_escaped s ""
  | FErr s => "ERR:" ++ sh_escaped s ""
  | FPanic p => "PANIC:" ++ p
  end.
Definition check (rs : list rune) : string := digest (show_fres (format_res rs)).
Definition full (rs : list rune) : string := show_fres (format_res rs).
Eval vm_compute in ("<<<M3585>>>" ++ check (runes_of_ascii "options {
    LittleEndian = true;
    StringPrefixLenType = u8;
    ArrayPrefixLenType = u16;
    FixedStringPadChar = '0';
    JavaPackage = ""com.example.msg"";
    GoPackage = ""msg"";
    GoModule = ""example.com/msg"";
}
MetaData Meta {
    u32 SeqNum `sequence number`,
    char[8] Symbol `symbol`,
    zchar[5] ZSym `z symbol`,
    string Note,
    Symbol AltSymbol `alias of symbol`,
    f64 Price,
}
packet Inner {
    u8 a,
    i16 b,
    string c,
}
packet Inner2 {
    u8 a2,
    char[3] c2,
}
packet Logon {
    u8 x,
    string user,
    repeat u16 codes,
}
packet Logout {
    u16 reason,
}
packet Empty {
}
root packet Msg {
    u8 su8,
    uint8 luint8,
    u16 su16,
    uint16 luint16,
    u32 su32,
    uint32 luint32,
    u64 su64,
    uint64 luint64,
    i8 si8,
    int8 lint8,
    i16 si16,
    int16 lint16,
    i32 si32,
    int32 lint32,
    i64 si64,
    int64 lint64,
    f32 sf32,
    float32 lfloat32,
    f64 sf64,
    float64 lfloat64,
    char[6] fsplain,
    @leftPad('0') char[4] fs0,
    @rightPad('0') char[5] fs1,
    @leftPad(' ') char[6] fs2,
    @rightPad(' ') char[7] fs3,
    @leftPad('\x00') char[8] fs4,
    @rightPad('\x00') char[9] fs5,
    @leftPad() char[10] fs6,
    @rightPad() char[11] fs7,
    zchar[7] fz,
    @leftPad('0') zchar[3] fzl0,
    string s1 `doc`,
    char[] s2,
    Inner,
    Sub {
        u8 q,
        string w,
        Deep {
            u16 z,
            repeat i32 zs,
        },
    },
    repeat u8 ru8,
    repeat u16 ru16,
    repeat u32 ru32,
    repeat u64 ru64,
    repeat i8 ri8,
    repeat i16 ri16,
    repeat i32 ri32,
    repeat i64 ri64,
    repeat f32 rf32,
    repeat f64 rf64,
    repeat string rstr,
    repeat char[] rstr2,
    repeat char[3] rfs,
    repeat zchar[3] rfz,
    repeat Inner2,
    repeat Grp {
        u8 k,
        char[2] v,
    },
    SeqNum,
    SeqNum seq2,
    repeat SeqNum seqs,
    Symbol,
    AltSymbol alt,
    ZSym,
    Note,
    repeat Symbol syms,
    Price px,
    u16 MsgType,
    u32 BodyLen @lengthOf(Body),
    match MsgType as Body {
        1 : Logon,
        [2, 3] : Logout,
        7 : Logon,
        9 : Empty,
    },
    u32 Checksum @calculatedFrom(""CRC32""),
}
")).
Eval vm_compute in ("<<<M4061>>>" ++ check (runes_of_ascii "packet Z9_ {
    string options1 @calculatedFrom(""// no comment"") `{ , }`,
    @lengthOf(MetaDataX)
    @tag(1)
    /// triple
    @calculatedFrom(""it's"")
    repeat packetx,
    uint8x @lengthOf(i8i8) `say ""hi""`,// " ++ [27880; 37322]%N ++ runes_of_ascii "
    @leftPad(' ')
    char[7] MetaDataX,
    @tag(65535)
    // @lengthOf(
    trueish {
        i8i8 repeatCount,
    },
    match body as i8i8 {
        255 : f32a,
        ""a\""b"" : int,
        [""CRC32""] : metadata,
    },
    @lengthOf(pack)
    repeat body {
        Foo {
            repeat zchar[65535] string_,
            zchar len `100% of %d`,
        },
        string Z9_,
        match Packet as trueish {
            """ ++ [233]%N ++ runes_of_ascii "t" ++ [233]%N ++ runes_of_ascii """ : pack,
            4294967296 : asx,
        },
    },
    @calculatedFrom(""\n"")
    //
    // " ++ [27880; 37322]%N ++ runes_of_ascii "
    @tag(0)
    repeat Header {
        Pad {
            pack {
                repeat u16 tag,
                match calculatedFrom as trueish {
                    ""abc"" : metadata,
                    [""it's"", 255] : matchKey,
                    4294967296 : x_y_z,
                    [""`tick`""] : asx,
                },
            },//	t
            char[255] pack,// " ++ [128512]%N ++ runes_of_ascii " emoji
            uint32 BodyLength,
        },
        float,
    },
    @calculatedFrom(""a\\"")
    //	t
    @tag(10)
    // a // b
    match falsey as pack {
        // a // b
        /// triple
        7 : x_y_z,
        [""a	b"", ""packet""] : x_y_z,
    },
    lengthOf {
        int8 uint8x,
    },
}// " ++ [27880; 37322]%N ++ runes_of_ascii "

packet A {
}

packet A {
    // 50% %s
    @leftPad(' ')
    @calculatedFrom(""" ++ [233]%N ++ runes_of_ascii "t" ++ [233]%N ++ runes_of_ascii """)
    MetaDataX @lengthOf(calculatedFrom) `crlf
    line`,//	t
}

packet x_y_z {
    @rightPad(' ')
    @lengthOf(leftPad)
    @lengthOf(Header)
    char[0123456789] metadata,
}

packet options1 {
}")).
Eval vm_compute in ("<<<M742>>>" ++ check (runes_of_ascii "// " ++ [27880; 37322]%N ++ runes_of_ascii "
options { metadata  = false}
// packet A { u8 x, }
// `tick` ""quote"" 'q'
root packet Packet {
@calculatedFrom(
// " ++ [27880; 37322]%N ++ runes_of_ascii "
//	t
""CRC32""	) zchar[	1 // @lengthOf(
] MetaDataX `" ++ [28040; 24687; 31867; 22411]%N ++ runes_of_ascii "`, @leftPad ('0' ) // `tick` ""quote"" 'q'
match string_
as leftPad {
// trailing space 
// a // b
[
255// `tick` ""quote"" 'q'
,
""1"" ]
:
BodyLength , ""\n"" : charz, } , //x
zchar[ 65535
] x @calculatedFrom( ""\n"" ),uint64 //x
float `two words`  ,	@rightPad (
    // 50% %s
    ) @calculatedFrom(
    ""it's"" )  match calculatedFrom as
    lengthOf //
{3 : Z9_, 7
    : lengthOf 65535
:
crc , 7 : packetx , """ ++ [128512]%N ++ runes_of_ascii """:BodyLength""1""// trailing space 
:Z9_ } , @tag(	10
) repeat asx
,@lengthOf( T ) body{u64 metadata // @lengthOf(
, Pad roots , i64 u `crlf
line`
,	} ,	char[ 10	]
    Foo ,
    } packet
// @lengthOf(
// packet A { u8 x, }
tag { repeat	leftPad { Packet @calculatedFrom( ""a\\"" )	, } ,
u16  chars, @leftPad
    // packet A { u8 x, }
    ('0')	char[]
    Logon `{ , }` , match Foo as f32a { 7
    : u 3 :u
// " ++ [27880; 37322]%N ++ runes_of_ascii "
// c
,
4294967296
    // c
    : roots}
// c
//x
, string  _x @calculatedFrom(""{,}""	) ,
@leftPad // @lengthOf(
( ' '
)repeat trueish u  `it's` ,
    zchar[
255 ] rootA
@calculatedFrom( ""it's"" ) , u
int
    ,char[  0 ] o `crlf
line`
,
int8 Logon
//	t
// trailing space 
`
`
// " ++ [128512]%N ++ runes_of_ascii " emoji
// 50% %s
,
} root packet
    asx { } root packet	repeatCount  { @tag(
    0
// @lengthOf(
// a // b
)@tag( 00)
    @leftPad ('\x00' ) repeatCount //
@calculatedFrom(
""\" ++ [233]%N ++ runes_of_ascii """
    ) `it's` ,} 	 ")).
Eval vm_compute in ("<<<M1406>>>" ++ check (runes_of_ascii "options {
	StringPrefixLenType = u16;
	ArrayPrefixLenType = u16;
}

packet SampleBinary {
    uint16 MsgType `" ++ [28040; 24687; 31867; 22411]%N ++ runes_of_ascii "`,
    u16 BodyLenght @lengthOf(Body) `" ++ [28040; 24687; 20307; 38271; 24230]%N ++ runes_of_ascii "`,
    match MsgType as Body {
        1 : Logon,
        2 : Logout,
        3 : Heartbeat,
        4 : RiskControlRequest,
        5 : RiskControlResponse,
    },
        @calculatedFrom(""CRC32"")
    u32 Ckecksum `" ++ [26657; 39564; 21644]%N ++ runes_of_ascii "`,
}

packet Logon {
     @leftPad('0')
    char[10] UserName `" ++ [29992; 25143; 21517]%N ++ runes_of_ascii "`,
    string Password `" ++ [23494; 30721]%N ++ runes_of_ascii "`,
    uint64 ClientId `" ++ [23458; 25143; 31471]%N ++ runes_of_ascii "ID`,
    u16 HeartbeatInterval `" ++ [24515; 36339; 38388; 38548]%N ++ runes_of_ascii "`,
}

packet Logout {
      @rightPad('0')
    char[10] UserName `" ++ [29992; 25143; 21517]%N ++ runes_of_ascii "`,
    uint64 ClientId `" ++ [23458; 25143; 31471]%N ++ runes_of_ascii "ID`,
}

packet Heartbeat {
}

packet RiskControlRequest {
    string UniqueOrderId `" ++ [21807; 19968; 35746; 21333; 21495]%N ++ runes_of_ascii "`,
    char[16] ClOrdID `" ++ [23458; 25143; 35746; 21333; 21495]%N ++ runes_of_ascii "`,
    char[3] MarketID `" ++ [24066; 22330]%N ++ runes_of_ascii "id`,
    char[12] SecurityID `" ++ [35777; 21048; 20195; 30721]%N ++ runes_of_ascii "`,
    char Side `" ++ [20080; 21334; 26041; 21521]%N ++ runes_of_ascii "`,
    char OrderType `" ++ [35746; 21333; 31867; 22411]%N ++ runes_of_ascii "`,
    u64 Price `" ++ [20215; 26684]%N ++ runes_of_ascii "`,
    u32 Qty `" ++ [25968; 37327]%N ++ runes_of_ascii "`,
    repeat string ExtraInfo `" ++ [38468; 21152; 20449; 24687]%N ++ runes_of_ascii "`,
    repeat SubOrder {
    		char[16] ClOrdID `" ++ [23376; 35746; 21333; 21495]%N ++ runes_of_ascii "`,
    		u64 Price `" ++ [23376; 35746; 21333; 20215; 26684]%N ++ runes_of_ascii "`,
    		u32 Qty `" ++ [23376; 35746; 21333; 25968; 37327]%N ++ runes_of_ascii "`,
    	},
}

packet RiskControlResponse {
    string UniqueOrderId `" ++ [21807; 19968; 35746; 21333; 21495]%N ++ runes_of_ascii "`,
    i32 Status `" ++ [29366; 24577]%N ++ runes_of_ascii "`,
    string Msg `" ++ [32467; 26524; 20449; 24687]%N ++ runes_of_ascii "`,
    repeat Detail,
}

packet Detail {
    string RuleName `" ++ [35268; 21017; 21517; 31216]%N ++ runes_of_ascii "`,
    u16 Code `" ++ [21407; 22240; 20195; 30721]%N ++ runes_of_ascii "`,
}")).
Eval vm_compute in ("<<<M555>>>" ++ check (runes_of_ascii "  packet a1{
repeat char[
    007
]stringy
,}packet
    Foo { stringy	, match _x as
o
{ 10 // " ++ [128512]%N ++ runes_of_ascii " emoji
:	a1
, } ,  @leftPad
()
    // 50% %s
    Pad@calculatedFrom(""// no comment""//	t
) , // 50% %s
repeat a1 a1 `two words`	,
    i32 falsey `two words` , @calculatedFrom( // trailing space 
""CRC32""	) x
@calculatedFrom(
""\" ++ [233]%N ++ runes_of_ascii """ )`u8 x,` , repeat uint8x {u {	char[]
u128 // " ++ [27880; 37322]%N ++ runes_of_ascii "
@lengthOf(
    leftPad )`{ , }` , roots
    ,  repeat u16 metadata, }  , } , zchar[
007
] BodyLength @calculatedFrom(
// @lengthOf(
// c
""a\\""
) , // " ++ [27880; 37322]%N ++ runes_of_ascii "
char[]
o @lengthOf(f32a ) ,} root packet charz{ @tag(42 ) rootA asx `
` , a1 { u32 stringy,
    float	@calculatedFrom( """ ++ [233]%N ++ runes_of_ascii "t" ++ [233]%N ++ runes_of_ascii """	)	`line1
line2`  ,repeat repeatCount a1  , repeat	msg_type `{ , }` ,}
    , u @calculatedFrom(
""CRC32"" ) `line1
line2`, @lengthOf( f32a ) match
// @lengthOf(
//
zchar as msg_type { [ ""{,}""
]: chars ""packet"":// " ++ [128512]%N ++ runes_of_ascii " emoji
As ,
[ 1,
""CRC32"",
""a\""b""
    , // trailing space 
0]
    :
    tag , } , repeat float32 tag `" ++ [233]%N ++ runes_of_ascii "` //	t
, @tag( 10 ) string string_
@calculatedFrom(""x y"" ) `line1
line2` , @tag( 4294967296
    )
repeat char o ,
    // c
    repeat
    zchar[ 42 ]
msg_type `crlf
line` , char[  42] /// triple
BodyLength @calculatedFrom( ""a	b"" ),}")).
Eval vm_compute in ("<<<M22>>>" ++ check (runes_of_ascii "options {chars =	false } root
    packet uint8x //
{ //	t
@calculatedFrom(
""" ++ [128512]%N ++ runes_of_ascii """ ) falsey {float32 leftPad// " ++ [27880; 37322]%N ++ runes_of_ascii "
@calculatedFrom( ""abc"" ) ,
Z9_ @calculatedFrom(
""it's"" ) ,// trailing space 
} ,
packetx ,
    leftPad	packetx `a\`,
    u128 { tag
    // @lengthOf(
    `line1
line2` ,
T
{
    match
i8i8 as
// @lengthOf(
/// triple
trueish {
10: msg_type  , } ,
} ,
    f32a	uint8x // @lengthOf(
,
    } ,
@calculatedFrom( ""it's"" // a // b
) int16 u8x
    @lengthOf( matchKey ) `say ""hi""`  , zchar { u @lengthOf( u128 )
// a // b
/// triple
`" ++ [28040; 24687; 31867; 22411]%N ++ runes_of_ascii "`
, } ,
match _x as pack { [
007	,""a\""b""
// `tick` ""quote"" 'q'
// packet A { u8 x, }
,
    ""CRC32"" ] : x ,
    }
    ,
repeat char[]
Z9_`line1
line2` , @calculatedFrom( ""\n""	)
calculatedFrom @calculatedFrom(
""1""
) , //
char[ 0 ]
    body
    @lengthOf( metadata ) ,
    } MetaData x
{ }packet MetaDataX	{ @calculatedFrom(  """" ) @lengthOf( options1 )
    pack @lengthOf( u8x
) , Logon @lengthOf( u8x )
// " ++ [27880; 37322]%N ++ runes_of_ascii "
// a // b
, int16	Z9_ `it's` ,}
    options {
T
//x
// trailing space 
= true o= ' '
    matchKey
    =
float32
    matchKey ='\x00' zchar =
    // 50% %s
    u8
    ; }
")).
Eval vm_compute in ("<<<M417>>>" ++ check (runes_of_ascii "packet u
{ match
Z9_
as	As	{ ""a\\""
:calculatedFrom
    ,""it's""
    : options1 /// triple
, 0 :
    // 50% %s
    rootA ,  } ,repeat // c
leftPad// packet A { u8 x, }
,
match As as leftPad { [ 4294967296 ,
"""" , 0123456789 ]
    :
    a1 0123456789 : charz 0123456789
:
    u128 , }, float @lengthOf( x_y_z ) `100% of %d`
, }MetaData
calculatedFrom { matchKey
    // `tick` ""quote"" 'q'
    zchar `crlf
line` , //
}root	packet
float
{ /// triple
@rightPad ( '0' )u{matchKey // packet A { u8 x, }
{ u16 tag
    @lengthOf(
_x )
`tab	here`
    , } ,body @lengthOf( x ) , char[] float `crlf
line`
,
}, @tag(	255 ) //
match Foo as u128
//
// " ++ [128512]%N ++ runes_of_ascii " emoji
{ 0
    : f32a 00  :repeatCount	, ""a	b"": Packet ,255 :	f32a} // trailing space 
, @tag(
// 50% %s
// " ++ [27880; 37322]%N ++ runes_of_ascii "
42 )
    char[ 65535 ]
string_ ,
// packet A { u8 x, }
// 50% %s
@tag( 3 )
    char[] u128 , @tag( 3 )char[0
]
    u128
    @lengthOf( calculatedFrom
) //	t
`two words`  ,
}
    packet tag {@lengthOf(
repeatCount	) matchKey // c
{repeat char[
1 ]	float ,} ,/// triple
}
    root packet packetx { }
")).
Eval vm_compute in ("<<<M1110>>>" ++ check (runes_of_ascii "MetaData // trailing space 
options1 {As
    string_ ,
}
// trailing space 
// " ++ [128512]%N ++ runes_of_ascii " emoji
packet pack
    { i16
    int
    `// not a comment` ,
char[ 0123456789 ]
    Header @calculatedFrom(
    // packet A { u8 x, }
    ""packet""	)
`100% of %d`
    //x
    ,// a // b
match Pad as T { [  007 ] :
    repeatCount
, }
    // c
    ,
    // " ++ [27880; 37322]%N ++ runes_of_ascii "
    Logon@calculatedFrom( ""a	b""  ) , match BodyLength
as
stringy
{ [42 ] // " ++ [128512]%N ++ runes_of_ascii " emoji
: calculatedFrom
,65535 :
pack ""\n"" :repeatCount
[ 1 // " ++ [128512]%N ++ runes_of_ascii " emoji
,
""a\\"" , ""\" ++ [233]%N ++ runes_of_ascii """// c
,10
] //	t
:
BodyLength
// @lengthOf(
//	t
[ """ ++ [128512]%N ++ runes_of_ascii """ ,""a\\""
    ,
""\" ++ [233]%N ++ runes_of_ascii """ , """ ++ [28040; 24687]%N ++ runes_of_ascii """ , ""{,}""
, """ ++ [28040; 24687]%N ++ runes_of_ascii """ ,""x y""] : asx//	t
, ""`tick`"" :
    // `tick` ""quote"" 'q'
    int,}
    , @tag( 255 )
repeatCount
// " ++ [27880; 37322]%N ++ runes_of_ascii "
/// triple
@lengthOf(
    chars )
,
    // " ++ [128512]%N ++ runes_of_ascii " emoji
    @rightPad  (
)
    // packet A { u8 x, }
    @lengthOf(i8i8
    //	t
    ) @calculatedFrom( """ ++ [28040; 24687]%N ++ runes_of_ascii """
    )
    //
    int8 uint8x
    , float32 // c
lengthOf  `line1
line2`,@tag( 4294967296
    )string leftPad
    `u8 x,` ,  }
")).
Eval vm_compute in ("<<<M881>>>" ++ check (runes_of_ascii "packet u {
    // c
    @lengthOf(metadata ) int64 MetaDataX `say ""hi""` // trailing space 
, pack @lengthOf(  i8i8 )
`say ""hi""`
,
    float { repeat char[] BodyLength `" ++ [233]%N ++ runes_of_ascii "` , zchar[
// " ++ [128512]%N ++ runes_of_ascii " emoji
// a // b
1 // packet A { u8 x, }
] metadata//x
`a\`,	a1
// trailing space 
// `tick` ""quote"" 'q'
@calculatedFrom(""x y""
    // trailing space 
    ) ,} ,	repeat float64 tag
    `doc` ,
} options	{repeatCount
    = 00; stringy= zchar[ 0
] ;}root
    packet i8i8 {
    @rightPad ( ' '
// `tick` ""quote"" 'q'
// a // b
)
    a1 ,	@tag(
    // " ++ [27880; 37322]%N ++ runes_of_ascii "
    10
)zchar[00
]
string_
    ,  @lengthOf(//x
Packet )  match Packet as //
asx
//
//	t
{[ 42 ,
    ""\" ++ [233]%N ++ runes_of_ascii """ ] :
lengthOf, 65535 : falsey } ,body leftPad	,} packet
    //
    x_y_z { @calculatedFrom(""// no comment"" ) repeat a1  {
roots MetaDataX
`it's` , } // a // b
,
body
{ repeat char[ 10  ]pack`{ , }`, } , @calculatedFrom( ""\n""
    )
@tag(
00 )
@leftPad (
    // " ++ [27880; 37322]%N ++ runes_of_ascii "
    '0'
) uint32 uint8x , }
")).
Eval vm_compute in ("<<<M4191>>>" ++ check (runes_of_ascii "packet int {
    repeat calculatedFrom {
        zchar[255] stringy @calculatedFrom(""1""),
    },
    pack @lengthOf(i8i8) `// not a comment`,
    @calculatedFrom(""abc"")
    // c
    @rightPad(' ')
    @lengthOf(MetaDataX)
    BodyLength `// not a comment`,
    f32 pack,
    repeat int64 Z9_,
}

options {
}

root packet A {
    o int,
    repeat repeatCount len `{ , }`,
    @lengthOf(len)
    repeat char[1] f32a `two words`,
    i16 crc,
}

root packet _x {
    /// triple
    match metadata as crc {
        ""it's"" : BodyLength,
        // 50% %s
    },
    @lengthOf(string_)
    repeat x leftPad ``,
    repeat zchar[0] leftPad `two words`,
    Logon `// not a comment`,
    float roots `100% of %d`,
}

MetaData calculatedFrom {
    char rootA,
    // packet A { u8 x, }
    // packet A { u8 x, }
    char[] packetx `line1
        line2`,
    int8 metadata,// packet A { u8 x, }
}")).
Eval vm_compute in ("<<<M1118>>>" ++ check (runes_of_ascii "packet roots{
    @rightPad ('\x00' ) /// triple
@tag(
255 )string_ `
` /// triple
,	@rightPad ( ' ') char[
// " ++ [27880; 37322]%N ++ runes_of_ascii "
//	t
0123456789
]
a1 ,
    @tag(
    65535
    ) repeat
string charz
    , match
T as stringy{ 10:
float , 0
:string_
10 :crc	, 7 : //	t
chars, 7
: body ,
    }	, // trailing space 
repeat crc
`crlf
line` ,int32 pack
    // trailing space 
    @lengthOf(
string_ ) `crlf
line` , As@calculatedFrom(
""{,}"" ) , }packet  rootA { }	packet
u8x {@rightPad
( ) match a1 as chars	{  """ ++ [28040; 24687]%N ++ runes_of_ascii """  :a1, [ ""abc""] :
    x_y_z	10 : packetx , [ ""a\""b""  , ""1""	] : float, ""`tick`"": crc ,
} // c
,@tag( 42 )@tag(
    42  )
// " ++ [128512]%N ++ runes_of_ascii " emoji
// c
crc x , matchKey, match rootA
as int
{ 0123456789	: uint8x
    //	t
    , ""1"" : BodyLength
    , // 50% %s
42	: crc
    // " ++ [27880; 37322]%N ++ runes_of_ascii "
    ,// trailing space 
""1"":
    zchar
    ,// packet A { u8 x, }
"""":
    chars, } , }")).
Eval vm_compute in ("<<<M4541>>>" ++ check (runes_of_ascii "root packet stringy {
    string repeatCount `two words`,
    match A as tag {
        [""" ++ [28040; 24687]%N ++ runes_of_ascii """] : i8i8,
        42 : u8x,
        [65535] : MetaDataX,
        ""// no comment"" : leftPad,
        // `tick` ""quote"" 'q'
    },
    @tag(0)
    int8 Packet,
    @calculatedFrom(""" ++ [128512]%N ++ runes_of_ascii """)
    @calculatedFrom(""a	b"")
    @rightPad('\x00')
    trueish,
    match int as zchar {
        [
            65535, 42, 3, ""`tick`"", 0,
            ""a\\""
        ] : T,
        [4294967296] : falsey,
        65535 : falsey,
        // packet A { u8 x, }
        [
            ""a\""b"", ""a	b"", 0, 42, ""x y"",
            ""a\""b""
        ] : body,
        ""packet"" : float,
    },
    @tag(255)
    leftPad @lengthOf(msg_type),
    @lengthOf(As)
    zchar[0123456789] Packet,
    zchar[42] Pad,
}

packet Logon {
    repeat i16 falsey `a\`,
}")).
Eval vm_compute in ("<<<M3358>>>" ++ check (runes_of_ascii "// top
packet
    // c0
stringy // c1a
  // c1b
{ // c2
BodyLength // c3a
  // c3b
`crlf
line` // c4
,
    // c5
@calculatedFrom(
    // c6
""`tick`""
    // c7
)
    // c8
zchar[
    // c9
007 // c10
] // c11
Header // c12a
  // c12b
,
    // c13
@lengthOf( body ) // c16a
  // c16b
zchar[ 42
    // c18
] // c19
pack // c20a
  // c20b
, }
    // c22
packet // c23
Z9_ // c24
{
    // c25
@lengthOf( // c26a
  // c26b
i64_ // c27
) // c28
char[ // c29
255
    // c30
] // c31
u // c32a
  // c32b
`u8 x,` , // c34a
  // c34b
@lengthOf( MetaDataX // c36a
  // c36b
) // c37a
  // c37b
@calculatedFrom(
    // c38
""\n""
    // c39
) // c40
float32
    // c41
Z9_ // c42
, // c43a
  // c43b
} options
    // c45
{
    // c46
_x // c47
= // c48
""it's"" ; // c50
} // c51a
  // c51b
")).
Eval vm_compute in ("<<<M995>>>" ++ check (runes_of_ascii "packet
trueish { @tag(0123456789	) string stringy , repeat rootA
    { zchar[ 42 ]	falsey @calculatedFrom(""x y""// c
) `two words` ,
} , }//
packet As { @tag(	1 ) char[]T
, o@lengthOf( chars /// triple
) ,  rootA`line1
line2` ,  repeat
stringy,
    msg_type
BodyLength
, char[
3 ]
    falsey`doc` //	t
, char[]
pack `u8 x,`
, a1 @lengthOf( Z9_ ) ,
char[]
pack @lengthOf( repeatCount ) `crlf
line` , @lengthOf( Logon)
    float
{repeatCount uint8x ,	} , }packet
    body {@rightPad //x
( '0'
    ) repeat int32 int , @leftPad(  ) @leftPad ( ' ' ) f32a , @lengthOf(rootA
) repeat pack `tab	here`/// triple
, // 50% %s
@lengthOf(
i8i8 ) i64_ , Packet stringy`it's` ,u32 stringy
    //
    , @leftPad ( ' '
) int
    metadata ,
}
")).
Eval vm_compute in ("<<<M3570>>>" ++ check (runes_of_ascii "options {
    StringPrefixLenType = u64;
    ArrayPrefixLenType = u8;
    FixedStringPadFromLeft = true;
    FixedStringPadChar = '0';
}
packet Ack {
    @rightPad('0') char[7] Px,
    u64 msgKind,
    i8 x,
}
packet Party {
    i8 sym,
    repeat Ack,
    repeat InPx10 {
        repeat Ack,
        zchar[1] Ref,
        uint64 Qty,
        u16 tag7,
    },
    int8 clOrdID,
}
packet Fill {
}
packet Order {
}
root packet Quote {
    Order,
    @leftPad('0') char[1] Side2,
    string venue,
    char[7] lastPx,
    u16 tag7,
    u32 clOrdID,
    match clOrdID as Body {
        30 : Order,
        196 : Party,
        10 : Fill,
        28 : Ack,
    },
    u32 sym @calculatedFrom(""CRC32""),
}
")).
Eval vm_compute in ("<<<M788>>>" ++ check (runes_of_ascii "MetaData calculatedFrom//	t
{ i64 packetx `
` , } packet  f32a {
zchar { match
MetaDataX as As { 42 : len
    // `tick` ""quote"" 'q'
    , """ ++ [28040; 24687]%N ++ runes_of_ascii """ : zchar
    , [ ""{,}""
    , """ ++ [233]%N ++ runes_of_ascii "t" ++ [233]%N ++ runes_of_ascii """
    ,007
, 7
    // packet A { u8 x, }
    ] :
x
,  } , repeat
zchar[ 0 // " ++ [27880; 37322]%N ++ runes_of_ascii "
] zchar,string_
`
`
    , char[]
string_ , }
,
@leftPad
() u64  _x ,
@lengthOf(u128
) @calculatedFrom( ""packet"") @leftPad(' ' )
repeat int ,@calculatedFrom( ""packet"" )
msg_type/// triple
,
int32 leftPad `100% of %d`,
    @lengthOf(  calculatedFrom )
zchar @calculatedFrom(	""\n"")	,string chars
@lengthOf( matchKey )
`doc`	, //	t
} MetaData body
{ char matchKey `a\` , char[] falsey , char[ 42]float
, }")).
Eval vm_compute in ("<<<M943>>>" ++ check (runes_of_ascii "
root packet metadata // a // b
{ repeat // a // b
char[]f32a ,  repeat u /// triple
chars  ,	Packet
    //x
    ,
@lengthOf( Z9_
// `tick` ""quote"" 'q'
// c
) match len as
    a1
{""packet"": BodyLength
,}
    // trailing space 
    ,
match metadata as
u { ""a\""b"" : Packet
    ,[ 10 // c
,
    """ ++ [128512]%N ++ runes_of_ascii """]
    : Logon, 255  :  _x
// " ++ [27880; 37322]%N ++ runes_of_ascii "
// `tick` ""quote"" 'q'
10
    : asx,
    //x
    """ ++ [233]%N ++ runes_of_ascii "t" ++ [233]%N ++ runes_of_ascii """ : chars 0123456789
    // " ++ [27880; 37322]%N ++ runes_of_ascii "
    : // trailing space 
T
, }/// triple
, // packet A { u8 x, }
repeat i16 i64_ ,@tag(0 // @lengthOf(
) u8x { crc @lengthOf( x
)
    , } ,char[]string_	`tab	here`	, string	Packet ,  @tag(
4294967296)
    char[10] chars
,
}
")).
Eval vm_compute in ("<<<M1370>>>" ++ check (runes_of_ascii "options  {
lengthOf =  7 ; charz =
i64 ; o
=7
}root packet trueish { repeat  i16 rootA `" ++ [233]%N ++ runes_of_ascii "` ,@calculatedFrom( """" )  zchar[
4294967296
    ]
a1
    @calculatedFrom( ""\n"") `tab	here` ,
match u8x as stringy
{007 :
chars , [
""`tick`"" , ""{,}"" , ""{,}"" , ""\" ++ [233]%N ++ runes_of_ascii """ ,
""a\""b""
    // " ++ [27880; 37322]%N ++ runes_of_ascii "
    ,
00 ,
""// no comment"",""" ++ [28040; 24687]%N ++ runes_of_ascii """ ]  : rootA , 0 // `tick` ""quote"" 'q'
: rootA
, 255 :Header }
,
//x
// trailing space 
} // @lengthOf(
root packet	metadata {
    @leftPad ( ' '	) match i8i8 as len {
[""a\""b""
    ] : calculatedFrom
1 : asx,""CRC32""
:string_ """ ++ [128512]%N ++ runes_of_ascii """ :
x_y_z
    , ""a\\"" :options1 , [ 10
    ] : falsey
, }  ,repeat o T
    ,}
")).
Eval vm_compute in ("<<<M3940>>>" ++ check (runes_of_ascii "packet
    BodyLength
    {
@rightPad( 
' '
)

@rightPad( '0'

) char[]
    // `tick` ""quote"" 'q'

x_y_z@calculatedFrom( ""CRC32"" 
) `{ , }` 
,zchar[007 ] 
o 
//
`" ++ [28040; 24687; 31867; 22411]%N ++ runes_of_ascii "`	,u16
Pad,
	    // trailing space 
}

    packet Pad{  // `tick` ""quote"" 'q'

	uint64 matchKey	// a // b
    @lengthOf( calculatedFrom 
)

    , match	body	as	crc	//x
  {0123456789 :  u8x

,
[
// " ++ [128512]%N ++ runes_of_ascii " emoji
    	""`tick`"",
""\n""
]  :  falsey
	,	00	// @lengthOf(
    :  Pad	,
	""a	b""  :

    u128
[ ""it's""  /// triple

  , 	 //	t
	65535 ,""1""
,1// 50% %s
    ] :
    lengthOf  , 
}	//	t
    	, }	/// triple")).
Eval vm_compute in ("<<<M1184>>>" ++ check (runes_of_ascii "packet
falsey
{ @lengthOf(
asx// 50% %s
) zchar[ 0 ]  Logon
@calculatedFrom(
    """"
)`// not a comment` ,} packet
rootA { @calculatedFrom(  ""x y""
) i32 // trailing space 
T @calculatedFrom( """ ++ [128512]%N ++ runes_of_ascii """ )`" ++ [28040; 24687; 31867; 22411]%N ++ runes_of_ascii "` //
, @tag(0  )T
,}
root
    packet Logon
{
lengthOf @lengthOf( asx )
, body{ repeat string// c
roots	`// not a comment` , repeat uint8 _x ,char[] Header @lengthOf( trueish
) , u8
a1 @calculatedFrom( ""a\""b"" )
``, }
    , @lengthOf( lengthOf
    ) @lengthOf(T
    )
    pack  calculatedFrom , }
    MetaData repeatCount{ f64
body ,uint32
    pack, }
")).
Eval vm_compute in ("<<<M1008>>>" ++ check (runes_of_ascii "
root packet matchKey {  @calculatedFrom(""" ++ [28040; 24687]%N ++ runes_of_ascii """ ) charz
    `two words` ,  } packet
    Logon { @rightPad ( ) u64 stringy @calculatedFrom(
    //x
    """ ++ [128512]%N ++ runes_of_ascii """) ``
,
}
packet lengthOf{} packet
MetaDataX{
    char[007
    ] a1, } packet int { repeat char[ 0123456789 ] Foo
    // trailing space 
    ,a1	,@rightPad
( '0' )	u64 A `it's`//
,float len
    `" ++ [28040; 24687; 31867; 22411]%N ++ runes_of_ascii "` ,	float32
    o
    @lengthOf(Header )
, char[ 65535 ] Packet `two words`
    , zchar[1
] x_y_z ,repeat f64 BodyLength `100% of %d` ,
string zchar@lengthOf(a1)
`" ++ [233]%N ++ runes_of_ascii "`
    // " ++ [27880; 37322]%N ++ runes_of_ascii "
    , }")).
Eval vm_compute in ("<<<M207>>>" ++ check (runes_of_ascii "root
    packet metadata{ u
    ,
} options
// trailing space 
// c
{ metadata = char[]
}
packet roots{	}
    packet stringy
{
    @lengthOf( Pad
)
    u8 a1
    /// triple
    `say ""hi""` ,i32
    string_ `doc`
    ,  @leftPad
    ( '0' ) // `tick` ""quote"" 'q'
i64_ @calculatedFrom( ""a	b""
) `" ++ [233]%N ++ runes_of_ascii "` , A //x
{match f32a as
    // @lengthOf(
    pack
{ ""\" ++ [233]%N ++ runes_of_ascii """ :
len , 7 :// " ++ [27880; 37322]%N ++ runes_of_ascii "
f32a""a	b"" :i8i8 } , repeat
u128 u
, } ,repeat char[ 7 ]options1,
uint32
    int , u64 calculatedFrom @calculatedFrom( ""{,}""
//	t
//x
) , //x
}
")).
Eval vm_compute in ("<<<M530>>>" ++ check (runes_of_ascii "MetaData a1 { char[0123456789 ] x , }packet metadata{
    repeat
Header{
    // " ++ [27880; 37322]%N ++ runes_of_ascii "
    char[] string_ `a\` , Z9_, } , // 50% %s
@lengthOf(
repeatCount)
float
    @calculatedFrom( //
""packet"" ), tag { char[
    65535 ] roots,
char[]
pack
,
repeat i64 options1 ,
    }
// " ++ [27880; 37322]%N ++ runes_of_ascii "
//x
, match asx as leftPad{
["""" ,
""\n"" ,
0123456789 ,
    007,	""`tick`"", 4294967296 , """ ++ [233]%N ++ runes_of_ascii "t" ++ [233]%N ++ runes_of_ascii """
,
""" ++ [128512]%N ++ runes_of_ascii """
]
    : pack ,  7 :trueish ,[ ""it's"" ]
:
u128 ,	""// no comment"" :
    float
,  ""a	b"": body ,007 :Packet , } ,
    }
")).
Eval vm_compute in ("<<<M1189>>>" ++ check (runes_of_ascii "  packet  matchKey
{
@calculatedFrom( ""it's"" )u128 { repeat msg_type{pack u
`// not a comment` , charz @calculatedFrom( """" ) , match int	as
float {
    ""abc"" : As , 4294967296
: stringy 255 : rootA	}
    ,
    repeat
falsey{falsey charz
`crlf
line`
, repeat
    uint64 x_y_z`it's`
// trailing space 
/// triple
, i8i8 `" ++ [28040; 24687; 31867; 22411]%N ++ runes_of_ascii "`
,uint64 As //	t
@lengthOf(	trueish ) `crlf
line` , }, }, } ,
packetx
As
    ,
    // " ++ [128512]%N ++ runes_of_ascii " emoji
    @lengthOf( charz ) uint8x
    u `` ,}
")).
Eval vm_compute in ("<<<M928>>>" ++ check (runes_of_ascii "root
packet msg_type {
    Header { match body
as msg_type {
[ // trailing space 
3, 7 ] :
x //
, },	match
    lengthOf as
stringy{ 10 : calculatedFrom
    , } , match Foo as rootA {[
0123456789
    ] : zchar , }
, }//x
, @calculatedFrom( ""abc"" )
    match pack as // packet A { u8 x, }
leftPad
    {[	007
, 10	]: pack ,  ""CRC32"": Foo ,""it's""
    : Packet //	t
, 00 :  Z9_ ,
    }, repeat u8
crc
`crlf
line` ,}
    options { falsey = ' ' }
")).
Eval vm_compute in ("<<<M351>>>" ++ check (runes_of_ascii "packet packetx {@calculatedFrom(""`tick`"" ) repeat
    // " ++ [27880; 37322]%N ++ runes_of_ascii "
    rootA
    // `tick` ""quote"" 'q'
    { i16 u
/// triple
// `tick` ""quote"" 'q'
@lengthOf(
len), int asx ,zchar[ 255 ]
Packet @calculatedFrom( ""a	b"" ) `" ++ [233]%N ++ runes_of_ascii "` ,
As falsey `// not a comment`
,} ,/// triple
o i64_  `u8 x,` ,repeat zchar[ 4294967296
    ]
    matchKey `
`
    , @lengthOf(
    // @lengthOf(
    int
    ) // @lengthOf(
i8 chars
`u8 x,`
    , }
/// triple
")).
Eval vm_compute in ("<<<M1160>>>" ++ check (runes_of_ascii "
options
{uint8x =
false /// triple
; roots =	char[];
    Packet = 4294967296;
u128 = true ; leftPad // c
=
    zchar[0123456789 ] ; } packet
    tag { }MetaData BodyLength {
//	t
// `tick` ""quote"" 'q'
u16
    // @lengthOf(
    trueish `tab	here` , } packet	MetaDataX
    /// triple
    {@calculatedFrom( ""{,}"") metadata
@calculatedFrom(
""// no comment""	), } packet // 50% %s
matchKey{leftPad ,string x,  }
// " ++ [27880; 37322]%N ++ runes_of_ascii "
")).
Eval vm_compute in ("<<<M3740>>>" ++ check (runes_of_ascii "// top
	options  // c0

  {  // c1
u	// c2
  	=  // c3
  	00 // c4

  stringy // c5
	=// c6
    '0'	// c7
} 	 // c8
packet  // c9
    stringy	// c10
		{	// c11
      } // c12
MetaData 	 // c13

  repeatCount// c14
    	{	// c15
    MetaDataX// c16
	  leftPad  // c17
  ,  // c18

string  // c19
	body 	 // c20
	  `
`// c21
,// c22
  metadata	// c23
  	options1  // c24
	,// c25
  } // c26
 
")).
Eval vm_compute in ("<<<M3765>>>" ++ check (runes_of_ascii "MetaData T {
    char[] options1 `say ""hi""`,
}

MetaData lengthOf {
    zchar[7] _x,
}

options {
    len = i32;//x
    pack = '\x00';
    // `tick` ""quote"" 'q'
    // `tick` ""quote"" 'q'
    tag = true;
    u8x = 00;
    msg_type = ""a\\""
}

packet trueish {
    calculatedFrom `tab	here`,
}

packet crc {
    repeat falsey {
        repeat chars `crlf
                line`,
    },
}")).
Eval vm_compute in ("<<<M4431>>>" ++ check (runes_of_ascii "packet leftPad {
    stringy @calculatedFrom(""\" ++ [233]%N ++ runes_of_ascii """) `say ""hi""`,
    @rightPad('0')
    @tag(4294967296)
    lengthOf @calculatedFrom(""a	b""),
    // packet A { u8 x, }
    //	t
    repeat i32 trueish `line1
        line2`,
    // `tick` ""quote"" 'q'
}// " ++ [27880; 37322]%N ++ runes_of_ascii "

packet zchar {
    repeat string x,
}

options {
    u8x = 0;
    A = ""x y""
    roots = char;
    packetx = false;
}")).
Eval vm_compute in ("<<<M142>>>" ++ check (runes_of_ascii "packet T
{ char[]metadata  @calculatedFrom(	""abc"" ) /// triple
`line1
line2` ,
    }packet
    /// triple
    body
    // " ++ [27880; 37322]%N ++ runes_of_ascii "
    { repeat
len i64_ // @lengthOf(
, }
packet	float
// trailing space 
//
{ @leftPad
    ('0')
    // " ++ [27880; 37322]%N ++ runes_of_ascii "
    i32 Header @calculatedFrom( ""a	b"" )
    ,
/// triple
// " ++ [27880; 37322]%N ++ runes_of_ascii "
string  Logon @calculatedFrom(	""a	b"" ) /// triple
,
rootA ,
}")).
Eval vm_compute in ("<<<M3539>>>" ++ check (runes_of_ascii "options {
    StringPrefixLenType = u32;
    FixedStringPadFromLeft = false;
}
packet Logout {
    f64 Flags,
    repeat InTail1 {
        int32 Flags,
        zchar[1] tag7,
    },
    repeat string x,
}
root packet Trade {
    repeat f32 Acct,
    InTail62 {
        u32 Qty,
        zchar[1] x,
    },
    repeat string Side2,
    u16 Ref,
}
")).
Eval vm_compute in ("<<<M1382>>>" ++ check (runes_of_ascii "options
    // c
    {lengthOf
=
    0123456789	x_y_z= ""CRC32"" ; } root packet Packet {@rightPad
    (' '
)
char[]	string_
@calculatedFrom(""// no comment""
/// triple
// " ++ [128512]%N ++ runes_of_ascii " emoji
) ,
// c
// a // b
match body as Z9_ { ""`tick`"":charz	, 4294967296 :
uint8x , 00 : x
    , },@tag( //
3 )@tag( 255 ) /// triple
repeat i64_	`a\`
,}
")).
Eval vm_compute in ("<<<M422>>>" ++ check (runes_of_ascii "packet
msg_type{@calculatedFrom(
""1"" )
// `tick` ""quote"" 'q'
// @lengthOf(
@lengthOf( u8x
    )
    @rightPad
(  ' '  ) pack rootA ,
    repeat char[ // @lengthOf(
4294967296  ] u ,
    @lengthOf( Packet
    // @lengthOf(
    )
@lengthOf( falsey
// a // b
// " ++ [27880; 37322]%N ++ runes_of_ascii "
) @lengthOf( BodyLength )  repeat float64 pack	, }
")).
Eval vm_compute in ("<<<M999>>>" ++ check (runes_of_ascii "packet
    MetaDataX {@tag( 10 )
    i8
asx`crlf
line` , @lengthOf( crc )match x_y_z
as Foo
{ 00 :
u8x ,
    } ,@tag(
    4294967296 ) int16 x_y_z , repeat int32
    trueish , @calculatedFrom(
""x y"" ) repeat u32	matchKey  , repeat //	t
uint8x BodyLength `it's` , repeat i64
    _x `100% of %d` , }

")).
Eval vm_compute in ("<<<M3596>>>" ++ check (runes_of_ascii "
root 
packet MetaDataX	{
    pack {

u8x { 
uint16 
uint8x,
    // " ++ [27880; 37322]%N ++ runes_of_ascii "
	} ,}, }
packet rootA
    {	A
    charz `" ++ [233]%N ++ runes_of_ascii "` ,float64
    rootA	`" ++ [28040; 24687; 31867; 22411]%N ++ runes_of_ascii "`,}  MetaData	Z9_ {
	pack 
repeatCount 
`u8 x,`
    , string  x  `100% of %d`
,

    string 
repeatCount  //	t
    `a\` 
,}  // packet A { u8 x, }
")).
Eval vm_compute in ("<<<M1849>>>" ++ check (runes_of_ascii "packet packet	packetx { // trailing space 
x_y_z
{
string
charz ,
string x// @lengthOf(
`two words`
    ,  u8x { // `tick` ""quote"" 'q'
charz `100% of %d` // packet A { u8 x, }
,}// " ++ [27880; 37322]%N ++ runes_of_ascii "
,} , }
    // a // b
    packet metadata {  @leftPad ( '0') repeat i32 options1 ,u64 uint8x , }
")).
Eval vm_compute in ("<<<M1914>>>" ++ check (runes_of_ascii "packet	packetx { // trailing space 
x_y_z
{
string
charz ,
string x// @lengthOf(
`two words`
    ,  u8x char // `tick` ""quote"" 'q'
charz `100% of %d` // packet A { u8 x, }
,}// " ++ [27880; 37322]%N ++ runes_of_ascii "
,} , }
    // a // b
    packet metadata {  @leftPad ( '0') repeat i32 options1 ,u64 uint8x , }
")).
Eval vm_compute in ("<<<M1939>>>" ++ check (runes_of_ascii "packet	packetx { // trailing space 
x_y_z
{
string
charz ,
string x// @lengthOf(
`two words`
    ,  u8x { // `tick` ""quote"" 'q'
charz `100% of %d` // packet A { u8 x, }
,}// " ++ [27880; 37322]%N ++ runes_of_ascii "
as} , }
    // a // b
    packet metadata {  @leftPad ( '0') repeat i32 options1 ,u64 uint8x , }
")).
Eval vm_compute in ("<<<M1953>>>" ++ check (runes_of_ascii "packet	packetx { // trailing space 
x_y_z
{
string
charz ,
string x// @lengthOf(
`two words`
    ,  u8x { // `tick` ""quote"" 'q'
charz `100% of %d` // packet A { u8 x, }
,}// " ++ [27880; 37322]%N ++ runes_of_ascii "
,} , packet
    // a // b
    } metadata {  @leftPad ( '0') repeat i32 options1 ,u64 uint8x , }
")).
Eval vm_compute in ("<<<M1951>>>" ++ check (runes_of_ascii "packet	packetx { // trailing space 
x_y_z
{
string
charz ,
string x// @lengthOf(
`two words`
    ,  u8x { // `tick` ""quote"" 'q'
charz `100% of %d` // packet A { u8 x, }
,}// " ++ [27880; 37322]%N ++ runes_of_ascii "
,} , 
    // a // b
    packet metadata {  @leftPad ( '0') repeat i32 options1 ,u64 uint8x , }
")).
Eval vm_compute in ("<<<M3767>>>" ++ check (runes_of_ascii "packet T {
    char[] metadata @calculatedFrom(""abc"") `line1
    line2`,
}

packet body {
    repeat len i64_,
}

packet float {
    @leftPad('0')
    // " ++ [27880; 37322]%N ++ runes_of_ascii "
    i32 Header @calculatedFrom(""a	b""),
    /// triple
    // " ++ [27880; 37322]%N ++ runes_of_ascii "
    string Logon @calculatedFrom(""a	b""),
    rootA,
}")).
Eval vm_compute in ("<<<M2001>>>" ++ check (runes_of_ascii "packet	packetx { // trailing space 
x_y_z
{
string
charz ,
string x// @lengthOf(
`two words`
    ,  u8x { // `tick` ""quote"" 'q'
charz `100% of %d` // packet A { u8 x, }
,}// " ++ [27880; 37322]%N ++ runes_of_ascii "
,} , }
    // a // b
    packet metadata {  @leftPad ( '0') repeat i32  ,u64 uint8x , }
")).
Eval vm_compute in ("<<<M3500>>>" ++ check (runes_of_ascii "// top
packet // c0a
  // c0b
orderItem // c1a
  // c1b
{ // c2
u8
    // c3
a , }
    // c6
root
    // c7
packet // c8a
  // c8b
newOrder // c9a
  // c9b
{ orderItem // c11a
  // c11b
, // c12a
  // c12b
u8
    // c13
x
    // c14
, // c15a
  // c15b
}
    // c16
")).
Eval vm_compute in ("<<<M1093>>>" ++ check (runes_of_ascii "packet _x{
    @lengthOf( Z9_
) @calculatedFrom( ""// no comment"" ) @tag( 10 ) _x { msg_type, int32 i8i8	@lengthOf( //x
string_)  `" ++ [233]%N ++ runes_of_ascii "`
, crc@lengthOf( Pad ) , }
    , Foo a1,@rightPad('0'
    //
    ) char[]asx
@lengthOf( options1 ) ,
int32 x `it's` , } // a // b")).
Eval vm_compute in ("<<<M543>>>" ++ check (runes_of_ascii "options	{
x =	uint32 ;
    _x= true ;
    matchKey = ""`tick`"" // a // b
;
// trailing space 
//	t
tag =
//
// " ++ [27880; 37322]%N ++ runes_of_ascii "
'0' ; packetx =char[
    3 ]
}options{ }
    //x
    packet rootA { roots
    , @lengthOf(
    falsey ) @lengthOf( u128 ) zchar[
255] stringy
, }

")).
Eval vm_compute in ("<<<M2151>>>" ++ check (runes_of_ascii "packet// packet A { u8 x, }
repeatCount	{// packet A { u8 x, }
@leftPad ( '\x00'
) repeat u8x MetaDataX `crlf
line`,
    repeat
    char[] MetaDataX
    ,
u64	uint8x@calculatedFrom(""a\""b""
// c
// packet A { u8 x, }
`tab	here` )
,//
}MetaData pack
    {
    }
")).
Eval vm_compute in ("<<<M2129>>>" ++ check (runes_of_ascii "packet// packet A { u8 x, }
repeatCount	{// packet A { u8 x, }
@leftPad ( '\x00'
) repeat u8x MetaDataX `crlf
line`,
    repeat
    char[] MetaDataX
    ,
	uint8x@calculatedFrom(""a\""b""
// c
// packet A { u8 x, }
) `tab	here`
,//
}MetaData pack
    {
    }
")).
Eval vm_compute in ("<<<M1441>>>" ++ check (runes_of_ascii "packet calculatedFrom
{ @calculatedFrom( ""a\\"" float32 zchar[ 4294967296 ]
calculatedFrom@lengthOf( pack )	`100% of %d` ,char[]body@calculatedFrom( ""// no comment"" )  ,
@tag( 007) //x
int8
leftPad`it's` , repeat pack
    { repeat char[ 3] body
,},
}")).
Eval vm_compute in ("<<<M4239>>>" ++ check (runes_of_ascii "
root

    packet
msg_type

    {	@leftPad (
'\x00'

)
	    // trailing space 
	  //x

	o@lengthOf(x_y_z	) , 
repeat

// 50% %s
    // c
f64

    matchKey
	`it's` 
,

    @calculatedFrom(  ""1"" )	uint16 // trailing space 

matchKey ,
    }

")).
Eval vm_compute in ("<<<M1629>>>" ++ check (runes_of_ascii "packet calculatedFrom
{ @calculatedFrom( ""a\\"" ) zchar[ 4294967296 ]
calculatedFrom@lengthOf( pack )	`100% of %d` ,char[]body@calculatedFrom( ""// no comment"" )  ,
@tag( 007~ ) //x
int8
leftPad`it's` , repeat pack
    { repeat char[ 3] body
,},
}")).
Eval vm_compute in ("<<<M1426>>>" ++ check (runes_of_ascii "packet calculatedFrom
) @calculatedFrom( ""a\\"" ) zchar[ 4294967296 ]
calculatedFrom@lengthOf( pack )	`100% of %d` ,char[]body@calculatedFrom( ""// no comment"" )  ,
@tag( 007) //x
int8
leftPad`it's` , repeat pack
    { repeat char[ 3] body
,},
}")).
Eval vm_compute in ("<<<M1600>>>" ++ check (runes_of_ascii "packet calculatedFrom
{ @calculatedFrom( ""a\\"" ) zchar[ 4294967296 ]
calculatedFrom@lengthOf( pack )	`100% of %d` ,char[]body@calculatedFrom( ""// no comment"" )  ,
@tag( 007) //x
int8
leftPad`it's` , repeat pack
    { repeat char[ 3] body
,,}
}")).
Eval vm_compute in ("<<<M1417>>>" ++ check (runes_of_ascii "i64 calculatedFrom
{ @calculatedFrom( ""a\\"" ) zchar[ 4294967296 ]
calculatedFrom@lengthOf( pack )	`100% of %d` ,char[]body@calculatedFrom( ""// no comment"" )  ,
@tag( 007) //x
int8
leftPad`it's` , repeat pack
    { repeat char[ 3] body
,},
}")).
Eval vm_compute in ("<<<M1443>>>" ++ check (runes_of_ascii "packet calculatedFrom
{ @calculatedFrom( ""a\\"" )  4294967296 ]
calculatedFrom@lengthOf( pack )	`100% of %d` ,char[]body@calculatedFrom( ""// no comment"" )  ,
@tag( 007) //x
int8
leftPad`it's` , repeat pack
    { repeat char[ 3] body
,},
}")).
Eval vm_compute in ("<<<M3714>>>" ++ check (runes_of_ascii "
packet	// c
      repeatCount
{

}
	MetaData calculatedFrom
	{
	}

    root 
packet

Header
    {  repeat

f32a
metadata
	`doc`
	,
}
    root
packet
    u128 {
@calculatedFrom(
""""
	)  zchar[4294967296 
]A
@lengthOf(  A  )
	,  }

")).
Eval vm_compute in ("<<<M3894>>>" ++ check (runes_of_ascii "MetaData trueish

{ stringy
BodyLength 
        // 50% %s
// 50% %s
,char[	007
]
// a // b
	metadata

,
float64 zchar ,
	leftPad chars ,
u32  MetaDataX ,
    } options

    {	lengthOf 

// c
	// c
	  = ""a\""b""
}
")).
Eval vm_compute in ("<<<M563>>>" ++ check (runes_of_ascii "packet stringy { char[ 0123456789 ] Packet	@lengthOf(
// c
//	t
trueish
)
,
char[]
crc`" ++ [233]%N ++ runes_of_ascii "` , float
i64_
    ,repeat // 50% %s
stringy
`{ , }` // packet A { u8 x, }
, @calculatedFrom( ""1"" ) repeat  string_ , }
")).
Eval vm_compute in ("<<<M834>>>" ++ check (runes_of_ascii "packet lengthOf {// trailing space 
@lengthOf( Pad ) @leftPad
// a // b
/// triple
( ' ' )@rightPad (
'0' )
    u/// triple
@lengthOf( _x  )	`say ""hi""` ,o x ,
@calculatedFrom(
""`tick`""
    )
    Pad ,}")).
Eval vm_compute in ("<<<M265>>>" ++ check (runes_of_ascii "packet	matchKey {
@lengthOf( Logon )repeat zchar	{zchar[
007 ] MetaDataX ,
}, } options {	A = ""`tick`"";
    // " ++ [128512]%N ++ runes_of_ascii " emoji
    uint8x =
i64  matchKey =uint16 a1 =
    ' ' ;chars = true /// triple
}")).
Eval vm_compute in ("<<<M599>>>" ++ check (runes_of_ascii "MetaData
    float	{ MetaDataX
    charz
,
    u128 A// @lengthOf(
`u8 x,` , MetaDataX falsey ,
u8x repeatCount	,
    i32 asx
    ,  float64 zchar `" ++ [233]%N ++ runes_of_ascii "` /// triple
,
    } options
    {}
")).
Eval vm_compute in ("<<<M2148>>>" ++ check (runes_of_ascii "packet// packet A { u8 x, }
repeatCount	{// packet A { u8 x, }
@leftPad ( '\x00'
) repeat u8x MetaDataX `crlf
line`,
    repeat
    char[] MetaDataX
    ,
u64	uint8x@calculatedFrom(")).
Eval vm_compute in ("<<<M4208>>>" ++ check (runes_of_ascii "
MetaData u8x
{ 
}
packet// trailing space 

zchar 	 // `tick` ""quote"" 'q'
{  charz {
    trueish	// 50% %s

`two words` 
,	} ,
    }
    options {T = string }	// " ++ [128512]%N ++ runes_of_ascii " emoji
")).
Eval vm_compute in ("<<<M494>>>" ++ check (runes_of_ascii "packet i64_ {} MetaData packetx{ char[ 7]	stringy`line1
line2` ,/// triple
zchar repeatCount `crlf
line` , len i64_ , zchar[
42]
As
    ,}
//x
// " ++ [27880; 37322]%N ++ runes_of_ascii "
MetaData
crc	{}")).
Eval vm_compute in ("<<<M1715>>>" ++ check (runes_of_ascii "options { } packet Packet{char[] i64_ ,
@tag(
    255) match
crc as i8i8 MetaData""{,}"" : trueish """" : Pad , ""a\\"" :
Foo ,
    1 :packetx
, """ ++ [128512]%N ++ runes_of_ascii """ : trueish , } , }")).
Eval vm_compute in ("<<<M4192>>>" ++ check (runes_of_ascii "MetaData metadata {
    a1 lengthOf `100% of %d`,
    // " ++ [128512]%N ++ runes_of_ascii " emoji
    asx o,
    int32 crc,
}

packet a1 {
    @tag(0)
    zchar[65535] len `// not a comment`,
}")).
Eval vm_compute in ("<<<M764>>>" ++ check (runes_of_ascii "packet matchKey{
a1 x ,repeat Foo { repeat
tag options1
    `crlf
line`,
    } , @calculatedFrom( ""1"")uint32	metadata	,
int16 pack `u8 x,`, }
// @lengthOf(
")).
Eval vm_compute in ("<<<M2374>>>" ++ check (runes_of_ascii "
packet MetaDataX
{
    @leftPad
( // a // b
'0'
) i8 u @lengthOf(
MetaDataX
    ) `say ""hi""` ,	} MetaData { BodyLength
    asx
x_y_z `" ++ [233]%N ++ runes_of_ascii "`
, uint64 u128 , }
")).
Eval vm_compute in ("<<<M1798>>>" ++ check (runes_of_ascii "options { } packet Packet{char[] i64_ ,
@tag(
    255) match
crc as i8i8{""{,}"" : trueish """" : Pad , ""a\\"" :
Foo ,
    1 :packetx
, """ ++ [128512]%N ++ runes_of_ascii """ : : trueish , } , }")).
Eval vm_compute in ("<<<M1774>>>" ++ check (runes_of_ascii "options { } packet Packet{char[] i64_ ,
@tag(
    255) match
crc as i8i8{""{,}"" : trueish """" : Pad , ""a\\"" :
Foo ,
    : 1 packetx
, """ ++ [128512]%N ++ runes_of_ascii """ : trueish , } , }")).
Eval vm_compute in ("<<<M1719>>>" ++ check (runes_of_ascii "options { } packet Packet{char[] i64_ ,
@tag(
    255) match
crc as i8i8{: ""{,}"" trueish """" : Pad , ""a\\"" :
Foo ,
    1 :packetx
, """ ++ [128512]%N ++ runes_of_ascii """ : trueish , } , }")).
Eval vm_compute in ("<<<M593>>>" ++ check (runes_of_ascii "
MetaData chars
{Logon MetaDataX
`
` ,	zchar[ 00] // @lengthOf(
zchar`tab	here` ,
//	t
// @lengthOf(
metadata As `doc`,	matchKey pack , }
// @lengthOf(
")).
Eval vm_compute in ("<<<M4324>>>" ++ check (runes_of_ascii "  options{// 50% %s
  roots

    =

    3
    _x =
false len =
	""" ++ [28040; 24687]%N ++ runes_of_ascii """ 
	// " ++ [27880; 37322]%N ++ runes_of_ascii "
	// " ++ [128512]%N ++ runes_of_ascii " emoji
rootA
=true
	;
    }

MetaData chars
	{
}
    options{

}")).
Eval vm_compute in ("<<<M4119>>>" ++ check (runes_of_ascii "MetaData float {
    MetaDataX charz,
    u128 A `u8 x,`,
    MetaDataX falsey,
    u8x repeatCount,
    i32 asx,
    float64 zchar `" ++ [233]%N ++ runes_of_ascii "`,
}

options {
}")).
Eval vm_compute in ("<<<M1805>>>" ++ check (runes_of_ascii "options { } packet Packet{char[] i64_ ,
@tag(
    255) match
crc as i8i8{""{,}"" : trueish """" : Pad , ""a\\"" :
Foo ,
    1 :packetx
, """ ++ [128512]%N ++ runes_of_ascii """ : ) , } , }")).
Eval vm_compute in ("<<<M4397>>>" ++ check (runes_of_ascii "MetaData metadata {
}

MetaData rootA {
    i8 i64_,
    roots options1 `a\`,
    lengthOf Header,
    Z9_ Foo,
    int16 BodyLength,
    // c
}")).
Eval vm_compute in ("<<<M3938>>>" ++ check (runes_of_ascii "

  packet
	B  { u8 a  , 
}
	root
	packet 
P{ 
u8

K

    , u64	L
@lengthOf( 
Body) ,
	match

    K
	as  Body

    {	1
	: B,
}	,
	} ")).
Eval vm_compute in ("<<<M968>>>" ++ check (runes_of_ascii "options {As/// triple
=
""" ++ [28040; 24687]%N ++ runes_of_ascii """ }options
// c
// c
{o
    = ' ' // c
; i8i8
=
' '
msg_type= uint8 ; trueish = false
    i64_ = 255; } 	 ")).
Eval vm_compute in ("<<<M4406>>>" ++ check (runes_of_ascii "MetaData u8x {
    trueish int,
}

MetaData o {
    char[1] trueish,
    zchar[255] Pad,
    int16 MetaDataX,
}

packet packetx {
}")).
Eval vm_compute in ("<<<M684>>>" ++ check (runes_of_ascii "MetaData Packet {zchar[007	] tag
    `a\`
,	zchar[ 10
    ]u,
float  x_y_z
,
rootA  metadata`` , char[	0 ] A// a // b
, }
")).
Eval vm_compute in ("<<<M3284>>>" ++ check (runes_of_ascii "MetaData metadata { } MetaData rootA { i8 i64_ , roots options1 // c
`a\` , lengthOf Header , Z9_ Foo , int16 BodyLength , }")).
Eval vm_compute in ("<<<M3492>>>" ++ check (runes_of_ascii "

  packet 
A { u8
	a
	,
} packet B

{ u16
b ,	}

root 
packet
    P
{ u8  K, match K as M
	{1:A , 
1
:  B ,},

    }
")).
Eval vm_compute in ("<<<M650>>>" ++ check (runes_of_ascii "packet
As{@lengthOf(
    crc  )
    // " ++ [128512]%N ++ runes_of_ascii " emoji
    char[ 4294967296 ] // trailing space 
u8x `// not a comment`,
}
")).
Eval vm_compute in ("<<<M1771>>>" ++ check (runes_of_ascii "options { } packet Packet{char[] i64_ ,
@tag(
    255) match
crc as i8i8{""{,}"" : trueish """" : Pad , ""a\\"" :
Foo")).
Eval vm_compute in ("<<<M3323>>>" ++ check (runes_of_ascii "MetaData float {
// c
uint8 BodyLength , } MetaData charz { float32 trueish `a\` , i16 metadata `say ""hi""` , }")).
Eval vm_compute in ("<<<M3513>>>" ++ check (runes_of_ascii "

  packet 
FooBar

    { u8
	a 
,
	}	packet
foo_bar

{

u16
b ,	} root	packet R  {FooBar

,foo_bar ,
}

")).
Eval vm_compute in ("<<<M411>>>" ++ check (runes_of_ascii "packet options1 {@leftPad( '\x00'
// " ++ [128512]%N ++ runes_of_ascii " emoji
// c
)	calculatedFrom , } MetaData len{// a // b
}
// 50% %s
")).
Eval vm_compute in ("<<<M4096>>>" ++ check (runes_of_ascii "
options {

pack =
	u64 ;rootA/// triple
  	=

    ""packet""  // 50% %s
  ; As

    =	true;
    }

")).
Eval vm_compute in ("<<<M4534>>>" ++ check (runes_of_ascii "
packet  A 
{
match

    k 
as n{
[

1 ,""bb""
, 
007
, ""d""

    , 5 ]	: B ,  2:	C
} ,

    } ")).
Eval vm_compute in ("<<<M3007>>>" ++ check (runes_of_ascii "packet A {
  match k as n {
    [1, 22, ""c c"", 4, 5, ""f"", 7, 8, ""i"", 10, 11] : B
    2 : C
  },
}")).
Eval vm_compute in ("<<<M3943>>>" ++ check (runes_of_ascii "MetaData
	zchar
{T

stringy
	`// not a comment` 

// @lengthOf(
// `tick` ""quote"" 'q'
      ,} ")).
Eval vm_compute in ("<<<M723>>>" ++ check (runes_of_ascii "
packet
rootA { f32
    T  `doc`, string	lengthOf@calculatedFrom( """ ++ [128512]%N ++ runes_of_ascii """
    )
`a\`
    , }

")).
Eval vm_compute in ("<<<M2273>>>" ++ check (runes_of_ascii "MetaData _x {string x `// not a comment` , string
i64_ // trailing s''pace 
`a\` ,
    }
")).
Eval vm_compute in ("<<<M3781>>>" ++ check (runes_of_ascii "

  packet	A

    {
Inner
    { u8 
x
`%%d%!` 
,

Deep  {
u8 y `%%d%!`  , }
,  } 
,
}")).
Eval vm_compute in ("<<<M2935>>>" ++ check (runes_of_ascii "packet A {
  match k as n {
    [""a"", ""bb"", ""c c"", ""d"", ""e"", ""f""] : B,
    2 : C
  },
}")).
Eval vm_compute in ("<<<M4074>>>" ++ check (runes_of_ascii "
options  { 	 // " ++ [27880; 37322]%N ++ runes_of_ascii "
  Z9_
=	' ' 
;// @lengthOf(
repeatCount

    = 
'\x00' ;
	}
")).
Eval vm_compute in ("<<<M695>>>" ++ check (runes_of_ascii "// " ++ [128512]%N ++ runes_of_ascii " emoji
packet float
{ u128 {
    zchar[ 42 ] u , // trailing space 
}, //x
}")).
Eval vm_compute in ("<<<M4505>>>" ++ check (runes_of_ascii "packet tag {
    repeat char[4294967296] zchar ``,
    repeat i8i8 _x,
}// a // b")).
Eval vm_compute in ("<<<M3446>>>" ++ check (runes_of_ascii "packet Inner {
    u8 a,
}
root packet P {
    repeat Inner items,
    u8 x,
}
")).
Eval vm_compute in ("<<<M897>>>" ++ check (runes_of_ascii "MetaData u8x { uint64 calculatedFrom , char[ // @lengthOf(
3 ] crc , //x
}
")).
Eval vm_compute in ("<<<M3388>>>" ++ check (runes_of_ascii "MetaData _x { f64 charz `tab	here` , } options { BodyLength = """ ++ [233]%N ++ runes_of_ascii "t" ++ [233]%N ++ runes_of_ascii """ // c
; }")).
Eval vm_compute in ("<<<M2911>>>" ++ check (runes_of_ascii "packet A {
  match k as n {
    [1, ""bb"", 007, ""d""] : B,
    2 : C
  },
}")).
Eval vm_compute in ("<<<M2234>>>" ++ check (runes_of_ascii "MetaData _x {string x  , string
i64_ // trailing space 
`a\` ,
    }
")).
Eval vm_compute in ("<<<M3402>>>" ++ check (runes_of_ascii "packet // c
o { @tag( 4294967296 ) options1 @lengthOf( u8x ) `" ++ [233]%N ++ runes_of_ascii "` , }")).
Eval vm_compute in ("<<<M1303>>>" ++ check (runes_of_ascii "options { T
= char /// triple
; Logon //x
=
' ' ; i64_ = string }")).
Eval vm_compute in ("<<<M121>>>" ++ check (runes_of_ascii "
packet As {i8
// a // b
// a // b
uint8x
`line1
line2` ,
    }")).
Eval vm_compute in ("<<<M3025>>>" ++ check (runes_of_ascii "packet A {
    B b `a
b`,
    B `a
b`,
    repeat B bs `a
b`,
}")).
Eval vm_compute in ("<<<M2727>>>" ++ check (runes_of_ascii "@leftPad root 00 ) ] uint16 char ) options i64 ] @rightPad ]")).
Eval vm_compute in ("<<<M746>>>" ++ check (runes_of_ascii "packet int { char[
007 ] pack
    ,
}
// trailing space 
")).
Eval vm_compute in ("<<<M3917>>>" ++ check (runes_of_ascii "packet A {
}

packet B {
}

MetaData M {
}

options {
}")).
Eval vm_compute in ("<<<M4422>>>" ++ check (runes_of_ascii "  MetaData
	M
	{ u8 x`a
b`
, 
T
    t
    `a
b`

,  }")).
Eval vm_compute in ("<<<M2332>>>" ++ check (runes_of_ascii "
MetaData Pad{
u32 rootA `line1
line2` " ++ [65279]%N ++ runes_of_ascii " ,
    }
")).
Eval vm_compute in ("<<<M3648>>>" ++ check (runes_of_ascii "  MetaData  zchar { 
    // c
zchar[ 3
]Pad,
	}
")).
Eval vm_compute in ("<<<M3052>>>" ++ check (runes_of_ascii "MetaData M {
    u8 x `a

b`,
    T t `a

b`,
}")).
Eval vm_compute in ("<<<M331>>>" ++ check (runes_of_ascii "
packet u128
    // @lengthOf(
    { } // " ++ [27880; 37322]%N)).
Eval vm_compute in ("<<<M4503>>>" ++ check (runes_of_ascii "packet BodyLength {
    char[] MetaDataX,
}")).
Eval vm_compute in ("<<<M703>>>" ++ check (runes_of_ascii "packet
x
{ // a // b
uint8 len ,
    }
")).
Eval vm_compute in ("<<<M2628>>>" ++ check (runes_of_ascii "packet A { match k as n { [1,] : B }, }")).
Eval vm_compute in ("<<<M2691>>>" ++ check (runes_of_ascii "options { a = 1; } options { a = 1; }")).
Eval vm_compute in ("<<<M1119>>>" ++ check (runes_of_ascii "packet uint8x
    {}
// @lengthOf(
")).
Eval vm_compute in ("<<<M3053>>>" ++ check (runes_of_ascii "root packet A {
    u8 x `a

b`,
}")).
Eval vm_compute in ("<<<M1671>>>" ++ check (runes_of_ascii "options { } packet Packet{char[]")).
Eval vm_compute in ("<<<M3116>>>" ++ check (runes_of_ascii "packet A {
 u8 x `d" ++ [160]%N ++ runes_of_ascii "`, // c" ++ [160]%N ++ runes_of_ascii "
}")).
Eval vm_compute in ("<<<M1243>>>" ++ check (runes_of_ascii "//	t
packet// " ++ [27880; 37322]%N ++ runes_of_ascii "
Packet { }
")).
Eval vm_compute in ("<<<M4127>>>" ++ check (runes_of_ascii "
MetaData  M{x y

,
    }
")).
Eval vm_compute in ("<<<M2641>>>" ++ check (runes_of_ascii "packet A { @tag() u8 x, }")).
Eval vm_compute in ("<<<M355>>>" ++ check (runes_of_ascii "
MetaData asx {
    }
")).
Eval vm_compute in ("<<<M2594>>>" ++ check (runes_of_ascii "packet A { x y `d`, }")).
Eval vm_compute in ("<<<M822>>>" ++ check (runes_of_ascii "MetaData Pad
{
} //")).
Eval vm_compute in ("<<<M3104>>>" ++ check (runes_of_ascii "packet A {
}
// c ")).
Eval vm_compute in ("<<<M3185>>>" ++ check (runes_of_ascii "// c" ++ [6158]%N ++ runes_of_ascii "
packet A {
}")).
Eval vm_compute in ("<<<M3132>>>" ++ check (runes_of_ascii "packet A {
}// c" ++ [8202]%N)).
Eval vm_compute in ("<<<M421>>>" ++ check (runes_of_ascii "packet	crc
{ }
")).
Eval vm_compute in ("<<<M1226>>>" ++ check (runes_of_ascii "// " ++ [128512]%N ++ runes_of_ascii " emoji

")).
Eval vm_compute in ("<<<M2507>>>" ++ check (runes_of_ascii "@lengthOf (")).
Eval vm_compute in ("<<<M2218>>>" ++ check (runes_of_ascii "MetaData")).
Eval vm_compute in ("<<<M2837>>>" ++ check (runes_of_ascii "i{@l#Ie")).
Eval vm_compute in ("<<<M2451>>>" ++ check (runes_of_ascii "charz")).
Eval vm_compute in ("<<<M3173>>>" ++ check (runes_of_ascii "// c" ++ [8203]%N)).
Eval vm_compute in ("<<<M3895>>>" ++ check (runes_of_ascii "// c")).
Eval vm_compute in ("<<<M2698>>>" ++ check (runes_of_ascii """s""")).
Eval vm_compute in ("<<<M2474>>>" ++ check (runes_of_ascii "a")).
