From FP Require Import Lexer Parser ShowPT Digest Formatter.
From Coq Require Import String List NArith.
Import ListNotations.
Open Scope string_scope.
Set Printing Width 100000000.
Set Printing Depth 100000000.
Definition show_fres (r : fres) : string :=
  match r with
  | FOk s => "OK:" ++ sh_escaped s ""
  | FErr s => "ERR:" ++ sh_escaped s ""
  | FPanic p => "PANIC:" ++ p
  end.
Definition check (rs : list rune) : string := digest (show_fres (format_res rs)).
Definition full (rs : list rune) : string := show_fres (format_res rs).
Eval vm_compute in ("<<<M822>>>" ++ check (runes_of_ascii "packet u { @tag( 007 )
    @calculatedFrom(
    """"
    ) match i64_ as roots{ [
// `tick` ""quote"" 'q'
// packet A { u8 x, }
""`tick`"" ,
""1"" , 0,
3
// " ++ [27880; 37322]%N ++ runes_of_ascii "
// c
] :
rootA
//x
// c
00:
pack [ 0123456789, 0123456789 , ""1""
    ,	255 ]
: /// triple
msg_type ,
10
    :chars ""it's"": o
, /// triple
} ,
BodyLength{ char[ 255 // " ++ [128512]%N ++ runes_of_ascii " emoji
] metadata`
` ,
} , options1 { match  asx
    // c
    as packetx{ ""abc""/// triple
: u128 [ 3
,
4294967296 ,	"""" ,
""" ++ [28040; 24687]%N ++ runes_of_ascii """,
    4294967296 ]
: leftPad , 0 :
Header , """ ++ [233]%N ++ runes_of_ascii "t" ++ [233]%N ++ runes_of_ascii """
:  T , } ,
repeat char[] Z9_ `{ , }` ,
    }
,
@calculatedFrom( ""packet"" ) @calculatedFrom(
""x y"")@tag(255  ) leftPad
{ repeat leftPad
{
    float32 falsey @lengthOf(falsey ) `a\` ,	zchar[ 0 ] matchKey ,zchar[ 4294967296
    ] a1, match packetx	as // @lengthOf(
u {  [ 00 ,	""abc"" , """ ++ [233]%N ++ runes_of_ascii "t" ++ [233]%N ++ runes_of_ascii """ ,00,// " ++ [27880; 37322]%N ++ runes_of_ascii "
""a\\""	, ""{,}"" ]
    : BodyLength ,""" ++ [233]%N ++ runes_of_ascii "t" ++ [233]%N ++ runes_of_ascii """
    /// triple
    :asx  , [
    ""a	b"" ,007 ]
    :
body
    /// triple
    ,[ 00 ,0123456789 ] :
crc
}
    ,} , }
    , repeat uint8x o
`doc` , @tag(
65535 )u16 Logon  @lengthOf( uint8x	)
    `a\`, f32a
    { repeat  char[]
matchKey// " ++ [128512]%N ++ runes_of_ascii " emoji
`
` , zchar[ 4294967296 ] i64_,
    // packet A { u8 x, }
    repeat lengthOf {	repeat i16 matchKey	, u8 falsey ,
i32 Pad @lengthOf(u8x )
    `` ,
    charz
`crlf
line`,}
, packetx {int64 trueish
, char[42	]  u @lengthOf(u )`// not a comment`,repeat
char[ 1 ]i8i8 ,
    match x_y_z as u8x {
    [
    ""\n""
//
// " ++ [27880; 37322]%N ++ runes_of_ascii "
] : calculatedFrom } , } ,
    } , @leftPad ( '0'
    //x
    )
    As @calculatedFrom(
""it's""
)	, @calculatedFrom(""CRC32""
)x_y_z
@lengthOf( crc
    ) , @leftPad
('0'	) @calculatedFrom( ""`tick`"" )@tag( 10)char[ 42 ]Z9_ @calculatedFrom(""abc"" ) // " ++ [128512]%N ++ runes_of_ascii " emoji
,}
    MetaData
//	t
/// triple
repeatCount // trailing space 
{ i8
    u `tab	here`, char[ 255
]
    u,
    // @lengthOf(
    u32
    msg_type`doc`
,i64_ _x	,
}
options  {
    repeatCount=255 ;x_y_z = ' ' ; charz = uint8 ; Packet = false BodyLength=true
;
    } options { asx
    // @lengthOf(
    =""" ++ [128512]%N ++ runes_of_ascii """uint8x =char[  4294967296 ]
// " ++ [27880; 37322]%N ++ runes_of_ascii "
// a // b
; u = '0' }
// trailing space 
")).
Eval vm_compute in ("<<<M95>>>" ++ check (runes_of_ascii "MetaData chars {} packet lengthOf
{ @lengthOf(_x )uint16 /// triple
Z9_`" ++ [28040; 24687; 31867; 22411]%N ++ runes_of_ascii "`, repeat BodyLength{ repeat
    u8x zchar  , } ,a1	,
    // " ++ [27880; 37322]%N ++ runes_of_ascii "
    T @calculatedFrom( ""\" ++ [233]%N ++ runes_of_ascii """)
, match //	t
calculatedFrom
    as string_
    // " ++ [27880; 37322]%N ++ runes_of_ascii "
    { """ ++ [233]%N ++ runes_of_ascii "t" ++ [233]%N ++ runes_of_ascii """
    :// `tick` ""quote"" 'q'
_x // " ++ [128512]%N ++ runes_of_ascii " emoji
, ""a	b""
    : zchar [ ""x y"",
    10
    ,	""abc""
,
""packet""
, // c
""{,}"" //
,00] :  u128 ,""abc"":x_y_z
    ,  """ ++ [233]%N ++ runes_of_ascii "t" ++ [233]%N ++ runes_of_ascii """
    : // packet A { u8 x, }
packetx
} // a // b
, zchar[
    1 ]// " ++ [128512]%N ++ runes_of_ascii " emoji
A
    // " ++ [27880; 37322]%N ++ runes_of_ascii "
    @lengthOf( float
    // `tick` ""quote"" 'q'
    ) `say ""hi""`
    // trailing space 
    , repeat f32 asx
// " ++ [27880; 37322]%N ++ runes_of_ascii "
// " ++ [128512]%N ++ runes_of_ascii " emoji
,
    // " ++ [128512]%N ++ runes_of_ascii " emoji
    @rightPad
    ( ' ' // a // b
)	char[] msg_type `say ""hi""`,
} packet Pad
// " ++ [27880; 37322]%N ++ runes_of_ascii "
// " ++ [27880; 37322]%N ++ runes_of_ascii "
{ As @lengthOf( rootA )
`say ""hi""` , repeat
    _x // trailing space 
{
    Logon
Foo, // `tick` ""quote"" 'q'
falsey
MetaDataX ,
    }  ,msg_type
    // trailing space 
    roots `line1
line2`,pack pack , chars	`crlf
line` ,@lengthOf(lengthOf) match lengthOf
    as o { 3
    : falsey
    , } ,}packet // trailing space 
o {// packet A { u8 x, }
i64_`{ , }` ,
match MetaDataX as Foo { """ ++ [233]%N ++ runes_of_ascii "t" ++ [233]%N ++ runes_of_ascii """ :
    leftPad ,
[	00 ] : f32a
[ ""`tick`"",
    0123456789
]
: float ,
""it's"" : pack
, ""`tick`"" :
charz } ,
options1
    leftPad ,// packet A { u8 x, }
string body //
, @calculatedFrom(
""{,}""  )As
    //	t
    , // " ++ [128512]%N ++ runes_of_ascii " emoji
match u as
    Packet
    {
    ""it's"" :
_x	, 10 : BodyLength , ""\n"" :
float 4294967296 :falsey , 007 :	charz
,00 :stringy , },  repeat string_ ,
}root packet
Foo	{ repeat
    // " ++ [27880; 37322]%N ++ runes_of_ascii "
    char[	7 ] lengthOf `
`
    ,
//	t
//x
@lengthOf( Packet ) repeat // `tick` ""quote"" 'q'
i32 float , options1 _x	`{ , }`
, }
")).
Eval vm_compute in ("<<<M821>>>" ++ check (runes_of_ascii "
options {
    msg_type
    = ""{,}"" ;
    asx =true ; trueish = ""// no comment""
Pad =
""\n"";
    metadata =uint64
;
    }root // @lengthOf(
packet
// @lengthOf(
// c
int{  @tag(  0123456789) @tag( //	t
00
) @calculatedFrom(
""packet"" )zchar[4294967296
    ] leftPad `line1
line2` , @calculatedFrom( ""x y"")
falsey
@calculatedFrom( ""x y""
//
// `tick` ""quote"" 'q'
) ,
repeat uint8 Packet ,@tag(
4294967296 ) u8x ,
    repeat	char[ 42
] Logon `it's` , int16
falsey@calculatedFrom( ""it's""
)
    //
    ,
msg_type
@lengthOf(leftPad
)
    /// triple
    `" ++ [28040; 24687; 31867; 22411]%N ++ runes_of_ascii "` , match string_ as	charz
    {
    //
    ""it's"" :Foo ,0123456789:
calculatedFrom ""// no comment""
    : T,
[
    ""// no comment""
, 65535  , ""a\\""
    , ""abc"",007
,// " ++ [27880; 37322]%N ++ runes_of_ascii "
""// no comment"" ,  4294967296	]  :
Z9_
}
    // packet A { u8 x, }
    ,float64  charz@lengthOf( Z9_ ) `a\`,
} packet a1 { } packet T  { } packet i64_	{ repeat zchar[65535
]
Logon, @calculatedFrom( ""CRC32"" // " ++ [128512]%N ++ runes_of_ascii " emoji
)repeat string stringy `crlf
line` ,
    repeat char[ 007 ] leftPad ,
@calculatedFrom(
    //
    ""abc""
    ) string calculatedFrom `two words`, len {
    // `tick` ""quote"" 'q'
    float64 lengthOf `" ++ [28040; 24687; 31867; 22411]%N ++ runes_of_ascii "`
// " ++ [27880; 37322]%N ++ runes_of_ascii "
// packet A { u8 x, }
, } ,A
    @calculatedFrom(""abc""
) `line1
line2` ,
    zchar[  10] charz `" ++ [28040; 24687; 31867; 22411]%N ++ runes_of_ascii "` ,repeat Packet ,
    // packet A { u8 x, }
    string
As	@lengthOf( roots ) , @tag( 7
) Packet chars ,
//x
// trailing space 
}
")).
Eval vm_compute in ("<<<M1331>>>" ++ check (runes_of_ascii "packet//x
Logon{@tag( 255 ) match roots as u128{  ""`tick`"" //x
:
matchKey
    ,	1 : Foo} ,
@tag( 65535 ) @lengthOf(	charz ) @calculatedFrom(
""// no comment"" ) i8 trueish ,
    float32 o  @lengthOf( i8i8 )
,
    @rightPad ( ' ' ) u8x  `two words`,
repeat u64 i8i8 ,  match
    zchar as x_y_z { """ ++ [128512]%N ++ runes_of_ascii """ : charz , } // @lengthOf(
,@lengthOf(
repeatCount)// " ++ [128512]%N ++ runes_of_ascii " emoji
u32 falsey `// not a comment` , } options // @lengthOf(
{ // " ++ [128512]%N ++ runes_of_ascii " emoji
falsey=""" ++ [128512]%N ++ runes_of_ascii """ ;
packetx = """ ++ [233]%N ++ runes_of_ascii "t" ++ [233]%N ++ runes_of_ascii """
// @lengthOf(
// @lengthOf(
u128// " ++ [128512]%N ++ runes_of_ascii " emoji
= """" ;options1
= true
; // packet A { u8 x, }
} options{ float =""a	b"" ; packetx =// `tick` ""quote"" 'q'
true calculatedFrom =
u64
    ;Packet =
'\x00' ;
    BodyLength=
    false //	t
; } MetaData falsey
{// " ++ [27880; 37322]%N ++ runes_of_ascii "
BodyLength Logon`line1
line2`
,
    zchar chars `a\` , repeatCount
// " ++ [27880; 37322]%N ++ runes_of_ascii "
// `tick` ""quote"" 'q'
BodyLength , zchar
i8i8 ,
    }packet	packetx { repeat
    int8
Logon
    ,
    @calculatedFrom( ""abc"" ) match Logon as	BodyLength {	65535 /// triple
:pack ,// a // b
[ ""CRC32""
    , ""it's""
, 4294967296 ,
""CRC32"" ,
    ""a\\"",""`tick`"",
255, 007
]
    // packet A { u8 x, }
    : matchKey
, [255
]  : falsey
, } , repeat Packet // c
`tab	here` ,
    @lengthOf(
    charz
)zchar[ 42] tag@calculatedFrom( ""// no comment"" ) `
`	, uint64 //	t
u8x
`" ++ [28040; 24687; 31867; 22411]%N ++ runes_of_ascii "` , }
")).
Eval vm_compute in ("<<<M255>>>" ++ check (runes_of_ascii "/// triple
MetaData Logon
    {i16 body
, } /// triple
root packet
Z9_ {	_x
// packet A { u8 x, }
// " ++ [128512]%N ++ runes_of_ascii " emoji
{
Foo {
    matchKey { repeat
    leftPad body ,
    u128 MetaDataX ,
    match uint8x as BodyLength{ ""abc"": int , [42
    ,
    10
    ]: Z9_ , 1 :// a // b
i64_ 0123456789 :
u ,  ""a\""b""
: chars , }
    ,
repeat //	t
int32
//x
//	t
packetx
    , } ,  match zchar as u128
    // @lengthOf(
    { 007 //x
: msg_type	""a\\"" : asx, """":T
, 007 : charz, ""abc"":
    /// triple
    matchKey , ""x y"":  string_ ,
}
, repeat  zchar[
0123456789 ]// trailing space 
msg_type `doc` ,}, match Z9_ as MetaDataX
{	[ 0 , ""1""
    ]:
    // packet A { u8 x, }
    uint8x [ 65535 ,
//
//	t
""""] :
    x_y_z
,""x y"": falsey ,
65535
:
packetx, ""// no comment"": falsey [ 4294967296 , ""a\""b"" ,
    ""\n"" , ""a\""b""	,
    255 ]: charz	, } // @lengthOf(
,
}
,
    chars
    int `u8 x,`
    , @tag(65535)
char[] Header `{ , }` , @tag(
    255
) match	repeatCount as
    A { [4294967296 ,""\" ++ [233]%N ++ runes_of_ascii """ , ""packet"" , // packet A { u8 x, }
42 ,
007 , """ ++ [128512]%N ++ runes_of_ascii """, ""a\""b"" ]// c
:
    lengthOf , ""// no comment""
:
a1 ,""\n"" : MetaDataX//x
3 // a // b
:
// @lengthOf(
// packet A { u8 x, }
body	, } , }
")).
Eval vm_compute in ("<<<M4277>>>" ++ check (runes_of_ascii "packet calculatedFrom {
    Pad {
        match tag as metadata {
            ""x y"" : tag,
            10 : Packet,
            [
                007, ""it's"", 0, 3, 4294967296,
                """ ++ [28040; 24687]%N ++ runes_of_ascii """, ""\n"", ""a	b""
            ] : Logon,
            3 : A,
            [0123456789] : leftPad,
        },
    },//	t
    @lengthOf(int)
    repeat char[255] msg_type `" ++ [28040; 24687; 31867; 22411]%N ++ runes_of_ascii "`,
    Pad @calculatedFrom(""" ++ [233]%N ++ runes_of_ascii "t" ++ [233]%N ++ runes_of_ascii """),
    @tag(65535)
    f32 u128 `// not a comment`,
    zchar[3] leftPad `" ++ [28040; 24687; 31867; 22411]%N ++ runes_of_ascii "`,
    @rightPad(' ')
    @lengthOf(roots)
    /// triple
    repeat char[10] leftPad,
    Logon charz `line1
        line2`,
}

MetaData _x {
    string Z9_ `tab	here`,
    u _x ``,
    zchar[10] asx `line1
        line2`,
    u128 Logon,
    char[7] u128,
    options1 repeatCount,
}

options {
}

packet body {
    // `tick` ""quote"" 'q'
    @calculatedFrom(""a	b"")
    char[] len,
    @lengthOf(Packet)
    match zchar as i64_ {
        [
            ""x y"", """ ++ [28040; 24687]%N ++ runes_of_ascii """, 3, 65535, ""`tick`"",
            ""{,}"", ""\" ++ [233]%N ++ runes_of_ascii """, 42
        ] : i64_,
    },
    matchKey chars,
    @lengthOf(x_y_z)
    @tag(00)
    a1 @lengthOf(repeatCount),
}")).
Eval vm_compute in ("<<<M4063>>>" ++ check (runes_of_ascii "
options

    {
StringPrefixLenType =
u8;
ArrayPrefixLenType = u8
;FixedStringPadFromLeft

=true ; FixedStringPadChar=
' ' 
; }
packet

Logout {  repeat	string
	Px 
,
    repeat
    string	seqNo
,

InMsgkind64
{  uint16	OrderId

,	char[]
count
    ,repeat

    i32 venue
    ,} , }packet Heartbeat	{
float32
tag7	,repeat 
InPrice50
{	repeat char[
    5 ] 
lastPx	,
InRef42
{
    u8 pad0 
,
	}
    ,  uint32
    Acct 
,

repeat
Logout
, repeat 
char[

    5
	]
    Qty
    ,

} ,repeat  InSeqno30 {
repeat	Logout

    ,
}
	,
@leftPad(

    '0' ) char[
    12	]

Acct,
	char[]
Side2

    , repeat
	string msgKind
,
}	packet
    Ack  {  Heartbeat 
, char[	8 ]  seqNo	,
	float64
clOrdID

,

    }

packet 
Trade	{ char[]
    OrderId
    , 
f64	Side2	,	zchar[
    8
	]f1 ,
	string
	Qty

,
float64 
seqNo

, 
repeat

Logout,  }
	packet Order{ f32	OrderId 
,  repeat
    u8

    x,
Ack 
,
    zchar[ 
7]
Note  ,
	}
root  packet
    Logon
{ @rightPad( '\x00'
    )

    char[

9
]

    f1,
    }

")).
Eval vm_compute in ("<<<M903>>>" ++ check (runes_of_ascii "MetaData falsey {
    i8 Logon,// packet A { u8 x, }
len
    metadata
    `doc` ,
} MetaData // " ++ [27880; 37322]%N ++ runes_of_ascii "
Foo{ char[	65535]  calculatedFrom `
`
// a // b
//x
, matchKey// c
zchar ,	u stringy `
` ,
    MetaDataX u `say ""hi""` ,// c
} packet
msg_type {@lengthOf(Z9_)
//x
//x
@lengthOf(
x
)
    @tag( 0
    ) calculatedFrom
    {
msg_type@calculatedFrom(""CRC32"") `say ""hi""` ,repeat	matchKey { repeat
    T
{ char[ // " ++ [27880; 37322]%N ++ runes_of_ascii "
1 ] T ,
repeatCount `line1
line2`
    ,match	int as x {""packet"" //x
:  options1 ,
00
: calculatedFrom 00 : falsey , } , } ,
    char[] uint8x
, match Packet as falsey {
7:// packet A { u8 x, }
f32a , // a // b
10:
u
, 1
:Header ,
[ ""packet"" // " ++ [27880; 37322]%N ++ runes_of_ascii "
, 0
// " ++ [27880; 37322]%N ++ runes_of_ascii "
// @lengthOf(
,""a	b"" ]
:o
0123456789:
    chars}
    , zchar[ 65535 ]
Foo ,} ,
}
    , }// packet A { u8 x, }
root packet u//x
{ @tag(
007
) i32// trailing space 
stringy @lengthOf(
    //
    a1) `{ , }` , } MetaData
string_ { uint64 chars
`crlf
line` ,
    char[ // @lengthOf(
3
    ] u8x `a\` , }")).
Eval vm_compute in ("<<<M101>>>" ++ check (runes_of_ascii "MetaData
    asx
{ }
    options{
body =
//x
// @lengthOf(
char[] ;// @lengthOf(
repeatCount =true ;
    packetx= ""a\""b""; float
=
""x y"" ; zchar
    // @lengthOf(
    = ""\" ++ [233]%N ++ runes_of_ascii """ ; } MetaData _x{
u16 falsey  `` , } root packet
    metadata {  }	packet Foo { repeat
    // trailing space 
    u128
    , @tag(// trailing space 
7
) uint16
MetaDataX
    , @tag(1 )
    /// triple
    falsey `say ""hi""` , @rightPad ( //	t
) @tag(3 ) u , @lengthOf( roots// " ++ [128512]%N ++ runes_of_ascii " emoji
) match body as repeatCount
{ ""CRC32"" // " ++ [27880; 37322]%N ++ runes_of_ascii "
: asx  , 42	:  msg_type
} ,// packet A { u8 x, }
stringy {repeat char[
    // c
    3
] uint8x ,	match
Logon
as	A{ ""abc"" :i8i8 , }  ,match BodyLength as len
    { [0123456789 ,
//
// @lengthOf(
007
    ,4294967296,""{,}""
]:// " ++ [128512]%N ++ runes_of_ascii " emoji
Foo , } //	t
, } , @leftPad ( '0'  ) uint8x
@lengthOf(i8i8) ,//	t
_x
    {repeat x  `line1
line2` , }, @tag( 42 )
falsey
    // trailing space 
    u128 // trailing space 
, int64 MetaDataX ,}
")).
Eval vm_compute in ("<<<M1349>>>" ++ check (runes_of_ascii "  options
//
// packet A { u8 x, }
{ MetaDataX  = '0'
; Logon=
    false ; int//	t
='0' _x
=
// trailing space 
//	t
""x y""
//	t
/// triple
;}
    packet
tag { @tag( /// triple
10)repeat msg_type ,  match x
    as
Foo
{ ""x y"": body  ,  } , @tag(	0
)repeat char[
    7 ] options1	, repeat falsey
{ int8  options1
,	i8i8
`crlf
line`
    ,
u16 // " ++ [27880; 37322]%N ++ runes_of_ascii "
f32a @calculatedFrom( ""// no comment"" // @lengthOf(
) , } , @calculatedFrom( ""{,}""// " ++ [128512]%N ++ runes_of_ascii " emoji
) uint32 repeatCount, msg_type @calculatedFrom( ""it's"" )//
`crlf
line` , @tag(// `tick` ""quote"" 'q'
00) match T as options1
{ 4294967296 :
repeatCount  , }
,
// @lengthOf(
//	t
}
    // trailing space 
    MetaData msg_type  {Foo u , char[] Pad
`
`
    , BodyLength As
,  char[ 007 ] calculatedFrom /// triple
`a\`
,
    //x
    }  MetaData msg_type {}packet trueish  {T
    // a // b
    @lengthOf(
    pack ) `crlf
line` ,
}
")).
Eval vm_compute in ("<<<M438>>>" ++ check (runes_of_ascii "root packet len { tag	repeatCount , crc
{
    As { T zchar , _x `line1
line2` , f64 x_y_z ,
    match packetx  as
    calculatedFrom
{ [
""// no comment"" ,  ""packet"" ]:
    charz , }// a // b
, }
    ,
} // " ++ [27880; 37322]%N ++ runes_of_ascii "
,
zchar[7
] i64_ `
`  ,
// " ++ [128512]%N ++ runes_of_ascii " emoji
// c
@calculatedFrom(
""{,}"" )stringy
@calculatedFrom( """ ++ [233]%N ++ runes_of_ascii "t" ++ [233]%N ++ runes_of_ascii """ ),match metadata as Z9_
{ ""a\\"" :
Logon 7 : Pad ,
    3
    :
    // a // b
    Foo , [
    10
] :
msg_type ,
//	t
// `tick` ""quote"" 'q'
""\n"" : x
}, match trueish as pack{ [
    // trailing space 
    ""a	b""
    , 4294967296
    ,
""" ++ [233]%N ++ runes_of_ascii "t" ++ [233]%N ++ runes_of_ascii """ , 42, ""{,}""
// " ++ [27880; 37322]%N ++ runes_of_ascii "
// c
, 7	,	255 ] : Logon , // `tick` ""quote"" 'q'
[
    ""{,}""
    ,
42	,
00 ] :
    /// triple
    crc, 42 : A
    ,
""" ++ [28040; 24687]%N ++ runes_of_ascii """ : asx	,[ """ ++ [128512]%N ++ runes_of_ascii """ ,65535	,
    ""`tick`"" ,
7 , ""x y"" , ""CRC32""
    // " ++ [27880; 37322]%N ++ runes_of_ascii "
    ,
""" ++ [28040; 24687]%N ++ runes_of_ascii """ //
]
// `tick` ""quote"" 'q'
// @lengthOf(
: BodyLength ,
} , }")).
Eval vm_compute in ("<<<M104>>>" ++ check (runes_of_ascii "
root packet stringy{ repeat u16
falsey `
`
, u16 Pad,
    @lengthOf( // packet A { u8 x, }
x)Logon { repeat
zchar[65535
    ]
Packet`it's` , } ,}packet len {@leftPad( ) repeat metadata { match asx
    as asx{""a\\"" :
f32a ,}
    ,}// " ++ [128512]%N ++ runes_of_ascii " emoji
,
uint16  falsey ,body ,repeat
    // a // b
    string
    lengthOf `say ""hi""`
    , } packet i64_
{	x
    ,@lengthOf( i64_ )
@tag( 7// a // b
)
    // `tick` ""quote"" 'q'
    @calculatedFrom(""""
    )  repeat zchar[
    1 ] i8i8
    ,
    i64
    i64_ @calculatedFrom(
    ""\" ++ [233]%N ++ runes_of_ascii """ )`line1
line2`,
float//x
`tab	here` , @calculatedFrom( """ ++ [128512]%N ++ runes_of_ascii """ ) char[] Logon// @lengthOf(
`` , match  leftPad as stringy {
    0
    :float , ""\n""
    : // trailing space 
Pad  , } ,
i8i8 @lengthOf( roots )	, } root packet	i8i8 { tag
    @lengthOf(T
) `" ++ [28040; 24687; 31867; 22411]%N ++ runes_of_ascii "` // " ++ [128512]%N ++ runes_of_ascii " emoji
, }")).
Eval vm_compute in ("<<<M706>>>" ++ check (runes_of_ascii "root packet msg_type
{ rootA @lengthOf( Header )
//
// `tick` ""quote"" 'q'
, @leftPad
    (
    ) @rightPad ( '\x00' )@lengthOf(
/// triple
// " ++ [27880; 37322]%N ++ runes_of_ascii "
asx // trailing space 
)	Packet @lengthOf(
zchar	) , @tag(	255) Header `" ++ [28040; 24687; 31867; 22411]%N ++ runes_of_ascii "` ,// @lengthOf(
len @lengthOf( chars
    )
    // c
    `crlf
line`	, x { _x Pad
`tab	here` , string msg_type /// triple
`tab	here`
,
calculatedFrom
    {u128 { repeat zchar[ 255 ]Pad  , }
, }
    // c
    , falsey/// triple
@calculatedFrom( """ ++ [28040; 24687]%N ++ runes_of_ascii """ ) ,} ,
int16	rootA
    ,repeat options1 { repeat char[ 00
    ] tag,string
string_ @calculatedFrom( ""a\\"" ),repeat falsey
    `a\` ,} ,@lengthOf( u8x )zchar `` ,char[
65535
    ] metadata `tab	here` ,@lengthOf( crc ) repeat
/// triple
//x
f64
    charz `a\` ,
    }
// @lengthOf(
")).
Eval vm_compute in ("<<<M3819>>>" ++ check (runes_of_ascii "packet int {
    len T,
}

MetaData trueish {
    // packet A { u8 x, }
}

packet BodyLength {
    @calculatedFrom(""packet"")
    @calculatedFrom(""CRC32"")
    // c
    @tag(00)
    char[4294967296] stringy,
    @lengthOf(leftPad)
    // c
    char zchar,
    @lengthOf(MetaDataX)
    @tag(10)
    // " ++ [128512]%N ++ runes_of_ascii " emoji
    @rightPad('0')
    options1 matchKey `{ , }`,
    @tag(42)
    @tag(1)
    @tag(10)
    char[] stringy `doc`,
    msg_type `" ++ [233]%N ++ runes_of_ascii "`,
    @lengthOf(trueish)
    body {
        repeat o stringy `crlf
        line`,
        repeat u32 i8i8,
        char[65535] stringy `a\`,
        //x
    },
    @calculatedFrom(""packet"")
    matchKey,
    @tag(4294967296)
    uint32 rootA @lengthOf(trueish),
    string body `u8 x,`,
}")).
Eval vm_compute in ("<<<M4013>>>" ++ check (runes_of_ascii "// a // b
root packet charz {
    @tag(007)
    repeat u32 chars,
    Packet `doc`,
}

MetaData rootA {
    char[42] Packet `crlf
        line`,
}// c

packet asx {
    repeat calculatedFrom {
        asx @lengthOf(chars),
        repeat string x_y_z `line1
                line2`,
        repeat u32 i64_ `it's`,
        A @lengthOf(Logon) `tab	here`,
    },
    uint32 asx @lengthOf(BodyLength),
    // " ++ [27880; 37322]%N ++ runes_of_ascii "
    // " ++ [27880; 37322]%N ++ runes_of_ascii "
    char[0123456789] calculatedFrom,
    repeat Z9_,
    match asx as uint8x {
        // c
        [""{,}"", ""it's"", 7, ""CRC32""] : msg_type,
        [1] : u8x,
        ""CRC32"" : T,
    },
    i8 charz @calculatedFrom(""x y"") `" ++ [233]%N ++ runes_of_ascii "`,
}

MetaData u8x {
    // " ++ [128512]%N ++ runes_of_ascii " emoji
    i8 T,
}")).
Eval vm_compute in ("<<<M363>>>" ++ check (runes_of_ascii "packet A {
repeat
    o Z9_ ,
    @calculatedFrom( """ ++ [233]%N ++ runes_of_ascii "t" ++ [233]%N ++ runes_of_ascii """ ) @calculatedFrom(
    ""a\\"" ) @tag( 42) match Header as
    // packet A { u8 x, }
    tag {
    ""`tick`"" :
As , [
    ""\" ++ [233]%N ++ runes_of_ascii """ ] :
asx[ 3
,  ""1"", ""\n"" , 007
,
    ""\n"" ] :options1 ""abc"" :
//	t
/// triple
falsey , 4294967296 :	metadata , } ,  @tag(4294967296) tag @calculatedFrom( """ ++ [128512]%N ++ runes_of_ascii """ ) , }
    // `tick` ""quote"" 'q'
    packet stringy {
    char[]
packetx
`
`,string leftPad @lengthOf(float
    ) ,@tag( //	t
65535 )	@lengthOf( packetx) @lengthOf( Pad )
// trailing space 
// " ++ [27880; 37322]%N ++ runes_of_ascii "
repeatCount BodyLength , // a // b
char[] A
    @lengthOf( // packet A { u8 x, }
a1)
    `two words` , }
packet falsey // " ++ [27880; 37322]%N ++ runes_of_ascii "
{ }")).
Eval vm_compute in ("<<<M3647>>>" ++ check (runes_of_ascii "
packet	Z9_ { a1
	, 
}root
	packet crc{ 
/// triple
	// trailing space 
      u32

o 
@calculatedFrom(

""it's""  ),

    float32 lengthOf

    ,
zchar[
	4294967296
        //	t
	]repeatCount@lengthOf(MetaDataX

    )
`{ , }`

    ,  //
  @rightPad(	'0'

    // packet A { u8 x, }
// c
    ) body
	{string

    Packet
`tab	here`

    , 
}
, repeat
	i8i8{
    match

    BodyLength  as Foo
{
7
:  f32a	, 
42 
:A ""packet"" : 
uint8x
	,

[
""a\\"" ] 
  // a // b
    :u8x 
,	""it's""

    :
As ,  }	,
	repeat zchar[

65535] crc	, char[] chars`a\`,  }  //	t
,  char[ 
4294967296
    ]
    repeatCount

`two words`
,

}
")).
Eval vm_compute in ("<<<M1095>>>" ++ check (runes_of_ascii "//
packet
// @lengthOf(
// `tick` ""quote"" 'q'
u8x
    { repeat int _x`line1
line2`
, @lengthOf( rootA  )
    int16
leftPad , repeat Logon  _x
    , } packet float {
    repeat u8x // " ++ [128512]%N ++ runes_of_ascii " emoji
{ match asx as asx {	""a\""b""
    // `tick` ""quote"" 'q'
    :
BodyLength , [ 0 ] : len ,
    //	t
    """ ++ [28040; 24687]%N ++ runes_of_ascii """ : BodyLength,
[ 0 // " ++ [128512]%N ++ runes_of_ascii " emoji
, ""\" ++ [233]%N ++ runes_of_ascii """ ]
/// triple
// " ++ [27880; 37322]%N ++ runes_of_ascii "
:leftPad ,
    4294967296: T
// @lengthOf(
/// triple
,
} //	t
, } , chars {match Pad as zchar // packet A { u8 x, }
{
    10 :
i8i8
[ 3
    // a // b
    ,
10 ] : u8x
    , } , zchar[ 4294967296//
] stringy @calculatedFrom( ""\" ++ [233]%N ++ runes_of_ascii """
) , } ,
    //
    }
")).
Eval vm_compute in ("<<<M261>>>" ++ check (runes_of_ascii "packet// " ++ [128512]%N ++ runes_of_ascii " emoji
BodyLength {@calculatedFrom( ""it's"" ) zchar[ 0123456789] Z9_ `it's` , } packet zchar{ @lengthOf(
rootA )@rightPad ( '0' )// " ++ [27880; 37322]%N ++ runes_of_ascii "
repeat
int64
stringy
,@lengthOf( lengthOf ) match Pad as o
// a // b
//x
{ [ 10
    , ""a\""b""] :
BodyLength, """ ++ [233]%N ++ runes_of_ascii "t" ++ [233]%N ++ runes_of_ascii """ :zchar  3:T },
} MetaData Logon { uint8x i64_ , } root packet
/// triple
// `tick` ""quote"" 'q'
zchar {
charz `" ++ [28040; 24687; 31867; 22411]%N ++ runes_of_ascii "` , } packet i64_
{	u
`two words`
// `tick` ""quote"" 'q'
// c
, @calculatedFrom(""it's""
)char[
    // trailing space 
    0123456789	] body`it's`
    ,char[ 255 ]leftPad `two words` , }")).
Eval vm_compute in ("<<<M1372>>>" ++ check (runes_of_ascii "root
packet stringy	{ repeat char[]
MetaDataX , @calculatedFrom(""CRC32""
) body  , @tag(// @lengthOf(
42 ) @rightPad (
' ' ) @rightPad (
    ) // packet A { u8 x, }
repeat u8x {  BodyLength@lengthOf(A ) ,	} ,match f32a
    as x_y_z{  4294967296
: Foo ,
}
// @lengthOf(
//x
, repeatCount
{ uint8 As
/// triple
// a // b
`a\` // a // b
,} , } packet  u{repeat// `tick` ""quote"" 'q'
char charz ,
} options {
    Header = char ;	}root
    packet  i64_ {
u8  Z9_
`
`,
@calculatedFrom( ""1""
)u128 float  , } options{_x
    =00 ;	}")).
Eval vm_compute in ("<<<M672>>>" ++ check (runes_of_ascii "packet
int
{ string
    x_y_z, roots , i8
    /// triple
    options1 , // " ++ [27880; 37322]%N ++ runes_of_ascii "
@tag( 3) uint32
charz@lengthOf(
repeatCount ) `
` // " ++ [27880; 37322]%N ++ runes_of_ascii "
, @lengthOf( u )
int8 a1
    @calculatedFrom( """ ++ [128512]%N ++ runes_of_ascii """
) ,
    @tag(
    00)
match matchKey as
    roots { ""a	b"" :
// " ++ [27880; 37322]%N ++ runes_of_ascii "
// @lengthOf(
Packet  ,
""CRC32""// " ++ [128512]%N ++ runes_of_ascii " emoji
:Foo
    , 007	://	t
Foo }
,  match T  as MetaDataX
    {""{,}"" : BodyLength // `tick` ""quote"" 'q'
,
1:
stringy, // packet A { u8 x, }
"""":packetx ,00  :
body 0
    :
Foo ,
42  : x
    /// triple
    , },}
")).
Eval vm_compute in ("<<<M335>>>" ++ check (runes_of_ascii "packet Logon//x
{ @calculatedFrom( ""a	b""
    ) repeat options1 , @calculatedFrom(
    ""a\\"") // c
char[] options1 `it's`, @tag(4294967296 ) repeat Logon
{match trueish as
    u128
    {""x y""
    //	t
    :// c
i64_
    ,
    [ 4294967296 , 007, 10 ]: i8i8 , } ,
//
// @lengthOf(
T	`u8 x,` ,repeat uint64 T `u8 x,`
, } , } options // @lengthOf(
{u128 =// trailing space 
'0'tag =  true
    ; Packet  = char[ 0123456789 ] ;
    Foo = 007 body
= 3 ;
    } packet i64_
{ }
//x
")).
Eval vm_compute in ("<<<M767>>>" ++ check (runes_of_ascii "  root packet x_y_z{ @rightPad (  )repeat char[] int `tab	here`//x
, @calculatedFrom( ""// no comment"" )
    // c
    pack
, char[
1 // `tick` ""quote"" 'q'
]
int	@calculatedFrom(
""" ++ [28040; 24687]%N ++ runes_of_ascii """ ) , MetaDataX a1 ,Z9_
{u16 pack, char[
0]
options1, repeat stringy{ /// triple
i8i8 @lengthOf( int
    ) , zchar packetx , } ,Packet`// not a comment`
, } ,
@rightPad ( ' ' ) uint64 zchar `" ++ [28040; 24687; 31867; 22411]%N ++ runes_of_ascii "` , /// triple
u16 Header
    `crlf
line`,	}options{packetx=  false ;
    }
")).
Eval vm_compute in ("<<<M4373>>>" ++ check (runes_of_ascii "MetaData Logon {
    zchar[3] a1 `" ++ [28040; 24687; 31867; 22411]%N ++ runes_of_ascii "`,
    char[007] MetaDataX `a\`,
}

root packet pack {
}

packet i64_ {
    @lengthOf(chars)
    len {
        uint8 rootA `doc`,
        string_ `crlf
                line`,//	t
        match charz as Foo {
            42 : options1,
            [255] : charz,
        },
    },
    roots repeatCount `two words`,
    //	t
    string Logon @calculatedFrom(""a\""b""),
    @calculatedFrom(""a\\"")
    Z9_,
}//x")).
Eval vm_compute in ("<<<M716>>>" ++ check (runes_of_ascii "
root packet Z9_ { asx
// trailing space 
//
@lengthOf(u8x  )
    `crlf
line`
    , i16 trueish `tab	here`  , i8 metadata , @calculatedFrom(
""// no comment"" // a // b
) Z9_ `tab	here`
, @calculatedFrom( """" )	A x
    ,
    Logon Foo ,
    repeat  zchar[	3
]// `tick` ""quote"" 'q'
pack , } MetaData u8x {} packet x_y_z
    {
    @rightPad ( ' ')
    repeat
    crc  asx /// triple
, // " ++ [128512]%N ++ runes_of_ascii " emoji
}
    options {
body =
u32 ; }")).
Eval vm_compute in ("<<<M608>>>" ++ check (runes_of_ascii "packet asx{repeat
    falsey {  match lengthOf as T {
    [""\" ++ [233]%N ++ runes_of_ascii """
    ,42 ,  1
, ""// no comment"", """ ++ [28040; 24687]%N ++ runes_of_ascii """]
    :	x , 4294967296 :matchKey ,
7 :roots
    ,[ // `tick` ""quote"" 'q'
0123456789
,// " ++ [128512]%N ++ runes_of_ascii " emoji
""// no comment""
    // trailing space 
    ,0123456789 ,
3	, 0123456789
    , 65535, ""a\\"" , ""a	b"" ]
    : metadata , [ 65535 ] : asx , [""a	b"",
""a\\"" , 4294967296	] : x ,	}//
, } , @leftPad (  ) falsey T ,	}
")).
Eval vm_compute in ("<<<M540>>>" ++ check (runes_of_ascii "packet asx {  @tag( 7 ) repeat	u16  _x , //
@calculatedFrom(""a	b"") string	a1`two words`
    , A@calculatedFrom( ""abc"")`
` ,//
uint16 pack // a // b
@calculatedFrom(  ""// no comment""
),
    // a // b
    char[] tag  @lengthOf( u128 )
`
`
    , string_
@lengthOf( chars
    )	, // " ++ [128512]%N ++ runes_of_ascii " emoji
match Pad as  packetx {255 : u128 ,  } ,repeat // `tick` ""quote"" 'q'
calculatedFrom float `
`	,	}
")).
Eval vm_compute in ("<<<M964>>>" ++ check (runes_of_ascii "
root packet
asx { @calculatedFrom( ""CRC32""
// " ++ [27880; 37322]%N ++ runes_of_ascii "
// packet A { u8 x, }
)match  chars as
trueish {
""""	: T	, 42
    : f32a , ""{,}"" :	calculatedFrom 255  :// c
A ,	} ,
    }root packet  matchKey { u16 len@lengthOf( metadata )	`// not a comment` , }  options {
Z9_ =
    ""it's"" packetx= """ ++ [28040; 24687]%N ++ runes_of_ascii """	; falsey
// a // b
// c
= //
char[ 0 ] ;MetaDataX = ""a\\""
    A = true ;
    }
")).
Eval vm_compute in ("<<<M235>>>" ++ check (runes_of_ascii "root //x
packet
rootA
{ @leftPad ( '\x00'
    ) @rightPad
    (' ' )
    // a // b
    @tag(0 ) repeat zchar[ 3 ] matchKey
    , // packet A { u8 x, }
} packet u8x { } options
    { packetx= '0'
Pad = '\x00' Logon
    =  false ;}
// " ++ [128512]%N ++ runes_of_ascii " emoji
// c
MetaData u8x {i32 rootA
    , MetaDataX zchar`" ++ [233]%N ++ runes_of_ascii "` , // packet A { u8 x, }
int64 Foo `// not a comment` ,
}
")).
Eval vm_compute in ("<<<M9>>>" ++ check (runes_of_ascii "options { i64_ =// a // b
""it's"" ;
Foo =  ""\n""	; x_y_z = '\x00';
len= '0'
}	root packet Packet
{ @tag(  0)  match	crc
as A// " ++ [27880; 37322]%N ++ runes_of_ascii "
{[ ""`tick`"",
    ""`tick`""
// @lengthOf(
// a // b
, ""packet""
,
    ""CRC32""
    ,
// " ++ [27880; 37322]%N ++ runes_of_ascii "
//
""\n""
,""a\\""
,
    255 ]
    : T // c
} // @lengthOf(
, repeat float64 x,
zchar[ 00 // `tick` ""quote"" 'q'
] chars,
} //	t")).
Eval vm_compute in ("<<<M589>>>" ++ check (runes_of_ascii "options {
    MetaDataX = ""it's""
    ; Header
// " ++ [128512]%N ++ runes_of_ascii " emoji
// " ++ [128512]%N ++ runes_of_ascii " emoji
= // packet A { u8 x, }
true ; u8x
    =
false; stringy= """ ++ [233]%N ++ runes_of_ascii "t" ++ [233]%N ++ runes_of_ascii """  }
MetaData i64_{ a1 // trailing space 
_x // a // b
, u16 charz , char[ 1 ]	u `doc` , uint64 i8i8 ,/// triple
o /// triple
uint8x	,
char[]
Pad ,}
packet _x{  }
options { // " ++ [128512]%N ++ runes_of_ascii " emoji
u= false }
")).
Eval vm_compute in ("<<<M4201>>>" ++ check (runes_of_ascii "packet falsey {
    //	t
    _x {
        T @calculatedFrom(""" ++ [28040; 24687]%N ++ runes_of_ascii """),
        int64 roots,
        match float as a1 {
            1 : falsey,
            [
                ""CRC32"", ""a\""b"", 255, 65535, 42,
                0123456789
            ] : pack,
        },
    },
    pack {
        falsey,
    },
    packetx,
}")).
Eval vm_compute in ("<<<M630>>>" ++ check (runes_of_ascii "root packet As { match pack as body{ [3 , ""\" ++ [233]%N ++ runes_of_ascii """ ,255, 007	, 00
// trailing space 
//	t
,
007
    ]
    :Pad ,}
    //x
    ,
@lengthOf(
    charz )
@rightPad ( '0') @calculatedFrom( ""1"" ) repeatCount BodyLength  ,	@rightPad ('\x00' ) zchar[ 00 ] string_
`" ++ [28040; 24687; 31867; 22411]%N ++ runes_of_ascii "` , crc @lengthOf(
    msg_type )
, //x
}")).
Eval vm_compute in ("<<<M1482>>>" ++ check (runes_of_ascii "root packet Foo // " ++ [128512]%N ++ runes_of_ascii " emoji
{ } options {
    // a // b
    tag // `tick` ""quote"" 'q'
= //	t
""""
    ; u8x = zchar[""" ++ [233]%N ++ runes_of_ascii "t" ++ [233]%N ++ runes_of_ascii """  ] }
MetaData
    int {zchar[ 10]
lengthOf	`` , i64 u8x`// not a comment` ,MetaDataX pack// `tick` ""quote"" 'q'
`crlf
line`
, Logon charz `crlf
line`
    ,
    // a // b
    }
")).
Eval vm_compute in ("<<<M1480>>>" ++ check (runes_of_ascii "root packet Foo // " ++ [128512]%N ++ runes_of_ascii " emoji
{ } options {
    // a // b
    tag // `tick` ""quote"" 'q'
= //	t
""""
    ; u8x = zchar[0 0  ] }
MetaData
    int {zchar[ 10]
lengthOf	`` , i64 u8x`// not a comment` ,MetaDataX pack// `tick` ""quote"" 'q'
`crlf
line`
, Logon charz `crlf
line`
    ,
    // a // b
    }
")).
Eval vm_compute in ("<<<M1623>>>" ++ check (runes_of_ascii "root packet Foo // " ++ [128512]%N ++ runes_of_ascii " emoji
{ } options {
    // a // b
    tag // `tick` ""quote"" 'q'
= //	t
""""
    ; u8x = zchar[0  ] }
MetaData
    int {zchar[ 10]
lengthOf	`` , i64 u8x`// not a comment` ,MetaDataX pack// `tick` ""quote"" 'q'
`crlf
line`
, caf" ++ [233]%N ++ runes_of_ascii "_1 charz `crlf
line`
    ,
    // a // b
    }
")).
Eval vm_compute in ("<<<M1566>>>" ++ check (runes_of_ascii "root packet Foo // " ++ [128512]%N ++ runes_of_ascii " emoji
{ } options {
    // a // b
    tag // `tick` ""quote"" 'q'
= //	t
""""
    ; u8x = zchar[0  ] }
MetaData
    int {zchar[ 10]
lengthOf	`` , i64 u8x`// not a comment` ,MetaDataX `crlf
line`// `tick` ""quote"" 'q'
pack
, Logon charz `crlf
line`
    ,
    // a // b
    }
")).
Eval vm_compute in ("<<<M4169>>>" ++ check (runes_of_ascii "packet As {
    // packet A { u8 x, }
    repeatCount @lengthOf(Pad) `" ++ [28040; 24687; 31867; 22411]%N ++ runes_of_ascii "`,// c
}

MetaData uint8x {
    char[3] o `say ""hi""`,
    uint16 A,
    leftPad matchKey,
    char[] As `line1
        line2`,
    u32 string_,/// triple
    metadata len,
}

packet options1 {
    metadata options1,
}")).
Eval vm_compute in ("<<<M3483>>>" ++ check (runes_of_ascii "packet A {
    u8 a,
}
packet B {
    u16 b,
}
packet C {
    u32 c,
}
root packet M {
    u16 Kc, u16 Kb, u16 Ka,
    match Kc as X {
        9 : A,
        10 : B,
    },
    match Kb as Y {
        2 : C,
        1 : A,
    },
    match Ka as Z {
        1 : B,
    },
    A, B, C,
}
")).
Eval vm_compute in ("<<<M993>>>" ++ check (runes_of_ascii "packet chars // a // b
{ }
packet int
    { options1 // " ++ [128512]%N ++ runes_of_ascii " emoji
{ repeat int32 u ,char[] Pad `" ++ [28040; 24687; 31867; 22411]%N ++ runes_of_ascii "`, },
    repeat char[] T
/// triple
//	t
,	match u128 as Packet {
""\n"": MetaDataX , ""\n""
    :
falsey
    ""a	b""
:
    i8i8 ,""it's"" : options1	,""`tick`"":
pack , ""\" ++ [233]%N ++ runes_of_ascii """:int  , }	, }
")).
Eval vm_compute in ("<<<M536>>>" ++ check (runes_of_ascii "root packet A  { @rightPad ( ) char[ 0
// @lengthOf(
// trailing space 
] Logon
    //
    @calculatedFrom( ""abc""
)
    `line1
line2` , @calculatedFrom(
""// no comment"" )repeat f64 u128// " ++ [27880; 37322]%N ++ runes_of_ascii "
`line1
line2`// @lengthOf(
, }	options  {BodyLength =	' ' packetx =
""abc"" }")).
Eval vm_compute in ("<<<M106>>>" ++ check (runes_of_ascii "// " ++ [27880; 37322]%N ++ runes_of_ascii "
options //x
{ msg_type
//x
//	t
= '0'} packet _x { // `tick` ""quote"" 'q'
@tag( 00  ) @tag(1)	char[] a1
,
// packet A { u8 x, }
/// triple
} packet float
//	t
// " ++ [128512]%N ++ runes_of_ascii " emoji
{ }
//	t
// packet A { u8 x, }
MetaData
    // `tick` ""quote"" 'q'
    Foo {
}")).
Eval vm_compute in ("<<<M59>>>" ++ check (runes_of_ascii "packet _x { Packet { chars
    Logon
,int8 float , i64 rootA `" ++ [233]%N ++ runes_of_ascii "` ,} /// triple
,@calculatedFrom(
""abc"" )
    x_y_z
{ leftPad // trailing space 
charz
`a\` ,i32 metadata `say ""hi""` ,} , charz rootA `u8 x,`, }  root// " ++ [128512]%N ++ runes_of_ascii " emoji
packet f32a//
{ }
")).
Eval vm_compute in ("<<<M312>>>" ++ check (runes_of_ascii "options {
f32a= 3	;Logon
    =
    ""x y"";
len
=
10	}packet string_ {@lengthOf( MetaDataX ) // c
int32 f32a , _x @lengthOf( rootA) ,@rightPad ( ) stringy ,
@tag( 0123456789 )
    // a // b
    repeatCount @calculatedFrom( """ ++ [128512]%N ++ runes_of_ascii """
    ), }
")).
Eval vm_compute in ("<<<M2246>>>" ++ check (runes_of_ascii "MetaData Packet { }packet	asx  { @lengthOf( @lengthOf( asx) falsey`crlf
line`
,
    }
    packet x	{uint32// @lengthOf(
rootA	,u32 options1 `say ""hi""` , @tag( 7
    )// packet A { u8 x, }
msg_type @lengthOf(
stringy	)	, }

")).
Eval vm_compute in ("<<<M4159>>>" ++ check (runes_of_ascii "MetaData Packet {
}

packet asx {
    @lengthOf(asx)
    falsey `crlf
        line`,
}

packet x {
    uint32 rootA,
    u32 options1 `say ""hi""`,
    @tag(7)
    // packet A { ''u8 x, }
    msg_type @lengthOf(stringy),
}")).
Eval vm_compute in ("<<<M2276>>>" ++ check (runes_of_ascii "MetaData Packet { }packet	asx  { @lengthOf( asx) falsey`crlf
line`
,
    } }
    packet x	{uint32// @lengthOf(
rootA	,u32 options1 `say ""hi""` , @tag( 7
    )// packet A { u8 x, }
msg_type @lengthOf(
stringy	)	, }

")).
Eval vm_compute in ("<<<M3822>>>" ++ check (runes_of_ascii "MetaData Packet {
}

packet asx {
    @lengthOf(asx)
    falsey `crlf
        line`,
}

packet x {
    uint32 rootA,
    options1 `say ""hi""`,
    @tag(7)
    // packet A { u8 x, }
    msg_type @lengthOf(stringy),
}")).
Eval vm_compute in ("<<<M2367>>>" ++ check (runes_of_ascii "MetaData Packet { }packet	asx  { @lengthOf( asx) falsey`crlf
line`
,
    }
    packet x	{uint32// @lengthOf(
rootA	,u32 options1 `say ""hi""` , @tag( 7
    )// packet A { u8 x, }
msg_type @lengthOf(
stringy	)	} ,

")).
Eval vm_compute in ("<<<M2250>>>" ++ check (runes_of_ascii "MetaData Packet { }packet	asx  { @lengthOf( ) falsey`crlf
line`
,
    }
    packet x	{uint32// @lengthOf(
rootA	,u32 options1 `say ""hi""` , @tag( 7
    )// packet A { u8 x, }
msg_type @lengthOf(
stringy	)	, }

")).
Eval vm_compute in ("<<<M2348>>>" ++ check (runes_of_ascii "MetaData Packet { }packet	asx  { @lengthOf( asx) falsey`crlf
line`
,
    }
    packet x	{uint32// @lengthOf(
rootA	,u32 options1 `say ""hi""` , @tag( 7
    )// packet A { u8 x, }
{ @lengthOf(
stringy	)	, }

")).
Eval vm_compute in ("<<<M4359>>>" ++ check (runes_of_ascii "packet metadata {
    @rightPad('\x00')
    @rightPad('\x00')
    char[] _x @calculatedFrom(""a\\""),
    repeat int64 roots,
    repeat zchar[007] i64_,
    match A as o {
        ""1"" : Foo,
    },//x
}")).
Eval vm_compute in ("<<<M4511>>>" ++ check (runes_of_ascii "
root

packet	stringy  { @tag( 7 ) @tag(1

    ) 
@rightPad
( '\x00'
	)
	Foo  // `tick` ""quote"" 'q'
	x
	`crlf
line`,
	@calculatedFrom(
""a	b""  )
roots 	 //x
	`it's`	// @lengthOf(

	,  }
")).
Eval vm_compute in ("<<<M928>>>" ++ check (runes_of_ascii "  packet
zchar {	match roots
as stringy{[ //	t
""`tick`"" ]	: calculatedFrom 10 :asx , """ ++ [233]%N ++ runes_of_ascii "t" ++ [233]%N ++ runes_of_ascii """
    :
    // `tick` ""quote"" 'q'
    BodyLength , """ ++ [128512]%N ++ runes_of_ascii """ :options1 , 3:
    repeatCount
    , }
,}")).
Eval vm_compute in ("<<<M1337>>>" ++ check (runes_of_ascii "MetaData options1
    { packetx x`
`, //	t
}
    options{
    x_y_z =true options1
    = char[]// trailing space 
;
    body =
65535/// triple
lengthOf =	""it's"" ;
x = '\x00'
}
")).
Eval vm_compute in ("<<<M535>>>" ++ check (runes_of_ascii "options
{ tag
= string ; // `tick` ""quote"" 'q'
chars = ""CRC32"" ;// packet A { u8 x, }
body  = ""// no comment"" /// triple
;}
    packet string_{ // " ++ [128512]%N ++ runes_of_ascii " emoji
matchKey A, }")).
Eval vm_compute in ("<<<M98>>>" ++ check (runes_of_ascii "root // trailing space 
packet Foo
    // " ++ [128512]%N ++ runes_of_ascii " emoji
    {
    //x
    char[] body`crlf
line`, // " ++ [128512]%N ++ runes_of_ascii " emoji
} options {
    _x=  false
    }
packet BodyLength	{
} 	 ")).
Eval vm_compute in ("<<<M2349>>>" ++ check (runes_of_ascii "MetaData Packet { }packet	asx  { @lengthOf( asx) falsey`crlf
line`
,
    }
    packet x	{uint32// @lengthOf(
rootA	,u32 options1 `say ""hi""` , @tag( 7
    )")).
Eval vm_compute in ("<<<M2339>>>" ++ check (runes_of_ascii "MetaData Packet { }packet	asx  { @lengthOf( asx) falsey`crlf
line`
,
    }
    packet x	{uint32// @lengthOf(
rootA	,u32 options1 `say ""hi""` , @tag(")).
Eval vm_compute in ("<<<M4450>>>" ++ check (runes_of_ascii "packet matchKey {
    @calculatedFrom(""" ++ [28040; 24687]%N ++ runes_of_ascii """)
    // " ++ [128512]%N ++ runes_of_ascii " emoji
    match tag as Foo {
        [""a\""b"", 255] : trueish,
    },// a // b
}

options {
}")).
Eval vm_compute in ("<<<M249>>>" ++ check (runes_of_ascii "
options {
Header
    // a // b
    =
false float
=
""abc"" ;
i64_  = false ;}options // " ++ [128512]%N ++ runes_of_ascii " emoji
{
//
//x
repeatCount
    =
    ""a\\"";
}
//
")).
Eval vm_compute in ("<<<M3565>>>" ++ check (runes_of_ascii "packet calculatedFrom {
    @tag(4294967296)
    // c5
    u msg_type,
    // c8
    char[3] crc @lengthOf(len) `u8 x,`,// c17
}
// c18")).
Eval vm_compute in ("<<<M1698>>>" ++ check (runes_of_ascii "root packet /// triple
rootA {	i32
MetaDataX@calculatedFrom( ""CRC32"" ) `line1
line2` , } MetaData BodyLength {
u8 u8
rootA, } // c")).
Eval vm_compute in ("<<<M1724>>>" ++ check (runes_of_ascii "root packet /// trip" ++ [65279]%N ++ runes_of_ascii "le
rootA {	i32
MetaDataX@calculatedFrom( ""CRC32"" ) `line1
line2` , } MetaData BodyLength {
u8
rootA, } // c")).
Eval vm_compute in ("<<<M1662>>>" ++ check (runes_of_ascii "root packet /// triple
rootA {	i32
MetaDataX@calculatedFrom( ""CRC32""  `line1
line2` , } MetaData BodyLength {
u8
rootA, } // c")).
Eval vm_compute in ("<<<M1816>>>" ++ check (runes_of_ascii "packet
    Pad // a // b
{ i8i8 @calculatedFrom( ""a	b"") `u8 x,` `u8 x,` ,
} options{ float// " ++ [128512]%N ++ runes_of_ascii " emoji
= f64 i64_
=//	t
00 }
")).
Eval vm_compute in ("<<<M3479>>>" ++ check (runes_of_ascii "packet

    order_item 
{
	u8	a  ,	}
root 
packet
    new_order

    {

    order_item

    ,

    u8 x ,
    }

")).
Eval vm_compute in ("<<<M4429>>>" ++ check (runes_of_ascii "
// c
      packet 
calculatedFrom {
	@tag(

4294967296)
    u 
msg_type , char[ 3

]
crc  @lengthOf( len )
`u8 x,` ,
	}")).
Eval vm_compute in ("<<<M1880>>>" ++ check (runes_of_ascii "packet
    Pad // a // b
{ i8i8 @calculatedFrom( ""a	b"") `u8 x,` ,
} options{ float// " ++ [128512]%N ++ runes_of_ascii " emoji
= f64 i6''4_
=//	t
00 }
")).
Eval vm_compute in ("<<<M631>>>" ++ check (runes_of_ascii "MetaData // " ++ [128512]%N ++ runes_of_ascii " emoji
Packet { char[] Pad
    // " ++ [27880; 37322]%N ++ runes_of_ascii "
    `tab	here`,
} MetaData	u { roots stringy`doc` , }	options	{ }
")).
Eval vm_compute in ("<<<M1790>>>" ++ check (runes_of_ascii "packet
    Pad // a // b
 i8i8 @calculatedFrom( ""a	b"") `u8 x,` ,
} options{ float// " ++ [128512]%N ++ runes_of_ascii " emoji
= f64 i64_
=//	t
00 }
")).
Eval vm_compute in ("<<<M568>>>" ++ check (runes_of_ascii "root packet lengthOf { repeat char[
0
    ] i8i8 `" ++ [233]%N ++ runes_of_ascii "` ,
MetaDataX@calculatedFrom( ""abc""
/// triple
// a // b
),  }")).
Eval vm_compute in ("<<<M512>>>" ++ check (runes_of_ascii "packet	f32a { i16 uint8x@lengthOf( a1 ) ,
    /// triple
    @lengthOf( body ) u64 u ,// packet A { u8 x, }
}

")).
Eval vm_compute in ("<<<M3463>>>" ++ check (runes_of_ascii "root packet
    // c1
P {
    // c3
repeat string ss , // c7
repeat // c8
u16 // c9
ns
    // c10
, } // c12
")).
Eval vm_compute in ("<<<M4105>>>" ++ check (runes_of_ascii "
packet	o {@tag(	42
)
    // c
	repeat

    x { char[ 0123456789 ] i64_	,

    }
,
	}options{
    }")).
Eval vm_compute in ("<<<M3029>>>" ++ check (runes_of_ascii "packet A {
    Inner {
        u8 x `a

b`,
        Deep {
            u8 y `a

b`,
        },
    },
}")).
Eval vm_compute in ("<<<M3369>>>" ++ check (runes_of_ascii "packet calculatedFrom { @tag( 4294967296 ) u msg_type , char[ 3 ] crc @lengthOf( len ) // c
`u8 x,` , }")).
Eval vm_compute in ("<<<M2981>>>" ++ check (runes_of_ascii "packet A {
  match k as n {
    [1, ""bb"", 007, ""d"", 5, ""f"", 7, ""h"", 9, ""j"", 11] : B
    2 : C
  },
}")).
Eval vm_compute in ("<<<M2960>>>" ++ check (runes_of_ascii "packet A {
  match k as n {
    [""a"", ""bb"", 007, ""d"", ""e"", 66, ""g"", ""h"", 9] : B,
    2 : C
  },
}")).
Eval vm_compute in ("<<<M2624>>>" ++ check (runes_of_ascii "packet A { @rightPad(' ') @lengthOf(b) @calculatedFrom(""c"") @tag(007) match k as n { 1 : B }, }")).
Eval vm_compute in ("<<<M3245>>>" ++ check (runes_of_ascii "packet Logon { @tag( 42 ) @rightPad ( ' ' ) @leftPad ( ) repeat trueish
// c
{ string T , } , }")).
Eval vm_compute in ("<<<M2972>>>" ++ check (runes_of_ascii "packet A {
  match k as n {
    [1, 22, ""c c"", 4, 5, ""f"", 7, 8, ""i"", 10] : B
    2 : C
  },
}")).
Eval vm_compute in ("<<<M554>>>" ++ check (runes_of_ascii "options { metadata = 7
    ;
uint8x = 1 asx
= char[ 10]
Z9_	=' ';body
=
    ""abc"" ;
    }")).
Eval vm_compute in ("<<<M282>>>" ++ check (runes_of_ascii "MetaData charz {
Pad tag `two words` ,
    u32 matchKey ,u128 Foo ,
char[ 255 ] body ,}
")).
Eval vm_compute in ("<<<M4080>>>" ++ check (runes_of_ascii "packet

    A

{
match
k

    as
	n {

[""a"",
""bb""
,
	""c c"" ] :B,
    2	:
C  },
} ")).
Eval vm_compute in ("<<<M1974>>>" ++ check (runes_of_ascii "root
packet crc
    ; f32a @calculatedFrom( """ ++ [233]%N ++ runes_of_ascii "t" ++ [233]%N ++ runes_of_ascii """ )
    `say ""hi""`, lengthOf `` ,  }")).
Eval vm_compute in ("<<<M2951>>>" ++ check (runes_of_ascii "packet A {
  match k as n {
    [1, 22, 007, 4, 5, 66, 7, 8, 9] : B
    2 : C
  },
}")).
Eval vm_compute in ("<<<M3333>>>" ++ check (runes_of_ascii "packet o { @tag( 42 ) repeat x { char[ 0123456789 ] i64_ , } , } options { }
// c
")).
Eval vm_compute in ("<<<M3312>>>" ++ check (runes_of_ascii "packet o { @tag( 42 ) repeat x { char[ // c
0123456789 ] i64_ , } , } options { }")).
Eval vm_compute in ("<<<M2046>>>" ++ check (runes_of_ascii "root
packet crc
    { f32a @calculatedFrom( """ ++ [233]%N ++ runes_of_ascii "t" ++ [233]%N ++ runes_of_ascii """ )
    `say ""hi""`, a" ++ [769]%N ++ runes_of_ascii "b `` ,  }")).
Eval vm_compute in ("<<<M2693>>>" ++ check (runes_of_ascii "true i16 i8 007 ( `{ , }` matchKey u32 65535 packet packet '\x00' ""`tick`"" u64")).
Eval vm_compute in ("<<<M2902>>>" ++ check (runes_of_ascii "packet A {
  match k as n {
    [1, ""bb"", 007, ""d"", 5] : B,
    2 : C
  },
}")).
Eval vm_compute in ("<<<M41>>>" ++ check (runes_of_ascii "MetaData// " ++ [128512]%N ++ runes_of_ascii " emoji
charz
{zchar[
    42] packetx
    `crlf
line` , } 	 ")).
Eval vm_compute in ("<<<M2875>>>" ++ check (runes_of_ascii "packet A {
  match k as n {
    [""a"", ""bb"", ""c c""] : B
    2 : C
  },
}")).
Eval vm_compute in ("<<<M3404>>>" ++ check (runes_of_ascii "MetaData _x { zchar[ 4294967296
// c
] lengthOf `// not a comment` , }")).
Eval vm_compute in ("<<<M884>>>" ++ check (runes_of_ascii "packet trueish { repeat rootA
    // " ++ [128512]%N ++ runes_of_ascii " emoji
    ,i64_
lengthOf,
}
")).
Eval vm_compute in ("<<<M2206>>>" ++ check (runes_of_ascii "root
    // `tick` ""quote"" 'q'
    packet As { trueish P" ++ [127]%N ++ runes_of_ascii "acket , }
")).
Eval vm_compute in ("<<<M3870>>>" ++ check (runes_of_ascii "packet A {
    match k as n {
        1 : B,
        // d
    },
}")).
Eval vm_compute in ("<<<M496>>>" ++ check (runes_of_ascii "packet T{	}
root
packet crc // `tick` ""quote"" 'q'
{ u8 Z9_, }")).
Eval vm_compute in ("<<<M2726>>>" ++ check (runes_of_ascii "@lengthOf( i16 } i16 packet rootA = false packet , u32 """ ++ [28040; 24687]%N ++ runes_of_ascii """ {")).
Eval vm_compute in ("<<<M3176>>>" ++ check (runes_of_ascii "packet A { @leftPad() char[4] x, @rightPad( ) zchar[2] y, }")).
Eval vm_compute in ("<<<M1943>>>" ++ check (runes_of_ascii "
packet	As { @calculatedFrom(//x
""{,}""	)# lengthOf , } 	 ")).
Eval vm_compute in ("<<<M29>>>" ++ check (runes_of_ascii "packet chars// packet A { u8 x, }
{} packet u {
}
//	t
")).
Eval vm_compute in ("<<<M1900>>>" ++ check (runes_of_ascii "
packet	 { @calculatedFrom(//x
""{,}""	)lengthOf , } 	 ")).
Eval vm_compute in ("<<<M1745>>>" ++ check (runes_of_ascii "options uint32 }options {  } // `tick` ""quote"" 'q'")).
Eval vm_compute in ("<<<M2415>>>" ++ check (runes_of_ascii "MetaData A
{
i64
chars	, } // `tick` ""qu?ote"" 'q'")).
Eval vm_compute in ("<<<M1748>>>" ++ check (runes_of_ascii "options { } }options {  } // `tick` ""quote"" 'q'")).
Eval vm_compute in ("<<<M1772>>>" ++ check (runes_of_ascii "options { }options {  } // `tick` ""quote"" " ++ [65279]%N ++ runes_of_ascii "'q'")).
Eval vm_compute in ("<<<M4056>>>" ++ check (runes_of_ascii "packet A {
    u8 x `a
        
        b`,
}")).
Eval vm_compute in ("<<<M2741>>>" ++ check (runes_of_ascii ": f32 false string u32 ; `crlf
line` ""{,}""")).
Eval vm_compute in ("<<<M2127>>>" ++ check (runes_of_ascii "MetaData x
{// " ++ [128512]%N ++ runes_of_ascii " emoji
i16 stringy root }")).
Eval vm_compute in ("<<<M2607>>>" ++ check (runes_of_ascii "packet A { match k as n { [1 2] : B }, }")).
Eval vm_compute in ("<<<M4525>>>" ++ check (runes_of_ascii "

  options  { string_ 
= //	t
		007
	}")).
Eval vm_compute in ("<<<M2121>>>" ++ check (runes_of_ascii "MetaData x
{// " ++ [128512]%N ++ runes_of_ascii " emoji
i16 , stringy }")).
Eval vm_compute in ("<<<M2669>>>" ++ check (runes_of_ascii "options { a = 1; } options { a = 1; }")).
Eval vm_compute in ("<<<M2114>>>" ++ check (runes_of_ascii "MetaData x
{// " ++ [128512]%N ++ runes_of_ascii " emoji
 stringy , }")).
Eval vm_compute in ("<<<M2048>>>" ++ check (runes_of_ascii "MetaData MetaData A { u64 pack, }")).
Eval vm_compute in ("<<<M4463>>>" ++ check (runes_of_ascii "packet A {
    u8 x `d" ++ [133]%N ++ runes_of_ascii "`,// c" ++ [133]%N ++ runes_of_ascii "
}")).
Eval vm_compute in ("<<<M2842>>>" ++ check (runes_of_ascii "f(ukmpH3;(""_fVi)^D86>RRY !%8T?")).
Eval vm_compute in ("<<<M2725>>>" ++ check (runes_of_ascii ", packet as MetaData ] int8 (")).
Eval vm_compute in ("<<<M266>>>" ++ check (runes_of_ascii "options
{Packet=
char[] }")).
Eval vm_compute in ("<<<M2057>>>" ++ check (runes_of_ascii "MetaData A { { u64 pack, }")).
Eval vm_compute in ("<<<M2097>>>" ++ check (runes_of_ascii "MetaData A { |u64 pack, }")).
Eval vm_compute in ("<<<M2068>>>" ++ check (runes_of_ascii "MetaData A { u64 ,pack }")).
Eval vm_compute in ("<<<M127>>>" ++ check (runes_of_ascii "packet Foo{/// triple
}")).
Eval vm_compute in ("<<<M1218>>>" ++ check (runes_of_ascii "packet
    Packet {
}
")).
Eval vm_compute in ("<<<M2821>>>" ++ check (runes_of_ascii "as u32 , ) as options")).
Eval vm_compute in ("<<<M538>>>" ++ check (runes_of_ascii "options{
    } //	t")).
Eval vm_compute in ("<<<M567>>>" ++ check (runes_of_ascii "root packet a1 { }")).
Eval vm_compute in ("<<<M3092>>>" ++ check (runes_of_ascii "// c" ++ [8202]%N ++ runes_of_ascii "
packet A {
}")).
Eval vm_compute in ("<<<M2630>>>" ++ check (runes_of_ascii "packet A { } root")).
Eval vm_compute in ("<<<M912>>>" ++ check (runes_of_ascii "//
packet crc{ }")).
Eval vm_compute in ("<<<M3156>>>" ++ check (runes_of_ascii "packet A {
}


")).
Eval vm_compute in ("<<<M2118>>>" ++ check (runes_of_ascii "MetaData x
{")).
Eval vm_compute in ("<<<M2691>>>" ++ check ([65533; 65533]%N ++ runes_of_ascii "m" ++ [65533; 65533]%N ++ runes_of_ascii "``" ++ [65533; 65533; 65533]%N)).
Eval vm_compute in ("<<<M2459>>>" ++ check (runes_of_ascii "packets")).
Eval vm_compute in ("<<<M38>>>" ++ check (runes_of_ascii "
 	 ")).
Eval vm_compute in ("<<<M3080>>>" ++ check (runes_of_ascii "// c" ++ [5760]%N)).
Eval vm_compute in ("<<<M2523>>>" ++ check (runes_of_ascii "12ab")).
Eval vm_compute in ("<<<M2531>>>" ++ check (runes_of_ascii "a_b")).
Eval vm_compute in ("<<<M2553>>>" ++ check ([233]%N ++ runes_of_ascii "a")).
