From FP Require Import Lexer Parser ShowPT Digest Formatter.
From Coq Require Import String List NArith.
Import ListNotations.
Open Scope string_scope.
Set Printing Width 100000000.
Set Printing Depth 100000000.
Definition show_fres (r : fres) : string :=
  match r with
  | FOk s => "OK:" ++ sh_escaped s ""
  | FErr s => "ERR:" ++ sh_escaped s ""
  | FPanic p => "PANIC:" ++ p
  end.
Definition check (rs : list rune) : string := digest (show_fres (format_res rs)).
Definition full (rs : list rune) : string := show_fres (format_res rs).
Eval vm_compute in ("<<<M1076>>>" ++ check (runes_of_ascii "  packet a1 {} options{len= ""a\""b"" ;
} options
{Header =
    '\x00' // " ++ [128512]%N ++ runes_of_ascii " emoji
; BodyLength=
uint8 ; } packet Foo {
    @lengthOf(
// " ++ [27880; 37322]%N ++ runes_of_ascii "
// trailing space 
a1) packetx{ a1 @calculatedFrom(
""\n"" ) , asx{	repeat char[ 3
]
roots`` , repeat string_	{
string a1 @calculatedFrom(""// no comment"" ) `// not a comment`, uint8 charz, string_ ,}	, string	_x `line1
line2` ,
    repeat char[] float `{ , }`  ,
    }
    , MetaDataX , },Packet
, char[
    0123456789] string_
    `say ""hi""` , @lengthOf( stringy
    ) @tag( 65535 ) @leftPad // a // b
( '0'
) match
    chars as
u8x { // packet A { u8 x, }
0123456789 :Packet,
0 : u , [ """ ++ [128512]%N ++ runes_of_ascii """	]
: matchKey
    // @lengthOf(
    , 0123456789 : // trailing space 
len , //	t
""a\\""
    : As,0123456789  :
x_y_z , },match
    // packet A { u8 x, }
    msg_type
    as metadata {	0123456789
    :
chars //
, // " ++ [27880; 37322]%N ++ runes_of_ascii "
65535  :	calculatedFrom
,// a // b
""packet"" : charz ,// trailing space 
}
, @tag( 10) repeat i8i8 falsey	`{ , }` ,
@tag(
    3) match repeatCount as zchar{ 10 : calculatedFrom // c
} , match//x
Logon as
/// triple
// trailing space 
falsey
    { ""a\""b"" : packetx,  } ,@lengthOf(
zchar )repeat zchar[ 00 // `tick` ""quote"" 'q'
]body	,
    repeat char[ 00
//
// trailing space 
]
len
    , } packet
    uint8x
{ @lengthOf( float ) @calculatedFrom( ""\n""
)
match zchar as BodyLength
    { 10 :Pad
    //x
    ,} ,
    @lengthOf( charz)	f32 stringy
`line1
line2` , crc { u64 BodyLength@lengthOf( calculatedFrom )
,char[ // @lengthOf(
00 ] msg_type
    /// triple
    @lengthOf( Logon ) , /// triple
} ,
    i16 MetaDataX`
`
,
@calculatedFrom( ""x y"" ) match roots as leftPad
{ ""\n"" : rootA , [ ""x y""
, 0123456789 , 0
,65535,
    ""x y""  ,
    ""abc"" ]:pack  ,  0 : float ,
    } , @lengthOf(lengthOf
) @lengthOf( f32a
) i32
// packet A { u8 x, }
// trailing space 
matchKey @lengthOf(len
)
, u8 Z9_ // " ++ [128512]%N ++ runes_of_ascii " emoji
@calculatedFrom( ""packet""
    )`it's` ,
@lengthOf( float
) repeat i8i8 `crlf
line` , @tag( 0123456789 ) repeat
i8
    matchKey `two words`, @leftPad
(
' '// a // b
) string metadata @calculatedFrom(  ""it's"" ) , }

")).
Eval vm_compute in ("<<<M4336>>>" ++ check (runes_of_ascii "  // @lengthOf(
MetaData

    zchar {

    string
o	`crlf
line`
, 
char[] pack  // c

  `crlf
line`

    ,
char[]
// trailing space 
  	Foo,

    }options  {
stringy

= ""`tick`""} 
packet

leftPad
    {

packetx

    @lengthOf(
    roots

) ,  @lengthOf( int 
      // a // b
	// " ++ [27880; 37322]%N ++ runes_of_ascii "
  ) @calculatedFrom( ""a\""b""
) @calculatedFrom(	""" ++ [28040; 24687]%N ++ runes_of_ascii """

    )
	int32
    MetaDataX`" ++ [233]%N ++ runes_of_ascii "` 	 // " ++ [27880; 37322]%N ++ runes_of_ascii "
	,

u8
int// `tick` ""quote"" 'q'
	,
@lengthOf( 
options1

    )  repeat u8 
BodyLength 	 // `tick` ""quote"" 'q'
,  @tag(

1 )

Logon,
	repeat
int32
    u8x	`say ""hi""`	,
	match int
as

charz
{ 
""abc"" 
: roots }
,string_
{zchar @lengthOf(
calculatedFrom
	)``
    ,}

, }	root  packet 
lengthOf 
{
@tag(
    4294967296)

    A 	 // packet A { u8 x, }
	@lengthOf( i64_	) 
`doc`
,
body @lengthOf(	lengthOf
    ) `it's` 
	// packet A { u8 x, }

, 
zchar[

    10 ]	// " ++ [27880; 37322]%N ++ runes_of_ascii "
      i8i8 , @calculatedFrom( """ ++ [233]%N ++ runes_of_ascii "t" ++ [233]%N ++ runes_of_ascii """
	)
	i64
int`u8 x,` ,  repeat  trueish{  string	options1
,	zchar[ 
0123456789]_x `tab	here`,

    Pad
{
	repeat

string repeatCount

    ,repeat string 
_x	, Packet @lengthOf(
roots ) `
`
, string	crc

    @calculatedFrom(
    ""abc""
) ,

} ,

match i8i8  as string_

{  // c
  [	""it's"" ] :options1

    ,

//
		// @lengthOf(
  	""a	b""
    :
    string_
	,
    [
	""a	b"" ,
	00
    ]  //	t
:	// `tick` ""quote"" 'q'
  metadata
	,  0	: o
""\" ++ [233]%N ++ runes_of_ascii """:
Pad // packet A { u8 x, }
	  ,
	}
	,
    }
,char[
    7
	] 
i8i8
`tab	here`

    ,
    roots
    {repeat uint8
	_x	`tab	here`
, }
	, repeat int64

f32a ,
	match

asx	as  calculatedFrom {

65535 
:

asx 

    // trailing space 
  //x

,
[
1 
]
	: uint8x
,
    42
    :x  [  ""x y""
	,  ""1""

,
    ""`tick`""
    ,
""1""

, ""1""
	,	""a	b""  ]

: MetaDataX } , }	MetaData
    chars{
	}

")).
Eval vm_compute in ("<<<M226>>>" ++ check (runes_of_ascii "root packet Foo { @tag(00	)
char[] _x
@calculatedFrom(
    // trailing space 
    ""{,}"" ) ,@rightPad	( '0' )f32 Pad@calculatedFrom( ""abc""
// @lengthOf(
// " ++ [27880; 37322]%N ++ runes_of_ascii "
)
, @rightPad
    ( '0' )  repeat falsey string_
// @lengthOf(
// " ++ [128512]%N ++ runes_of_ascii " emoji
`{ , }` , @calculatedFrom( ""abc"" )//
@tag(
00 ) rootA@calculatedFrom( ""it's"" ), BodyLength/// triple
lengthOf `doc` , Z9_{ f64 Z9_ ,T
charz
    `" ++ [233]%N ++ runes_of_ascii "`
, x {
tag crc,
    repeat uint32	chars
, zchar[ 0123456789 ]roots ,
int64 charz@calculatedFrom(
    ""it's"" ) `" ++ [28040; 24687; 31867; 22411]%N ++ runes_of_ascii "` ,} , i8 msg_type//	t
@lengthOf( options1 )
,
    } ,
    repeat MetaDataX { matchKey i64_ , string tag @lengthOf(
    msg_type )// trailing space 
, tag { string f32a
,// " ++ [27880; 37322]%N ++ runes_of_ascii "
match crc as u128
{	4294967296  :
    Z9_ ,""" ++ [28040; 24687]%N ++ runes_of_ascii """ : a1 ,//	t
65535 : T , [ ""CRC32"" ,
1
, ""packet"" ]
: x_y_z , } ,	string matchKey @calculatedFrom(""" ++ [28040; 24687]%N ++ runes_of_ascii """ ) `two words`	, } , char[ 65535 // trailing space 
] Header@calculatedFrom( ""CRC32"" ) `// not a comment` ,
} ,match
Foo as metadata	{
[""1"" ,
//	t
// " ++ [27880; 37322]%N ++ runes_of_ascii "
""""
] :  metadata	[ 0123456789  ] : tag ,
""1"" :  T
//	t
// a // b
4294967296
    :x , // packet A { u8 x, }
0 :
trueish ,	""{,}"" :  metadata , // a // b
}, zchar[255
]
    u128
@lengthOf(float ) ,// trailing space 
} packet a1
{ @rightPad ( ' ' ) @tag( 7//x
)@tag( 10 )
//	t
// trailing space 
Header { Packet @lengthOf( lengthOf ) , string
options1
,
match zchar as pack
{ """" :o , """ ++ [28040; 24687]%N ++ runes_of_ascii """ :	leftPad  , """ ++ [28040; 24687]%N ++ runes_of_ascii """ :
crc } ,	Z9_
//x
// trailing space 
{
    //
    len//	t
int ,  } ,
    },}
")).
Eval vm_compute in ("<<<M4162>>>" ++ check (runes_of_ascii "  packet string_// packet A { u8 x, }

	{ @lengthOf(x_y_z  // " ++ [128512]%N ++ runes_of_ascii " emoji
) 
u8x// @lengthOf(
@lengthOf(MetaDataX ),  match
u128
as
    calculatedFrom	{	""// no comment"":Foo
	}

    , @tag( 255
) f32a	body ,f64	i64_

`two words`
    ,@tag( 7  )

@leftPad

(
	) 
	    // c
    	// a // b
@calculatedFrom(

    """ ++ [233]%N ++ runes_of_ascii "t" ++ [233]%N ++ runes_of_ascii """ ) uint16	u
    @lengthOf( i64_
    )

    `tab	here` ,
@lengthOf(
	options1 )roots
{

string
x
    @calculatedFrom( ""1"" )	,  len
    `say ""hi""`

    ,

    rootA  @lengthOf(crc	) 
      //	t
, i64_@lengthOf(  Logon)  
  // trailing space 
`doc`

    ,
	} 
//
//
	,
Packet	@calculatedFrom(

    ""abc""

)  , 
@tag(
	7
)@lengthOf(
    crc ) match crc	as Z9_

    {
42
: u128 10 :Packet

,""packet""
	:repeatCount

[

    """ ++ [128512]%N ++ runes_of_ascii """
    ,
""abc""	// " ++ [27880; 37322]%N ++ runes_of_ascii "
]

:
u8x

    [""a\""b""  /// triple

,

42
	]

:	rootA

,  [
007  ,

""1"" , 
    //	t
		""" ++ [233]%N ++ runes_of_ascii "t" ++ [233]%N ++ runes_of_ascii """
	]
:
chars 
, 
}  ,}  root
packet
	u{ @calculatedFrom(
""CRC32"")	_x@calculatedFrom(""\" ++ [233]%N ++ runes_of_ascii """	)

    , calculatedFrom lengthOf

    ,@rightPad(
	)

    uint32

zchar
@calculatedFrom(
    """ ++ [233]%N ++ runes_of_ascii "t" ++ [233]%N ++ runes_of_ascii """
    )
,
	A

,

}
root

    packet int  {  
  // `tick` ""quote"" 'q'
	// `tick` ""quote"" 'q'
  char stringy

    `a\`, // trailing space 
} options

    { Z9_	//	t
  =	""abc""
;
crc	= 
' '
	;  matchKey  =
00  ;
	}")).
Eval vm_compute in ("<<<M3723>>>" ++ check (runes_of_ascii "
MetaData 
        // " ++ [128512]%N ++ runes_of_ascii " emoji
// trailing space 
    o{	char[
    255 ]	// @lengthOf(
    BodyLength,
} 
packet	crc	{

@tag( 7
)

calculatedFrom

    @lengthOf(Header)

,
	len
    {	float
{ i32
    T
    ,
    stringy
string_
    // c

,
char[// " ++ [27880; 37322]%N ++ runes_of_ascii "
  65535

]Packet @lengthOf( a1

)  `` 
, falsey 
{ u16 
Logon `{ , }` , } ,
}

    ,
    repeat 	 /// triple
  falsey
,repeat	u8  Logon , 
}  ,
zchar[  65535 ]

    lengthOf

    @lengthOf( asx
	) `line1
line2`
	, 
@rightPad
(
'0' ) int16

f32a,	@rightPad (// packet A { u8 x, }
  '\x00')

char[]	len 
    // packet A { u8 x, }
    `" ++ [28040; 24687; 31867; 22411]%N ++ runes_of_ascii "`

    ,match

string_
    as
    string_
/// triple

{ [
""a\\"" ,
	10
,	007  ,//	t
	0123456789]	: As
    ,

    [ ""`tick`""
	] : //
  	metadata,
""\n"" :	falsey

    , // `tick` ""quote"" 'q'
    [ 3
    ,// " ++ [27880; 37322]%N ++ runes_of_ascii "

""" ++ [233]%N ++ runes_of_ascii "t" ++ [233]%N ++ runes_of_ascii """ ,//	t
""CRC32""	]	:
    lengthOf
, 
00

    : x_y_z ,	}
	, packetx
{  repeat
a1 `it's` 	 // packet A { u8 x, }

,
	stringy

    `{ , }`  , match  T
as

    MetaDataX 	 // @lengthOf(
    	{ ""CRC32""	: lengthOf
}	,  } ,
	} MetaData tag 
{//x

}	packet

    Z9_ 
{
i16
rootA

// packet A { u8 x, }

// @lengthOf(
	`
`// " ++ [27880; 37322]%N ++ runes_of_ascii "
  , //	t

  }

")).
Eval vm_compute in ("<<<M1119>>>" ++ check (runes_of_ascii "packet msg_type {  char[ 10
    ]Logon  @lengthOf(	u8x ) `` , repeat
    i16
    Logon `two words`
,} MetaData matchKey  { zchar[ 0
] tag`" ++ [28040; 24687; 31867; 22411]%N ++ runes_of_ascii "` , }
    packet leftPad { repeat// trailing space 
roots
    // trailing space 
    { match zchar	as
T { ""{,}""
//x
// " ++ [27880; 37322]%N ++ runes_of_ascii "
:
    Z9_ , ""\n"" : tag
""a\\"": lengthOf ,} , }
, }root  packet a1
{
@tag(	3 )
    u128`it's`
    ,MetaDataX
{match // `tick` ""quote"" 'q'
metadata
    as o  { ""`tick`""
:roots 10 : u, ""\" ++ [233]%N ++ runes_of_ascii """ :	float , } , char[ 3 ]
    /// triple
    pack
@calculatedFrom( ""`tick`""  ) , match
pack  as asx {7
    : rootA [
42 , 1	,
    ""\" ++ [233]%N ++ runes_of_ascii """ , ""a	b""  , """ ++ [28040; 24687]%N ++ runes_of_ascii """  ,00 ,10, ""a\\"" ]	:	x_y_z ,/// triple
42 :f32a // " ++ [128512]%N ++ runes_of_ascii " emoji
42:u // c
, """ ++ [128512]%N ++ runes_of_ascii """ // @lengthOf(
: A
1 : Z9_// `tick` ""quote"" 'q'
},} ,i64 roots , zchar[ 65535
    ] stringy,crc @calculatedFrom( ""a\\"") , zchar[ 007]
stringy
    , /// triple
string
    Z9_ ,  @calculatedFrom( // c
""x y"" )@lengthOf(calculatedFrom)@calculatedFrom( ""abc"") u128`it's`
,//
@tag(
    // a // b
    1 ) zchar[ 0123456789	] string_
    , } options {//x
metadata= '\x00' u = false
T
=	10 ;
_x= ""abc"" asx = false ; } // packet A { u8 x, }")).
Eval vm_compute in ("<<<M1316>>>" ++ check (runes_of_ascii "packet
calculatedFrom { Pad { match
    tag as metadata {
    ""x y"":tag 10 :Packet,[ 007
, ""it's"" ,
    0
, 3
,
4294967296
    // c
    ,""" ++ [28040; 24687]%N ++ runes_of_ascii """ , ""\n"" ,""a	b"" ] : Logon , 3 : A ,
    [
0123456789 ] : leftPad, } , } ,//	t
@lengthOf( int
) repeat char[ 255 ] msg_type `" ++ [28040; 24687; 31867; 22411]%N ++ runes_of_ascii "` , Pad @calculatedFrom(""" ++ [233]%N ++ runes_of_ascii "t" ++ [233]%N ++ runes_of_ascii """ ) , @tag(65535)  f32 u128 `// not a comment` ,zchar[ //x
3 ]
    leftPad
// trailing space 
// " ++ [27880; 37322]%N ++ runes_of_ascii "
`" ++ [28040; 24687; 31867; 22411]%N ++ runes_of_ascii "`,@rightPad( ' ' ) @lengthOf( roots ) /// triple
repeat char[
    10]
leftPad,Logon charz
    // @lengthOf(
    `line1
line2` , } MetaData _x
{ string Z9_
`tab	here`
,u _x ``
    , zchar[
    10]
asx
`line1
line2`, u128 Logon , char[
    7
] u128 , options1	repeatCount , }options {} packet
    /// triple
    body
    {// `tick` ""quote"" 'q'
@calculatedFrom( ""a	b""
)  char[] len
,	@lengthOf( Packet )
    match
//	t
/// triple
zchar as i64_{ [ ""x y"",""" ++ [28040; 24687]%N ++ runes_of_ascii """ ,	3, 65535
    ,""`tick`"" , ""{,}"" , ""\" ++ [233]%N ++ runes_of_ascii """ , 42 ] : i64_ ,} ,
matchKey
chars , @lengthOf( x_y_z
// packet A { u8 x, }
//
) @tag( 00 )a1 @lengthOf(repeatCount ) // trailing space 
,}

")).
Eval vm_compute in ("<<<M1058>>>" ++ check (runes_of_ascii "root
    packet rootA {
x_y_z { _x// a // b
, } ,	}
    MetaData leftPad { } packet float {	repeat // trailing space 
Header{  float64 i64_
    @calculatedFrom( ""{,}"" ) `crlf
line` ,// c
}
    , // @lengthOf(
zchar
    // " ++ [27880; 37322]%N ++ runes_of_ascii "
    { charz @calculatedFrom(//x
""a	b""  ),  zchar[	3	]
T @calculatedFrom(
    ""it's"")
, packetx ,	x_y_z As`u8 x,` ,  },
} root packet
// `tick` ""quote"" 'q'
//	t
asx{ repeat
uint32
u128 ,
    @tag( /// triple
3) Z9_
, crc	@calculatedFrom( """"
// @lengthOf(
// " ++ [27880; 37322]%N ++ runes_of_ascii "
) `{ , }` ,  @calculatedFrom(
""a\\"" )@calculatedFrom( ""a\""b"" ) @tag(
0123456789
    )
match
float
as u{ //
[ 1
// `tick` ""quote"" 'q'
//x
, 0 ,
007 , """ ++ [128512]%N ++ runes_of_ascii """ ,
// " ++ [128512]%N ++ runes_of_ascii " emoji
//
3 ,	1
// " ++ [128512]%N ++ runes_of_ascii " emoji
// @lengthOf(
, """ ++ [28040; 24687]%N ++ runes_of_ascii """, 10
    ]: repeatCount ,} ,  repeat char metadata
`tab	here`
,
    // @lengthOf(
    @tag( 65535	)// a // b
i64_ {
    // " ++ [128512]%N ++ runes_of_ascii " emoji
    i32 roots`a\`	, } , @lengthOf( repeatCount
)
    // a // b
    i16
    rootA @lengthOf( u) ,@lengthOf( Header ) _x{ repeat A i8i8
    ,
    }//
, }")).
Eval vm_compute in ("<<<M3815>>>" ++ check (runes_of_ascii "MetaData o {
    char[255] BodyLength,
}

packet crc {
    @tag(7)
    calculatedFrom @lengthOf(Header),
    len {
        float {
            i32 T,
            stringy string_,
            char[65535] Packet @lengthOf(a1) ``,
            falsey {
                u16 Logon `{ , }`,
            },
        },
        repeat falsey,
        repeat u8 Logon,
    },
    zchar[65535] lengthOf @lengthOf(asx) `line1
    line2`,
    @rightPad('0')
    int16 f32a,
    @rightPad('\x00')
    char[] len `" ++ [28040; 24687; 31867; 22411]%N ++ runes_of_ascii "`,
    match string_ as string_ {
        [10, 007, 0123456789, ""a\\""] : As,
        [""`tick`""] : metadata,
        ""\n"" : falsey,
        // `tick` ""quote"" 'q'
        [3, """ ++ [233]%N ++ runes_of_ascii "t" ++ [233]%N ++ runes_of_ascii """, ""CRC32""] : lengthOf,
        00 : x_y_z,
    },
    packetx {
        repeat a1 `it's`,
        stringy `{ , }`,
        match T as MetaDataX {
            ""CRC32"" : lengthOf,
        },
    },
}

MetaData tag {
}

packet Z9_ {
    i16 rootA `
    `,//	t
}")).
Eval vm_compute in ("<<<M3862>>>" ++ check (runes_of_ascii "  root
packet As {@tag(

4294967296
)

    packetx // packet A { u8 x, }
    	,

    @calculatedFrom(""" ++ [128512]%N ++ runes_of_ascii """ )

i32

crc// " ++ [128512]%N ++ runes_of_ascii " emoji
	,
@lengthOf(
x_y_z)@lengthOf( 
	    // a // b
	  body 
// a // b
		// c

) 
BodyLength
{match  repeatCount
as
	int
    {
""\" ++ [233]%N ++ runes_of_ascii """ :
    body
, // packet A { u8 x, }
    ""// no comment"" : falsey ,""abc"" :

    tag""a	b"" :	zchar ,
// trailing space 
    007  : Packet
	, 
},  // " ++ [128512]%N ++ runes_of_ascii " emoji
    } , repeat
	falsey
    trueish
	,
@leftPad(
' ' ) @lengthOf(	// packet A { u8 x, }
Logon ) @leftPad 
(
)int @lengthOf(u8x

    ) ,
zchar[ 
  // " ++ [27880; 37322]%N ++ runes_of_ascii "
  // packet A { u8 x, }
  007
]

falsey  , 
@rightPad
    ( )float@lengthOf( Logon  )

,
    @rightPad('\x00'
) 
@calculatedFrom( /// triple
""a	b""
    )Z9_

    u8x

    , 
@tag( 3	)  string_
u128
,
}

options	{

u128=	""it's""
;

    metadata
=""abc"" string_=
    true ;f32a	=	// c
    true } packet
i8i8	{ }
")).
Eval vm_compute in ("<<<M376>>>" ++ check (runes_of_ascii "packet options1 { repeat  matchKey `doc` , char[] string_
    // " ++ [27880; 37322]%N ++ runes_of_ascii "
    `
`, // packet A { u8 x, }
uint16 T , repeatCount
    _x
    ,} packet msg_type
    { @lengthOf( Pad
    )
asx @calculatedFrom(
    ""\" ++ [233]%N ++ runes_of_ascii """) ,  @tag( 4294967296
) Logon `a\`,@tag( 0
    )
crc  @lengthOf(charz// " ++ [128512]%N ++ runes_of_ascii " emoji
) `u8 x,`
, char[	0	] f32a // " ++ [128512]%N ++ runes_of_ascii " emoji
,  u8
    A `line1
line2`,Z9_ u `{ , }`
, repeat uint8x `" ++ [28040; 24687; 31867; 22411]%N ++ runes_of_ascii "`	, int8 Packet@calculatedFrom( ""{,}""
) ,
    // packet A { u8 x, }
    } packet A {
// trailing space 
// trailing space 
@tag( 3)@tag(
    /// triple
    1
    )
u16 A// c
, @tag(1 )
match
//
// @lengthOf(
roots as
pack{ // c
[
    ""CRC32"" ] :
i8i8
""a\\""
    : trueish , [ ""{,}"",	""" ++ [28040; 24687]%N ++ runes_of_ascii """ ] :
    falsey
    // `tick` ""quote"" 'q'
    } // a // b
, @rightPad// packet A { u8 x, }
( ' ') int16 Packet `
` , // `tick` ""quote"" 'q'
repeat zchar[1
] Pad  , // a // b
}
")).
Eval vm_compute in ("<<<M855>>>" ++ check (runes_of_ascii "MetaData Logon {int x `u8 x,` , i16 calculatedFrom `say ""hi""` , trueish x_y_z `// not a comment`	, }
options {len  = true	;} packet
crc {
@lengthOf( matchKey ) repeat  body
{ uint64 chars
    , match
Packet as
// " ++ [27880; 37322]%N ++ runes_of_ascii "
// c
float
    {""// no comment"" :
// packet A { u8 x, }
// packet A { u8 x, }
calculatedFrom	, } , u64 body  , i8i8
lengthOf `doc`
    , } , repeat // @lengthOf(
o,
match f32a
    as int// `tick` ""quote"" 'q'
{ 255 : u8x// c
,""x y""	: As , ""\" ++ [233]%N ++ runes_of_ascii """ // packet A { u8 x, }
:
    _x 0 : _x ,
    ""1""
:
uint8x
    // trailing space 
    , }
// " ++ [128512]%N ++ runes_of_ascii " emoji
//	t
,match	falsey	as float  { [ ""`tick`"" ]:
string_ , 10
:  u8x ,"""" : crc// @lengthOf(
,
    /// triple
    0
: rootA// trailing space 
, ""abc""  : i64_
, } , @rightPad
( ' ' ) repeat float32	o // trailing space 
`// not a comment` ,o As `a\` ,	}

")).
Eval vm_compute in ("<<<M5>>>" ++ check (runes_of_ascii "root packet // a // b
chars{
    u32
u8x `it's`
    , A o
,
Packet {u/// triple
`doc` , repeat
// @lengthOf(
// " ++ [128512]%N ++ runes_of_ascii " emoji
Header
    u8x  ,
i8i8
As , } , @calculatedFrom(
// `tick` ""quote"" 'q'
// trailing space 
""a\\"" ) charz
    { //x
char[]a1 , //
string Pad , x repeatCount
, metadata {
chars{ body`a\`  , match
    trueish as lengthOf
    { 0:u8x
    , } , match packetx as	string_  {0123456789
:BodyLength , } , } ,
repeat calculatedFrom
    roots
    ,
repeat
Packet
    ,int32 Logon, }
    ,// c
}, repeatCount,
    @lengthOf( float) match trueish as Header { [ ""{,}"" , ""1""
]
    : // " ++ [27880; 37322]%N ++ runes_of_ascii "
f32a ,} ,	i16 chars
    , match As  as Pad { 3: f32a , [ 4294967296
    ] : body,[	""{,}""
]
: u8x // `tick` ""quote"" 'q'
, ""a	b"" :
    Z9_,
    // packet A { u8 x, }
    } ,// " ++ [27880; 37322]%N ++ runes_of_ascii "
} //x")).
Eval vm_compute in ("<<<M3755>>>" ++ check (runes_of_ascii "MetaData Logon {
    int x `u8 x,`,
    i16 calculatedFrom `say ""hi""`,
    trueish x_y_z `// not a comment`,
}

options {
    len = true;
}

packet crc {
    @lengthOf(matchKey)
    repeat body {
        uint64 chars,
        match Packet as float {
            ""// no comment"" : calculatedFrom,
        },
        u64 body,
        i8i8 lengthOf `doc`,
    },
    repeat o,
    match f32a as int {
        255 : u8x,
        ""x y"" : As,
        ""\" ++ [233]%N ++ runes_of_ascii """ : _x,
        0 : _x,
        ""1"" : uint8x,
    },
    match falsey as float {
        [""`tick`""] : string_,
        10 : u8x,
        """" : crc,
        /// triple
        0 : rootA,
        ""abc"" : i64_,
    },
    @rightPad(' ')
    repeat float32 o `// not a comment`,
    o As `a\`,
}")).
Eval vm_compute in ("<<<M39>>>" ++ check (runes_of_ascii "  options
    {string_
    //x
    =char[ 7 ] ;} options { crc=float64 ; Logon
    = false // a // b
As
    =
    '0' f32a =
char[] ; // packet A { u8 x, }
T =
00	}	root
packet x { @calculatedFrom(
""1"" )repeat zchar[
    255
] // " ++ [128512]%N ++ runes_of_ascii " emoji
string_ , } root packet int {	@tag(4294967296) char[255 // packet A { u8 x, }
]
a1
    ,repeat
x ``, char[]  packetx
@lengthOf( uint8x ) `u8 x,` , zchar[ 10 ]leftPad @calculatedFrom( ""a	b"" )
, lengthOf @calculatedFrom( """"	) , @calculatedFrom(
    /// triple
    ""packet"" )
    i32 matchKey , @rightPad (
) zchar[ 1
] A, u32
Packet @calculatedFrom( ""{,}"" ) `a\`	,// c
repeat char[00]Header	`say ""hi""`
    //x
    , stringy	trueish `// not a comment`, } 	 ")).
Eval vm_compute in ("<<<M1066>>>" ++ check (runes_of_ascii "MetaData
zchar{ } packet
Packet { u16 x  @calculatedFrom(
    """ ++ [28040; 24687]%N ++ runes_of_ascii """ )
``
,
    // " ++ [128512]%N ++ runes_of_ascii " emoji
    @tag(	7 )	@tag( 00)
Packet u128,	@lengthOf( //
float )
match A
as
// trailing space 
// @lengthOf(
charz
{00 // `tick` ""quote"" 'q'
: x ,[ 0 ,
255
, ""it's"" ,10
    ] : Packet
    , ""a\\"":  metadata
, [// c
""`tick`"" , 10 ] /// triple
:
chars , [ ""a\""b"" // packet A { u8 x, }
] :trueish, } ,uint64 string_ // trailing space 
,
@rightPad
(// a // b
' ')  float64
    stringy `line1
line2`  ,  @tag( 00 //
)	uint16 As , }//	t
options {Logon =
    false  ;
    // a // b
    body =
    f64 // c
; } MetaData asx { } packet leftPad{float @lengthOf( A ) `a\`  ,
}
// " ++ [27880; 37322]%N ++ runes_of_ascii "
")).
Eval vm_compute in ("<<<M4477>>>" ++ check (runes_of_ascii "packet  A	// c1

	{ // c2
u8	// c3
    a

    // c4
    ,
	// c5
	}  
      // c6
  packet 
      // c7
	  B
    { // c9
	  u16 	 // c10

b , 	 // c12
  	} 
    // c13
  	root 
  // c14
      packet // c15
		P{
    u8 	 // c18
K1	// c19a

// c19b

, // c20a
      // c20b
	u8 K2
, 	 // c23a
  // c23b
	match  K1 
    // c25

as 
    // c26
	M1  // c27

{	1 // c29

	:	// c30
    	A// c31
  ,  // c32a
  // c32b

} 	 // c33
  	, 	 // c34
    match	// c35
  K2	// c36a
  // c36b
  	as  
      // c37

M2 // c38
  { // c39
    1:  // c41a

// c41b
	B 	 // c42a
		// c42b
  , // c43
} 	 // c44a
// c44b
    	, }

")).
Eval vm_compute in ("<<<M3627>>>" ++ check (runes_of_ascii "packet leftPad {
    @tag(00)
    As chars,
    u8 i8i8,
    match o as chars {
        [
            42, 00, ""{,}"", ""1"", ""abc"",
            ""packet"", """", ""a\""b""
        ] : uint8x,
        ""// no comment"" : calculatedFrom,
        0 : int,
        ""packet"" : u,
        /// triple
        ""CRC32"" : As,
        0 : len,
    },
    char[0123456789] float @calculatedFrom(""CRC32""),
    Pad chars `two words`,
    string stringy @calculatedFrom(""""),
    @calculatedFrom(""`tick`"")
    // packet A { u8 x, }
    roots @lengthOf(MetaDataX),
    @tag(4294967296)
    u32 A ``,
    Foo,
    f32 matchKey,
}")).
Eval vm_compute in ("<<<M261>>>" ++ check (runes_of_ascii "packet// " ++ [128512]%N ++ runes_of_ascii " emoji
BodyLength {@calculatedFrom( ""it's"" ) zchar[ 0123456789] Z9_ `it's` , } packet zchar{ @lengthOf(
rootA )@rightPad ( '0' )// " ++ [27880; 37322]%N ++ runes_of_ascii "
repeat
int64
stringy
,@lengthOf( lengthOf ) match Pad as o
// a // b
//x
{ [ 10
    , ""a\""b""] :
BodyLength, """ ++ [233]%N ++ runes_of_ascii "t" ++ [233]%N ++ runes_of_ascii """ :zchar  3:T },
} MetaData Logon { uint8x i64_ , } root packet
/// triple
// `tick` ""quote"" 'q'
zchar {
charz `" ++ [28040; 24687; 31867; 22411]%N ++ runes_of_ascii "` , } packet i64_
{	u
`two words`
// `tick` ""quote"" 'q'
// c
, @calculatedFrom(""it's""
)char[
    // trailing space 
    0123456789	] body`it's`
    ,char[ 255 ]leftPad `two words` , }")).
Eval vm_compute in ("<<<M3678>>>" ++ check (runes_of_ascii "

  packet x  {
	}MetaData
	calculatedFrom {	}  MetaData

    x_y_z  {
	char  u ,	char[]  u8x	,// a // b
      char[0123456789]	u128
    //x
  /// triple
      `say ""hi""` 
,
zchar
    rootA

    ,
    f64 
x_y_z

,  }
packet	uint8x {@calculatedFrom(	// " ++ [128512]%N ++ runes_of_ascii " emoji

	""a\""b""
    )
    @calculatedFrom(

    ""CRC32"" 
)  repeat
	char[] trueish ,

} root packet falsey{
    repeat	// `tick` ""quote"" 'q'
uint8x  {

string metadata

    @calculatedFrom(  ""a\\""
    )
    `" ++ [28040; 24687; 31867; 22411]%N ++ runes_of_ascii "`

    ,	Foo

    @lengthOf(  falsey
	) , } ,	}

")).
Eval vm_compute in ("<<<M1369>>>" ++ check (runes_of_ascii "packet leftPad { @calculatedFrom( ""\" ++ [233]%N ++ runes_of_ascii """ ) @rightPad	( '0'
) @lengthOf( asx)
BodyLength trueish `it's` ,
@leftPad('\x00' ) A // " ++ [128512]%N ++ runes_of_ascii " emoji
i8i8`
` ,@tag(
    0 ) matchKey
{  int16
falsey `line1
line2` ,/// triple
} ,// " ++ [128512]%N ++ runes_of_ascii " emoji
match tag as
falsey	{
    [ ""packet"" ]  : i64_
3 : leftPad
    ,	} , @calculatedFrom(
    ""// no comment""
) string a1
,@leftPad // trailing space 
(
// `tick` ""quote"" 'q'
// @lengthOf(
'\x00' )
@calculatedFrom( """ ++ [28040; 24687]%N ++ runes_of_ascii """ )
@calculatedFrom(
    ""`tick`""
    )repeat chars
As
,
}
")).
Eval vm_compute in ("<<<M4383>>>" ++ check (runes_of_ascii "
root
packet
metadata 
{  // packet A { u8 x, }
@rightPad
(
' ' // a // b

	)
	@leftPad

    (	'\x00'

)

    f64 a1 `u8 x,`,  // trailing space 
  char[ 7 ]  metadata	@lengthOf(	Logon	) , @calculatedFrom(""\n"")

char[4294967296  ]repeatCount
    ,@tag(65535
    ) zchar[
255]
chars
	@lengthOf(

    stringy)
    ,
zchar// packet A { u8 x, }
	{ zchar@lengthOf(  crc

    /// triple
		// " ++ [27880; 37322]%N ++ runes_of_ascii "
  )	// a // b
    ,
uint64	Packet `crlf
line`

,
} ,

    /// triple

	}
")).
Eval vm_compute in ("<<<M1229>>>" ++ check (runes_of_ascii "  root
packet
zchar
{
    _x { uint32
packetx @lengthOf( pack) ,
    char[ 10 ] MetaDataX
`line1
line2`, char[] leftPad
, } ,@lengthOf(
u8x
    ) repeat u128 _x,	}packet leftPad{char  repeatCount
, } // `tick` ""quote"" 'q'
packet pack { @lengthOf(// " ++ [128512]%N ++ runes_of_ascii " emoji
Header )
char[ 65535 ]
    u128	@calculatedFrom(// " ++ [128512]%N ++ runes_of_ascii " emoji
""" ++ [233]%N ++ runes_of_ascii "t" ++ [233]%N ++ runes_of_ascii """
)`// not a comment` , @tag( 0123456789
)
    @leftPad ( ' '	) @calculatedFrom( ""a	b"" )  repeat int Logon `// not a comment` ,
    }")).
Eval vm_compute in ("<<<M3737>>>" ++ check (runes_of_ascii "packet asx {
    repeat falsey {
        match lengthOf as T {
            [42, 1, ""\" ++ [233]%N ++ runes_of_ascii """, ""// no comment"", """ ++ [28040; 24687]%N ++ runes_of_ascii """] : x,
            4294967296 : matchKey,
            7 : roots,
            [
                0123456789, 0123456789, 3, 0123456789, 65535,
                ""// no comment"", ""a\\"", ""a	b""
            ] : metadata,
            [65535] : asx,
            [4294967296, ""a	b"", ""a\\""] : x,
        },
    },
    @leftPad()
    falsey T,
}")).
Eval vm_compute in ("<<<M369>>>" ++ check (runes_of_ascii "
MetaData
// packet A { u8 x, }
// @lengthOf(
calculatedFrom {  zchar[
    3 ] u8x
, i32 o
,
    zchar[42
//x
// @lengthOf(
]
leftPad ,roots u
//x
//
, }
packet
    trueish{ @leftPad
    ( )asx
    //	t
    @lengthOf(
i8i8
) ,
    @rightPad ( '\x00' )tag
@lengthOf( Packet ) , Pad
    // `tick` ""quote"" 'q'
    options1 `doc` ,	@lengthOf(
Header) match Z9_
// c
/// triple
as zchar
{ 4294967296 : o ,
    } ,  } /// triple")).
Eval vm_compute in ("<<<M3583>>>" ++ check (runes_of_ascii "  options//	t
    { BodyLength=	""{,}"" 
tag
	=  ""// no comment"" ;
}
    options
{
charz=
    '\x00' 
; 	 // a // b
  repeatCount	=  255 // c
;
_x=

""" ++ [128512]%N ++ runes_of_ascii """
; 
Foo
= '0'
    a1
=

'0' 
    //x
	//
    	}
root
    packet

falsey	{ 
i64
    packetx@lengthOf(
    Header	//	t
	)`" ++ [28040; 24687; 31867; 22411]%N ++ runes_of_ascii "` ,	len 
@lengthOf(
    roots 
)
    `a\` 
,
	zchar

@lengthOf(  MetaDataX 
//x
)  `line1
line2`	,

    }	// packet A { u8 x, }")).
Eval vm_compute in ("<<<M4208>>>" ++ check (runes_of_ascii "options {
    LittleEndian = true;// c5
    ArrayPrefixLenType = u64;// c9a
    // c9b
    FixedStringPadFromLeft = false;
}

packet Quote {
}

// c18
root packet Order {
    // c22
    i64 Side2,
    // c25
    Quote,
    // c27
    u32 Px,// c30a
    // c30b
    match Px as Body {
        [119, 147] : Quote,
    },// c45a
    // c45b
    u16 Flags @calculatedFrom(""CRC32""),// c51a
}// c52")).
Eval vm_compute in ("<<<M4342>>>" ++ check (runes_of_ascii "options {
    chars = '\x00'
    metadata = true;
    x_y_z = string;
}

packet Logon {
    repeat char[10] packetx `" ++ [28040; 24687; 31867; 22411]%N ++ runes_of_ascii "`,
}

options {
    stringy = 4294967296
    As = ""x y"";
    f32a = ' ';
}

packet chars {
    @calculatedFrom(""x y"")
    packetx @calculatedFrom(""" ++ [128512]%N ++ runes_of_ascii """),
    i8i8 @lengthOf(u),
    @rightPad(' ')
    @lengthOf(msg_type)
    @lengthOf(Z9_)
    T stringy,
}")).
Eval vm_compute in ("<<<M235>>>" ++ check (runes_of_ascii "root //x
packet
rootA
{ @leftPad ( '\x00'
    ) @rightPad
    (' ' )
    // a // b
    @tag(0 ) repeat zchar[ 3 ] matchKey
    , // packet A { u8 x, }
} packet u8x { } options
    { packetx= '0'
Pad = '\x00' Logon
    =  false ;}
// " ++ [128512]%N ++ runes_of_ascii " emoji
// c
MetaData u8x {i32 rootA
    , MetaDataX zchar`" ++ [233]%N ++ runes_of_ascii "` , // packet A { u8 x, }
int64 Foo `// not a comment` ,
}
")).
Eval vm_compute in ("<<<M858>>>" ++ check (runes_of_ascii "
root packet f32a {	@leftPad
( '0' ) @tag( 00 )
@rightPad( '0'
)falsey tag//x
, /// triple
float32 packetx`tab	here`
    , Pad
    , @tag( 255
)
    char[]T`" ++ [28040; 24687; 31867; 22411]%N ++ runes_of_ascii "` , repeat char[ 4294967296  ]
    Logon  , repeat zchar[ // @lengthOf(
007 ]x
`
`
    //	t
    ,
uint64 uint8x `two words`
,
    Z9_ @lengthOf( f32a  )
,	} // packet A { u8 x, }")).
Eval vm_compute in ("<<<M4334>>>" ++ check (runes_of_ascii "
packet

    msg_type{ 
charz  ``

,
	Logon @lengthOf(
As
    ) // " ++ [128512]%N ++ runes_of_ascii " emoji
,	zchar[
10  ]
Packet
,

@rightPad(

' ' 	 // " ++ [128512]%N ++ runes_of_ascii " emoji
    )
repeat

As
{

    char[ 
007

] int  @lengthOf(

    roots//	t
),
int64
	u8x	`" ++ [233]%N ++ runes_of_ascii "`
, 
zchar
	// `tick` ""quote"" 'q'
	@calculatedFrom(
""" ++ [233]%N ++ runes_of_ascii "t" ++ [233]%N ++ runes_of_ascii """
)
	,
}  // a // b

  ,	/// triple
      }")).
Eval vm_compute in ("<<<M1020>>>" ++ check (runes_of_ascii "packet
stringy { string_
    , }
packet
rootA
    { f32
A @lengthOf( lengthOf ) , @calculatedFrom(	""" ++ [233]%N ++ runes_of_ascii "t" ++ [233]%N ++ runes_of_ascii """ )zchar[ 4294967296// " ++ [27880; 37322]%N ++ runes_of_ascii "
] float @lengthOf( Foo ) ,
@rightPad (
    '0' )
// `tick` ""quote"" 'q'
// packet A { u8 x, }
string
body
`" ++ [233]%N ++ runes_of_ascii "` ,char[ 42
//	t
// packet A { u8 x, }
] Logon @lengthOf( uint8x ) `u8 x,` , }
")).
Eval vm_compute in ("<<<M3335>>>" ++ check (runes_of_ascii "// top
packet
    // c0
calculatedFrom
    // c1
{
    // c2
@tag(
    // c3
4294967296
    // c4
)
    // c5
u
    // c6
msg_type
    // c7
,
    // c8
char[
    // c9
3
    // c10
]
    // c11
crc
    // c12
@lengthOf(
    // c13
len
    // c14
)
    // c15
`u8 x,`
    // c16
,
    // c17
}
    // c18
")).
Eval vm_compute in ("<<<M1580>>>" ++ check (runes_of_ascii "root packet Foo // " ++ [128512]%N ++ runes_of_ascii " emoji
{ } options {
    // a // b
    tag // `tick` ""quote"" 'q'
= //	t
""""
    ; u8x = zchar[0  ] }
MetaData
    int {zchar[ 10]
lengthOf	`` , i64 u8x`// not a comment` ,MetaDataX pack// `tick` ""quote"" 'q'
`crlf
line`
, Logon Logon charz `crlf
line`
    ,
    // a // b
    }
")).
Eval vm_compute in ("<<<M1615>>>" ++ check (runes_of_ascii "root packet Foo // " ++ [128512]%N ++ runes_of_ascii " emoji
{ } options {
    // a // b
    tag // `tick` ""quote"" 'q'
= //	t
""""
    ; u8x'1' = zchar[0  ] }
MetaData
    int {zchar[ 10]
lengthOf	`` , i64 u8x`// not a comment` ,MetaDataX pack// `tick` ""quote"" 'q'
`crlf
line`
, Logon charz `crlf
line`
    ,
    // a // b
    }
")).
Eval vm_compute in ("<<<M1501>>>" ++ check (runes_of_ascii "root packet Foo // " ++ [128512]%N ++ runes_of_ascii " emoji
{ } options {
    // a // b
    tag // `tick` ""quote"" 'q'
= //	t
""""
    ; u8x = zchar[0  ] }
MetaData
    { int zchar[ 10]
lengthOf	`` , i64 u8x`// not a comment` ,MetaDataX pack// `tick` ""quote"" 'q'
`crlf
line`
, Logon charz `crlf
line`
    ,
    // a // b
    }
")).
Eval vm_compute in ("<<<M1506>>>" ++ check (runes_of_ascii "root packet Foo // " ++ [128512]%N ++ runes_of_ascii " emoji
{ } options {
    // a // b
    tag // `tick` ""quote"" 'q'
= //	t
""""
    ; u8x = zchar[0  ] }
MetaData
    int zchar[{ 10]
lengthOf	`` , i64 u8x`// not a comment` ,MetaDataX pack// `tick` ""quote"" 'q'
`crlf
line`
, Logon charz `crlf
line`
    ,
    // a // b
    }
")).
Eval vm_compute in ("<<<M1504>>>" ++ check (runes_of_ascii "root packet Foo // " ++ [128512]%N ++ runes_of_ascii " emoji
{ } options {
    // a // b
    tag // `tick` ""quote"" 'q'
= //	t
""""
    ; u8x = zchar[0  ] }
MetaData
    int zchar[ 10]
lengthOf	`` , i64 u8x`// not a comment` ,MetaDataX pack// `tick` ""quote"" 'q'
`crlf
line`
, Logon charz `crlf
line`
    ,
    // a // b
    }
")).
Eval vm_compute in ("<<<M1527>>>" ++ check (runes_of_ascii "root packet Foo // " ++ [128512]%N ++ runes_of_ascii " emoji
{ } options {
    // a // b
    tag // `tick` ""quote"" 'q'
= //	t
""""
    ; u8x = zchar[0  ] }
MetaData
    int {zchar[ 10]
int8	`` , i64 u8x`// not a comment` ,MetaDataX pack// `tick` ""quote"" 'q'
`crlf
line`
, Logon charz `crlf
line`
    ,
    // a // b
    }
")).
Eval vm_compute in ("<<<M773>>>" ++ check (runes_of_ascii "
packet u8x { int32
u , @leftPad
    ( '\x00' )	int16
    /// triple
    leftPad
    ,@lengthOf(
    stringy ) uint32 BodyLength@calculatedFrom(
""" ++ [28040; 24687]%N ++ runes_of_ascii """// a // b
)
    `say ""hi""` ,	} root packet  msg_type {float64  Foo ,string repeatCount
    ,} root packet
    repeatCount {
    }")).
Eval vm_compute in ("<<<M4443>>>" ++ check (runes_of_ascii "  root
	packet

    stringy
	{ match uint8x as roots

{

    [
    ""a\""b"" ]  :
rootA	,
	42 :
	int
	, 
""a\\"":
Logon
	,

    [7
    ] :
o	, 
65535

:
x } 
      // `tick` ""quote"" 'q'
	// a // b

	,@tag( 	 // " ++ [128512]%N ++ runes_of_ascii " emoji

65535)
	string options1  @lengthOf( Logon
),}")).
Eval vm_compute in ("<<<M658>>>" ++ check (runes_of_ascii "options  {  matchKey =
    007;pack
    = false
; // `tick` ""quote"" 'q'
float =	int8 options1 = char[]x_y_z
    =
    //
    """" ; } options
{ Header = // " ++ [128512]%N ++ runes_of_ascii " emoji
float64//
;pack // `tick` ""quote"" 'q'
= float32
; string_
    = char[ 42 ] Logon= 00	;}
//	t
")).
Eval vm_compute in ("<<<M316>>>" ++ check (runes_of_ascii "packet  crc {calculatedFrom
    {string_ u
,
rootA
    calculatedFrom , } // packet A { u8 x, }
,
    @lengthOf( len
    )match //x
roots
    /// triple
    as x{""// no comment""
:
    msg_type
    ,
7 : calculatedFrom ,} ,} packet zchar
{
    }

")).
Eval vm_compute in ("<<<M1578>>>" ++ check (runes_of_ascii "root packet Foo // " ++ [128512]%N ++ runes_of_ascii " emoji
{ } options {
    // a // b
    tag // `tick` ""quote"" 'q'
= //	t
""""
    ; u8x = zchar[0  ] }
MetaData
    int {zchar[ 10]
lengthOf	`` , i64 u8x`// not a comment` ,MetaDataX pack// `tick` ""quote"" 'q'
`crlf
line`")).
Eval vm_compute in ("<<<M4493>>>" ++ check (runes_of_ascii "MetaData

    leftPad { char[]
	x_y_z 
`say ""hi""`

    ,  }  options
    {  string_ 
// " ++ [128512]%N ++ runes_of_ascii " emoji
		=

""CRC32"" }
options{ _x  =
	""1""; 
Header
	= f64  ; } packet	lengthOf

    {  } packet  x_y_z

{ 
    //x
// " ++ [27880; 37322]%N ++ runes_of_ascii "
		} 	 //
")).
Eval vm_compute in ("<<<M1246>>>" ++ check (runes_of_ascii "root
    //
    packet Foo {float32 Logon `doc` , } MetaData x_y_z
    // `tick` ""quote"" 'q'
    { Header
Z9_ `line1
line2`  , o crc ,// " ++ [27880; 37322]%N ++ runes_of_ascii "
string //x
Header , _x packetx`say ""hi""`,} packet stringy {
uint8 i64_ ,
    }

")).
Eval vm_compute in ("<<<M2338>>>" ++ check (runes_of_ascii "MetaData Packet { }packet	asx  { @lengthOf( asx) falsey`crlf
line`
,
    }
    packet x	{uint32// @lengthOf(
rootA	,u32 options1 `say ""hi""` , @tag( @tag(
    )// packet A { u8 x, }
msg_type @lengthOf(
stringy	)	, }

")).
Eval vm_compute in ("<<<M2287>>>" ++ check (runes_of_ascii "MetaData Packet { }packet	asx  { @lengthOf( asx) falsey`crlf
line`
,
    }
    packet {	x uint32// @lengthOf(
rootA	,u32 options1 `say ""hi""` , @tag( 7
    )// packet A { u8 x, }
msg_type @lengthOf(
stringy	)	, }

")).
Eval vm_compute in ("<<<M2297>>>" ++ check (runes_of_ascii "MetaData Packet { }packet	asx  { @lengthOf( asx) falsey`crlf
line`
,
    }
    packet x	{rootA// @lengthOf(
uint32	,u32 options1 `say ""hi""` , @tag( 7
    )// packet A { u8 x, }
msg_type @lengthOf(
stringy	)	, }

")).
Eval vm_compute in ("<<<M2340>>>" ++ check (runes_of_ascii "MetaData Packet { }packet	asx  { @lengthOf( asx) falsey`crlf
line`
,
    }
    packet x	{uint32// @lengthOf(
rootA	,u32 options1 `say ""hi""` , @tag( 7
    // packet A { u8 x, }
msg_type @lengthOf(
stringy	)	, }

")).
Eval vm_compute in ("<<<M2216>>>" ++ check (runes_of_ascii "MetaData  { }packet	asx  { @lengthOf( asx) falsey`crlf
line`
,
    }
    packet x	{uint32// @lengthOf(
rootA	,u32 options1 `say ""hi""` , @tag( 7
    )// packet A { u8 x, }
msg_type @lengthOf(
stringy	)	, }

")).
Eval vm_compute in ("<<<M1573>>>" ++ check (runes_of_ascii "root packet Foo // " ++ [128512]%N ++ runes_of_ascii " emoji
{ } options {
    // a // b
    tag // `tick` ""quote"" 'q'
= //	t
""""
    ; u8x = zchar[0  ] }
MetaData
    int {zchar[ 10]
lengthOf	`` , i64 u8x`// not a comment` ,MetaDataX pack")).
Eval vm_compute in ("<<<M1189>>>" ++ check (runes_of_ascii "options {
}root packet x_y_z { //
int32 f32a
    `u8 x,` , @calculatedFrom( ""{,}"" ) Header @calculatedFrom( """" ) ,//	t
zchar[
4294967296] //x
roots@lengthOf( string_
)
    , }packet rootA
{
    }
")).
Eval vm_compute in ("<<<M401>>>" ++ check (runes_of_ascii "MetaData// " ++ [27880; 37322]%N ++ runes_of_ascii "
Z9_ {
}root
    packet leftPad{	@lengthOf( Pad ) @lengthOf(lengthOf
)
    @tag( 4294967296 ) o @lengthOf( i64_ )// a // b
,
}
options
// `tick` ""quote"" 'q'
//x
{
    //
    }")).
Eval vm_compute in ("<<<M34>>>" ++ check (runes_of_ascii "options{// `tick` ""quote"" 'q'
len // `tick` ""quote"" 'q'
= """ ++ [28040; 24687]%N ++ runes_of_ascii """;
options1 = // " ++ [27880; 37322]%N ++ runes_of_ascii "
int32 zchar	=
    ""1"" ;float
= true tag =""" ++ [28040; 24687]%N ++ runes_of_ascii """ ; } MetaData u128 { msg_type i8i8 `doc` ,	o body
, }
")).
Eval vm_compute in ("<<<M579>>>" ++ check (runes_of_ascii "packet uint8x {f32 Header @calculatedFrom( ""CRC32""
),
    }MetaData  roots { string f32a , }MetaData int  { options1 string_
    , // `tick` ""quote"" 'q'
f64
float,
    }
")).
Eval vm_compute in ("<<<M4467>>>" ++ check (runes_of_ascii "// packet A { u8 x, }
packet BodyLength {
    @tag(255)
    repeat uint64 f32a,
}

packet chars {
}

MetaData zchar {
    char[] tag `a\`,
    body Logon `tab	here`,
}")).
Eval vm_compute in ("<<<M3615>>>" ++ check (runes_of_ascii "
packet
A
    {

match k

    as	n
{
    [
    1 ,
	22
,
    007 , 4

    ,  5

    ,

    66 ,
	7  ,	8
    , 9
	,	10

    ,11 ] 
:

B , 2	: 
C },}")).
Eval vm_compute in ("<<<M4020>>>" ++ check (runes_of_ascii "packet FooBar {
    // c2
    u8 a,
}// c6

packet foo_bar {
    // c9
    u16 b,// c12a
}

root packet R {
    FooBar,// c19
    foo_bar,// c21
}// c22")).
Eval vm_compute in ("<<<M1373>>>" ++ check (runes_of_ascii "packet
As { char[
0123456789]
    repeatCount
    // `tick` ""quote"" 'q'
    , u32 _x `// not a comment` , @tag( 3 )repeat i64 len `say ""hi""`,  }
")).
Eval vm_compute in ("<<<M4372>>>" ++ check (runes_of_ascii "packet A {
    match k as n {
        [
            1, 22, 4, 5, 7,
            8, 10, ""c c"", ""f"", ""i""
        ] : B,
        2 : C,
    },
}")).
Eval vm_compute in ("<<<M3419>>>" ++ check (runes_of_ascii "// top
root // c0
packet P
    // c2
{ // c3
repeat
    // c4
char cs
    // c6
, u8 x // c9a
  // c9b
, // c10a
  // c10b
}
    // c11
")).
Eval vm_compute in ("<<<M1626>>>" ++ check (runes_of_ascii "root root packet /// triple
rootA {	i32
MetaDataX@calculatedFrom( ""CRC32"" ) `line1
line2` , } MetaData BodyLength {
u8
rootA, } // c")).
Eval vm_compute in ("<<<M1180>>>" ++ check (runes_of_ascii "packet
x{ @calculatedFrom("""" )repeat
asx	{ //x
char[ 255 ] x
    ,}// packet A { u8 x, }
,  }
    options  { Pad = // " ++ [27880; 37322]%N ++ runes_of_ascii "
1//	t
}")).
Eval vm_compute in ("<<<M1649>>>" ++ check (runes_of_ascii "root packet /// triple
rootA {	i32
@calculatedFrom(MetaDataX ""CRC32"" ) `line1
line2` , } MetaData BodyLength {
u8
rootA, } // c")).
Eval vm_compute in ("<<<M53>>>" ++ check (runes_of_ascii "  options{ u= ""a	b"" ; charz = true ;
    matchKey =//x
0123456789 u8x =
char[]
    // trailing space 
    Packet
=
false ; }
")).
Eval vm_compute in ("<<<M814>>>" ++ check (runes_of_ascii "root
    packet  T{  string zchar ,
zchar[  3] stringy , } packet
    rootA {
    u {repeatCount@lengthOf(o)`{ , }` , } , }
")).
Eval vm_compute in ("<<<M3439>>>" ++ check (runes_of_ascii "packet B {
    u8 a,
}
root packet P {
    u8 K,
    match K as Body {
        1 : B,
    },
    u16 L @lengthOf(Body),
}
")).
Eval vm_compute in ("<<<M1170>>>" ++ check (runes_of_ascii "options
{// c
stringy= ""1"" ;float = i64; // a // b
calculatedFrom
=
    ""it's"" ; // c
Z9_=""// no comment"" ; // " ++ [27880; 37322]%N ++ runes_of_ascii "
}
")).
Eval vm_compute in ("<<<M1886>>>" ++ check (runes_of_ascii "packet
    Pad // a // b
{ i8i8 @calculated<From( ""a	b"") `u8 x,` ,
} options{ float// " ++ [128512]%N ++ runes_of_ascii " emoji
= f64 i64_
=//	t
00 }
")).
Eval vm_compute in ("<<<M1862>>>" ++ check (runes_of_ascii "packet
    Pad // a // b
{ i8i8 @calculatedFrom( ""a	b"") `u8 x,` ,
} options{ float// " ++ [128512]%N ++ runes_of_ascii " emoji
= f64 i64_
00//	t
= }
")).
Eval vm_compute in ("<<<M3052>>>" ++ check (runes_of_ascii "packet A {
    match k as n {
        ""x\
y"" : B,
        [""x\
y"", 1] : C,
        [1,2,3,4,5,""x\
y""] : D,
    },
}")).
Eval vm_compute in ("<<<M3694>>>" ++ check (runes_of_ascii "packet Logon {
    @tag(42)
    @rightPad(' ')
    @leftPad()
    repeat trueish {
        string T,// c
    },
}")).
Eval vm_compute in ("<<<M3028>>>" ++ check (runes_of_ascii "packet A {
    u16 len @lengthOf(body) `a

b`,
    u32 crc @calculatedFrom(""CRC32"") `a

b`,
    string body,
}")).
Eval vm_compute in ("<<<M4243>>>" ++ check (runes_of_ascii "// @lengthOf(
options {
}

packet pack {
}

options {
}

MetaData msg_type {
}

root packet repeatCount {
}")).
Eval vm_compute in ("<<<M4416>>>" ++ check (runes_of_ascii "MetaData tag {
    zchar[007] BodyLength ``,
}

root packet MetaDataX {
    string_ @lengthOf(Header),
}")).
Eval vm_compute in ("<<<M3362>>>" ++ check (runes_of_ascii "packet calculatedFrom { @tag( 4294967296 ) u msg_type , char[ 3 ]
// c
crc @lengthOf( len ) `u8 x,` , }")).
Eval vm_compute in ("<<<M3729>>>" ++ check (runes_of_ascii "
packet

A
{ match
    k
as 
n

    {

[	""a""
    , ""bb"",
    ""c c""]
    :
B ,	2:  C
}
    ,
}

")).
Eval vm_compute in ("<<<M1111>>>" ++ check (runes_of_ascii "
options { Foo=""`tick`""pack=
    //
    """ ++ [233]%N ++ runes_of_ascii "t" ++ [233]%N ++ runes_of_ascii """ ;leftPad
= false ; int
=char[] ; a1 =i16
    ;
}
")).
Eval vm_compute in ("<<<M1854>>>" ++ check (runes_of_ascii "packet
    Pad // a // b
{ i8i8 @calculatedFrom( ""a	b"") `u8 x,` ,
} options{ float// " ++ [128512]%N ++ runes_of_ascii " emoji
=")).
Eval vm_compute in ("<<<M3244>>>" ++ check (runes_of_ascii "packet Logon { @tag( 42 ) @rightPad ( ' ' ) @leftPad ( ) repeat trueish // c
{ string T , } , }")).
Eval vm_compute in ("<<<M1878>>>" ++ check (runes_of_ascii "packet
    Pad // a // b
{ i8i8 @calculatedFrom( ""a	b"") `u8 x,` ,
} options{ float// " ++ [128512]%N ++ runes_of_ascii " emoji")).
Eval vm_compute in ("<<<M554>>>" ++ check (runes_of_ascii "options { metadata = 7
    ;
uint8x = 1 asx
= char[ 10]
Z9_	=' ';body
=
    ""abc"" ;
    }")).
Eval vm_compute in ("<<<M3768>>>" ++ check (runes_of_ascii "MetaData f32a {
    u8 roots `doc`,
    zchar[7] uint8x,
    matchKey u128 `tab	here`,
}")).
Eval vm_compute in ("<<<M2039>>>" ++ check (runes_of_ascii "root
packet crc
    { f32a @calculatedFrom( """ ++ [233]%N ++ runes_of_ascii "t" ++ [233]%N ++ runes_of_ascii """ ?)
    `say ""hi""`, lengthOf `` ,  }")).
Eval vm_compute in ("<<<M3421>>>" ++ check (runes_of_ascii "options {
    LittleEndian = true;
}
root packet P {
    repeat char cs,
    u8 x,
}
")).
Eval vm_compute in ("<<<M2024>>>" ++ check (runes_of_ascii "root
packet crc
    { f32a @calculatedFrom( """ ++ [233]%N ++ runes_of_ascii "t" ++ [233]%N ++ runes_of_ascii """ )
    `say ""hi""`, lengthOf `` ,")).
Eval vm_compute in ("<<<M3303>>>" ++ check (runes_of_ascii "packet o { @tag( 42
// c
) repeat x { char[ 0123456789 ] i64_ , } , } options { }")).
Eval vm_compute in ("<<<M4373>>>" ++ check (runes_of_ascii "MetaData i64_ {
    options1 x `crlf
    line`,
}

packet u {
}// trailing space")).
Eval vm_compute in ("<<<M4075>>>" ++ check (runes_of_ascii "root packet Foo {
}

options {
    // a // b
    tag = """";
    u8x = zchar[0]
}")).
Eval vm_compute in ("<<<M2988>>>" ++ check (runes_of_ascii "packet A { Inner { match k as n { [1,22,007,4,5,66,7,8,9,10,11] : B, }, }, }")).
Eval vm_compute in ("<<<M702>>>" ++ check (runes_of_ascii "// packet A { u8 x, }
options{u
=string ;chars=
""" ++ [128512]%N ++ runes_of_ascii """ ; MetaDataX =false }
")).
Eval vm_compute in ("<<<M3413>>>" ++ check (runes_of_ascii "MetaData _x { zchar[ 4294967296 ] lengthOf `// not a comment` , } // c
")).
Eval vm_compute in ("<<<M3407>>>" ++ check (runes_of_ascii "MetaData _x { zchar[ 4294967296 ] lengthOf // c
`// not a comment` , }")).
Eval vm_compute in ("<<<M2167>>>" ++ check (runes_of_ascii "root
    // `tick` ""quote"" 'q'
    packet As { { trueish Packet , }
")).
Eval vm_compute in ("<<<M3378>>>" ++ check (runes_of_ascii "// top
packet
    // c0
lengthOf
    // c1
{
    // c2
}
    // c3
")).
Eval vm_compute in ("<<<M428>>>" ++ check (runes_of_ascii "options{u128=
    '0' ; u128 = ' ' Logon=char[] A=
    char[];	}
")).
Eval vm_compute in ("<<<M2179>>>" ++ check (runes_of_ascii "root
    // `tick` ""quote"" 'q'
    packet As { trueish u64 , }
")).
Eval vm_compute in ("<<<M2863>>>" ++ check (runes_of_ascii "packet A {
  match k as n {
    [1, 22] : B,
    2 : C
  },
}")).
Eval vm_compute in ("<<<M2662>>>" ++ check (runes_of_ascii "options { a = true; b = false; c = '0'; d = ""s""; e = 007; }")).
Eval vm_compute in ("<<<M1943>>>" ++ check (runes_of_ascii "
packet	As { @calculatedFrom(//x
""{,}""	)# lengthOf , } 	 ")).
Eval vm_compute in ("<<<M632>>>" ++ check (runes_of_ascii "MetaData charz {
    char[7] body `tab	here` // " ++ [27880; 37322]%N ++ runes_of_ascii "
, }
")).
Eval vm_compute in ("<<<M1900>>>" ++ check (runes_of_ascii "
packet	 { @calculatedFrom(//x
""{,}""	)lengthOf , } 	 ")).
Eval vm_compute in ("<<<M4483>>>" ++ check (runes_of_ascii "root packet u {
    Foo int,// `tick` ""quote"" 'q'
}")).
Eval vm_compute in ("<<<M2397>>>" ++ check (runes_of_ascii "MetaData A
{
i64
chars	, } <// `tick` ""quote"" 'q'")).
Eval vm_compute in ("<<<M959>>>" ++ check (runes_of_ascii "packet i8i8 {
    } packet asx	{ uint8	pack, }
")).
Eval vm_compute in ("<<<M1778>>>" ++ check (runes_of_ascii "options { }options {  } // `tick` ""quote"" '<q'")).
Eval vm_compute in ("<<<M489>>>" ++ check (runes_of_ascii "// packet A { u8 x, }
 // `tick` ""quote"" 'q'")).
Eval vm_compute in ("<<<M3587>>>" ++ check (runes_of_ascii "MetaData

    M { }// c
	  options{

}
")).
Eval vm_compute in ("<<<M2623>>>" ++ check (runes_of_ascii "packet A { @leftPad('0' '0') char[2] x, }")).
Eval vm_compute in ("<<<M2609>>>" ++ check (runes_of_ascii "packet A { match k as n { [[1]] : B }, }")).
Eval vm_compute in ("<<<M794>>>" ++ check (runes_of_ascii "// " ++ [128512]%N ++ runes_of_ascii " emoji
options { MetaDataX=string }")).
Eval vm_compute in ("<<<M2121>>>" ++ check (runes_of_ascii "MetaData x
{// " ++ [128512]%N ++ runes_of_ascii " emoji
i16 , stringy }")).
Eval vm_compute in ("<<<M2729>>>" ++ check (runes_of_ascii "MetaData match @lengthOf( match 007 )")).
Eval vm_compute in ("<<<M1651>>>" ++ check (runes_of_ascii "root packet /// triple
rootA {	i32")).
Eval vm_compute in ("<<<M3999>>>" ++ check (runes_of_ascii "packet A {
    u8 x `d 	`,// c 	
}")).
Eval vm_compute in ("<<<M3459>>>" ++ check (runes_of_ascii "root packet P {
    string s,
}
")).
Eval vm_compute in ("<<<M2101>>>" ++ check (runes_of_ascii " x
{// " ++ [128512]%N ++ runes_of_ascii " emoji
i16 stringy , }")).
Eval vm_compute in ("<<<M1641>>>" ++ check (runes_of_ascii "root packet /// triple
rootA")).
Eval vm_compute in ("<<<M4148>>>" ++ check (runes_of_ascii "  packet
Packet

    {}

")).
Eval vm_compute in ("<<<M820>>>" ++ check (runes_of_ascii "MetaData repeatCount
{
}
")).
Eval vm_compute in ("<<<M2091>>>" ++ check (runes_of_ascii "MetaData A { u64 pack~, }")).
Eval vm_compute in ("<<<M2053>>>" ++ check (runes_of_ascii "MetaData { A u64 pack, }")).
Eval vm_compute in ("<<<M127>>>" ++ check (runes_of_ascii "packet Foo{/// triple
}")).
Eval vm_compute in ("<<<M1358>>>" ++ check (runes_of_ascii "root packet Logon {
}")).
Eval vm_compute in ("<<<M2743>>>" ++ check (runes_of_ascii "#" ++ [65533]%N ++ runes_of_ascii "k" ++ [65533; 4]%N ++ runes_of_ascii "M" ++ [1580]%N ++ runes_of_ascii "!" ++ [65533]%N ++ runes_of_ascii "W" ++ [65533]%N ++ runes_of_ascii "3J" ++ [14]%N ++ runes_of_ascii "fa" ++ [65533]%N ++ runes_of_ascii "R" ++ [65533]%N ++ runes_of_ascii ")D")).
Eval vm_compute in ("<<<M131>>>" ++ check (runes_of_ascii "  packet float { }
")).
Eval vm_compute in ("<<<M987>>>" ++ check (runes_of_ascii "MetaData asx	{ }

")).
Eval vm_compute in ("<<<M3102>>>" ++ check (runes_of_ascii "// c" ++ [8233]%N ++ runes_of_ascii "
packet A {
}")).
Eval vm_compute in ("<<<M2653>>>" ++ check (runes_of_ascii "options { a = 1 }")).
Eval vm_compute in ("<<<M2047>>>" ++ check (runes_of_ascii " A { u64 pack, }")).
Eval vm_compute in ("<<<M3157>>>" ++ check (runes_of_ascii "

  packet A {}")).
Eval vm_compute in ("<<<M1970>>>" ++ check (runes_of_ascii "root
packet")).
Eval vm_compute in ("<<<M2683>>>" ++ check (runes_of_ascii "// a
// b
")).
Eval vm_compute in ("<<<M2424>>>" ++ check (runes_of_ascii "char[ ]")).
Eval vm_compute in ("<<<M2555>>>" ++ check (runes_of_ascii "// " ++ [233]%N ++ runes_of_ascii "
" ++ [21517]%N)).
Eval vm_compute in ("<<<M2724>>>" ++ check (runes_of_ascii "d=hM_")).
Eval vm_compute in ("<<<M2498>>>" ++ check (runes_of_ascii "// x")).
Eval vm_compute in ("<<<M2521>>>" ++ check (runes_of_ascii "`\`")).
Eval vm_compute in ("<<<M2518>>>" ++ check (runes_of_ascii "`a")).
Eval vm_compute in ("<<<M2702>>>" ++ check (runes_of_ascii "{")).
