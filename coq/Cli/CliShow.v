(* Printing of model results for the correspondence harness (harness/cli.py).  No proofs.
   [esc] leaves printable ASCII other than the double quote and the backslash as it is and writes every
   other byte as \xHH; the separators "\;" (between fields / files) and "\," (between a path and its
   content) therefore cannot occur inside an escaped field. *)
From Coq Require Import String Ascii List Arith Bool.
From FP Require Import Cli.
Import ListNotations.
Open Scope string_scope.

Definition hexd (n : nat) : ascii := ascii_of_nat (if Nat.ltb n 10 then 48 + n else 87 + n).

Fixpoint esc (s : string) : string :=
  match s with
  | EmptyString => ""
  | String c r =>
      if plain_in_string c then String c (esc r)
      else let n := nat_of_ascii c in
           String "\"%char (String "x"%char (String (hexd (Nat.div n 16)) (String (hexd (Nat.modulo n 16)) (esc r))))
  end.

(* files in the order of the association list: most recent write first *)
Fixpoint show_files (f : fs) : string :=
  match f with
  | [] => ""
  | (p, c) :: r => "\;" ++ esc p ++ "\," ++ esc c ++ show_files r
  end.

Definition show_world (w : world) : string :=
  "W\;" ++ show_nat (exit w) ++ "\;" ++ esc (stdout w) ++ show_files (files w).

Definition show_result (r : option world) : string :=
  match r with None => "NONE" | Some w => show_world w end.
