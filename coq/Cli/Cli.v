(* Entry points of fin-protoc (property C16): cmd/root.go, cmd/format.go, cmd/compile.go, cmd/lib.go and
   internal/parser/common.go (WriteCodeToFile).  MODEL ONLY: no proofs here (see Proofs/CliProofs.v).

   The wrappers are modelled over three abstract library functions (Section variables):

     F : string -> string * option string
         parser.FormatPacketDsl: (result text, Some err.Error() when err != nil).

     P : string -> parse_result
         parser.ParseFile applied to the CONTENT of the file (the wrapper does the file lookup):
           PSyntax msg        ParseFile returned (nil, err) with err.Error() = msg; nothing was printed.
           PModel noise diags ParseFile returned a *BinaryModel; while building it the visitor printed
                              [noise] on the process's standard output (packet_dsl_parser.go:111
                              fmt.Println("Options:", ...); :505 "Visiting Type:" is dead code) and
                              left [diags] = BinaryModel.SyntaxErrors as (line, column, message).

     G : list lang -> lang -> string -> gen_result
         G hist L x: NewLGenerator(m).Generate(m) on the model m of text x AFTER the generators in
         [hist] (in that order) have already run on the very same *BinaryModel object.  Compile shares
         one mutable model between the six generators, so the file map of a generator may depend on
         the generators that ran before it (that independence is property C14, not C16): the history
         is an explicit argument instead of being assumed away.
           GFiles l  (files, nil); l lists the map in the order WriteCodeToFile happens to range over it.
           GError e  (nil, err) with err.Error() = e.
           GPanic    the generator panicked: the Go runtime kills the process with exit status 2.

   world: the observable state.  [files] is an association list path -> content, most recent binding
   first ([fs_write] conses, [fs_read] returns the first binding).  Paths are the strings handed to the
   OS; the identification of different spellings of one path ("a//b", "./a/b") is the OS's business and
   is done by the harness (os.path.normpath), not here.  Directories are implicit (MkdirAll creates the
   parents of every written file; nothing else).  Standard error is not part of the world: cobra prints
   "Error: ..." and the usage text there; C16 does not speak about it.

   Out of the model (the functions return None = "not modelled", or the case cannot be expressed):
   OS failures other than a missing input file (permissions, a directory where a file is expected,
   partial writes, disk full), panics inside ParseFile/FormatPacketDsl, %q quoting of strings that
   need escapes in cobra's error messages, invalid UTF-8 in such messages.

   Flag syntax modelled (all of pflag v1.0.6 parseArgs for the flags these commands declare):
   "-x v", "-xv", "-x=v", clusters with the boolean -h ("-hd x"), "--long v", "--long=v",
   "--help[=bool]", "-h[=bool]", "--" (end of flags), interspersed positional arguments,
   the silently ignored "-test.*" shorthand, and the errors "unknown flag", "unknown shorthand flag",
   "flag needs an argument", "bad flag syntax", "invalid argument ... for -h, --help". *)
From Coq Require Import String Ascii List Arith NArith ZArith Bool.
Import ListNotations.
Open Scope string_scope.

(* ------------------------------------------------------------------ strings *)

Definition nl : string := String (ascii_of_nat 10) EmptyString.

Definition is_empty (s : string) : bool := match s with EmptyString => true | _ => false end.

Fixpoint lines (l : list string) : string :=
  match l with [] => "" | x :: r => x ++ nl ++ lines r end.

(* C.GoString / what a C caller sees of a char*: the bytes before the first NUL *)
Fixpoint cstr (s : string) : string :=
  match s with
  | EmptyString => EmptyString
  | String c r => if Ascii.eqb c zero then EmptyString else String c (cstr r)
  end.

(* strings.SplitN(s, "=", 2) *)
Fixpoint split_eq (s : string) : string * option string :=
  match s with
  | EmptyString => (EmptyString, None)
  | String c r => if Ascii.eqb c "="%char then (EmptyString, Some r)
                  else let (a, b) := split_eq r in (String c a, b)
  end.

(* %q of a string / of a byte, for the characters that need no escape *)
Definition printable (c : ascii) : bool :=
  let n := nat_of_ascii c in Nat.leb 32 n && Nat.leb n 126.
Definition plain_in_string (c : ascii) : bool :=
  printable c && negb (Ascii.eqb c """"%char) && negb (Ascii.eqb c "\"%char).
Fixpoint quotable (s : string) : bool :=
  match s with EmptyString => true | String c r => plain_in_string c && quotable r end.
Definition goq (s : string) : string := """" ++ s ++ """".
Definition plain_in_char (c : ascii) : bool :=
  printable c && negb (Ascii.eqb c "'"%char) && negb (Ascii.eqb c "\"%char).
Definition goq_char (c : ascii) : string := "'" ++ String c "'".

(* %d *)
Fixpoint show_N_aux (fuel : nat) (n : N) (acc : string) : string :=
  match fuel with
  | O => acc
  | S f => let acc' := String (ascii_of_N (48 + N.modulo n 10)) acc in
           if N.eqb (N.div n 10) 0 then acc' else show_N_aux f (N.div n 10) acc'
  end.
Definition show_N (n : N) : string := show_N_aux (S (N.size_nat n)) n "".
Definition show_Z (z : Z) : string :=
  match z with
  | Z0 => "0"
  | Zpos p => show_N (Npos p)
  | Zneg p => "-" ++ show_N (Npos p)
  end.
Definition show_nat (n : nat) : string := show_N (N.of_nat n).

(* ------------------------------------------------------------------ file system, world *)

Definition fs := list (string * string).

Fixpoint fs_read (p : string) (f : fs) : option string :=
  match f with
  | [] => None
  | (q, c) :: r => if String.eqb p q then Some c else fs_read p r
  end.

(* os.WriteFile / os.Create+Write+Close: create or truncate, then the whole content *)
Definition fs_write (p c : string) (f : fs) : fs := (p, c) :: f.

Record world := mkWorld { files : fs; stdout : string; exit : nat }.

Definition print (s : string) (w : world) : world := mkWorld (files w) (stdout w ++ s) (exit w).
Definition println (s : string) (w : world) : world := print (s ++ nl) w.
Definition write (p c : string) (w : world) : world := mkWorld (fs_write p c (files w)) (stdout w) (exit w).
Definition exit_with (n : nat) (w : world) : world := mkWorld (files w) (stdout w) n.

Definition enoent (p : string) : string := "open " ++ p ++ ": no such file or directory".

(* ------------------------------------------------------------------ languages, library results *)

Inductive lang := Lua | Rust | Go | Java | Python | Cpp.

Definition lang_eqb (a b : lang) : bool :=
  match a, b with
  | Lua, Lua | Rust, Rust | Go, Go | Java, Java | Python, Python | Cpp, Cpp => true
  | _, _ => false
  end.

(* compile.go:35-59, the order of the [generators] slice, and the names used in its messages *)
Definition gen_order : list lang := [Lua; Rust; Go; Java; Python; Cpp].
Definition lang_name (l : lang) : string :=
  match l with Lua => "Lua" | Rust => "Rust" | Go => "Go" | Java => "Java" | Python => "Python" | Cpp => "C++" end.

Inductive parse_result :=
| PSyntax (msg : string)
| PModel (noise : string) (diags : list (Z * Z * string)).

Inductive gen_result :=
| GFiles (l : list (string * string))
| GError (msg : string)
| GPanic.

(* ------------------------------------------------------------------ root.go: argument rewriting *)

(* isSubcommand ranges over rootCmd.Commands() BEFORE rootCmd.Execute() runs: at that time only the
   two commands added by the init() functions exist.  cobra adds "help" and "completion" inside
   ExecuteC (InitDefaultHelpCmd, InitDefaultCompletionCmd), i.e. after the rewriting, so both words
   are "not a subcommand" here and get "compile" put in front of them. *)
Definition is_subcommand (a : string) : bool := String.eqb a "compile" || String.eqb a "format".

(* [args] is os.Args[1:] *)
Definition rewrite_args (args : list string) : list string :=
  match args with
  | [] => ["--help"]
  | a :: _ => if is_subcommand a then args else "compile" :: args
  end.

(* ------------------------------------------------------------------ flags (pflag) *)

Inductive cmd := CRoot | CFormat | CCompile.
Inductive flagid := FFile | FDsl | FOut (l : lang) | FHelp.

(* format.go:55-59 and compile.go:90-99; "help"/'h' is added by cobra's InitDefaultHelpFlag *)
Definition long_flag (c : cmd) (name : string) : option flagid :=
  if String.eqb name "help" then Some FHelp else
  match c with
  | CRoot => None
  | CFormat => if String.eqb name "file" then Some FFile
               else if String.eqb name "dsl" then Some FDsl else None
  | CCompile => if String.eqb name "file" then Some FFile
                else if String.eqb name "rs_output" then Some (FOut Rust)
                else if String.eqb name "lua_output" then Some (FOut Lua)
                else if String.eqb name "java_output" then Some (FOut Java)
                else if String.eqb name "go_output" then Some (FOut Go)
                else if String.eqb name "cpp_output" then Some (FOut Cpp)
                else if String.eqb name "py_output" then Some (FOut Python) else None
  end.

Definition short_flag (c : cmd) (ch : ascii) : option flagid :=
  if Ascii.eqb ch "h"%char then Some FHelp else
  match c with
  | CRoot => None
  | CFormat => if Ascii.eqb ch "f"%char then Some FFile
               else if Ascii.eqb ch "d"%char then Some FDsl else None
  | CCompile => if Ascii.eqb ch "f"%char then Some FFile
                else if Ascii.eqb ch "r"%char then Some (FOut Rust)
                else if Ascii.eqb ch "l"%char then Some (FOut Lua)
                else if Ascii.eqb ch "j"%char then Some (FOut Java)
                else if Ascii.eqb ch "g"%char then Some (FOut Go)
                else if Ascii.eqb ch "c"%char then Some (FOut Cpp)
                else if Ascii.eqb ch "p"%char then Some (FOut Python) else None
  end.

(* the flag variables.  [file] is one Go variable bound by both commands (format.go:11), [o_outs]
   holds the assignments to the six *Output variables, most recent first; [o_pos] is FlagSet.Args() *)
Record opts := mkOpts {
  o_file : string;
  o_dsl : string;
  o_outs : list (lang * string);
  o_help : bool;
  o_pos : list string }.

Definition opts0 : opts := mkOpts "" "" [] false [].

Fixpoint out_lookup (l : lang) (outs : list (lang * string)) : string :=
  match outs with
  | [] => ""
  | (k, v) :: r => if lang_eqb l k then v else out_lookup l r
  end.
Definition out_dir (o : opts) (l : lang) : string := out_lookup l (o_outs o).

Inductive res (A : Type) :=
| Ok (a : A)
| Err (msg : string)
| Unmodelled.
Arguments Ok {A} a.
Arguments Err {A} msg.
Arguments Unmodelled {A}.

(* strconv.ParseBool *)
Definition parse_bool (v : string) : option bool :=
  if existsb (String.eqb v) ["1"; "t"; "T"; "TRUE"; "true"; "True"] then Some true
  else if existsb (String.eqb v) ["0"; "f"; "F"; "FALSE"; "false"; "False"] then Some false
  else None.

(* FlagSet.Set *)
Definition set_flag (fl : flagid) (v : string) (o : opts) : res opts :=
  match fl with
  | FFile => Ok (mkOpts v (o_dsl o) (o_outs o) (o_help o) (o_pos o))
  | FDsl => Ok (mkOpts (o_file o) v (o_outs o) (o_help o) (o_pos o))
  | FOut l => Ok (mkOpts (o_file o) (o_dsl o) ((l, v) :: o_outs o) (o_help o) (o_pos o))
  | FHelp =>
      match parse_bool v with
      | Some b => Ok (mkOpts (o_file o) (o_dsl o) (o_outs o) b (o_pos o))
      | None => if quotable v
                then Err ("invalid argument " ++ goq v ++ " for ""-h, --help"" flag: strconv.ParseBool: parsing "
                          ++ goq v ++ ": invalid syntax")
                else Unmodelled
      end
  end.

Definition add_pos (s : string) (o : opts) : opts :=
  mkOpts (o_file o) (o_dsl o) (o_outs o) (o_help o) (o_pos o ++ [s]).
Definition add_poss (l : list string) (o : opts) : opts :=
  mkOpts (o_file o) (o_dsl o) (o_outs o) (o_help o) (o_pos o ++ l).

(* parseLongArg: [s] = "--" ++ [name0]; returns the remaining arguments *)
Definition parse_long (c : cmd) (s name0 : string) (args : list string) (o : opts) : res (list string * opts) :=
  match name0 with
  | EmptyString => Err ("bad flag syntax: " ++ s)
  | String c0 _ =>
      if Ascii.eqb c0 "-"%char || Ascii.eqb c0 "="%char then Err ("bad flag syntax: " ++ s) else
      let (name, val) := split_eq name0 in
      match long_flag c name with
      | None => Err ("unknown flag: --" ++ name)
      | Some fl =>
          match val with
          | Some v => match set_flag fl v o with Ok o' => Ok (args, o') | Err m => Err m | Unmodelled => Unmodelled end
          | None =>
              match fl with
              | FHelp => match set_flag fl "true" o with Ok o' => Ok (args, o') | Err m => Err m | Unmodelled => Unmodelled end
              | _ =>
                  match args with
                  | v :: rest => match set_flag fl v o with Ok o' => Ok (rest, o') | Err m => Err m | Unmodelled => Unmodelled end
                  | [] => Err ("flag needs an argument: " ++ s)
                  end
              end
          end
      end
  end.

(* parseShortArg's loop over parseSingleShortArg.  [sh] is the not yet consumed part of the cluster,
   [args] the arguments after the cluster (the loop passes the ORIGINAL [args] to every iteration and
   returns the [outArgs] of the last one; only a value-taking flag, which ends the loop, shortens them). *)
Fixpoint parse_short (c : cmd) (sh : string) (args : list string) (o : opts) : res (list string * opts) :=
  match sh with
  | EmptyString => Ok (args, o)
  | String ch rest =>
      if String.prefix "test." sh then Ok (args, o) else
      match short_flag c ch with
      | None => if plain_in_char ch
                then Err ("unknown shorthand flag: " ++ goq_char ch ++ " in -" ++ sh)
                else Unmodelled
      | Some fl =>
          match rest with
          | String e (String v0 v1) =>
              if Ascii.eqb e "="%char
              then (* '-f=arg' *)
                   match set_flag fl (String v0 v1) o with Ok o' => Ok (args, o') | Err m => Err m | Unmodelled => Unmodelled end
              else match fl with
                   | FHelp => match set_flag fl "true" o with Ok o' => parse_short c rest args o' | Err m => Err m | Unmodelled => Unmodelled end
                   | _ => match set_flag fl rest o with Ok o' => Ok (args, o') | Err m => Err m | Unmodelled => Unmodelled end
                   end
          | String _ EmptyString =>
              match fl with
              | FHelp => match set_flag fl "true" o with Ok o' => parse_short c rest args o' | Err m => Err m | Unmodelled => Unmodelled end
              | _ => (* '-farg' *)
                     match set_flag fl rest o with Ok o' => Ok (args, o') | Err m => Err m | Unmodelled => Unmodelled end
              end
          | EmptyString =>
              match fl with
              | FHelp => match set_flag fl "true" o with Ok o' => Ok (args, o') | Err m => Err m | Unmodelled => Unmodelled end
              | _ =>
                  match args with
                  | v :: r => (* '-f arg' *)
                      match set_flag fl v o with Ok o' => Ok (r, o') | Err m => Err m | Unmodelled => Unmodelled end
                  | [] => if plain_in_char ch
                          then Err ("flag needs an argument: " ++ goq_char ch ++ " in -" ++ sh)
                          else Unmodelled
                  end
              end
          end
      end
  end.

(* parseArgs (interspersed = true).  Fuel: one unit per argument. *)
Fixpoint parse_args (fuel : nat) (c : cmd) (args : list string) (o : opts) : res opts :=
  match fuel with
  | O => Ok o
  | S f =>
      match args with
      | [] => Ok o
      | s :: rest =>
          match s with
          | String d (String c1 more) =>
              if Ascii.eqb d "-"%char then
                if Ascii.eqb c1 "-"%char then
                  match more with
                  | EmptyString => Ok (add_poss rest o)                 (* "--" *)
                  | _ => match parse_long c s more rest o with
                         | Ok (rest', o') => parse_args f c rest' o'
                         | Err m => Err m
                         | Unmodelled => Unmodelled
                         end
                  end
                else
                  match parse_short c (String c1 more) rest o with
                  | Ok (rest', o') => parse_args f c rest' o'
                  | Err m => Err m
                  | Unmodelled => Unmodelled
                  end
              else parse_args f c rest (add_pos s o)
          | _ => parse_args f c rest (add_pos s o)                      (* "", "-", one character *)
          end
      end
  end.

Definition parse_flags (c : cmd) (args : list string) : res opts :=
  parse_args (S (length args)) c args opts0.

(* ------------------------------------------------------------------ cobra's help texts (fixed) *)

Definition help_root : string :=
  lines ["A CLI for compiling/formatting packet DSL";
         "";
         "Usage:";
         "  fin-protoc [command]";
         "";
         "Available Commands:";
         "  compile     Compile DSL into multiple target languages";
         "  completion  Generate the autocompletion script for the specified shell";
         "  format      Format packet DSL string";
         "  help        Help about any command";
         "";
         "Flags:";
         "  -h, --help   help for fin-protoc";
         "";
         "Use ""fin-protoc [command] --help"" for more information about a command."].
Definition help_compile : string :=
  lines ["Compile DSL into multiple target languages";
         "";
         "Usage:";
         "  fin-protoc compile [flags]";
         "";
         "Flags:";
         "  -c, --cpp_output string    C++ output path";
         "  -f, --file string          Path to the DSL file";
         "  -g, --go_output string     Go output path";
         "  -h, --help                 help for compile";
         "  -j, --java_output string   Java output path";
         "  -l, --lua_output string    Lua output path";
         "  -p, --py_output string     Python output path";
         "  -r, --rs_output string     Rust output path"].
Definition help_format : string :=
  lines ["Format packet DSL string";
         "";
         "Usage:";
         "  fin-protoc format [flags]";
         "";
         "Flags:";
         "  -d, --dsl string    DSL string to format";
         "  -f, --file string   Path to the DSL file";
         "  -h, --help          help for format"].
Definition help_text (c : cmd) : string :=
  match c with CRoot => help_root | CFormat => help_format | CCompile => help_compile end.

(* ------------------------------------------------------------------ the commands *)

(* root.go:22-25: rootCmd.Execute() returned err: fmt.Println(err); os.Exit(1)
   (cobra has already printed "Error: ..." and the usage text on standard error) *)
Definition fail (msg : string) (w : world) : world := exit_with 1 (println msg w).

(* common.go:148-168.  The range order over the Go map is the order of [l]. *)
Fixpoint write_code (dir : string) (l : list (string * string)) (w : world) : world :=
  match l with
  | [] => w
  | (name, data) :: r =>
      let path := dir ++ "/" ++ name in
      write_code dir r (println ("Generated code for packet: " ++ path) (write path data w))
  end.

Definition diag_line (d : Z * Z * string) : string :=
  let '(line, col, msg) := d in
  "Syntax error at line " ++ show_Z line ++ ", column " ++ show_Z col ++ ": " ++ msg ++ nl.

Inductive cres := CDone | CFail (msg : string) | CPanic.

Section Cli.
  Variable F : string -> string * option string.
  Variable P : string -> parse_result.
  Variable G : list lang -> lang -> string -> gen_result.

  (* ---------------- format.go:17-52 *)
  Definition format_input (file input : string) (w : world) : world :=
    let (result, err) := F input in
    match err with
    | Some e => exit_with 1 (println ("Error formatting DSL: " ++ e) w)
    | None => if negb (is_empty file) then write file result w      (* os.WriteFile(file, result) *)
              else println result w
    end.

  Definition run_format (o : opts) (w : world) : world :=
    if negb (is_empty (o_dsl o)) then format_input (o_file o) (o_dsl o) w
    else if negb (is_empty (o_file o)) then
      match fs_read (o_file o) (files w) with
      | None => exit_with 1 (println ("Error reading file: " ++ enoent (o_file o)) w)
      | Some data => format_input (o_file o) data w
      end
    else exit_with 1 (println "Please provide a DSL string or a file path" w).

  (* ---------------- compile.go:62-74, the loop over [generators] *)
  Fixpoint run_gens (x : string) (hist todo : list lang) (dirs : lang -> string) (w : world) : world * cres :=
    match todo with
    | [] => (w, CDone)
    | L :: r =>
        if is_empty (dirs L) then run_gens x hist r dirs w else
        match G hist L x with
        | GPanic => (w, CPanic)
        | GError e => (w, CFail ("failed to generate " ++ lang_name L ++ " code: " ++ e))
        | GFiles l => run_gens x (hist ++ [L]) r dirs (write_code (dirs L) l w)
        end
    end.

  (* ---------------- compile.go:22-75 *)
  Definition compile (file : string) (dirs : lang -> string) (w : world) : world * cres :=
    match fs_read file (files w) with
    | None => (w, CFail ("failed to parse file: could not read file: " ++ enoent file))
    | Some x =>
        match P x with
        | PSyntax msg => (w, CFail ("failed to parse file: " ++ msg))
        | PModel noise diags =>
            let w1 := print noise w in
            match diags with
            | _ :: _ => (print (String.concat "" (map diag_line diags)) w1,
                         CFail ("found " ++ show_nat (length diags) ++ " syntax errors"))
            | [] => run_gens x [] gen_order dirs w1
            end
        end
    end.

  Definition run_compile (o : opts) (w : world) : world :=
    match compile (o_file o) (out_dir o) w with
    | (w', CDone) => w'
    | (w', CFail e) => fail e w'
    | (w', CPanic) => exit_with 2 w'
    end.

  (* ---------------- cobra: Command.execute for the command found *)
  Definition run_cmd (c : cmd) (args : list string) (w : world) : option world :=
    match parse_flags c args with
    | Unmodelled => None
    | Err m => Some (fail m w)
    | Ok o =>
        if o_help o then Some (print (help_text c) w) else
        match c with
        | CRoot => Some (print help_root w)                               (* not Runnable: ErrHelp *)
        | CCompile => Some (run_compile o w)                               (* no Args validator: any positional *)
        | CFormat =>
            match o_pos o with                                             (* Args: cobra.NoArgs *)
            | [] => Some (run_format o w)
            | p :: _ => if quotable p
                        then Some (fail ("unknown command " ++ goq p ++ " for ""fin-protoc format""") w)
                        else None
            end
        end
    end.

  (* ---------------- cobra: Command.Find on the rewritten arguments.  Only the three shapes that
     rewrite_args can produce are modelled (Proofs/CliProofs.v, rewrite_args_shape). *)
  Definition dispatch (args : list string) (w : world) : option world :=
    match args with
    | a :: rest =>
        if String.eqb a "compile" then run_cmd CCompile rest w
        else if String.eqb a "format" then run_cmd CFormat rest w
        else if String.eqb a "--help" then match rest with [] => run_cmd CRoot args w | _ => None end
        else None
    | [] => None
    end.

  (* main(): [args] = os.Args[1:], [f] the file system before the run *)
  Definition exec (args : list string) (f : fs) : option world :=
    dispatch (rewrite_args args) (mkWorld f "" 0).

  (* ---------------- lib.go:22-30, as seen by a C caller: the argument is read up to its first NUL,
     the result is the C string made from the Go string (again ends at its first NUL). *)
  Definition lib_format (x : string) : string :=
    let (formatted, err) := F (cstr x) in
    match err with
    | Some e => cstr ("Error:" ++ e)
    | None => cstr formatted
    end.
End Cli.
