(* C01 - encoders emit exactly the wire layout the DSL declares.
   Statements only; proofs are in Proofs/. *)
From FP Require Import Validate Validated RefEnc EqvSoundEnc.

(* The wire specification is [lay_packet] (Wire/Layout.v): the concatenation, in declaration
   order, of each field's encoding as fixed by its declared type and the configuration. *)

(* (1) the reference compilation of ANY model writes exactly the specified bytes, for every
       packet, message, buffer prefix and fuel *)
Theorem C01_reference_encoder :
  forall cs M mk, NoDup (map fst (all_packets M)) ->
  forall fuel path p v buf b,
    In (path, p) (all_packets M) ->
    lay_packet cs M fuel p v buf = Some b ->
    sem_enc cs (ref_prog M mk) fuel path v buf = Some b.
Proof. exact ref_enc_correct. Qed.
Print Assumptions C01_reference_encoder.

(* (2) the boolean IR equivalence is sound: equivalent programs encode identically *)
Theorem C01_equivalence_sound :
  forall cs P Q, enc_prog_eqvb P Q = true ->
  forall fuel name v buf, sem_enc cs P fuel name v buf = sem_enc cs Q fuel name v buf.
Proof. exact enc_prog_eqv_sound. Qed.
Print Assumptions C01_equivalence_sound.

(* (3) hence any IR program the validator accepts - on every run: the IR extracted from the
       real generators' output - writes exactly the specified bytes for every message *)
Theorem C01_validated_encoder :
  forall cs M O, validate_enc M O = true ->
  forall fuel path p v buf b,
    In (path, p) (all_packets M) ->
    lay_packet cs M fuel p v buf = Some b ->
    sem_enc cs O fuel path v buf = Some b.
Proof. exact validated_enc_correct. Qed.
Print Assumptions C01_validated_encoder.
