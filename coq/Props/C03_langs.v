(* C03 across languages, on the intersection of the language fragments (Gen/Frag.v):
   [lang] = LGo | LPy | LCpp | LRust | LJava, [gen_of l] the generator model of l,
   [frag_enc_of l] / [frag_dec_of l] its fragment predicates.  Statements only. *)
From FP Require Import Validate Validated Typed RefDec Frag FragAll.

(* any two languages write identical bytes for every declared message of a program that lies in
   both encoder fragments *)
Theorem C03_fragment_encoders_agree :
  forall cs M l1 l2, frag_enc_of l1 M = true -> frag_enc_of l2 M = true ->
  forall fuel path p v buf b,
    In (path, p) (all_packets M) ->
    lay_packet cs M fuel p v buf = Some b ->
    sem_enc cs (gen_of l1 M) fuel path v buf = Some b /\ sem_enc cs (gen_of l2 M) fuel path v buf = Some b.
Proof. exact frag_encoders_agree. Qed.
Print Assumptions C03_fragment_encoders_agree.

(* any two decoders return the same result on EVERY input (valid or not) *)
Theorem C03_fragment_decoders_agree :
  forall M l1 l2, frag_dec_of l1 M = true -> frag_dec_of l2 M = true ->
  forall fuel name rd, sem_dec (gen_of l1 M) fuel name rd = sem_dec (gen_of l2 M) fuel name rd.
Proof. exact frag_decoders_agree. Qed.
Print Assumptions C03_fragment_decoders_agree.

(* the decoder of l2 inverts the encoder of l1 *)
Theorem C03_fragment_cross_decode :
  forall cs M l1 l2, frag_enc_of l1 M = true -> frag_dec_of l2 M = true ->
  forall fuel path p v b,
    In (path, p) (all_packets M) -> typed M fuel p v = true ->
    sem_enc cs (gen_of l1 M) fuel path v [] = Some b -> lay_packet cs M fuel p v [] <> None ->
    exists v', (forall rest, sem_dec (gen_of l2 M) fuel path (b ++ rest) = DOk (v', rest)) /\ ueq cs M fuel p v v'.
Proof. exact frag_cross_decode. Qed.
Print Assumptions C03_fragment_cross_decode.

(* instances, spelled out for two pairs *)
Theorem C03_go_rust_same_bytes :
  forall cs M, go_frag_enc M = true -> rust_frag_enc M = true ->
  forall fuel path p v buf b,
    In (path, p) (all_packets M) ->
    lay_packet cs M fuel p v buf = Some b ->
    sem_enc cs (gen_go M) fuel path v buf = Some b /\ sem_enc cs (gen_rust M) fuel path v buf = Some b.
Proof. exact (fun cs M => frag_encoders_agree cs M LGo LRust). Qed.
Print Assumptions C03_go_rust_same_bytes.

Theorem C03_py_decodes_java :
  forall cs M, java_frag_enc M = true -> py_frag_dec M = true ->
  forall fuel path p v b,
    In (path, p) (all_packets M) -> typed M fuel p v = true ->
    sem_enc cs (gen_java M) fuel path v [] = Some b -> lay_packet cs M fuel p v [] <> None ->
    exists v', (forall rest, sem_dec (gen_py M) fuel path (b ++ rest) = DOk (v', rest)) /\ ueq cs M fuel p v v'.
Proof. exact (fun cs M => frag_cross_decode cs M LJava LPy). Qed.
Print Assumptions C03_py_decodes_java.
