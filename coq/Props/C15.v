(* C15 - the Wireshark dissector attributes each field its true byte range.  Statements only.
   sem_lua_run (coq/Lua/LuaIR.v) is the written-down Wireshark Lua API: it returns the
   (field, offset, length) triples passed to tree:add and the final offset; ranges
   (coq/Lua/Ranges.v) is derived from the wire specification, independently of the generator. *)
From FP Require Import LuaIR Lua Ranges LuaOracle LuaFrag LuaFlat.

(* PARTIAL: proved for root packets made of non-repeated scalars and fixed strings (the base
   case on which the running offset is a sum of constants).  The full fragment lua_frag
   (Gen/LuaFrag.v: also dynamic strings, lists of scalars/strings, empty match payloads) is
   checked by evaluation on every run, not proved; outside it the property is REFUTED by the
   recorded findings (objects and match payloads do not carry the offset out of sub-dissectors). *)
Theorem C15_flat_fixed_width_partial :
  forall (M : bmodel) (root : packet) (v : value) (fuel fuel' : nat)
         (b : list byte) (r : list (string * nat * nat)) (n : nat),
    root_packet M = Some root ->
    fixed_flat M = true ->
    layout no_cs M fuel root v = Some b ->
    ranges M fuel root v = Some (r, n) ->
    sem_lua_run (gen_lua M) fuel' b = LOk (r, n) /\ n = length b.
Proof. exact lua_fixed_flat_correct. Qed.
Print Assumptions C15_flat_fixed_width_partial.
