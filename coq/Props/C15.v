(* C15 - the Wireshark dissector attributes each field its true byte range.  Statements only.
   sem_lua_run (coq/Lua/LuaIR.v) is the written-down Wireshark Lua API: it returns the
   (field, offset, length) triples passed to tree:add and the final offset; ranges
   (coq/Lua/Ranges.v) is derived from the wire specification, independently of the generator;
   gen_lua (coq/Gen/Lua.v) is the model of the real Lua generator, compared with the emitted
   script on every run.

   PARTIAL.  Proved, for EVERY model of the fragment and EVERY message (Proofs/LuaFrag2.v):
     lua_frag2  root packets of scalars, length-of and checksum fields, fixed strings, dynamic
                strings and lists of those (unsigned 1/2/4-byte prefixes): the dissector displays
                exactly the true ranges and ends at the end of the message;
     lua_frag4  additionally match fields over empty packets (for typed messages).
   The only side condition on the message is the loop budget of the semantics (30000 list elements
   per run, a constant of sem_lua_run).  lua_frag4 M = true -> lua_frag M = true: the fragment the
   harness evaluates on every run contains the proved one.  Outside lua_frag4 the property is
   REFUTED by the recorded findings (object fields and non-empty match payloads do not carry the
   offset out of their sub-dissector, ProtoField.int, forward references, u64 prefixes, reserved
   words). *)
From FP Require Import LuaIR Lua Ranges LuaOracle LuaFrag LuaFlat Typed LuaFrag2.
From Coq Require Import String List.

Theorem C15_flat_fixed_width_partial :
  forall (M : bmodel) (root : packet) (v : value) (fuel fuel' : nat)
         (b : list byte) (r : list (string * nat * nat)) (n : nat),
    root_packet M = Some root ->
    fixed_flat M = true ->
    layout no_cs M fuel root v = Some b ->
    ranges M fuel root v = Some (r, n) ->
    sem_lua_run (gen_lua M) fuel' b = LOk (r, n) /\ n = length b.
Proof. exact lua_fixed_flat_correct. Qed.
Print Assumptions C15_flat_fixed_width_partial.

(* scalars, fixed and dynamic strings, lists of those, length-of and checksum fields *)
Theorem C15_strings_and_lists_partial :
  forall (M : bmodel) (root : packet) (v : value) (fuel fuel' : nat)
         (b : list byte) (r : list (string * nat * nat)) (n : nat),
    root_packet M = Some root ->
    lua_frag2 M = true ->
    (msg_elems v <= loop_budget \/ length r <= loop_budget)%nat ->
    layout no_cs M fuel root v = Some b ->
    ranges M fuel root v = Some (r, n) ->
    sem_lua_run (gen_lua M) fuel' b = LOk (r, n) /\ n = length b.
Proof. exact lua_frag2_correct. Qed.
Print Assumptions C15_strings_and_lists_partial.

(* ... and match fields over empty packets, for typed messages *)
Theorem C15_empty_match_payloads_partial :
  forall (M : bmodel) (root : packet) (v : value) (fuel fuel' : nat)
         (b : list byte) (r : list (string * nat * nat)) (n : nat),
    root_packet M = Some root ->
    lua_frag4 M = true ->
    typed M fuel root v = true ->
    (1 <= fuel')%nat ->
    (msg_elems v <= loop_budget \/ length r <= loop_budget)%nat ->
    layout no_cs M fuel root v = Some b ->
    ranges M fuel root v = Some (r, n) ->
    sem_lua_run (gen_lua M) fuel' b = LOk (r, n) /\ n = length b.
Proof. exact lua_frag4_correct. Qed.
Print Assumptions C15_empty_match_payloads_partial.

(* what the proved fragment covers, and that the evaluated fragment contains it *)
Theorem C15_fragment_covers :
  forall (M : bmodel) (root : packet),
    root_packet M = Some root ->
    forallb (simple_field M) (p_fields root) = true ->
    nodup_str (sub_function_names M) = true ->
    len_ok root (p_fields root) = true ->
    lua_frag2 M = true.
Proof. exact lua_frag2_covers. Qed.
Print Assumptions C15_fragment_covers.

Theorem C15_fragment_inclusions :
  forall M, (lua_frag2 M = true -> lua_frag4 M = true) /\ (lua_frag4 M = true -> lua_frag M = true).
Proof. intro M. split; [apply lua_frag2_frag4|apply lua_frag4_frag]. Qed.
Print Assumptions C15_fragment_inclusions.
