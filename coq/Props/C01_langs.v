(* C01 per language - on its structural fragment (Gen/Frag.v) each generator MODEL's encoder
   writes exactly the wire layout the DSL declares, for every program of the fragment, packet,
   message, buffer prefix and fuel.  Statements only; proofs are in Proofs/Frag<L>.v
   (fragment => validated) and Proofs/Validated.v (validated => specification).
   The generator models are tied to the real generators by the correspondence check of
   every run (harness/codec.py); harness/frag.py evaluates the fragment predicates against
   the validator on the corpus. *)
From FP Require Import Validate Validated Frag FragAll.

Theorem C01_go_fragment :
  forall cs M, go_frag_enc M = true ->
  forall fuel path p v buf b,
    In (path, p) (all_packets M) ->
    lay_packet cs M fuel p v buf = Some b ->
    sem_enc cs (gen_go M) fuel path v buf = Some b.
Proof. exact go_frag_enc_correct. Qed.
Print Assumptions C01_go_fragment.

Theorem C01_py_fragment :
  forall cs M, py_frag_enc M = true ->
  forall fuel path p v buf b,
    In (path, p) (all_packets M) ->
    lay_packet cs M fuel p v buf = Some b ->
    sem_enc cs (gen_py M) fuel path v buf = Some b.
Proof. exact py_frag_enc_correct. Qed.
Print Assumptions C01_py_fragment.

Theorem C01_cpp_fragment :
  forall cs M, cpp_frag_enc M = true ->
  forall fuel path p v buf b,
    In (path, p) (all_packets M) ->
    lay_packet cs M fuel p v buf = Some b ->
    sem_enc cs (gen_cpp M) fuel path v buf = Some b.
Proof. exact cpp_frag_enc_correct. Qed.
Print Assumptions C01_cpp_fragment.

Theorem C01_rust_fragment :
  forall cs M, rust_frag_enc M = true ->
  forall fuel path p v buf b,
    In (path, p) (all_packets M) ->
    lay_packet cs M fuel p v buf = Some b ->
    sem_enc cs (gen_rust M) fuel path v buf = Some b.
Proof. exact rust_frag_enc_correct. Qed.
Print Assumptions C01_rust_fragment.

Theorem C01_java_fragment :
  forall cs M, java_frag_enc M = true ->
  forall fuel path p v buf b,
    In (path, p) (all_packets M) ->
    lay_packet cs M fuel p v buf = Some b ->
    sem_enc cs (gen_java M) fuel path v buf = Some b.
Proof. exact java_frag_enc_correct. Qed.
Print Assumptions C01_java_fragment.

(* the step these rest on: inside the fragment the generator model's output is accepted by the
   validator (for all models, no bound) *)
Theorem C01_fragment_validates :
  forall l M, frag_enc_of l M = true -> validate_enc M (gen_of l M) = true.
Proof. exact frag_enc_validates. Qed.
Print Assumptions C01_fragment_validates.
