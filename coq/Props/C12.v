(* C12 - ill-formed DSL is rejected at the right line; well-formed DSL is accepted.  Statements only.
   `visit` (Model/Visitor.v) is the model of the real visitor, compared with it on every run
   (outcome, full model dump, diagnostics by line/site/message).  `faults` (Model/Faults.v) is the
   SPECIFICATION: the list of (fault class, line) a program contains.  For each fault class the
   theorem says: a fault of that class at line l is answered by a diagnostic of that class at
   line l - under the guard written in the statement, which is exactly the region in which the
   real visitor is right.  Outside the guard the *_refuted lemmas exhibit a witness program on
   which the faithful model (hence the real visitor: the witnesses are replayed on it on every
   run) does NOT diagnose; those are the recorded findings visitor-C12 of known_findings.json. *)
From FP Require Import PT Flatten Visitor VisitorShow Faults NoPanic Spelling VisitorWitnesses VisitorProofs.
From Coq Require Import String List NArith.
Import ListNotations.

Theorem C12_dup_packet_diagnosed t l r :
  In (FDupPacket, l) (faults t) -> visit t = VOk r -> has_diag r DK_DupPacket l.
Proof. exact (dup_packet_diagnosed t l r). Qed.
Print Assumptions C12_dup_packet_diagnosed.

Theorem C12_dup_meta_diagnosed t l r :
  In (FDupMeta, l) (faults t) -> visit t = VOk r -> has_diag r DK_DupMeta l.
Proof. exact (dup_meta_diagnosed t l r). Qed.
Print Assumptions C12_dup_meta_diagnosed.

Theorem C12_unknown_option_diagnosed t l r :
  In (FUnknownOption, l) (faults t) -> visit t = VOk r -> has_diag r DK_OptUnknown l.
Proof. exact (unknown_option_diagnosed t l r). Qed.
Print Assumptions C12_unknown_option_diagnosed.

(* guard: unquoted values (a quoted value loses its quotes before the check: finding IllegalOptionValue:missed) *)
Theorem C12_illegal_option_value_diagnosed t l r :
  In (FIllegalOptionValue, l) (faults t) -> visit t = VOk r ->
  (forall d, In d (option_decls t) -> unquoted d) ->
  has_diag r DK_OptValue l.
Proof. exact (illegal_option_value_diagnosed t l r). Qed.
Print Assumptions C12_illegal_option_value_diagnosed.

(* guard: documented option names (a repeated UNKNOWN option is reported as unknown only) *)
Theorem C12_dup_option_diagnosed t l r :
  In (FDupOption, l) (faults t) -> visit t = VOk r ->
  (forall d, In d (option_decls t) -> lookup documented_options (p_text (od_name d)) <> None) ->
  has_diag r DK_OptDup l.
Proof. exact (dup_option_diagnosed t l r). Qed.
Print Assumptions C12_dup_option_diagnosed.

(* guard: no duplicate packet names (a second root that is also a duplicate is reported as duplicate only) *)
Theorem C12_second_root_diagnosed t l r :
  In (FSecondRoot, l) (faults t) -> visit t = VOk r ->
  NoDup (map pd_name_text (packet_defs t)) ->
  has_diag r DK_MultiRoot l.
Proof. exact (second_root_diagnosed t l r). Qed.
Print Assumptions C12_second_root_diagnosed.

(* guard: the length attribute is the one that takes effect and no length-of sits in an inline object *)
Theorem C12_len_outside_root_diagnosed t l r :
  In (FLenOutsideRoot, l) (faults t) -> visit t = VOk r -> len_final t -> no_inline_len t ->
  has_diag r DK_LenNotRoot l.
Proof. exact (len_outside_root_diagnosed t l r). Qed.
Print Assumptions C12_len_outside_root_diagnosed.

Theorem C12_second_len_diagnosed t l r :
  In (FSecondLen, l) (faults t) -> visit t = VOk r -> len_final t ->
  has_diag r DK_LenDup l.
Proof. exact (second_len_diagnosed t l r). Qed.
Print Assumptions C12_second_len_diagnosed.

(* an undeclared packet as the type of a TOP-LEVEL object field of a non-duplicate packet is diagnosed, on the line of the fieldDefinition *)
Theorem C12_undeclared_object_type_diagnosed t r A d B fw sp rep ft fn doc comma :
  visit t = VOk r ->
  packet_defs t = A ++ d :: B -> ~ In (pd_name_text d) (map pd_name_text A) ->
  In fw (pd_fields d) -> fw_def fw = ObjectField sp rep ft fn doc comma ->
  ~ In (p_text ft) (Faults.packet_names t) -> ~ In (p_text ft) (meta_names t) ->
  has_diag r DK_UnknownPacket (start_line sp).
Proof. exact (undeclared_object_type_diagnosed t r A d B fw sp rep ft fn doc comma). Qed.
Print Assumptions C12_undeclared_object_type_diagnosed.

(* recorded finding: the full statement fails on this witness *)
Theorem C12_dup_field_refuted : In (FDupField, 1) (faults w_dup_field) /\ accepted w_dup_field.
Proof. exact (dup_field_refuted). Qed.
Print Assumptions C12_dup_field_refuted.

(* recorded finding: the full statement fails on this witness *)
Theorem C12_dup_match_key_refuted : In (FDupMatchKey, 1) (faults w_dup_match_key) /\ accepted w_dup_match_key.
Proof. exact (dup_match_key_refuted). Qed.
Print Assumptions C12_dup_match_key_refuted.

(* recorded finding: the full statement fails on this witness *)
Theorem C12_undeclared_match_key_refuted : In (FUndeclaredMatchKey, 1) (faults w_undeclared_match_key) /\ accepted w_undeclared_match_key.
Proof. exact (undeclared_match_key_refuted). Qed.
Print Assumptions C12_undeclared_match_key_refuted.

(* recorded finding: the full statement fails on this witness *)
Theorem C12_undeclared_len_target_refuted : In (FUndeclaredLenTarget, 1) (faults w_undeclared_len_target) /\ accepted w_undeclared_len_target.
Proof. exact (undeclared_len_target_refuted). Qed.
Print Assumptions C12_undeclared_len_target_refuted.

(* recorded finding: the full statement fails on this witness *)
Theorem C12_undeclared_packet_in_pair_refuted : In (FUndeclaredPacket, 1) (faults w_undeclared_in_pair) /\ accepted w_undeclared_in_pair.
Proof. exact (undeclared_packet_in_pair_refuted). Qed.
Print Assumptions C12_undeclared_packet_in_pair_refuted.

(* recorded finding: the full statement fails on this witness *)
Theorem C12_undeclared_packet_in_inline_refuted : In (FUndeclaredPacket, 1) (faults w_undeclared_in_inline) /\ accepted w_undeclared_in_inline.
Proof. exact (undeclared_packet_in_inline_refuted). Qed.
Print Assumptions C12_undeclared_packet_in_inline_refuted.

(* recorded finding: the full statement fails on this witness *)
Theorem C12_len_in_inline_refuted : In (FLenOutsideRoot, 1) (faults w_len_in_inline) /\ accepted w_len_in_inline.
Proof. exact (len_in_inline_refuted). Qed.
Print Assumptions C12_len_in_inline_refuted.

(* recorded finding: the full statement fails on this witness *)
Theorem C12_quoted_option_value_refuted :
  In (FIllegalOptionValue, 1) (faults w_quoted_option) /\
  exists r, visit w_quoted_option = VOk r /\
            r_diags r = [mkDiag 1 DK_OptValue "Option LittleEndian is not allowed to be yes, Expected one of:true,false"].
Proof. exact (quoted_option_value_refuted). Qed.
Print Assumptions C12_quoted_option_value_refuted.

(* recorded finding: the full statement fails on this witness *)
Theorem C12_padchar_nul_rejected :
  faults w_padchar_nul = [] /\ exists r, visit w_padchar_nul = VOk r /\ has_diag r DK_OptValue 1.
Proof. exact (padchar_nul_rejected). Qed.
Print Assumptions C12_padchar_nul_rejected.

(* recorded finding: the full statement fails on this witness *)
Theorem C12_alias_option_value_rejected :
  faults w_alias_option = [] /\ exists r, visit w_alias_option = VOk r /\ has_diag r DK_OptValue 1.
Proof. exact (alias_option_value_rejected). Qed.
Print Assumptions C12_alias_option_value_rejected.

