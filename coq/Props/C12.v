(* C12 - ill-formed DSL is rejected at the right line; well-formed DSL is accepted.  Statements only.
   `visit` (Model/Visitor.v) is the model of the real visitor, compared with it on every run
   (outcome, full model dump, diagnostics by line/site/message).  `faults` (Model/Faults.v) is the
   SPECIFICATION: the list of (fault class, line) a program contains.  For each fault class the
   theorem says: a fault of that class at line l is answered by a diagnostic of that class at
   line l - under the guard written in the statement, which is the region in which the
   real visitor is right.  Outside the guard the *_refuted lemmas exhibit a witness program on
   which the faithful model (hence the real visitor: the witnesses are replayed on it on every
   run) does NOT diagnose; those are the recorded findings visitor-C12 of known_findings.json. *)
From FP Require Import PT Flatten Visitor VisitorShow Faults NoPanic Spelling VisitorWitnesses VisitorProofs.
From Coq Require Import String List NArith.
Import ListNotations.

Theorem C12_dup_packet_diagnosed t l r :
  In (FDupPacket, l) (faults t) -> visit t = VOk r -> has_diag r DK_DupPacket l.
Proof. exact (dup_packet_diagnosed t l r). Qed.
Print Assumptions C12_dup_packet_diagnosed.

Theorem C12_dup_meta_diagnosed t l r :
  In (FDupMeta, l) (faults t) -> visit t = VOk r -> has_diag r DK_DupMeta l.
Proof. exact (dup_meta_diagnosed t l r). Qed.
Print Assumptions C12_dup_meta_diagnosed.

Theorem C12_unknown_option_diagnosed t l r :
  In (FUnknownOption, l) (faults t) -> visit t = VOk r -> has_diag r DK_OptUnknown l.
Proof. exact (unknown_option_diagnosed t l r). Qed.
Print Assumptions C12_unknown_option_diagnosed.

(* guard: plain values: not quoted (a quoted value loses its quotes before the check: finding IllegalOptionValue:missed),
   a basic type in one of the lexer's spellings *)
Theorem C12_illegal_option_value_diagnosed t l r :
  In (FIllegalOptionValue, l) (faults t) -> visit t = VOk r ->
  (forall d, In d (option_decls t) -> plain_value d) ->
  has_diag r DK_OptValue l.
Proof. exact (illegal_option_value_diagnosed t l r). Qed.
Print Assumptions C12_illegal_option_value_diagnosed.

(* guard: documented option names (a repeated UNKNOWN option is reported as unknown only) *)
Theorem C12_dup_option_diagnosed t l r :
  In (FDupOption, l) (faults t) -> visit t = VOk r ->
  (forall d, In d (option_decls t) -> lookup documented_options (p_text (od_name d)) <> None) ->
  has_diag r DK_OptDup l.
Proof. exact (dup_option_diagnosed t l r). Qed.
Print Assumptions C12_dup_option_diagnosed.

(* guard: no duplicate packet names (a second root that is also a duplicate is reported as duplicate only) *)
Theorem C12_second_root_diagnosed t l r :
  In (FSecondRoot, l) (faults t) -> visit t = VOk r ->
  NoDup (map pd_name_text (packet_defs t)) ->
  has_diag r DK_MultiRoot l.
Proof. exact (second_root_diagnosed t l r). Qed.
Print Assumptions C12_second_root_diagnosed.

(* guard: the length attribute is the one that takes effect, the field is no object field, and no length-of sits in an inline object *)
Theorem C12_len_outside_root_diagnosed t l r :
  In (FLenOutsideRoot, l) (faults t) -> visit t = VOk r -> len_final t -> no_inline_len t ->
  has_diag r DK_LenNotRoot l.
Proof. exact (len_outside_root_diagnosed t l r). Qed.
Print Assumptions C12_len_outside_root_diagnosed.

Theorem C12_second_len_diagnosed t l r :
  In (FSecondLen, l) (faults t) -> visit t = VOk r -> len_final t ->
  has_diag r DK_LenDup l.
Proof. exact (second_len_diagnosed t l r). Qed.
Print Assumptions C12_second_len_diagnosed.

(* an undeclared packet as the type of a TOP-LEVEL object field of a non-duplicate packet is diagnosed, on the line of the fieldDefinition *)
Theorem C12_undeclared_object_type_diagnosed t r A d B a fw b sp rep ft fn doc comma :
  visit t = VOk r ->
  packet_defs t = A ++ d :: B -> ~ In (pd_name_text d) (map pd_name_text A) ->
  pd_fields d = a ++ fw :: b -> fw_def fw = ObjectField sp rep ft fn doc comma ->
  ~ In (p_text ft) (Faults.packet_names t) -> ~ In (p_text ft) (meta_names t) ->
  has_diag r DK_UnknownPacket (start_line sp).
Proof. exact (undeclared_object_type_diagnosed t r A d B a fw b sp rep ft fn doc comma). Qed.
Print Assumptions C12_undeclared_object_type_diagnosed.

(* ---- the repaired classes: universal statements (structural form: the declaration is named by its place in the tree) *)

(* duplicate field name at the top level of a packet, neither declaration carrying a @lengthOf *)
Theorem C12_dup_field_diagnosed t r d a fw1 m fw2 b :
  visit t = VOk r -> In d (packet_defs t) -> pd_fields d = a ++ fw1 :: m ++ fw2 :: b ->
  np_field_name (fw_def fw1) = np_field_name (fw_def fw2) -> has_len fw1 = false -> has_len fw2 = false ->
  has_diag r DK_DupField (start_line (fw_span fw2)).
Proof. exact (dup_field_diagnosed t r d a fw1 m fw2 b). Qed.
Print Assumptions C12_dup_field_diagnosed.

(* duplicate key in a match field at the top level of a packet (keys as the parser shapes them: pair_wf) *)
Theorem C12_dup_match_key_diagnosed t r d a fw b sp md comma l :
  visit t = VOk r -> In d (packet_defs t) -> pd_fields d = a ++ fw :: b -> fw_def fw = MatchField sp md comma ->
  Forall pair_wf (mf_pairs md) -> In l (later_dups [] (match_keys md)) ->
  has_diag r DK_DupMatchKey l.
Proof. exact (dup_match_key_diagnosed t r d a fw b sp md comma l). Qed.
Print Assumptions C12_dup_match_key_diagnosed.

(* match on a key that is no field of the packet *)
Theorem C12_undeclared_match_key_diagnosed t r d a fw b sp md comma :
  visit t = VOk r -> In d (packet_defs t) -> pd_fields d = a ++ fw :: b -> fw_def fw = MatchField sp md comma ->
  (forall x, In x (fw_attrs fw) -> is_len_or_calc x = false) ->
  ~ In (p_text (mf_key md)) (map (fun x => np_field_name (fw_def x)) (pd_fields d)) ->
  has_diag r DK_UnknownMatchKey (start_line (fw_span fw)).
Proof. exact (undeclared_match_key_diagnosed t r d a fw b sp md comma). Qed.
Print Assumptions C12_undeclared_match_key_diagnosed.

(* the length field of the root packet whose target is no field of the packet *)
Theorem C12_undeclared_len_target_diagnosed t r d a fw b tn :
  visit t = VOk r -> In d (packet_defs t) -> pd_root d <> None -> pd_fields d = a ++ fw :: b ->
  (forall x, In x a -> has_len x = false) ->
  final_is_len fw = true -> NoPanic.is_object_field (fw_def fw) = false -> fw_len_targets fw = [tn] ->
  ~ In tn (map (fun x => np_field_name (fw_def x)) (pd_fields d)) ->
  has_diag r DK_UnknownLenTarget (start_line (fw_span fw)).
Proof. exact (undeclared_len_target_diagnosed t r d a fw b tn). Qed.
Print Assumptions C12_undeclared_len_target_diagnosed.

(* an undeclared packet as the value of a single-key match pair *)
Theorem C12_undeclared_packet_in_pair_diagnosed t r A d B a fw b sp md comma pr :
  visit t = VOk r ->
  packet_defs t = A ++ d :: B -> ~ In (pd_name_text d) (map pd_name_text A) ->
  pd_fields d = a ++ fw :: b -> fw_def fw = MatchField sp md comma ->
  (forall x, In x (fw_attrs fw) -> is_len_or_calc x = false) ->
  In pr (mf_pairs md) -> (match PT.mp_key pr with MKList _ => False | _ => True end) ->
  ~ In (p_text (mp_ident pr)) (Faults.packet_names t) ->
  has_diag r DK_UnknownPacket (start_line (mp_span pr)).
Proof. exact (undeclared_packet_in_pair_diagnosed t r A d B a fw b sp md comma pr). Qed.
Print Assumptions C12_undeclared_packet_in_pair_diagnosed.

(* an undeclared packet as the type of a field of an inline object *)
Theorem C12_undeclared_packet_in_inline_diagnosed t r A d B a fw b sp rep sp2 nm o subfields c comma spx repx ft fn doc commax :
  visit t = VOk r ->
  packet_defs t = A ++ d :: B -> ~ In (pd_name_text d) (map pd_name_text A) ->
  pd_fields d = a ++ fw :: b -> fw_def fw = InerObjectField sp rep (InerObjectDecl sp2 nm o subfields c) comma ->
  (forall x, In x (fw_attrs fw) -> is_len_or_calc x = false) ->
  In (ObjectField spx repx ft fn doc commax) subfields ->
  ~ In (p_text ft) (Faults.packet_names t) -> ~ In (p_text ft) (meta_names t) ->
  has_diag r DK_UnknownPacket (start_line spx).
Proof. exact (undeclared_packet_in_inline_diagnosed t r A d B a fw b sp rep sp2 nm o subfields c comma spx repx ft fn doc commax). Qed.
Print Assumptions C12_undeclared_packet_in_inline_diagnosed.

(* the documented option values that used to be refused *)
Theorem C12_padchar_nul_accepted : faults w_padchar_nul = [] /\ accepted w_padchar_nul.
Proof. exact (padchar_nul_accepted). Qed.
Print Assumptions C12_padchar_nul_accepted.

Theorem C12_alias_option_value_accepted :
  faults w_alias_option = [] /\ accepted w_alias_option /\
  exists r1 r2, visit w_alias_option = VOk r1 /\ visit w_short_option = VOk r2 /\
                r_options r1 = r_options r2 /\ r_config r1 = r_config r2.
Proof. exact (alias_option_value_accepted). Qed.
Print Assumptions C12_alias_option_value_accepted.

(* ---- recorded findings: the full statement fails on these witnesses *)

Theorem C12_len_in_inline_refuted : In (FLenOutsideRoot, 1) (faults w_len_in_inline) /\ accepted w_len_in_inline.
Proof. exact (len_in_inline_refuted). Qed.
Print Assumptions C12_len_in_inline_refuted.

Theorem C12_len_then_calc_refuted : In (FLenOutsideRoot, 1) (faults w_len_then_calc) /\ accepted w_len_then_calc.
Proof. exact (len_then_calc_refuted). Qed.
Print Assumptions C12_len_then_calc_refuted.

Theorem C12_lengthof_on_object_nonroot_refuted :
  In (FLenOutsideRoot, 1) (faults w_lengthof_on_object_nonroot) /\ only_diag w_lengthof_on_object_nonroot DK_AttrOnObject 1.
Proof. exact (lengthof_on_object_nonroot_refuted). Qed.
Print Assumptions C12_lengthof_on_object_nonroot_refuted.

Theorem C12_dup_field_after_dropped_len_refuted :
  In (FDupField, 1) (faults w_dup_field_after_dropped_len) /\
  exists r, visit w_dup_field_after_dropped_len = VOk r /\ no_diag_of r DK_DupField.
Proof. exact (dup_field_after_dropped_len_refuted). Qed.
Print Assumptions C12_dup_field_after_dropped_len_refuted.

Theorem C12_len_target_of_dropped_len_refuted :
  In (FUndeclaredLenTarget, 1) (faults w_len_target_of_dropped_len) /\ only_diag w_len_target_of_dropped_len DK_LenNotRoot 1.
Proof. exact (len_target_of_dropped_len_refuted). Qed.
Print Assumptions C12_len_target_of_dropped_len_refuted.

Theorem C12_match_key_after_calc_refuted : In (FUndeclaredMatchKey, 1) (faults w_match_after_calc) /\ accepted w_match_after_calc.
Proof. exact (match_key_after_calc_refuted). Qed.
Print Assumptions C12_match_key_after_calc_refuted.

Theorem C12_undeclared_packet_in_dup_packet_refuted :
  In (FUndeclaredPacket, 1) (faults w_undeclared_in_dup_packet) /\
  exists r, visit w_undeclared_in_dup_packet = VOk r /\ no_diag_of r DK_UnknownPacket.
Proof. exact (undeclared_packet_in_dup_packet_refuted). Qed.
Print Assumptions C12_undeclared_packet_in_dup_packet_refuted.

Theorem C12_undeclared_packet_line_refuted :
  In (FUndeclaredPacket, 1) (faults w_undeclared_packet_line) /\
  exists r, visit w_undeclared_packet_line = VOk r /\ ~ has_diag r DK_UnknownPacket 1 /\ has_diag r DK_UnknownPacket 2.
Proof. exact (undeclared_packet_line_refuted). Qed.
Print Assumptions C12_undeclared_packet_line_refuted.

Theorem C12_undeclared_packet_in_list_pair_line_refuted :
  In (FUndeclaredPacket, 1) (faults w_undeclared_in_list_pair) /\
  exists r, visit w_undeclared_in_list_pair = VOk r /\ ~ has_diag r DK_UnknownPacket 1 /\ has_diag r DK_UnknownPacket 2.
Proof. exact (undeclared_packet_in_list_pair_line_refuted). Qed.
Print Assumptions C12_undeclared_packet_in_list_pair_line_refuted.

Theorem C12_dup_unknown_option_refuted :
  In (FDupOption, 1) (faults w_dup_unknown_option) /\
  exists r, visit w_dup_unknown_option = VOk r /\ no_diag_of r DK_OptDup.
Proof. exact (dup_unknown_option_refuted). Qed.
Print Assumptions C12_dup_unknown_option_refuted.

Theorem C12_second_root_dup_refuted :
  In (FSecondRoot, 1) (faults w_second_root_dup) /\
  exists r, visit w_second_root_dup = VOk r /\ no_diag_of r DK_MultiRoot.
Proof. exact (second_root_dup_refuted). Qed.
Print Assumptions C12_second_root_dup_refuted.

Theorem C12_quoted_option_value_refuted :
  In (FIllegalOptionValue, 1) (faults w_quoted_option) /\
  exists r, visit w_quoted_option = VOk r /\
            r_diags r = [mkDiag 1 DK_OptValue "Option LittleEndian is not allowed to be yes, Expected one of:true,false"].
Proof. exact (quoted_option_value_refuted). Qed.
Print Assumptions C12_quoted_option_value_refuted.
