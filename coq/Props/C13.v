(* C13 - compilation is deterministic.  Statements only.
   Go map iteration is an explicit oracle: a `range` over a map is a fold over ANY permutation
   of its entries.  Gen/Sites.v (regenerated from /repo's source on every run) lists every
   map range of the compiler. *)
From FP Require Import MapOrder Sites.
From Coq Require Import String List Permutation.

(* a loop that only stores under pairwise distinct keys yields the same map in every order *)
Theorem C13_keyed_insert_order_independent :
  forall (E V : Type) (key : E -> string) (val : E -> V) (l1 l2 : list E),
    Permutation l1 l2 -> NoDup (map key l1) ->
    forall m k, insert_all E V key val l1 m k = insert_all E V key val l2 m k.
Proof. exact keyed_insert_order_independent. Qed.
Print Assumptions C13_keyed_insert_order_independent.

(* a loop that only collects keys which are then sorted yields the same list in every order,
   for any total order used by the sort *)
Theorem C13_collect_then_sort_order_independent :
  forall (leb : string -> string -> bool),
    (forall a b, leb a b = true \/ leb b a = true) ->
    (forall a b, leb a b = true -> leb b a = true -> a = b) ->
    (forall a b c, leb a b = true -> leb b c = true -> leb a c = true) ->
    forall l1 l2, Permutation l1 l2 -> sort leb l1 = sort leb l2.
Proof. exact collect_then_sort_order_independent. Qed.
Print Assumptions C13_collect_then_sort_order_independent.

(* every map range in the current source is of one of these two shapes (or the file writer,
   whose iteration order does not reach the generated files) *)
Theorem C13_every_map_range_is_order_independent : forallb site_ok map_range_sites = true.
Proof. vm_compute. reflexivity. Qed.
Print Assumptions C13_every_map_range_is_order_independent.
