(* C17 - emitted self-tests build and pass.  Statements only.
   PARTIAL: "builds" is decided by the strict scaffold interpreters of harness/extract_tests.py
   (cross-checked against javac / g++ with stub runtimes), not proved.  What is proved is the
   tie between the model of a running test (Tests/SelfTest.v) and the IR semantics, for the
   languages whose encoders cannot assign members (Rust: &self, C++: const): there the test
   computes exactly "sem_enc, sem_dec, compare under the test's equality".  For Go, Java and
   Python (encoders store computed members back) the tie is re-checked on every evaluation
   (outcome TInternal).  The verdicts themselves are computed by evaluation (vm_compute) of
   typed / layout / check_enc / check_dec / selftest on the sample each emitted test builds. *)
From FP Require Import SelfTest SelfTestLemmas.

Theorem C17_no_store_encoder_is_sem_enc :
  forall cs P fuel name v buf,
    enc_mut cs P [] fuel name v buf = lift (sem_enc cs P fuel name v buf) v.
Proof. exact enc_mut_nostores. Qed.
Print Assumptions C17_no_store_encoder_is_sem_enc.

Theorem C17_selftest_without_stores :
  forall reg M P eqs path p v b,
    packet_at M path = Some p ->
    sem_enc (cs_test reg) P fuel0 path v [] = Some b ->
    selftest reg M P [] eqs [] path v =
      match sem_dec P fuel0 path b with
      | DOk (v2, _) => if teq M eqs fuel0 path p (copy_members [] v v2) v2 then TPass else TNotEqual
      | _ => TDecodeFails
      end.
Proof. exact selftest_nostores. Qed.
Print Assumptions C17_selftest_without_stores.
