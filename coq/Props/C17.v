(* C17 - emitted self-tests build and pass.  Statements only.
   PARTIAL.
   * "builds" is decided by the strict scaffold interpreters of harness/extract_tests.py
     (cross-checked against javac / g++ with stub runtimes), not proved.
   * "passes" is a THEOREM for validated codecs whose encoder does not assign members (empty store
     table: Rust &self, C++ const, and any Go / Java / Python program without length-of / checksum
     store-backs): C17_validated_selftest_passes below, with its guard shown necessary by
     C17_nested_checksum_refuted; and, for ANY store table, for every test that does not reach a
     packet with store-backs: C17_validated_selftest_passes_quiet (at the end).
   * For Go, Java and Python encoders that DO store computed members back, the verdict is computed
     by evaluation (vm_compute of selftest on the sample each emitted test builds).  What a proof
     would need in addition: the exact value a validated decoder returns for a length-of /
     checksum member (Proofs/Validated.v only gives "some integer": ueq), see Proofs/SelfTestPass.v. *)
From FP Require Import SelfTest SelfTestLemmas.

Theorem C17_no_store_encoder_is_sem_enc :
  forall cs P fuel name v buf,
    enc_mut cs P [] fuel name v buf = lift (sem_enc cs P fuel name v buf) v.
Proof. exact enc_mut_nostores. Qed.
Print Assumptions C17_no_store_encoder_is_sem_enc.

Theorem C17_selftest_without_stores :
  forall reg M P eqs path p v b,
    packet_at M path = Some p ->
    sem_enc (cs_test reg) P fuel0 path v [] = Some b ->
    selftest reg M P [] eqs [] path v =
      match sem_dec P fuel0 path b with
      | DOk (v2, _) => if teq M eqs fuel0 path p (copy_members [] v v2) v2 then TPass else TNotEqual
      | _ => TDecodeFails
      end.
Proof. exact selftest_nostores. Qed.
Print Assumptions C17_selftest_without_stores.

(* ---- validated codecs: the emitted test PASSES (Rust, C++: encoders that cannot assign members) ----
   For every model, every IR program the proved-sound validator accepts (on each run: the IR
   extracted from the real generator's output), every packet and every typed sample that the
   wire specification lays out, the test "encode, decode, copy back [post], compare under
   [eqs]" returns TPass - provided (all boolean, evaluable by the harness)
     eqs_ok M eqs               the member lists of the emitted equality name existing members
                                (no entry for a path = whole-object equality),
     post_ok reg p post         the test copies back every member the encoder computes (length-of
                                always, checksum when the algorithm is registered) and nothing else
                                than computed members,
     no_nested_computed reg M p no such member below the top level of the tested packet (in inline
                                objects, referenced packets, payload packets of match fields).
   The last guard is necessary: C17_nested_checksum_refuted. *)
From FP Require Import Validate Validated Typed SelfTestPass.

Theorem C17_validated_selftest_passes :
  forall reg M O eqs post path p v,
    validate_enc M O = true -> validate_dec_full M O = true ->
    In (path, p) (all_packets M) ->
    typed M fuel0 p v = true ->
    layout_defined reg M path v = true ->
    eqs_ok M eqs = true ->
    post_ok reg p post = true ->
    no_nested_computed reg M p = true ->
    selftest reg M O [] eqs post path v = TPass.
Proof. exact validated_selftest_passes. Qed.
Print Assumptions C17_validated_selftest_passes.

(* the link it rests on: "same message up to computed members" (what a validated decoder returns,
   Proofs/Validated.v) implies equality under the test's comparison once the computed members of
   the top level are copied back *)
Theorem C17_same_message_compares_equal :
  forall reg M eqs, NoDup (map fst (all_packets M)) -> eqs_ok M eqs = true ->
  forall k path p post v v',
    In (path, p) (all_packets M) ->
    forallb (below_with M (plain reg M k)) (p_fields p) = true ->
    post_ok reg p post = true ->
    typed M (S k) p v = true ->
    ueq (cs_test reg) M (S k) p v v' ->
    teq M eqs (S k) path p (copy_members post v v') v' = true.
Proof. exact ueq_teq_top. Qed.
Print Assumptions C17_same_message_compares_equal.

(* not vacuous: a root packet with a match payload behind a length-of field, a referenced and an
   inline object, an object list and a checksum; every hypothesis holds (evaluated) and the
   theorem gives TPass for registered / unregistered checksum and whole-object / member-list equality *)
Example C17_instance_hypotheses :
  validate_enc ex_M ex_O = true /\ validate_dec_full ex_M ex_O = true /\
  packet_at ex_M "Msg" = Some ex_msg /\
  typed ex_M fuel0 ex_msg ex_v = true /\
  layout_defined true ex_M "Msg" ex_v = true /\ layout_defined false ex_M "Msg" ex_v = true /\
  eqs_ok ex_M [] = true /\ eqs_ok ex_M ex_eqs_members = true /\
  post_ok true ex_msg ex_post = true /\ post_ok false ex_msg ex_post = true /\
  no_nested_computed true ex_M ex_msg = true /\ no_nested_computed false ex_M ex_msg = true.
Proof. exact ex_hypotheses. Qed.

Example C17_instance_passes :
  forall reg eqs, (eqs = [] \/ eqs = ex_eqs_members) ->
  selftest reg ex_M ex_O [] eqs ex_post "Msg" ex_v = TPass.
Proof. exact ex_passes. Qed.
Print Assumptions C17_instance_passes.

(* REFUTED without the guard (finding tests-nested-checksum-not-copied): every other hypothesis
   holds, a checksum member sits one level down, the algorithm is registered - the test fails;
   unregistered, the guard holds and it passes *)
Theorem C17_nested_checksum_refuted :
  validate_enc rf_M rf_O = true /\ validate_dec_full rf_M rf_O = true /\
  packet_at rf_M "P" = Some rf_p /\ typed rf_M fuel0 rf_p rf_v = true /\
  layout_defined true rf_M "P" rf_v = true /\ eqs_ok rf_M [] = true /\ post_ok true rf_p [] = true /\
  no_nested_computed true rf_M rf_p = false /\
  selftest true rf_M rf_O [] [] [] "P" rf_v = TNotEqual /\
  no_nested_computed false rf_M rf_p = true /\
  selftest false rf_M rf_O [] [] [] "P" rf_v = TPass.
Proof. exact nested_checksum_refuted. Qed.
Print Assumptions C17_nested_checksum_refuted.

(* ---- any language, any store table the test does not reach ----
   [quiet O S fuel0 path v] (Tests/Quiet.v, boolean, evaluated by the harness for every unit)
   follows the emitted encoder through the sample and checks that no packet it visits has a
   store-back.  Then the store table is irrelevant (the object-returning encoder is sem_enc and
   leaves the sample unchanged) and the theorem above holds verbatim: this covers the Go, Java and
   Python tests of every packet that has no computed member itself or below it.  What remains
   unproved are the tests that DO execute a store-back (the root packets with length-of /
   checksum members in Go, Java, Python): see the header. *)
From FP Require Import Quiet SelfTestQuiet.

Theorem C17_store_table_irrelevant_when_quiet :
  forall cs P S fuel name v buf,
    quiet P S fuel name v = true ->
    enc_mut cs P S fuel name v buf = lift (sem_enc cs P fuel name v buf) v.
Proof. exact enc_mut_quiet. Qed.
Print Assumptions C17_store_table_irrelevant_when_quiet.

Theorem C17_validated_selftest_passes_quiet :
  forall reg M O St eqs post path p v,
    validate_enc M O = true -> validate_dec_full M O = true ->
    In (path, p) (all_packets M) ->
    typed M fuel0 p v = true ->
    layout_defined reg M path v = true ->
    eqs_ok M eqs = true ->
    post_ok reg p post = true ->
    no_nested_computed reg M p = true ->
    quiet O St fuel0 path v = true ->
    selftest reg M O St eqs post path v = TPass.
Proof. exact validated_selftest_passes_quiet. Qed.
Print Assumptions C17_validated_selftest_passes_quiet.

(* not vacuous: with a store table for "Msg", the test of "Inner" is quiet (and passes by the
   theorem), the test of "Msg" is not *)
Example C17_quiet_instance :
  quiet ex_O exq_S fuel0 "Inner" exq_inner_v = true /\ quiet ex_O exq_S fuel0 "Msg" ex_v = false /\
  selftest true ex_M ex_O exq_S [] [] "Inner" exq_inner_v = TPass.
Proof.
  destruct exq_hypotheses as [_ [_ [_ [_ [_ [Hq Hn]]]]]]. split; [exact Hq|]. split; [exact Hn|]. exact exq_passes.
Qed.
Print Assumptions C17_quiet_instance.
