(* C08 - generated code depends on meaning, not spelling.  Statements only.
   The six generators are functions of the parsed model (hook: one model, six outputs; C14 shows
   that no generator alters it), so two texts with the same model have the same outputs; `same_meaning`
   (Model/Spelling.v) compares the visitor model's results up to lines.  The rewrites are FUNCTIONS on
   parse trees (the rw_ functions), mirrored on the text by the harness, which checks on every run that the real
   compiler's six outputs are byte-identical for both texts and that removing an attribute changes
   only its own field.  PARTIAL: proved are the alias tables (every long spelling normalises to
   the type of its short one); the per-rewrite preservation of `visit` is evaluated, not proved.
   The full statement is FALSE of the faithful model on the witnesses below (recorded findings
   visitor-C08): shared MetaData attribute objects, the bare default pad character, mixed key lists. *)
From FP Require Import PT Flatten Visitor VisitorShow Faults NoPanic Spelling VisitorWitnesses VisitorProofs.
From Coq Require Import String List NArith.
Import ListNotations.

Theorem C08_alias_same_type s : norm_ty (long_of (short_of s)) = norm_ty (short_of s).
Proof. exact (alias_same_type s). Qed.
Print Assumptions C08_alias_same_type.

Theorem C08_short_of_norm s : norm_ty (short_of s) = norm_ty s.
Proof. exact (short_of_norm s). Qed.
Print Assumptions C08_short_of_norm.

(* recorded finding: the full statement fails on this witness *)
Theorem C08_attribute_locality_refuted :
  field_b_attr w_shared_pad = Some (BModel.AFixed 4 (Some (BModel.mkPad "'0'" true))) /\
  field_b_attr w_shared_pad_without = Some (BModel.AFixed 4 None) /\
  (* the inlined spelling of the same declarations keeps the attribute local *)
  field_b_attr w_shared_pad_inlined = Some (BModel.AFixed 4 None).
Proof. exact (attribute_locality_refuted). Qed.
Print Assumptions C08_attribute_locality_refuted.

(* recorded finding: the full statement fails on this witness *)
Theorem C08_inline_meta_not_same_meaning :
  same_meaning_o (visit w_shared_pad) (visit (rw_inline_meta w_shared_pad)) = false /\
  same_tokens (rw_inline_meta w_shared_pad) w_shared_pad_inlined = true.
Proof. exact (inline_meta_not_same_meaning). Qed.
Print Assumptions C08_inline_meta_not_same_meaning.

(* recorded finding: the full statement fails on this witness *)
Theorem C08_default_options_refuted :
  same_meaning_o (visit w_pad_from_left_only) (visit (rw_default_options w_pad_from_left_only)) = false /\
  (exists r, visit w_pad_from_left_only = VOk r /\ BModel.c_pad (r_config r) = Some (BModel.mkPad " " true)) /\
  (exists r, visit (rw_default_options w_pad_from_left_only) = VOk r /\ BModel.c_pad (r_config r) = Some (BModel.mkPad "' '" true)).
Proof. exact (default_options_refuted). Qed.
Print Assumptions C08_default_options_refuted.

(* recorded finding: the full statement fails on this witness *)
Theorem C08_mixed_key_list_refuted :
  same_meaning_o (visit w_mixed_key_list) (visit (rw_expand_keys w_mixed_key_list)) = false.
Proof. exact (mixed_key_list_refuted). Qed.
Print Assumptions C08_mixed_key_list_refuted.

