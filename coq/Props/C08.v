(* C08 - generated code depends on meaning, not spelling.  Statements only.
   The six generators are functions of the parsed model (hook: one model, six outputs; C14 shows
   that no generator alters it), so two texts with the same model have the same outputs; `same_meaning`
   (Model/Spelling.v) compares the visitor model's results up to lines.  The rewrites are FUNCTIONS on
   parse trees (the rw_ functions), mirrored on the text by the harness, which checks on every run that the real
   compiler's six outputs are byte-identical for both texts and that removing an attribute changes
   only its own field.  PROVED (Proofs/NormGen.v): each of the six generator models (the models that
   are compared with the real generators' output on every run) looks at its input only through
   norm_bmodel (normalised type names, the padding that takes effect), for EVERY model; hence two
   visitor results with same_meaning = true yield identical code for every target.  PARTIAL: that the
   listed rewrites preserve `visit` up to same_meaning is evaluated on every run, not proved; proved
   are the alias tables (every long spelling normalises to the type of its short one).
   The full statement is FALSE of the faithful model on the witnesses below (recorded findings
   visitor-C08): shared MetaData attribute objects, the bare default pad character, mixed key lists. *)
From FP Require Import PT Flatten Visitor VisitorShow Faults NoPanic Spelling VisitorWitnesses VisitorProofs Go Py Cpp Rust Java Lua Frag NormGen.
From Coq Require Import String List NArith.
Import ListNotations.

(* every generator model factors through the normalised model *)
Theorem C08_generators_see_only_the_normalised_model :
  forall M, gen_go (norm_bmodel M) = gen_go M /\ gen_py (norm_bmodel M) = gen_py M /\ gen_cpp (norm_bmodel M) = gen_cpp M /\
            gen_rust (norm_bmodel M) = gen_rust M /\ gen_java (norm_bmodel M) = gen_java M /\ gen_lua (norm_bmodel M) = gen_lua M.
Proof.
  intro M. repeat split; [apply gen_go_norm|apply gen_py_norm|apply gen_cpp_norm|apply gen_rust_norm|apply gen_java_norm|apply gen_lua_norm].
Qed.
Print Assumptions C08_generators_see_only_the_normalised_model.

(* same meaning => same code, for the five codec targets (l) and the Lua dissector, whatever strcase table both sides get *)
Theorem C08_same_meaning_same_code_thm : forall l names a b,
  same_meaning a b = true ->
  gen_of l (to_bmodel_names names a) = gen_of l (to_bmodel_names names b).
Proof. exact C08_same_meaning_same_code. Qed.
Print Assumptions C08_same_meaning_same_code_thm.

Theorem C08_same_meaning_same_code_lua_thm : forall names a b, same_meaning a b = true ->
  gen_lua (to_bmodel_names names a) = gen_lua (to_bmodel_names names b).
Proof. exact C08_same_meaning_same_code_lua. Qed.
Print Assumptions C08_same_meaning_same_code_lua_thm.

(* same_meaning is exactly equality of the normalised models up to the strcase table *)
Theorem C08_same_meaning_is_equal_normalised_model : forall names a b,
  same_meaning a b = true ->
  norm_bmodel (to_bmodel_names names a) = norm_bmodel (to_bmodel_names names b).
Proof. exact same_meaning_same_norm. Qed.
Print Assumptions C08_same_meaning_is_equal_normalised_model.

Theorem C08_alias_same_type s : norm_ty (long_of (short_of s)) = norm_ty (short_of s).
Proof. exact (alias_same_type s). Qed.
Print Assumptions C08_alias_same_type.

Theorem C08_short_of_norm s : norm_ty (short_of s) = norm_ty s.
Proof. exact (short_of_norm s). Qed.
Print Assumptions C08_short_of_norm.

(* recorded finding: the full statement fails on this witness *)
Theorem C08_attribute_locality_refuted :
  field_b_attr w_shared_pad = Some (BModel.AFixed 4 (Some (BModel.mkPad "'0'" true))) /\
  field_b_attr w_shared_pad_without = Some (BModel.AFixed 4 None) /\
  (* the inlined spelling of the same declarations keeps the attribute local *)
  field_b_attr w_shared_pad_inlined = Some (BModel.AFixed 4 None).
Proof. exact (attribute_locality_refuted). Qed.
Print Assumptions C08_attribute_locality_refuted.

(* recorded finding: the full statement fails on this witness *)
Theorem C08_inline_meta_not_same_meaning :
  same_meaning_o (visit w_shared_pad) (visit (rw_inline_meta w_shared_pad)) = false /\
  same_tokens (rw_inline_meta w_shared_pad) w_shared_pad_inlined = true.
Proof. exact (inline_meta_not_same_meaning). Qed.
Print Assumptions C08_inline_meta_not_same_meaning.

(* recorded finding: the full statement fails on this witness *)
Theorem C08_default_options_refuted :
  same_meaning_o (visit w_pad_from_left_only) (visit (rw_default_options w_pad_from_left_only)) = false /\
  (exists r, visit w_pad_from_left_only = VOk r /\ BModel.c_pad (r_config r) = Some (BModel.mkPad " " true)) /\
  (exists r, visit (rw_default_options w_pad_from_left_only) = VOk r /\ BModel.c_pad (r_config r) = Some (BModel.mkPad "' '" true)).
Proof. exact (default_options_refuted). Qed.
Print Assumptions C08_default_options_refuted.

(* recorded finding: the full statement fails on this witness *)
Theorem C08_mixed_key_list_refuted :
  same_meaning_o (visit w_mixed_key_list) (visit (rw_expand_keys w_mixed_key_list)) = false.
Proof. exact (mixed_key_list_refuted). Qed.
Print Assumptions C08_mixed_key_list_refuted.

