(* C08 - generated code depends on meaning, not spelling.  Statements only.
   The six generators are functions of the parsed model (hook: one model, six outputs; C14 shows
   that no generator alters it), so two texts with the same model have the same outputs; `same_meaning`
   (Model/Spelling.v) compares the visitor model's results up to lines.  The rewrites are FUNCTIONS on
   parse trees (the rw_ functions), mirrored on the text by the harness, which checks on every run that the real
   compiler's six outputs are byte-identical for both texts and that removing an attribute changes
   only its own field.  PROVED (Proofs/NormGen.v): each of the six generator models (the models that
   are compared with the real generators' output on every run) looks at its input only through
   norm_bmodel (normalised type names, the padding that takes effect), for EVERY model; hence two
   visitor results with same_meaning = true yield identical code for every target.  PROVED
   (Proofs/SpellingProofs.v): twelve of the thirteen rewrites preserve `visit` up to same_meaning for ALL
   parse trees (drop_docs, seps_all, seps_none unguarded; alias_long, alias_long_opts, alias_short,
   zchar, expand_keys, default_options, prefix_attr, drop_default_pad, add_default_pad under the guard
   stated in each theorem - the guards exclude trees the lexer cannot produce, the recorded findings
   and, for drop_default_pad, a char[n] field that carries @lengthOf/@calculatedFrom besides its
   padding), hence identical code for every target (C08_rw_*_same_code, end of this file).
   PARTIAL: inline_meta is evaluated on every run, not proved (false as stated: recorded finding).
   The full statement is FALSE of the faithful model on the witnesses below (recorded findings
   visitor-C08): shared MetaData attribute objects, the bare default pad character, mixed key lists. *)
From FP Require Import PT Flatten Visitor VisitorShow Faults NoPanic Spelling VisitorWitnesses VisitorProofs Go Py Cpp Rust Java Lua Frag NormGen.
From Coq Require Import String List NArith.
Import ListNotations.

(* every generator model factors through the normalised model *)
Theorem C08_generators_see_only_the_normalised_model :
  forall M, gen_go (norm_bmodel M) = gen_go M /\ gen_py (norm_bmodel M) = gen_py M /\ gen_cpp (norm_bmodel M) = gen_cpp M /\
            gen_rust (norm_bmodel M) = gen_rust M /\ gen_java (norm_bmodel M) = gen_java M /\ gen_lua (norm_bmodel M) = gen_lua M.
Proof.
  intro M. repeat split; [apply gen_go_norm|apply gen_py_norm|apply gen_cpp_norm|apply gen_rust_norm|apply gen_java_norm|apply gen_lua_norm].
Qed.
Print Assumptions C08_generators_see_only_the_normalised_model.

(* same meaning => same code, for the five codec targets (l) and the Lua dissector, whatever strcase table both sides get *)
Theorem C08_same_meaning_same_code_thm : forall l names a b,
  same_meaning a b = true ->
  gen_of l (to_bmodel_names names a) = gen_of l (to_bmodel_names names b).
Proof. exact C08_same_meaning_same_code. Qed.
Print Assumptions C08_same_meaning_same_code_thm.

Theorem C08_same_meaning_same_code_lua_thm : forall names a b, same_meaning a b = true ->
  gen_lua (to_bmodel_names names a) = gen_lua (to_bmodel_names names b).
Proof. exact C08_same_meaning_same_code_lua. Qed.
Print Assumptions C08_same_meaning_same_code_lua_thm.

(* same_meaning is exactly equality of the normalised models up to the strcase table *)
Theorem C08_same_meaning_is_equal_normalised_model : forall names a b,
  same_meaning a b = true ->
  norm_bmodel (to_bmodel_names names a) = norm_bmodel (to_bmodel_names names b).
Proof. exact same_meaning_same_norm. Qed.
Print Assumptions C08_same_meaning_is_equal_normalised_model.

Theorem C08_alias_same_type s : norm_ty (long_of (short_of s)) = norm_ty (short_of s).
Proof. exact (alias_same_type s). Qed.
Print Assumptions C08_alias_same_type.

Theorem C08_short_of_norm s : norm_ty (short_of s) = norm_ty s.
Proof. exact (short_of_norm s). Qed.
Print Assumptions C08_short_of_norm.

(* recorded finding: the full statement fails on this witness *)
Theorem C08_attribute_locality_refuted :
  field_b_attr w_shared_pad = Some (BModel.AFixed 4 (Some (BModel.mkPad "'0'" true))) /\
  field_b_attr w_shared_pad_without = Some (BModel.AFixed 4 None) /\
  (* the inlined spelling of the same declarations keeps the attribute local *)
  field_b_attr w_shared_pad_inlined = Some (BModel.AFixed 4 None).
Proof. exact (attribute_locality_refuted). Qed.
Print Assumptions C08_attribute_locality_refuted.

(* recorded finding: the full statement fails on this witness *)
Theorem C08_inline_meta_not_same_meaning :
  same_meaning_o (visit w_shared_pad) (visit (rw_inline_meta w_shared_pad)) = false /\
  same_tokens (rw_inline_meta w_shared_pad) w_shared_pad_inlined = true.
Proof. exact (inline_meta_not_same_meaning). Qed.
Print Assumptions C08_inline_meta_not_same_meaning.

(* recorded finding: the full statement fails on this witness *)
Theorem C08_default_options_refuted :
  same_meaning_o (visit w_pad_from_left_only) (visit (rw_default_options w_pad_from_left_only)) = false /\
  (exists r, visit w_pad_from_left_only = VOk r /\ BModel.c_pad (r_config r) = Some (BModel.mkPad " " true)) /\
  (exists r, visit (rw_default_options w_pad_from_left_only) = VOk r /\ BModel.c_pad (r_config r) = Some (BModel.mkPad "' '" true)).
Proof. exact (default_options_refuted). Qed.
Print Assumptions C08_default_options_refuted.

(* recorded finding: the full statement fails on this witness *)
Theorem C08_mixed_key_list_refuted :
  same_meaning_o (visit w_mixed_key_list) (visit (rw_expand_keys w_mixed_key_list)) = false.
Proof. exact (mixed_key_list_refuted). Qed.
Print Assumptions C08_mixed_key_list_refuted.


(* ------------------------------------------------------------------ the rewrites, for ALL parse trees (Proofs/SpellingProofs.v)
   PROVED for every parse tree t (no bound on size, any MetaData/packets/options): if the visitor accepts t without
   diagnostics and the guard (a boolean function of the tree) holds, it accepts the rewritten tree and the two results have the same
   meaning, hence (NormGen) identical code for every target.  The guards:
     alias_guard, zchar_guard      exclude only trees the lexer cannot produce (token texts that do not spell their token type);
     alias_opts_guard              no option value is the dynamic-string keyword (refuted below without it);
     no_mixed_key_list             every key list has its numbers before its strings (a list of one kind has);
     default_options_guard         not: FixedStringPadFromLeft declared and FixedStringPadChar not declared;
     prefix_attr_guard             every inline @lengthOf/@calculatedFrom declaration with a written type has a basic type, or
                                   a dynamic one whose text normalises like "string" (not char[n], which makes a string object
                                   in the prefixed form: refuted below); it no longer looks at the MetaData table.
     drop_default_pad_guard        a padding option is declared (the rewrite does nothing), or every char[n] field whose last
                                   padding is the default one has a text without "zchar" and only padding and tag attributes
                                   (a padding written after @lengthOf/@calculatedFrom is refused with a diagnostic);
     add_default_pad_guard         a padding option is declared, or every char[n] field without padding has a text without "zchar".
   The two padding rewrites change the string objects of the result (padding None / the default): proved through a second
   erasure of the store (the default filled in), which the visitor respects and which preserves the normalised model when
   no padding option is declared (then the configured padding is the default).
   NOT proved: rw_inline_meta (refuted above as stated; the inlined char[n] makes a new string object where the MetaData-typed
   field shares the entry's: needs a renaming of the string objects).
   Each Example shows the statement is not vacuous: a tree from the real parser that satisfies the hypotheses and is changed
   by the rewrite. *)
From FP Require Import SpellingProofs.

Theorem C08_rw_drop_docs_preserves : forall t r, visit t = VOk r -> r_diags r = [] ->
  exists r', visit (rw_drop_docs t) = VOk r' /\ same_meaning r r' = true.
Proof. exact rw_drop_docs_preserves. Qed.
Print Assumptions C08_rw_drop_docs_preserves.

Theorem C08_rw_drop_docs_same_code : forall l names t r, visit t = VOk r -> r_diags r = [] ->
  exists r', visit (rw_drop_docs t) = VOk r' /\ gen_of l (to_bmodel_names names r) = gen_of l (to_bmodel_names names r').
Proof. exact rw_drop_docs_same_code. Qed.
Print Assumptions C08_rw_drop_docs_same_code.

Theorem C08_rw_drop_docs_same_lua : forall names t r, visit t = VOk r -> r_diags r = [] ->
  exists r', visit (rw_drop_docs t) = VOk r' /\ gen_lua (to_bmodel_names names r) = gen_lua (to_bmodel_names names r').
Proof. intros names t r Hv Hd. exact (same_lua_of_preserves _ _ preserves_drop_docs names t r Hv Hd eq_refl). Qed.
Print Assumptions C08_rw_drop_docs_same_lua.

Theorem C08_rw_drop_docs_example :
  (exists r, visit w_spelling = VOk r /\ r_diags r = []) /\ no_guard w_spelling = true /\ same_tokens (rw_drop_docs w_spelling) w_spelling = false.
Proof. exact rw_drop_docs_example. Qed.
Print Assumptions C08_rw_drop_docs_example.

Theorem C08_rw_seps_all_preserves : forall t r, visit t = VOk r -> r_diags r = [] ->
  exists r', visit (rw_seps_all t) = VOk r' /\ same_meaning r r' = true.
Proof. exact rw_seps_all_preserves. Qed.
Print Assumptions C08_rw_seps_all_preserves.

Theorem C08_rw_seps_all_same_code : forall l names t r, visit t = VOk r -> r_diags r = [] ->
  exists r', visit (rw_seps_all t) = VOk r' /\ gen_of l (to_bmodel_names names r) = gen_of l (to_bmodel_names names r').
Proof. exact rw_seps_all_same_code. Qed.
Print Assumptions C08_rw_seps_all_same_code.

Theorem C08_rw_seps_all_same_lua : forall names t r, visit t = VOk r -> r_diags r = [] ->
  exists r', visit (rw_seps_all t) = VOk r' /\ gen_lua (to_bmodel_names names r) = gen_lua (to_bmodel_names names r').
Proof. intros names t r Hv Hd. exact (same_lua_of_preserves _ _ preserves_seps_all names t r Hv Hd eq_refl). Qed.
Print Assumptions C08_rw_seps_all_same_lua.

Theorem C08_rw_seps_all_example :
  (exists r, visit w_spelling = VOk r /\ r_diags r = []) /\ no_guard w_spelling = true /\ same_tokens (rw_seps_all w_spelling) w_spelling = false.
Proof. exact rw_seps_all_example. Qed.
Print Assumptions C08_rw_seps_all_example.

Theorem C08_rw_seps_none_preserves : forall t r, visit t = VOk r -> r_diags r = [] ->
  exists r', visit (rw_seps_none t) = VOk r' /\ same_meaning r r' = true.
Proof. exact rw_seps_none_preserves. Qed.
Print Assumptions C08_rw_seps_none_preserves.

Theorem C08_rw_seps_none_same_code : forall l names t r, visit t = VOk r -> r_diags r = [] ->
  exists r', visit (rw_seps_none t) = VOk r' /\ gen_of l (to_bmodel_names names r) = gen_of l (to_bmodel_names names r').
Proof. exact rw_seps_none_same_code. Qed.
Print Assumptions C08_rw_seps_none_same_code.

Theorem C08_rw_seps_none_same_lua : forall names t r, visit t = VOk r -> r_diags r = [] ->
  exists r', visit (rw_seps_none t) = VOk r' /\ gen_lua (to_bmodel_names names r) = gen_lua (to_bmodel_names names r').
Proof. intros names t r Hv Hd. exact (same_lua_of_preserves _ _ preserves_seps_none names t r Hv Hd eq_refl). Qed.
Print Assumptions C08_rw_seps_none_same_lua.

Theorem C08_rw_seps_none_example :
  (exists r, visit w_spelling = VOk r /\ r_diags r = []) /\ no_guard w_spelling = true /\ same_tokens (rw_seps_none w_spelling) w_spelling = false.
Proof. exact rw_seps_none_example. Qed.
Print Assumptions C08_rw_seps_none_example.

Theorem C08_rw_alias_long_preserves : forall t r, visit t = VOk r -> r_diags r = [] -> alias_guard t = true ->
  exists r', visit (rw_alias_long t) = VOk r' /\ same_meaning r r' = true.
Proof. exact rw_alias_long_preserves. Qed.
Print Assumptions C08_rw_alias_long_preserves.

Theorem C08_rw_alias_long_same_code : forall l names t r, visit t = VOk r -> r_diags r = [] -> alias_guard t = true ->
  exists r', visit (rw_alias_long t) = VOk r' /\ gen_of l (to_bmodel_names names r) = gen_of l (to_bmodel_names names r').
Proof. exact rw_alias_long_same_code. Qed.
Print Assumptions C08_rw_alias_long_same_code.

Theorem C08_rw_alias_long_same_lua : forall names t r, visit t = VOk r -> r_diags r = [] -> alias_guard t = true ->
  exists r', visit (rw_alias_long t) = VOk r' /\ gen_lua (to_bmodel_names names r) = gen_lua (to_bmodel_names names r').
Proof. exact (same_lua_of_preserves _ _ preserves_alias_long). Qed.
Print Assumptions C08_rw_alias_long_same_lua.

Theorem C08_rw_alias_long_example :
  (exists r, visit w_spelling = VOk r /\ r_diags r = []) /\ alias_guard w_spelling = true /\ same_tokens (rw_alias_long w_spelling) w_spelling = false.
Proof. exact rw_alias_long_example. Qed.
Print Assumptions C08_rw_alias_long_example.

Theorem C08_rw_alias_long_opts_preserves : forall t r, visit t = VOk r -> r_diags r = [] -> alias_opts_guard t = true ->
  exists r', visit (rw_alias_long_opts t) = VOk r' /\ same_meaning r r' = true.
Proof. exact rw_alias_long_opts_preserves. Qed.
Print Assumptions C08_rw_alias_long_opts_preserves.

Theorem C08_rw_alias_long_opts_same_code : forall l names t r, visit t = VOk r -> r_diags r = [] -> alias_opts_guard t = true ->
  exists r', visit (rw_alias_long_opts t) = VOk r' /\ gen_of l (to_bmodel_names names r) = gen_of l (to_bmodel_names names r').
Proof. exact rw_alias_long_opts_same_code. Qed.
Print Assumptions C08_rw_alias_long_opts_same_code.

Theorem C08_rw_alias_long_opts_same_lua : forall names t r, visit t = VOk r -> r_diags r = [] -> alias_opts_guard t = true ->
  exists r', visit (rw_alias_long_opts t) = VOk r' /\ gen_lua (to_bmodel_names names r) = gen_lua (to_bmodel_names names r').
Proof. exact (same_lua_of_preserves _ _ preserves_alias_long_opts). Qed.
Print Assumptions C08_rw_alias_long_opts_same_lua.

Theorem C08_rw_alias_long_opts_example :
  (exists r, visit w_spelling = VOk r /\ r_diags r = []) /\ alias_opts_guard w_spelling = true /\ same_tokens (rw_alias_long_opts w_spelling) w_spelling = false.
Proof. exact rw_alias_long_opts_example. Qed.
Print Assumptions C08_rw_alias_long_opts_example.

Theorem C08_rw_alias_short_preserves : forall t r, visit t = VOk r -> r_diags r = [] -> alias_short_guard t = true ->
  exists r', visit (rw_alias_short t) = VOk r' /\ same_meaning r r' = true.
Proof. intros t r Hv Hd Hg. exact (preserves_alias_short t r Hv Hd Hg). Qed.
Print Assumptions C08_rw_alias_short_preserves.

Theorem C08_rw_alias_short_same_code : forall l names t r, visit t = VOk r -> r_diags r = [] -> alias_short_guard t = true ->
  exists r', visit (rw_alias_short t) = VOk r' /\ gen_of l (to_bmodel_names names r) = gen_of l (to_bmodel_names names r').
Proof. exact rw_alias_short_same_code. Qed.
Print Assumptions C08_rw_alias_short_same_code.

Theorem C08_rw_alias_short_same_lua : forall names t r, visit t = VOk r -> r_diags r = [] -> alias_short_guard t = true ->
  exists r', visit (rw_alias_short t) = VOk r' /\ gen_lua (to_bmodel_names names r) = gen_lua (to_bmodel_names names r').
Proof. exact (same_lua_of_preserves _ _ preserves_alias_short). Qed.
Print Assumptions C08_rw_alias_short_same_lua.

Theorem C08_rw_alias_short_example :
  (exists r, visit w_spelling = VOk r /\ r_diags r = []) /\ alias_short_guard w_spelling = true /\ same_tokens (rw_alias_short w_spelling) w_spelling = false.
Proof. exact rw_alias_short_example. Qed.
Print Assumptions C08_rw_alias_short_example.

Theorem C08_rw_zchar_preserves : forall t r, visit t = VOk r -> r_diags r = [] -> zchar_guard t = true ->
  exists r', visit (rw_zchar t) = VOk r' /\ same_meaning r r' = true.
Proof. exact rw_zchar_preserves. Qed.
Print Assumptions C08_rw_zchar_preserves.

Theorem C08_rw_zchar_same_code : forall l names t r, visit t = VOk r -> r_diags r = [] -> zchar_guard t = true ->
  exists r', visit (rw_zchar t) = VOk r' /\ gen_of l (to_bmodel_names names r) = gen_of l (to_bmodel_names names r').
Proof. exact rw_zchar_same_code. Qed.
Print Assumptions C08_rw_zchar_same_code.

Theorem C08_rw_zchar_same_lua : forall names t r, visit t = VOk r -> r_diags r = [] -> zchar_guard t = true ->
  exists r', visit (rw_zchar t) = VOk r' /\ gen_lua (to_bmodel_names names r) = gen_lua (to_bmodel_names names r').
Proof. exact (same_lua_of_preserves _ _ preserves_zchar). Qed.
Print Assumptions C08_rw_zchar_same_lua.

Theorem C08_rw_zchar_example :
  (exists r, visit w_spelling = VOk r /\ r_diags r = []) /\ zchar_guard w_spelling = true /\ same_tokens (rw_zchar w_spelling) w_spelling = false.
Proof. exact rw_zchar_example. Qed.
Print Assumptions C08_rw_zchar_example.

Theorem C08_rw_expand_keys_preserves : forall t r, visit t = VOk r -> r_diags r = [] -> no_mixed_key_list t = true ->
  exists r', visit (rw_expand_keys t) = VOk r' /\ same_meaning r r' = true.
Proof. exact rw_expand_keys_preserves. Qed.
Print Assumptions C08_rw_expand_keys_preserves.

Theorem C08_rw_expand_keys_same_code : forall l names t r, visit t = VOk r -> r_diags r = [] -> no_mixed_key_list t = true ->
  exists r', visit (rw_expand_keys t) = VOk r' /\ gen_of l (to_bmodel_names names r) = gen_of l (to_bmodel_names names r').
Proof. exact rw_expand_keys_same_code. Qed.
Print Assumptions C08_rw_expand_keys_same_code.

Theorem C08_rw_expand_keys_same_lua : forall names t r, visit t = VOk r -> r_diags r = [] -> no_mixed_key_list t = true ->
  exists r', visit (rw_expand_keys t) = VOk r' /\ gen_lua (to_bmodel_names names r) = gen_lua (to_bmodel_names names r').
Proof. exact (same_lua_of_preserves _ _ preserves_expand_keys). Qed.
Print Assumptions C08_rw_expand_keys_same_lua.

Theorem C08_rw_expand_keys_example :
  (exists r, visit w_spelling = VOk r /\ r_diags r = []) /\ no_mixed_key_list w_spelling = true /\ same_tokens (rw_expand_keys w_spelling) w_spelling = false.
Proof. exact rw_expand_keys_example. Qed.
Print Assumptions C08_rw_expand_keys_example.

Theorem C08_rw_default_options_preserves : forall t r, visit t = VOk r -> r_diags r = [] -> default_options_guard t = true ->
  exists r', visit (rw_default_options t) = VOk r' /\ same_meaning r r' = true.
Proof. exact rw_default_options_preserves. Qed.
Print Assumptions C08_rw_default_options_preserves.

Theorem C08_rw_default_options_same_code : forall l names t r, visit t = VOk r -> r_diags r = [] -> default_options_guard t = true ->
  exists r', visit (rw_default_options t) = VOk r' /\ gen_of l (to_bmodel_names names r) = gen_of l (to_bmodel_names names r').
Proof. exact rw_default_options_same_code. Qed.
Print Assumptions C08_rw_default_options_same_code.

Theorem C08_rw_default_options_same_lua : forall names t r, visit t = VOk r -> r_diags r = [] -> default_options_guard t = true ->
  exists r', visit (rw_default_options t) = VOk r' /\ gen_lua (to_bmodel_names names r) = gen_lua (to_bmodel_names names r').
Proof. exact (same_lua_of_preserves _ _ preserves_default_options). Qed.
Print Assumptions C08_rw_default_options_same_lua.

Theorem C08_rw_default_options_example :
  (exists r, visit w_spelling = VOk r /\ r_diags r = []) /\ default_options_guard w_spelling = true /\ same_tokens (rw_default_options w_spelling) w_spelling = false.
Proof. exact rw_default_options_example. Qed.
Print Assumptions C08_rw_default_options_example.

Theorem C08_rw_prefix_attr_preserves : forall t r, visit t = VOk r -> r_diags r = [] -> prefix_attr_guard t = true ->
  exists r', visit (rw_prefix_attr t) = VOk r' /\ same_meaning r r' = true.
Proof. exact rw_prefix_attr_preserves. Qed.
Print Assumptions C08_rw_prefix_attr_preserves.

Theorem C08_rw_prefix_attr_same_code : forall l names t r, visit t = VOk r -> r_diags r = [] -> prefix_attr_guard t = true ->
  exists r', visit (rw_prefix_attr t) = VOk r' /\ gen_of l (to_bmodel_names names r) = gen_of l (to_bmodel_names names r').
Proof. exact rw_prefix_attr_same_code. Qed.
Print Assumptions C08_rw_prefix_attr_same_code.

Theorem C08_rw_prefix_attr_same_lua : forall names t r, visit t = VOk r -> r_diags r = [] -> prefix_attr_guard t = true ->
  exists r', visit (rw_prefix_attr t) = VOk r' /\ gen_lua (to_bmodel_names names r) = gen_lua (to_bmodel_names names r').
Proof. exact (same_lua_of_preserves _ _ preserves_prefix_attr). Qed.
Print Assumptions C08_rw_prefix_attr_same_lua.

Theorem C08_rw_prefix_attr_example :
  (exists r, visit w_spelling = VOk r /\ r_diags r = []) /\ prefix_attr_guard w_spelling = true /\ same_tokens (rw_prefix_attr w_spelling) w_spelling = false.
Proof. exact rw_prefix_attr_example. Qed.
Print Assumptions C08_rw_prefix_attr_example.

Theorem C08_rw_drop_default_pad_preserves : forall t r, visit t = VOk r -> r_diags r = [] -> drop_default_pad_guard t = true ->
  exists r', visit (rw_drop_default_pad t) = VOk r' /\ same_meaning r r' = true.
Proof. exact rw_drop_default_pad_preserves. Qed.
Print Assumptions C08_rw_drop_default_pad_preserves.

Theorem C08_rw_drop_default_pad_same_code : forall l names t r, visit t = VOk r -> r_diags r = [] -> drop_default_pad_guard t = true ->
  exists r', visit (rw_drop_default_pad t) = VOk r' /\ gen_of l (to_bmodel_names names r) = gen_of l (to_bmodel_names names r').
Proof. exact rw_drop_default_pad_same_code. Qed.
Print Assumptions C08_rw_drop_default_pad_same_code.

Theorem C08_rw_drop_default_pad_same_lua : forall names t r, visit t = VOk r -> r_diags r = [] -> drop_default_pad_guard t = true ->
  exists r', visit (rw_drop_default_pad t) = VOk r' /\ gen_lua (to_bmodel_names names r) = gen_lua (to_bmodel_names names r').
Proof. exact (same_lua_of_preserves _ _ preserves_drop_default_pad). Qed.
Print Assumptions C08_rw_drop_default_pad_same_lua.

Theorem C08_rw_drop_default_pad_example :
  (exists r, visit w_spelling = VOk r /\ r_diags r = []) /\ drop_default_pad_guard w_spelling = true /\ same_tokens (rw_drop_default_pad w_spelling) w_spelling = false.
Proof. exact rw_drop_default_pad_example. Qed.
Print Assumptions C08_rw_drop_default_pad_example.

Theorem C08_rw_add_default_pad_preserves : forall t r, visit t = VOk r -> r_diags r = [] -> add_default_pad_guard t = true ->
  exists r', visit (rw_add_default_pad t) = VOk r' /\ same_meaning r r' = true.
Proof. exact rw_add_default_pad_preserves. Qed.
Print Assumptions C08_rw_add_default_pad_preserves.

Theorem C08_rw_add_default_pad_same_code : forall l names t r, visit t = VOk r -> r_diags r = [] -> add_default_pad_guard t = true ->
  exists r', visit (rw_add_default_pad t) = VOk r' /\ gen_of l (to_bmodel_names names r) = gen_of l (to_bmodel_names names r').
Proof. exact rw_add_default_pad_same_code. Qed.
Print Assumptions C08_rw_add_default_pad_same_code.

Theorem C08_rw_add_default_pad_same_lua : forall names t r, visit t = VOk r -> r_diags r = [] -> add_default_pad_guard t = true ->
  exists r', visit (rw_add_default_pad t) = VOk r' /\ gen_lua (to_bmodel_names names r) = gen_lua (to_bmodel_names names r').
Proof. exact (same_lua_of_preserves _ _ preserves_add_default_pad). Qed.
Print Assumptions C08_rw_add_default_pad_same_lua.

Theorem C08_rw_add_default_pad_example :
  (exists r, visit w_spelling_unpadded = VOk r /\ r_diags r = []) /\ add_default_pad_guard w_spelling_unpadded = true /\ same_tokens (rw_add_default_pad w_spelling_unpadded) w_spelling_unpadded = false.
Proof. exact rw_add_default_pad_example. Qed.
Print Assumptions C08_rw_add_default_pad_example.

(* the guard of the option-value alias rewrites is needed: `options { GoPackage = string; }` *)
Theorem C08_alias_long_opts_unguarded_refuted :
  (exists r, visit w_dyn_option = VOk r /\ r_diags r = []) /\ alias_opts_guard w_dyn_option = false /\
  same_meaning_o (visit w_dyn_option) (visit (rw_alias_long_opts w_dyn_option)) = false.
Proof. exact alias_long_opts_unguarded_refuted. Qed.
Print Assumptions C08_alias_long_opts_unguarded_refuted.

Theorem C08_prefix_attr_guard_excludes_refuted : prefix_attr_guard w_fixed_checksum = false.
Proof. exact prefix_attr_guard_excludes_refuted. Qed.
Print Assumptions C08_prefix_attr_guard_excludes_refuted.

(* fixed (was a recorded finding): `MetaData M { u32 len, } root packet A { u16 len @lengthOf(x), u8 x, }` - the written type of
   the inline declaration is kept although a MetaData entry has the name of the field; both spellings mean the same *)
Theorem C08_prefix_attr_name_like_meta :
  (exists r, visit w_len_named_like_meta = VOk r /\ r_diags r = []) /\ prefix_attr_guard w_len_named_like_meta = true /\
  same_meaning_o (visit w_len_named_like_meta) (visit (rw_prefix_attr w_len_named_like_meta)) = true.
Proof. exact prefix_attr_name_like_meta. Qed.
Print Assumptions C08_prefix_attr_name_like_meta.

(* rw_prefix_attr is FALSE without its guard: `packet A { char[4] c @calculatedFrom("X"), }` *)
Theorem C08_prefix_attr_refuted_fixed_string :
  (exists r, visit w_fixed_checksum = VOk r /\ r_diags r = []) /\
  same_meaning_o (visit w_fixed_checksum) (visit (rw_prefix_attr w_fixed_checksum)) = false.
Proof. exact prefix_attr_refuted_fixed_string. Qed.
Print Assumptions C08_prefix_attr_refuted_fixed_string.
