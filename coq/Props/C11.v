(* C11 - no input crashes the formatter or the compiler.  Statements only.
   Formatter: `format_res` (Fmt/Formatter.v) models FormatPacketDsl with an explicit FPanic outcome
   at every dereference of an optional parse-tree child and every hidden-token query; it is compared
   with the real formatter on every run and PROVED never to panic, for every rune list.
   Visitor: `visit` (Model/Visitor.v) has an explicit VPanic outcome at every unchecked type
   assertion / nil dereference of packet_dsl_parser.go and model.go; it CAN panic (five reachable
   sites, recorded findings visitor-C11:panic), and `nopanic_frag` is a decidable fragment of
   parse trees proved sufficient for a result; the harness evaluates it on every tree and no
   text inside it may panic.  Generators: not modelled for panics; the crash scan of harness/crash.py
   classifies recovered panics by site (recorded findings crash-...).  "Never hangs / never overflows
   the stack" of the real Go code is observed under limits, not proved: the models are total. *)
From FP Require Import PT Flatten Lexer Parser Formatter FmtSafe FmtProofs Visitor NoPanic VisitorWitnesses VisitorProofs.
From Coq Require Import String List NArith.
Import ListNotations.

Theorem C11_format_never_panics_thm : forall s site, format_res s <> FPanic site.
Proof. exact (C11_format_never_panics). Qed.
Print Assumptions C11_format_never_panics_thm.

Theorem C11_format_total_thm : forall s, exists r, format_res s = FOk r \/ format_res s = FErr (string_of_runes s).
Proof. exact (C11_format_total). Qed.
Print Assumptions C11_format_total_thm.

(* inside the fragment the visitor returns a result (possibly with diagnostics) *)
Theorem C11_nopanic_frag_sound t : nopanic_frag t = true -> exists r, visit t = VOk r.
Proof. exact (nopanic_frag_sound t). Qed.
Print Assumptions C11_nopanic_frag_sound.

(* recorded findings: the full statement "visit never panics" is FALSE of the faithful model *)
Theorem C11_visit_may_panic : ~ (forall t, exists r, visit t = VOk r).
Proof. exact (visit_may_panic). Qed.
Print Assumptions C11_visit_may_panic.

(* recorded finding: a reachable panic site *)
Theorem C11_panic_attr_reachable : visit w_pad_on_basic = VPanic site_attr.
Proof. exact (panic_attr_reachable). Qed.
Print Assumptions C11_panic_attr_reachable.

(* recorded finding: a reachable panic site *)
Theorem C11_panic_gettype_reachable : visit w_lengthof_on_object = VPanic site_gettype.
Proof. exact (panic_gettype_reachable). Qed.
Print Assumptions C11_panic_gettype_reachable.

(* recorded finding: a reachable panic site *)
Theorem C11_panic_lenfield_reachable : visit w_len_named_nil_meta = VPanic site_lenfield.
Proof. exact (panic_lenfield_reachable). Qed.
Print Assumptions C11_panic_lenfield_reachable.

(* recorded finding: a reachable panic site *)
Theorem C11_panic_checksum_reachable : visit w_sum_named_nil_meta = VPanic site_checksum.
Proof. exact (panic_checksum_reachable). Qed.
Print Assumptions C11_panic_checksum_reachable.

(* recorded finding: a reachable panic site *)
Theorem C11_panic_packetdef_reachable : visit w_undeclared_len_target_panic = VPanic site_packetdef.
Proof. exact (panic_packetdef_reachable). Qed.
Print Assumptions C11_panic_packetdef_reachable.

