(* C11 - no input crashes the formatter or the compiler.  Statements only.
   Formatter: `format_res` (Fmt/Formatter.v) models FormatPacketDsl with an explicit FPanic outcome
   at every dereference of an optional parse-tree child and every hidden-token query; it is compared
   with the real formatter on every run and PROVED never to panic, for every rune list.
   Visitor: `visit` (Model/Visitor.v) has an explicit VPanic outcome at every type assertion /
   pointer dereference of packet_dsl_parser.go and model.go that is not guarded in the code; it is
   compared with the real visitor on every run and PROVED to return a result for every parse tree
   (the five panic sites of the unrepaired visitor are diagnostics now).  Generators: not modelled for panics; the crash scan of harness/crash.py
   classifies recovered panics by site (recorded findings crash-...).  "Never hangs / never overflows
   the stack" of the real Go code is observed under limits, not proved: the models are total. *)
From FP Require Import PT Flatten Lexer Parser Formatter FmtSafe FmtProofs Visitor NoPanic VisitorWitnesses VisitorProofs.
From Coq Require Import String List NArith.
Import ListNotations.

Theorem C11_format_never_panics_thm : forall s site, format_res s <> FPanic site.
Proof. exact (C11_format_never_panics). Qed.
Print Assumptions C11_format_never_panics_thm.

Theorem C11_format_total_thm : forall s, exists r, format_res s = FOk r \/ format_res s = FErr (string_of_runes s).
Proof. exact (C11_format_total). Qed.
Print Assumptions C11_format_total_thm.

(* the visitor returns a result (possibly with diagnostics) for EVERY parse tree *)
Theorem C11_visit_never_panics : forall t, exists r, visit t = VOk r.
Proof. exact (visit_never_panics). Qed.
Print Assumptions C11_visit_never_panics.

Theorem C11_visit_no_panic t site : visit t <> VPanic site.
Proof. exact (visit_no_panic t site). Qed.
Print Assumptions C11_visit_no_panic.

(* the structural fragment that the unrepaired visitor needed (kept: it is now implied by the total theorem) *)
Theorem C11_nopanic_frag_sound t : nopanic_frag t = true -> exists r, visit t = VOk r.
Proof. exact (nopanic_frag_sound t). Qed.
Print Assumptions C11_nopanic_frag_sound.

(* the former panic sites answer with a diagnostic *)
Theorem C11_attribute_misuse_diagnosed :
  only_diag w_pad_on_basic DK_PadNotFixed 1 /\ only_diag w_lengthof_on_object DK_AttrOnObject 1 /\
  only_diag w_len_named_nil_meta DK_UnknownMeta 1 /\ only_diag w_sum_named_nil_meta DK_UnknownMeta 1.
Proof. exact (attribute_misuse_diagnosed). Qed.
Print Assumptions C11_attribute_misuse_diagnosed.

Theorem C11_undeclared_len_target_witness :
  only_diag w_undeclared_len_target DK_UnknownLenTarget 1 /\ only_diag w_undeclared_len_target_panic DK_UnknownLenTarget 1.
Proof. exact (undeclared_len_target_witness). Qed.
Print Assumptions C11_undeclared_len_target_witness.
