(* C02 per language - on its structural decoder fragment (Gen/Frag.v; it includes
   len_widths_agree = lenw_ok) each generator MODEL's decoder, fed the canonical encoding of
   any message of the value domain followed by any bytes, returns the message (computed members
   with their wire values), consumes exactly the message, and the returned message re-encodes
   to the same bytes.  Statements only.
   Java: the decoder fragment is the models WITHOUT dynamic strings and lists (finding
   java-signed-length-prefix: no such decoder is ever validated). *)
From FP Require Import Validate Validated Typed RefDec Frag FragAll.

Theorem C02_go_fragment :
  forall cs M, go_frag_dec M = true ->
  forall fuel path p v pre out,
    In (path, p) (all_packets M) -> typed M fuel p v = true ->
    lay_packet cs M fuel p v pre = Some out ->
    exists msg v',
      out = pre ++ msg /\
      (forall rest, sem_dec (gen_go M) fuel path (msg ++ rest) = DOk (v', rest)) /\
      ueq cs M fuel p v v' /\
      lay_packet cs M fuel p v' pre = Some out.
Proof. exact go_frag_dec_correct. Qed.
Print Assumptions C02_go_fragment.

Theorem C02_py_fragment :
  forall cs M, py_frag_dec M = true ->
  forall fuel path p v pre out,
    In (path, p) (all_packets M) -> typed M fuel p v = true ->
    lay_packet cs M fuel p v pre = Some out ->
    exists msg v',
      out = pre ++ msg /\
      (forall rest, sem_dec (gen_py M) fuel path (msg ++ rest) = DOk (v', rest)) /\
      ueq cs M fuel p v v' /\
      lay_packet cs M fuel p v' pre = Some out.
Proof. exact py_frag_dec_correct. Qed.
Print Assumptions C02_py_fragment.

Theorem C02_cpp_fragment :
  forall cs M, cpp_frag_dec M = true ->
  forall fuel path p v pre out,
    In (path, p) (all_packets M) -> typed M fuel p v = true ->
    lay_packet cs M fuel p v pre = Some out ->
    exists msg v',
      out = pre ++ msg /\
      (forall rest, sem_dec (gen_cpp M) fuel path (msg ++ rest) = DOk (v', rest)) /\
      ueq cs M fuel p v v' /\
      lay_packet cs M fuel p v' pre = Some out.
Proof. exact cpp_frag_dec_correct. Qed.
Print Assumptions C02_cpp_fragment.

Theorem C02_rust_fragment :
  forall cs M, rust_frag_dec M = true ->
  forall fuel path p v pre out,
    In (path, p) (all_packets M) -> typed M fuel p v = true ->
    lay_packet cs M fuel p v pre = Some out ->
    exists msg v',
      out = pre ++ msg /\
      (forall rest, sem_dec (gen_rust M) fuel path (msg ++ rest) = DOk (v', rest)) /\
      ueq cs M fuel p v v' /\
      lay_packet cs M fuel p v' pre = Some out.
Proof. exact rust_frag_dec_correct. Qed.
Print Assumptions C02_rust_fragment.

Theorem C02_java_fragment :
  forall cs M, java_frag_dec M = true ->
  forall fuel path p v pre out,
    In (path, p) (all_packets M) -> typed M fuel p v = true ->
    lay_packet cs M fuel p v pre = Some out ->
    exists msg v',
      out = pre ++ msg /\
      (forall rest, sem_dec (gen_java M) fuel path (msg ++ rest) = DOk (v', rest)) /\
      ueq cs M fuel p v v' /\
      lay_packet cs M fuel p v' pre = Some out.
Proof. exact java_frag_dec_correct. Qed.
Print Assumptions C02_java_fragment.

(* inside the decoder fragment the generator model's output is accepted by the validator, and the
   length widths agree *)
Theorem C02_fragment_validates :
  forall l M, frag_dec_of l M = true -> validate_dec_full M (gen_of l M) = true.
Proof. exact frag_dec_validates_full. Qed.
Print Assumptions C02_fragment_validates.

Theorem C02_fragment_lenw :
  forall l M, frag_dec_of l M = true -> lenw_ok M = true.
Proof. exact frag_dec_lenw. Qed.
Print Assumptions C02_fragment_lenw.
