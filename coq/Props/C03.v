(* C03 - all target languages agree on the wire.  Statements only.
   Every language's emitted code is validated against ONE reference compilation of the
   model; agreement between languages is a corollary. *)
From FP Require Import Validate Validated DecSame Typed RefDec.

(* two validated encoders write the same bytes for every message the DSL declares *)
Theorem C03_validated_encoders_agree :
  forall cs M O1 O2, validate_enc M O1 = true -> validate_enc M O2 = true ->
  forall fuel path p v buf b,
    In (path, p) (all_packets M) ->
    lay_packet cs M fuel p v buf = Some b ->
    sem_enc cs O1 fuel path v buf = Some b /\ sem_enc cs O2 fuel path v buf = Some b.
Proof.
  intros cs M O1 O2 H1 H2 fuel path p v buf b Hin Hl.
  split; [apply (validated_enc_correct cs M O1 H1 fuel path p)|apply (validated_enc_correct cs M O2 H2 fuel path p)]; assumption.
Qed.
Print Assumptions C03_validated_encoders_agree.

(* two validated decoders return the same result on EVERY input (valid or not) *)
Theorem C03_validated_decoders_agree :
  forall M O1 O2, validate_dec M O1 = true -> validate_dec M O2 = true ->
  forall fuel name rd, sem_dec O1 fuel name rd = sem_dec O2 fuel name rd.
Proof. exact validated_decoders_agree. Qed.
Print Assumptions C03_validated_decoders_agree.

(* cross-decoding: language 2's decoder accepts language 1's bytes and recovers the message *)
Theorem C03_cross_decode :
  forall cs M O1 O2, validate_enc M O1 = true -> validate_dec_full M O2 = true ->
  forall fuel path p v b,
    In (path, p) (all_packets M) -> typed M fuel p v = true ->
    sem_enc cs O1 fuel path v [] = Some b -> lay_packet cs M fuel p v [] <> None ->
    exists v', (forall rest, sem_dec O2 fuel path (b ++ rest) = DOk (v', rest)) /\ ueq cs M fuel p v v'.
Proof.
  intros cs M O1 O2 H1 H2 fuel path p v b Hin Ht He Hl.
  destruct (lay_packet cs M fuel p v []) as [out|] eqn:E; [|contradiction].
  pose proof (validated_enc_correct cs M O1 H1 fuel path p v [] out Hin E) as He'.
  rewrite He in He'. inversion He'; subst out.
  destruct (validated_dec_correct cs M O2 H2 fuel path p v [] b Hin Ht E) as [msg [v' [Ho [Hd [Hu _]]]]].
  cbn [app] in Ho. subst msg. exists v'. split; assumption.
Qed.
Print Assumptions C03_cross_decode.
