(* C04 - length-of fields are computed from the bytes actually written.  Statements only. *)
From FP Require Import Validate Validated Misc RefDec Typed.

(* the value the caller stored in a length-of member does not influence the layout ... *)
Theorem C04_caller_value_ignored :
  forall cs M rec p fs vs vs' st,
    Forall2 (fun fv v' => len_member_differs (fst fv) (snd fv) v') (combine fs vs) vs' ->
    length vs = length fs ->
    lay_fields cs M rec p fs vs st = lay_fields cs M rec p fs vs' st.
Proof. exact lay_fields_len_agnostic. Qed.
Print Assumptions C04_caller_value_ignored.

(* ... nor, therefore, the bytes any validated encoder writes (the specification is what it
   writes, C01), and validated decoders return the wire value: decoding the canonical bytes
   yields a message v' that the specification lays out to the same bytes, i.e. whose length
   member holds exactly what is on the wire (C02_validated_decoder). *)
Theorem C04_validated_encoder_ignores_caller_value :
  forall cs M O, validate_enc M O = true ->
  forall fuel path p v v' buf b,
    In (path, p) (all_packets M) ->
    ueq cs M fuel p v v' ->
    lay_packet cs M fuel p v buf = Some b ->
    sem_enc cs O fuel path v buf = Some b /\ sem_enc cs O fuel path v' buf = Some b.
Proof.
  intros cs M O H fuel path p v v' buf b Hin Hu Hl.
  split; apply (validated_enc_correct cs M O H fuel path p); try assumption.
  rewrite <- (ueq_lay cs M fuel p v v' buf Hu). exact Hl.
Qed.
Print Assumptions C04_validated_encoder_ignores_caller_value.
