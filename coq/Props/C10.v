(* C10 - formatting is idempotent and layout-canonical.  Statements only.
   Proved for ALL inputs without comments: two texts whose token lists agree up to line and column
   get the same outcome (layout-canonical, end to end through the lexer, parser and formatter
   models).  PARTIAL idempotence: the canonical tree is a fixed point (canon_pt (canon_pt t) = canon_pt t,
   same comment-free print); the re-reading of the printed text by the 45-rule lexer is a
   hypothesis of C10_idempotent_of_reparse, checked on the real formatter by the harness
   (format(format x) = format x on every accepted text).  The full statements are FALSE of the
   faithful model: witnesses below (doc strings re-indented on every pass; a bare CR).  Repaired: the
   comment after the last match pair is no longer dropped on the second pass (example below). *)
From FP Require Import PT Flatten Tokens Lexer Parser Formatter FmtDefs FmtDoc FmtSafe FmtPure FmtErase FmtDocProofs FmtProofs.
From Coq Require Import String List NArith.
Import ListNotations.

Theorem C10_layout_canonical_comment_free_thm : forall x y tx ty,
  lex x = Some tx -> lex y = Some ty -> no_hidden tx -> map et tx = map et ty ->
  same_outcome (format_res x) (format_res y).
Proof. exact (C10_layout_canonical_comment_free). Qed.
Print Assumptions C10_layout_canonical_comment_free_thm.

(* PARTIAL *)
Theorem C10_idempotent_partial_thm : forall s ts t,
  lex s = Some ts -> parse ts = Some t -> no_hidden ts ->
  format_res s = FOk (nc_pt t)
  /\ nc_pt (canon_pt t) = nc_pt t
  /\ canon_pt (canon_pt t) = canon_pt t
  /\ srcs (doc_pt t) = toks_pt (canon_pt t).
Proof. exact (C10_idempotent_partial). Qed.
Print Assumptions C10_idempotent_partial_thm.

(* idempotence under the hypothesis that the printed text is re-read as the printed tokens *)
Theorem C10_idempotent_of_reparse_thm : forall s ts t ts' t',
  lex s = Some ts -> parse ts = Some t -> no_hidden ts ->
  lex (runes_of_string (nc_pt t)) = Some ts' -> parse ts' = Some t' -> no_hidden ts' ->
  nc_pt t' = nc_pt (canon_pt t) ->
  idempotent_at s.
Proof. exact (C10_idempotent_of_reparse). Qed.
Print Assumptions C10_idempotent_of_reparse_thm.

(* recorded finding: the full statement fails on this witness *)
Theorem C10_idempotent_refuted_w : ~ C10_idempotent.
Proof. exact (C10_idempotent_refuted). Qed.
Print Assumptions C10_idempotent_refuted_w.

(* repaired finding: the former witness is a fixed point of the formatter *)
Theorem C10_match_comment_idempotent_example_thm : idempotent_at (runes_of_string match_comment_text).
Proof. exact (C10_match_comment_idempotent_example). Qed.
Print Assumptions C10_match_comment_idempotent_example_thm.

(* recorded finding: the full statement fails on this witness *)
Theorem C10_layout_cr_witness_w :
  map (fun r => if N.eqb r 13 then 10%N else r) (runes_of_string cr_text) = runes_of_string lf_text
  /\ option_map (map et) (lex (runes_of_string cr_text)) = option_map (map et) (lex (runes_of_string lf_text))
  /\ fst (format_text (runes_of_string cr_text)) <> fst (format_text (runes_of_string lf_text))
  /\ option_map (comment_pattern None) (lex (runes_of_string cr_text))
     <> option_map (comment_pattern None) (lex (runes_of_string lf_text)).
Proof. exact (C10_layout_cr_witness). Qed.
Print Assumptions C10_layout_cr_witness_w.

