(* C05 - match fields dispatch exactly as the DSL table says.  Statements only. *)
From FP Require Import Validate Validated Misc EqvSoundDec.

(* the encoder writes the payload the caller supplied: the specification lays a match field
   out as the message of the payload's own packet (and validated encoders implement the
   specification, C01) *)
Theorem C05_payload_is_laid_out_as_its_packet :
  forall M rec k ka pairs name pv q buf,
    lookup_packet M name = Some q ->
    lay_elem M rec (AMatch k ka pairs) (VDyn name pv) buf = rec q pv buf.
Proof. exact lay_elem_match. Qed.
Print Assumptions C05_payload_is_laid_out_as_its_packet.

(* the reference decoder dispatches through exactly the DSL's table and reports unknown keys *)
Theorem C05_reference_dispatch_step :
  forall M path p f k ka pairs ki,
    f_attr f = AMatch (Some k) ka pairs -> index_where (String.eqb k) (p_fields p) 0 = Some ki ->
    ref_delem M path p f = DDispatch (map (fun mp => (mp_key mp, mp_value mp)) pairs) true ki true.
Proof. exact ref_match_step. Qed.
Print Assumptions C05_reference_dispatch_step.

Theorem C05_known_key_instantiates_the_tables_packet :
  forall rec t fw k ue ms rd kv q,
    nth_error ms k = Some (Some kv) -> table_lookup t fw kv = Some q ->
    dec_elem rec (DDispatch t fw k ue) ms rd =
    match rec q rd with DOk (v, rd') => DOk (VDyn q v, rd') | DErr => DErr | DCrash => DCrash end.
Proof. exact dispatch_known. Qed.
Print Assumptions C05_known_key_instantiates_the_tables_packet.

Theorem C05_unknown_key_is_a_reported_error :
  forall rec t fw k ms rd kv,
    nth_error ms k = Some (Some kv) -> table_lookup t fw kv = None ->
    dec_elem rec (DDispatch t fw k true) ms rd = DErr.
Proof. exact dispatch_unknown. Qed.
Print Assumptions C05_unknown_key_is_a_reported_error.

(* which registration wins is immaterial when no two keys can match the same value *)
Theorem C05_registration_order_immaterial :
  forall t fw fw' v, orb (Bool.eqb fw fw') (keys_distinct t) = true -> table_lookup t fw v = table_lookup t fw' v.
Proof. exact table_lookup_fw. Qed.
Print Assumptions C05_registration_order_immaterial.
