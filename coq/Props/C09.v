(* C09 - formatting changes layout only, never meaning or content.  Statements only.
   `format_res` (Fmt/Formatter.v) is the model of FormatPacketDsl, compared with the real function on
   every run (the full result text, on thousands of texts incl. a comment at every token boundary).
   Proved for ALL inputs: the error path (a lexer/parser error returns the input unchanged and
   reports an error, and only then).  PARTIAL: retention is proved for comment-free input whose
   token texts are clean: the printed tokens are exactly the tokens of the canonical tree (nothing
   lost, only a comma after a match pair invented, only key-list items moved), every separator is
   white space.  The full statement (with comments, doc strings with line breaks, mixed key lists)
   is FALSE of the faithful model: the *_refuted lemmas carry witnesses, replayed on the real
   formatter on every run (recorded findings fmt-CMT-*, fmt-KL-REORDER, fmt-DOC-REINDENT ...).
   "Compiles to byte-identical outputs" is checked on the real compiler by the harness. *)
From FP Require Import PT Flatten Tokens Lexer Parser Formatter FmtDefs FmtDoc FmtSafe FmtPure FmtErase FmtDocProofs FmtProofs.
From Coq Require Import String List NArith.
Import ListNotations.

Theorem C09_error_path_thm : forall s,
  lex s = None \/ (exists ts, lex s = Some ts /\ parse ts = None) ->
  format_text s = (string_of_runes s, false).
Proof. exact (C09_error_path). Qed.
Print Assumptions C09_error_path_thm.

Theorem C09_error_only_on_syntax_error_thm : forall s r,
  format_text s = (r, false) ->
  r = string_of_runes s /\ (lex s = None \/ (exists ts, lex s = Some ts /\ parse ts = None)).
Proof. exact (C09_error_only_on_syntax_error). Qed.
Print Assumptions C09_error_only_on_syntax_error_thm.

(* PARTIAL: comment-free input *)
Theorem C09_retention_comment_free_partial : forall s ts t,
  lex s = Some ts -> parse ts = Some t -> no_hidden ts -> clean_toks (toks_pt t) ->
  format_text s = (render (doc_pt t), true)
  /\ srcs (doc_pt t) = toks_pt (canon_pt t)
  /\ seps_ok (doc_pt t) = true
  /\ (faithful (doc_pt t) = true -> printed (doc_pt t) = flatten (canon_pt t)).
Proof. exact (C09_retention_comment_free). Qed.
Print Assumptions C09_retention_comment_free_partial.

(* recorded finding: the full statement fails on this witness *)
Theorem C09_retention_comment_refuted_w :
  snd (format_text (runes_of_string inside_text)) = true
  /\ comments_of (runes_of_string inside_text) = ["// c"]
  /\ comments_of (runes_of_string (formatted inside_text)) = [].
Proof. exact (C09_retention_comment_refuted). Qed.
Print Assumptions C09_retention_comment_refuted_w.

(* recorded finding: the full statement fails on this witness *)
Theorem C09_retention_metadata_refuted_w :
  snd (format_text (runes_of_string meta_text)) = true
  /\ comments_of (runes_of_string meta_text) = ["// c"]
  /\ comments_of (runes_of_string (formatted meta_text)) = [].
Proof. exact (C09_retention_metadata_refuted). Qed.
Print Assumptions C09_retention_metadata_refuted_w.

(* recorded finding: the full statement fails on this witness *)
Theorem C09_retention_keylist_refuted_w :
  snd (format_text (runes_of_string mixed_text)) = true
  /\ default_texts_of (runes_of_string mixed_text)
     = ["packet"; "A"; "{"; "match"; "k"; "as"; "n"; "{"; "["; """a"""; ","; "1"; "]"; ":"; "B"; ","; "}"; ","; "}"]
  /\ default_texts_of (runes_of_string (formatted mixed_text))
     = ["packet"; "A"; "{"; "match"; "k"; "as"; "n"; "{"; "["; "1"; ","; """a"""; "]"; ":"; "B"; ","; "}"; ","; "}"].
Proof. exact (C09_retention_keylist_refuted). Qed.
Print Assumptions C09_retention_keylist_refuted_w.

(* recorded finding: the full statement fails on this witness *)
Theorem C09_retention_doc_refuted_w :
  snd (format_text (runes_of_string doc2_text)) = true
  /\ In ("`a" ++ nl ++ "b`")%string (default_texts_of (runes_of_string doc2_text))
  /\ ~ In ("`a" ++ nl ++ "b`")%string (default_texts_of (runes_of_string (formatted doc2_text)))
  /\ In ("`a" ++ nl ++ "    b`")%string (default_texts_of (runes_of_string (formatted doc2_text)))
  /\ match lex (runes_of_string doc2_text) with
     | Some ts => match parse ts with Some t => faithful (doc_pt t) = false | None => False end
     | None => False
     end.
Proof. exact (C09_retention_doc_refuted). Qed.
Print Assumptions C09_retention_doc_refuted_w.

