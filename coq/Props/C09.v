(* C09 - formatting changes layout only, never meaning or content.  Statements only.
   `format_res` (Fmt/Formatter.v) is the model of FormatPacketDsl, compared with the real function on
   every run (the full result text, on thousands of texts incl. a comment at every token boundary).
   Proved for ALL inputs: the error path (a lexer/parser error returns the input unchanged and
   reports an error, and only then).  PARTIAL: retention is proved for comment-free input whose
   token texts are clean: the printed tokens are exactly the tokens of the canonical tree (nothing
   lost, only a comma after a match pair invented, nothing moved: C09_canon_adds_commas_only_thm),
   every separator is white space.  The full statement (with a comment between two tokens of a
   field, doc strings with line breaks) is FALSE of the faithful model: the *_refuted lemmas carry
   witnesses, replayed on the real formatter on every run (recorded findings fmt-CMT-INSIDE-NODE,
   fmt-DOC-REINDENT ...).  Repaired and no longer refuted: comments of MetaData blocks, in front of a
   closing brace, in front of attributes, at the end of the text; mixed key lists (examples below).
   "Compiles to byte-identical outputs" is checked on the real compiler by the harness. *)
From FP Require Import PT Flatten Tokens Lexer Parser Formatter FmtDefs FmtDoc FmtSafe FmtPure FmtErase FmtDocProofs FmtProofs.
From Coq Require Import String List NArith.
Import ListNotations.

Theorem C09_error_path_thm : forall s,
  lex s = None \/ (exists ts, lex s = Some ts /\ parse ts = None) ->
  format_text s = (string_of_runes s, false).
Proof. exact (C09_error_path). Qed.
Print Assumptions C09_error_path_thm.

Theorem C09_error_only_on_syntax_error_thm : forall s r,
  format_text s = (r, false) ->
  r = string_of_runes s /\ (lex s = None \/ (exists ts, lex s = Some ts /\ parse ts = None)).
Proof. exact (C09_error_only_on_syntax_error). Qed.
Print Assumptions C09_error_only_on_syntax_error_thm.

(* PARTIAL: comment-free input *)
Theorem C09_retention_comment_free_partial : forall s ts t,
  lex s = Some ts -> parse ts = Some t -> no_hidden ts -> clean_toks (toks_pt t) ->
  format_text s = (render (doc_pt t), true)
  /\ srcs (doc_pt t) = toks_pt (canon_pt t)
  /\ seps_ok (doc_pt t) = true
  /\ (faithful (doc_pt t) = true -> printed (doc_pt t) = flatten (canon_pt t)).
Proof. exact (C09_retention_comment_free). Qed.
Print Assumptions C09_retention_comment_free_partial.

(* recorded finding: the full statement fails on this witness *)
Theorem C09_retention_comment_refuted_w :
  snd (format_text (runes_of_string inside_text)) = true
  /\ comments_of (runes_of_string inside_text) = ["// c"]
  /\ comments_of (runes_of_string (formatted inside_text)) = [].
Proof. exact (C09_retention_comment_refuted). Qed.
Print Assumptions C09_retention_comment_refuted_w.

(* the canonical tree differs from a tree of the parser by the commas of match pairs only *)
Theorem C09_canon_adds_commas_only_thm : forall n p,
  ok_match_pair n p = true ->
  canon_match_pair p = mkMatchPair (mp_span p) (mp_key p) (mp_colon p) (mp_ident p) (Some (comma_of (mp_comma p))).
Proof. exact (C09_canon_adds_commas_only). Qed.
Print Assumptions C09_canon_adds_commas_only_thm.

(* repaired findings: their witnesses keep every comment and are fixed points of the formatter *)
Theorem C09_comments_kept_examples_thm :
  kept meta_text = true /\ kept before_meta_text = true /\ kept rbrace_text = true /\ kept attr_text = true
  /\ kept at_end_text = true /\ kept trim_end_text = true /\ kept match_comment_text = true.
Proof. exact (C09_comments_kept_examples). Qed.
Print Assumptions C09_comments_kept_examples_thm.

(* repaired finding: a mixed key list keeps its order *)
Theorem C09_keylist_order_kept_example_thm :
  snd (format_text (runes_of_string mixed_text)) = true
  /\ default_texts_of (runes_of_string (formatted mixed_text)) = default_texts_of (runes_of_string mixed_text)
  /\ formatted mixed_text = mixed_text.
Proof. exact (C09_keylist_order_kept_example). Qed.
Print Assumptions C09_keylist_order_kept_example_thm.

(* recorded finding: the full statement fails on this witness *)
Theorem C09_retention_doc_refuted_w :
  snd (format_text (runes_of_string doc2_text)) = true
  /\ In ("`a" ++ nl ++ "b`")%string (default_texts_of (runes_of_string doc2_text))
  /\ ~ In ("`a" ++ nl ++ "b`")%string (default_texts_of (runes_of_string (formatted doc2_text)))
  /\ In ("`a" ++ nl ++ "    b`")%string (default_texts_of (runes_of_string (formatted doc2_text)))
  /\ match lex (runes_of_string doc2_text) with
     | Some ts => match parse ts with Some t => faithful (doc_pt t) = false | None => False end
     | None => False
     end.
Proof. exact (C09_retention_doc_refuted). Qed.
Print Assumptions C09_retention_doc_refuted_w.

