(* C06 - checksum fields cover exactly the preceding bytes.  Statements only.
   The specification's checksum clause; validated encoders implement the specification
   (C01_validated_encoder) and validated decoders read the field back with the same width
   and byte order (C02_validated_decoder). *)
From FP Require Import Validate Validated Misc.

Theorem C06_registered_algorithm_over_the_buffer :
  forall cs M rec p f alg t n w h buf lp,
    f_rep f = false -> f_attr f = ACheck alg t -> ty_width (get_basic_type t) = Some w ->
    cs (unquote alg) = Some h -> fits w (h buf) = true ->
    lay_field cs M rec p f (VInt n) (buf, lp) = Some (buf ++ enc_int w (cfg_le M) (h buf), lp).
Proof. exact lay_field_checksum_registered. Qed.
Print Assumptions C06_registered_algorithm_over_the_buffer.

Theorem C06_unregistered_writes_the_callers_value :
  forall cs M rec p f alg t n w buf lp,
    f_rep f = false -> f_attr f = ACheck alg t -> ty_width (get_basic_type t) = Some w ->
    cs (unquote alg) = None -> fits w n = true ->
    lay_field cs M rec p f (VInt n) (buf, lp) = Some (buf ++ enc_int w (cfg_le M) n, lp).
Proof. exact lay_field_checksum_unregistered. Qed.
Print Assumptions C06_unregistered_writes_the_callers_value.

Theorem C06_validated_encoder :
  forall cs M O, validate_enc M O = true ->
  forall fuel path p v buf b,
    In (path, p) (all_packets M) ->
    lay_packet cs M fuel p v buf = Some b ->
    sem_enc cs O fuel path v buf = Some b.
Proof. exact validated_enc_correct. Qed.
Print Assumptions C06_validated_encoder.
