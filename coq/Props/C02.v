(* C02 - decoders invert encoders and consume exactly one message.  Statements only. *)
From FP Require Import Validate Validated EqvSoundDec DecSame RefDec Typed.

(* (1) the boolean IR equivalence is sound for decoders: equivalent programs return the same
       result (value and remaining bytes, error, or crash) on every input *)
Theorem C02_equivalence_sound :
  forall P Q, dec_prog_eqvb P Q = true ->
  forall fuel name rd, sem_dec P fuel name rd = sem_dec Q fuel name rd.
Proof. exact dec_prog_eqv_sound. Qed.
Print Assumptions C02_equivalence_sound.

(* (2) the reference decoder inverts the wire specification: fed the canonical encoding of a
       message followed by any bytes, it returns the message (up to the members the encoder
       computes, which come back with their wire values), consumes exactly the message and
       re-encoding what it returned reproduces the bytes *)
Theorem C02_reference_decoder :
  forall cs M mk, NoDup (map fst (all_packets M)) -> lenw_ok M = true ->
  forall fuel path p v pre out,
    In (path, p) (all_packets M) -> typed M fuel p v = true ->
    lay_packet cs M fuel p v pre = Some out ->
    exists msg v',
      out = pre ++ msg /\
      (forall rest, sem_dec (ref_prog M mk) fuel path (msg ++ rest) = DOk (v', rest)) /\
      ueq cs M fuel p v v' /\
      lay_packet cs M fuel p v' pre = Some out.
Proof. exact ref_dec_correct. Qed.
Print Assumptions C02_reference_decoder.

(* (3) hence every decoder the validator accepts (on every run: the IR extracted from the
       real generators' output) does the same *)
Theorem C02_validated_decoder :
  forall cs M O, validate_dec_full M O = true ->
  forall fuel path p v pre out,
    In (path, p) (all_packets M) -> typed M fuel p v = true ->
    lay_packet cs M fuel p v pre = Some out ->
    exists msg v',
      out = pre ++ msg /\
      (forall rest, sem_dec O fuel path (msg ++ rest) = DOk (v', rest)) /\
      ueq cs M fuel p v v' /\
      lay_packet cs M fuel p v' pre = Some out.
Proof. exact validated_dec_correct. Qed.
Print Assumptions C02_validated_decoder.
