(* Non-vacuity of C07_validated_output_is_complete: a model and the generator model's output for it
   satisfy every hypothesis (and the conclusion evaluates to true). *)
From FP Require Import BModel Sem Completeness Validate Complete Py Go.
From Coq Require Import String List.
Import ListNotations.
Open Scope string_scope.

Definition exM : bmodel :=
  mkModel (mkCfg "u16" "u16" "" "" "" false None)
          [ mkPacket "Inner" false None [mkField "a" (ABasic "u8") LNone false; mkField "s" ADyn LNone false] [];
            mkPacket "Msg" true None
              [ mkField "k" (ABasic "u16") LNone false; mkField "sym" (AFixed 4%nat None) LNone false;
                mkField "Inner" (AObj false "Inner" (Some "Inner") None) LNone false;
                mkField "xs" (ABasic "u32") LNone true ] [] ]
          ["Inner"; "Msg"] (Some "Msg")
          [("Inner", ("Inner", "inner", "inner")); ("Msg", ("Msg", "msg", "msg")); ("a", ("A", "a", "a")); ("s", ("S", "s", "s"));
           ("k", ("K", "k", "k")); ("sym", ("Sym", "sym", "sym")); ("xs", ("Xs", "xs", "xs"))].

Example C07_hypotheses_hold :
  validate_enc exM (gen_py exM) = true /\ validate_dec exM (gen_py exM) = true /\ supported exM = true /\
  validate_enc exM (gen_go exM) = true /\ validate_dec exM (gen_go exM) = true.
Proof. vm_compute. repeat split; reflexivity. Qed.

Example C07_conclusion_evaluates : complete_ir exM (gen_py exM) = true /\ complete_ir exM (gen_go exM) = true.
Proof. vm_compute. split; reflexivity. Qed.

(* and an incomplete program is rejected: dropping a decode step of the generator's output *)
Example C07_incomplete_is_not_validated :
  exists O, complete_ir exM O = false /\ validate_dec exM O = false.
Proof.
  exists (map (fun x => (fst x, mkPkt (ir_members (snd x)) (ir_enc (snd x)) (tl (ir_dec (snd x))))) (gen_py exM)).
  vm_compute. split; reflexivity.
Qed.
