(* C14 - targets are generated independently of one another.  Statements only. *)
From FP Require Import MapOrder Sites.
From Coq Require Import String List.
Import ListNotations.

(* if generating never alters the model, then whichever generators ran before, and in whatever
   order, a generator returns exactly what it returns when run alone on the parsed model *)
Theorem C14_generators_independent :
  forall (Model Lang Files : Type) (run : Lang -> Model -> Files * Model),
    (forall L M, snd (run L M) = M) ->
    forall ls M L f, In (L, f) (fst (run_all Model Lang Files run ls M)) -> f = fst (run L M).
Proof. exact generators_independent. Qed.
Print Assumptions C14_generators_independent.

(* and the model the later generators see is the parsed model *)
Theorem C14_model_unchanged_by_any_sequence :
  forall (Model Lang Files : Type) (run : Lang -> Model -> Files * Model),
    (forall L M, snd (run L M) = M) ->
    forall ls M, snd (run_all Model Lang Files run ls M) = M.
Proof. exact run_all_model. Qed.
Print Assumptions C14_model_unchanged_by_any_sequence.

(* the premise, on the current source: no statement of the generator or cmd sources writes
   memory of the parsed model (table regenerated from /repo on every run) *)
Theorem C14_no_generator_statement_writes_the_model : model_mutation_sites = [].
Proof. reflexivity. Qed.
Print Assumptions C14_no_generator_statement_writes_the_model.
