(* C07 - successful compilation yields complete, well-formed target code.  Statements only.
   PARTIAL: what is proved is the IR-level half of the property ("every declared packet has its
   type and every declared field its member and its encode and decode step") for output that the
   proved-sound validator accepts.  Well-formedness of the emitted TEXT (valid program of the
   target language, no marker text) is checked by harness/complete.py on every run (marker scan
   regenerated from the Go source, gofmt / ast.parse / optional javac and g++ against stub
   runtimes), not proved. *)
From FP Require Import Completeness Validate Complete.

Theorem C07_validated_output_is_complete :
  forall (M : bmodel) (O : prog),
    validate_enc M O = true -> validate_dec M O = true -> supported M = true ->
    complete_ir M O = true.
Proof. exact validated_is_complete. Qed.
Print Assumptions C07_validated_output_is_complete.
