(* C16 - every entry point delivers exactly the library result.  Statements only.
   The wrappers (cmd/root.go, format.go, compile.go, lib.go, WriteCodeToFile) are modelled in
   coq/Cli/Cli.v, parametric in the library: F = FormatPacketDsl, P = ParseFile, G = the
   generators.  The theorems hold for ALL F, P and G - which is what "delivers exactly the
   library result" means.  Statements copied from Proofs/CliProofs.v (proved there); the
   behaviours that violate the property are the ..._refuted lemmas of that file (findings). *)
From FP Require Import Cli CliProofs.
From Coq Require Import String List ZArith Permutation.
Import ListNotations.
Open Scope string_scope.

Section C16.
  Variable F : string -> string * option string.
  Variable P : string -> parse_result.
  Variable G : list lang -> lang -> string -> gen_result.
  Notation exec := (exec F P G).
  Notation plan := (plan G).

  Theorem C16_format_d_ok (f : fs) (x r : string) :
    x <> "" -> F x = (r, None) ->
    exec ["format"; "-d"; x] f = Some (mkWorld f (r ++ nl) 0) /\
    exec ["format"; "--dsl"; x] f = Some (mkWorld f (r ++ nl) 0) /\
    exec ["format"; "--dsl=" ++ x] f = Some (mkWorld f (r ++ nl) 0).
  Proof. first [exact (format_d_ok F P G f x r) | exact (format_d_ok F P f x r) | exact (format_d_ok F G f x r) | exact (format_d_ok P G f x r) | exact (format_d_ok F f x r) | exact (format_d_ok P f x r) | exact (format_d_ok G f x r) | exact (format_d_ok  f x r)]. Qed.

  Theorem C16_format_d_error (f : fs) (x r e : string) :
    x <> "" -> F x = (r, Some e) ->
    exec ["format"; "-d"; x] f = Some (mkWorld f ("Error formatting DSL: " ++ e ++ nl) 1) /\
    exec ["format"; "--dsl"; x] f = Some (mkWorld f ("Error formatting DSL: " ++ e ++ nl) 1) /\
    exec ["format"; "--dsl=" ++ x] f = Some (mkWorld f ("Error formatting DSL: " ++ e ++ nl) 1).
  Proof. first [exact (format_d_error F P G f x r e) | exact (format_d_error F P f x r e) | exact (format_d_error F G f x r e) | exact (format_d_error P G f x r e) | exact (format_d_error F f x r e) | exact (format_d_error P f x r e) | exact (format_d_error G f x r e) | exact (format_d_error  f x r e)]. Qed.

  Theorem C16_format_f_ok (f : fs) (p old r : string) :
    p <> "" -> fs_read p f = Some old -> F old = (r, None) ->
    exec ["format"; "-f"; p] f = Some (mkWorld (fs_write p r f) "" 0) /\
    exec ["format"; "--file"; p] f = Some (mkWorld (fs_write p r f) "" 0) /\
    exec ["format"; "--file=" ++ p] f = Some (mkWorld (fs_write p r f) "" 0).
  Proof. first [exact (format_f_ok F P G f p old r) | exact (format_f_ok F P f p old r) | exact (format_f_ok F G f p old r) | exact (format_f_ok P G f p old r) | exact (format_f_ok F f p old r) | exact (format_f_ok P f p old r) | exact (format_f_ok G f p old r) | exact (format_f_ok  f p old r)]. Qed.

  Theorem C16_format_f_ok_files (f : fs) (p old r : string) (w : world) :
    p <> "" -> fs_read p f = Some old -> F old = (r, None) ->
    exec ["format"; "-f"; p] f = Some w ->
    fs_read p (files w) = Some (fst (F old)) /\
    (forall q, q <> p -> fs_read q (files w) = fs_read q f) /\ stdout w = "" /\ exit w = 0.
  Proof. first [exact (format_f_ok_files F P G f p old r w) | exact (format_f_ok_files F P f p old r w) | exact (format_f_ok_files F G f p old r w) | exact (format_f_ok_files P G f p old r w) | exact (format_f_ok_files F f p old r w) | exact (format_f_ok_files P f p old r w) | exact (format_f_ok_files G f p old r w) | exact (format_f_ok_files  f p old r w)]. Qed.

  Theorem C16_format_f_error (f : fs) (p old r e : string) :
    p <> "" -> fs_read p f = Some old -> F old = (r, Some e) ->
    exec ["format"; "-f"; p] f = Some (mkWorld f ("Error formatting DSL: " ++ e ++ nl) 1) /\
    exec ["format"; "--file"; p] f = Some (mkWorld f ("Error formatting DSL: " ++ e ++ nl) 1) /\
    exec ["format"; "--file=" ++ p] f = Some (mkWorld f ("Error formatting DSL: " ++ e ++ nl) 1).
  Proof. first [exact (format_f_error F P G f p old r e) | exact (format_f_error F P f p old r e) | exact (format_f_error F G f p old r e) | exact (format_f_error P G f p old r e) | exact (format_f_error F f p old r e) | exact (format_f_error P f p old r e) | exact (format_f_error G f p old r e) | exact (format_f_error  f p old r e)]. Qed.

  Theorem C16_lib_format_ok (x r : string) :
    F (cstr x) = (r, None) -> lib_format F x = cstr r.
  Proof. first [exact (lib_format_ok F P G x r) | exact (lib_format_ok F P x r) | exact (lib_format_ok F G x r) | exact (lib_format_ok P G x r) | exact (lib_format_ok F x r) | exact (lib_format_ok P x r) | exact (lib_format_ok G x r) | exact (lib_format_ok  x r)]. Qed.

  Theorem C16_lib_format_error (x r e : string) :
    F (cstr x) = (r, Some e) -> lib_format F x = "Error:" ++ cstr e.
  Proof. first [exact (lib_format_error F P G x r e) | exact (lib_format_error F P x r e) | exact (lib_format_error F G x r e) | exact (lib_format_error P G x r e) | exact (lib_format_error F x r e) | exact (lib_format_error P x r e) | exact (lib_format_error G x r e) | exact (lib_format_error  x r e)]. Qed.

  Theorem C16_lib_format_exact (x r : string) :
    no_nul x = true -> F x = (r, None) -> no_nul r = true -> lib_format F x = fst (F x).
  Proof. first [exact (lib_format_exact F P G x r) | exact (lib_format_exact F P x r) | exact (lib_format_exact F G x r) | exact (lib_format_exact P G x r) | exact (lib_format_exact F x r) | exact (lib_format_exact P x r) | exact (lib_format_exact G x r) | exact (lib_format_exact  x r)]. Qed.

  Theorem C16_compile_ok (f : fs) (p x noise : string) (sel : list (lang * string)) (ws : list (string * string)) :
    fs_read p f = Some x -> P x = PModel noise [] ->
    plan x [] gen_order (dirs_of sel) = Some ws ->
    exec ("compile" :: compile_args p sel) f = Some (mkWorld (rev ws ++ f)%list (noise ++ gen_lines ws) 0) /\
    exec (compile_args p sel) f = Some (mkWorld (rev ws ++ f)%list (noise ++ gen_lines ws) 0).
  Proof. first [exact (compile_ok F P G f p x noise sel ws) | exact (compile_ok F P f p x noise sel ws) | exact (compile_ok F G f p x noise sel ws) | exact (compile_ok P G f p x noise sel ws) | exact (compile_ok F f p x noise sel ws) | exact (compile_ok P f p x noise sel ws) | exact (compile_ok G f p x noise sel ws) | exact (compile_ok  f p x noise sel ws)]. Qed.

  Theorem C16_compile_ok_elsewhere (f : fs) (ws : list (string * string)) (q : string) :
    ~ In q (map fst ws) -> fs_read q (rev ws ++ f)%list = fs_read q f.
  Proof. first [exact (compile_ok_elsewhere F P G f ws q) | exact (compile_ok_elsewhere F P f ws q) | exact (compile_ok_elsewhere F G f ws q) | exact (compile_ok_elsewhere P G f ws q) | exact (compile_ok_elsewhere F f ws q) | exact (compile_ok_elsewhere P f ws q) | exact (compile_ok_elsewhere G f ws q) | exact (compile_ok_elsewhere  f ws q)]. Qed.

  Theorem C16_compile_ok_last_write (f : fs) (ws1 ws2 : list (string * string)) (q c : string) :
    ~ In q (map fst ws2) -> fs_read q (rev (ws1 ++ (q, c) :: ws2) ++ f)%list = Some c.
  Proof. first [exact (compile_ok_last_write F P G f ws1 ws2 q c) | exact (compile_ok_last_write F P f ws1 ws2 q c) | exact (compile_ok_last_write F G f ws1 ws2 q c) | exact (compile_ok_last_write P G f ws1 ws2 q c) | exact (compile_ok_last_write F f ws1 ws2 q c) | exact (compile_ok_last_write P f ws1 ws2 q c) | exact (compile_ok_last_write G f ws1 ws2 q c) | exact (compile_ok_last_write  f ws1 ws2 q c)]. Qed.

  Theorem C16_write_code_order_irrelevant (dir : string) (l l' : list (string * string)) (w : world) (q : string) :
    NoDup (map fst l) -> Permutation l l' ->
    fs_read q (files (write_code dir l w)) = fs_read q (files (write_code dir l' w)).
  Proof. first [exact (write_code_order_irrelevant F P G dir l l' w q) | exact (write_code_order_irrelevant F P dir l l' w q) | exact (write_code_order_irrelevant F G dir l l' w q) | exact (write_code_order_irrelevant P G dir l l' w q) | exact (write_code_order_irrelevant F dir l l' w q) | exact (write_code_order_irrelevant P dir l l' w q) | exact (write_code_order_irrelevant G dir l l' w q) | exact (write_code_order_irrelevant  dir l l' w q)]. Qed.

  Theorem C16_compile_syntax_error (f : fs) (p x msg : string) (sel : list (lang * string)) :
    fs_read p f = Some x -> P x = PSyntax msg ->
    exec ("compile" :: compile_args p sel) f = Some (mkWorld f ("failed to parse file: " ++ msg ++ nl) 1) /\
    exec (compile_args p sel) f = Some (mkWorld f ("failed to parse file: " ++ msg ++ nl) 1).
  Proof. first [exact (compile_syntax_error F P G f p x msg sel) | exact (compile_syntax_error F P f p x msg sel) | exact (compile_syntax_error F G f p x msg sel) | exact (compile_syntax_error P G f p x msg sel) | exact (compile_syntax_error F f p x msg sel) | exact (compile_syntax_error P f p x msg sel) | exact (compile_syntax_error G f p x msg sel) | exact (compile_syntax_error  f p x msg sel)]. Qed.

  Theorem C16_compile_diagnostics (f : fs) (p x noise : string) (d : Z * Z * string) (ds : list (Z * Z * string))
          (sel : list (lang * string)) :
    fs_read p f = Some x -> P x = PModel noise (d :: ds) ->
    let out := noise ++ String.concat "" (map diag_line (d :: ds))
               ++ "found " ++ show_nat (length (d :: ds)) ++ " syntax errors" ++ nl in
    exec ("compile" :: compile_args p sel) f = Some (mkWorld f out 1) /\
    exec (compile_args p sel) f = Some (mkWorld f out 1).
  Proof. first [exact (compile_diagnostics F P G f p x noise d ds sel) | exact (compile_diagnostics F P f p x noise d ds sel) | exact (compile_diagnostics F G f p x noise d ds sel) | exact (compile_diagnostics P G f p x noise d ds sel) | exact (compile_diagnostics F f p x noise d ds sel) | exact (compile_diagnostics P f p x noise d ds sel) | exact (compile_diagnostics G f p x noise d ds sel) | exact (compile_diagnostics  f p x noise d ds sel)]. Qed.

End C16.

Print Assumptions C16_format_d_ok.
Print Assumptions C16_format_d_error.
Print Assumptions C16_format_f_ok.
Print Assumptions C16_format_f_ok_files.
Print Assumptions C16_format_f_error.
Print Assumptions C16_lib_format_ok.
Print Assumptions C16_lib_format_error.
Print Assumptions C16_lib_format_exact.
Print Assumptions C16_compile_ok.
Print Assumptions C16_compile_ok_elsewhere.
Print Assumptions C16_compile_ok_last_write.
Print Assumptions C16_write_code_order_irrelevant.
Print Assumptions C16_compile_syntax_error.
Print Assumptions C16_compile_diagnostics.
