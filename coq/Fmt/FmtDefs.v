(* Definitions for the statements about the formatter on COMMENT-FREE input (no proofs here;
   Proofs/FmtPure.v, FmtErase.v, FmtDoc.v, FmtProofs.v):

   nc_*      the formatter with every hidden-token call removed: a pure function of the tree
             (Proofs/FmtPure.v: on a token list without comments the model computes it);
   erase_*   the tree with the line and column of every token set to 0 (what a change of
             layout cannot be seen through);
   piece, doc_*, render   the printed text as a list of pieces: the printed terminals, each with
             the terminal of the tree it stands for, and the white space between them;
   canon_*   the canonical tree: a comma after every match pair, key lists numbers first. *)
From FP Require Export Formatter.
Open Scope string_scope.

(* ------------------------------------------------------------------ nc: no comments *)
Definition opt_text (pre : string) (o : option ptok) : string :=
  match o with Some k => pre ++ p_text k | None => EmptyString end.
Definition kw_if {A : Type} (o : option A) (s : string) : string := if non_nil o then s else EmptyString.

Definition nc_padding_attr (a : padding_attr) : string :=
  p_text (pa_attr a) ++ "(" ++ opt_text EmptyString (pa_padding a) ++ ")".

Definition nc_field_attribute (a : field_attribute) : string :=
  match a with
  | FACalculatedFrom _ x => visit_calculated_from_attr x
  | FALengthOf _ x => visit_length_of_attr x
  | FAPadding _ x => nc_padding_attr x
  | FATag _ x => "@tag(" ++ p_text (ta_digits x) ++ ")"
  end.

Fixpoint nc_field_attributes (l : list field_attribute) : string :=
  match l with
  | [] => EmptyString
  | a :: r => nc_field_attribute a ++ nl ++ nc_field_attributes r
  end.

Definition opt_type_text (o : option type_) : string :=
  match o with Some t => type_text t ++ " " | None => EmptyString end.

Definition nc_length_field_decl (d : length_field_decl) : string :=
  opt_type_text (lf_type d) ++ p_text (lf_name d) ++ " @lengthOf(" ++ p_text (lo_from (lf_length_of d)) ++ ")"
  ++ opt_text " " (lf_doc d) ++ ",".

Definition nc_checksum_field_decl (d : checksum_field_decl) : string :=
  opt_type_text (ck_type d) ++ p_text (ck_name d) ++ " @calculatedFrom(" ++ p_text (cf_from (ck_calculated_from d)) ++ ")"
  ++ opt_text " " (ck_doc d) ++ ",".

Definition nc_meta_decl (d : meta_decl) : string :=
  trim_space (type_text (md_type d) ++ " " ++ p_text (md_name d) ++ " " ++ opt_text EmptyString (md_doc d)) ++ ",".

Definition nc_ref_meta_decl (d : ref_meta_decl) : string :=
  trim_space (p_text (rm_typ d) ++ " " ++ p_text (rm_name d) ++ opt_text " " (rm_doc d)) ++ ",".

Definition nc_match_pair (p : match_pair) : string :=
  add_indent4ln (match_key_text (mp_key p) ++ " : " ++ trim_space (p_text (mp_ident p)) ++ ",").

Fixpoint nc_match_pairs (ps : list match_pair) : string :=
  match ps with
  | [] => EmptyString
  | p :: r => nc_match_pair p ++ nc_match_pairs r
  end.

Definition nc_match_field_decl (d : match_field_decl) : string :=
  "match " ++ p_text (mf_key d) ++ " as " ++ p_text (mf_name d) ++ " {" ++ nl ++ nc_match_pairs (mf_pairs d) ++ "}".

Definition nc_object_field (rep : option ptok) (ftype : ptok) (fname doc : option ptok) : string :=
  let field0 := kw_if rep "repeat " ++ p_text ftype in
  let field1 := match fname with Some k => field0 ++ " " ++ p_text k | None => field0 end in
  let field2 := match doc with Some k => field1 ++ " " ++ p_text k | None => field1 end in
  field2 ++ ",".

Fixpoint nc_field_def (f : field_def) : string :=
  match f with
  | ObjectField _ rep ftype fname doc _ => nc_object_field rep ftype fname doc
  | InerObjectField _ rep (InerObjectDecl _ name _ fields _) _ =>
      (kw_if rep "repeat " ++ p_text name ++ " " ++ "{" ++ nl)
      ++ (fix go (fs : list field_def) : string :=
            match fs with
            | [] => EmptyString
            | x :: r => add_indent4ln (nc_field_def x) ++ go r
            end) fields
      ++ "},"
  | LengthField _ d => nc_length_field_decl d
  | CheckSumField _ d => nc_checksum_field_decl d
  | MetaField _ rep d => kw_if rep "repeat " ++ nc_meta_decl d
  | MatchField _ d _ => nc_match_field_decl d ++ ","
  end.

Fixpoint nc_field_defs (fs : list field_def) : string :=
  match fs with
  | [] => EmptyString
  | x :: r => add_indent4ln (nc_field_def x) ++ nc_field_defs r
  end.

Definition nc_field_with_attr (f : field_with_attr) : string :=
  nc_field_attributes (fw_attrs f) ++ nc_field_def (fw_def f).

Fixpoint nc_fields_with_attr (fs : list field_with_attr) : string :=
  match fs with
  | [] => EmptyString
  | f :: r => add_indent4ln (nc_field_with_attr f) ++ nc_fields_with_attr r
  end.

Definition nc_packet_def (d : packet_def) : string :=
  kw_if (pd_root d) "root " ++ "packet " ++ p_text (pd_name d) ++ " {" ++ nl
  ++ nc_fields_with_attr (pd_fields d) ++ "}".

Definition nc_option_decl (d : option_decl) : string :=
  p_text (od_name d) ++ " = " ++ value_text (od_value d) ++ kw_if (od_semi d) ";".

Fixpoint nc_option_decls (ds : list option_decl) : string :=
  match ds with
  | [] => EmptyString
  | d :: r => add_indent4ln (nc_option_decl d) ++ nc_option_decls r
  end.

Definition nc_option_def (d : option_def) : string :=
  "options {" ++ nl ++ nc_option_decls (op_decls d) ++ "}".

Definition nc_meta_item (i : meta_item) : string :=
  match i with
  | MIRef d => nc_ref_meta_decl d
  | MIDecl d => nc_meta_decl d
  end.

Fixpoint nc_meta_items (items : list meta_item) : string :=
  match items with
  | [] => EmptyString
  | i :: r => add_indent4ln (nc_meta_item i) ++ nc_meta_items r
  end.

Definition nc_meta_def (d : meta_def) : string :=
  "MetaData " ++ p_text (me_name d) ++ " {" ++ nl ++ nc_meta_items (me_items d) ++ "}".

Definition nc_definition (d : definition) : string :=
  match d with
  | DPacket x => nc_packet_def x
  | DMeta x => nc_meta_def x
  | DOption x => nc_option_def x
  end.

Fixpoint nc_definitions (ds : list definition) : string :=
  match ds with
  | [] => EmptyString
  | d :: r => nc_definition d ++ (match r with [] => EmptyString | _ => nl ++ nl end) ++ nc_definitions r
  end.

(* the text before the final TrimSpace, and the result *)
Definition nc_packet (t : pt) : string := nc_definitions (pk_defs t).
Definition nc_pt (t : pt) : string := trim_right_nl (nc_packet t).

(* ------------------------------------------------------------------ erase: forget line and column *)
Definition ek (k : ptok) : ptok := mkPtok (p_type k) (p_text k) 0 0 (p_idx k).
Definition eo (o : option ptok) : option ptok := option_map ek o.
Definition esp (s : span) : span := mkSpan (ek (sp_start s)) (ek (sp_stop s)).

Definition e_basic_type (b : basic_type) := mkBasicType (esp (bt_span b)) (ek (bt_tok b)).
Definition e_fixed_string (f : fixed_string) := mkFixedString (esp (fs_span f)) (ek (fs_open f)) (ek (fs_digits f)) (ek (fs_close f)).
Definition e_dynamic_string (d : dynamic_string) := mkDynamicString (esp (ds_span d)) (ek (ds_tok d)).
Definition e_type (t : type_) : type_ :=
  match t with
  | TyBasic sp b => TyBasic (esp sp) (e_basic_type b)
  | TyFixed sp f => TyFixed (esp sp) (e_fixed_string f)
  | TyDynamic sp d => TyDynamic (esp sp) (e_dynamic_string d)
  end.
Definition e_value (v : value) : value :=
  match v with
  | VType sp t => VType (esp sp) (e_type t)
  | VString sp t => VString (esp sp) (ek t)
  | VDigits sp t => VDigits (esp sp) (ek t)
  | VPaddingChar sp t => VPaddingChar (esp sp) (ek t)
  | VTrue sp t => VTrue (esp sp) (ek t)
  | VFalse sp t => VFalse (esp sp) (ek t)
  end.
Definition e_calculated_from (a : calculated_from) := mkCalculatedFrom (esp (cf_span a)) (ek (cf_open a)) (ek (cf_from a)) (ek (cf_close a)).
Definition e_length_of (a : length_of) := mkLengthOf (esp (lo_span a)) (ek (lo_open a)) (ek (lo_from a)) (ek (lo_close a)).
Definition e_padding_attr (a : padding_attr) :=
  mkPaddingAttr (esp (pa_span a)) (ek (pa_attr a)) (ek (pa_open a)) (eo (pa_padding a)) (ek (pa_close a)).
Definition e_tag_attr (a : tag_attr) := mkTagAttr (esp (ta_span a)) (ek (ta_open a)) (ek (ta_digits a)) (ek (ta_close a)).
Definition e_field_attribute (a : field_attribute) : field_attribute :=
  match a with
  | FALengthOf sp x => FALengthOf (esp sp) (e_length_of x)
  | FACalculatedFrom sp x => FACalculatedFrom (esp sp) (e_calculated_from x)
  | FATag sp x => FATag (esp sp) (e_tag_attr x)
  | FAPadding sp x => FAPadding (esp sp) (e_padding_attr x)
  end.
Definition e_meta_decl (d : meta_decl) :=
  mkMetaDecl (esp (md_span d)) (e_type (md_type d)) (ek (md_name d)) (eo (md_doc d)) (ek (md_comma d)).
Definition e_ref_meta_decl (d : ref_meta_decl) :=
  mkRefMetaDecl (esp (rm_span d)) (ek (rm_typ d)) (ek (rm_name d)) (eo (rm_doc d)) (ek (rm_comma d)).
Definition e_length_field_decl (d : length_field_decl) :=
  mkLengthFieldDecl (esp (lf_span d)) (option_map e_type (lf_type d)) (ek (lf_name d)) (e_length_of (lf_length_of d))
    (eo (lf_doc d)) (ek (lf_comma d)).
Definition e_checksum_field_decl (d : checksum_field_decl) :=
  mkChecksumFieldDecl (esp (ck_span d)) (option_map e_type (ck_type d)) (ek (ck_name d)) (e_calculated_from (ck_calculated_from d))
    (eo (ck_doc d)) (ek (ck_comma d)).
Definition e_pair (p : ptok * ptok) : ptok * ptok := (ek (fst p), ek (snd p)).
Definition e_key_list (l : key_list) :=
  mkKeyList (esp (li_span l)) (ek (li_open l)) (ek (li_first l)) (map e_pair (li_rest l)) (ek (li_close l)).
Definition e_match_key (k : match_key) : match_key :=
  match k with
  | MKDigits t => MKDigits (ek t)
  | MKString t => MKString (ek t)
  | MKList l => MKList (e_key_list l)
  end.
Definition e_match_pair (p : match_pair) :=
  mkMatchPair (esp (mp_span p)) (e_match_key (mp_key p)) (ek (mp_colon p)) (ek (mp_ident p)) (eo (mp_comma p)).
Definition e_match_field_decl (d : match_field_decl) :=
  mkMatchFieldDecl (esp (mf_span d)) (ek (mf_match d)) (ek (mf_key d)) (ek (mf_as d)) (ek (mf_name d)) (ek (mf_open d))
    (map e_match_pair (mf_pairs d)) (ek (mf_close d)).

Fixpoint e_field_def (f : field_def) : field_def :=
  match f with
  | InerObjectField sp rep (InerObjectDecl sp' name open fields close) comma =>
      InerObjectField (esp sp) (eo rep) (InerObjectDecl (esp sp') (ek name) (ek open) (map e_field_def fields) (ek close)) (ek comma)
  | MetaField sp rep d => MetaField (esp sp) (eo rep) (e_meta_decl d)
  | ObjectField sp rep ft fn doc comma => ObjectField (esp sp) (eo rep) (ek ft) (eo fn) (eo doc) (ek comma)
  | LengthField sp d => LengthField (esp sp) (e_length_field_decl d)
  | CheckSumField sp d => CheckSumField (esp sp) (e_checksum_field_decl d)
  | MatchField sp d comma => MatchField (esp sp) (e_match_field_decl d) (ek comma)
  end.

Definition e_field_with_attr (f : field_with_attr) :=
  mkFieldWithAttr (esp (fw_span f)) (map e_field_attribute (fw_attrs f)) (e_field_def (fw_def f)).
Definition e_packet_def (d : packet_def) :=
  mkPacketDef (esp (pd_span d)) (eo (pd_root d)) (ek (pd_packet d)) (ek (pd_name d)) (ek (pd_open d))
    (map e_field_with_attr (pd_fields d)) (ek (pd_close d)).
Definition e_meta_item (i : meta_item) : meta_item :=
  match i with
  | MIDecl d => MIDecl (e_meta_decl d)
  | MIRef d => MIRef (e_ref_meta_decl d)
  end.
Definition e_meta_def (d : meta_def) :=
  mkMetaDef (esp (me_span d)) (ek (me_kw d)) (ek (me_name d)) (ek (me_open d)) (map e_meta_item (me_items d)) (ek (me_close d)).
Definition e_option_decl (d : option_decl) :=
  mkOptionDecl (esp (od_span d)) (ek (od_name d)) (ek (od_eq d)) (e_value (od_value d)) (eo (od_semi d)).
Definition e_option_def (d : option_def) :=
  mkOptionDef (esp (op_span d)) (ek (op_kw d)) (ek (op_open d)) (map e_option_decl (op_decls d)) (ek (op_close d)).
Definition e_definition (d : definition) : definition :=
  match d with
  | DPacket x => DPacket (e_packet_def x)
  | DMeta x => DMeta (e_meta_def x)
  | DOption x => DOption (e_option_def x)
  end.
Definition e_pt (t : pt) : pt := mkPacket (ek (pk_start t)) (eo (pk_stop t)) (map e_definition (pk_defs t)).

(* a token of the lexer without its position *)
Definition et (t : tok) : tok := mkTok (type t) (text t) 0 0 (hidden t).
