(* The printed text of a comment-free tree as a list of PIECES, and the CANONICAL tree
   (definitions only; Proofs/FmtDoc.v, Proofs/FmtProofs.v).

   piece     Sp s     white space between two printed terminals
             Tk s k   the terminal k of the tree, printed as s (a literal of the grammar at a
                      keyword / punctuation position, the text of the token elsewhere,
                      re-indented when it is printed inside an indented block)
   doc_*     the pieces the formatter prints for a node, in order; [render] is the text
   srcs      the terminals of the pieces:   the printer's token list, fmt_tokens
   canon_*   the tree with a comma after every match pair (a key list is rebuilt from its
             printed items; Proofs/FmtDocProofs.v canon_key_list_ok: it is the list itself when
             its items are DIGITS or STRING tokens, as in every tree [parse] returns) *)
From FP Require Export FmtDefs.
Open Scope string_scope.
Open Scope list_scope.

Inductive piece :=
| Sp (s : string)
| Tk (s : string) (k : ptok).

Definition ptxt (p : piece) : string := match p with Sp s => s | Tk s _ => s end.

Fixpoint render (d : list piece) : string :=
  match d with
  | [] => EmptyString
  | p :: r => (ptxt p ++ render r)%string
  end.

Definition pmap (f : string -> string) (p : piece) : piece :=
  match p with Sp s => Sp (f s) | Tk s k => Tk (f s) k end.

(* AddIndent4ln on pieces *)
Definition indent4ln (d : list piece) : list piece :=
  Sp (spaces 4) :: map (pmap (reindent (spaces 4))) d ++ [Sp nl].

Definition srcs (d : list piece) : list ptok :=
  flat_map (fun p => match p with Tk _ k => [k] | Sp _ => [] end) d.
Definition printed (d : list piece) : list string :=
  flat_map (fun p => match p with Tk s _ => [s] | Sp _ => [] end) d.
Definition seps (d : list piece) : list string :=
  flat_map (fun p => match p with Sp s => [s] | Tk _ _ => [] end) d.

(* every terminal is printed with its own text *)
Definition faithful (d : list piece) : bool :=
  forallb (fun p => match p with Tk s k => String.eqb s (p_text k) | Sp _ => true end) d.

(* a separator is white space only *)
Definition ws_char (c : ascii) : bool :=
  let n := nat_of_ascii c in Nat.eqb n 32 || Nat.eqb n 10.
Fixpoint ws_only (s : string) : bool :=
  match s with EmptyString => true | String c r => ws_char c && ws_only r end.

Definition tk (k : ptok) : piece := Tk (p_text k) k.
Definition sp1 : piece := Sp " ".

(* the comma the formatter adds after a match pair that has none *)
Definition new_comma : ptok := mkPtok T_COMMA "," 0 0 0.

(* ------------------------------------------------------------------ doc *)
Definition doc_kw (o : option ptok) (s : string) : list piece :=
  match o with Some k => [Tk s k; sp1] | None => [] end.
Definition doc_opt (o : option ptok) : list piece :=
  match o with Some k => [sp1; tk k] | None => [] end.

Definition doc_type (t : type_) : list piece := map tk (toks_type t).
Definition doc_value (v : value) : list piece := map tk (toks_value v).
Definition doc_opt_type (o : option type_) : list piece :=
  match o with Some t => doc_type t ++ [sp1] | None => [] end.

Definition doc_length_of (a : length_of) : list piece :=
  [Tk "@lengthOf(" (lo_open a); tk (lo_from a); Tk ")" (lo_close a)].
Definition doc_calculated_from (a : calculated_from) : list piece :=
  [Tk "@calculatedFrom(" (cf_open a); tk (cf_from a); Tk ")" (cf_close a)].
Definition doc_padding_attr (a : padding_attr) : list piece :=
  [tk (pa_attr a); Tk "(" (pa_open a)] ++ map tk (o2l (pa_padding a)) ++ [Tk ")" (pa_close a)].
Definition doc_tag_attr (a : tag_attr) : list piece :=
  [Tk "@tag(" (ta_open a); tk (ta_digits a); Tk ")" (ta_close a)].

Definition doc_field_attribute (a : field_attribute) : list piece :=
  match a with
  | FACalculatedFrom _ x => doc_calculated_from x
  | FALengthOf _ x => doc_length_of x
  | FAPadding _ x => doc_padding_attr x
  | FATag _ x => doc_tag_attr x
  end.

Fixpoint doc_field_attributes (l : list field_attribute) : list piece :=
  match l with
  | [] => []
  | a :: r => doc_field_attribute a ++ [Sp nl] ++ doc_field_attributes r
  end.

Definition doc_length_field_decl (d : length_field_decl) : list piece :=
  doc_opt_type (lf_type d) ++ [tk (lf_name d); sp1] ++ doc_length_of (lf_length_of d) ++ doc_opt (lf_doc d)
  ++ [Tk "," (lf_comma d)].
Definition doc_checksum_field_decl (d : checksum_field_decl) : list piece :=
  doc_opt_type (ck_type d) ++ [tk (ck_name d); sp1] ++ doc_calculated_from (ck_calculated_from d) ++ doc_opt (ck_doc d)
  ++ [Tk "," (ck_comma d)].
Definition doc_meta_decl (d : meta_decl) : list piece :=
  doc_type (md_type d) ++ [sp1; tk (md_name d)] ++ doc_opt (md_doc d) ++ [Tk "," (md_comma d)].
Definition doc_ref_meta_decl (d : ref_meta_decl) : list piece :=
  [tk (rm_typ d); sp1; tk (rm_name d)] ++ doc_opt (rm_doc d) ++ [Tk "," (rm_comma d)].

(* key lists: the items (Formatter.key_items: the DIGITS and STRING children in source order)
   and the commas of the source in their order *)

Fixpoint zip_commas (cs : list ptok) (items : list ptok) : list (ptok * ptok) :=
  match items with
  | [] => []
  | i :: r =>
      match cs with
      | c :: cs' => (c, i) :: zip_commas cs' r
      | [] => (new_comma, i) :: zip_commas [] r
      end
  end.

(* the pairs (comma, item) behind the first item *)
Definition key_rest (l : key_list) : list (ptok * ptok) := zip_commas (map fst (li_rest l)) (tl (key_items l)).

(* strings.Join(values, ", ") behind the first value *)
Fixpoint doc_short_rest (r : list (ptok * ptok)) : list piece :=
  match r with
  | [] => []
  | (c, i) :: r' => [Tk "," c; sp1; tk i] ++ doc_short_rest r'
  end.

(* the loop of formatStringList behind the first value: idx is the index of the item *)
Fixpoint doc_long_rest (r : list (ptok * ptok)) (idx : nat) : list piece :=
  match r with
  | [] => []
  | (c, i) :: r' =>
      [Tk "," c] ++ (if negb (Nat.eqb (Nat.modulo idx 5) 0) then [sp1] else [])
      ++ (if negb (Nat.eqb idx 0) && Nat.eqb (Nat.modulo idx 5) 0 then [Sp nl] else [])
      ++ [tk i] ++ doc_long_rest r' (S idx)
  end.

Definition doc_key_list (l : key_list) : list piece :=
  match key_items l with
  | [] => [Tk "[" (li_open l); Tk "]" (li_close l)]
  | f :: _ =>
      if Nat.leb (length (key_items l)) 5 then
        [Tk "[" (li_open l); tk f] ++ doc_short_rest (key_rest l) ++ [Tk "]" (li_close l)]
      else
        [Tk "[" (li_open l); Sp nl] ++ indent4ln (tk f :: doc_long_rest (key_rest l) 1) ++ [Tk "]" (li_close l)]
  end.

Definition doc_match_key (k : match_key) : list piece :=
  match k with
  | MKDigits t => [tk t]
  | MKString t => [tk t]
  | MKList l => doc_key_list l
  end.

Definition comma_of (o : option ptok) : ptok := match o with Some k => k | None => new_comma end.

Definition doc_match_pair (p : match_pair) : list piece :=
  indent4ln (doc_match_key (mp_key p)
             ++ [sp1; Tk ":" (mp_colon p); sp1; Tk (trim_space (p_text (mp_ident p))) (mp_ident p); Tk "," (comma_of (mp_comma p))]).

Fixpoint doc_match_pairs (ps : list match_pair) : list piece :=
  match ps with
  | [] => []
  | p :: r => doc_match_pair p ++ doc_match_pairs r
  end.

Definition doc_match_field_decl (d : match_field_decl) : list piece :=
  [Tk "match" (mf_match d); sp1; tk (mf_key d); sp1; Tk "as" (mf_as d); sp1; tk (mf_name d); sp1; Tk "{" (mf_open d); Sp nl]
  ++ doc_match_pairs (mf_pairs d) ++ [Tk "}" (mf_close d)].

Fixpoint doc_field_def (f : field_def) : list piece :=
  match f with
  | ObjectField _ rep ftype fname doc comma =>
      doc_kw rep "repeat" ++ [tk ftype] ++ doc_opt fname ++ doc_opt doc ++ [Tk "," comma]
  | InerObjectField _ rep (InerObjectDecl _ name open fields close) comma =>
      doc_kw rep "repeat" ++ [tk name; sp1; Tk "{" open; Sp nl]
      ++ (fix go (fs : list field_def) : list piece :=
            match fs with
            | [] => []
            | x :: r => indent4ln (doc_field_def x) ++ go r
            end) fields
      ++ [Tk "}" close; Tk "," comma]
  | LengthField _ d => doc_length_field_decl d
  | CheckSumField _ d => doc_checksum_field_decl d
  | MetaField _ rep d => doc_kw rep "repeat" ++ doc_meta_decl d
  | MatchField _ d comma => doc_match_field_decl d ++ [Tk "," comma]
  end.

Fixpoint doc_field_defs (fs : list field_def) : list piece :=
  match fs with
  | [] => []
  | x :: r => indent4ln (doc_field_def x) ++ doc_field_defs r
  end.

Definition doc_field_with_attr (f : field_with_attr) : list piece :=
  doc_field_attributes (fw_attrs f) ++ doc_field_def (fw_def f).

Fixpoint doc_fields_with_attr (fs : list field_with_attr) : list piece :=
  match fs with
  | [] => []
  | f :: r => indent4ln (doc_field_with_attr f) ++ doc_fields_with_attr r
  end.

Definition doc_packet_def (d : packet_def) : list piece :=
  doc_kw (pd_root d) "root" ++ [Tk "packet" (pd_packet d); sp1; tk (pd_name d); sp1; Tk "{" (pd_open d); Sp nl]
  ++ doc_fields_with_attr (pd_fields d) ++ [Tk "}" (pd_close d)].

Definition doc_option_decl (d : option_decl) : list piece :=
  [tk (od_name d); sp1; Tk "=" (od_eq d); sp1] ++ doc_value (od_value d)
  ++ (match od_semi d with Some k => [Tk ";" k] | None => [] end).

Fixpoint doc_option_decls (ds : list option_decl) : list piece :=
  match ds with
  | [] => []
  | d :: r => indent4ln (doc_option_decl d) ++ doc_option_decls r
  end.

Definition doc_option_def (d : option_def) : list piece :=
  [Tk "options" (op_kw d); sp1; Tk "{" (op_open d); Sp nl] ++ doc_option_decls (op_decls d) ++ [Tk "}" (op_close d)].

Definition doc_meta_item (i : meta_item) : list piece :=
  match i with
  | MIRef d => doc_ref_meta_decl d
  | MIDecl d => doc_meta_decl d
  end.

Fixpoint doc_meta_items (items : list meta_item) : list piece :=
  match items with
  | [] => []
  | i :: r => indent4ln (doc_meta_item i) ++ doc_meta_items r
  end.

Definition doc_meta_def (d : meta_def) : list piece :=
  [Tk "MetaData" (me_kw d); sp1; tk (me_name d); sp1; Tk "{" (me_open d); Sp nl] ++ doc_meta_items (me_items d)
  ++ [Tk "}" (me_close d)].

Definition doc_definition (d : definition) : list piece :=
  match d with
  | DPacket x => doc_packet_def x
  | DMeta x => doc_meta_def x
  | DOption x => doc_option_def x
  end.

Fixpoint doc_definitions (ds : list definition) : list piece :=
  match ds with
  | [] => []
  | d :: r => doc_definition d ++ (match r with [] => [] | _ => [Sp (nl ++ nl)%string] end) ++ doc_definitions r
  end.

Definition doc_pt (t : pt) : list piece := doc_definitions (pk_defs t).

(* the printer's token list: (printed text, terminal of the tree) in the order of printing *)
Definition fmt_tokens (t : pt) : list (string * ptok) :=
  flat_map (fun p => match p with Tk s k => [(s, k)] | Sp _ => [] end) (doc_pt t).

(* ------------------------------------------------------------------ canon *)
Definition canon_key_list (l : key_list) : key_list :=
  match key_items l with
  | [] => l
  | f :: _ => mkKeyList (li_span l) (li_open l) f (key_rest l) (li_close l)
  end.

Definition canon_match_key (k : match_key) : match_key :=
  match k with
  | MKList l => MKList (canon_key_list l)
  | _ => k
  end.

Definition canon_match_pair (p : match_pair) : match_pair :=
  mkMatchPair (mp_span p) (canon_match_key (mp_key p)) (mp_colon p) (mp_ident p) (Some (comma_of (mp_comma p))).

Definition canon_match_field_decl (d : match_field_decl) : match_field_decl :=
  mkMatchFieldDecl (mf_span d) (mf_match d) (mf_key d) (mf_as d) (mf_name d) (mf_open d)
    (map canon_match_pair (mf_pairs d)) (mf_close d).

Fixpoint canon_field_def (f : field_def) : field_def :=
  match f with
  | InerObjectField sp rep (InerObjectDecl sp' name open fields close) comma =>
      InerObjectField sp rep (InerObjectDecl sp' name open (map canon_field_def fields) close) comma
  | MatchField sp d comma => MatchField sp (canon_match_field_decl d) comma
  | _ => f
  end.

Definition canon_field_with_attr (f : field_with_attr) : field_with_attr :=
  mkFieldWithAttr (fw_span f) (fw_attrs f) (canon_field_def (fw_def f)).

Definition canon_packet_def (d : packet_def) : packet_def :=
  mkPacketDef (pd_span d) (pd_root d) (pd_packet d) (pd_name d) (pd_open d) (map canon_field_with_attr (pd_fields d)) (pd_close d).

Definition canon_definition (d : definition) : definition :=
  match d with
  | DPacket x => DPacket (canon_packet_def x)
  | _ => d
  end.

Definition canon_pt (t : pt) : pt := mkPacket (pk_start t) (pk_stop t) (map canon_definition (pk_defs t)).

(* ------------------------------------------------------------------ cleanliness of token texts *)
(* a text that begins and ends with a visible ASCII character (33..126): every default-channel
   token of the grammar does (keywords, punctuation, numbers, "..." '...' `...`, identifiers) *)
Definition graphic (b : nat) : bool := Nat.leb 33 b && Nat.leb b 126.
Definition gstart (s : string) : bool :=
  match s with String c _ => graphic (nat_of_ascii c) | EmptyString => false end.
Fixpoint gend (s : string) : bool :=
  match s with
  | EmptyString => false
  | String c EmptyString => graphic (nat_of_ascii c)
  | String _ r => gend r
  end.
Definition clean (s : string) : bool := gstart s && gend s.
Definition clean_toks (l : list ptok) : Prop := Forall (fun k => clean (p_text k) = true) l.

(* no line break inside a token text *)
Fixpoint nl_free (s : string) : bool :=
  match s with EmptyString => true | String c r => negb (is_nl c) && nl_free r end.

(* ------------------------------------------------------------------ Go strings back to runes *)
(* []rune(s): UTF-8 decoding as utf8.DecodeRune does it (U+FFFD for every byte that does not
   start a valid sequence).  Needed to state "format the formatted text again". *)
Open Scope N_scope.
Definition cont_byte (b lo hi : N) : bool := (lo <=? b) && (b <=? hi).

Fixpoint runes_of_bytes (l : list N) : list rune :=
  match l with
  | [] => []
  | b0 :: r =>
      if b0 <? 128 then b0 :: runes_of_bytes r
      else if (194 <=? b0) && (b0 <=? 223) then
        match r with
        | b1 :: r1 =>
            if cont_byte b1 128 191 then ((b0 - 192) * 64 + (b1 - 128)) :: runes_of_bytes r1
            else 65533 :: runes_of_bytes r
        | [] => 65533 :: runes_of_bytes r
        end
      else if (224 <=? b0) && (b0 <=? 239) then
        let lo := if b0 =? 224 then 160 else 128 in
        let hi := if b0 =? 237 then 159 else 191 in
        match r with
        | b1 :: b2 :: r2 =>
            if cont_byte b1 lo hi && cont_byte b2 128 191
            then ((b0 - 224) * 4096 + (b1 - 128) * 64 + (b2 - 128)) :: runes_of_bytes r2
            else 65533 :: runes_of_bytes r
        | _ => 65533 :: runes_of_bytes r
        end
      else if (240 <=? b0) && (b0 <=? 244) then
        let lo := if b0 =? 240 then 144 else 128 in
        let hi := if b0 =? 244 then 143 else 191 in
        match r with
        | b1 :: b2 :: b3 :: r3 =>
            if cont_byte b1 lo hi && cont_byte b2 128 191 && cont_byte b3 128 191
            then ((b0 - 240) * 262144 + (b1 - 128) * 4096 + (b2 - 128) * 64 + (b3 - 128)) :: runes_of_bytes r3
            else 65533 :: runes_of_bytes r
        | _ => 65533 :: runes_of_bytes r
        end
      else 65533 :: runes_of_bytes r
  end.
Close Scope N_scope.

Definition runes_of_string (s : string) : list rune :=
  runes_of_bytes (map N_of_ascii (list_ascii_of_string s)).
