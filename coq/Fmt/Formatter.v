(* The DSL formatter (/repo/internal/parser/packet_dsl_formattor.go, PacketDslFormattor, and
   AddIndent* of /repo/internal/parser/common.go) as a function on the parse tree and the
   full token list.  Model only: no proofs here (Proofs/FmtProofs.v).

   The model follows the Go source function by function and branch by branch, defects
   included (a comment between two tokens of one field is dropped, embedded line breaks of
   doc strings are re-indented, ...): see the comment in front of every function for the Go
   lines it stands for (line numbers of the tree after the repairs 31e9277..ce41d8e).

   STATE.  The formatter keeps one piece of state, the set lineComments of the comment
   tokens it has already printed (a Go map keyed by token pointer).  A token is identified
   by its index in the token stream, so the set is a [list nat] here, threaded through
   every function in Go's evaluation order (monad [M]).

   PANICS.  Go can panic where it dereferences the result of an accessor of an OPTIONAL
   child (ctx.X() is nil when X is absent) and where ANTLR's GetHiddenTokensToLeft/Right
   get an index outside the token list.  Both are explicit results here: [Panic site].
   The tree types make the required children of an error-free parse present by
   construction; what is left to check is that every access to an optional child is
   guarded.  Therefore every dereference of an optional child goes through [deref site o]
   (Panic when o = None) and the Go guards (if ctx.X() != nil) are the [non_nil] tests in
   front of them: remove a guard and the model panics as the Go code would.

   TEXT.  Strings are Go strings: sequences of bytes (token texts are the UTF-8 encoding
   of the token's runes, see Tokens.v). *)
From FP Require Export Lexer Parser Flatten.
Open Scope string_scope.

(* ------------------------------------------------------------------ results, state *)
Inductive res (A : Type) : Type :=
| Ok (a : A)
| Panic (site : string).
Arguments Ok {A} a.
Arguments Panic {A} site.

Definition seen := list nat.
Definition M (A : Type) : Type := seen -> res (A * seen).
Definition ret {A : Type} (a : A) : M A := fun sn => Ok (a, sn).
Definition panic {A : Type} (site : string) : M A := fun _ => Panic site.
Definition bind {A B : Type} (m : M A) (f : A -> M B) : M B :=
  fun sn => match m sn with
            | Ok (a, sn') => f a sn'
            | Panic p => Panic p
            end.
Notation "'do' x '<-' m ';' f" := (bind m (fun x => f))
  (at level 200, x name, m at level 100, f at level 200, right associativity).

(* ctx.X() != nil *)
Definition non_nil {A : Type} (o : option A) : bool := match o with Some _ => true | None => false end.
(* ctx.X().GetText() where X is an optional terminal: a nil dereference when it is absent *)
Definition deref (site : string) (o : option ptok) : M string :=
  match o with
  | Some k => ret (p_text k)
  | None => panic site
  end.

(* ------------------------------------------------------------------ strings *)
Definition nl : string := String (ascii_of_nat 10) EmptyString.
Definition is_nl (c : ascii) : bool := Nat.eqb (nat_of_ascii c) 10.

Fixpoint spaces (n : nat) : string :=
  match n with O => EmptyString | S m => String " " (spaces m) end.

(* strings.ReplaceAll(s, "\n", "\n"+indent) *)
Fixpoint reindent (indent s : string) : string :=
  match s with
  | EmptyString => EmptyString
  | String c r => if is_nl c then String c (indent ++ reindent indent r) else String c (reindent indent r)
  end.

(* common.go AddIndent / AddIndent4 / AddIndent4ln *)
Definition add_indent (s : string) (n : nat) : string := spaces n ++ reindent (spaces n) s.
Definition add_indent4 (s : string) : string := add_indent s 4.
Definition add_indent4ln (s : string) : string := add_indent4 s ++ nl.

(* strings.TrimRight(s, "\n") *)
Fixpoint trim_right_nl (s : string) : string :=
  match s with
  | EmptyString => EmptyString
  | String c r =>
      match trim_right_nl r with
      | EmptyString => if is_nl c then EmptyString else String c EmptyString
      | r' => String c r'
      end
  end.

(* strings.TrimSpace: cuts the runes with unicode.IsSpace from both ends.  On a valid UTF-8
   string (every string here is one) that is cutting these byte sequences:
     09..0D, 20 | C2 85, C2 A0 | E1 9A 80 | E2 80 80..8A, E2 80 A8, E2 80 A9, E2 80 AF |
     E2 81 9F | E3 80 80
   (U+0085 U+00A0 U+1680 U+2000..U+200A U+2028 U+2029 U+202F U+205F U+3000).
   [space_len l]: the length of such a sequence at the head of l, 0 if there is none;
   [rspace_len l]: the same for the reversed byte list (last byte first). *)
Definition bytes_of (s : string) : list nat := map nat_of_ascii (list_ascii_of_string s).
Definition string_of (l : list nat) : string := string_of_list_ascii (map ascii_of_nat l).

Definition ascii_space (b : nat) : bool := (Nat.leb 9 b && Nat.leb b 13) || Nat.eqb b 32.
Definition space3 (b1 b2 b3 : nat) : bool :=
  (Nat.eqb b1 225 && Nat.eqb b2 154 && Nat.eqb b3 128)
  || (Nat.eqb b1 226 && Nat.eqb b2 128 &&
        ((Nat.leb 128 b3 && Nat.leb b3 138) || Nat.eqb b3 168 || Nat.eqb b3 169 || Nat.eqb b3 175))
  || (Nat.eqb b1 226 && Nat.eqb b2 129 && Nat.eqb b3 159)
  || (Nat.eqb b1 227 && Nat.eqb b2 128 && Nat.eqb b3 128).
Definition space2 (b1 b2 : nat) : bool := Nat.eqb b1 194 && (Nat.eqb b2 133 || Nat.eqb b2 160).

Definition space_len (l : list nat) : nat :=
  match l with
  | b1 :: r1 =>
      if ascii_space b1 then 1
      else match r1 with
           | b2 :: r2 =>
               if space2 b1 b2 then 2
               else match r2 with
                    | b3 :: _ => if space3 b1 b2 b3 then 3 else 0
                    | [] => 0
                    end
           | [] => 0
           end
  | [] => 0
  end.

Definition rspace_len (l : list nat) : nat :=
  match l with
  | b3 :: r1 =>
      if ascii_space b3 then 1
      else match r1 with
           | b2 :: r2 =>
               if space2 b2 b3 then 2
               else match r2 with
                    | b1 :: _ => if space3 b1 b2 b3 then 3 else 0
                    | [] => 0
                    end
           | [] => 0
           end
  | [] => 0
  end.

Fixpoint drop_while_len (f : list nat -> nat) (fuel : nat) (l : list nat) : list nat :=
  match fuel with
  | O => l
  | S k => match f l with
           | O => l
           | n => drop_while_len f k (skipn n l)
           end
  end.

Definition trim_space (s : string) : string :=
  let l := bytes_of s in
  let l1 := drop_while_len space_len (length l) l in
  let l2 := drop_while_len rspace_len (length l1) (rev l1) in
  string_of (rev l2).

(* strings.Join *)
Fixpoint join (sep : string) (l : list string) : string :=
  match l with
  | [] => EmptyString
  | [x] => x
  | x :: r => x ++ sep ++ join sep r
  end.

(* ------------------------------------------------------------------ hidden tokens *)
Fixpoint number_from (i : nat) (ts : list tok) : list (nat * tok) :=
  match ts with
  | [] => []
  | t :: r => (i, t) :: number_from (S i) r
  end.

Fixpoint take_hidden (l : list (nat * tok)) : list (nat * tok) :=
  match l with
  | (i, t) :: r => if hidden t then (i, t) :: take_hidden r else []
  | [] => []
  end.

(* CommonTokenStream.GetHiddenTokensToLeft(idx, HIDDEN): the run of off-channel tokens that
   ends right before token idx (nil when there is none); panics when idx is not an index
   of the token list (antlr common_token_stream.go:271). *)
Definition hidden_left (ts : list tok) (idx : nat) : res (list (nat * tok)) :=
  if Nat.ltb idx (length ts) then
    Ok (rev (take_hidden (rev (firstn idx (number_from 0 ts)))))
  else Panic "GetHiddenTokensToLeft: token index out of range".

(* CommonTokenStream.GetHiddenTokensToRight(idx, HIDDEN): the run of off-channel tokens that
   starts right after token idx and ends before the next default-channel token (the EOF
   token is one); panics like the other (common_token_stream.go:246). *)
Definition hidden_right (ts : list tok) (idx : nat) : res (list (nat * tok)) :=
  if Nat.ltb idx (length ts) then
    Ok (take_hidden (skipn (S idx) (number_from 0 ts)))
  else Panic "GetHiddenTokensToRight: token index out of range".

Definition mem_nat (n : nat) (l : list nat) : bool := existsb (Nat.eqb n) l.

(* the loop of getHiddenLeft (formattor.go:53-62) *)
Fixpoint left_loop (hs : list (nat * tok)) (sn : seen) : string * seen :=
  match hs with
  | [] => (EmptyString, sn)
  | (i, t) :: r =>
      if Nat.eqb (type t) T_LINE_COMMENT then
        if mem_nat i sn then left_loop r sn
        else let '(s, sn') := left_loop r (i :: sn) in (text t ++ nl ++ s, sn')
      else left_loop r sn
  end.

(* getHiddenLeft (formattor.go:44-64); token == nil is [None] *)
Definition get_hidden_left (ts : list tok) (token : option ptok) : M string :=
  fun sn =>
    match token with
    | None => Ok (EmptyString, sn)
    | Some k =>
        match hidden_left ts (p_idx k) with
        | Panic p => Panic p
        | Ok hs => Ok (left_loop hs sn)
        end
    end.

(* the loop of getHiddenRightAtSameLine (formattor.go:75-86): a comment on another line
   than the token is skipped WITHOUT being marked *)
Fixpoint right_loop (ln : nat) (hs : list (nat * tok)) (sn : seen) : string * seen :=
  match hs with
  | [] => (EmptyString, sn)
  | (i, t) :: r =>
      if Nat.eqb (type t) T_LINE_COMMENT then
        if mem_nat i sn then right_loop ln r sn
        else if negb (Nat.eqb (line t) ln) then right_loop ln r sn
        else let '(s, sn') := right_loop ln r (i :: sn) in (text t ++ s, sn')
      else right_loop ln r sn
  end.

(* getHiddenRightAtSameLine (formattor.go:66-88) *)
Definition get_hidden_right (ts : list tok) (token : option ptok) : M string :=
  fun sn =>
    match token with
    | None => Ok (EmptyString, sn)
    | Some k =>
        match hidden_right ts (p_idx k) with
        | Panic p => Panic p
        | Ok hs => let '(s, sn') := right_loop (p_line k) hs sn in Ok (trim_right_nl s, sn')
        end
    end.

(* the loop of getHiddenRight (formattor.go:98-107): every comment not printed yet, each after
   a line break *)
Fixpoint right_all_loop (hs : list (nat * tok)) (sn : seen) : string * seen :=
  match hs with
  | [] => (EmptyString, sn)
  | (i, t) :: r =>
      if Nat.eqb (type t) T_LINE_COMMENT then
        if mem_nat i sn then right_all_loop r sn
        else let '(s, sn') := right_all_loop r (i :: sn) in (nl ++ text t ++ s, sn')
      else right_all_loop r sn
  end.

(* getHiddenRight (formattor.go:92-109) *)
Definition get_hidden_right_all (ts : list tok) (token : option ptok) : M string :=
  fun sn =>
    match token with
    | None => Ok (EmptyString, sn)
    | Some k =>
        match hidden_right ts (p_idx k) with
        | Panic p => Panic p
        | Ok hs => Ok (right_all_loop hs sn)
        end
    end.

(* getHiddenBeforeClose (formattor.go:113-119): the comments in front of a closing brace *)
Definition get_hidden_before_close (ts : list tok) (token : option ptok) : M string :=
  do c <- get_hidden_left ts token;
  let comments := trim_right_nl c in
  ret (if string_dec comments EmptyString then EmptyString else add_indent4ln comments).

(* ------------------------------------------------------------------ attributes *)
(* VisitLengthOfAttribute (207-209), VisitCalculatedFromAttribute (212-214) *)
Definition visit_length_of_attr (a : length_of) : string := "@lengthOf(" ++ p_text (lo_from a) ++ ")".
Definition visit_calculated_from_attr (a : calculated_from) : string := "@calculatedFrom(" ++ p_text (cf_from a) ++ ")".

(* VisitPaddingAttribute (217-223); guarded site: PADDING_CHAR *)
Definition visit_padding_attr (a : padding_attr) : M string :=
  do padChar <- (if non_nil (pa_padding a) then deref "VisitPaddingAttribute: PADDING_CHAR" (pa_padding a)
                 else ret EmptyString);
  ret (p_text (pa_attr a) ++ "(" ++ padChar ++ ")").

(* the switch of VisitFieldDefinitionWithAttribute (186-198) *)
Definition visit_field_attribute (a : field_attribute) : M string :=
  match a with
  | FACalculatedFrom _ x => ret (visit_calculated_from_attr x)
  | FALengthOf _ x => ret (visit_length_of_attr x)
  | FAPadding _ x => visit_padding_attr x
  | FATag _ x => ret ("@tag(" ++ p_text (ta_digits x) ++ ")")
  end.

(* the loop of VisitFieldDefinitionWithAttribute: getHiddenLeft of the attribute first *)
Fixpoint visit_field_attributes (ts : list tok) (l : list field_attribute) : M string :=
  match l with
  | [] => ret EmptyString
  | a :: r =>
      do left <- get_hidden_left ts (Some (sp_start (fa_span a)));
      do s <- visit_field_attribute a;
      do rest <- visit_field_attributes ts r;
      ret (left ++ s ++ nl ++ rest)
  end.

(* ctx.Type_().GetText(), ctx.Value().GetText(): the terminals without separators *)
Definition type_text (t : type_) : string := text_of (toks_type t).
Definition value_text (v : value) : string := text_of (toks_value v).

(* ------------------------------------------------------------------ declarations *)
(* VisitLengthFieldDeclaration (353-364); guarded sites: STRING_LITERAL, type (a rule, no
   dereference of a token: Type_().GetText()) *)
Definition visit_length_field_decl (d : length_field_decl) : M string :=
  do desc <- (if non_nil (lf_doc d) then
                do x <- deref "VisitLengthFieldDeclaration: STRING_LITERAL" (lf_doc d); ret (" " ++ x)
              else ret EmptyString);
  let typ := match lf_type d with Some t => type_text t ++ " " | None => EmptyString end in
  ret (typ ++ p_text (lf_name d) ++ " @lengthOf(" ++ p_text (lo_from (lf_length_of d)) ++ ")" ++ desc ++ ",").

(* VisitCheckSumFieldDeclaration (367-378) *)
Definition visit_checksum_field_decl (d : checksum_field_decl) : M string :=
  do desc <- (if non_nil (ck_doc d) then
                do x <- deref "VisitCheckSumFieldDeclaration: STRING_LITERAL" (ck_doc d); ret (" " ++ x)
              else ret EmptyString);
  let typ := match ck_type d with Some t => type_text t ++ " " | None => EmptyString end in
  ret (typ ++ p_text (ck_name d) ++ " @calculatedFrom(" ++ p_text (cf_from (ck_calculated_from d)) ++ ")" ++ desc ++ ",").

(* VisitMetaDataDeclaration (381-398): the type and the comma are required children of an
   error-free tree (the Go guards on them are always taken); guarded site: STRING_LITERAL *)
Definition visit_meta_decl (d : meta_decl) : M string :=
  let typeName := type_text (md_type d) in
  let fieldName := p_text (md_name d) in
  do description <- (if non_nil (md_doc d) then deref "VisitMetaDataDeclaration: STRING_LITERAL" (md_doc d)
                     else ret EmptyString);
  ret (trim_space (typeName ++ " " ++ fieldName ++ " " ++ description) ++ ",").

(* VisitRefMetaDataDeclaration (401-415) *)
Definition visit_ref_meta_decl (d : ref_meta_decl) : M string :=
  let typeName := p_text (rm_typ d) in
  let fieldName := p_text (rm_name d) in
  do description <- (if non_nil (rm_doc d) then
                       do x <- deref "VisitRefMetaDataDeclaration: STRING_LITERAL" (rm_doc d); ret (" " ++ x)
                     else ret EmptyString);
  ret (trim_space (typeName ++ " " ++ fieldName ++ description) ++ ",").

(* ------------------------------------------------------------------ match *)
(* formatStringList (472-491) *)
Fixpoint long_list (itemsPerLine : nat) (values : list string) (idx len : nat) : string :=
  match values with
  | [] => EmptyString
  | v :: r =>
      (if negb (Nat.eqb idx 0) && Nat.eqb (Nat.modulo idx itemsPerLine) 0 then nl else EmptyString)
      ++ v
      ++ (if negb (Nat.eqb idx (len - 1)) then
            "," ++ (if negb (Nat.eqb (Nat.modulo (idx + 1) itemsPerLine) 0) then " " else EmptyString)
          else EmptyString)
      ++ long_list itemsPerLine r (S idx) len
  end.

Definition format_string_list (values : list string) (itemsPerLine : nat) : string :=
  if Nat.leb (length values) itemsPerLine then "[" ++ join ", " values ++ "]"
  else "[" ++ nl ++ add_indent4ln (long_list itemsPerLine values 0 (length values)) ++ "]".

(* the terminal children of the list that are DIGITS or STRING tokens, in source order *)
Definition list_items (l : key_list) : list ptok := li_first l :: map snd (li_rest l).
Definition is_item (k : ptok) : bool := Nat.eqb (p_type k) T_DIGITS || Nat.eqb (p_type k) T_STRING.
Definition key_items (l : key_list) : list ptok := filter is_item (list_items l).

(* the switch on the key of a pair (428-447) *)
Definition match_key_text (k : match_key) : string :=
  match k with
  | MKString t => p_text t
  | MKDigits t => p_text t
  | MKList l => format_string_list (map p_text (key_items l)) 5
  end.

(* the body of the loop of VisitMatchFieldDeclaration (423-456) *)
Definition visit_match_pair (ts : list tok) (p : match_pair) : M string :=
  do c1 <- get_hidden_left ts (Some (sp_start (mp_span p)));
  let lineComment := trim_right_nl c1 in
  let s1 := if string_dec lineComment EmptyString then EmptyString else add_indent4ln lineComment in
  let key := match_key_text (mp_key p) in
  let value := trim_space (p_text (mp_ident p)) ++ "," in
  let s2 := add_indent4ln (key ++ " : " ++ value) in
  do c2 <- get_hidden_right ts (Some (sp_stop (mp_span p)));
  let lineComment2 := trim_right_nl c2 in
  let s3 := if string_dec lineComment2 EmptyString then EmptyString else add_indent4ln lineComment2 in
  ret (s1 ++ s2 ++ s3).

Fixpoint visit_match_pairs (ts : list tok) (ps : list match_pair) : M string :=
  match ps with
  | [] => ret EmptyString
  | p :: r =>
      do a <- visit_match_pair ts p;
      do b <- visit_match_pairs ts r;
      ret (a ++ b)
  end.

(* VisitMatchFieldDeclaration (418-460) *)
Definition visit_match_field_decl (ts : list tok) (d : match_field_decl) : M string :=
  do body <- visit_match_pairs ts (mf_pairs d);
  do close <- get_hidden_before_close ts (Some (sp_stop (mf_span d)));
  ret ("match " ++ p_text (mf_key d) ++ " as " ++ p_text (mf_name d) ++ " {" ++ nl ++ body ++ close ++ "}").

(* ------------------------------------------------------------------ fields *)
(* VisitFieldDefinition (257-297) and VisitInerObjectField (300-320).
   Guarded sites: ObjectField fname and STRING_LITERAL; REPEAT and the COMMA of a match field
   are only tested. *)
Fixpoint visit_field_def (ts : list tok) (f : field_def) : M string :=
  do left <- get_hidden_left ts (Some (sp_start (fd_span f)));
  do body <-
    match f with
    | ObjectField _ rep ftype fname doc _ =>
        let field0 := (if non_nil rep then "repeat " else EmptyString) ++ p_text ftype in
        do field1 <- (if non_nil fname then
                        do x <- deref "VisitFieldDefinition: ObjectField fname" fname; ret (field0 ++ " " ++ x)
                      else ret field0);
        do field2 <- (if non_nil doc then
                        do x <- deref "VisitFieldDefinition: ObjectField STRING_LITERAL" doc; ret (field1 ++ " " ++ x)
                      else ret field1);
        ret (field2 ++ ",")
    | InerObjectField _ rep decl _ => visit_iner_object_field ts rep decl
    | LengthField _ d => visit_length_field_decl d
    | CheckSumField _ d => visit_checksum_field_decl d
    | MetaField _ rep d =>
        do s <- visit_meta_decl d;
        ret ((if non_nil rep then "repeat " else EmptyString) ++ s)
    | MatchField _ d _ =>
        do code <- visit_match_field_decl ts d;
        ret (code ++ ",")        (* COMMA() != nil: a required child *)
    end;
  do right <- get_hidden_right ts (Some (sp_stop (fd_span f)));
  ret (left ++ body ++ right)
with visit_iner_object_field (ts : list tok) (rep : option ptok) (d : iner_object_decl) : M string :=
  match d with
  | InerObjectDecl isp name _ fields _ =>
      let head := (if non_nil rep then "repeat " else EmptyString) ++ p_text name ++ " " ++ "{" ++ nl in
      do body <-
        (fix go (fs : list field_def) : M string :=
           match fs with
           | [] => ret EmptyString
           | f :: r =>
               do result <- visit_field_def ts f;
               do rest <- go r;
               ret (add_indent4ln result ++ rest)
           end) fields;
      do close <- get_hidden_before_close ts (Some (sp_stop isp));
      ret (head ++ body ++ close ++ "},")
  end.

(* VisitFieldDefinitionWithAttribute (181-204) *)
Definition visit_field_with_attr (ts : list tok) (f : field_with_attr) : M string :=
  do attrs <- visit_field_attributes ts (fw_attrs f);
  do d <- visit_field_def ts (fw_def f);
  ret (attrs ++ d).

Fixpoint visit_fields_with_attr (ts : list tok) (fs : list field_with_attr) : M string :=
  match fs with
  | [] => ret EmptyString
  | f :: r =>
      do formatted <- visit_field_with_attr ts f;
      do rest <- visit_fields_with_attr ts r;
      ret (add_indent4ln formatted ++ rest)
  end.

(* ------------------------------------------------------------------ definitions *)
(* VisitPacketDefinition (154-178); guarded site: ROOT (only tested) *)
Definition visit_packet_def (ts : list tok) (d : packet_def) : M string :=
  do left <- get_hidden_left ts (Some (sp_start (pd_span d)));
  do body <- visit_fields_with_attr ts (pd_fields d);
  do close <- get_hidden_before_close ts (Some (sp_stop (pd_span d)));
  do right <- get_hidden_right ts (Some (sp_stop (pd_span d)));
  ret (left ++ (if non_nil (pd_root d) then "root " else EmptyString) ++ "packet " ++ p_text (pd_name d) ++ " {" ++ nl
       ++ body ++ close ++ "}" ++ right).

(* VisitOptionDeclaration (243-254); guarded site: SEMICOLON (only tested) *)
Definition visit_option_decl (ts : list tok) (d : option_decl) : M string :=
  do left <- get_hidden_left ts (Some (sp_start (od_span d)));
  do right <- get_hidden_right ts (Some (sp_stop (od_span d)));
  ret (left ++ p_text (od_name d) ++ " = " ++ value_text (od_value d)
       ++ (if non_nil (od_semi d) then ";" else EmptyString) ++ right).

Fixpoint visit_option_decls (ts : list tok) (ds : list option_decl) : M string :=
  match ds with
  | [] => ret EmptyString
  | d :: r =>
      do a <- visit_option_decl ts d;
      do b <- visit_option_decls ts r;
      ret (add_indent4ln a ++ b)
  end.

(* VisitOptionDefinition (226-240) *)
Definition visit_option_def (ts : list tok) (d : option_def) : M string :=
  do left <- get_hidden_left ts (Some (sp_start (op_span d)));
  do body <- visit_option_decls ts (op_decls d);
  do close <- get_hidden_before_close ts (Some (sp_stop (op_span d)));
  do right <- get_hidden_right ts (Some (sp_stop (op_span d)));
  ret (left ++ "options {" ++ nl ++ body ++ close ++ "}" ++ right).

(* VisitMetaDataDefinition (323-350): the entries are treated like the fields of a packet *)
Definition meta_item_span (i : meta_item) : span :=
  match i with MIDecl d => md_span d | MIRef d => rm_span d end.

Fixpoint visit_meta_items (ts : list tok) (items : list meta_item) : M string :=
  match items with
  | [] => ret EmptyString
  | i :: r =>
      do left <- get_hidden_left ts (Some (sp_start (meta_item_span i)));
      do result <- match i with
                   | MIRef d => visit_ref_meta_decl d
                   | MIDecl d => visit_meta_decl d
                   end;
      do right <- get_hidden_right ts (Some (sp_stop (meta_item_span i)));
      do rest <- visit_meta_items ts r;
      ret (add_indent4ln (left ++ result ++ right) ++ rest)
  end.

Definition visit_meta_def (ts : list tok) (d : meta_def) : M string :=
  do left <- get_hidden_left ts (Some (sp_start (me_span d)));
  do body <- visit_meta_items ts (me_items d);
  do close <- get_hidden_before_close ts (Some (sp_stop (me_span d)));
  do right <- get_hidden_right ts (Some (sp_stop (me_span d)));
  ret (left ++ "MetaData " ++ p_text (me_name d) ++ " {" ++ nl ++ body ++ close ++ "}" ++ right).

(* the loop of VisitPacket (127-146): the children of an error-free [packet] are rule
   contexts only (the rule has no terminal) *)
Fixpoint visit_definitions (ts : list tok) (ds : list definition) : M string :=
  match ds with
  | [] => ret EmptyString
  | d :: r =>
      do s <- match d with
              | DPacket x => visit_packet_def ts x
              | DMeta x => visit_meta_def ts x
              | DOption x => visit_option_def ts x
              end;
      do rest <- visit_definitions ts r;
      ret (s ++ (match r with [] => EmptyString | _ => nl ++ nl end) ++ rest)
  end.

(* VisitPacket (122-151).  GetStart() is never nil (the EOF token for an empty program),
   GetStop() is nil for an empty program: guarded in getHiddenRightAtSameLine (67-69) *)
Definition visit_packet (ts : list tok) (t : pt) : M string :=
  do left <- get_hidden_left ts (Some (pk_start t));
  do body <- visit_definitions ts (pk_defs t);
  do right <- get_hidden_right ts (pk_stop t);
  do trailing <- get_hidden_right_all ts (pk_stop t);
  ret (left ++ body ++ right ++ trailing).

(* tree.Accept(formattor) and the final strings.TrimRight(.., "\n") (FormatPacketDsl, 23-25);
   [ts]: ALL tokens of the text (hidden ones and the EOF token included) *)
Definition fmt_pt_res (ts : list tok) (t : pt) : res string :=
  match visit_packet ts t [] with
  | Ok (s, _) => Ok (trim_right_nl s)
  | Panic p => Panic p
  end.

(* the text alone ("" for a panic; FmtProofs.format_never_panics: there is none on trees
   that [parse] returns) *)
Definition fmt_pt (ts : list tok) (t : pt) : string :=
  match fmt_pt_res ts t with
  | Ok s => s
  | Panic _ => EmptyString
  end.

(* ------------------------------------------------------------------ FormatPacketDsl *)
Inductive fres :=
| FOk (result : string)          (* formatted text, err == nil *)
| FErr (result : string)         (* "syntax errors found": the input is returned *)
| FPanic (site : string).

(* FormatPacketDsl (12-26) on the runes of the text.  The lexer and the parser report to
   the same listener; any error of either makes the function return its input. *)
Definition format_res (s : list rune) : fres :=
  match lex s with
  | None => FErr (string_of_runes s)
  | Some ts =>
      match parse ts with
      | None => FErr (string_of_runes s)
      | Some t =>
          match fmt_pt_res ts t with
          | Ok r => FOk r
          | Panic p => FPanic p
          end
      end
  end.

(* (result, err == nil) *)
Definition format_text (s : list rune) : string * bool :=
  match format_res s with
  | FOk r => (r, true)
  | FErr r => (r, false)
  | FPanic p => ("panic: " ++ p, false)
  end.
