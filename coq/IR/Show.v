(* Canonical text form of the IR, used by the correspondence check to compare the model's
   output with the IR extracted from the real generator output (harness/ir.py prints the
   same format).  Of the reasons of ENone/DNone only "marker" (marker text was emitted) is part of the form. *)
From FP Require Export Sem.
Open Scope list_scope.
Open Scope string_scope.

Definition digit (n : nat) : string := String (ascii_of_nat (48 + n)) EmptyString.
Fixpoint show_nat_aux (fuel n : nat) (acc : string) : string :=
  match fuel with
  | O => acc
  | S f => let acc' := digit (Nat.modulo n 10) ++ acc in
           match Nat.div n 10 with O => acc' | q => show_nat_aux f q acc' end
  end.
Definition show_nat (n : nat) : string := show_nat_aux (S n) n "".
Definition show_bool (b : bool) : string := if b then "T" else "F".
(* strings that may hold quotes or control characters: decimal byte codes separated by '.' *)
Fixpoint show_codes (s : string) : string :=
  match s with
  | EmptyString => ""
  | String c EmptyString => show_nat (nat_of_ascii c)
  | String c r => show_nat (nat_of_ascii c) ++ "." ++ show_codes r
  end.
Definition show_pad (p : padarg) : string :=
  match p with None => "-" | Some (lit, lft) => show_codes lit ++ ":" ++ (if lft then "L" else "R") end.
Definition show_onat (o : option nat) : string := match o with None => "-" | Some n => show_nat n end.
Fixpoint join (sep : string) (l : list string) : string :=
  match l with [] => "" | [x] => x | x :: r => x ++ sep ++ join sep r end.

Fixpoint show_estep (s : estep) : string :=
  match s with
  | EInt w le => "EInt(" ++ show_nat w ++ "," ++ show_bool le ++ ")"
  | EFixed n pad => "EFixed(" ++ show_nat n ++ "," ++ show_pad pad ++ ")"
  | EStr pw ple ele => "EStr(" ++ show_nat pw ++ "," ++ show_bool ple ++ "," ++ show_bool ele ++ ")"
  | EList pw ple ele e => "EList(" ++ show_nat pw ++ "," ++ show_bool ple ++ "," ++ show_bool ele ++ "," ++ show_estep e ++ ")"
  | EObj ty => "EObj(" ++ ty ++ ")"
  | EDyn => "EDyn"
  | EMarkZero m w le => "EMarkZero(" ++ show_nat m ++ "," ++ show_nat w ++ "," ++ show_bool le ++ ")"
  | ESpan e sid => "ESpan(" ++ show_estep e ++ "," ++ show_nat sid ++ ")"
  | EPatch m sid w le cw sl => "EPatch(" ++ show_nat m ++ "," ++ show_nat sid ++ "," ++ show_nat w ++ "," ++ show_bool le
                               ++ "," ++ show_nat cw ++ "," ++ show_onat sl ++ ")"
  | ECheck alg w le => "ECheck(" ++ show_codes alg ++ "," ++ show_nat w ++ "," ++ show_bool le ++ ")"
  | ENone why => if String.eqb why "marker" then "EMarker" else "ENone"
  end.

Fixpoint show_dstep (s : dstep) : string :=
  match s with
  | DInt w le => "DInt(" ++ show_nat w ++ "," ++ show_bool le ++ ")"
  | DFixed n pad => "DFixed(" ++ show_nat n ++ "," ++ show_pad pad ++ ")"
  | DStr pw ple sg => "DStr(" ++ show_nat pw ++ "," ++ show_bool ple ++ "," ++ show_bool sg ++ ")"
  | DList pw ple sg e => "DList(" ++ show_nat pw ++ "," ++ show_bool ple ++ "," ++ show_bool sg ++ "," ++ show_dstep e ++ ")"
  | DObj ty => "DObj(" ++ ty ++ ")"
  | DDispatch t fw k ue =>
      "DDispatch([" ++ join ";" (map (fun '(k, p) => show_codes k ++ ">" ++ p) t) ++ "]," ++ show_bool fw ++ ","
      ++ show_nat k ++ "," ++ show_bool ue ++ ")"
  | DNone why => if String.eqb why "marker" then "DMarker" else "DNone"
  end.

(* members for which nothing is emitted leave no trace in the emitted text *)
Definition e_silent (s : estep) : bool := match s with ENone why => negb (String.eqb why "marker") | _ => false end.
Definition d_silent (s : dstep) : bool := match s with DNone why => negb (String.eqb why "marker") | _ => false end.
Definition show_enc (ir : pkt_ir) : string :=
  join " " (map (fun '(i, s) => show_nat i ++ ":" ++ show_estep s) (filter (fun '(_, s) => negb (e_silent s)) (ir_enc ir))).
Definition show_dec (ir : pkt_ir) : string :=
  join " " (map (fun '(i, s) => show_nat i ++ ":" ++ show_dstep s) (filter (fun '(_, s) => negb (d_silent s)) (ir_dec ir))).
Definition show_pkt (e : string * pkt_ir) : string :=
  let '(path, ir) := e in
  path ++ "{" ++ show_nat (ir_members ir) ++ "|" ++ show_enc ir ++ "|" ++ show_dec ir ++ "}".
Definition show_prog (P : prog) : string := join "#" (map show_pkt P).
